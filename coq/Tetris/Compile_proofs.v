(** Lemmas for property C08 (gridded-cell compiler).  Theorem statements are repeated in
    Properties/C08.v; this file holds the proofs.
    Part 1: segment lists of one track (cut_or_block, set_net, any sequence of operations).
    Part 2: the period instantiation of tracks equals the specification's track positions.
    Part 3: center/span of the repaired code, export_track, per-track realisation.
    Part 4: no panic.  Part 5: closed witnesses (vm_compute) for the code before the repairs. *)
From Coq Require Import ZArith List Bool Lia Permutation.
From L21 Require Import Tetris.Stack Tetris.Tracks Tetris.Compile Tetris.CompileSpec Tetris.CompileCheck.
Import ListNotations.
Local Open Scope Z_scope.

(** * Part 1 *)
(** * Track segment lists *)
Inductive chain : Z -> list seg -> Z -> Prop :=
| chain_nil : forall x, chain x [] x
| chain_cons : forall s l hi, s_start s <= s_stop s -> chain (s_stop s) l hi -> chain (s_start s) (s :: l) hi.

Definition Tiled (span : Z) (segs : list seg) : Prop := segs <> [] /\ chain 0 segs span.

Definition wire_or_rail (t : segtp) : Prop := match t with TWire _ | TRail _ => True | _ => False end.
Definition nonwire (s : seg) : bool := match s_tp s with TCut _ | TBlock _ => true | _ => false end.

Definition splits_at (a b : Z) (tp : segtp) (segs segs' : list seg) : Prop :=
  exists pre s post,
    segs = pre ++ s :: post /\ wire_or_rail (s_tp s) /\ s_start s <= a /\ b <= s_stop s /\
    segs' = pre ++ mkSeg (s_tp s) (s_start s) a :: mkSeg tp a b ::
            (if s_stop s =? b then [] else [mkSeg (s_tp s) b (s_stop s)]) ++ post.

Lemma chain_le : forall lo l hi, chain lo l hi -> lo <= hi.
Proof. induction 1; lia. Qed.

Lemma chain_app : forall l1 lo mid l2 hi, chain lo l1 mid -> chain mid l2 hi -> chain lo (l1 ++ l2) hi.
Proof. induction l1; intros lo mid l2 hi H1 H2; inversion H1; subst; simpl; auto. constructor; eauto. Qed.

Lemma chain_last : forall l lo hi, chain lo l hi -> l <> [] ->
  exists s, last (map Some l) None = Some s /\ s_stop s = hi.
Proof.
  induction l as [|s l IH]; intros lo hi H Hne; [congruence|].
  inversion H as [|s' l' hi' Hle Hch]; subst. destruct l as [|s2 l2].
  - inversion Hch; subst. exists s. split; reflexivity.
  - destruct (IH _ _ Hch) as [x [Hx1 Hx2]]; [congruence|]. exists x. split; auto.
Qed.

Lemma cob_go_ok : forall a b tp l lo hi segs',
  chain lo l hi -> lo <= a -> a < b -> b <= hi ->
  cob_go a b tp l = Ok segs' -> splits_at a b tp l segs' /\ chain lo segs' hi.
Proof.
  intros a b tp l. induction l as [|s l IH]; intros lo hi segs' Hc Hlo Hab Hhi Hgo; simpl in Hgo; [discriminate|].
  inversion Hc as [|s' l' hi' Hle Hch]; subst.
  destruct (s_stop s >? a) eqn:Hs.
  - apply Z.gtb_lt in Hs.
    assert (Hcase : forall tp0, s_tp s = tp0 -> wire_or_rail tp0 ->
       (if s_stop s <? b then Err E_Overlap else
         Ok (mkSeg tp0 (s_start s) a :: mkSeg tp a b :: (if s_stop s =? b then l else mkSeg tp0 b (s_stop s) :: l))) = Ok segs' ->
       splits_at a b tp (s :: l) segs' /\ chain (s_start s) segs' hi).
    { intros tp0 Htp Hw Hr. destruct (s_stop s <? b) eqn:Hb; [discriminate|]. apply Z.ltb_ge in Hb.
      inversion Hr; subst segs'; clear Hr. split.
      - exists [], s, l. rewrite Htp. simpl. repeat split; auto. destruct (s_stop s =? b); reflexivity.
      - apply (chain_cons (mkSeg tp0 (s_start s) a)); simpl; [lia|].
        apply (chain_cons (mkSeg tp a b)); simpl; [lia|].
        destruct (s_stop s =? b) eqn:He.
        + apply Z.eqb_eq in He. rewrite <- He. assumption.
        + apply (chain_cons (mkSeg tp0 b (s_stop s))); simpl; [lia|assumption]. }
    destruct (s_tp s) eqn:Htp; try discriminate.
    + apply (Hcase (TWire net)); simpl; auto.
    + apply (Hcase (TRail k)); simpl; auto.
  - rewrite Z.gtb_ltb in Hs. apply Z.ltb_ge in Hs.
    destruct (cob_go a b tp l) as [r| |] eqn:Hr; simpl in Hgo; try discriminate. inversion Hgo; subst segs'.
    destruct (IH (s_stop s) hi r Hch Hs Hab Hhi eq_refl) as [[pre [s0 [post [E1 [E2 [E3 [E4 E5]]]]]]] Hch2].
    split.
    + exists (s :: pre), s0, post. subst. simpl. repeat split; auto.
    + constructor; auto.
Qed.

Lemma chain_In : forall lo l hi s, chain lo l hi -> In s l -> lo <= s_start s /\ s_start s <= s_stop s /\ s_stop s <= hi.
Proof.
  intros lo l hi s H. induction H as [x|s0 l hi Hle Hch IH]; intros Hin; [destruct Hin|].
  destruct Hin as [->|Hin].
  - pose proof (chain_le _ _ _ Hch). lia.
  - specialize (IH Hin). lia.
Qed.

Lemma cob_go_no_panic : forall a b tp l c, cob_go a b tp l <> Panic c.
Proof.
  intros a b tp l c. induction l as [|s l IH]; simpl; [discriminate|].
  destruct (s_stop s >? a).
  - destruct (s_tp s); try discriminate; destruct (s_stop s <? b); discriminate.
  - destruct (cob_go a b tp l); simpl; try discriminate. intro H; inversion H; subst. apply IH; reflexivity.
Qed.

Definition inside_one (a b : Z) (segs : list seg) : Prop :=
  exists s, In s segs /\ wire_or_rail (s_tp s) /\ s_start s <= a /\ b <= s_stop s.

Lemma cob_go_complete : forall a b tp l lo hi,
  chain lo l hi -> a < b -> inside_one a b l -> exists segs', cob_go a b tp l = Ok segs'.
Proof.
  intros a b tp l lo hi H Hab. induction H as [x|s l hi Hle Hch IH]; intros [s0 [Hin [Hw [Ha Hb]]]]; [destruct Hin|].
  simpl. destruct (s_stop s >? a) eqn:Hs.
  - apply Z.gtb_lt in Hs.
    assert (s0 = s) as ->.
    { destruct Hin as [|Hin]; [congruence|]. destruct (chain_In _ _ _ _ Hch Hin). lia. }
    destruct (s_tp s); simpl in Hw; try contradiction;
      (destruct (s_stop s <? b) eqn:Hb2; [apply Z.ltb_lt in Hb2; lia | eexists; reflexivity]).
  - rewrite Z.gtb_ltb in Hs. apply Z.ltb_ge in Hs.
    destruct Hin as [->|Hin]; [lia|].
    destruct IH as [r Hr]; [exists s0; auto|]. rewrite Hr. simpl. eexists; reflexivity.
Qed.

Lemma splits_inside : forall a b tp l l', splits_at a b tp l l' -> inside_one a b l.
Proof.
  intros a b tp l l' [pre [s [post [E [Hw [Ha [Hb _]]]]]]]. exists s. subst. split; [apply in_or_app; right; left; reflexivity|auto].
Qed.

(** cut_or_block on a tiled track *)
Theorem cut_or_block_preserves : forall span segs a b tp segs',
  Tiled span segs -> 0 <= a -> a < b -> b <= span ->
  cut_or_block a b tp segs = Ok segs' ->
  Tiled span segs' /\ splits_at a b tp segs segs'.
Proof.
  intros span segs a b tp segs' [Hne Hc] Ha Hab Hb H. unfold cut_or_block in H.
  destruct (chain_last _ _ _ Hc Hne) as [l [Hl Hs]]. rewrite Hl in H.
  destruct (b >? s_stop l) eqn:Hgt; [discriminate|].
  destruct (cob_go_ok _ _ _ _ _ _ _ Hc Ha Hab Hb H) as [Hsp Hch].
  split; [|assumption]. split; [|assumption].
  destruct Hsp as [pre [s [post [_ [_ [_ [_ ->]]]]]]]. destruct pre; discriminate.
Qed.

(** the outcome is Ok exactly when the interval lies inside ONE wire or rail segment; otherwise
    (it meets a cut or a blockage, or runs over a segment boundary) it is Err, never a panic *)
Theorem cut_or_block_ok_iff : forall span segs a b tp,
  Tiled span segs -> 0 <= a -> a < b -> b <= span ->
  ((exists segs', cut_or_block a b tp segs = Ok segs') <-> inside_one a b segs) /\
  (forall c, cut_or_block a b tp segs <> Panic c).
Proof.
  intros span segs a b tp [Hne Hc] Ha Hab Hb. unfold cut_or_block.
  destruct (chain_last _ _ _ Hc Hne) as [l [Hl Hs]]. rewrite Hl.
  assert (Hgt : (b >? s_stop l) = false) by (rewrite Z.gtb_ltb; apply Z.ltb_ge; lia). rewrite Hgt.
  split; [split|].
  - intros [segs' H]. destruct (cob_go_ok _ _ _ _ _ _ _ Hc Ha Hab Hb H) as [Hsp _]. eapply splits_inside; eauto.
  - intros Hin. eapply cob_go_complete; eauto.
  - intro c. apply cob_go_no_panic.
Qed.

(** * set_net *)
Definition covers (s : seg) (x : Z) : Prop := s_start s <= x <= s_stop s.

Definition net_set_at (at_ net : Z) (l l' : list seg) : Prop :=
  exists pre s post,
    l = pre ++ s :: post /\ covers s at_ /\ (forall p, In p pre -> ~ covers p at_) /\
    ((exists src, s_tp s = TBlock src /\ l' = l) \/
     (exists n0, s_tp s = TWire n0 /\ l' = pre ++ mkSeg (TWire (Some net)) (s_start s) (s_stop s) :: post)).

Lemma set_net_ok : forall at_ net l lo hi l',
  chain lo l hi -> set_net at_ net l = Ok l' -> chain lo l' hi /\ net_set_at at_ net l l'.
Proof.
  intros at_ net l. induction l as [|s l IH]; intros lo hi l' Hc H; simpl in H; [discriminate|].
  inversion Hc as [|s' l0 hi' Hle Hch]; subst.
  destruct (s_start s >? at_) eqn:Hgt; [discriminate|].
  destruct ((s_start s <=? at_) && (s_stop s >=? at_)) eqn:Hcov.
  - apply andb_prop in Hcov. destruct Hcov as [H1 H2]. apply Z.leb_le in H1. rewrite Z.geb_leb in H2. apply Z.leb_le in H2.
    destruct (s_tp s) eqn:Htp; try discriminate; inversion H; subst l'; clear H.
    + split; [assumption|]. exists [], s, l. simpl. repeat split; auto; try lia. left. eexists; eauto.
    + split.
      * apply (chain_cons (mkSeg (TWire (Some net)) (s_start s) (s_stop s))); simpl; auto.
      * exists [], s, l. simpl. repeat split; auto; try lia. right. eexists; eauto.
  - destruct (set_net at_ net l) as [r| |] eqn:Hr; simpl in H; try discriminate. inversion H; subst l'; clear H.
    destruct (IH _ _ _ Hch eq_refl) as [Hc2 [pre [s0 [post [E [Hcv [Hfirst Hcase]]]]]]].
    split; [constructor; auto|].
    exists (s :: pre), s0, post. subst l. simpl. repeat split; auto; try apply Hcv.
    + intros p [<-|Hp]; [|auto]. unfold covers. intros [A B].
      apply andb_false_iff in Hcov. destruct Hcov as [Hcov|Hcov].
      * apply Z.leb_gt in Hcov. lia.
      * rewrite Z.geb_leb in Hcov. apply Z.leb_gt in Hcov. lia.
    + destruct Hcase as [[src [E1 E2]]|[n0 [E1 E2]]].
      * left. exists src. split; auto. congruence.
      * right. exists n0. split; auto. congruence.
Qed.

Definition is_rail_seg (s : seg) : Prop := match s_tp s with TRail _ => True | _ => False end.

Lemma set_net_no_panic : forall at_ net l c, Forall (fun s => ~ is_rail_seg s) l -> set_net at_ net l <> Panic c.
Proof.
  intros at_ net l c H. induction H as [|s l Hs Hl IH]; simpl; [discriminate|].
  destruct (s_start s >? at_); [discriminate|].
  destruct ((s_start s <=? at_) && (s_stop s >=? at_)).
  - unfold is_rail_seg in Hs. destruct (s_tp s); try discriminate. exfalso; apply Hs; exact I.
  - destruct (set_net at_ net l); simpl; try discriminate. intro E; inversion E; subst. apply IH; reflexivity.
Qed.

(** * any sequence of operations on one track *)
Inductive op := OCut (a b src : Z) | OBlock (a b src : Z) | ONet (at_ net : Z).
Definition apply_op (segs : list seg) (o : op) : res (list seg) :=
  match o with
  | OCut a b src => cut_or_block a b (TCut src) segs
  | OBlock a b src => cut_or_block a b (TBlock src) segs
  | ONet at_ net => set_net at_ net segs
  end.
Definition op_ok (span : Z) (o : op) : Prop :=
  match o with OCut a b _ | OBlock a b _ => 0 <= a /\ a < b /\ b <= span | ONet _ _ => True end.
Definition requested (ops : list op) : list seg :=
  flat_map (fun o => match o with
                     | OCut a b src => [mkSeg (TCut src) a b]
                     | OBlock a b src => [mkSeg (TBlock src) a b]
                     | ONet _ _ => []
                     end) ops.

Lemma filter_nonwire_split : forall a b tp l l',
  splits_at a b tp l l' -> nonwire (mkSeg tp a b) = true ->
  Permutation (filter nonwire l') (mkSeg tp a b :: filter nonwire l).
Proof.
  intros a b tp l l' [pre [s [post [E [Hw [_ [_ ->]]]]]]] Hn. subst l.
  assert (Hs : forall x y, nonwire (mkSeg (s_tp s) x y) = false).
  { intros x y. unfold nonwire; simpl. destruct (s_tp s); simpl in Hw; try contradiction; reflexivity. }
  assert (Hs0 : nonwire s = false).
  { unfold nonwire. destruct (s_tp s); simpl in Hw; try contradiction; reflexivity. }
  rewrite !filter_app. simpl. rewrite Hs, Hn, Hs0.
  replace (filter nonwire ((if s_stop s =? b then [] else [mkSeg (s_tp s) b (s_stop s)]) ++ post)) with (filter nonwire post).
  - apply Permutation_sym, Permutation_middle.
  - destruct (s_stop s =? b); simpl; [reflexivity|]. rewrite Hs. reflexivity.
Qed.

Lemma filter_nonwire_net : forall at_ net l l', net_set_at at_ net l l' -> filter nonwire l' = filter nonwire l.
Proof.
  intros at_ net l l' [pre [s [post [E [_ [_ [[src [_ ->]]|[n0 [Htp ->]]]]]]]]]; [reflexivity|].
  subst l. rewrite !filter_app. simpl. unfold nonwire at 2 4. simpl. rewrite Htp. reflexivity.
Qed.

Lemma net_set_nonempty : forall at_ net l l', net_set_at at_ net l l' -> l' <> [].
Proof.
  intros at_ net l l' [pre [s [post [E [_ [_ [[src [_ ->]]|[n0 [_ ->]]]]]]]]]; subst; destruct pre; discriminate.
Qed.

Theorem track_ops_tiled : forall span ops segs0 segs',
  Tiled span segs0 -> Forall (op_ok span) ops -> foldM apply_op ops segs0 = Ok segs' ->
  Tiled span segs' /\ Permutation (filter nonwire segs') (filter nonwire segs0 ++ requested ops).
Proof.
  intros span ops. induction ops as [|o ops IH]; intros segs0 segs' Ht Hok H; simpl in H.
  - inversion H; subst. split; auto. simpl. rewrite app_nil_r. apply Permutation_refl.
  - inversion Hok as [|o' ops' Ho Hops]; subst.
    destruct (apply_op segs0 o) as [s1| |] eqn:H1; simpl in H; try discriminate.
    assert (Hstep : Tiled span s1 /\ Permutation (filter nonwire s1) (filter nonwire segs0 ++ requested [o])).
    { destruct o as [a b src|a b src|at_ net]; simpl in H1, Ho.
      - destruct Ho as [Ha [Hab Hb]]. destruct (cut_or_block_preserves _ _ _ _ _ _ Ht Ha Hab Hb H1) as [T S].
        split; auto. simpl. eapply Permutation_trans; [apply (filter_nonwire_split _ _ _ _ _ S); reflexivity|].
        apply Permutation_cons_append.
      - destruct Ho as [Ha [Hab Hb]]. destruct (cut_or_block_preserves _ _ _ _ _ _ Ht Ha Hab Hb H1) as [T S].
        split; auto. simpl. eapply Permutation_trans; [apply (filter_nonwire_split _ _ _ _ _ S); reflexivity|].
        apply Permutation_cons_append.
      - destruct Ht as [Hne Hc]. destruct (set_net_ok _ _ _ _ _ _ Hc H1) as [Hc2 Hn].
        split; [split; [eapply net_set_nonempty; eauto|auto]|].
        simpl. rewrite app_nil_r. rewrite (filter_nonwire_net _ _ _ _ Hn). apply Permutation_refl. }
    destruct Hstep as [T1 P1]. destruct (IH _ _ T1 Hops H) as [T2 P2]. split; auto.
    eapply Permutation_trans; [exact P2|].
    change (o :: ops) with ([o] ++ ops). unfold requested in *. rewrite flat_map_app, app_assoc.
    apply Permutation_app_tail. exact P1.
Qed.

(** * the net-assignment phase (after all cuts and blockages, as the exporter orders it) *)
Definition bounds (s : seg) : Z * Z := (s_start s, s_stop s).
Definition netted_covered (done : list (Z * Z)) (l : list seg) : Prop :=
  forall s n, In s l -> s_tp s = TWire (Some n) -> exists at_, In (at_, n) done /\ covers s at_.

Lemma net_set_at_bounds : forall at_ net l l', net_set_at at_ net l l' -> map bounds l' = map bounds l.
Proof.
  intros at_ net l l' [pre [s [post [E [_ [_ [[src [_ ->]]|[n0 [_ ->]]]]]]]]]; [reflexivity|].
  subst l. rewrite !map_app. reflexivity.
Qed.

Lemma net_set_at_covered : forall at_ net l l' done,
  net_set_at at_ net l l' -> netted_covered done l -> netted_covered (done ++ [(at_, net)]) l'.
Proof.
  intros at_ net l l' done [pre [s [post [E [Hcv [_ Hcase]]]]]] Hnc s1 n Hin Htp.
  assert (Hold : In s1 l -> exists a, In (a, n) (done ++ [(at_, net)]) /\ covers s1 a).
  { intros Hi. destruct (Hnc _ _ Hi Htp) as [a [Ha Hc]]. exists a. split; auto. apply in_or_app; left; auto. }
  destruct Hcase as [[src [_ ->]]|[n0 [_ ->]]]; [auto|].
  apply in_app_or in Hin. destruct Hin as [Hin|[<-|Hin]].
  - apply Hold. subst l. apply in_or_app; left; auto.
  - simpl in Htp. inversion Htp; subst n. exists at_. split; [apply in_or_app; right; left; reflexivity|exact Hcv].
  - apply Hold. subst l. apply in_or_app; right; right; auto.
Qed.

Theorem nets_phase : forall nets done l0 l' lo hi,
  chain lo l0 hi -> netted_covered done l0 ->
  foldM (fun l an => set_net (fst an) (snd an) l) nets l0 = Ok l' ->
  chain lo l' hi /\ map bounds l' = map bounds l0 /\ filter nonwire l' = filter nonwire l0 /\
  netted_covered (done ++ nets) l'.
Proof.
  induction nets as [|[at_ net] nets IH]; intros done l0 l' lo hi Hc Hnc H; simpl in H.
  - inversion H; subst. rewrite app_nil_r. auto.
  - destruct (set_net at_ net l0) as [l1| |] eqn:H1; simpl in H; try discriminate.
    destruct (set_net_ok _ _ _ _ _ _ Hc H1) as [Hc1 Hn].
    destruct (IH (done ++ [(at_, net)]) _ _ _ _ Hc1 (net_set_at_covered _ _ _ _ _ Hn Hnc) H) as [A [B [C D]]].
    split; auto. split; [rewrite B; eapply net_set_at_bounds; eauto|].
    split; [rewrite C; eapply filter_nonwire_net; eauto|].
    rewrite <- app_assoc in D. exact D.
Qed.

(** * Part 2 *)
(** * the model's entry list and pitch are the spec's pattern and period *)
Lemma rep_entries_repeat : forall n es, rep_entries n es = concat (repeat es n).
Proof. induction n; intros; simpl; [reflexivity|]. rewrite IHn. reflexivity. Qed.

Lemma entries_flat : forall m, entries m = flat m.
Proof.
  intros m. unfold entries, flat. rewrite flat_map_concat_map. f_equal. apply map_ext.
  intros [e|es n]; simpl; [reflexivity|apply rep_entries_repeat].
Qed.

Lemma fold_left_add : forall l a, fold_left Z.add l a = a + fold_left Z.add l 0.
Proof. induction l as [|x l IH]; intros a; simpl; [lia|]. rewrite IH. rewrite (IH x). lia. Qed.

Lemma total_cons : forall e es, total (e :: es) = e_w e + total es.
Proof. intros. unfold total. simpl. rewrite fold_left_add. lia. Qed.
Lemma total_nil : total [] = 0. Proof. reflexivity. Qed.

Lemma total_sum_w : forall es, total es = sum_w es.
Proof. induction es as [|e es IH]; [reflexivity|]. rewrite total_cons. simpl. lia. Qed.

Lemma total_app : forall l1 l2, total (l1 ++ l2) = total l1 + total l2.
Proof. induction l1 as [|e l1 IH]; intros; [rewrite total_nil; simpl; lia|]. simpl app. rewrite !total_cons, IH. lia. Qed.

Lemma total_rev : forall l, total (rev l) = total l.
Proof. induction l as [|e l IH]; simpl; [reflexivity|]. rewrite total_app, IH, (total_cons e []), (total_cons e l), total_nil. lia. Qed.

Lemma pitch_period_len : forall m, pitch m = period_len m.
Proof. intros. unfold pitch, period_len. rewrite <- total_sum_w, entries_flat. reflexivity. Qed.

(** * signal tracks of a walked entry list *)
Fixpoint sig_list (es : list entry) (c : Z) : list (Z * Z) :=
  match es with
  | [] => []
  | e :: r => match e_tt e with
              | Signal => (c, e_w e) :: sig_list r (c + e_w e)
              | _ => sig_list r (c + e_w e)
              end
  end.

Definition td_pos (d : tdata) : Z * Z := (td_start d, td_width d).

Lemma walk_sig_list : forall es c, map td_pos (filter is_sig (walk es c)) = sig_list es c.
Proof.
  induction es as [|e es IH]; intros c; simpl; [reflexivity|].
  destruct (e_tt e) eqn:Ht; simpl; rewrite ?Ht; simpl; rewrite ?IH; reflexivity.
Qed.

Lemma sig_list_app : forall l1 l2 c, sig_list (l1 ++ l2) c = sig_list l1 c ++ sig_list l2 (c + total l1).
Proof.
  induction l1 as [|e l1 IH]; intros l2 c; simpl.
  - rewrite total_nil. replace (c + 0) with c by lia. reflexivity.
  - rewrite total_cons. replace (c + (e_w e + total l1)) with (c + e_w e + total l1) by lia.
    destruct (e_tt e); simpl; rewrite IH; reflexivity.
Qed.

Lemma sig_list_shift : forall es c d, sig_list es (c + d) = map (fun p => (fst p + d, snd p)) (sig_list es c).
Proof.
  induction es as [|e es IH]; intros c d; simpl; [reflexivity|].
  replace (c + d + e_w e) with (c + e_w e + d) by lia.
  destruct (e_tt e); simpl; rewrite IH; reflexivity.
Qed.

Definition mir (c tot : Z) (p : Z * Z) : Z * Z := (2 * c + tot - fst p - snd p, snd p).

Lemma sig_list_rev : forall es c, sig_list (rev es) c = rev (map (mir c (total es)) (sig_list es c)).
Proof.
  induction es as [|e es IH]; intros c; simpl; [reflexivity|].
  rewrite sig_list_app, total_rev, IH, total_cons.
  assert (Hsh : map (mir c (e_w e + total es)) (sig_list es (c + e_w e)) = map (mir c (total es)) (sig_list es c)).
  { rewrite sig_list_shift, map_map. apply map_ext. intros [s w]. unfold mir; cbn [fst snd]. f_equal. lia. }
  destruct (e_tt e) eqn:Ht; simpl; rewrite Ht; simpl.
  - rewrite Hsh, app_nil_r. reflexivity.
  - rewrite Hsh. unfold mir at 3. cbn [fst snd]. replace (2 * c + (e_w e + total es) - c - e_w e) with (c + total es) by lia. reflexivity.
  - rewrite Hsh, app_nil_r. reflexivity.
Qed.

(** * the spec's index list *)
Definition dflt := mkEntry Gap 0.
Lemma filter_seq_shift : forall (f : nat -> bool) n a,
  filter f (seq (S a) n) = map S (filter (fun i => f (S i)) (seq a n)).
Proof.
  intros f n. induction n as [|n IH]; intros a; simpl; [reflexivity|].
  rewrite IH. destruct (f (S a)); reflexivity.
Qed.

Lemma idx_where_cons : forall p e es,
  idx_where p (e :: es) = (if p (e_tt e) then [O] else []) ++ map S (idx_where p es).
Proof.
  intros p e es. unfold idx_where.
  change (length (e :: es)) with (S (length es)).
  change (seq 0 (S (length es))) with (O :: seq 1 (length es)).
  cbn [filter]. rewrite filter_seq_shift. cbn [nth].
  destruct (p (e_tt e)); reflexivity.
Qed.

Lemma sig_list_idx : forall es c j i,
  nth_error (idx_where is_signal es) j = Some i ->
  nth_error (sig_list es c) j = Some (c + prefix es i, e_w (nth i es dflt)).
Proof.
  induction es as [|e es IH]; intros c j i H.
  - destruct j; discriminate.
  - rewrite idx_where_cons in H. simpl.
    assert (Hrec : forall j', nth_error (map S (idx_where is_signal es)) j' = Some i ->
              nth_error (sig_list es (c + e_w e)) j' = Some (c + prefix (e :: es) i, e_w (nth i (e :: es) dflt))).
    { intros j' Hj. rewrite nth_error_map in Hj. destruct (nth_error (idx_where is_signal es) j') as [i'|] eqn:Hi; [|discriminate].
      inversion Hj; subst i. rewrite (IH _ _ _ Hi). unfold prefix. simpl firstn. rewrite total_cons. simpl nth. f_equal. f_equal. lia. }
    destruct (e_tt e) eqn:Ht; simpl in H.
    + apply Hrec; assumption.
    + destruct j as [|j']; simpl in H.
      * inversion H; subst i. simpl. unfold prefix. simpl. rewrite total_nil. repeat f_equal. lia.
      * simpl. apply Hrec; assumption.
    + apply Hrec; assumption.
Qed.

Lemma sig_list_length : forall es c, length (sig_list es c) = length (idx_where is_signal es).
Proof.
  induction es as [|e es IH]; intros c; [reflexivity|].
  rewrite idx_where_cons, app_length, map_length. simpl.
  destruct (e_tt e); simpl; rewrite IH; reflexivity.
Qed.

Lemma nth_error_rev : forall A (l : list A) k, (k < length l)%nat ->
  nth_error (rev l) k = nth_error l (length l - S k)%nat.
Proof.
  intros A l. induction l as [|a l IH]; intros k Hk; simpl in *; [lia|].
  destruct (Nat.eq_dec k (length l)) as [->|Hne].
  - rewrite nth_error_app2; rewrite rev_length; [|lia]. rewrite Nat.sub_diag. reflexivity.
  - rewrite nth_error_app1; [|rewrite rev_length; lia]. rewrite IH by lia.
    replace (length l - k)%nat with (S (length l - S k))%nat by lia. reflexivity.
Qed.

Lemma mapM_validate : forall stop w ts,
  mapM (fun d => track_validate (fresh_track stop d)) w = Ok ts -> ts = map (fresh_track stop) w.
Proof.
  intros stop w. induction w as [|d w IH]; intros ts H; simpl in H.
  - inversion H; reflexivity.
  - unfold track_validate at 1 in H. destruct (td_width (t_data (fresh_track stop d)) <? 0); simpl in H; [discriminate|].
    destruct (mapM _ w) as [r| |] eqn:Hr; simpl in H; try discriminate.
    inversion H; subst. rewrite (IH r eq_refl). reflexivity.
Qed.

Lemma filter_map_fresh : forall stop (p : tdata -> bool) w,
  filter (fun t => p (t_data t)) (map (fresh_track stop) w) = map (fresh_track stop) (filter p w).
Proof.
  intros stop p w. induction w as [|d w IH]; simpl; [reflexivity|].
  rewrite IH. destruct (p d); reflexivity.
Qed.

Lemma to_layer_period_sigs : forall m q stop sigs rails,
  to_layer_period m q stop = Ok (sigs, rails) ->
  map (fun t => td_pos (t_data t)) sigs = sig_list (period_entries m q) (m_offset m + pitch m * q).
Proof.
  intros m q stop sigs rails H. unfold to_layer_period in H.
  destruct (mapM _ _) as [ts| |] eqn:Hts; simpl in H; try discriminate.
  inversion H; subst sigs rails; clear H.
  rewrite (mapM_validate _ _ _ Hts), filter_map_fresh, map_map. simpl.
  rewrite <- walk_sig_list. reflexivity.
Qed.

Lemma rem2_odd : forall q, 0 <= q -> (Z.rem q 2 =? 1) = Z.odd q.
Proof.
  intros q Hq. rewrite Z.rem_mod_nonneg by lia. rewrite Zmod_odd. destruct (Z.odd q); reflexivity.
Qed.

(** THE TRACK-POSITION THEOREM: in every period (flipped or not, whatever the Repeat structure)
    the r-th signal track instantiated by to_layer_period has exactly the position and width
    the specification gives to signal track number q * n + r *)
Theorem track_pos_model : forall m q stop sigs rails r,
  0 <= q -> to_layer_period m q stop = Ok (sigs, rails) -> 0 <= r < nsig m ->
  option_map (fun t => td_pos (t_data t)) (nth_error sigs (Z.to_nat r)) = track_pos_m m (q * nsig m + r).
Proof.
  intros m q stop sigs rails r Hq H Hr.
  pose proof (to_layer_period_sigs _ _ _ _ _ H) as Hs.
  rewrite <- nth_error_map, Hs. clear Hs H.
  unfold track_pos_m. set (n := nsig m) in *.
  assert (Hn0 : (n =? 0) = false) by (apply Z.eqb_neq; lia).
  assert (Hk0 : (q * n + r <? 0) = false) by (apply Z.ltb_ge; nia).
  rewrite Hn0, Hk0. cbn [orb].
  assert (Hdiv : (q * n + r) / n = q) by (rewrite Z.div_add_l by lia; rewrite Z.div_small by lia; lia).
  assert (Hmod : (q * n + r) mod n = r) by (rewrite Z.add_comm, Z.mod_add by lia; apply Z.mod_small; lia).
  rewrite Hdiv, Hmod.
  unfold period_entries, mirrored. rewrite (rem2_odd _ Hq), entries_flat, pitch_period_len.
  set (es := flat m). set (c0 := m_offset m + period_len m * q).
  assert (Hlen : Z.of_nat (length (idx_where is_signal es)) = n) by reflexivity.
  destruct (m_flip m && Z.odd q) eqn:Hmir.
  - (* mirrored period *)
    rewrite sig_list_rev.
    rewrite nth_error_rev; [|rewrite map_length, sig_list_length; lia].
    rewrite map_length, sig_list_length.
    replace (length (idx_where is_signal es) - S (Z.to_nat r))%nat with (Z.to_nat (n - 1 - r)) by lia.
    destruct (nth_error (sig_idx m) (Z.to_nat (n - 1 - r))) as [i|] eqn:Hi.
    + unfold sig_idx in Hi. fold es in Hi. rewrite nth_error_map, (sig_list_idx _ c0 _ _ Hi). simpl.
      unfold entry_pos, mirrored. rewrite Hmir. fold es. unfold mir; cbn [fst snd]. fold dflt. fold c0.
      f_equal. f_equal. lia.
    + apply nth_error_None in Hi. unfold sig_idx in Hi. fold es in Hi. lia.
  - destruct (nth_error (sig_idx m) (Z.to_nat r)) as [i|] eqn:Hi.
    + unfold sig_idx in Hi. fold es in Hi. rewrite (sig_list_idx _ c0 _ _ Hi).
      unfold entry_pos, mirrored. rewrite Hmir. fold es. fold dflt. fold c0. reflexivity.
    + apply nth_error_None in Hi. unfold sig_idx in Hi. fold es in Hi. lia.
Qed.

(** * Part 3 *)
(** * center / span of the repaired code agree with the specification's track positions *)
Lemma validate_metal_data : forall px py m index vm,
  validate_metal px py m index = Ok vm ->
  vm_spec vm = m /\ vm_index vm = index /\ vm_pitch vm = pitch m /\ 0 < pitch m /\
  vm_sigs vm = filter is_sig (walk (entries m) (m_offset m)).
Proof.
  intros px py m index vm H. unfold validate_metal in H.
  destruct (assert (forallb _ _) 201) as [u1| |]; simpl in H; try discriminate.
  destruct (assert (pitch m >? 0) 202) as [u2| |] eqn:Hp; simpl in H; try discriminate.
  destruct (if m_primgrid m then _ else _) as [u3| |]; simpl in H; try discriminate.
  unfold to_layer_period_data in H. inversion H; subst vm; clear H. simpl.
  repeat split; auto. unfold assert in Hp. destruct (pitch m >? 0) eqn:E; [|discriminate]. apply Z.gtb_lt in E. lia.
Qed.

Theorem track_start_width_spec : forall px py m index vm k,
  validate_metal px py m index = Ok vm -> 0 <= k -> 0 < nsig m ->
  exists p, track_pos_m m k = Some p /\ track_start_width fixed vm k = Ok p.
Proof.
  intros px py m index vm k Hv Hk Hn.
  destruct (validate_metal_data _ _ _ _ _ Hv) as [Hspec [_ [Hpitch [Hppos Hsigs]]]].
  assert (Hpos : map td_pos (vm_sigs vm) = sig_list (flat m) (m_offset m)).
  { rewrite Hsigs, walk_sig_list, entries_flat. reflexivity. }
  assert (Hlen : zlen (vm_sigs vm) = nsig m).
  { unfold zlen, nsig, sig_idx. rewrite <- (map_length td_pos), Hpos, sig_list_length. reflexivity. }
  unfold track_start_width, track_pos_m. rewrite Hlen, Hspec, Hpitch.
  set (n := nsig m) in *.
  assert (Hn0 : (n =? 0) = false) by (apply Z.eqb_neq; lia).
  assert (Hk0 : (k <? 0) = false) by (apply Z.ltb_ge; lia).
  rewrite Hn0, Hk0. cbn [orb].
  rewrite (Z.quot_div_nonneg k n), (Z.rem_mod_nonneg k n) by lia.
  pose proof (Z.mod_pos_bound k n Hn) as Hr.
  assert (Hq : 0 <= k / n) by (apply Z.div_pos; lia).
  set (q := k / n) in *. set (r := k mod n) in *.
  unfold mirrored. cbn [fx_flip fixed andb]. rewrite (rem2_odd _ Hq).
  set (es := flat m) in *.
  assert (HL : Z.of_nat (length (idx_where is_signal es)) = n) by reflexivity.
  assert (Hnth : forall j i, nth_error (sig_idx m) j = Some i ->
            exists t, nth_error (vm_sigs vm) j = Some t /\ td_pos t = (m_offset m + prefix es i, e_w (nth i es dflt))).
  { intros j i Hi. unfold sig_idx in Hi. fold es in Hi.
    pose proof (sig_list_idx es (m_offset m) j i Hi) as Hs. rewrite <- Hpos, nth_error_map in Hs.
    destruct (nth_error (vm_sigs vm) j) as [t|]; [|discriminate]. exists t. split; auto. inversion Hs; auto. }
  destruct (m_flip m && Z.odd q) eqn:Hmir.
  - destruct (nth_error (sig_idx m) (Z.to_nat (n - 1 - r))) as [i|] eqn:Hi.
    + destruct (Hnth _ _ Hi) as [t [Ht Hp]]. rewrite Ht. eexists; split; [reflexivity|].
      unfold entry_pos, mirrored. rewrite Hmir. fold es. fold dflt.
      unfold td_pos in Hp. inversion Hp as [[Hp1 Hp2]]. rewrite Hp1, Hp2. f_equal. f_equal.
      rewrite pitch_period_len. unfold period_len. fold es. lia.
    + apply nth_error_None in Hi. unfold sig_idx in Hi. fold es in Hi. lia.
  - destruct (nth_error (sig_idx m) (Z.to_nat r)) as [i|] eqn:Hi.
    + destruct (Hnth _ _ Hi) as [t [Ht Hp]]. rewrite Ht. eexists; split; [reflexivity|].
      unfold entry_pos, mirrored. rewrite Hmir. fold es. fold dflt.
      unfold td_pos in Hp. inversion Hp as [[Hp1 Hp2]]. rewrite Hp1, Hp2. f_equal. f_equal.
      rewrite pitch_period_len. lia.
    + apply nth_error_None in Hi. unfold sig_idx in Hi. fold es in Hi. lia.
Qed.

(** * from segments to rectangles *)
Definition seg_net (s : seg) : option Z :=
  match s_tp s with TWire n => n | TRail k => Some (rail_net k) | _ => None end.
Definition rect_of (horiz : bool) (lay : Z) (d : tdata) (s : seg) : shape :=
  if horiz then mkShape lay (s_start s) (td_start d) (s_stop s) (td_start d + td_width d) (seg_net s)
  else mkShape lay (td_start d) (s_start s) (td_start d + td_width d) (s_stop s) (seg_net s).
Definition is_wire (s : seg) : bool := negb (nonwire s).

Definition seg_fn (vs : vstack) (vm : vmetal) (t : track) (s : seg) : res (list shape) :=
  let mk (net : option Z) :=
    do m <- metal_at vs (vm_index vm);
    match m_raw (vm_spec m) with
    | None => Panic 540
    | Some lay =>
      let d := t_data t in
      Ok [if m_horiz (vm_spec vm)
          then mkShape lay (s_start s) (td_start d) (s_stop s) (td_start d + td_width d) net
          else mkShape lay (td_start d) (s_start s) (td_start d + td_width d) (s_stop s) net]
    end in
  match s_tp s with
  | TWire net => mk net
  | TRail k => mk (Some (rail_net k))
  | TCut _ | TBlock _ => Ok []
  end.

Lemma export_track_unfold : forall vs vm t,
  export_track vs vm t = (do r <- mapM (seg_fn vs vm t) (t_segs t); Ok (concat r)).
Proof. reflexivity. Qed.

Lemma mapM_pure : forall A B (f : A -> res B) (g : A -> B) l,
  (forall x, f x = Ok (g x)) -> mapM f l = Ok (map g l).
Proof.
  intros A B f g l H. induction l as [|x l IH]; simpl; [reflexivity|]. rewrite H, IH. reflexivity.
Qed.

Lemma export_track_shapes : forall vs vm vm0 lay t,
  metal_at vs (vm_index vm) = Ok vm0 -> m_raw (vm_spec vm0) = Some lay ->
  export_track vs vm t = Ok (map (rect_of (m_horiz (vm_spec vm)) lay (t_data t)) (filter is_wire (t_segs t))).
Proof.
  intros vs vm vm0 lay t Hm Hr. rewrite export_track_unfold.
  rewrite (mapM_pure _ _ _ (fun s => if is_wire s then [rect_of (m_horiz (vm_spec vm)) lay (t_data t) s] else [])).
  - cbn [bind]. f_equal. induction (t_segs t) as [|s l IH]; simpl; [reflexivity|].
    rewrite IH. destruct (is_wire s); reflexivity.
  - intros s. unfold seg_fn, is_wire, nonwire, rect_of, seg_net.
    destruct (s_tp s); cbn [negb]; try reflexivity; rewrite Hm; cbn [bind]; rewrite Hr; reflexivity.
Qed.

Lemma chain_tiles : forall lo l hi, chain lo l hi -> tiles (map bounds l) lo hi.
Proof. induction 1; simpl; constructor; auto. Qed.

Lemma filter_partition_perm : forall A (p : A -> bool) l,
  Permutation l (filter p l ++ filter (fun x => negb (p x)) l).
Proof.
  intros A p l. induction l as [|x l IH]; simpl; [constructor|].
  destruct (p x); simpl; [constructor; auto|]. apply Permutation_cons_app. exact IH.
Qed.

(** PER-TRACK REALISATION (the proved part of the tiling property): start from the fresh full-length
    segment of a track, apply ANY sequence of cut / block / set_net operations that all return Ok;
    then the rectangles export_track draws, together with exactly the requested cut and blockage
    intervals, tile [0, span], and every rectangle sits at the track's start and width *)
Theorem track_realised : forall vs vm vm0 lay d span ops segs' shapes,
  metal_at vs (vm_index vm) = Ok vm0 -> m_raw (vm_spec vm0) = Some lay ->
  0 <= span -> Forall (op_ok span) ops ->
  foldM apply_op ops (t_segs (fresh_track span d)) = Ok segs' ->
  export_track vs vm (mkTrack d segs') = Ok shapes ->
  tiles_set (map (sh_along (vm_spec vm)) shapes ++ map bounds (requested ops)) 0 span /\
  Forall (fun s => sh_layer s = lay /\ sh_across (vm_spec vm) s = (td_start d, td_start d + td_width d)) shapes.
Proof.
  intros vs vm vm0 lay d span ops segs' shapes Hm Hr Hsp Hops Hf He.
  rewrite (export_track_shapes _ _ _ _ _ Hm Hr) in He. inversion He; subst shapes; clear He. cbn [t_data t_segs].
  assert (HT : Tiled span (t_segs (fresh_track span d))).
  { unfold fresh_track; cbn [t_segs]. split; [discriminate|]. apply (chain_cons (mkSeg _ 0 span)); simpl; [lia|constructor]. }
  destruct (track_ops_tiled _ _ _ _ HT Hops Hf) as [[_ Hc] Hp].
  assert (Hnw0 : filter nonwire (t_segs (fresh_track span d)) = []).
  { unfold fresh_track; cbn [t_segs filter]. unfold nonwire; simpl. destruct (td_tt d); reflexivity. }
  rewrite Hnw0 in Hp. cbn [app] in Hp.
  split.
  - exists (map bounds segs'). split; [|apply chain_tiles; assumption].
    eapply Permutation_trans; [apply Permutation_map, (filter_partition_perm _ nonwire)|].
    rewrite map_app. eapply Permutation_trans; [apply Permutation_app_comm|].
    apply Permutation_app.
    + rewrite map_map. unfold is_wire.
      replace (map (fun x => sh_along (vm_spec vm) (rect_of (m_horiz (vm_spec vm)) lay d x)) (filter (fun x => negb (nonwire x)) segs'))
        with (map bounds (filter (fun x => negb (nonwire x)) segs')); [apply Permutation_refl|].
      apply map_ext. intros s. unfold sh_along, rect_of, bounds. destruct (m_horiz (vm_spec vm)); reflexivity.
    + apply Permutation_map. exact Hp.
  - apply Forall_forall. intros s Hin. apply in_map_iff in Hin. destruct Hin as [g [<- _]].
    unfold rect_of, sh_across. destruct (m_horiz (vm_spec vm)); simpl; auto.
Qed.

(** * Part 4: the repaired code never panics *)
Definition np {A} (r : res A) : Prop := forall c, r <> Panic c.

Lemma np_ok : forall A (a : A), np (Ok a). Proof. intros A a c; discriminate. Qed.
Lemma np_err : forall A e, np (@Err A e). Proof. intros A e c; discriminate. Qed.
Lemma np_assert : forall b e, np (assert b e). Proof. intros b e c. unfold assert. destruct b; discriminate. Qed.
Global Hint Resolve np_ok np_err np_assert : np.

Lemma np_bind : forall A B (x : res A) (f : A -> res B),
  np x -> (forall a, x = Ok a -> np (f a)) -> np (bind x f).
Proof.
  intros A B x f Hx Hf c. destruct x as [a|e|p]; simpl.
  - apply Hf. reflexivity.
  - discriminate.
  - exfalso. apply (Hx p). reflexivity.
Qed.

Lemma np_mapM : forall A B (f : A -> res B) l, (forall x, In x l -> np (f x)) -> np (mapM f l).
Proof.
  intros A B f l. induction l as [|x l IH]; intros H; simpl; [apply np_ok|].
  apply np_bind; [apply H; left; reflexivity|]. intros y _.
  apply np_bind; [apply IH; intros z Hz; apply H; right; assumption|]. intros; apply np_ok.
Qed.

Lemma mapM_In : forall A B (f : A -> res B) l r y, mapM f l = Ok r -> In y r -> exists x, In x l /\ f x = Ok y.
Proof.
  intros A B f l. induction l as [|x l IH]; intros r y H Hy; simpl in H.
  - inversion H; subst. destruct Hy.
  - destruct (f x) as [b| |] eqn:Hb; simpl in H; try discriminate.
    destruct (mapM f l) as [bs| |] eqn:Hbs; simpl in H; try discriminate.
    inversion H; subst. destruct Hy as [<-|Hy].
    + exists x. split; [left; reflexivity|assumption].
    + destruct (IH _ _ eq_refl Hy) as [x0 [H1 H2]]. exists x0. split; [right; assumption|assumption].
Qed.

Lemma np_foldM : forall A S (I : S -> Prop) (f : S -> A -> res S) l s0,
  I s0 -> (forall s x, I s -> In x l -> np (f s x) /\ forall s', f s x = Ok s' -> I s') ->
  np (foldM f l s0) /\ forall s', foldM f l s0 = Ok s' -> I s'.
Proof.
  intros A S I f l. induction l as [|x l IH]; intros s0 H0 Hstep; simpl.
  - split; [apply np_ok|]. intros s' E; inversion E; subst; assumption.
  - destruct (Hstep s0 x H0 (or_introl eq_refl)) as [Hnp Hinv].
    destruct (f s0 x) as [s1|e|p] eqn:Hf; simpl.
    + apply IH; [apply Hinv; reflexivity|]. intros s y Hs Hy. apply Hstep; [assumption|right; assumption].
    + split; [apply np_err|discriminate].
    + exfalso. apply (Hnp p). reflexivity.
Qed.

(** ** tracks *)
Definition norail (l : list seg) : Prop := Forall (fun s => ~ is_rail_seg s) l.

Lemma cob_go_inv : forall a b tp l l', cob_go a b tp l = Ok l' ->
  l' <> [] /\ (norail l -> ~ is_rail_seg (mkSeg tp a b) -> norail l').
Proof.
  intros a b tp l. induction l as [|s l IH]; intros l' H; simpl in H; [discriminate|].
  destruct (s_stop s >? a).
  - assert (Hc : forall tp0, s_tp s = tp0 ->
        (if s_stop s <? b then Err E_Overlap else
          Ok (mkSeg tp0 (s_start s) a :: mkSeg tp a b :: (if s_stop s =? b then l else mkSeg tp0 b (s_stop s) :: l))) = Ok l' ->
        l' <> [] /\ (norail (s :: l) -> ~ is_rail_seg (mkSeg tp a b) -> norail l')).
    { intros tp0 Htp Hr. destruct (s_stop s <? b); [discriminate|]. inversion Hr; subst l'; clear Hr.
      split; [discriminate|]. intros Hn Hnr. inversion Hn as [|s0 l0 Hs Hl]; subst.
      assert (Hs' : forall x y, ~ is_rail_seg (mkSeg (s_tp s) x y)) by (intros x y; exact Hs).
      constructor; [apply Hs'|]. constructor; [assumption|].
      destruct (s_stop s =? b); [assumption|constructor; [apply Hs'|assumption]]. }
    destruct (s_tp s) eqn:Htp; try discriminate.
    + apply (Hc (TWire net)); auto.
    + apply (Hc (TRail k)); auto.
  - destruct (cob_go a b tp l) as [r| |] eqn:Hr; simpl in H; try discriminate. inversion H; subst l'.
    split; [discriminate|]. intros Hn Hnr. inversion Hn; subst. constructor; [assumption|].
    apply (IH r eq_refl); assumption.
Qed.

Lemma cut_or_block_np : forall a b tp l, l <> [] -> np (cut_or_block a b tp l).
Proof.
  intros a b tp l Hne c. unfold cut_or_block.
  destruct l as [|s l]; [congruence|].
  assert (exists x, last (map Some (s :: l)) None = Some x) as [x ->].
  { clear. revert s. induction l as [|s2 l IH]; intros s; [exists s; reflexivity|]. destruct (IH s2) as [x Hx]. exists x. exact Hx. }
  destruct (b >? s_stop x); [discriminate|apply cob_go_no_panic].
Qed.

Lemma cut_or_block_inv : forall a b tp l l', cut_or_block a b tp l = Ok l' ->
  l' <> [] /\ (norail l -> ~ is_rail_seg (mkSeg tp a b) -> norail l').
Proof.
  intros a b tp l l' H. unfold cut_or_block in H.
  destruct (last (map Some l) None); [|discriminate]. destruct (b >? s_stop s); [discriminate|].
  eapply cob_go_inv; eauto.
Qed.

Lemma set_net_inv : forall at_ net l l', set_net at_ net l = Ok l' -> l' <> [] /\ (norail l -> norail l').
Proof.
  intros at_ net l. induction l as [|s l IH]; intros l' H; simpl in H; [discriminate|].
  destruct (s_start s >? at_); [discriminate|].
  destruct ((s_start s <=? at_) && (s_stop s >=? at_)).
  - destruct (s_tp s) eqn:Htp; try discriminate; inversion H; subst l'; (split; [discriminate|]); auto.
    intros Hn. inversion Hn; subst. constructor; auto; unfold is_rail_seg; simpl; auto.
  - destruct (set_net at_ net l) as [r| |] eqn:Hr; simpl in H; try discriminate. inversion H; subst l'.
    split; [discriminate|]. intros Hn. inversion Hn; subst. constructor; auto. apply (IH r eq_refl); assumption.
Qed.

(** invariant of the tracks of a period: every track has segments; signal tracks have no rail segment *)
Definition trk_ok (t : track) : Prop := t_segs t <> [].
Definition sig_ok (t : track) : Prop := t_segs t <> [] /\ norail (t_segs t).

Lemma track_block_np : forall a b src t, trk_ok t -> np (track_block a b src t).
Proof. intros. unfold track_block. apply np_bind; [apply cut_or_block_np; assumption|intros; apply np_ok]. Qed.
Lemma track_block_trk : forall a b src t t', track_block a b src t = Ok t' -> trk_ok t'.
Proof.
  intros a b src t t' H. unfold track_block in H. destruct (cut_or_block _ _ _ _) as [s| |] eqn:E; simpl in H; try discriminate.
  inversion H; subst. unfold trk_ok; simpl. apply (cut_or_block_inv _ _ _ _ _ E).
Qed.
Lemma track_block_sig : forall a b src t t', sig_ok t -> track_block a b src t = Ok t' -> sig_ok t'.
Proof.
  intros a b src t t' [_ Hn] H. unfold track_block in H. destruct (cut_or_block _ _ _ _) as [s| |] eqn:E; simpl in H; try discriminate.
  inversion H; subst. destruct (cut_or_block_inv _ _ _ _ _ E) as [A B]. split; simpl; [exact A|]. apply B; [exact Hn|]. unfold is_rail_seg; simpl; tauto.
Qed.
Lemma track_cut_np : forall a b src t, sig_ok t -> np (track_cut a b src t).
Proof. intros a b src t [H _]. unfold track_cut. apply np_bind; [apply cut_or_block_np; assumption|intros; apply np_ok]. Qed.
Lemma track_cut_sig : forall a b src t t', sig_ok t -> track_cut a b src t = Ok t' -> sig_ok t'.
Proof.
  intros a b src t t' [_ Hn] H. unfold track_cut in H. destruct (cut_or_block _ _ _ _) as [s| |] eqn:E; simpl in H; try discriminate.
  inversion H; subst. destruct (cut_or_block_inv _ _ _ _ _ E) as [A B]. split; simpl; [exact A|]. apply B; [exact Hn|]. unfold is_rail_seg; simpl; tauto.
Qed.
Lemma track_set_net_np : forall a n t, sig_ok t -> np (track_set_net a n t).
Proof.
  intros a n t [_ H]. unfold track_set_net. apply np_bind; [|intros; apply np_ok].
  intro c. apply set_net_no_panic. exact H.
Qed.
Lemma track_set_net_sig : forall a n t t', sig_ok t -> track_set_net a n t = Ok t' -> sig_ok t'.
Proof.
  intros a n t t' [_ Hn] H. unfold track_set_net in H. destruct (set_net _ _ _) as [s| |] eqn:E; simpl in H; try discriminate.
  inversion H; subst. destruct (set_net_inv _ _ _ _ E) as [A B]. split; simpl; auto.
Qed.

Lemma mapM_Forall : forall A B (f : A -> res B) (P : A -> Prop) (Q : B -> Prop) l r,
  (forall x y, P x -> f x = Ok y -> Q y) -> Forall P l -> mapM f l = Ok r -> Forall Q r /\ length r = length l.
Proof.
  intros A B f P Q l. induction l as [|x l IH]; intros r Hf Hl H; simpl in H.
  - inversion H; subst. split; [constructor|reflexivity].
  - inversion Hl; subst. destruct (f x) as [y| |] eqn:Hy; simpl in H; try discriminate.
    destruct (mapM f l) as [ys| |] eqn:Hys; simpl in H; try discriminate. inversion H; subst.
    destruct (IH ys Hf H3 eq_refl) as [A1 A2]. split; [constructor; eauto|simpl; congruence].
Qed.

Lemma period_block_np : forall a b src sigs rails,
  Forall sig_ok sigs -> Forall trk_ok rails -> np (period_block a b src (sigs, rails)).
Proof.
  intros a b src sigs rails Hs Hr. unfold period_block.
  apply np_bind; [apply np_mapM; intros t Ht; apply track_block_np; rewrite Forall_forall in Hr; auto|]. intros r _.
  apply np_bind; [apply np_mapM; intros t Ht; apply track_block_np; rewrite Forall_forall in Hs; apply Hs; auto|].
  intros; apply np_ok.
Qed.
Lemma period_block_inv : forall a b src sigs rails sigs' rails',
  Forall sig_ok sigs -> Forall trk_ok rails -> period_block a b src (sigs, rails) = Ok (sigs', rails') ->
  Forall sig_ok sigs' /\ Forall trk_ok rails' /\ length sigs' = length sigs.
Proof.
  intros a b src sigs rails sigs' rails' Hs Hr H. unfold period_block in H.
  destruct (mapM (track_block a b src) rails) as [r| |] eqn:E1; simpl in H; try discriminate.
  destruct (mapM (track_block a b src) sigs) as [s| |] eqn:E2; simpl in H; try discriminate.
  inversion H; subst.
  destruct (mapM_Forall _ _ _ trk_ok trk_ok _ _ (fun x y _ => track_block_trk a b src x y) Hr E1) as [A1 _].
  destruct (mapM_Forall _ _ _ sig_ok sig_ok _ _ (fun x y Hx => track_block_sig a b src x y Hx) Hs E2) as [A2 A3].
  auto.
Qed.

(** ** the validated stack *)
Definition stack_drawable (st : stack) : Prop :=
  Forall (fun m => m_raw m <> None) (s_metals st) /\ Forall (fun v => v_raw v <> None) (s_vias st).
Definition good_vm (vm : vmetal) : Prop :=
  m_raw (vm_spec vm) <> None /\ 0 < vm_pitch vm /\
  vm_sigs vm = filter is_sig (walk (entries (vm_spec vm)) (m_offset (vm_spec vm))).
Definition good_vs (vs : vstack) : Prop :=
  0 < s_px (vs_stack vs) /\ 0 < s_py (vs_stack vs) /\ Forall good_vm (vs_metals vs) /\
  Forall (fun v => v_raw v <> None) (s_vias (vs_stack vs)).

Lemma validate_metal_np : forall px py m i, np (validate_metal px py m i).
Proof.
  intros. unfold validate_metal.
  apply np_bind; [apply np_assert|]. intros _ _.
  apply np_bind; [apply np_assert|]. intros _ _.
  apply np_bind; [destruct (m_primgrid m); [apply np_assert|apply np_ok]|]. intros _ _.
  destruct (to_layer_period_data m). apply np_ok.
Qed.

Lemma validate_metals_np : forall px py ms i, np (validate_metals px py ms i).
Proof.
  intros px py ms. induction ms as [|m ms IH]; intros i; simpl; [apply np_ok|].
  apply np_bind; [apply validate_metal_np|]. intros v _.
  apply np_bind; [apply IH|]. intros; apply np_ok.
Qed.

Lemma validate_metals_good : forall px py ms i vms,
  Forall (fun m => m_raw m <> None) ms -> validate_metals px py ms i = Ok vms -> Forall good_vm vms.
Proof.
  intros px py ms. induction ms as [|m ms IH]; intros i vms Hd H; simpl in H.
  - inversion H; constructor.
  - inversion Hd; subst. destruct (validate_metal px py m i) as [v| |] eqn:Hv; simpl in H; try discriminate.
    destruct (validate_metals px py ms (i + 1)) as [vs| |] eqn:Hvs; simpl in H; try discriminate.
    inversion H; subst. constructor; [|eapply IH; eauto].
    destruct (validate_metal_data _ _ _ _ _ Hv) as [A [_ [B [C D]]]].
    unfold good_vm. rewrite A. repeat split; auto. lia.
Qed.

Lemma validate_stack_np : forall st, np (validate_stack st).
Proof.
  intros. unfold validate_stack.
  apply np_bind; [apply np_assert|]. intros _ _.
  apply np_bind; [apply np_assert|]. intros _ _.
  apply np_bind; [apply validate_metals_np|]. intros; apply np_ok.
Qed.

Lemma validate_stack_good : forall st vs, stack_drawable st -> validate_stack st = Ok vs -> good_vs vs.
Proof.
  intros st vs [Hm Hv] H. unfold validate_stack in H.
  unfold assert in H.
  destruct (s_px st >? 0) eqn:Hx; simpl in H; [|discriminate].
  destruct (s_py st >? 0) eqn:Hy; simpl in H; [|discriminate].
  destruct (validate_metals _ _ _ _) as [vms| |] eqn:Hvms; simpl in H; try discriminate.
  inversion H; subst vs; clear H. unfold good_vs; simpl.
  apply Z.gtb_lt in Hx. apply Z.gtb_lt in Hy. repeat split; auto; try lia.
  eapply validate_metals_good; eauto.
Qed.

Lemma metal_at_np : forall vs i, np (metal_at vs i).
Proof. intros vs i c. unfold metal_at. destruct (i <? 0); [discriminate|]. destruct (nth_error _ _); discriminate. Qed.
Lemma metal_at_In : forall vs i vm, metal_at vs i = Ok vm -> In vm (vs_metals vs).
Proof.
  intros vs i vm H. unfold metal_at in H. destruct (i <? 0); [discriminate|].
  destruct (nth_error _ _) eqn:E; [|discriminate]. inversion H; subst. eapply nth_error_In; eauto.
Qed.
Lemma via_from_np : forall vs i, np (via_from vs i).
Proof. intros vs i c. unfold via_from. destruct (find _ _); discriminate. Qed.
Lemma via_from_In : forall vs i v, via_from vs i = Ok v -> In v (s_vias (vs_stack vs)).
Proof.
  intros vs i v H. unfold via_from in H. destruct (find _ _) eqn:E; [|discriminate]. inversion H; subst.
  apply find_some in E. tauto.
Qed.

Lemma zlen_nonneg : forall A (l : list A), 0 <= zlen l. Proof. intros. unfold zlen. lia. Qed.

Lemma nth_error_in_range : forall A (l : list A) k, 0 <= k < zlen l -> exists x, nth_error l (Z.to_nat k) = Some x.
Proof.
  intros A l k Hk. destruct (nth_error l (Z.to_nat k)) eqn:E; [eexists; reflexivity|].
  apply nth_error_None in E. unfold zlen in Hk. lia.
Qed.

Lemma tsw_np : forall vm k, 0 <= k -> np (track_start_width fixed vm k).
Proof.
  intros vm k Hk c. unfold track_start_width.
  pose proof (zlen_nonneg _ (vm_sigs vm)) as Hl.
  destruct (zlen (vm_sigs vm) =? 0) eqn:E0; [cbn; discriminate|]. apply Z.eqb_neq in E0.
  set (len := zlen (vm_sigs vm)) in *.
  assert (Hr : 0 <= Z.rem k len < len) by (apply Z.rem_bound_pos; lia).
  destruct (fx_flip fixed && m_flip (vm_spec vm) && (Z.rem (Z.quot k len) 2 =? 1)).
  - destruct (nth_error_in_range _ (vm_sigs vm) (len - 1 - Z.rem k len)) as [x ->]; [fold len; lia|discriminate].
  - destruct (nth_error_in_range _ (vm_sigs vm) (Z.rem k len)) as [x ->]; [fold len; lia|discriminate].
Qed.

Lemma center_np : forall vm k, 0 <= k -> np (center fixed vm k).
Proof. intros. unfold center. apply np_bind; [apply tsw_np; assumption|intros; apply np_ok]. Qed.

Definition cross_nonneg (x : cross) : Prop := 0 <= x_tt x /\ 0 <= x_ct x.

Lemma track_cross_xy_np : forall vs x, cross_nonneg x -> np (track_cross_xy fixed vs x).
Proof.
  intros vs x [H1 H2]. unfold track_cross_xy.
  apply np_bind; [apply metal_at_np|]. intros mt _.
  apply np_bind; [apply center_np; assumption|]. intros cx _.
  apply np_bind; [apply metal_at_np|]. intros mc _.
  apply np_bind; [apply center_np; assumption|]. intros cy _.
  apply np_bind; [apply metal_at_np|]. intros mt' _.
  destruct (m_horiz (vm_spec mt')); apply np_ok.
Qed.

(** ** one period *)
Lemma to_layer_period_np : forall m q stop, np (to_layer_period m q stop).
Proof.
  intros. unfold to_layer_period. apply np_bind; [|intros; apply np_ok].
  apply np_mapM. intros d _ c. unfold track_validate. destruct (_ <? 0); discriminate.
Qed.

Lemma sig_list_len_indep : forall es c c', length (sig_list es c) = length (sig_list es c').
Proof. intros. rewrite !sig_list_length. reflexivity. Qed.

Lemma to_layer_period_inv : forall m q stop sigs rails,
  to_layer_period m q stop = Ok (sigs, rails) ->
  Forall sig_ok sigs /\ Forall trk_ok rails /\
  length sigs = length (filter is_sig (walk (entries m) (m_offset m))).
Proof.
  intros m q stop sigs rails H.
  pose proof (to_layer_period_sigs _ _ _ _ _ H) as Hs.
  unfold to_layer_period in H.
  destruct (mapM _ _) as [ts| |] eqn:Hts; simpl in H; try discriminate.
  inversion H; subst sigs rails; clear H.
  rewrite (mapM_validate _ _ _ Hts) in *. rewrite !filter_map_fresh in *.
  split; [|split].
  - apply Forall_forall. intros t Ht. apply in_map_iff in Ht. destruct Ht as [d [<- Hd]].
    apply filter_In in Hd. destruct Hd as [_ Hd]. unfold is_sig in Hd. unfold sig_ok, fresh_track; simpl.
    destruct (td_tt d); try discriminate. split; [discriminate|]. constructor; [|constructor]. unfold is_rail_seg; simpl; tauto.
  - apply Forall_forall. intros t Ht. apply in_map_iff in Ht. destruct Ht as [d [<- _]]. unfold trk_ok, fresh_track; simpl. discriminate.
  - rewrite <- (map_length (fun t => td_pos (t_data t))), Hs.
    rewrite <- (map_length td_pos (filter is_sig (walk (entries m) (m_offset m)))), walk_sig_list.
    unfold period_entries. destruct (m_flip m && (Z.rem q 2 =? 1)).
    + rewrite sig_list_rev, rev_length, map_length. apply sig_list_len_indep.
    + apply sig_list_len_indep.
Qed.

Lemma In_firstn' : forall A (l : list A) k x, In x (firstn k l) -> In x l.
Proof. intros A l k x H. rewrite <- (firstn_skipn k l). apply in_or_app; left; assumption. Qed.
Lemma In_skipn' : forall A (l : list A) k x, In x (skipn k l) -> In x l.
Proof. intros A l k x H. rewrite <- (firstn_skipn k l). apply in_or_app; right; assumption. Qed.

Lemma upd_Forall : forall A (P : A -> Prop) l k t t',
  Forall P l -> nth_error l k = Some t -> P t' ->
  Forall P (firstn k l ++ t' :: skipn (S k) l) /\ length (firstn k l ++ t' :: skipn (S k) l) = length l.
Proof.
  intros A P l k t t' Hl Hn Ht. split.
  - apply Forall_app. split; [apply Forall_forall; intros x Hx; rewrite Forall_forall in Hl; apply Hl; eapply In_firstn'; eauto|].
    constructor; [assumption|]. apply Forall_forall; intros x Hx; rewrite Forall_forall in Hl; apply Hl. eapply In_skipn'; eauto.
  - assert (k < length l)%nat by (apply nth_error_Some; congruence).
    rewrite app_length, firstn_length. cbn [length]. rewrite skipn_length. lia.
Qed.

(** the steps of export_period, named *)
Definition block_step (vs : vstack) (horiz : bool) (lp : list track * list track) (b : Z * Z * Z) :=
  let '(n1, n2, src) := b in period_block (db_dir vs horiz n1) (db_dir vs horiz n2) src lp.
Definition cut_step (fx : fixes) (vs : vstack) (m : metal) (sigs : list track) (kc : Z * cross) : res (list track) :=
  let '(k, cut) := kc in
  let nsig := zlen sigs in
  if nsig =? 0 then Panic 530 else
  let idx := Z.to_nat (Z.rem (x_tt cut) nsig) in
  match nth_error sigs idx with
  | None => Panic 531
  | Some t =>
    do loc <- track_cross_xy fx vs cut;
    let dist := xy_dir (m_horiz m) loc in
    let start := dist - Z.quot (m_cutsize m) 2 in
    let stop := if fx_odd fx then start + m_cutsize m else dist + Z.quot (m_cutsize m) 2 in
    do t' <- track_cut start stop k t;
    Ok (firstn idx sigs ++ t' :: skipn (S idx) sigs)
  end.
Definition bot_step (fx : fixes) (vs : vstack) (vm : vmetal) (sv : list track * list shape) (v : vassign) :=
  let '(sigs, vias) := sv in
  do vl <- via_from vs (vm_index vm);
  do sigs' <- assign_track fx vs vm sigs v false;
  do loc <- track_cross_xy fx vs (va_at v);
  match v_raw vl with
  | None => Panic 541
  | Some lay => Ok (sigs', vias ++ [via_shape fx vl lay loc (va_net v)])
  end.

Lemma export_period_unfold : forall fx vs vm span_ q tp,
  export_period fx vs vm span_ q tp =
  (let m := vm_spec vm in
   let horiz := m_horiz m in
   do lp <- to_layer_period m q span_;
   do lp <- foldM (block_step vs horiz) (tp_blocks tp) lp;
   let '(sigs, rails) := lp in
   do sigs <- foldM (cut_step fx vs m) (tp_cuts tp) sigs;
   do sv <- foldM (bot_step fx vs vm) (tp_bot tp) (sigs, []);
   let '(sigs, vias) := sv in
   do sigs <- foldM (fun sigs v => assign_track fx vs vm sigs v true) (tp_top tp) sigs;
   do r <- mapM (export_track vs vm) rails;
   do s <- mapM (export_track vs vm) sigs;
   Ok (vias ++ concat r ++ concat s)).
Proof. reflexivity. Qed.

Definition va_nonneg (v : vassign) : Prop :=
  cross_nonneg (va_at v) /\ 0 <= snd (va_top v) /\ 0 <= snd (va_bot v).

Definition sigs_inv (N : nat) (sigs : list track) : Prop := Forall sig_ok sigs /\ length sigs = N.

Lemma pick_signal : forall N sigs k, sigs_inv N sigs -> N <> O -> 0 <= k ->
  (zlen sigs =? 0) = false /\
  exists t, nth_error sigs (Z.to_nat (Z.rem k (zlen sigs))) = Some t /\ sig_ok t.
Proof.
  intros N sigs k [Hf Hl] HN Hk.
  assert (Hz : zlen sigs <> 0) by (unfold zlen; lia).
  split; [apply Z.eqb_neq; assumption|].
  pose proof (zlen_nonneg _ sigs).
  assert (Hr : 0 <= Z.rem k (zlen sigs) < zlen sigs) by (apply Z.rem_bound_pos; lia).
  destruct (nth_error_in_range _ sigs _ Hr) as [t Ht]. exists t. split; [assumption|].
  rewrite Forall_forall in Hf. apply Hf. eapply nth_error_In; eauto.
Qed.

Lemma cut_step_ok : forall vs m N sigs kc,
  sigs_inv N sigs -> N <> O -> cross_nonneg (snd kc) ->
  np (cut_step fixed vs m sigs kc) /\ forall s', cut_step fixed vs m sigs kc = Ok s' -> sigs_inv N s'.
Proof.
  intros vs m N sigs [k cut] Hinv HN Hc. simpl in Hc. unfold cut_step.
  destruct (pick_signal N sigs (x_tt cut) Hinv HN (proj1 Hc)) as [Hz [t [Ht Hok]]].
  rewrite Hz, Ht. split.
  - apply np_bind; [apply track_cross_xy_np; assumption|]. intros loc _.
    apply np_bind; [apply track_cut_np; assumption|]. intros; apply np_ok.
  - intros s' H.
    destruct (track_cross_xy fixed vs cut) as [loc| |]; cbn [bind] in H; try discriminate.
    destruct (track_cut _ _ _ _) as [t'| |] eqn:Hcut; cbn [bind] in H; try discriminate.
    inversion H; subst s'. destruct Hinv as [Hf Hl].
    destruct (upd_Forall _ sig_ok _ _ _ t' Hf Ht (track_cut_sig _ _ _ _ _ Hok Hcut)) as [A B].
    split; [exact A | exact (eq_trans B Hl)].
Qed.

Lemma assign_track_ok : forall vs vm N sigs v top,
  sigs_inv N sigs -> N <> O -> va_nonneg v ->
  np (assign_track fixed vs vm sigs v top) /\ forall s', assign_track fixed vs vm sigs v top = Ok s' -> sigs_inv N s'.
Proof.
  intros vs vm N sigs v top Hinv HN [Hc [Ht Hb]]. unfold assign_track.
  assert (Hk : 0 <= (if top then snd (va_top v) else snd (va_bot v))) by (destruct top; assumption).
  destruct (pick_signal N sigs _ Hinv HN Hk) as [Hz [t [Hnth Hok]]].
  rewrite Hz, Hnth. split.
  - apply np_bind; [apply track_cross_xy_np; assumption|]. intros loc _.
    apply np_bind; [apply track_set_net_np; assumption|]. intros; apply np_ok.
  - intros s' H.
    destruct (track_cross_xy fixed vs (va_at v)) as [loc| |]; cbn [bind] in H; try discriminate.
    destruct (track_set_net _ _ _) as [t'| |] eqn:Hset; cbn [bind] in H; try discriminate.
    inversion H; subst s'. destruct Hinv as [Hf Hl].
    destruct (upd_Forall _ sig_ok _ _ _ t' Hf Hnth (track_set_net_sig _ _ _ _ Hok Hset)) as [A B].
    split; [exact A | exact (eq_trans B Hl)].
Qed.

Lemma export_track_np : forall vs vm t, good_vs vs -> np (export_track vs vm t).
Proof.
  intros vs vm t [_ [_ [Hg _]]]. rewrite export_track_unfold.
  apply np_bind; [|intros; apply np_ok]. apply np_mapM. intros s _. unfold seg_fn.
  assert (Hmk : forall net, np (do m <- metal_at vs (vm_index vm);
                 match m_raw (vm_spec m) with
                 | None => Panic 540
                 | Some lay => Ok [if m_horiz (vm_spec vm)
                     then mkShape lay (s_start s) (td_start (t_data t)) (s_stop s) (td_start (t_data t) + td_width (t_data t)) net
                     else mkShape lay (td_start (t_data t)) (s_start s) (td_start (t_data t) + td_width (t_data t)) (s_stop s) net]
                 end)).
  { intros net. apply np_bind; [apply metal_at_np|]. intros m0 Hm0.
    apply metal_at_In in Hm0. rewrite Forall_forall in Hg. destruct (Hg _ Hm0) as [Hraw _].
    destruct (m_raw (vm_spec m0)); [apply np_ok|congruence]. }
  destruct (s_tp s); try apply np_ok; apply Hmk.
Qed.

Theorem export_period_np : forall vs vm span_ q tp,
  good_vs vs -> good_vm vm ->
  Forall (fun kc => cross_nonneg (snd kc)) (tp_cuts tp) ->
  Forall va_nonneg (tp_top tp) -> Forall va_nonneg (tp_bot tp) ->
  (vm_sigs vm = [] -> tp_cuts tp = [] /\ tp_top tp = [] /\ tp_bot tp = []) ->
  np (export_period fixed vs vm span_ q tp).
Proof.
  intros vs vm span_ q tp Hvs Hvm Hcuts Htop Hbot Hempty.
  rewrite export_period_unfold. cbv zeta.
  apply np_bind; [apply to_layer_period_np|]. intros [sigs0 rails0] Hlp.
  destruct (to_layer_period_inv _ _ _ _ _ Hlp) as [Hs0 [Hr0 Hlen0]].
  destruct Hvm as [_ [_ Hsigs]]. rewrite <- Hsigs in Hlen0.
  set (N := length (vm_sigs vm)) in *.
  (* blockages *)
  destruct (np_foldM _ _ (fun lp => Forall sig_ok (fst lp) /\ Forall trk_ok (snd lp) /\ length (fst lp) = N)
              (block_step vs (m_horiz (vm_spec vm))) (tp_blocks tp) (sigs0, rails0)) as [Hnp1 Hinv1].
  { simpl. auto. }
  { intros [s r] [[n1 n2] src] [A [B C]] _. simpl in A, B, C. unfold block_step. split.
    - apply period_block_np; assumption.
    - intros [s' r'] H. destruct (period_block_inv _ _ _ _ _ _ _ A B H) as [A' [B' C']]. simpl. repeat split; auto. congruence. }
  apply np_bind; [exact Hnp1|]. intros [sigs1 rails1] H1. destruct (Hinv1 _ H1) as [Hs1 [Hr1 Hl1]]. simpl in Hs1, Hr1, Hl1.
  (* is there anything to do on signal tracks? *)
  assert (HN : tp_cuts tp <> [] \/ tp_top tp <> [] \/ tp_bot tp <> [] -> N <> O).
  { intros Hne HN0. destruct (vm_sigs vm) eqn:E; [|discriminate]. destruct (Hempty eq_refl) as [A [B C]]. tauto. }
  (* cuts *)
  destruct (np_foldM _ _ (sigs_inv N) (cut_step fixed vs (vm_spec vm)) (tp_cuts tp) sigs1) as [Hnp2 Hinv2].
  { split; assumption. }
  { intros s x Hs Hx. apply cut_step_ok; [assumption| |].
    - apply HN. left. intro E. rewrite E in Hx. destruct Hx.
    - rewrite Forall_forall in Hcuts. apply Hcuts; assumption. }
  apply np_bind; [exact Hnp2|]. intros sigs2 H2. pose proof (Hinv2 _ H2) as Hs2.
  (* bottom assignments *)
  destruct (np_foldM _ _ (fun sv : list track * list shape => sigs_inv N (fst sv))
              (bot_step fixed vs vm) (tp_bot tp) (sigs2, [])) as [Hnp3 Hinv3].
  { exact Hs2. }
  { intros [s vias] v Hs Hv. simpl in Hs. unfold bot_step.
    assert (HN' : N <> O) by (apply HN; right; right; intro E; rewrite E in Hv; destruct Hv).
    assert (Hvn : va_nonneg v) by (rewrite Forall_forall in Hbot; apply Hbot; assumption).
    destruct (assign_track_ok vs vm N s v false Hs HN' Hvn) as [Hnpa Hinva].
    split.
    - apply np_bind; [apply via_from_np|]. intros vl Hvl.
      apply np_bind; [exact Hnpa|]. intros s' _.
      apply np_bind; [apply track_cross_xy_np; apply Hvn|]. intros loc _.
      apply via_from_In in Hvl. destruct Hvs as [_ [_ [_ Hv']]]. rewrite Forall_forall in Hv'.
      specialize (Hv' _ Hvl). destruct (v_raw vl); [apply np_ok|congruence].
    - intros [s' vias'] H.
      destruct (via_from vs (vm_index vm)) as [vl| |]; simpl in H; try discriminate.
      destruct (assign_track fixed vs vm s v false) as [s''| |] eqn:Ha; simpl in H; try discriminate.
      destruct (track_cross_xy fixed vs (va_at v)) as [loc| |]; simpl in H; try discriminate.
      destruct (v_raw vl); [|discriminate]. inversion H; subst. simpl. apply Hinva. reflexivity. }
  apply np_bind; [exact Hnp3|]. intros [sigs3 vias] H3. pose proof (Hinv3 _ H3) as Hs3. simpl in Hs3.
  (* top assignments *)
  destruct (np_foldM _ _ (sigs_inv N) (fun sigs v => assign_track fixed vs vm sigs v true) (tp_top tp) sigs3) as [Hnp4 _].
  { exact Hs3. }
  { intros s v Hs Hv. apply assign_track_ok; [assumption| |].
    - apply HN. right; left. intro E. rewrite E in Hv. destruct Hv.
    - rewrite Forall_forall in Htop. apply Htop; assumption. }
  apply np_bind; [exact Hnp4|]. intros sigs4 _.
  apply np_bind; [apply np_mapM; intros; apply export_track_np; assumption|]. intros r _.
  apply np_bind; [apply np_mapM; intros; apply export_track_np; assumption|]. intros; apply np_ok.
Qed.

(** ** cells *)
Definition cell_nonneg (c : cell) : Prop :=
  0 <= c_ox c /\ 0 <= c_oy c /\ Forall cross_nonneg (c_cuts c) /\
  Forall (fun a => cross_nonneg (snd a)) (c_assigns c).

Lemma validate_track_cross_np : forall vs x, np (validate_track_cross vs x).
Proof.
  intros. unfold validate_track_cross, validate_track_ref.
  apply np_bind; [apply np_assert|]. intros _ _.
  apply np_bind; [apply np_assert|]. intros _ _.
  apply np_bind; [apply metal_at_np|]. intros mt _.
  apply np_bind; [apply metal_at_np|]. intros mc _. apply np_assert.
Qed.

Lemma validate_assign_np : forall vs a, np (validate_assign fixed vs a).
Proof.
  intros vs [net x]. unfold validate_assign.
  apply np_bind; [apply np_assert|]. intros _ _.
  apply np_bind; [apply validate_track_cross_np|]. intros _ _.
  destruct (x_tl x =? x_cl x + 1); [apply np_ok|].
  destruct (x_cl x =? 0); [cbn; apply np_err|].
  destruct (x_tl x =? x_cl x - 1); [apply np_ok|apply np_err].
Qed.

Lemma validate_assign_nonneg : forall vs a v,
  cross_nonneg (snd a) -> validate_assign fixed vs a = Ok v -> va_nonneg v.
Proof.
  intros vs [net x] v Hx H. simpl in Hx. unfold validate_assign in H.
  destruct (assert (negb (net =? 0)) 509); cbn [bind] in H; try discriminate.
  destruct (validate_track_cross vs x); cbn [bind] in H; try discriminate.
  destruct Hx as [H1 H2].
  destruct (x_tl x =? x_cl x + 1); [inversion H; subst; unfold va_nonneg, cross_nonneg; simpl; auto|].
  destruct (x_cl x =? 0); [cbn in H; discriminate|].
  destruct (x_tl x =? x_cl x - 1); [inversion H; subst; unfold va_nonneg, cross_nonneg; simpl; auto|discriminate].
Qed.

Lemma validate_layout_np : forall vs c, np (validate_layout fixed vs c).
Proof.
  intros. unfold validate_layout.
  apply np_bind; [apply np_mapM; intros; apply validate_track_cross_np|]. intros _ _.
  apply np_bind; [apply np_mapM; intros; apply validate_assign_np|]. intros; apply np_ok.
Qed.

Lemma temp_cell_np : forall vs c, np (temp_cell fixed vs c).
Proof.
  intros. unfold temp_cell.
  apply np_bind.
  - apply np_mapM. intros cut _. apply np_bind; [apply validate_track_cross_np|]. intros _ _.
    destruct (x_tl cut <? c_metals c); [apply np_ok|cbn; apply np_err].
  - intros _ _. apply np_mapM. intros a _.
    apply np_bind; [apply validate_assign_np|]. intros v _.
    apply np_bind; [apply metal_at_np|]. intros _ _.
    apply np_bind; [apply metal_at_np|]. intros _ _.
    destruct (_ && _); [apply np_ok|cbn; apply np_err].
Qed.

Lemma temp_cell_nonneg : forall vs c vas,
  cell_nonneg c -> temp_cell fixed vs c = Ok vas -> Forall va_nonneg vas.
Proof.
  intros vs c vas [_ [_ [_ Ha]]] H. unfold temp_cell in H.
  destruct (mapM _ (c_cuts c)); cbn [bind] in H; try discriminate.
  apply Forall_forall. intros v Hv.
  destruct (mapM_In _ _ _ _ _ _ H Hv) as [a0 [Hin Hf]].
  destruct (validate_assign fixed vs a0) as [v0| |] eqn:Hva; cbn [bind] in Hf; try discriminate.
  destruct (metal_at vs (fst (va_bot v0))); cbn [bind] in Hf; try discriminate.
  destruct (metal_at vs (fst (va_top v0))); cbn [bind] in Hf; try discriminate.
  destruct (_ && _); [|cbn in Hf; discriminate]. inversion Hf; subst v0.
  eapply validate_assign_nonneg; eauto. rewrite Forall_forall in Ha. apply Ha; assumption.
Qed.

Lemma indexed_In : forall A (l : list A) k x, In (k, x) (indexed l) -> In x l.
Proof. intros A l k x H. unfold indexed in H. eapply in_combine_r; eauto. Qed.

Lemma filter_all_false : forall A (f : A -> bool) l, (forall x, f x = false) -> filter f l = [].
Proof. intros A f l H. induction l as [|x l IH]; simpl; [reflexivity|]. rewrite H. exact IH. Qed.

Lemma in_range_empty : forall a x, in_range (a * 0) ((a + 1) * 0) x = false.
Proof.
  intros. unfold in_range. rewrite !Z.mul_0_r.
  destruct (x >=? 0) eqn:E1; [|reflexivity]. simpl. apply Z.ltb_ge. rewrite Z.geb_leb in E1. apply Z.leb_le in E1. lia.
Qed.

Lemma temp_period_props : forall vs c vas vm q,
  cell_nonneg c -> Forall va_nonneg vas ->
  let tp := temp_period fixed vs c vas vm q in
  Forall (fun kc => cross_nonneg (snd kc)) (tp_cuts tp) /\
  Forall va_nonneg (tp_top tp) /\ Forall va_nonneg (tp_bot tp) /\
  (vm_sigs vm = [] -> tp_cuts tp = [] /\ tp_top tp = [] /\ tp_bot tp = []).
Proof.
  intros vs c vas vm q [_ [_ [Hc _]]] Hv. unfold temp_period; cbn [tp_cuts tp_top tp_bot].
  split; [|split; [|split]].
  - apply Forall_forall. intros [k x] H. apply filter_In in H. destruct H as [H _]. apply indexed_In in H.
    rewrite Forall_forall in Hc. simpl. apply Hc; assumption.
  - apply Forall_forall. intros v H. apply filter_In in H. destruct H as [H _]. rewrite Forall_forall in Hv. apply Hv; assumption.
  - apply Forall_forall. intros v H. apply filter_In in H. destruct H as [H _]. rewrite Forall_forall in Hv. apply Hv; assumption.
  - intros E. rewrite E. unfold zlen; simpl length. change (Z.of_nat 0) with 0.
    repeat split; apply filter_all_false; intros x; rewrite in_range_empty; apply andb_false_r.
Qed.

Lemma export_layer_np : forall vs c vas l,
  good_vs vs -> cell_nonneg c -> Forall va_nonneg vas -> np (export_layer fixed vs c vas l).
Proof.
  intros vs c vas l Hvs Hc Hv. unfold export_layer.
  apply np_bind; [apply metal_at_np|]. intros vm Hvm. apply metal_at_In in Hvm.
  assert (Hg : good_vm vm) by (destruct Hvs as [_ [_ [G _]]]; rewrite Forall_forall in G; apply G; assumption).
  assert (Hb : forall span_ breadth, 0 <= breadth ->
     np (do _ <- assert (Z.rem breadth (vm_pitch vm) =? 0) 550;
         (let np0 := Z.quot breadth (vm_pitch vm) in
          if np0 <? 0 then Panic 551 else
          do r <- mapM (fun p => export_period fixed vs vm span_ p (temp_period fixed vs c vas vm p)) (zseq np0);
          Ok (concat r)))).
  { intros span_ breadth Hbr. apply np_bind; [apply np_assert|]. intros _ _. cbv zeta.
    destruct Hg as [G1 [G2 G3]].
    assert (Hq : 0 <= Z.quot breadth (vm_pitch vm)) by (apply Z.quot_pos; lia).
    destruct (Z.quot breadth (vm_pitch vm) <? 0) eqn:E; [apply Z.ltb_lt in E; lia|].
    apply np_bind; [|intros; apply np_ok]. apply np_mapM. intros p _.
    destruct (temp_period_props vs c vas vm p Hc Hv) as [A [B [C D]]].
    apply export_period_np; auto. unfold good_vm; auto. }
  destruct Hvs as [Hpx [Hpy _]]. destruct Hc as [Hox [Hoy _]].
  unfold dbx, dby. destruct (m_horiz (vm_spec vm)); apply Hb; nia.
Qed.

Lemma export_layout_np : forall vs c, good_vs vs -> cell_nonneg c -> np (export_layout fixed vs c).
Proof.
  intros vs c Hvs Hc. unfold export_layout.
  apply np_bind; [apply temp_cell_np|]. intros vas Hvas.
  apply np_bind; [|intros; apply np_ok]. apply np_mapM. intros l _.
  apply export_layer_np; auto. eapply temp_cell_nonneg; eauto.
Qed.

(** ** export_stack (fix-stack-raw-layers): what validation alone gives ([pre_vs], no hypothesis on the
    stack), and that the repaired export_stack, when it returns Ok, has established [good_vs] -- every
    later `.raw.unwrap()` then finds a raw layer. *)
Definition pre_vm (vm : vmetal) : Prop :=
  0 < vm_pitch vm /\ vm_sigs vm = filter is_sig (walk (entries (vm_spec vm)) (m_offset (vm_spec vm))).
Definition pre_vs (vs : vstack) : Prop :=
  0 < s_px (vs_stack vs) /\ 0 < s_py (vs_stack vs) /\ Forall pre_vm (vs_metals vs) /\
  length (vs_pitches vs) = length (vs_metals vs).

Lemma validate_metals_pre : forall px py ms i vms,
  validate_metals px py ms i = Ok vms -> Forall pre_vm vms.
Proof.
  intros px py ms. induction ms as [|m ms IH]; intros i vms H; simpl in H.
  - inversion H; constructor.
  - destruct (validate_metal px py m i) as [v| |] eqn:Hv; simpl in H; try discriminate.
    destruct (validate_metals px py ms (i + 1)) as [vs| |] eqn:Hvs; simpl in H; try discriminate.
    inversion H; subst. constructor; [|eapply IH; eauto].
    destruct (validate_metal_data _ _ _ _ _ Hv) as [A [_ [B [C D]]]].
    unfold pre_vm. rewrite A. split; auto. lia.
Qed.

Lemma validate_stack_pre : forall st vs, validate_stack st = Ok vs -> pre_vs vs.
Proof.
  intros st vs H. unfold validate_stack in H.
  unfold assert in H.
  destruct (s_px st >? 0) eqn:Hx; simpl in H; [|discriminate].
  destruct (s_py st >? 0) eqn:Hy; simpl in H; [|discriminate].
  destruct (validate_metals _ _ _ _) as [vms| |] eqn:Hvms; simpl in H; try discriminate.
  inversion H; subst vs; clear H. unfold pre_vs; simpl.
  apply Z.gtb_lt in Hx. apply Z.gtb_lt in Hy. repeat split; auto; try lia.
  - eapply validate_metals_pre; eauto.
  - rewrite map_length, seq_length. reflexivity.
Qed.

Lemma mapM_ok_all : forall A B (f : A -> res B) l r, mapM f l = Ok r -> forall x, In x l -> exists y, f x = Ok y.
Proof.
  intros A B f l. induction l as [|a l IH]; intros r H x Hx; [destruct Hx|]. simpl in H.
  destruct (f a) as [y| |] eqn:Hy; cbn [bind] in H; try discriminate.
  destruct (mapM f l) as [ys| |] eqn:Hys; cbn [bind] in H; try discriminate.
  destruct Hx as [<-|Hx]; [eauto|]. eapply IH; eauto.
Qed.

Lemma zseq_In : forall n k, (k < n)%nat -> In (Z.of_nat k) (zseq (Z.of_nat n)).
Proof.
  intros n k H. unfold zseq. apply in_map. rewrite Nat2Z.id. apply in_seq. lia.
Qed.

Lemma export_stack_np : forall fx vs, np (export_stack fx vs).
Proof.
  intros fx vs. unfold export_stack.
  apply np_bind; [apply np_assert|]. intros _ _.
  apply np_bind; [apply np_assert|]. intros _ _.
  destruct (fx_raw fx); [|apply np_ok].
  apply np_bind.
  - apply np_mapM. intros idx _. apply np_bind; [apply metal_at_np|]. intros m _.
    destruct (m_raw (vm_spec m)); [apply np_ok|apply np_err].
  - intros _ _. apply np_bind; [|intros; apply np_ok].
    apply np_mapM. intros v _. destruct (v_raw v); [apply np_ok|apply np_err].
Qed.

Lemma export_stack_good : forall vs u, pre_vs vs -> export_stack fixed vs = Ok u -> good_vs vs.
Proof.
  intros vs u [Hpx [Hpy [Hm Hlen]]] H. unfold export_stack in H.
  destruct (assert (s_haslayers (vs_stack vs)) 560); cbn [bind] in H; try discriminate.
  destruct (assert (s_hasboundary (vs_stack vs)) 561); cbn [bind] in H; try discriminate.
  cbn [fx_raw fixed] in H.
  destruct (mapM _ (zseq _)) as [r1| |] eqn:H1; cbn [bind] in H; try discriminate.
  destruct (mapM _ (s_vias _)) as [r2| |] eqn:H2; cbn [bind] in H; try discriminate.
  unfold good_vs. repeat split; auto.
  - apply Forall_forall. intros vm Hin.
    destruct (In_nth_error _ _ Hin) as [k Hk].
    assert (Hkl : (k < length (vs_metals vs))%nat) by (apply nth_error_Some; congruence).
    assert (Hz : In (Z.of_nat k) (zseq (zlen (vs_pitches vs)))).
    { unfold zlen. rewrite Hlen. apply zseq_In. exact Hkl. }
    destruct (mapM_ok_all _ _ _ _ _ H1 _ Hz) as [y Hy]. cbv beta in Hy.
    unfold metal_at in Hy.
    destruct (Z.of_nat k <? 0) eqn:E; [apply Z.ltb_lt in E; lia|].
    rewrite Nat2Z.id, Hk in Hy. cbn [bind] in Hy.
    rewrite Forall_forall in Hm. destruct (Hm _ Hin) as [P1 P2].
    unfold good_vm. repeat split; auto.
    destruct (m_raw (vm_spec vm)); [discriminate|discriminate].
  - apply Forall_forall. intros v Hin.
    destruct (mapM_ok_all _ _ _ _ _ H2 _ Hin) as [y Hy]. cbv beta in Hy.
    destruct (v_raw v); discriminate.
Qed.

(** NO PANIC on ANY stack (repaired code): stack validation never panics, export_stack never panics,
    and once it has returned Ok every metal and via layer has a raw layer. *)
Theorem compile_fixed_no_panic_any : forall st cells c,
  Forall cell_nonneg cells -> compile fixed st cells <> Panic c.
Proof.
  intros st cells c Hc. revert c. change (np (compile fixed st cells)). unfold compile.
  apply np_bind; [apply validate_stack_np|]. intros vs Hvs.
  pose proof (validate_stack_pre _ _ Hvs) as Hp. unfold convert.
  apply np_bind; [apply np_mapM; intros; apply validate_layout_np|]. intros _ _.
  apply np_bind; [apply export_stack_np|]. intros u Hu.
  pose proof (export_stack_good _ _ Hp Hu) as Hg.
  apply np_mapM. intros x Hx. apply export_layout_np; auto. rewrite Forall_forall in Hc. apply Hc; assumption.
Qed.

(** the statement as it stood before fix-stack-raw-layers (hypothesis [stack_drawable]): a corollary *)
Theorem compile_fixed_no_panic : forall st cells c,
  stack_drawable st -> Forall cell_nonneg cells -> compile fixed st cells <> Panic c.
Proof. intros st cells c _. apply compile_fixed_no_panic_any. Qed.

(** The five earlier repairs alone ([fx_raw] = false, the tree of 2026-10-01): no panic on drawable stacks
    -- [stack_drawable] is exactly what was missing. *)
Definition fixed5 := mkFixes true true true true true false.

Lemma fixed5_validate_layout : validate_layout fixed5 = validate_layout fixed. Proof. reflexivity. Qed.
Lemma fixed5_export_layout : export_layout fixed5 = export_layout fixed. Proof. reflexivity. Qed.

Theorem compile_fixed5_no_panic : forall st cells c,
  stack_drawable st -> Forall cell_nonneg cells -> compile fixed5 st cells <> Panic c.
Proof.
  intros st cells c Hd Hc. revert c. change (np (compile fixed5 st cells)). unfold compile.
  apply np_bind; [apply validate_stack_np|]. intros vs Hvs.
  pose proof (validate_stack_good _ _ Hd Hvs) as Hg. unfold convert.
  rewrite fixed5_validate_layout, fixed5_export_layout.
  apply np_bind; [apply np_mapM; intros; apply validate_layout_np|]. intros _ _.
  apply np_bind; [apply export_stack_np|]. intros _ _.
  apply np_mapM. intros x Hx. apply export_layout_np; auto. rewrite Forall_forall in Hc. apply Hc; assumption.
Qed.

(** * Part 5: closed witnesses *)
(** stacks and cells of the directed correspondence cases (tools/props/c08.py directed_cases) *)
Definition st_flip := (mkStack (400) (400) [(mkMetal true (50) [(SEntry (mkEntry Signal (100))); (SEntry (mkEntry Gap (300)))] (0) (0) true false (Some (10020))); (mkMetal false (50) [(SEntry (mkEntry Signal (100))); (SEntry (mkEntry Gap (300)))] (0) (0) false false (Some (11020)))] [(mkVia (Some (0)) (Some (1)) (40) (40) (Some (10044)))] true true) .
Definition st_noflip := (mkStack (400) (400) [(mkMetal true (50) [(SEntry (mkEntry Signal (100))); (SEntry (mkEntry Gap (300)))] (0) (0) false false (Some (10020))); (mkMetal false (50) [(SEntry (mkEntry Signal (100))); (SEntry (mkEntry Gap (300)))] (0) (0) false false (Some (11020))); (mkMetal true (60) [(SEntry (mkEntry Gap (40))); (SEntry (mkEntry Signal (120))); (SEntry (mkEntry Gap (240)))] (0) (0) false false (Some (12020))); (mkMetal false (60) [(SEntry (mkEntry Signal (80))); (SEntry (mkEntry Gap (120))); (SEntry (mkEntry Signal (40))); (SEntry (mkEntry Gap (160)))] (0) (0) false false (Some (13020)))] [(mkVia (Some (0)) (Some (1)) (40) (40) (Some (10044))); (mkVia (Some (1)) (Some (2)) (40) (60) (Some (11044))); (mkVia (Some (2)) (Some (3)) (60) (40) (Some (12044)))] true true) .
Definition st_odd := (mkStack (210) (210) [(mkMetal true (31) [(SEntry (mkEntry Signal (35))); (SEntry (mkEntry Gap (70)))] (3) (0) false false (Some (10020))); (mkMetal false (33) [(SEntry (mkEntry Gap (20))); (SEntry (mkEntry Signal (45))); (SEntry (mkEntry Gap (40)))] (-7) (0) false false (Some (11020)))] [(mkVia (Some (0)) (Some (1)) (21) (23) (Some (10044)))] true true) .
Definition st_pdka := (mkStack (460) (2720) [(mkMetal true (250) [(SEntry (mkEntry (Rail Gnd) (480))); (SRepeat [(mkEntry Gap (200)); (mkEntry Signal (140))] 6%nat); (SEntry (mkEntry Gap (200))); (SEntry (mkEntry (Rail Pwr) (480)))] (-240) (480) true true (Some (68020))); (mkMetal false (250) [(SEntry (mkEntry Signal (140))); (SEntry (mkEntry Gap (320)))] (-70) (0) false false (Some (69020))); (mkMetal true (250) [(SEntry (mkEntry (Rail Gnd) (480))); (SRepeat [(mkEntry Gap (200)); (mkEntry Signal (140))] 6%nat); (SEntry (mkEntry Gap (200))); (SEntry (mkEntry (Rail Pwr) (480)))] (-240) (480) true false (Some (70020))); (mkMetal false (250) [(SEntry (mkEntry (Rail Gnd) (510))); (SRepeat [(mkEntry Gap (410)); (mkEntry Signal (50))] 8%nat); (SEntry (mkEntry Gap (410))); (SEntry (mkEntry (Rail Pwr) (510)))] (-255) (510) true false (Some (71020))); (mkMetal true (250) [(SEntry (mkEntry (Rail Gnd) (480))); (SRepeat [(mkEntry Gap (200)); (mkEntry Signal (140))] 6%nat); (SEntry (mkEntry Gap (200))); (SEntry (mkEntry (Rail Pwr) (480)))] (-240) (480) true false (Some (72020)))] [(mkVia None (Some (0)) (240) (240) (Some (67044))); (mkVia (Some (0)) (Some (1)) (240) (240) (Some (68044))); (mkVia (Some (1)) (Some (2)) (240) (240) (Some (69044))); (mkVia (Some (2)) (Some (3)) (240) (240) (Some (70044))); (mkVia (Some (3)) (Some (4)) (240) (240) (Some (71044)))] true true) .
Definition cells_flip_via := [(mkCell (2) (2) (2) [] [] [((1), (mkCross (0) (1) (1) (0)))])] .
Definition cells_flip_cut := [(mkCell (2) (2) (2) [] [(mkCross (1) (0) (0) (1))] [])] .
Definition cells_reflect_h := [(mkCell (1) (1) (1) [] [] []); (mkCell (2) (3) (1) [(mkInst (1) (1) (1) (2) (0) true false)] [] [])] .
Definition cells_underflow := [(mkCell (4) (2) (2) [] [] [((1), (mkCross (3) (0) (0) (0)))])] .
Definition cells_cut_above_metals := [(mkCell (1) (2) (2) [] [(mkCross (1) (0) (0) (0))] [])] .
Definition cells_odd_via := [(mkCell (2) (2) (2) [] [(mkCross (0) (1) (1) (1))] [((1), (mkCross (0) (0) (1) (0)))])] .
Definition cells_create_lib1 := [(mkCell (3) (50) (5) [] [(mkCross (0) (1) (1) (1)); (mkCross (0) (1) (1) (3)); (mkCross (0) (1) (1) (5)); (mkCross (1) (1) (0) (1)); (mkCross (1) (1) (0) (3)); (mkCross (1) (1) (0) (5))] [((1), (mkCross (1) (4) (0) (2)))])] .

(** the property evaluated on what a variant of the code produces: every well-formed cell's shapes
    pass the specification's checks (tiling per track, nets, vias, nothing else drawn) *)
Definition realisesb (fx : fixes) (st : stack) (cells : list cell) : bool :=
  match compile fx st cells with
  | Ok out => forallb (fun co => negb (wf_cellb st (fst co)) ||
                                match spec_cell st (fst co) (snd co) with [] => true | _ => false end)
                      (combine cells out)
  | Err _ => true
  | Panic _ => false
  end.
Definition all_wfb (st : stack) (cells : list cell) : bool := forallb (wf_cellb st) cells.

(** (27) center/span ignore the every-other flip: the via of an assignment on track 1 (odd period)
    of an asymmetric EveryOther layer is drawn at y 430..470 while the track is at 700..800 *)
Lemma orig_flip_via_refuted :
  all_wfb st_flip cells_flip_via = true /\
  compile orig st_flip cells_flip_via =
    Ok [[mkShape 10020 0 0 800 100 None; mkShape 10044 30 430 70 470 (Some 1);
         mkShape 10020 0 700 800 800 (Some 1); mkShape 11020 0 0 100 800 (Some 1);
         mkShape 11020 400 0 500 800 None]] /\
  realisesb orig st_flip cells_flip_via = false /\ realisesb fixed st_flip cells_flip_via = true.
Proof. vm_compute. repeat split; reflexivity. Qed.

Lemma orig_flip_cut_refuted :
  all_wfb st_flip cells_flip_cut = true /\
  realisesb orig st_flip cells_flip_cut = false /\ realisesb fixed st_flip cells_flip_cut = true.
Proof. vm_compute. repeat split; reflexivity. Qed.

(** (28) blockage of an instance reflected along the track: the instance occupies x 400..800, the
    code leaves the wire 0..800 and blocks 800..1200 *)
Lemma orig_reflect_refuted :
  all_wfb st_noflip cells_reflect_h = true /\
  realisesb orig st_noflip cells_reflect_h = false /\ realisesb fixed st_noflip cells_reflect_h = true /\
  exists a b, compile orig st_noflip cells_reflect_h = Ok [a; mkShape 10020 0 0 800 100 None :: b].
Proof. vm_compute. repeat split; try reflexivity. eexists. eexists. reflexivity. Qed.

(** (29) validate_assign: `cross.layer - 1` on usize with cross.layer = 0 *)
Lemma orig_underflow_panics :
  (exists c, compile orig st_noflip cells_underflow = Panic c) /\
  (exists c, compile fixed st_noflip cells_underflow = Err c).
Proof. vm_compute. split; eexists; reflexivity. Qed.

(** (2026-10-02) a metal or via layer of the stack without a raw layer (`raw: None`): `.raw.unwrap()` in
    export_track (the empty cell [cells_plain] on a stack whose metal 0 has no raw layer) resp. in the via of
    an assignment (stack whose via 0 has no raw layer).  As found -- at the pinned commit [orig] and with the five
    earlier repairs [fixed5] -- the thread panics; with fix-stack-raw-layers export_stack reports an Err.  A
    raw-less layer the cell never draws on went unnoticed before the repair (Ok) and is an Err after it. *)
Definition set_metal_raw (st : stack) (k : nat) (r : option Z) : stack :=
  mkStack (s_px st) (s_py st)
    (map (fun im => if Nat.eqb (fst im) k
                    then mkMetal (m_horiz (snd im)) (m_cutsize (snd im)) (m_specs (snd im)) (m_offset (snd im))
                                 (m_overlap (snd im)) (m_flip (snd im)) (m_primgrid (snd im)) r
                    else snd im) (combine (seq 0 (length (s_metals st))) (s_metals st)))
    (s_vias st) (s_haslayers st) (s_hasboundary st).
Definition set_via_raw (st : stack) (k : nat) (r : option Z) : stack :=
  mkStack (s_px st) (s_py st) (s_metals st)
    (map (fun iv => if Nat.eqb (fst iv) k then mkVia (v_bot (snd iv)) (v_top (snd iv)) (v_sx (snd iv)) (v_sy (snd iv)) r
                    else snd iv) (combine (seq 0 (length (s_vias st))) (s_vias st)))
    (s_haslayers st) (s_hasboundary st).
Definition st_noraw_metal0 := set_metal_raw st_noflip 0 None.
Definition st_noraw_metal3 := set_metal_raw st_noflip 3 None.
Definition st_noraw_via0 := set_via_raw st_noflip 0 None.
Definition cells_plain := [mkCell 1 1 1 [] [] []].
Definition cells_one_via := [mkCell 2 2 2 [] [] [(1, mkCross 0 0 1 0)]].

Lemma orig_no_raw_layer_panics :
  (compile orig st_noraw_metal0 cells_plain = Panic 540 /\ compile fixed5 st_noraw_metal0 cells_plain = Panic 540 /\
   compile fixed st_noraw_metal0 cells_plain = Err 562) /\
  (compile orig st_noraw_via0 cells_one_via = Panic 541 /\ compile fixed5 st_noraw_via0 cells_one_via = Panic 541 /\
   compile fixed st_noraw_via0 cells_one_via = Err 563) /\
  (* a raw-less layer that is never drawn: unnoticed before, an Err after; the control stack compiles either way *)
  ((exists out, compile fixed5 st_noraw_metal3 cells_plain = Ok out) /\ compile fixed st_noraw_metal3 cells_plain = Err 562 /\
   (exists out, compile fixed5 st_noraw_via0 cells_plain = Ok out) /\ compile fixed st_noraw_via0 cells_plain = Err 563 /\
   compile fixed st_noflip cells_one_via = compile fixed5 st_noflip cells_one_via /\
   exists out, compile fixed st_noflip cells_one_via = Ok out).
Proof. vm_compute. repeat split; try reflexivity; eexists; reflexivity. Qed.

(** a cut (or assignment) on a layer that exists in the stack but not below the cell's `metals`:
    `cuts[cut.track.layer]` is out of bounds *)
Lemma orig_bounds_panics :
  (exists c, compile orig st_noflip cells_cut_above_metals = Panic c) /\
  (exists c, compile fixed st_noflip cells_cut_above_metals = Err c).
Proof. vm_compute. split; eexists; reflexivity. Qed.

(** odd via size 21 x 23: the code draws 20 x 22 (one unit lost to `/2` twice) *)
Lemma orig_odd_refuted :
  all_wfb st_odd cells_odd_via = true /\
  realisesb orig st_odd cells_odd_via = false /\ realisesb fixed st_odd cells_odd_via = true.
Proof. vm_compute. repeat split; reflexivity. Qed.

(** non-vacuity: the suite's own cell (tests/mod.rs create_lib1) on the repo's sample stack is
    well-formed, compiles to Ok with 6 cuts, a via and 3 layers of tracks, and passes the spec *)
Lemma pdka_create_lib1_ok :
  all_wfb st_pdka cells_create_lib1 = true /\ realisesb fixed st_pdka cells_create_lib1 = true /\
  match compile fixed st_pdka cells_create_lib1 with Ok [shapes] => length shapes | _ => O end = 137%nat.
Proof. vm_compute. repeat split; reflexivity. Qed.
