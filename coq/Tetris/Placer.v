(** Model of the tetris placer of /repo (property C09). No proofs here.

    Transcribed from
      layout21tetris/src/placer.rs    Placer::place_lib, place_layout, flatten_array_inst, flatten_array,
                                      resolve_array_place, resolve_instance_place, PlaceOrder
      layout21tetris/src/instance.rs  Instance::reflected, boundbox_size, boundbox
      layout21tetris/src/array.rs     Array::boundbox_size, ArrayInstance::boundbox
      layout21tetris/src/bbox.rs      BoundBox::side
      layout21tetris/src/coords.rs    PrimPitches (+, -, negate, * Int), Xy (+=, index by Dir)
      layout21tetris/src/placement.rs Place::abs, Separation::dir
      layout21utils/src/dep_order.rs  DepOrderer::order, push   (instantiated with PlaceOrder::process)

    Conventions
    - isize is Z (no overflow modelled; the generators stay far from 2^63).
    - [PP] = PrimPitches WITH its direction tag: `+`/`-` on two PrimPitches of different directions
      panics in the code, and some argument combinations of resolve_instance_place reach exactly that.
    - Pointers: a layout's placeables live in a pool [list Node]; node id = index = pointer identity
      (Ptr compares and hashes by address).  A dangling index cannot exist for a Ptr; the model
      returns the distinct outcome [BadRef] for it and theorems assume [wf_pool] / show it is not reached.
    - Cells: only `Cell::outline()` -> (xmax, ymax) is read by the placer.  [Cells] lists, per cell index,
      [Some (xmax, ymax)] (x[0] and y[last] of a validated outline, tags Horiz/Vert as checked by
      Outline::from_prim_pitches) or [None] for a cell without abstract/layout/raw view (outline() = Err).
    - Outcomes: [Ok], [Err] (any LayoutError), [Panic] (todo!(), unimplemented!(), PrimPitches direction
      mismatch), [OutOfFuel] (model recursion fuel), [BadRef] (ill-formed model input).
    - Outside the model: RelAssign placeables / resolve_assign_place (track machinery, C09 is about
      instances), GroupInstance (a Group cannot be constructed through the public API: private fields,
      no constructor), RwLock behaviour (a separation `SizeOf(the cell being placed)` dead-locks the
      real code; reported separately), instance-name strings (an output instance is identified by the
      node id it came from plus the array index path, which is what the `name[i][j]` strings encode). *)
From Coq Require Import ZArith List Bool Arith.
Import ListNotations.
Local Open Scope Z_scope.

(** * Outcomes *)
Inductive res (A : Type) : Type :=
| Ok (a : A)
| Err
| Panic
| OutOfFuel
| BadRef.
Arguments Ok {A} a.
Arguments Err {A}.
Arguments Panic {A}.
Arguments OutOfFuel {A}.
Arguments BadRef {A}.

Definition bind {A B : Type} (x : res A) (f : A -> res B) : res B :=
  match x with
  | Ok a => f a
  | Err => Err
  | Panic => Panic
  | OutOfFuel => OutOfFuel
  | BadRef => BadRef
  end.
Notation "x <- e ;; k" := (bind e (fun x => k)) (at level 61, e at next level, right associativity).
Notation "' p <- e ;; k" := (bind e (fun p => k)) (at level 61, p pattern, e at next level, right associativity).

(** `for x in l { s = f(s, x)? }` *)
Fixpoint fold_res {S X : Type} (f : S -> X -> res S) (s : S) (l : list X) : res S :=
  match l with
  | [] => Ok s
  | x :: r => s' <- f s x ;; fold_res f s' r
  end.

(** `for x in l.iter_mut() { g(x)? }` collecting the updated elements *)
Fixpoint map_res {X Y : Type} (f : X -> res Y) (l : list X) : res (list Y) :=
  match l with
  | [] => Ok []
  | x :: r => y <- f x ;; ys <- map_res f r ;; Ok (y :: ys)
  end.

(** * Directions, sides, primitive pitches *)
Inductive Dir := Horiz | Vert.
Definition dir_other (d : Dir) : Dir := match d with Horiz => Vert | Vert => Horiz end.
Definition dir_eqb (a b : Dir) : bool :=
  match a, b with Horiz, Horiz | Vert, Vert => true | _, _ => false end.

Inductive Side := Top | Bottom | Left | Right.

Record PP := mkPP { pdir : Dir; pnum : Z }.

(** impl Add / Sub for PrimPitches: panic on different directions *)
Definition pp_add (a b : PP) : res PP :=
  if dir_eqb (pdir a) (pdir b) then Ok (mkPP (pdir a) (pnum a + pnum b)) else Panic.
Definition pp_sub (a b : PP) : res PP :=
  if dir_eqb (pdir a) (pdir b) then Ok (mkPP (pdir a) (pnum a - pnum b)) else Panic.
Definition pp_negate (a : PP) : PP := mkPP (pdir a) (- pnum a).
Definition pp_mul (a : PP) (k : Z) : PP := mkPP (pdir a) (pnum a * k).

Record Xy := mkXy { px : PP; py : PP }.
(** Xy index by Dir *)
Definition xy_dir (p : Xy) (d : Dir) : PP := match d with Horiz => px p | Vert => py p end.
(** derive_more AddAssign on Xy: x += rhs.x; y += rhs.y *)
Definition xy_add (a b : Xy) : res Xy :=
  x <- pp_add (px a) (px b) ;; y <- pp_add (py a) (py b) ;; Ok (mkXy x y).
(** `(x, y).into()` : Xy<PrimPitches> *)
Definition xy_of (x y : Z) : Xy := mkXy (mkPP Horiz x) (mkPP Vert y).

Record BBox := mkBBox { p0 : Xy; p1 : Xy }.
(** BoundBox::side *)
Definition bbox_side (b : BBox) (s : Side) : PP :=
  match s with
  | Left => px (p0 b)
  | Right => px (p1 b)
  | Bottom => py (p0 b)
  | Top => py (p1 b)
  end.

(** * Placement data *)
Inductive Align := ASide (s : Side) | ACenter | APorts.
Inductive UnitSpeced := UDb (n : Z) | UPrim (d : Dir) (n : Z) | ULayer (layer : Z) (n : Z).
Inductive SepBy := SepUnits (u : UnitSpeced) | SepSizeOf (cell : nat).
Record Separation := mkSep { sepx : option SepBy; sepy : option SepBy; sepz : option Z }.
(** Separation::dir *)
Definition sep_dir (s : Separation) (d : Dir) : option SepBy :=
  match d with Horiz => sepx s | Vert => sepy s end.

Record RelPlace := mkRel { rto : nat; rside : Side; ralign : Align; rsep : Separation }.
Inductive Place := PAbs (p : Xy) | PRel (r : RelPlace).
(** Place::abs / abs_mut *)
Definition place_abs (p : Place) : res Xy := match p with PAbs xy => Ok xy | PRel _ => Err end.

(** * Cells *)
Definition Cells := list (option (Z * Z)).
(** Cell::boundbox_size = outline()? then (xmax, ymax) *)
Definition cell_size (cells : Cells) (c : nat) : res Xy :=
  match nth_error cells c with
  | None => BadRef
  | Some None => Err
  | Some (Some (w, h)) => Ok (xy_of w h)
  end.

(** * Instances *)
Record Inst := mkInst { icell : nat; iloc : Place; irh : bool; irv : bool }.
(** Instance::reflected *)
Definition reflected (i : Inst) (d : Dir) : bool := match d with Horiz => irh i | Vert => irv i end.

(** the common body of Instance::boundbox and ArrayInstance::boundbox once loc and size are known *)
Definition box_at (loc size : Xy) (rh rv : bool) : res BBox :=
  '(x0, x1) <- (if rh then x <- pp_sub (px loc) (px size) ;; Ok (x, px loc)
                else x <- pp_add (px loc) (px size) ;; Ok (px loc, x)) ;;
  '(y0, y1) <- (if rv then y <- pp_sub (py loc) (py size) ;; Ok (y, py loc)
                else y <- pp_add (py loc) (py size) ;; Ok (py loc, y)) ;;
  Ok (mkBBox (mkXy x0 y0) (mkXy x1 y1)).

(** Instance::boundbox *)
Definition inst_boundbox (cells : Cells) (i : Inst) : res BBox :=
  loc <- place_abs (iloc i) ;;
  size <- cell_size cells (icell i) ;;
  box_at loc size (irh i) (irv i).

(** * Arrays *)
Inductive Array := mkArray (unit : Arrayable) (count : nat) (sep : Separation)
with Arrayable := UCell (c : nat) | UArr (a : Array).
Record ArrayInst := mkArrayInst { aarr : Array; aloc : Place; arh : bool; arv : bool }.

(** Array::boundbox_size: `let _unit = self.unit.boundbox_size()?; todo!()` *)
Fixpoint array_boundbox_size (cells : Cells) (a : Array) : res Xy :=
  match a with
  | mkArray unit _ _ =>
    _unit <- match unit with
             | UCell c => cell_size cells c
             | UArr a' => array_boundbox_size cells a'
             end ;;
    Panic
  end.

(** ArrayInstance::boundbox *)
Definition arrayinst_boundbox (cells : Cells) (a : ArrayInst) : res BBox :=
  loc <- place_abs (aloc a) ;;
  size <- array_boundbox_size cells (aarr a) ;;
  box_at loc size (arh a) (arv a).

(** An instance as it appears in `layout.instances` after placement.  [oname] = node id of the
    (array) instance it came from, followed by the array indices (`name[i][j]`). *)
Record OInst := mkOInst { oname : list nat; ocell : nat; oloc : Place; orh : bool; orv : bool }.

(** flatten_array_inst, the part after the children are known: translate each child to the
    array instance's location and reflection *)
Definition place_child (loc : Xy) (rh rv : bool) (c : OInst) : res OInst :=
  cl <- place_abs (oloc c) ;;
  let x := if rh then pp_mul (px cl) (-1) else px cl in
  let crh := if rh then negb (orh c) else orh c in
  let y := if rv then pp_mul (py cl) (-1) else py cl in
  let crv := if rv then negb (orv c) else orv c in
  l <- xy_add (mkXy x y) loc ;;
  Ok (mkOInst (oname c) (ocell c) (PAbs l) crh crv).

Definition place_children (children : list OInst) (loc : Place) (rh rv : bool) : res (list OInst) :=
  l <- place_abs loc ;;
  map_res (place_child l rh rv) children.

(** the `for i in 0..array.count` loop of flatten_array; [body i loc] = the match on array.unit *)
Fixpoint array_loop (body : nat -> Xy -> res (list OInst)) (sep : Xy)
         (k i : nat) (loc : Xy) (acc : list OInst) : res (list OInst) :=
  match k with
  | O => Ok acc
  | S k' =>
    new <- body i loc ;;
    loc' <- xy_add loc sep ;;                       (* loc += sep *)
    array_loop body sep k' (S i) loc' (acc ++ new)
  end.

Definition array_sep (s : option SepBy) (d : Dir) : res PP :=
  match s with
  | None => Ok (mkPP d 0)
  | Some (SepUnits (UPrim pd n)) => Ok (mkPP pd n)
  | Some (SepUnits _) => Panic                       (* unimplemented!() *)
  | Some (SepSizeOf _) => Panic                      (* unimplemented!() *)
  end.

(** flatten_array; for a nested unit the short-lived ArrayInstance at [loc], unreflected, is
    flattened with flatten_array_inst = flatten_array then place_children *)
Fixpoint flatten_array (a : Array) (prefix : list nat) {struct a} : res (list OInst) :=
  match a with
  | mkArray unit count sep =>
    xsep <- array_sep (sepx sep) Horiz ;;
    ysep <- array_sep (sepy sep) Vert ;;
    let body := fun (i : nat) (loc : Xy) =>
      match unit with
      | UCell c => Ok [mkOInst (prefix ++ [i]) c (PAbs loc) false false]
      | UArr a' =>
        children <- flatten_array a' (prefix ++ [i]) ;;
        place_children children (PAbs loc) false false
      end in
    array_loop body (mkXy xsep ysep) count 0%nat (xy_of 0 0) []
  end.

(** flatten_array_inst *)
Definition flatten_array_inst (name : nat) (a : ArrayInst) : res (list OInst) :=
  children <- flatten_array (aarr a) [name] ;;
  place_children children (aloc a) (arh a) (arv a).

(** * Placeables of one layout *)
Inductive Node :=
| NInst (i : Inst)            (* Placeable::Instance(Ptr<Instance>) *)
| NArray (a : ArrayInst)      (* Placeable::Array(Ptr<ArrayInstance>) *)
| NPort (inst : nat).         (* Placeable::Port { inst, port } *)
Definition Pool := list Node.

(** * PlaceOrder: dependency ordering *)
Definition place_dep (p : Place) : option nat :=
  match p with PRel r => Some (rto r) | PAbs _ => None end.

(** PlaceOrder::process: the (at most one) item pushed *)
Definition node_dep (pool : Pool) (n : nat) : res (option nat) :=
  match nth_error pool n with
  | None => BadRef
  | Some (NInst i) => Ok (place_dep (iloc i))
  | Some (NArray a) => Ok (place_dep (aloc a))
  | Some (NPort j) =>
    match nth_error pool j with
    | Some (NInst i) => Ok (place_dep (iloc i))
    | _ => BadRef
    end
  end.

Definition mem (x : nat) (s : list nat) : bool := existsb (Nat.eqb x) s.
Fixpoint set_remove (x : nat) (s : list nat) : list nat :=
  match s with
  | [] => []
  | y :: r => if Nat.eqb x y then set_remove x r else y :: set_remove x r
  end.

(** DepOrderer { stack, seen, pending }; the hash sets are only used through contains / insert / remove *)
Record ost := mkost { ostack : list nat; oseen : list nat; opending : list nat }.

(** DepOrderer::push with `P::process(item, self)?` inlined. [fuel] = remaining recursion depth. *)
Fixpoint push (fuel : nat) (pool : Pool) (s : ost) (item : nat) : res ost :=
  match fuel with
  | O => OutOfFuel
  | S f =>
    if mem item (oseen s) then Ok s
    else if mem item (opending s) then Err                             (* return P::fail() *)
    else
      let s1 := mkost (ostack s) (oseen s) (item :: opending s) in     (* pending.insert(item) *)
      d <- node_dep pool item ;;
      s2 <- match d with Some t => push f pool s1 t | None => Ok s1 end ;;
      if mem item (opending s2)                                        (* if !pending.remove(item) { fail } *)
      then Ok (mkost (ostack s2 ++ [item]) (item :: oseen s2) (set_remove item (opending s2)))
      else Err
  end.

(** DepOrderer::order *)
Definition order (fuel : nat) (pool : Pool) (items : list nat) : res (list nat) :=
  s <- fold_res (push fuel pool) (mkost [] [] []) items ;;
  Ok (ostack s).

(** * resolve_instance_place *)
Definition side_axis_of (s : Side) : Dir :=
  match s with Left | Right => Horiz | Top | Bottom => Vert end.

(** [bbox] = bounding box of `rel.to`, computed by the caller exactly where the code computes it
    (first statement of the function, see [target_boundbox]). *)
Definition resolve (cells : Cells) (inst : Inst) (rel : RelPlace) (bbox : BBox) : res Xy :=
  let side_coord := bbox_side bbox (rside rel) in
  align_side <- match ralign rel with ASide s => Ok s | _ => Panic end ;;    (* unimplemented!() *)
  let align_coord := bbox_side bbox align_side in
  let side_axis := side_axis_of (rside rel) in
  let align_axis := dir_other side_axis in
  let offset_side :=
    match rside rel with
    | Left | Bottom => negb (reflected inst side_axis)
    | Top | Right => reflected inst side_axis
    end in
  let offset_align :=
    match align_side with
    | Left | Bottom => reflected inst align_axis
    | Top | Right => negb (reflected inst align_axis)
    end in
  '(side_coord, align_coord) <-
    (if offset_side || offset_align then
       inst_size <- cell_size cells (icell inst) ;;                      (* inst.boundbox_size()? *)
       sc <- (if offset_side then
                if reflected inst side_axis then pp_add side_coord (xy_dir inst_size side_axis)
                else pp_sub side_coord (xy_dir inst_size side_axis)
              else Ok side_coord) ;;
       ac <- (if offset_align then
                if reflected inst align_axis then pp_add align_coord (xy_dir inst_size align_axis)
                else pp_sub align_coord (xy_dir inst_size align_axis)
              else Ok align_coord) ;;
       Ok (sc, ac)
     else Ok (side_coord, align_coord)) ;;
  _ <- match sepz (rsep rel) with Some _ => Err | None => Ok tt end ;;
  _ <- match sep_dir (rsep rel) align_axis with Some _ => Err | None => Ok tt end ;;
  sep_side_axis <-
    match sep_dir (rsep rel) side_axis with
    | None => Ok (mkPP side_axis 0)
    | Some (SepSizeOf c) => sz <- cell_size cells c ;; Ok (xy_dir sz side_axis)
    | Some (SepUnits (UDb _)) => Err
    | Some (SepUnits (ULayer _ _)) => Panic                              (* todo!() *)
    | Some (SepUnits (UPrim d n)) => if dir_eqb d side_axis then Ok (mkPP d n) else Err
    end ;;
  let sep_side_axis :=
    match rside rel with
    | Top | Right => sep_side_axis
    | Left | Bottom => pp_negate sep_side_axis
    end in
  side_coord <- pp_add side_coord sep_side_axis ;;
  Ok (match rside rel with
      | Left | Right => mkXy side_coord align_coord
      | Top | Bottom => mkXy align_coord side_coord
      end).

(** * place_layout *)
(** Locations assigned so far (`inst.loc = Place::Abs(abs)` through the shared pointer). *)
Definition Asg := list (nat * Xy).
Fixpoint lookup (asg : Asg) (n : nat) : option Xy :=
  match asg with
  | [] => None
  | (k, v) :: r => if Nat.eqb n k then Some v else lookup r n
  end.
Definition cur_place (asg : Asg) (n : nat) (orig : Place) : Place :=
  match lookup asg n with Some p => PAbs p | None => orig end.
Definition inst_at (i : Inst) (p : Place) : Inst := mkInst (icell i) p (irh i) (irv i).

(** `match rel.to { Instance(p) => p.read()?.boundbox()?, Array(p) => p.read()?.boundbox()?, .. => unimplemented!() }` *)
Definition target_boundbox (cells : Cells) (pool : Pool) (asg : Asg) (t : nat) : res BBox :=
  match nth_error pool t with
  | None => BadRef
  | Some (NInst j) => inst_boundbox cells (inst_at j (cur_place asg t (iloc j)))
  | Some (NArray a) => arrayinst_boundbox cells a
  | Some (NPort _) => Panic
  end.

(** one iteration of `for place in ordered.drain(..)` *)
Definition place_node (cells : Cells) (pool : Pool) (st : Asg * list OInst) (n : nat)
  : res (Asg * list OInst) :=
  let '(asg, out) := st in
  match nth_error pool n with
  | None => BadRef
  | Some (NInst i) =>
    match cur_place asg n (iloc i) with
    | PRel rel =>
      bbox <- target_boundbox cells pool asg (rto rel) ;;
      abs <- resolve cells i rel bbox ;;
      Ok ((n, abs) :: asg, out ++ [mkOInst [n] (icell i) (PAbs abs) (irh i) (irv i)])
    | PAbs p => Ok (asg, out ++ [mkOInst [n] (icell i) (PAbs p) (irh i) (irv i)])
    end
  | Some (NArray a) =>
    match aloc a with
    | PRel _ => Panic                                                    (* resolve_array_place: todo!() *)
    | PAbs _ =>
      children <- flatten_array_inst n a ;;
      Ok (asg, out ++ children)
    end
  | Some (NPort _) => Ok st
  end.

Definition place_nodes (cells : Cells) (pool : Pool) (ordered : list nat) : res (Asg * list OInst) :=
  fold_res (place_node cells pool) ([], []) ordered.

(** place_layout: [items] = layout.instances followed by layout.places.  Result = layout.instances afterwards. *)
Definition place_layout (fuel : nat) (cells : Cells) (pool : Pool) (items : list nat) : res (list OInst) :=
  ordered <- order fuel pool items ;;
  '(_, out) <- place_nodes cells pool ordered ;;
  Ok out.

(** the fuel that always suffices (proved): one frame per node plus one *)
Definition enough_fuel (pool : Pool) : nat := S (length pool).

(** place_lib: every layout of the library in turn (the order of the cells does not matter for the
    result: place_layout reads nothing of other cells but their outline). *)
Definition place_lib (cells : Cells) (layouts : list (Pool * list nat)) : res (list (list OInst)) :=
  map_res (fun l => place_layout (enough_fuel (fst l)) cells (fst l) (snd l)) layouts.

(** * Well-formed pools: what the Rust types guarantee (every Ptr points at an object) *)
Definition place_refs_ok (n : nat) (p : Place) : bool :=
  match p with PAbs _ => true | PRel r => Nat.ltb (rto r) n end.
Definition node_ok (pool : Pool) (nd : Node) : bool :=
  match nd with
  | NInst i => place_refs_ok (length pool) (iloc i)
  | NArray a => place_refs_ok (length pool) (aloc a)
  | NPort j => match nth_error pool j with Some (NInst _) => true | _ => false end
  end.
Definition wf_pool (pool : Pool) : bool := forallb (node_ok pool) pool.
Definition wf_items (pool : Pool) (items : list nat) : bool :=
  forallb (fun n => Nat.ltb n (length pool)) items.
