(** Primitive operations of the generated kernels, second part (Gen/KernelsTetrisGen.v, Gen/KernelsRaw2Gen.v).

    Base/KernelOps.v fixes the arithmetic primitives [kops M F I].  The Rust functions translated since then
    return `Result`, use `?`, `match` over enums, `Option`, shared pointers and types of other crates.
    Their translation (tools/translate_rust_kernels.py) needs a few more primitives, kept in the record
    [kxops] that EXTENDS [kops] (so that the definitions generated earlier and their instances are untouched):

    - [k_fail]        an `Err(..)` leaving the function: `Err(e)`, `return Err(e)`, `LayoutError::fail(msg)`,
                      `self.fail(msg)`; also what `e?` does when `e` is an `Err`.  The error VALUE is abstract
                      (messages and error kinds are not translated): an instance says what an error is;
    - [k_unwrap]      `r.unwrap()` / `r.expect(..)` on a `Result`: the computation with its error turned into a panic;
    - [i_try_from_q]  `T::try_from(x)?` / `x.try_into()?` between integer types: from, to;
    - [v_set]         `v[i] = x` on a Vec (also the write-back of `v[i].f = x` and of an assignment through
                      `let r = &mut v[i]`): the updated list, a panic when i is out of bounds;
    - [v_insert]      `v.insert(i, x)`: a panic when i > len.

    Conventions of the translation, in addition to those of KernelOps.v:
    - a Rust function returning `Result<T, E>` (or an alias `LayoutResult<T>`, `TrackResult<T>`) becomes a
      definition of type [M T], exactly as a function returning `T`: `Ok(v)` is [k_ret v], `e?` is the computation
      [e] itself, sequenced by [k_bind] (so an instance's [k_bind] must pass an error on, as it passes a panic on);
    - an `enum` becomes an inductive type [g<Enum>], a variant `E::V` the constructor [g<Enum>_V], `match` a Gallina
      [match] (guards become [if] inside the arm, the later arms repeated in its [else]); a `struct` becomes a
      record of the fields the translated functions USE when it has fields of types outside the subset (strings,
      hash maps, ...), of all its fields otherwise; a payload or field of a type outside the subset that has to
      stay (enum payloads) has the one-element type [kopaque];
    - `Ptr<T>` (the shared pointer of layout21utils) is [kptr]: an index, pointer identity being equality of
      indices; `p.read()?` is an operation supplied from outside, [ext_read_<T> : kptr -> M T];
    - functions and methods of other crates (rust_decimal, the protobuf structs), and functions of the
      repository listed as external for a family, are Section variables [ext_<Type>_<fn>] of the generated
      file: the generated definition is a function of them, and the tie theorem says which model function
      stands for each; types of other crates are Section variables [T_<Type>].
    No proofs in this file. *)
From Coq Require Import ZArith Bool List.
From L21 Require Import Base.KernelOps.
Import ListNotations.

(** the shared pointer `Ptr<T>`: an index into the collection of the objects pointed at *)
Definition kptr : Type := nat.

(** a value of a type outside the subset (a string, a key of a slot map, ...) *)
Inductive kopaque : Type := kopaque_any.

Record kxops (M : Type -> Type) (F I : Type) : Type := mkKxops {
  kx_base : kops M F I;
  k_fail : forall A : Type, M A;
  k_unwrap : forall A : Type, M A -> M A;
  i_try_from_q : ity -> ity -> I -> M I;
  v_set : forall A : Type, list A -> I -> A -> M (list A);
  v_insert : forall A : Type, list A -> I -> A -> M (list A)
}.
Arguments kx_base {M F I} k.
Arguments k_fail {M F I} k {A}.
Arguments k_unwrap {M F I} k {A} _.
Arguments i_try_from_q {M F I} k _ _ _.
Arguments v_set {M F I} k {A} _ _ _.
Arguments v_insert {M F I} k {A} _ _ _.

(** `v.pop()` on a Vec (the value popped is not used by the translated code) *)
Definition k_pop {A : Type} (l : list A) : list A := removelast l.

(** `v.last()` / `v.first()` *)
Definition k_last {A : Type} (l : list A) : option A :=
  match rev l with [] => None | x :: _ => Some x end.
Definition k_first {A : Type} (l : list A) : option A :=
  match l with [] => None | x :: _ => Some x end.

(** `v.iter().enumerate()`: the elements with their indices *)
Definition k_enumerate {M : Type -> Type} {F I A : Type} (ops : kops M F I) (l : list A) : list (I * A) :=
  combine (map (fun n => i_lit ops (Z.of_nat n)) (seq 0 (length l))) l.

(** `v.iter().position(|x| p)` for a closure without effects: the index of the first element that satisfies p *)
Fixpoint k_find_index {A : Type} (p : A -> bool) (l : list A) (n : nat) : option nat :=
  match l with
  | [] => None
  | x :: r => if p x then Some n else k_find_index p r (S n)
  end.
Definition k_position {M : Type -> Type} {F I A : Type} (ops : kops M F I) (p : A -> bool) (l : list A) : option I :=
  option_map (fun n => i_lit ops (Z.of_nat n)) (k_find_index p l 0).

(** list update and insertion at a position given as nat, for instances whose integers are Z *)
Fixpoint k_list_set {A : Type} (l : list A) (n : nat) (x : A) : list A :=
  match l, n with
  | [], _ => []
  | _ :: r, O => x :: r
  | y :: r, S k => y :: k_list_set r k x
  end.
Definition k_list_insert {A : Type} (l : list A) (n : nat) (x : A) : list A := firstn n l ++ x :: skipn n l.

(** `v.iter().position(|x| p)` for a closure WITH effects: the elements are tried in order until p holds *)
Section PositionM.
  Context {M : Type -> Type} {F I : Type} (ops : kops M F I).
  Fixpoint k_position_from {A : Type} (p : A -> M bool) (l : list A) (n : nat) : M (option I) :=
    match l with
    | [] => k_ret ops None
    | x :: r => k_bind ops (p x) (fun b => if b then k_ret ops (Some (i_lit ops (Z.of_nat n))) else k_position_from p r (S n))
    end.
  Definition k_position_m {A : Type} (p : A -> M bool) (l : list A) : M (option I) := k_position_from p l 0.
End PositionM.

(** `v.iter().sum::<T>()` for a T whose `Sum` is derived (derive_more): `+` folded from the zero value, left to right *)
Section Sum.
  Context {M : Type -> Type} {F I : Type} (ops : kops M F I).
  Fixpoint k_sum {A : Type} (add : A -> A -> M A) (acc : A) (l : list A) : M A :=
    match l with
    | [] => k_ret ops acc
    | x :: r => k_bind ops (add acc x) (fun a => k_sum add a r)
    end.
End Sum.
