(** IEEE-754 binary64 values as bit patterns over [Z] (layer A of DESIGN.md §3).

    A finite non-zero double is (sign, m, e) with value (-1)^sign * m * 2^e.
    For a normal double 2^52 <= m < 2^53 and e = biased - 1075.
    Nothing here rounds; operations that round are written out where they are used. *)
From Coq Require Import ZArith Bool Lia.
Local Open Scope Z_scope.

Definition two52 : Z := 4503599627370496.
Definition two53 : Z := 9007199254740992.
Definition two56 : Z := 72057594037927936.
Definition two63 : Z := 9223372036854775808.
Definition two64 : Z := 18446744073709551616.

(** [b] is a 64-bit word. *)
Definition word64 (b : Z) : Prop := 0 <= b < two64.

Definition f64_sign (b : Z) : bool := two63 <=? b.
Definition f64_bexp (b : Z) : Z := (b / two52) mod 2048.
Definition f64_frac (b : Z) : Z := b mod two52.

(** Build the bit pattern of the normal double (-1)^s * m * 2^e,
    meaningful when 2^52 <= m < 2^53 and -1074 <= e <= 971. *)
Definition f64_of_norm (s : bool) (m e : Z) : Z :=
  (if s then two63 else 0) + (e + 1075) * two52 + (m - two52).

(** Decompose a finite double into sign, integer significand and exponent.
    [None] for infinities and NaNs. Zero and subnormals give e = -1074. *)
Definition f64_decomp (b : Z) : option (bool * Z * Z) :=
  let be := f64_bexp b in
  if be =? 2047 then None
  else if be =? 0 then Some (f64_sign b, f64_frac b, -1074)
  else Some (f64_sign b, f64_frac b + two52, be - 1075).

Definition f64_is_zero (b : Z) : bool := (b =? 0) || (b =? two63).

(** A normal finite double: the domain on which [f64_of_norm] inverts [f64_decomp]. *)
Definition f64_normal (b : Z) : Prop :=
  word64 b /\ 1 <= f64_bexp b <= 2046.
