(** Primitive operations of the generated kernels, third part: finite sets and finite maps
    (Gen/KernelsOrderGen.v, Gen/KernelsRawOrderGen.v, Gen/KernelsTetrisOrderGen.v, Gen/KernelsRawGds*Gen.v, Gen/KernelsTetrisConv*Gen.v, ...).

    The dependency orderers of /repo keep `HashSet`s (`seen`, `pending`) and a `HashMap` (GDSII struct names to structs).
    They use them through membership, insertion, removal and lookup only, never through iteration, so the generated code
    needs no order oracle: a set is a value of an ABSTRACT carrier with the operations below, supplied per key type as a
    Section variable [sops_<Key> : ksetops <Key>] (a map: [mops_<Key>_<Val> : kmapops <Key> <Val>]) of the generated file.
    An instance says what a set is (the models of Order/DepOrder.v: lists with [mem] / [set_insert] / [set_remove]).

    Conventions of the translation (tools/translate_rust_kernels.py), in addition to those of KernelOps.v / KernelOpsX.v:
    - `HashSet::new()`, `HashSet::with_capacity(n)` are [ks_empty]; `s.contains(x)` is the pure [ks_contains s x];
    - `s.insert(x);` / `s.remove(x);` as statements assign [ks_insert s x] / [ks_remove s x] to the place s;
    - `if s.insert(x) {..}`, `if !s.insert(x) {..}`, `if s.remove(x) {..}`, `if !s.remove(x) {..}` (the call being the WHOLE
      condition, up to one `!`): the value of `insert` is [negb (ks_contains s x)] and that of `remove` is [ks_contains s x],
      both read BEFORE the update, which is then done as above (std: `insert` returns whether the value was newly
      inserted, `remove` whether it was present);
    - `HashMap::new()` is [km_empty], `m.insert(k, v);` assigns [km_insert m k v], `m.get(k)` is the pure [km_get m k];
    - a function with ONE parameter borrowed `&mut` (self or another) that returns `()` / `Result<()>` and changes it returns
      the new value of that parameter; a call `x.f(a)?;` / `T::f(a, x)?;` of such a function is the assignment of its result
      to the place passed; a call of the function being translated from inside its own body is a call of the Section variable
      [rec_<Type>_<fn>] (OPEN recursion: the tie theorems put the model at fuel f there and obtain the model at fuel S f);
    - `v.iter().map(|x| f(x)).collect::<Result<Vec<_>, _>>()` is [k_map_m]: the elements in order, up to the first error;
    - a string (when `String` is a foreign type of the unit) is a value of T_String; a literal is [ext_str_lit "text"].
    No proofs in this file. *)
From Coq Require Import Bool List.
From L21 Require Import Base.KernelOps.
Import ListNotations.

Record ksetops (K : Type) : Type := mkKsetops {
  ks_t : Type;
  ks_empty : ks_t;
  ks_contains : ks_t -> K -> bool;
  ks_insert : ks_t -> K -> ks_t;
  ks_remove : ks_t -> K -> ks_t
}.
Arguments ks_t {K} _.
Arguments ks_empty {K} _.
Arguments ks_contains {K} _ _ _.
Arguments ks_insert {K} _ _ _.
Arguments ks_remove {K} _ _ _.

Record kmapops (K V : Type) : Type := mkKmapops {
  km_t : Type;
  km_empty : km_t;
  km_insert : km_t -> K -> V -> km_t;
  km_get : km_t -> K -> option V
}.
Arguments km_t {K V} _.
Arguments km_empty {K V} _.
Arguments km_insert {K V} _ _ _ _.
Arguments km_get {K V} _ _ _.

(** list sets over a key type with a boolean equality: the reading the models use *)
Section ListSet.
  Context {K : Type} (eqb : K -> K -> bool).
  Definition ls_mem (x : K) (s : list K) : bool := existsb (eqb x) s.
  Definition ls_insert (x : K) (s : list K) : list K := if ls_mem x s then s else x :: s.
  Fixpoint ls_remove (x : K) (s : list K) : list K :=
    match s with
    | [] => []
    | y :: r => if eqb x y then ls_remove x r else y :: ls_remove x r
    end.
End ListSet.

(** association lists as maps: the binding inserted last wins *)
Section ListMap.
  Context {K V : Type} (eqb : K -> K -> bool).
  Fixpoint lm_get (m : list (K * V)) (k : K) : option V :=
    match m with
    | [] => None
    | (k', v) :: r => if eqb k k' then Some v else lm_get r k
    end.
  Definition lm_ops : kmapops K V :=
    {| km_t := list (K * V); km_empty := []; km_insert := fun m k v => (k, v) :: m; km_get := lm_get |}.
End ListMap.

(** `v.iter().map(|x| f(x)).collect::<Result<Vec<_>, _>>()`: the elements in order, up to the first error *)
Section MapM.
  Context {M : Type -> Type} {F I : Type} (ops : kops M F I).
  Fixpoint k_map_m {A B : Type} (f : A -> M B) (l : list A) : M (list B) :=
    match l with
    | [] => k_ret ops []
    | x :: r => k_bind ops (f x) (fun y => k_bind ops (k_map_m f r) (fun ys => k_ret ops (y :: ys)))
    end.
End MapM.

