(** Primitive operations of the generated arithmetic kernels (Gen/KernelsGen.v).

    tools/translate_rust_kernels.py turns small pure Rust functions of /repo into Gallina
    definitions, one per Rust function, on every run.  Those definitions do not fix what a
    number is: they are written against the record [kops] below, so that the SAME generated term
    can be read

    - over any commutative ring with the identity monad (the algebraic level of C12),
    - over binary64 values as dyadics with rounding after every operation and [option] as
      the effect (overflow: outside the model),
    - over Z with range checks, the effect being "overflow" / "panic" (C13),

    and each reading is then proved EQUAL to the hand-written model of the same function
    (Geom/KernelsTie*_proofs.v, Properties/Kernels.v).  An edit to one of the translated Rust
    functions changes the generated term and breaks that equality.

    Conventions of the translation (fixed here because the instances rely on them):
    - every arithmetic operation, cast and call is an effect in [M] and is sequenced left to
      right, operands before the operation (Rust's evaluation order);
    - comparisons, [min]/[max], field and index projections and literals are pure;
    - [a >= b] is emitted as [le b a], [a > b] as [lt b a], [a != b] as [negb (eq a b)];
    - all integer types share the carrier [I]; the operations that can leave the range of a
      type carry the type as a tag ([ity]);
    - a Rust [Vec<T>] is a [list T]; [[T; 2]] is a pair; a struct is a record.

    No proofs in this file. *)
From Coq Require Import ZArith Bool List.
Import ListNotations.

(** integer types of the translated sources *)
Inductive ity : Type := Isize | Usize | I128 | U64 | I64 | I32 | U32 | I16 | U8 | U16.

(** what one round of a loop body says: leave the function with a value, or go on with the
    new values of the variables the loop assigns *)
Inductive ctrl (R S : Type) : Type :=
| Brk (r : R)
| Cont (s : S).
Arguments Brk {R S} r.
Arguments Cont {R S} s.

Record kops (M : Type -> Type) (F I : Type) : Type := mkKops {
  (* effects *)
  k_ret : forall A : Type, A -> M A;
  k_bind : forall A B : Type, M A -> (A -> M B) -> M B;
  k_panic : forall A : Type, M A;            (* unimplemented!, unreachable!, todo!, panic! *)
  (* f64 *)
  f_zero : F;                                (* the literal 0. *)
  f_one : F;                                 (* the literal 1. *)
  f_lit : Z -> Z -> F;                       (* any other literal: m * 10^e *)
  f_add : F -> F -> M F;
  f_sub : F -> F -> M F;
  f_mul : F -> F -> M F;
  f_div : F -> F -> M F;
  f_neg : F -> M F;
  f_eq : F -> F -> bool;
  f_lt : F -> F -> bool;
  f_le : F -> F -> bool;
  f_round : F -> M F;                        (* f64::round *)
  f_rem_euclid : F -> F -> M F;
  f_to_radians : F -> M F;
  f_sin : F -> M F;
  f_cos : F -> M F;
  f_powi : F -> I -> M F;
  (* integers *)
  i_lit : Z -> I;
  i_minval : ity -> I;                       (* T::MIN *)
  i_maxval : ity -> I;                       (* T::MAX *)
  i_add : ity -> I -> I -> M I;
  i_sub : ity -> I -> I -> M I;
  i_mul : ity -> I -> I -> M I;
  i_div : ity -> I -> I -> M I;
  i_rem : ity -> I -> I -> M I;
  i_neg : ity -> I -> M I;
  i_and : ity -> I -> I -> M I;
  i_or : ity -> I -> I -> M I;
  i_shl : ity -> I -> I -> M I;
  i_shr : ity -> I -> I -> M I;
  i_min : I -> I -> I;
  i_max : I -> I -> I;
  i_eq : I -> I -> bool;
  i_lt : I -> I -> bool;
  i_le : I -> I -> bool;
  i_cast : ity -> ity -> I -> M I;           (* `x as T` between integer types: from, to *)
  i_try_from : ity -> ity -> I -> M I;       (* `T::try_from(x).unwrap()`: from, to *)
  i_to_f : ity -> I -> M F;                  (* `x as f64` *)
  f_to_i : ity -> F -> M I;                  (* `x as T` from f64 *)
  (* Vec *)
  v_len : forall A : Type, list A -> I;
  v_get : forall A : Type, list A -> I -> M A;          (* `v[i]` *)
  (* `for i in lo..hi { body }` *)
  k_for : forall R S : Type, I -> I -> (I -> S -> M (ctrl R S)) -> S -> M (ctrl R S)
}.

Arguments k_ret {M F I} k {A} _.
Arguments k_bind {M F I} k {A B} _ _.
Arguments k_panic {M F I} k {A}.
Arguments f_zero {M F I} k.
Arguments f_one {M F I} k.
Arguments f_lit {M F I} k _ _.
Arguments f_add {M F I} k _ _.
Arguments f_sub {M F I} k _ _.
Arguments f_mul {M F I} k _ _.
Arguments f_div {M F I} k _ _.
Arguments f_neg {M F I} k _.
Arguments f_eq {M F I} k _ _.
Arguments f_lt {M F I} k _ _.
Arguments f_le {M F I} k _ _.
Arguments f_round {M F I} k _.
Arguments f_rem_euclid {M F I} k _ _.
Arguments f_to_radians {M F I} k _.
Arguments f_sin {M F I} k _.
Arguments f_cos {M F I} k _.
Arguments f_powi {M F I} k _ _.
Arguments i_lit {M F I} k _.
Arguments i_minval {M F I} k _.
Arguments i_maxval {M F I} k _.
Arguments i_add {M F I} k _ _ _.
Arguments i_sub {M F I} k _ _ _.
Arguments i_mul {M F I} k _ _ _.
Arguments i_div {M F I} k _ _ _.
Arguments i_rem {M F I} k _ _ _.
Arguments i_neg {M F I} k _ _.
Arguments i_and {M F I} k _ _ _.
Arguments i_or {M F I} k _ _ _.
Arguments i_shl {M F I} k _ _ _.
Arguments i_shr {M F I} k _ _ _.
Arguments i_min {M F I} k _ _.
Arguments i_max {M F I} k _ _.
Arguments i_eq {M F I} k _ _.
Arguments i_lt {M F I} k _ _.
Arguments i_le {M F I} k _ _.
Arguments i_cast {M F I} k _ _ _.
Arguments i_try_from {M F I} k _ _ _.
Arguments i_to_f {M F I} k _ _.
Arguments f_to_i {M F I} k _ _.
Arguments v_len {M F I} k {A} _.
Arguments v_get {M F I} k {A} _ _.
Arguments k_for {M F I} k {R S} _ _ _ _.

(** `for x in v { body }`: the same for every instance, by recursion on the list *)
Section Foreach.
  Context {M : Type -> Type} {F I : Type} (ops : kops M F I).
  Fixpoint k_foreach {A R S : Type} (l : list A) (body : A -> S -> M (ctrl R S)) (s : S)
    : M (ctrl R S) :=
    match l with
    | [] => k_ret ops (Cont s)
    | x :: r =>
      k_bind ops (body x s)
             (fun c => match c with
                       | Brk v => k_ret ops (Brk v)
                       | Cont s' => k_foreach r body s'
                       end)
    end.
End Foreach.

(** The identity effect: nothing can fail. *)
Definition Idm (A : Type) : Type := A.

(** bounds of the integer types *)
Local Open Scope Z_scope.
Definition ity_min (t : ity) : Z :=
  match t with
  | Isize | I64 => - 2 ^ 63
  | I128 => - 2 ^ 127
  | I32 => - 2 ^ 31
  | I16 => - 2 ^ 15
  | Usize | U64 | U32 | U8 | U16 => 0
  end.
Definition ity_max (t : ity) : Z :=
  match t with
  | Isize | I64 => 2 ^ 63 - 1
  | I128 => 2 ^ 127 - 1
  | I32 => 2 ^ 31 - 1
  | I16 => 2 ^ 15 - 1
  | Usize | U64 => 2 ^ 64 - 1
  | U32 => 2 ^ 32 - 1
  | U8 => 255
  | U16 => 65535
  end.
Definition ity_in (t : ity) (z : Z) : bool := (ity_min t <=? z) && (z <=? ity_max t).

(** `for i in lo..hi` over Z, for instances whose integers are Z: [n] rounds from [i] *)
Section ForZ.
  Context {M : Type -> Type} (ret : forall A : Type, A -> M A)
          (bind : forall A B : Type, M A -> (A -> M B) -> M B).
  Fixpoint for_from {R S : Type} (n : nat) (i : Z) (body : Z -> S -> M (ctrl R S)) (s : S)
    : M (ctrl R S) :=
    match n with
    | O => ret _ (Cont s)
    | Datatypes.S n' =>
      bind _ _ (body i s)
           (fun c => match c with
                     | Brk v => ret _ (Brk v)
                     | Cont s' => for_from n' (i + 1) body s'
                     end)
    end.
  Definition for_Z {R S : Type} (lo hi : Z) (body : Z -> S -> M (ctrl R S)) (s : S)
    : M (ctrl R S) :=
    for_from (Z.to_nat (hi - lo)) lo body s.
End ForZ.
