(** Primitive operations of the generated kernels, fourth part: the two file-format codecs
    (Gen/KernelsGdsWriteGen.v, Gen/KernelsGdsReadGen.v, Gen/KernelsLefWriteGen.v, Gen/KernelsLefReadGen.v).
    Conventions of the translation (tools/translate_rust_kernels.py), in addition to those of KernelOps.v / KernelOpsX.v / KernelOpsS.v:
    - a `trait T { .. }` is read like `impl T`: `Self` is the abstract type T_<T>, the required methods are external;
    - an `if` / `if let` / `match` in statement position whose branches leave neither the function nor a loop is translated once and
      JOINED with the rest of its block through the tuple of the locals its branches assign;
    - `[x; N]` (N a literal) is [List.repeat x N]; `v[a..b]` with literal bounds is [k_slice] (a panic when the bounds do not fit), an
      assignment through `&mut v[a..b]` is [k_splice]; `d.copy_from_slice(s)` assigns s to d and panics when the lengths differ;
    - `loop { body }` / `while c { body }` run on FUEL: a function that contains one, or calls one that does, takes a first argument
      [fuel__ : nat]; the loop is [k_loop nofuel fuel__ body s0], the body a function of the REMAINING fuel (under which the calls made
      inside the iteration run) and of the tuple of the locals the loop assigns, returning [Brk r] (a `return r`), [Cont (Brk s)]
      (`break`) or [Cont (Cont s)] (the end of the body, `continue`); [nofuel] is what running out of fuel means for the instance;
    - "monadic self" (the parsers): for the types listed for a unit the receiver `self` is the STATE of the effect [M]; its methods
      take no self argument, fields of self are read through [ext_self_get] and written through [ext_self_put].
    No proofs in this file. *)
From Coq Require Import ZArith Bool List.
From L21 Require Import Base.KernelOps.
Import ListNotations.

Section Slices.
  Context {M : Type -> Type} {F I : Type} (ops : kops M F I).
  (** `&v[a..b]` *)
  Definition k_slice {A : Type} (l : list A) (a b : nat) : M (list A) :=
    if Nat.leb a b && Nat.leb b (length l) then k_ret ops (firstn (b - a) (skipn a l)) else k_panic ops.
  (** `v[a..b]` replaced by a slice of the same length *)
  Definition k_splice {A : Type} (l : list A) (a b : nat) (new : list A) : M (list A) :=
    if Nat.leb a b && Nat.leb b (length l) && Nat.eqb (length new) (b - a)
    then k_ret ops (firstn a l ++ new ++ skipn b l) else k_panic ops.
  (** `d.copy_from_slice(s)`: the new d *)
  Definition k_copy_from_slice {A : Type} (d s : list A) : M (list A) :=
    if Nat.eqb (length d) (length s) then k_ret ops s else k_panic ops.
End Slices.

Section Loops.
  Context {M : Type -> Type} {F I : Type} (ops : kops M F I).
  (** `loop { body }` on fuel *)
  Fixpoint k_loop {R S : Type} (nofuel : M (ctrl R S)) (fuel : nat) (body : nat -> S -> M (ctrl R (ctrl S S))) (s : S)
    : M (ctrl R S) :=
    match fuel with
    | O => nofuel
    | Datatypes.S f' =>
      k_bind ops (body f' s)
             (fun c => match c with
                       | Brk r => k_ret ops (Brk r)
                       | Cont (Brk s') => k_ret ops (Cont s')
                       | Cont (Cont s') => k_loop nofuel f' body s'
                       end)
    end.
End Loops.

(** `v.try_into()` from a `Vec<T>` to `[T; N]`: `.unwrap()` panics, `?` / a `match` with a failing `Err` arm fails, when the length is not N *)
From L21 Require Import Base.KernelOpsX.
Section IntoArr.
  Context {M : Type -> Type} {F I : Type} (xops : kxops M F I).
  Definition k_vec_into_arr {A : Type} (n : nat) (l : list A) : M (list A) :=
    if Nat.eqb (length l) n then k_ret (kx_base xops) l else k_panic (kx_base xops).
  Definition k_vec_into_arr_q {A : Type} (n : nat) (l : list A) : M (list A) :=
    if Nat.eqb (length l) n then k_ret (kx_base xops) l else k_fail xops.
End IntoArr.
