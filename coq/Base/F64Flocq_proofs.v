(** Proofs of the bridge Base/F64Flocq.v: the Z-level binary64 operations of Gds/GdsReal.v (C15) and of
    Geom/Transform.v part (B) (C12) are Flocq's IEEE-754 binary64 operations.
    The theorems of Properties/C15B.v and Properties/C12B.v are closed by [exact] with the lemmas of this file.

    Axioms: Flocq is built on the standard library's real numbers, so everything here depends on
    ClassicalDedekindReals.sig_forall_dec, ClassicalDedekindReals.sig_not_dec,
    FunctionalExtensionality.functional_extensionality_dep (the construction of R) and, through
    Flocq's rounding lemmas, Classical_Prop.classic. Nothing else. This file must be imported only by
    Properties/C15B.v and Properties/C12B.v. *)
From Coq Require Import ZArith Bool Lia Reals Psatz List.
From Flocq Require Import Core Binary Bits.
From L21 Require Import Base.F64 Gen.LibmGen Gds.GdsReal Gds.GdsReal_proofs.
From L21 Require Import Geom.Transform Geom.TransformSpec Geom.Transform_proofs Geom.TransformFloat Geom.TransformFloat_proofs.
From L21 Require Import Base.F64Flocq.
Import ListNotations.
Local Open Scope Z_scope.

(** * Rounding an integer shifted right: Flocq's [Znearest] on m / 2^sh *)

Lemma IZR_pow2 : forall k, 0 <= k -> IZR (2 ^ k) = bpow radix2 k.
Proof. intros k Hk. rewrite <- IZR_Zpower by exact Hk. reflexivity. Qed.

Lemma Znearest_shift : forall choice m sh, 0 < sh ->
  Znearest choice (IZR m * bpow radix2 (- sh))%R =
  let q := m / 2 ^ sh in let r := m mod 2 ^ sh in
  if 2 * r <? 2 ^ sh then q else if 2 ^ sh <? 2 * r then q + 1 else if choice q then q + 1 else q.
Proof.
  intros choice m sh Hsh.
  assert (Hd : 0 < 2 ^ sh) by (apply Z.pow_pos_nonneg; lia).
  assert (HdR : (0 < IZR (2 ^ sh))%R) by (apply IZR_lt; exact Hd).
  assert (Hx : (IZR m * bpow radix2 (- sh) = IZR m / IZR (2 ^ sh))%R).
  { rewrite bpow_opp, IZR_pow2 by lia. reflexivity. }
  rewrite Hx.
  set (d := 2 ^ sh) in *.
  set (x := (IZR m / IZR d)%R).
  assert (Hfl : Zfloor x = m / d) by (apply Zfloor_div; lia).
  pose proof (Z.div_mod m d ltac:(lia)) as Hdm.
  pose proof (Z.mod_pos_bound m d Hd) as Hr.
  assert (Hfrac : (x - IZR (m / d) = IZR (m mod d) / IZR d)%R).
  { unfold x. rewrite Hdm at 1. rewrite plus_IZR, mult_IZR. field. lra. }
  assert (Hcmp : Rcompare (x - IZR (Zfloor x)) (/ 2) = (2 * (m mod d) ?= d)).
  { rewrite Hfl, Hfrac.
    rewrite <- (Rcompare_mult_r (IZR d * 2)) by lra.
    replace (IZR (m mod d) / IZR d * (IZR d * 2))%R with (IZR (2 * (m mod d))).
    2:{ rewrite mult_IZR. field. lra. }
    replace (/ 2 * (IZR d * 2))%R with (IZR d) by field.
    apply Rcompare_IZR. }
  unfold Znearest. rewrite Hcmp. cbv zeta.
  assert (Hceil : m mod d <> 0 -> Zceil x = m / d + 1).
  { intros Hnz. rewrite Zceil_floor_neq; [rewrite Hfl; reflexivity|].
    rewrite Hfl. intros Heq.
    assert (H0 : (x - IZR (m / d) = 0)%R) by lra.
    rewrite Hfrac in H0.
    assert (IZR (m mod d) = 0%R).
    { apply (Rmult_eq_reg_r (/ IZR d)); [|apply Rinv_neq_0_compat; lra]. rewrite Rmult_0_l. exact H0. }
    apply eq_IZR in H. contradiction. }
  destruct (Z.compare_spec (2 * (m mod d)) d) as [He|Hl|Hg].
  - destruct (Z.ltb_spec (2 * (m mod d)) d) as [H1|H1]; [lia|].
    destruct (Z.ltb_spec d (2 * (m mod d))) as [H2|H2]; [lia|].
    rewrite Hfl. destruct (choice (m / d)); [|reflexivity].
    apply Hceil. lia.
  - destruct (Z.ltb_spec (2 * (m mod d)) d) as [H1|H1]; [|lia]. exact Hfl.
  - destruct (Z.ltb_spec (2 * (m mod d)) d) as [H1|H1]; [lia|].
    destruct (Z.ltb_spec d (2 * (m mod d))) as [H2|H2]; [|lia].
    apply Hceil. lia.
Qed.

(** ties away from zero on a non-negative dyadic *)
Lemma Znearest_shift_up : forall choice m sh, 0 < sh -> 0 <= m -> choice (m / 2 ^ sh) = true ->
  Znearest choice (IZR m * bpow radix2 (- sh))%R = (2 * m + 2 ^ sh) / 2 ^ (sh + 1).
Proof.
  intros choice m sh Hsh Hm Hc. rewrite Znearest_shift by exact Hsh. cbv zeta. rewrite Hc.
  assert (Hd : 0 < 2 ^ sh) by (apply Z.pow_pos_nonneg; lia).
  rewrite Z.pow_add_r by lia. change (2 ^ 1) with 2.
  set (d := 2 ^ sh) in *.
  pose proof (Z.div_mod m d ltac:(lia)) as Hdm.
  pose proof (Z.mod_pos_bound m d Hd) as Hr.
  set (q := m / d) in *. set (r := m mod d) in *.
  destruct (Z.ltb_spec (2 * r) d) as [H1|H1].
  - apply (Z.div_unique_pos _ _ q (2 * r + d)); lia.
  - replace (if d <? 2 * r then q + 1 else q + 1) with (q + 1) by (destruct (d <? 2 * r); reflexivity).
    apply (Z.div_unique_pos _ _ (q + 1) (2 * r - d)); lia.
Qed.

Lemma ZnearestE_shift : forall m sh, 0 < sh ->
  ZnearestE (IZR m * bpow radix2 (- sh))%R = rneZ m sh.
Proof.
  intros m sh Hsh. rewrite Znearest_shift by exact Hsh. unfold rneZ. cbv zeta.
  destruct (Z.even (m / 2 ^ sh)); reflexivity.
Qed.

(** * [round_flt] (Geom/Transform.v) is Flocq's rounding to binary64 *)

Lemma pow2_eq' : forall k, pow2 k = 2 ^ k.
Proof. intro k. apply Z.shiftl_1_l. Qed.
Lemma divp2_eq' : forall m k, 0 <= k -> divp2 m k = m / 2 ^ k.
Proof. intros. apply Z.shiftr_div_pow2; assumption. Qed.
Lemma modp2_eq' : forall m k, 0 <= k -> modp2 m k = m mod 2 ^ k.
Proof. intros. apply Z.land_ones; assumption. Qed.

Lemma rne_shift_rneZ : forall m sh, 0 < sh -> rne_shift m sh = rneZ m sh.
Proof.
  intros m sh H. unfold rne_shift, rneZ. rewrite pow2_eq', divp2_eq', modp2_eq' by lia. reflexivity.
Qed.

Lemma bitlen_Zdigits : forall m, bitlen m = Zdigits radix2 m.
Proof.
  intros m. unfold bitlen. destruct (Z.eqb_spec m 0) as [->|Hm]; [reflexivity|].
  symmetry. apply Zdigits_unique.
  assert (Ha : 0 < Z.abs m) by lia.
  pose proof (Z.log2_spec (Z.abs m) Ha) as [Hlo Hhi].
  pose proof (Z.log2_nonneg (Z.abs m)) as H0.
  replace (Z.log2 (Z.abs m) + 1 - 1) with (Z.log2 (Z.abs m)) by lia.
  rewrite <- Z.add_1_r in Hhi.
  change (Zpower radix2) with (Z.pow 2). split; assumption.
Qed.

Lemma cexp_dy : forall m e, m <> 0 ->
  cexp radix2 fexp64 (F2R (Float radix2 m e)) = e + Z.max (bitlen m - 53) (-1074 - e).
Proof.
  intros m e Hm. unfold cexp. rewrite mag_F2R_Zdigits by exact Hm.
  rewrite <- bitlen_Zdigits. unfold fexp64, FLT_exp. lia.
Qed.

Lemma round_flt_is_flocq_round : forall d, dyR (round_flt d) = rnd64 (dyR d).
Proof.
  intros [m e]. unfold dyR, rnd64. cbn [fst snd].
  destruct (Z.eq_dec m 0) as [->|Hm].
  - rewrite F2R_0, round_0 by (apply valid_rnd_N).
    unfold round_flt. destruct (_ <=? 0); cbn [fst snd]; [apply F2R_0|].
    assert (E : forall sh, rne_shift 0 sh = 0).
    { intros sh. unfold rne_shift. unfold divp2, modp2. rewrite Z.shiftr_0_l, Z.land_0_l.
      rewrite pow2_eq'. pose proof (Z.pow_nonneg 2 sh ltac:(lia)) as Hp.
      destruct (2 * 0 <? 2 ^ sh); [reflexivity|].
      destruct (Z.ltb_spec (2 ^ sh) (2 * 0)) as [H|H]; [lia|reflexivity]. }
    rewrite E. apply F2R_0.
  - unfold round at 1. rewrite (cexp_dy m e Hm).
    unfold scaled_mantissa. rewrite (cexp_dy m e Hm).
    unfold round_flt. set (sh := Z.max (bitlen m - 53) (-1074 - e)).
    assert (Hsm : (F2R (Float radix2 m e) * bpow radix2 (- (e + sh)) = IZR m * bpow radix2 (- sh))%R).
    { unfold F2R. cbn [Fnum Fexp]. rewrite Rmult_assoc, <- bpow_plus. f_equal. f_equal. lia. }
    rewrite Hsm.
    destruct (Z.leb_spec sh 0) as [Hle|Hgt]; cbn [fst snd].
    + rewrite <- IZR_pow2 by lia. rewrite <- mult_IZR.
      rewrite Zrnd_IZR by (apply valid_rnd_N).
      symmetry. replace e with (e + sh + (- sh)) at 2 by lia.
      unfold F2R. cbn [Fnum Fexp]. rewrite mult_IZR, IZR_pow2 by lia.
      rewrite Rmult_assoc, <- bpow_plus. f_equal. f_equal. lia.
    + rewrite ZnearestE_shift by lia. rewrite rne_shift_rneZ by lia. reflexivity.
Qed.
(** * Bit patterns: [f64_decomp] against [b64_of_bits] *)

Lemma split_bits_fields : forall b,
  split_bits 52 11 b = (f64_sign b, f64_frac b, f64_bexp b).
Proof. intros b. reflexivity. Qed.

Lemma frac_range : forall b, 0 <= f64_frac b < two52.
Proof. intros b. unfold f64_frac. apply Z.mod_pos_bound. reflexivity. Qed.

Lemma b64_of_bits_finite : forall b s m e,
  f64_decomp b = Some (s, m, e) ->
  is_finite 53 1024 (b64_of_bits b) = true /\
  B2R 53 1024 (b64_of_bits b) = F2R (Float radix2 (sgnZ s m) e) /\
  Bsign 53 1024 (b64_of_bits b) = s.
Proof.
  intros b s m e Hd.
  unfold b64_of_bits, binary_float_of_bits.
  rewrite is_finite_FF2B, B2R_FF2B, Bsign_FF2B.
  unfold binary_float_of_bits_aux. rewrite split_bits_fields.
  unfold f64_decomp in Hd. cbv zeta in Hd.
  pose proof (frac_range b) as Hf.
  destruct (Z.eqb_spec (f64_bexp b) 2047) as [H1|H1]; [discriminate|].
  destruct (Z.eqb_spec (f64_bexp b) 0) as [H2|H2].
  - injection Hd as <- <- <-. rewrite H2. cbn [Zeq_bool Z.compare].
    destruct (f64_frac b) as [|p|p] eqn:Ef.
    + cbn. repeat split. destruct (f64_sign b); cbn [sgnZ]; rewrite F2R_0; reflexivity.
    + cbn [is_finite_FF FF2R sign_FF]. repeat split.
    + lia.
  - injection Hd as <- <- <-.
    pose proof (Zeq_bool_if (f64_bexp b) 0) as Hz. destruct (Zeq_bool (f64_bexp b) 0); [contradiction|]. clear Hz.
    change (2 ^ 11 - 1) with 2047.
    pose proof (Zeq_bool_if (f64_bexp b) 2047) as Hz. destruct (Zeq_bool (f64_bexp b) 2047); [contradiction|]. clear Hz.
    change (2 ^ 52) with two52.
    destruct (f64_frac b + two52) as [|p|p] eqn:Ef; [lia| |lia].
    cbn [is_finite_FF FF2R sign_FF]. repeat split.
    change (SpecFloat.emin (52 + 1) (2 ^ (11 - 1))) with (-1074).
    replace (f64_bexp b + -1074 - 1) with (f64_bexp b - 1075) by lia.
    destruct (f64_sign b); reflexivity.
Qed.

Lemma b64_of_bits_nonfinite : forall b,
  f64_decomp b = None -> is_finite 53 1024 (b64_of_bits b) = false.
Proof.
  intros b Hd.
  unfold b64_of_bits, binary_float_of_bits.
  rewrite is_finite_FF2B.
  unfold binary_float_of_bits_aux. rewrite split_bits_fields.
  unfold f64_decomp in Hd. cbv zeta in Hd.
  pose proof (frac_range b) as Hf.
  destruct (Z.eqb_spec (f64_bexp b) 2047) as [H1|H1].
  2:{ destruct (f64_bexp b =? 0); discriminate. }
  rewrite H1. cbn [Zeq_bool Z.compare]. change (Zeq_bool 2047 (2 ^ 11 - 1)) with true. cbv iota.
  destruct (f64_frac b); reflexivity.
Qed.
(** * The operations of Geom/Transform.v part (B) are Flocq's *)

Lemma dy_of_bits_repr : forall b d, dy_of_bits b = Some d -> repr (b64_of_bits b) d.
Proof.
  intros b d H. unfold dy_of_bits in H.
  destruct (f64_decomp b) as [[[s m] e]|] eqn:Hd; [|discriminate].
  injection H as <-. destruct (b64_of_bits_finite b s m e Hd) as (Hf & Hr & _).
  split; [exact Hf|]. rewrite Hr. reflexivity.
Qed.

Lemma dy_of_bits_none : forall b, dy_of_bits b = None -> is_finite 53 1024 (b64_of_bits b) = false.
Proof.
  intros b H. unfold dy_of_bits in H.
  destruct (f64_decomp b) as [[[s m] e]|] eqn:Hd; [discriminate|].
  apply b64_of_bits_nonfinite. exact Hd.
Qed.

Lemma dyR_mul_exact : forall a b, dyR (mul_exact a b) = (dyR a * dyR b)%R.
Proof.
  intros [ma ea] [mb eb]. unfold dyR, mul_exact, F2R. cbn [fst snd Fnum Fexp].
  rewrite mult_IZR, bpow_plus. ring.
Qed.

Lemma dyR_add_exact : forall a b, dyR (add_exact a b) = (dyR a + dyR b)%R.
Proof.
  intros [ma ea] [mb eb]. unfold dyR, add_exact, F2R. cbn [fst snd Fnum Fexp].
  rewrite !pow2_eq'. set (e := Z.min ea eb).
  rewrite plus_IZR, !mult_IZR, !IZR_pow2 by lia.
  rewrite Rmult_plus_distr_r, !Rmult_assoc, <- !bpow_plus.
  replace (ea - e + e) with ea by lia. replace (eb - e + e) with eb by lia. reflexivity.
Qed.

Lemma dyR_fneg : forall a, dyR (fneg a) = (- dyR a)%R.
Proof. intros [m e]. unfold dyR, fneg. cbn [fst snd]. apply F2R_Zopp. Qed.

Lemma finite_ok_Rlt : forall d, finite_ok d = Rlt_bool (Rabs (dyR d)) (bpow radix2 1024).
Proof.
  intros [m e]. unfold finite_ok, dyR. cbn [fst snd].
  destruct (Z.eqb_spec m 0) as [->|Hm].
  - cbn [orb]. rewrite F2R_0, Rabs_R0. symmetry. apply Rlt_bool_true. apply bpow_gt_0.
  - cbn [orb].
    assert (Hx : F2R (Float radix2 m e) <> 0%R) by (apply F2R_neq_0; exact Hm).
    pose proof (mag_F2R_Zdigits radix2 m e Hm) as Hmag. rewrite <- bitlen_Zdigits in Hmag.
    unfold bitlen in Hmag. destruct (Z.eqb_spec m 0) as [|_]; [contradiction|].
    destruct (Z.ltb_spec (Z.log2 (Z.abs m) + e) 1024) as [Hl|Hg]; symmetry.
    + apply Rlt_bool_true. eapply Rlt_le_trans; [apply bpow_mag_gt|]. apply bpow_le. lia.
    + apply Rlt_bool_false. eapply Rle_trans; [|apply bpow_mag_le; exact Hx]. apply bpow_le. lia.
Qed.


Lemma overflow_inf : forall (z : binary64) s,
  B2FF 53 1024 z = Binary.binary_overflow 53 1024 mode_NE s -> z = B754_infinity 53 1024 s.
Proof.
  intros z s H. apply B2FF_inj. rewrite H. reflexivity.
Qed.

Theorem fmul_is_Bmult : forall x y a b, repr x a -> repr y b ->
  match fmul a b with
  | Some r => repr (b64_mult mode_NE x y) r
  | None => b64_mult mode_NE x y = B754_infinity 53 1024 (xorb (Bsign 53 1024 x) (Bsign 53 1024 y))
  end.
Proof.
  intros x y a b [Hfx Hrx] [Hfy Hry].
  pose proof (Bmult_correct 53 1024 prec53 emax1024 binop_nan_pl64 mode_NE x y) as H.
  change (Bmult 53 1024 prec53 emax1024 binop_nan_pl64 mode_NE x y) with (b64_mult mode_NE x y) in H.
  change (BinarySingleNaN.round_mode mode_NE) with ZnearestE in H.
  change (SpecFloat.fexp 53 1024) with fexp64 in H. fold (rnd64 (B2R 53 1024 x * B2R 53 1024 y)) in H.
  rewrite Hrx, Hry, <- dyR_mul_exact, <- round_flt_is_flocq_round, <- finite_ok_Rlt in H.
  unfold fmul, chk. destruct (finite_ok (round_flt (mul_exact a b))).
  - destruct H as (H1 & H2 & _). split; [|exact H1]. rewrite H2, Hfx, Hfy. reflexivity.
  - apply overflow_inf. exact H.
Qed.

Theorem fadd_is_Bplus : forall x y a b, repr x a -> repr y b ->
  match fadd a b with
  | Some r => repr (b64_plus mode_NE x y) r
  | None => b64_plus mode_NE x y = B754_infinity 53 1024 (Bsign 53 1024 x)
  end.
Proof.
  intros x y a b [Hfx Hrx] [Hfy Hry].
  pose proof (Bplus_correct 53 1024 prec53 emax1024 binop_nan_pl64 mode_NE x y Hfx Hfy) as H.
  change (Bplus 53 1024 prec53 emax1024 binop_nan_pl64 mode_NE x y) with (b64_plus mode_NE x y) in H.
  change (BinarySingleNaN.round_mode mode_NE) with ZnearestE in H.
  change (SpecFloat.fexp 53 1024) with fexp64 in H. fold (rnd64 (B2R 53 1024 x + B2R 53 1024 y)) in H.
  rewrite Hrx, Hry, <- dyR_add_exact, <- round_flt_is_flocq_round, <- finite_ok_Rlt in H.
  unfold fadd, chk. destruct (finite_ok (round_flt (add_exact a b))).
  - destruct H as (H1 & H2 & _). split; [exact H2|exact H1].
  - destruct H as [H _]. apply overflow_inf. exact H.
Qed.

Theorem fneg_is_Bopp : forall x a, repr x a -> repr (b64_opp x) (fneg a).
Proof.
  intros x a [Hf Hr]. split.
  - unfold b64_opp. rewrite is_finite_Bopp. exact Hf.
  - unfold b64_opp. rewrite B2R_Bopp, Hr, dyR_fneg. reflexivity.
Qed.

Theorem f_of_int_is_normalize : forall n,
  match f_of_int n with
  | Some r => repr (b64_of_Z n) r
  | None => b64_of_Z n = B754_infinity 53 1024 (n <? 0)
  end.
Proof.
  intros n.
  pose proof (binary_normalize_correct 53 1024 prec53 emax1024 mode_NE n 0 false) as H.
  change (BinarySingleNaN.round_mode mode_NE) with ZnearestE in H.
  change (SpecFloat.fexp 53 1024) with fexp64 in H. fold (rnd64 (F2R (Float radix2 n 0))) in H.
  change (F2R (Float radix2 n 0)) with (dyR (n, 0)) in H.
  rewrite <- round_flt_is_flocq_round, <- finite_ok_Rlt in H.
  unfold f_of_int, chk. destruct (finite_ok (round_flt (n, 0))).
  - destruct H as (H1 & H2 & _). split; [exact H2|exact H1].
  - apply overflow_inf. unfold b64_of_Z. rewrite H. f_equal.
    unfold dyR, F2R. cbn [fst snd Fnum Fexp]. rewrite Rmult_1_r.
    destruct (Z.ltb_spec n 0) as [Hn|Hn].
    + apply Rlt_bool_true. apply IZR_lt. exact Hn.
    + apply Rlt_bool_false. apply IZR_le. exact Hn.
Qed.
Theorem f_round_is_ZnearestA : forall d, f_round d = ZnearestA (dyR d).
Proof.
  intros [m e]. unfold f_round, dyR, F2R. cbn [fst snd Fnum Fexp].
  destruct (Z.leb_spec 0 e) as [He|He].
  - rewrite pow2_eq'. rewrite <- IZR_pow2, <- mult_IZR by lia.
    rewrite Zrnd_IZR by (apply valid_rnd_N). reflexivity.
  - rewrite pow2_eq', !divp2_eq' by lia.
    remember (- e) as sh eqn:Hsh. assert (Hs : 0 < sh) by lia.
    replace e with (- sh) by lia. replace (1 - - sh) with (sh + 1) by lia. clear Hsh He e.
    assert (Hd : 0 < 2 ^ sh) by (apply Z.pow_pos_nonneg; lia).
    destruct (Z.leb_spec 0 m) as [Hm|Hm].
    + rewrite Znearest_shift_up; [reflexivity|lia|lia|].
      apply Z.leb_le. apply Z.div_pos; lia.
    + replace (IZR m) with (- IZR (- m))%R by (rewrite opp_IZR; ring).
      rewrite Ropp_mult_distr_l_reverse, Znearest_opp.
      rewrite Znearest_shift_up; [reflexivity|lia|lia|].
      assert (0 <= - m / 2 ^ sh) by (apply Z.div_pos; lia).
      destruct (Z.leb_spec 0 (- (- m / 2 ^ sh + 1))); [lia|reflexivity].
Qed.

Lemma round_FIX0 : forall rnd x, round radix2 (FIX_exp 0) rnd x = IZR (rnd x).
Proof.
  intros rnd x. unfold round, cexp, scaled_mantissa, FIX_exp, F2R. cbn [Fnum Fexp Z.opp bpow].
  rewrite !Rmult_1_r. reflexivity.
Qed.

(** `x.round() as isize` before saturation: the integer that Flocq's nearbyint (ties away) then trunc gives *)
Theorem f_round_is_flocq : forall x d, repr x d -> b64_trunc (b64_round x) = f_round d.
Proof.
  intros x d [Hf Hr]. unfold b64_trunc, b64_round.
  apply eq_IZR. rewrite Btrunc_correct.
  destruct (Bnearbyint_correct 53 1024 emax1024 unop_nan_pl64 mode_NA x) as (H1 & _).
  rewrite H1. change (BinarySingleNaN.round_mode mode_NA) with ZnearestA.
  rewrite !round_FIX0. rewrite Zrnd_IZR by (apply valid_rnd_ZR).
  rewrite Hr, f_round_is_ZnearestA. reflexivity. exact emax1024.
Qed.
(** * [rne53] (Gds/GdsReal.v, `u64 as f64`) is Flocq's rounding *)

Lemma dyR_shift : forall m e j, 0 <= j -> dyR (m * 2 ^ j, e) = dyR (m, e + j).
Proof.
  intros m e j Hj. unfold dyR, F2R. cbn [fst snd Fnum Fexp].
  rewrite mult_IZR, IZR_pow2 by lia. rewrite Rmult_assoc, <- bpow_plus. f_equal. f_equal. lia.
Qed.

Lemma rne53_rneZ : forall M, 0 < M -> 52 < Z.log2 M ->
  rne53 M = let q := rneZ M (Z.log2 M - 52) in
            if q =? two53 then (two52, Z.log2 M + 1) else (q, Z.log2 M).
Proof.
  intros M HM Hk. unfold rne53. cbv zeta.
  destruct (Z.leb_spec (Z.log2 M) 52) as [H|_]; [lia|].
  set (sh := Z.log2 M - 52).
  assert (Hh : 2 ^ sh = 2 * 2 ^ (sh - 1)).
  { replace sh with (1 + (sh - 1)) at 1 by lia. rewrite Z.pow_add_r by lia. reflexivity. }
  assert (Hq : (if (2 ^ (sh - 1) <? M mod 2 ^ sh) || ((2 ^ (sh - 1) =? M mod 2 ^ sh) && Z.odd (M / 2 ^ sh))
                then M / 2 ^ sh + 1 else M / 2 ^ sh) = rneZ M sh).
  { unfold rneZ. cbv zeta. rewrite <- Z.negb_odd.
    destruct (Z.ltb_spec (2 ^ (sh - 1)) (M mod 2 ^ sh)) as [H1|H1];
    destruct (Z.eqb_spec (2 ^ (sh - 1)) (M mod 2 ^ sh)) as [H2|H2];
    destruct (Z.ltb_spec (2 * (M mod 2 ^ sh)) (2 ^ sh)) as [H3|H3];
    destruct (Z.ltb_spec (2 ^ sh) (2 * (M mod 2 ^ sh))) as [H4|H4]; try lia;
    cbn [orb andb]; try reflexivity.
    destruct (Z.odd (M / 2 ^ sh)); reflexivity. }
  rewrite Hq. reflexivity.
Qed.

Lemma rne53_round_flt : forall M e2, 0 < M -> -1074 <= Z.log2 M - 52 + e2 ->
  dyR (fst (rne53 M), snd (rne53 M) - 52 + e2) = dyR (round_flt (M, e2)).
Proof.
  intros M e2 HM He.
  pose proof (Z.log2_nonneg M) as H0.
  assert (Hbl : bitlen M = Z.log2 M + 1).
  { unfold bitlen. destruct (Z.eqb_spec M 0); [lia|]. rewrite Z.abs_eq by lia. reflexivity. }
  unfold round_flt. rewrite Hbl.
  replace (Z.max (Z.log2 M + 1 - 53) (-1074 - e2)) with (Z.log2 M - 52) by lia.
  destruct (Z.leb_spec (Z.log2 M - 52) 0) as [Hs|Hb].
  - rewrite rne53_small by lia. cbn [fst snd].
    rewrite dyR_shift by lia. f_equal. f_equal. lia.
  - rewrite rne53_rneZ by lia. cbv zeta. rewrite rne_shift_rneZ by lia.
    destruct (Z.eqb_spec (rneZ M (Z.log2 M - 52)) two53) as [E|E]; cbn [fst snd].
    + rewrite E. change two53 with (two52 * 2 ^ 1). rewrite dyR_shift by lia. f_equal. f_equal. lia.
    + f_equal. f_equal. lia.
Qed.

Theorem rne53_scaled_is_flocq_round : forall M e2, 0 < M -> -1074 <= Z.log2 M - 52 + e2 ->
  F2R (Float radix2 (fst (rne53 M)) (snd (rne53 M) - 52 + e2)) =
  round radix2 (FLT_exp (-1074) 53) ZnearestE (IZR M * bpow radix2 e2).
Proof.
  intros M e2 HM He.
  change (F2R (Float radix2 (fst (rne53 M)) (snd (rne53 M) - 52 + e2)))
    with (dyR (fst (rne53 M), snd (rne53 M) - 52 + e2)).
  rewrite rne53_round_flt by assumption. rewrite round_flt_is_flocq_round. reflexivity.
Qed.

Theorem rne53_is_flocq_round : forall M, 0 < M ->
  F2R (Float radix2 (fst (rne53 M)) (snd (rne53 M) - 52)) =
  round radix2 (FLT_exp (-1074) 53) ZnearestE (IZR M).
Proof.
  intros M HM. pose proof (Z.log2_nonneg M).
  pose proof (rne53_scaled_is_flocq_round M 0 HM ltac:(lia)) as H1.
  rewrite Z.add_0_r in H1. rewrite H1. cbn [bpow]. rewrite Rmult_1_r. reflexivity.
Qed.
(** * Exact operations (products and quotients by powers of two) *)

Lemma reprs_inj : forall x y s v, reprs x s v -> reprs y s v -> x = y.
Proof.
  intros x y s v (Hfx & Hvx & Hsx) (Hfy & Hvy & Hsy).
  apply B2R_Bsign_inj; congruence.
Qed.

Lemma reprs_of_bits : forall b s m e, f64_decomp b = Some (s, m, e) ->
  reprs (b64_of_bits b) s (F2R (Float radix2 (sgnZ s m) e)).
Proof. intros b s m e H. destruct (b64_of_bits_finite b s m e H) as (A & B & C). repeat split; assumption. Qed.

Lemma bits_of_bits : forall b, word64 b -> bits_of_b64 (b64_of_bits b) = b.
Proof.
  intros b Hb. unfold bits_of_b64, b64_of_bits. apply bits_of_binary_float_of_bits. exact Hb.
Qed.

Lemma bitlen_le53 : forall m, Z.abs m < 2 ^ 53 -> bitlen m <= 53.
Proof. intros m H. rewrite bitlen_Zdigits. apply Zdigits_le_Zpower. exact H. Qed.

Lemma rnd64_exact : forall m e, Z.abs m < 2 ^ 53 -> -1074 <= e ->
  rnd64 (F2R (Float radix2 m e)) = F2R (Float radix2 m e).
Proof.
  intros m e Hm He. unfold rnd64. apply round_generic; [apply valid_rnd_N|].
  apply generic_format_F2R. intros Hnz. rewrite cexp_dy by exact Hnz.
  pose proof (bitlen_le53 m Hm). lia.
Qed.

Lemma lt_1024 : forall m e, Z.abs m < 2 ^ 53 -> e <= 971 ->
  Rlt_bool (Rabs (F2R (Float radix2 m e))) (bpow radix2 1024) = true.
Proof.
  intros m e Hm He. apply Rlt_bool_true. apply F2R_lt_bpow. cbn [Fnum Fexp].
  eapply Z.lt_le_trans; [exact Hm|]. change (Zpower radix2) with (Z.pow 2).
  apply Z.pow_le_mono_r; lia.
Qed.

Lemma is_nan_finite : forall x : binary64, is_finite 53 1024 x = true -> is_nan 53 1024 x = false.
Proof. intros [ | | |]; cbn; congruence. Qed.

Lemma reprs_mult_exact : forall x y sx sy vx vy m e,
  reprs x sx vx -> reprs y sy vy -> (vx * vy)%R = F2R (Float radix2 m e) ->
  Z.abs m < 2 ^ 53 -> -1074 <= e <= 971 ->
  reprs (b64_mult mode_NE x y) (xorb sx sy) (vx * vy).
Proof.
  intros x y sx sy vx vy m e (Hfx & Hvx & Hsx) (Hfy & Hvy & Hsy) Hv Hm He.
  pose proof (Bmult_correct 53 1024 prec53 emax1024 binop_nan_pl64 mode_NE x y) as H.
  change (Bmult 53 1024 prec53 emax1024 binop_nan_pl64 mode_NE x y) with (b64_mult mode_NE x y) in H.
  change (BinarySingleNaN.round_mode mode_NE) with ZnearestE in H.
  change (SpecFloat.fexp 53 1024) with fexp64 in H. fold (rnd64 (B2R 53 1024 x * B2R 53 1024 y)) in H.
  rewrite Hvx, Hvy, Hv, rnd64_exact, lt_1024 in H by lia.
  destruct H as (H1 & H2 & H3).
  assert (Hfin : is_finite 53 1024 (b64_mult mode_NE x y) = true) by (rewrite H2, Hfx, Hfy; reflexivity).
  split; [exact Hfin|]. split; [rewrite H1; symmetry; exact Hv|].
  rewrite H3 by (apply is_nan_finite; exact Hfin). congruence.
Qed.

Lemma reprs_div_exact : forall x y sx sy vx vy m e,
  reprs x sx vx -> reprs y sy vy -> vy <> 0%R -> (vx / vy)%R = F2R (Float radix2 m e) ->
  Z.abs m < 2 ^ 53 -> -1074 <= e <= 971 ->
  reprs (b64_div mode_NE x y) (xorb sx sy) (vx / vy).
Proof.
  intros x y sx sy vx vy m e (Hfx & Hvx & Hsx) (Hfy & Hvy & Hsy) Hnz Hv Hm He.
  rewrite <- Hvy in Hnz.
  pose proof (Bdiv_correct 53 1024 prec53 emax1024 binop_nan_pl64 mode_NE x y Hnz) as H.
  change (Bdiv 53 1024 prec53 emax1024 binop_nan_pl64 mode_NE x y) with (b64_div mode_NE x y) in H.
  change (BinarySingleNaN.round_mode mode_NE) with ZnearestE in H.
  change (SpecFloat.fexp 53 1024) with fexp64 in H. fold (rnd64 (B2R 53 1024 x / B2R 53 1024 y)) in H.
  rewrite Hvx, Hvy, Hv, rnd64_exact, lt_1024 in H by lia.
  destruct H as (H1 & H2 & H3).
  assert (Hfin : is_finite 53 1024 (b64_div mode_NE x y) = true) by (rewrite H2, Hfx; reflexivity).
  split; [exact Hfin|]. split; [rewrite H1; symmetry; exact Hv|].
  rewrite H3 by (apply is_nan_finite; exact Hfin). congruence.
Qed.

Lemma reprs_pow2 : forall k, -1022 <= k <= 1023 -> reprs (b64_pow2 k) false (bpow radix2 k).
Proof.
  intros k Hk. unfold b64_pow2.
  replace (bpow radix2 k) with (F2R (Float radix2 (sgnZ false two52) (k - 52))).
  - apply reprs_of_bits. apply decomp_of_norm; [unfold two52, two53; lia | lia].
  - cbn [sgnZ]. unfold F2R. cbn [Fnum Fexp]. change two52 with (2 ^ 52). rewrite IZR_pow2 by lia.
    rewrite <- bpow_plus. f_equal. lia.
Qed.

(** `u64 as f64` *)
Lemma reprs_of_Z_pos : forall n m k, 0 < n -> rne53 n = (m, k) -> k <= 1000 -> Z.abs m < 2 ^ 53 ->
  reprs (b64_of_Z n) false (F2R (Float radix2 m (k - 52))).
Proof.
  intros n m k Hn Hr Hk Hm.
  pose proof (binary_normalize_correct 53 1024 prec53 emax1024 mode_NE n 0 false) as H.
  fold (b64_of_Z n) in H.
  change (BinarySingleNaN.round_mode mode_NE) with ZnearestE in H.
  change (SpecFloat.fexp 53 1024) with (FLT_exp (-1074) 53) in H.
  assert (Hv : F2R (Float radix2 n 0) = IZR n) by (unfold F2R; cbn [Fnum Fexp bpow]; ring).
  rewrite Hv in H. rewrite <- (rne53_is_flocq_round n Hn) in H. rewrite Hr in H. cbn [fst snd] in H.
  rewrite lt_1024 in H by lia.
  destruct H as (H1 & H2 & H3). split; [exact H2|]. split; [exact H1|].
  rewrite H3. rewrite Rcompare_Gt; [reflexivity|]. apply IZR_lt. exact Hn.
Qed.

Lemma reprs_of_Z_0 : reprs (b64_of_Z 0) false 0%R.
Proof. repeat split. Qed.

(** * C15: GdsFloat64::decode *)

Lemma reprs_minus_one : reprs b64_minus_one true (-1)%R.
Proof.
  replace (-1)%R with (F2R (Float radix2 (sgnZ true two52) (-52))).
  - apply reprs_of_bits. reflexivity.
  - cbn [sgnZ]. unfold F2R. cbn [Fnum Fexp]. change (- two52) with (- 2 ^ 52). rewrite opp_IZR, IZR_pow2 by lia.
    rewrite Ropp_mult_distr_l_reverse, <- bpow_plus. reflexivity.
Qed.

Lemma F2R_scale : forall m e j, (F2R (Float radix2 m e) * bpow radix2 j)%R = F2R (Float radix2 m (e + j)).
Proof. intros. unfold F2R. cbn [Fnum Fexp]. rewrite bpow_plus. ring. Qed.

Lemma F2R_unscale : forall m e j, (F2R (Float radix2 m e) / bpow radix2 j)%R = F2R (Float radix2 m (e - j)).
Proof. intros. unfold Rdiv. rewrite <- bpow_opp, F2R_scale. reflexivity. Qed.

Theorem flocq_decode_is_model : forall w, word64 w ->
  flocq_decode w = b64_of_bits (gds_decode w).
Proof.
  intros w Hw.
  destruct (word_fields w Hw) as (_ & HX & HM).
  pose proof (gds_e2_range w Hw) as He2.
  pose proof (reprs_pow2 56 ltac:(lia)) as P56.
  pose proof (reprs_pow2 (4 * (gds_exp7 w - 64)) ltac:(lia)) as P16.
  assert (Hb56 : bpow radix2 56 <> 0%R) by (apply Rgt_not_eq, bpow_gt_0).
  destruct (Z.eq_dec (gds_mant w) 0) as [Hz|Hnz].
  - (* zero mantissa *)
    assert (D1 : reprs (b64_div mode_NE (b64_of_Z (gds_mant w)) (b64_pow2 56)) false (0 / bpow radix2 56)).
    { rewrite Hz. apply (reprs_div_exact _ _ false false _ _ 0 0 reprs_of_Z_0 P56 Hb56); [|cbn; lia|lia].
      rewrite F2R_0. unfold Rdiv. ring. }
    unfold flocq_decode. cbv zeta. unfold gds_decode. cbv zeta.
    destruct (Z.eqb_spec (gds_mant w) 0) as [_|]; [|contradiction].
    destruct (gds_sign w).
    + assert (D2 : reprs (b64_mult mode_NE b64_minus_one (b64_div mode_NE (b64_of_Z (gds_mant w)) (b64_pow2 56)))
                         (xorb true false) (-1 * (0 / bpow radix2 56))).
      { apply (reprs_mult_exact _ _ _ _ _ _ 0 0 reprs_minus_one D1); [|cbn; lia|lia].
        rewrite F2R_0. unfold Rdiv. ring. }
      eapply reprs_inj.
      * apply (reprs_mult_exact _ _ _ _ _ _ 0 0 D2 P16); [|cbn; lia|lia]. rewrite F2R_0. unfold Rdiv. ring.
      * replace (-1 * (0 / bpow radix2 56) * bpow radix2 (4 * (gds_exp7 w - 64)))%R with (F2R (Float radix2 (sgnZ true 0) (-1074))).
        -- apply reprs_of_bits. reflexivity.
        -- cbn [sgnZ]. rewrite F2R_0. unfold Rdiv. ring.
    + eapply reprs_inj.
      * apply (reprs_mult_exact _ _ _ _ _ _ 0 0 D1 P16); [|cbn; lia|lia]. rewrite F2R_0. unfold Rdiv. ring.
      * replace (0 / bpow radix2 56 * bpow radix2 (4 * (gds_exp7 w - 64)))%R with (F2R (Float radix2 (sgnZ false 0) (-1074))).
        -- apply reprs_of_bits. reflexivity.
        -- cbn [sgnZ]. rewrite F2R_0. unfold Rdiv. ring.
  - destruct (log2_mant_range w Hw Hnz) as (HMr & HL).
    destruct (rne53_range (gds_mant w) HMr) as (m & k & Hr & Hm & Hk & _).
    assert (Hma : Z.abs m < 2 ^ 53) by (unfold two52, two53 in Hm; change (2 ^ 53) with 9007199254740992; lia).
    pose proof (reprs_of_Z_pos (gds_mant w) m k ltac:(lia) Hr ltac:(lia) Hma) as D0.
    set (v := F2R (Float radix2 m (k - 52))) in *.
    assert (D1 : reprs (b64_div mode_NE (b64_of_Z (gds_mant w)) (b64_pow2 56)) false (v / bpow radix2 56)).
    { apply (reprs_div_exact _ _ false false _ _ m (k - 52 - 56) D0 P56 Hb56); [|exact Hma|lia].
      unfold v. apply F2R_unscale. }
    assert (Hv1 : (v / bpow radix2 56)%R = F2R (Float radix2 m (k - 52 - 56))) by apply F2R_unscale.
    rewrite (gds_decode_nz w m k Hnz Hr).
    unfold flocq_decode. cbv zeta.
    assert (Hdec : forall s, f64_decomp (f64_of_norm s m (k - 52 + gds_e2 w)) = Some (s, m, k - 52 + gds_e2 w)).
    { intros s. apply decomp_of_norm; [exact Hm|lia]. }
    assert (Hexp : k - 52 - 56 + 4 * (gds_exp7 w - 64) = k - 52 + gds_e2 w) by (unfold gds_e2; lia).
    destruct (gds_sign w).
    + assert (D2 : reprs (b64_mult mode_NE b64_minus_one (b64_div mode_NE (b64_of_Z (gds_mant w)) (b64_pow2 56)))
                         (xorb true false) (-1 * (v / bpow radix2 56))).
      { apply (reprs_mult_exact _ _ _ _ _ _ (- m) (k - 52 - 56) reprs_minus_one D1); [|lia|lia].
        rewrite Hv1, F2R_Zopp. ring. }
      eapply reprs_inj.
      * apply (reprs_mult_exact _ _ _ _ _ _ (- m) (k - 52 + gds_e2 w) D2 P16); [|lia|lia].
        rewrite Hv1, <- Hexp, <- F2R_scale, F2R_Zopp. ring.
      * replace (-1 * (v / bpow radix2 56) * bpow radix2 (4 * (gds_exp7 w - 64)))%R
          with (F2R (Float radix2 (sgnZ true m) (k - 52 + gds_e2 w))).
        -- apply reprs_of_bits. apply Hdec.
        -- cbn [sgnZ]. rewrite Hv1, <- Hexp, <- F2R_scale, F2R_Zopp. ring.
    + eapply reprs_inj.
      * apply (reprs_mult_exact _ _ _ _ _ _ m (k - 52 + gds_e2 w) D1 P16); [|lia|lia].
        rewrite Hv1, <- Hexp, <- F2R_scale. reflexivity.
      * replace (v / bpow radix2 56 * bpow radix2 (4 * (gds_exp7 w - 64)))%R
          with (F2R (Float radix2 (sgnZ false m) (k - 52 + gds_e2 w))).
        -- apply reprs_of_bits. apply Hdec.
        -- cbn [sgnZ]. rewrite Hv1, <- Hexp, <- F2R_scale. reflexivity.
Qed.

Lemma word_decode : forall w, word64 w -> word64 (gds_decode w).
Proof.
  intros w Hw. destruct (Z.eq_dec (gds_mant w) 0) as [Hz|Hnz].
  - unfold gds_decode. cbv zeta. rewrite Hz. cbn. destruct (gds_sign w); unfold word64, two63, two64; lia.
  - destruct (decode_correctly_rounded w Hw Hnz) as (q & _ & _ & [H _] & _). exact H.
Qed.

Theorem flocq_decode_bits : forall w, word64 w -> bits_of_b64 (flocq_decode w) = gds_decode w.
Proof.
  intros w Hw. rewrite flocq_decode_is_model by exact Hw. apply bits_of_bits. apply word_decode. exact Hw.
Qed.
(** * C12: cascade, from_instance, Point::transform along a chain *)

Lemma fmul_repr : forall x y a b r, repr x a -> repr y b -> fmul a b = Some r -> repr (bmul x y) r.
Proof. intros x y a b r Hx Hy H. pose proof (fmul_is_Bmult x y a b Hx Hy) as H1. rewrite H in H1. exact H1. Qed.
Lemma fadd_repr : forall x y a b r, repr x a -> repr y b -> fadd a b = Some r -> repr (badd x y) r.
Proof. intros x y a b r Hx Hy H. pose proof (fadd_is_Bplus x y a b Hx Hy) as H1. rewrite H in H1. exact H1. Qed.
Lemma f_of_int_repr : forall n r, f_of_int n = Some r -> repr (b64_of_Z n) r.
Proof. intros n r H. pose proof (f_of_int_is_normalize n) as H1. rewrite H in H1. exact H1. Qed.

Lemma dot2_repr : forall x0 y0 x1 y1 a0 b0 a1 b1 r,
  repr x0 a0 -> repr y0 b0 -> repr x1 a1 -> repr y1 b1 ->
  dot2 a0 b0 a1 b1 = Some r -> repr (bdot2 x0 y0 x1 y1) r.
Proof.
  intros x0 y0 x1 y1 a0 b0 a1 b1 r H0 H1 H2 H3 H. unfold dot2 in H.
  destruct (fmul a0 b0) as [p|] eqn:Ep; [|discriminate].
  destruct (fmul a1 b1) as [q|] eqn:Eq; [|discriminate].
  unfold bdot2. eapply fadd_repr; [eapply fmul_repr; eassumption | eapply fmul_repr; eassumption | exact H].
Qed.

Lemma repr_zero : repr b64_zero dzero.
Proof. split; [reflexivity|]. unfold dyR, dzero. cbn [fst snd]. rewrite F2R_0. reflexivity. Qed.
Lemma repr_one : repr b64_one done.
Proof.
  destruct (dy_of_bits_repr 4607182418800017408 (two52, -52) eq_refl) as [Hf Hr].
  split; [exact Hf|]. unfold b64_one. rewrite Hr. unfold dyR, done, F2R. cbn [fst snd Fnum Fexp].
  change two52 with (2 ^ 52). rewrite IZR_pow2 by lia. rewrite <- bpow_plus. cbn. ring.
Qed.

Lemma trepr_identity : trepr identity_b identity_f.
Proof. unfold trepr, identity_b, identity_f. cbn [a00 a01 a10 a11 b0 b1]. pose proof repr_zero. pose proof repr_one. tauto. Qed.

Ltac inv_opt :=
  repeat match goal with
  | H : match ?e with Some _ => _ | None => None end = Some _ |- _ =>
    let E := fresh "E" in destruct e eqn:E; [|discriminate H]; cbn [fst snd] in H
  | H : (let '(_, _) := ?p in _) = Some _ |- _ => destruct p; cbn [fst snd] in H
  | H : Some _ = Some _ |- _ => injection H as H; try subst
  end.

Lemma cascade_repr : forall pb cb p c t, trepr pb p -> trepr cb c -> cascade_f p c = Some t ->
  trepr (cascade_b pb cb) t.
Proof.
  intros pb cb p c t (P0 & P1 & P2 & P3 & P4 & P5) (C0 & C1 & C2 & C3 & C4 & C5) H.
  unfold cascade_f, matvec_f, matmul_f in H. cbn [fst snd] in H.
  inv_opt.
  unfold cascade_b, matvec_b, matmul_b, trepr. cbn [fst snd a00 a01 a10 a11 b0 b1].
  repeat split;
    first [ eapply dot2_repr; eassumption
          | eapply fadd_repr; [eapply dot2_repr; eassumption | eassumption | eassumption] ].
Qed.

Lemma apply_repr : forall tb t v r, trepr tb t -> apply_f t v = Some r -> apply_b tb v = r.
Proof.
  intros tb t v r (P0 & P1 & P2 & P3 & P4 & P5) H.
  unfold apply_f in H. inv_opt.
  unfold apply_b, b64_to_isize.
  apply f_of_int_repr in E, E0.
  f_equal; f_equal; apply f_round_is_flocq;
    (eapply fadd_repr; [eapply dot2_repr; eassumption | eassumption | eassumption]).
Qed.

Lemma from_instance_repr : forall lx ly r osc oscb t,
  match osc, oscb with
  | Some (sn, cs), Some (snb, csb) => repr snb sn /\ repr csb cs
  | None, None => True
  | _, _ => False
  end ->
  from_instance_f lx ly r osc = Some t -> trepr (from_instance_b lx ly r oscb) t.
Proof.
  intros lx ly r osc oscb t Hsc H. unfold from_instance_f in H.
  destruct (f_of_int lx) as [bx|] eqn:E; [|discriminate].
  destruct (f_of_int ly) as [by_|] eqn:E0; [|discriminate].
  apply f_of_int_repr in E, E0.
  assert (Hp : exists sn cs snb csb, sincos_of osc = (sn, cs) /\
             match oscb with Some sc => sc | None => (b64_zero, b64_one) end = (snb, csb) /\
             repr snb sn /\ repr csb cs).
  { destruct osc as [[sn cs]|], oscb as [[snb csb]|]; try contradiction.
    - exists sn, cs, snb, csb. tauto.
    - exists dzero, done, b64_zero, b64_one. pose proof repr_zero. pose proof repr_one.
      split; [reflexivity|]. split; [reflexivity|]. tauto. }
  destruct Hp as (sn & cs & snb & csb & E1 & E2 & Hs & Hc).
  rewrite E1 in H. unfold from_instance_b. rewrite E2.
  pose proof (fneg_is_Bopp _ _ Hs). pose proof (fneg_is_Bopp _ _ Hc).
  destruct r; injection H as <-; unfold trepr; cbn [a00 a01 a10 a11 b0 b1]; tauto.
Qed.

Lemma from_placement_repr : forall p t, from_placement_f p = Some t ->
  exists tb, from_placement_b p = Some tb /\ trepr tb t.
Proof.
  intros [[[lx ly] r] oa] t H. unfold from_placement_f, from_placement_gen in H.
  unfold from_placement_b. destruct oa as [a|].
  - unfold libm_sincos in H. unfold libm_sincos_b.
    destruct (assocZ a libm_sincos_table) as [[sb cb]|]; [|discriminate].
    destruct (dy_of_bits sb) as [sn|] eqn:Es; [|discriminate].
    destruct (dy_of_bits cb) as [cs|] eqn:Ec; [|discriminate].
    eexists. split; [reflexivity|].
    apply (from_instance_repr lx ly r (Some (sn, cs))); [|exact H].
    split; apply dy_of_bits_repr; assumption.
  - eexists. split; [reflexivity|]. apply (from_instance_repr lx ly r None); [exact I|exact H].
Qed.

Lemma chain_repr : forall chain tb t t', trepr tb t -> chain_f t chain = Some t' ->
  exists tb', chain_b tb chain = Some tb' /\ trepr tb' t'.
Proof.
  induction chain as [|p rest IH]; intros tb t t' Ht H; cbn [chain_f chain_b] in *.
  - injection H as <-. exists tb. split; [reflexivity|exact Ht].
  - destruct (from_placement_f p) as [it|] eqn:Ei; [|discriminate].
    destruct (cascade_f t it) as [t1|] eqn:Ec; [|discriminate].
    destruct (from_placement_repr p it Ei) as (itb & Eb & Hit).
    rewrite Eb. apply (IH (cascade_b tb itb) t1 t'); [|exact H].
    eapply cascade_repr; eassumption.
Qed.

Theorem chain_image_flocq : forall chain v r,
  chain_image_f chain v = Some r -> chain_image_b chain v = Some r.
Proof.
  intros chain v r H. unfold chain_image_f in H. unfold chain_image_b.
  destruct (chain_f identity_f chain) as [t|] eqn:Et; [|discriminate].
  destruct (chain_repr chain identity_b identity_f t trepr_identity Et) as (tb & Eb & Ht).
  rewrite Eb. f_equal. eapply apply_repr; eassumption.
Qed.

(** * C15: GdsFloat64::encode *)

Lemma mag_pos_dy : forall m e, 0 < m -> mag radix2 (F2R (Float radix2 m e)) = Z.log2 m + 1 + e :> Z.
Proof.
  intros m e Hm. rewrite mag_F2R_Zdigits by lia. rewrite <- bitlen_Zdigits. unfold bitlen.
  destruct (Z.eqb_spec m 0); [lia|]. rewrite Z.abs_eq by lia. reflexivity.
Qed.

Lemma b64_lt_pow2 : forall val s m e p, reprs val s (F2R (Float radix2 m e)) -> 0 < m -> -1022 <= p <= 1023 ->
  b64_lt val (b64_pow2 p) = dy_lt_pow2 m e p.
Proof.
  intros val s m e p (Hf & Hv & _) Hm Hp.
  destruct (reprs_pow2 p Hp) as (Hfp & Hvp & _).
  unfold b64_lt, b64_compare. rewrite Bcompare_correct by assumption. rewrite Hv, Hvp.
  rewrite dy_lt_pow2_log2 by exact Hm.
  pose proof (mag_pos_dy m e Hm) as Hmag.
  assert (Hx : (0 < F2R (Float radix2 m e))%R) by (apply F2R_gt_0; exact Hm).
  assert (Hnz : F2R (Float radix2 m e) <> 0%R) by lra.
  pose proof (bpow_mag_gt radix2 (F2R (Float radix2 m e))) as Hgt. rewrite Rabs_pos_eq in Hgt by lra.
  pose proof (bpow_mag_le radix2 (F2R (Float radix2 m e)) Hnz) as Hle. rewrite Rabs_pos_eq in Hle by lra.
  destruct (Z.ltb_spec (Z.log2 m + e) p) as [Hl|Hg].
  - rewrite Rcompare_Lt; [reflexivity|].
    eapply Rlt_le_trans; [exact Hgt|]. apply bpow_le. lia.
  - assert (Hle' : (bpow radix2 p <= F2R (Float radix2 m e))%R).
    { eapply Rle_trans; [|exact Hle]. apply bpow_le. lia. }
    destruct (Rcompare_spec (F2R (Float radix2 m e)) (bpow radix2 p)); [lra|reflexivity|reflexivity].
Qed.

Lemma adj_down_b_eq : forall val s m e, reprs val s (F2R (Float radix2 m e)) -> 0 < m ->
  forall fuel ex, -64 <= ex <= 63 -> adj_down_b fuel val ex = adj_down fuel m e ex.
Proof.
  intros val s m e Hv Hm. induction fuel as [|f IH]; intros ex Hex; cbn [adj_down_b adj_down]; [reflexivity|].
  rewrite (b64_lt_pow2 val s m e _ Hv Hm) by lia.
  destruct (Z.ltb_spec (-64) ex) as [H1|H1]; cbn [andb]; [|reflexivity].
  destruct (dy_lt_pow2 m e (4 * (ex - 1))); [|reflexivity]. apply IH. lia.
Qed.

Lemma adj_up_b_eq : forall val s m e, reprs val s (F2R (Float radix2 m e)) -> 0 < m ->
  forall fuel ex, -64 <= ex <= 63 -> adj_up_b fuel val ex = adj_up fuel m e ex.
Proof.
  intros val s m e Hv Hm. induction fuel as [|f IH]; intros ex Hex; cbn [adj_up_b adj_up]; [reflexivity|].
  rewrite (b64_lt_pow2 val s m e _ Hv Hm) by lia.
  destruct (Z.ltb_spec ex 63) as [H1|H1]; cbn [andb]; [|reflexivity].
  destruct (dy_lt_pow2 m e (4 * ex)); cbn [negb]; [reflexivity|]. apply IH. lia.
Qed.

Lemma rha_f_round : forall m sh, 0 <= m -> rha m sh = f_round (m, sh).
Proof.
  intros m sh Hm. unfold rha, f_round.
  destruct (Z.leb_spec 0 sh) as [H|H]; [rewrite pow2_eq'; reflexivity|].
  destruct (Z.leb_spec 0 m) as [_|]; [|lia].
  rewrite pow2_eq', divp2_eq' by lia.
  remember (- sh - 1) as k eqn:Hk. assert (H0 : 0 <= k) by lia.
  replace (- sh) with (k + 1) by lia. replace (1 - sh) with (1 + (k + 1)) by lia.
  rewrite (Z.pow_add_r 2 1 (k + 1)) by lia. change (2 ^ 1) with 2.
  assert (Hp : 0 < 2 ^ (k + 1)) by (apply Z.pow_pos_nonneg; lia).
  replace (2 * m + 2 ^ (k + 1)) with (2 * (m + 2 ^ k)).
  2:{ rewrite Z.pow_add_r by lia. change (2 ^ 1) with 2. lia. }
  rewrite Z.div_mul_cancel_l by lia. reflexivity.
Qed.

Lemma rha_is_ZnearestA : forall m sh, 0 <= m -> rha m sh = ZnearestA (F2R (Float radix2 m sh)).
Proof. intros m sh Hm. rewrite rha_f_round by exact Hm. apply (f_round_is_ZnearestA (m, sh)). Qed.

Lemma decomp_ranges : forall b s m e, f64_decomp b = Some (s, m, e) ->
  0 <= m < two53 /\ -1074 <= e <= 971 /\ (m < two52 -> e = -1074).
Proof.
  intros b s m e H. unfold f64_decomp in H. cbv zeta in H.
  pose proof (frac_range b) as Hf. pose proof (bexp_range b) as Hb.
  destruct (Z.eqb_spec (f64_bexp b) 2047); [discriminate|].
  destruct (Z.eqb_spec (f64_bexp b) 0); injection H as <- <- <-; unfold two52, two53 in *; lia.
Qed.

Lemma rha_nonneg : forall m sh, 0 <= m -> 0 <= rha m sh.
Proof.
  intros m sh Hm. unfold rha. destruct (Z.leb_spec 0 sh).
  - apply Z.mul_nonneg_nonneg; [lia|]. apply Z.pow_nonneg. lia.
  - assert (0 < 2 ^ (- sh - 1)) by (apply Z.pow_pos_nonneg; lia).
    apply Z.div_pos; [lia|]. apply Z.pow_pos_nonneg; lia.
Qed.

Lemma flocq_encode_body_eq : forall est s val m e,
  reprs val false (F2R (Float radix2 m e)) -> 0 < m < two53 -> -1074 <= e <= 971 -> (m < two52 -> e = -1074) ->
  flocq_encode_body est s val =
  (sbit s + (64 + gds_exponent est m e)) * two56
  + Z.min (rha m (e + 56 - 4 * gds_exponent est m e)) (two64 - 1) mod two56.
Proof.
  intros est s val m e Hval [Hm0 Hm] He Hsub.
  assert (Hc : -64 <= clampZ (-64) 63 est <= 63) by (unfold clampZ; lia).
  assert (Hdn : -64 <= adj_down adj_fuel m e (clampZ (-64) 63 est) <= 63).
  { rewrite (adj_down_spec m e Hm0 adj_fuel) by (change (Z.of_nat adj_fuel) with 128; lia). lia. }
  assert (Hexb : adj_up_b adj_fuel val (adj_down_b adj_fuel val (clampZ (-64) 63 est)) = gds_exponent est m e).
  { unfold gds_exponent.
    rewrite (adj_down_b_eq val false m e Hval Hm0) by exact Hc.
    rewrite (adj_up_b_eq val false m e Hval Hm0) by exact Hdn. reflexivity. }
  unfold flocq_encode_body. cbv zeta. rewrite Hexb.
  pose proof (adj_fuel_enough est m e Hm0) as Hex.
  generalize dependent (gds_exponent est m e). intros ex _ Hex.
  assert (HL : 0 <= Z.log2 m <= 52).
  { split; [apply Z.log2_nonneg|]. assert (Z.log2 m < 53); [|lia].
    apply Z.log2_lt_pow2; [exact Hm0|]. rewrite <- two53_eq. lia. }
  assert (HLs : m < two52 -> Z.log2 m <= 51).
  { intros H. assert (Z.log2 m < 52); [|lia]. apply Z.log2_lt_pow2; [exact Hm0|]. rewrite <- two52_eq. exact H. }
  assert (HLn : two52 <= m -> Z.log2 m = 52) by (intros H; apply log2_norm; lia).
  assert (Hexr : -64 <= ex <= 63) by (rewrite Hex; unfold clampZ; lia).
  assert (He' : -1074 <= e + 4 * (14 - ex) <= 971).
  { rewrite Hex. unfold clampZ, true_exp16. cbv zeta.
    destruct (Z.lt_ge_cases m two52) as [Hlt|Hge].
    - specialize (Hsub Hlt). specialize (HLs Hlt). dm_lia.
    - specialize (HLn Hge). dm_lia. }
  assert (Hma : Z.abs m < 2 ^ 53) by (rewrite <- two53_eq; lia).
  pose proof (reprs_pow2 (4 * (14 - ex)) ltac:(lia)) as HP.
  assert (Hprod : reprs (bmul val (b64_pow2 (4 * (14 - ex)))) (xorb false false)
                        (F2R (Float radix2 m e) * bpow radix2 (4 * (14 - ex)))).
  { apply (reprs_mult_exact _ _ _ _ _ _ m (e + 4 * (14 - ex)) Hval HP); [apply F2R_scale|exact Hma|exact He']. }
  assert (Hrep : repr (bmul val (b64_pow2 (4 * (14 - ex)))) (m, e + 4 * (14 - ex))).
  { destruct Hprod as (A & B & _). split; [exact A|]. rewrite B. rewrite F2R_scale. reflexivity. }
  rewrite (f_round_is_flocq _ _ Hrep). rewrite <- rha_f_round by lia.
  replace (e + 4 * (14 - ex)) with (e + 56 - 4 * ex) by lia.
  rewrite Z.max_r by (apply rha_nonneg; lia).
  reflexivity.
Qed.

Theorem flocq_encode_is_model : forall est b,
  flocq_encode_with est (b64_of_bits b) = gds_encode_with est b.
Proof.
  intros est b.
  destruct (f64_decomp b) as [[[s m] e]|] eqn:Hd.
  2:{ pose proof (b64_of_bits_nonfinite b Hd) as Hnf. unfold gds_encode_with. rewrite Hd.
      destruct (b64_of_bits b); try reflexivity. discriminate Hnf. }
  pose proof (reprs_of_bits b s m e Hd) as HX.
  destruct (decomp_ranges b s m e Hd) as (Hm & He & Hsub).
  destruct (Z.eq_dec m 0) as [->|Hnz].
  { unfold gds_encode_with. rewrite Hd. cbn [Z.eqb].
    destruct HX as (Hf & Hv & _). replace (sgnZ s 0) with 0 in Hv by (destruct s; reflexivity).
    rewrite F2R_0 in Hv.
    destruct (b64_of_bits b) as [ | | |s' mz ez Hb]; try reflexivity.
    exfalso. cbn [B2R] in Hv. revert Hv. apply F2R_neq_0. destruct s'; discriminate. }
  assert (Hm0 : 0 < m) by lia.
  rewrite (encode_with_decomp est b s m e Hd Hnz).
  destruct HX as (Hf & Hv & Hs).
  destruct (b64_of_bits b) as [s0|s0|s0 pl Hpl|s' mz ez Hb] eqn:EX; try discriminate Hf.
  { exfalso. cbn [B2R] in Hv. symmetry in Hv. revert Hv. apply F2R_neq_0. destruct s; cbn [sgnZ Fnum]; lia. }
  cbn [Bsign] in Hs. subst s'.
  cbn [flocq_encode_with].
  apply flocq_encode_body_eq; [|lia|exact He|exact Hsub].
  destruct s.
  - split; [|split].
    + unfold b64_opp. rewrite is_finite_Bopp. exact Hf.
    + unfold b64_opp. rewrite B2R_Bopp, Hv. cbn [sgnZ]. rewrite F2R_Zopp. ring.
    + reflexivity.
  - split; [exact Hf|]. split; [exact Hv|reflexivity].
Qed.

(** * [dy_to_bits] returns the bit pattern of the double that has the dyadic's value *)

Lemma sgnZ_neg : forall s a, 0 < a -> (sgnZ s a <? 0) = s.
Proof. intros [|] a Ha; cbn [sgnZ]; [apply Z.ltb_lt | apply Z.ltb_ge]; lia. Qed.
Lemma sgnZ_abs : forall s a, 0 < a -> Z.abs (sgnZ s a) = a.
Proof. intros [|] a Ha; cbn [sgnZ]; lia. Qed.

Lemma decomp_shape : forall B s M E, word64 B -> f64_decomp B = Some (s, M, E) ->
  (two52 <= M < two53 /\ -1074 <= E <= 971 /\ B = f64_of_norm s M E) \/
  (0 <= M < two52 /\ E = -1074 /\ B = (if s then two63 else 0) + M).
Proof.
  intros B s M E Hw Hd.
  pose proof (bexp_range B) as Hb.
  destruct (Z.eq_dec (f64_bexp B) 0) as [H0|H0].
  - right. unfold f64_decomp in Hd. cbv zeta in Hd. rewrite H0 in Hd. cbn in Hd.
    injection Hd as <- <- <-. pose proof (frac_range B). split; [assumption|]. split; [reflexivity|].
    unfold f64_sign, f64_frac, f64_bexp, word64 in *. consts.
    destruct (Z.leb_spec 9223372036854775808 B); dm_lia.
  - left. assert (H1 : f64_bexp B <> 2047).
    { intros H. unfold f64_decomp in Hd. cbv zeta in Hd. rewrite H in Hd. discriminate. }
    assert (Hn : f64_normal B) by (split; [exact Hw|lia]).
    destruct (norm_of_decomp B s M E Hn Hd) as (A1 & A2 & A3). repeat split; lia.
Qed.

Lemma dy_to_bits_decomp : forall B s M E a e, word64 B -> f64_decomp B = Some (s, M, E) ->
  0 < M -> 0 < a ->
  (E <= e /\ M = a * 2 ^ (e - E) \/ e <= E /\ a = M * 2 ^ (E - e)) ->
  dy_to_bits (sgnZ s a, e) = Some B.
Proof.
  intros B s M E a e Hw Hd HM Ha Hrel.
  assert (Hlog : Z.log2 a = Z.log2 M + E - e).
  { destruct Hrel as [[H1 H2]|[H1 H2]]; subst; rewrite Z.log2_mul_pow2 by lia; lia. }
  unfold dy_to_bits.
  destruct (Z.eqb_spec (sgnZ s a) 0) as [Hz|_]; [destruct s; cbn [sgnZ] in Hz; lia|].
  rewrite sgnZ_neg, sgnZ_abs by exact Ha. cbv zeta. rewrite Hlog.
  destruct (decomp_shape B s M E Hw Hd) as [(HMr & HEr & HB)|(HMr & HEr & HB)].
  - (* normal *)
    rewrite (log2_norm M HMr).
    replace (52 + E - e + 1 - 53) with (E - e) by lia.
    replace (e + (E - e)) with E by lia.
    destruct (Z.ltb_spec 0 (E - e)) as [Hsh|Hsh].
    + destruct Hrel as [[H1 _]|[_ H2]]; [lia|].
      rewrite modp2_eq', divp2_eq' by lia. rewrite H2.
      rewrite Z.mod_mul, Z.div_mul by (apply Z.pow_nonzero; lia). cbn [Z.eqb negb andb].
      destruct (Z.ltb_spec 971 E); [lia|]. destruct (Z.leb_spec (-1074) E); [|lia].
      rewrite HB. reflexivity.
    + cbn [andb]. rewrite pow2_eq'.
      assert (HMa : a * 2 ^ (- (E - e)) = M).
      { destruct Hrel as [[_ H2]|[H1 H2]].
        - rewrite H2. f_equal. f_equal. lia.
        - assert (E = e) by lia. subst E. rewrite Z.sub_diag in *. cbn in *. lia. }
      rewrite HMa.
      destruct (Z.ltb_spec 971 E); [lia|]. destruct (Z.leb_spec (-1074) E); [|lia].
      rewrite HB. reflexivity.
  - (* subnormal *)
    subst E.
    assert (HL : 0 <= Z.log2 M <= 51).
    { split; [apply Z.log2_nonneg|]. assert (Z.log2 M < 52); [|lia].
      apply Z.log2_lt_pow2; [exact HM|]. rewrite <- two52_eq. lia. }
    set (L := Z.log2 M) in *.
    set (sh := L + -1074 - e + 1 - 53).
    set (t := 52 - L).
    assert (Ht : 0 < t) by (unfold t; lia).
    assert (Hm53 : (if 0 <? sh then divp2 a sh else a * pow2 (- sh)) = M * 2 ^ t /\
                   ((0 <? sh) && negb (modp2 a sh =? 0) = false)).
    { destruct (Z.ltb_spec 0 sh) as [Hsh|Hsh].
      - destruct Hrel as [[H1 _]|[_ H2]]; [unfold sh in Hsh; lia|].
        rewrite modp2_eq', divp2_eq' by lia.
        assert (Hsplit : 2 ^ (-1074 - e) = 2 ^ t * 2 ^ sh).
        { rewrite <- Z.pow_add_r by lia. f_equal. unfold t, sh. lia. }
        rewrite H2, Hsplit, Z.mul_assoc.
        rewrite Z.mod_mul, Z.div_mul by (apply Z.pow_nonzero; lia). split; reflexivity.
      - split; [|reflexivity]. rewrite pow2_eq'.
        destruct Hrel as [[H1 H2]|[H1 H2]].
        + rewrite H2. rewrite <- Z.mul_assoc, <- Z.pow_add_r by (unfold sh; lia). f_equal. f_equal. unfold sh, t. lia.
        + rewrite H2. rewrite <- Z.mul_assoc, <- Z.pow_add_r by (unfold sh; lia). f_equal. f_equal. unfold sh, t. lia. }
    destruct Hm53 as [Hm53 Hchk]. rewrite Hchk, Hm53.
    replace (e + sh) with (-1074 - t) by (unfold sh, t; lia).
    destruct (Z.ltb_spec 971 (-1074 - t)); [lia|]. destruct (Z.leb_spec (-1074) (-1074 - t)); [lia|].
    replace (-1074 - (-1074 - t)) with t by lia.
    rewrite modp2_eq', divp2_eq' by lia.
    rewrite Z.mod_mul, Z.div_mul by (apply Z.pow_nonzero; lia). cbn [Z.eqb].
    rewrite HB. reflexivity.
Qed.

Lemma word_bits_of_b64 : forall z : binary64, word64 (bits_of_b64 z).
Proof. intros z. unfold word64, bits_of_b64. apply (bits_of_binary_float_range 52 11); reflexivity. Qed.

Lemma b64_of_bits_of_b64 : forall z : binary64, b64_of_bits (bits_of_b64 z) = z.
Proof. intros z. unfold b64_of_bits, bits_of_b64. exact (binary_float_of_bits_of_binary_float 52 11 eq_refl eq_refl eq_refl z). Qed.

Lemma dy_to_bits_of_repr : forall z d, repr z d -> fst d <> 0 -> dy_to_bits d = Some (bits_of_b64 z).
Proof.
  intros z [m e] [Hf Hv] Hm. cbn [fst] in Hm. unfold dyR in Hv. cbn [fst snd] in Hv.
  set (B := bits_of_b64 z).
  pose proof (word_bits_of_b64 z) as HwB. fold B in HwB.
  pose proof (b64_of_bits_of_b64 z) as HzB. fold B in HzB.
  destruct (f64_decomp B) as [[[s M] E]|] eqn:Hd.
  2:{ apply b64_of_bits_nonfinite in Hd. rewrite HzB in Hd. congruence. }
  destruct (b64_of_bits_finite B s M E Hd) as (_ & HvB & _). rewrite HzB, Hv in HvB.
  destruct (decomp_ranges B s M E Hd) as (HMr & _ & _).
  assert (Hx : F2R (Float radix2 m e) <> 0%R) by (apply F2R_neq_0; exact Hm).
  assert (HM : 0 < M).
  { destruct (Z.eq_dec M 0) as [->|]; [|lia]. exfalso. apply Hx. rewrite HvB.
    replace (sgnZ s 0) with 0 by (destruct s; reflexivity). apply F2R_0. }
  (* the signs agree *)
  assert (Hs : m = sgnZ s (Z.abs m)).
  { destruct s; cbn [sgnZ] in *.
    - assert (F2R (Float radix2 (- M) E) < 0)%R by (apply F2R_lt_0; cbn; lia).
      destruct (Z.lt_ge_cases m 0) as [|Hge]; [lia|]. exfalso.
      assert (0 <= F2R (Float radix2 m e))%R by (apply F2R_ge_0; exact Hge). lra.
    - assert (0 < F2R (Float radix2 M E))%R by (apply F2R_gt_0; exact HM).
      destruct (Z.lt_ge_cases m 0) as [Hlt|]; [|lia]. exfalso.
      assert (F2R (Float radix2 m e) < 0)%R by (apply F2R_lt_0; exact Hlt). lra. }
  assert (Ha : 0 < Z.abs m) by lia.
  assert (Hva : F2R (Float radix2 (Z.abs m) e) = F2R (Float radix2 M E)).
  { rewrite F2R_Zabs, HvB. destruct s; cbn [sgnZ].
    - rewrite F2R_Zopp, Rabs_Ropp. apply Rabs_pos_eq. apply F2R_ge_0. cbn. lia.
    - apply Rabs_pos_eq. apply F2R_ge_0. cbn. lia. }
  rewrite Hs. apply (dy_to_bits_decomp B s M E (Z.abs m) e HwB Hd HM Ha).
  destruct (Z.le_ge_cases E e) as [Hle|Hle].
  - left. split; [exact Hle|].
    rewrite (F2R_change_exp radix2 E (Z.abs m) e Hle) in Hva. apply eq_F2R in Hva. symmetry. exact Hva.
  - right. split; [exact Hle|].
    rewrite (F2R_change_exp radix2 e M E Hle) in Hva. apply eq_F2R in Hva. exact Hva.
Qed.

Lemma bits_of_repr_zero : forall z d, repr z d -> fst d = 0 ->
  dy_to_bits d = Some 0 /\ f64_is_zero (bits_of_b64 z) = true.
Proof.
  intros z [m e] [Hf Hv] Hm. cbn [fst] in Hm. subst m. split; [reflexivity|].
  unfold dyR in Hv. cbn [fst snd] in Hv. rewrite F2R_0 in Hv.
  destruct z as [s| | |s mz ez Hb]; try discriminate Hf.
  - destruct s; reflexivity.
  - exfalso. cbn [B2R] in Hv. revert Hv. apply F2R_neq_0. destruct s; discriminate.
Qed.

(** The bit pattern that the dyadic model delivers ([dy_to_bits]) is the bit pattern of the Flocq value,
    up to the sign of a zero (which the dyadic model does not carry: it delivers +0). *)
Theorem dy_to_bits_is_flocq_bits : forall z d, repr z d ->
  exists b, dy_to_bits d = Some b /\
    (fst d <> 0 -> b = bits_of_b64 z) /\
    (fst d = 0 -> b = 0 /\ f64_is_zero (bits_of_b64 z) = true).
Proof.
  intros z d Hr. destruct (Z.eq_dec (fst d) 0) as [H0|H0].
  - destruct (bits_of_repr_zero z d Hr H0) as [A B]. exists 0. split; [exact A|]. split; [contradiction|]. intros _. split; [reflexivity|exact B].
  - exists (bits_of_b64 z). split; [apply dy_to_bits_of_repr; assumption|]. split; [reflexivity|contradiction].
Qed.

(** the operations, bit pattern in, bit pattern out *)
Theorem fmul_bits : forall ba bb a b, dy_of_bits ba = Some a -> dy_of_bits bb = Some b ->
  let z := bmul (b64_of_bits ba) (b64_of_bits bb) in
  match fmul a b with
  | Some r => exists br, dy_to_bits r = Some br /\
                (fst r <> 0 -> br = bits_of_b64 z) /\ (fst r = 0 -> br = 0 /\ f64_is_zero (bits_of_b64 z) = true)
  | None => is_finite 53 1024 z = false
  end.
Proof.
  intros ba bb a b Ha Hb z.
  pose proof (fmul_is_Bmult _ _ a b (dy_of_bits_repr ba a Ha) (dy_of_bits_repr bb b Hb)) as H.
  destruct (fmul a b) as [r|].
  - apply dy_to_bits_is_flocq_bits. exact H.
  - unfold z, bmul. rewrite H. reflexivity.
Qed.

Theorem fadd_bits : forall ba bb a b, dy_of_bits ba = Some a -> dy_of_bits bb = Some b ->
  let z := badd (b64_of_bits ba) (b64_of_bits bb) in
  match fadd a b with
  | Some r => exists br, dy_to_bits r = Some br /\
                (fst r <> 0 -> br = bits_of_b64 z) /\ (fst r = 0 -> br = 0 /\ f64_is_zero (bits_of_b64 z) = true)
  | None => is_finite 53 1024 z = false
  end.
Proof.
  intros ba bb a b Ha Hb z.
  pose proof (fadd_is_Bplus _ _ a b (dy_of_bits_repr ba a Ha) (dy_of_bits_repr bb b Hb)) as H.
  destruct (fadd a b) as [r|].
  - apply dy_to_bits_is_flocq_bits. exact H.
  - unfold z, badd. rewrite H. reflexivity.
Qed.

Lemma some_inj : forall (A : Type) (a b : A), Some a = Some b -> a = b.
Proof. intros A a b H. congruence. Qed.

Theorem f_of_int_bits : forall n,
  match f_of_int n with
  | Some r => exists br, dy_to_bits r = Some br /\ (n <> 0 -> br = bits_of_b64 (b64_of_Z n)) /\ (n = 0 -> br = 0)
  | None => is_finite 53 1024 (b64_of_Z n) = false
  end.
Proof.
  intros n. pose proof (f_of_int_is_normalize n) as H.
  destruct (f_of_int n) as [r|] eqn:E.
  - destruct (dy_to_bits_is_flocq_bits _ _ H) as (br & Hb & Hnz & Hz). exists br. split; [exact Hb|].
    assert (Hr : fst r = 0 <-> n = 0).
    { destruct H as [_ Hv]. unfold f_of_int, chk in E. destruct (finite_ok (round_flt (n, 0))); [|discriminate].
      assert (E' : round_flt (n, 0) = r) by (apply (some_inj _ _ _ E)).
      pose proof (round_flt_is_flocq_round (n, 0)) as Hrd. rewrite E' in Hrd.
      split; intros H0.
      - destruct (Z.eq_dec n 0) as [|Hn]; [assumption|exfalso].
        assert (Hz0 : dyR r = 0%R) by (unfold dyR; rewrite H0; apply F2R_0).
        rewrite Hz0 in Hrd. unfold rnd64 in Hrd.
        assert (Hone : generic_format radix2 fexp64 1%R).
        { replace 1%R with (F2R (Float radix2 1 0)) by (unfold F2R; cbn; ring).
          apply generic_format_F2R. intros _. rewrite cexp_dy by lia. cbn. lia. }
        assert (Hge : (1 <= Rabs (dyR (n, 0%Z)))%R).
        { unfold dyR, F2R. cbn [fst snd Fnum Fexp bpow]. rewrite Rmult_1_r, <- abs_IZR. apply IZR_le. lia. }
        pose proof (@abs_round_ge_generic radix2 fexp64 (@FLT_exp_valid (-1074) 53 prec53) ZnearestE (valid_rnd_N _) _ _ Hone Hge) as Hc.
        rewrite <- Hrd, Rabs_R0 in Hc. lra.
      - subst n. rewrite <- E'. reflexivity. }
    split.
    + intros Hn. apply Hnz. intros H0. apply Hn. apply Hr. exact H0.
    + intros Hn. apply Hz. apply Hr. exact Hn.
  - rewrite H. reflexivity.
Qed.
(** the decoded double is the IEEE rounding (to nearest, ties to even) of the exact value of the GDSII real *)
Theorem decode_is_rounded_value : forall w, word64 w ->
  is_finite 53 1024 (b64_of_bits (gds_decode w)) = true /\
  B2R 53 1024 (b64_of_bits (gds_decode w)) =
    rnd64 (F2R (Float radix2 (sgnZ (gds_sign w) (gds_mant w)) (gds_e2 w))) /\
  Bsign 53 1024 (b64_of_bits (gds_decode w)) = gds_sign w.
Proof.
  intros w Hw.
  destruct (Z.eq_dec (gds_mant w) 0) as [Hz|Hnz].
  - unfold gds_decode. cbv zeta. rewrite Hz. cbn [Z.eqb].
    replace (sgnZ (gds_sign w) 0) with 0 by (destruct (gds_sign w); reflexivity).
    rewrite F2R_0. unfold rnd64. rewrite round_0 by (apply valid_rnd_N).
    destruct (gds_sign w); repeat split.
  - destruct (log2_mant_range w Hw Hnz) as (HMr & HL).
    pose proof (gds_e2_range w Hw) as He2.
    destruct (rne53_range (gds_mant w) HMr) as (m & k & Hr & Hm & Hk & _).
    rewrite (gds_decode_nz w m k Hnz Hr).
    assert (Hdec : f64_decomp (f64_of_norm (gds_sign w) m (k - 52 + gds_e2 w)) = Some (gds_sign w, m, k - 52 + gds_e2 w)).
    { apply decomp_of_norm; [exact Hm|lia]. }
    destruct (b64_of_bits_finite _ _ _ _ Hdec) as (A & B & C).
    split; [exact A|]. split; [|exact C]. rewrite B.
    pose proof (rne53_scaled_is_flocq_round (gds_mant w) (gds_e2 w) ltac:(lia) ltac:(lia)) as H.
    rewrite Hr in H. cbn [fst snd] in H.
    fold fexp64 in H. fold (rnd64 (IZR (gds_mant w) * bpow radix2 (gds_e2 w))) in H.
    change (IZR (gds_mant w) * bpow radix2 (gds_e2 w))%R with (F2R (Float radix2 (gds_mant w) (gds_e2 w))) in H.
    destruct (gds_sign w); cbn [sgnZ].
    + rewrite !F2R_Zopp. unfold rnd64 in *. rewrite round_NE_opp. f_equal. exact H.
    + exact H.
Qed.

(** * C12: the no-drift theorems at the Flocq level *)
Theorem chain_image_exact_flocq : forall D L X chain x y,
  drift_budget D L X -> Z.of_nat (length chain) <= D -> Forall (placement_ok L) chain ->
  Z.abs x <= X -> Z.abs y <= X ->
  exists sp, spec_path_of chain = Some sp /\ chain_image_b chain (x, y) = Some (path_image sp (x, y)).
Proof.
  intros D L X chain x y HB HD HP Hx Hy.
  destruct (chain_image_exact D L X chain x y HB HD HP Hx Hy) as (sp & Hsp & Him).
  exists sp. split; [exact Hsp|]. apply chain_image_flocq. exact Him.
Qed.

Theorem chain_image_exact_any_depth_uniform_flocq : table_exactb = true ->
  forall (L X : Z) (chain : list fplacement) (x y : Z),
    0 <= L -> Forall (placement_ok L) chain -> Z.abs x <= X -> Z.abs y <= X ->
    Z.of_nat (length chain) * L + X < 2 ^ 53 ->
    exists sp, spec_path_of chain = Some sp /\ chain_image_b chain (x, y) = Some (path_image sp (x, y)).
Proof.
  intros Ht L X chain x y HL HP Hx Hy Hb.
  destruct (chain_image_exact_any_depth_uniform Ht L X chain x y HL HP Hx Hy Hb) as (sp & Hsp & Him).
  exists sp. split; [exact Hsp|]. apply chain_image_flocq. exact Him.
Qed.

(** * C15: the round trip at the Flocq level *)
Theorem decode_encode_flocq : forall est x, word64 x -> in_gds_range x ->
  bits_of_b64 (flocq_decode (flocq_encode_with est (b64_of_bits x))) = x.
Proof.
  intros est x Hw Hr. rewrite flocq_encode_is_model.
  assert (Hww : word64 (gds_encode_with est x)).
  { destruct Hr as (s & m & e & Hd & Hrest).
    assert (Hr' : in_gds_range x) by (exists s, m, e; split; assumption).
    exact (proj1 (encode_exact est x s m e Hw Hr' Hd)). }
  rewrite flocq_decode_bits by exact Hww. apply decode_encode; assumption.
Qed.

(** * C12: Layout::flatten at the Flocq level *)
Section ElemsSim.
  Variable f g : Z * Z -> option (Z * Z).
  Hypothesis Hfg : forall v r, f v = Some r -> g v = Some r.
  Lemma map_opt_sim : forall l r, map_opt f l = Some r -> map_opt g l = Some r.
  Proof.
    induction l as [|p l IH]; intros r H; cbn [map_opt] in *; [exact H|].
    destruct (f p) as [q|] eqn:Ep; [|discriminate].
    destruct (map_opt f l) as [r'|] eqn:El; [|discriminate].
    rewrite (Hfg p q Ep), (IH r' eq_refl). exact H.
  Qed.
  Lemma elems_transform_sim : forall es r, elems_transform f es = Some r -> elems_transform g es = Some r.
  Proof.
    induction es as [|[tag s] es IH]; intros r H; cbn [elems_transform] in *; [exact H|].
    destruct (elem_transform f (tag, s)) as [e'|] eqn:Ee; [|discriminate].
    destruct (elems_transform f es) as [r'|] eqn:Er; [|discriminate].
    rewrite (IH r' eq_refl).
    assert (He : elem_transform g (tag, s) = Some e').
    { unfold elem_transform in *. cbn [fst snd] in *.
      destruct s as [p0 p1|pts|pts w]; cbn [shape_transform] in *.
      - destruct (f p0) as [q0|] eqn:E0; [|discriminate]. destruct (f p1) as [q1|] eqn:E1; [|discriminate].
        rewrite (Hfg _ _ E0), (Hfg _ _ E1). exact Ee.
      - destruct (map_opt f pts) as [q|] eqn:Em; [|discriminate]. rewrite (map_opt_sim _ _ Em). exact Ee.
      - destruct (map_opt f pts) as [q|] eqn:Em; [|discriminate]. rewrite (map_opt_sim _ _ Em). exact Ee. }
    rewrite He. exact H.
  Qed.
End ElemsSim.

Lemma flatten_helper_flocq : forall (l : layout fplacement (Z * Z)) t tb,
  trepr tb t -> flatten_helper_f l t <> OutOfModel -> flatten_helper_b l tb = flatten_helper_f l t.
Proof.
  intros l. induction l as [es insts IH] using layout_induction.
  intros t tb Ht Hne. unfold flatten_helper_f, flatten_helper_b in *.
  rewrite flatten_helper_eq in Hne. rewrite !flatten_helper_eq.
  destruct (elems_transform (apply_f t) es) as [own|] eqn:Eo; [|contradiction].
  rewrite (elems_transform_sim (apply_f t) (fun v => Some (apply_b tb v))
             (fun v r H => f_equal Some (apply_repr tb t v r Ht H)) es own Eo).
  assert (Hins : flatten_insts cascade_f from_placement_f apply_f t insts <> OutOfModel ->
                 flatten_insts (fun p q => Some (cascade_b p q)) from_placement_b (fun t v => Some (apply_b t v)) tb insts
                 = flatten_insts cascade_f from_placement_f apply_f t insts).
  { clear Hne Eo. induction insts as [|[p oc] rest IHr]; intros Hne; [reflexivity|].
    inversion IH as [|? ? Hsub IHrest]; subst.
    rewrite flatten_insts_cons in Hne. rewrite !flatten_insts_cons.
    destruct oc as [c|]; [|reflexivity].
    destruct (from_placement_f p) as [it|] eqn:Ei; [|contradiction].
    destruct (cascade_f t it) as [t'|] eqn:Ec; [|contradiction].
    destruct (from_placement_repr p it Ei) as (itb & Eb & Hit). rewrite Eb.
    pose proof (cascade_repr tb itb t it t' Ht Hit Ec) as Ht'.
    unfold sub_ok in Hsub. cbn [snd] in Hsub.
    assert (Hc : flatten_helper cascade_f from_placement_f apply_f c t' <> OutOfModel).
    { intros E. rewrite E in Hne. contradiction. }
    rewrite (Hsub t' (cascade_b tb itb) Ht' Hc).
    destruct (flatten_helper cascade_f from_placement_f apply_f c t') as [xs| |]; [|reflexivity|contradiction].
    assert (Hr : flatten_insts cascade_f from_placement_f apply_f t rest <> OutOfModel).
    { intros E. rewrite E in Hne. contradiction. }
    rewrite (IHr IHrest Hr). reflexivity. }
  destruct (flatten_insts cascade_f from_placement_f apply_f t insts) as [sub| |] eqn:Ef; [| |contradiction].
  - rewrite Hins by discriminate. reflexivity.
  - rewrite Hins by discriminate. reflexivity.
Qed.

Theorem flatten_flocq : forall l, flatten_f l <> OutOfModel -> flatten_b l = flatten_f l.
Proof. intros l H. apply flatten_helper_flocq; [apply trepr_identity|exact H]. Qed.

Theorem flatten_no_drift_flocq : forall (D : nat) (L X : Z) (l : layout fplacement (Z * Z)),
  drift_budget (Z.of_nat D) L X -> layout_ok L X l D ->
  exists zl, zlayout_of l = Some zl /\ flatten_b l = flatten_K ZR zl /\
    flatten_b l =
    match paths zl with
    | Some ps => Ok (map (fun pe => elem_map (path_map ZR (fst pe)) (snd pe)) ps)
    | None => Panic
    end.
Proof.
  intros D L X l HB Hok.
  destruct (flatten_f_no_drift D L X l HB Hok) as (zl & Hzl & HfK & Hfp).
  assert (Hb : flatten_b l = flatten_f l).
  { apply flatten_flocq. rewrite Hfp. destruct (paths zl); discriminate. }
  exists zl. split; [exact Hzl|]. rewrite Hb. split; assumption.
Qed.
