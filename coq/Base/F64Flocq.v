(** Layer B: the bridge from the Z-level binary64 models to Flocq's IEEE-754 formalisation.

    The models of C15 (Gds/GdsReal.v) and of C12 part (B) (Geom/Transform.v) represent a double as a
    64-bit word over Z (Base/F64.v: [f64_decomp], [f64_of_norm]) or as an exact dyadic (m, e), and
    write out round-to-nearest-even by hand ([rne53], [round_flt]). This file states, in Flocq's
    terms, what those operations are supposed to be:

      - [b64_of_bits] / [bits_of_b64] (Flocq.IEEE754.Bits) between words and [binary64];
      - [rnd64]: Flocq's rounding to binary64, [round radix2 (FLT_exp (-1074) 53) ZnearestE];
      - [dyR]: the real value of a dyadic; [repr x d]: the finite [binary64] x has the value of d;
      - the float steps of `GdsFloat64::decode` / `encode` and of `Transform::cascade`,
        `Transform::from_instance`, `Point::transform` written with Flocq's operations
        ([b64_mult], [b64_plus], [b64_div], [binary_normalize] for `as f64`, [Bnearbyint] with
        mode_NA for `f64::round`, [Btrunc] for `as isize`/`as u64`, [b64_compare]).

    Definitions only; the theorems are in Base/F64Flocq_proofs.v and are stated in
    Properties/C15B.v and Properties/C12B.v. Flocq rests on the axioms of the standard library's
    real numbers, so NOTHING outside those files may import this one: the theorems of
    Properties/C15.v and Properties/C12.v stay closed under the global context. *)
From Coq Require Import ZArith Bool List Reals.
From Flocq Require Import Core Binary Bits.
From L21 Require Import Base.F64 Gen.LibmGen Gds.GdsReal Geom.Transform.
Import ListNotations.
Local Open Scope Z_scope.

Notation mode_NE := BinarySingleNaN.mode_NE.
Notation mode_NA := BinarySingleNaN.mode_NA.

(** the two side conditions of Flocq's binary64 (the same proof terms as in Flocq.IEEE754.Bits) *)
Definition prec53 : Prec_gt_0 53 := eq_refl.
Definition emax1024 : BinarySingleNaN.Prec_lt_emax 53 1024 := eq_refl.

(** * Values *)
Definition fexp64 : Z -> Z := FLT_exp (-1074) 53.
(** rounding a real to binary64, to nearest, ties to even (no overflow at this level) *)
Definition rnd64 (x : R) : R := round radix2 fexp64 ZnearestE x.
(** the real value of the dyadic (m, e) of Geom/Transform.v part (B) *)
Definition dyR (d : dy) : R := F2R (Float radix2 (fst d) (snd d)).
(** signed significand of [f64_decomp] *)
Definition sgnZ (s : bool) (m : Z) : Z := if s then - m else m.

(** the finite [binary64] x has exactly the value of the dyadic d (the sign of a zero is not
    part of the dyadic model) *)
Definition repr (x : binary64) (d : dy) : Prop :=
  is_finite 53 1024 x = true /\ B2R 53 1024 x = dyR d.
(** ... with the sign: finite, value v, sign bit s *)
Definition reprs (x : binary64) (s : bool) (v : R) : Prop :=
  is_finite 53 1024 x = true /\ B2R 53 1024 x = v /\ Bsign 53 1024 x = s.

(** m / 2^sh to the nearest integer, ties to even, with plain division (reference form of
    [rne_shift] and of the rounding inside [rne53]) *)
Definition rneZ (m sh : Z) : Z :=
  let q := m / 2 ^ sh in
  let r := m mod 2 ^ sh in
  if 2 * r <? 2 ^ sh then q else if 2 ^ sh <? 2 * r then q + 1 else if Z.even q then q else q + 1.

(** * Flocq's operations under the names of the Rust operations *)
(** `n as f64` for an integer n (u64, isize): [binary_normalize] of n * 2^0, to nearest even *)
Definition b64_of_Z (n : Z) : binary64 := binary_normalize 53 1024 prec53 emax1024 mode_NE n 0 false.
(** the double 2^k, -1022 <= k <= 1023 (what `2f64.powi(56)`, `16f64.powi(e)` evaluate to) *)
Definition b64_pow2 (k : Z) : binary64 := b64_of_bits (f64_of_norm false two52 (k - 52)).
Definition b64_zero : binary64 := b64_of_bits 0.
Definition b64_one : binary64 := b64_of_bits 4607182418800017408.        (* 0x3FF0000000000000 *)
Definition b64_minus_one : binary64 := b64_of_bits 13830554455654793216. (* 0xBFF0000000000000 *)
Definition bmul : binary64 -> binary64 -> binary64 := b64_mult mode_NE.
Definition badd : binary64 -> binary64 -> binary64 := b64_plus mode_NE.
Definition bdiv : binary64 -> binary64 -> binary64 := b64_div mode_NE.
(** `f64::round`: to an integral double, ties away from zero *)
Definition b64_round (x : binary64) : binary64 := Bnearbyint 53 1024 emax1024 unop_nan_pl64 mode_NA x.
(** the integer part of a finite double (what `as isize` / `as u64` saturate) *)
Definition b64_trunc (x : binary64) : Z := Binary.Btrunc 53 1024 x.
(** `x < y` on doubles *)
Definition b64_lt (x y : binary64) : bool :=
  match b64_compare x y with Some Lt => true | _ => false end.

(** * C15: GdsFloat64::decode, step by step as the Rust code computes it *)
Definition flocq_decode (w : Z) : binary64 :=
  (* `let mantissa: f64 = mantissa as f64 / 2f64.powi(8 * 7);` *)
  let mant := bdiv (b64_of_Z (gds_mant w)) (b64_pow2 56) in
  (* `16f64.powi(exp)` with exp = exponent byte - 64 *)
  let p16 := b64_pow2 (4 * (gds_exp7 w - 64)) in
  (* `if neg { -1.0 * mantissa * 16f64.powi(exp) } else { mantissa * 16f64.powi(exp) }` *)
  if gds_sign w then bmul (bmul b64_minus_one mant) p16 else bmul mant p16.

(** * C15: GdsFloat64::encode (after the repair), the float steps with Flocq's operations.
    [est] is the integer derived from libm's log2, as in [gds_encode_with]. The argument is a
    finite double; `val == 0.0`, `val < 0.0`, `-val` are read off the constructor. *)
Fixpoint adj_down_b (fuel : nat) (val : binary64) (ex : Z) : Z :=
  match fuel with
  | O => ex
  | S f => if (-64 <? ex) && b64_lt val (b64_pow2 (4 * (ex - 1))) then adj_down_b f val (ex - 1) else ex
  end.
Fixpoint adj_up_b (fuel : nat) (val : binary64) (ex : Z) : Z :=
  match fuel with
  | O => ex
  | S f => if (ex <? 63) && negb (b64_lt val (b64_pow2 (4 * ex))) then adj_up_b f val (ex + 1) else ex
  end.
(** the part after `if val < 0.0 { top = 0x80; val = -val; }`: [s] is the sign taken off, [val] = |x| *)
Definition flocq_encode_body (est : Z) (s : bool) (val : binary64) : Z :=
  let ex := adj_up_b adj_fuel val (adj_down_b adj_fuel val (clampZ (-64) 63 est)) in
  (* `(val * 16_f64.powi(14 - exponent)).round() as u64` *)
  let mant := Z.min (Z.max 0 (b64_trunc (b64_round (bmul val (b64_pow2 (4 * (14 - ex))))))) (two64 - 1) in
  ((if s then 128 else 0) + (64 + ex)) * two56 + mant mod two56.
Definition flocq_encode_with (est : Z) (x : binary64) : Z :=
  match x with
  | B754_finite _ _ s _ _ _ => flocq_encode_body est s (if s then b64_opp x else x)
  | _ => 0     (* `if val == 0.0 { return 0; }`; NaN and infinities are outside the model *)
  end.

(** * C12: layout21raw/src/geom.rs at the Flocq level: the same transcription as
    Geom/Transform.v part (B), every `*`, `+`, unary `-`, `as f64`, `.round()`, `as isize`
    being Flocq's operation on [binary64]. *)
Definition btransform := transform binary64.
Definition bdot2 (x0 y0 x1 y1 : binary64) : binary64 := badd (bmul x0 y0) (bmul x1 y1).
Definition matmul_b (p q : btransform) : binary64 * binary64 * binary64 * binary64 :=
  (bdot2 (a00 p) (a00 q) (a01 p) (a10 q), bdot2 (a00 p) (a01 q) (a01 p) (a11 q),
   bdot2 (a10 p) (a00 q) (a11 p) (a10 q), bdot2 (a10 p) (a01 q) (a11 p) (a11 q)).
Definition matvec_b (p : btransform) (v : binary64 * binary64) : binary64 * binary64 :=
  (bdot2 (a00 p) (fst v) (a01 p) (snd v), bdot2 (a10 p) (fst v) (a11 p) (snd v)).
Definition cascade_b (parent child : btransform) : btransform :=
  let v := matvec_b parent (b0 child, b1 child) in
  let '(m00, m01, m10, m11) := matmul_b parent child in
  mkT m00 m01 m10 m11 (badd (fst v) (b0 parent)) (badd (snd v) (b1 parent)).
(** `as isize` of a finite double: truncate, saturate *)
Definition b64_to_isize (x : binary64) : Z := as_isize (b64_trunc x).
Definition apply_b (t : btransform) (v : Z * Z) : Z * Z :=
  let xf := b64_of_Z (fst v) in let yf := b64_of_Z (snd v) in
  let x := badd (bdot2 (a00 t) xf (a01 t) yf) (b0 t) in
  let y := badd (bdot2 (a10 t) xf (a11 t) yf) (b1 t) in
  (b64_to_isize (b64_round x), b64_to_isize (b64_round y)).
Definition identity_b : btransform := mkT b64_one b64_zero b64_zero b64_one b64_zero b64_zero.
Definition from_instance_b (lx ly : Z) (r : bool) (osc : option (binary64 * binary64)) : btransform :=
  let bx := b64_of_Z lx in let by_ := b64_of_Z ly in
  let '(sn, cs) := match osc with Some sc => sc | None => (b64_zero, b64_one) end in
  if r then mkT cs sn sn (b64_opp cs) bx by_ else mkT cs (b64_opp sn) sn cs bx by_.
(** the doubles of the libm table as [binary64]; [None] outside the table or NaN/infinity *)
Definition libm_sincos_b (a : Z) : option (binary64 * binary64) :=
  match assocZ a libm_sincos_table with
  | Some (sb, cb) =>
    match dy_of_bits sb, dy_of_bits cb with
    | Some _, Some _ => Some (b64_of_bits sb, b64_of_bits cb)
    | _, _ => None
    end
  | None => None
  end.
Definition from_placement_b (p : fplacement) : option btransform :=
  let '(lx, ly, r, oa) := p in
  match oa with
  | None => Some (from_instance_b lx ly r None)
  | Some a => match libm_sincos_b a with Some sc => Some (from_instance_b lx ly r (Some sc)) | None => None end
  end.
Fixpoint chain_b (t : btransform) (chain : list fplacement) : option btransform :=
  match chain with
  | [] => Some t
  | p :: r => match from_placement_b p with Some it => chain_b (cascade_b t it) r | None => None end
  end.
(** the image of an integer point under the transform accumulated along a chain of placements
    (outermost first), everything computed by Flocq; counterpart of [chain_image_f] *)
Definition chain_image_b (chain : list fplacement) (v : Z * Z) : option (Z * Z) :=
  match chain_b identity_b chain with Some t => Some (apply_b t v) | None => None end.
(** `Layout::flatten` at the Flocq level: the walk of Geom/Transform.v ([flatten_helper]) with the Flocq
    cascade, from_instance and Point::transform; counterpart of [flatten_f] *)
Definition flatten_helper_b (l : layout fplacement (Z * Z)) (t : btransform) :=
  flatten_helper (fun p q => Some (cascade_b p q)) from_placement_b (fun t v => Some (apply_b t v)) l t.
Definition flatten_b (l : layout fplacement (Z * Z)) := flatten_helper_b l identity_b.
(** entrywise [repr] *)
Definition trepr (tb : btransform) (t : ftransform) : Prop :=
  repr (a00 tb) (a00 t) /\ repr (a01 tb) (a01 t) /\ repr (a10 tb) (a10 t) /\ repr (a11 tb) (a11 t) /\
  repr (b0 tb) (b0 t) /\ repr (b1 tb) (b1 t).
