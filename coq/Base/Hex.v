(** Byte strings as lists of [Z] in 0..255, passed into and out of Coq as hexadecimal text. *)
From Coq Require Import ZArith List String Ascii Bool.
Import ListNotations.
Local Open Scope Z_scope.

Definition hexval (c : ascii) : Z :=
  let n := Z.of_N (N_of_ascii c) in
  if (48 <=? n) && (n <=? 57) then n - 48
  else if (97 <=? n) && (n <=? 102) then n - 87
  else if (65 <=? n) && (n <=? 70) then n - 55
  else 0.

(** Two hex digits per byte; a trailing single digit is ignored. *)
Fixpoint unhex (s : string) : list Z :=
  match s with
  | String a (String b r) => (16 * hexval a + hexval b) :: unhex r
  | _ => []
  end.

Definition hexdigit (n : Z) : ascii :=
  ascii_of_N (Z.to_N (if n <? 10 then 48 + n else 87 + n)).

Fixpoint hex (l : list Z) : string :=
  match l with
  | [] => EmptyString
  | b :: r => String (hexdigit ((b / 16) mod 16)) (String (hexdigit (b mod 16)) (hex r))
  end.

(** [n] copies of byte [b] (for long payloads). *)
Definition rep (b : Z) (n : Z) : list Z := repeat b (Z.to_nat n).

Definition byte_ok (b : Z) : Prop := 0 <= b < 256.
Definition byte_okb (b : Z) : bool := (0 <=? b) && (b <? 256).
Definition bytes_ok (l : list Z) : Prop := Forall byte_ok l.

(** list equality on Z *)
Fixpoint zlist_eqb (a b : list Z) : bool :=
  match a, b with
  | [], [] => true
  | x :: a', y :: b' => (x =? y) && zlist_eqb a' b'
  | _, _ => false
  end.

(** [hex] in pieces of at most [n] bytes, so that no single string term gets deep *)
Fixpoint hexchunks_go (fuel n : nat) (l : list Z) : list string :=
  match fuel with
  | O => []
  | S f => match l with
           | [] => []
           | _ => hex (firstn n l) :: hexchunks_go f n (skipn n l)
           end
  end.
Definition hexchunks (l : list Z) : list string := hexchunks_go (S (Nat.div (List.length l) 1000)) 1000 l.
