(** Outcome of running modelled Rust code: a value, an error of kind [E] (Rust `Err`),
    a panic (index out of bounds, arithmetic overflow, `unwrap` on `None`, ...), or the
    model's explicit fuel ran out (which theorems then show never happens). *)
Set Implicit Arguments.

Inductive outcome (E A : Type) : Type :=
| Ok (a : A)
| Err (e : E)
| Panic
| OutOfFuel.

Arguments Ok {E A} a.
Arguments Err {E A} e.
Arguments Panic {E A}.
Arguments OutOfFuel {E A}.

Definition obind {E A B : Type} (x : outcome E A) (f : A -> outcome E B) : outcome E B :=
  match x with
  | Ok a => f a
  | Err e => Err e
  | Panic => Panic
  | OutOfFuel => OutOfFuel
  end.

Definition omap {E A B : Type} (f : A -> B) (x : outcome E A) : outcome E B :=
  obind x (fun a => Ok (f a)).

Definition is_ok {E A : Type} (x : outcome E A) : bool :=
  match x with Ok _ => true | _ => false end.
Definition is_err {E A : Type} (x : outcome E A) : bool :=
  match x with Err _ => true | _ => false end.
Definition is_panic {E A : Type} (x : outcome E A) : bool :=
  match x with Panic => true | _ => false end.

Declare Scope outcome_scope.
Delimit Scope outcome_scope with outcome.
Notation "'let?' x ':=' e 'in' k" := (obind e (fun x => k))
  (at level 200, x pattern, e at level 100, k at level 200, right associativity) : outcome_scope.
