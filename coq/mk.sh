#!/bin/sh
# Regenerate _CoqProject and Makefile from the .v files present. Usage: ./mk.sh
cd "$(dirname "$0")"
{ echo "-Q . L21"; echo "-arg -w -arg -notation-overridden,-deprecated-hint-without-locality,-deprecated-instance-without-locality"; find . -name '*.v' ! -path './work/*' | sed 's|^\./||' | LC_ALL=C sort; } > _CoqProject.new
if ! cmp -s _CoqProject.new _CoqProject 2>/dev/null; then mv _CoqProject.new _CoqProject; coq_makefile -f _CoqProject -o Makefile >/dev/null; else rm _CoqProject.new; [ -f Makefile ] || coq_makefile -f _CoqProject -o Makefile >/dev/null; fi
