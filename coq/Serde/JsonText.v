(** C18, layer 2 (JSON text).  Executable model of the text that
    [serde_json::to_string_pretty] (serde_json 1.0.151, ser.rs: [PrettyFormatter],
    [format_escaped_str], itoa integers) produces for a value of the serde data model
    ([sval], Serde/SerdeGeneric.v), of [serde_json::from_slice]/[from_reader]/[from_str]
    reading such text back through [deserialize_any] (de.rs, read.rs), and of
    [textwrap::dedent] (textwrap 0.14.2, indentation.rs), which
    [layout21utils::SerializationFormat::from_str] applies before parsing.

    Strings are Coq [string]s = byte sequences (UTF-8 in Rust).  What is NOT modelled is the
    conversion between an f64 and its decimal token (ryu on the way out, serde_json's
    lexical/float path on the way in): both are arguments ([fmt_f64], [parse_f64]).

    Transcription notes (each checked against the source, and by the correspondence run):
    - ser.rs [serialize_f64]: NaN and infinities are written as [null];
    - ser.rs [ESCAPE] table: only bytes < 0x20, the quote and the backslash are escaped; 0x7f and
      every byte >= 0x80 are copied;
    - de.rs [parse_integer]/[parse_number]: an integer token that does not fit u64 (positive)
      or i64 (negative), and the token [-0], become an f64; a leading zero followed by a
      digit is an error;
    - de.rs [check_recursion!]: [remaining_depth] starts at 128 and is decremented on every
      [[] and [{]; reaching 0 is the error RecursionLimitExceeded, so at most 127 nested containers;
    - read.rs [parse_str_bytes]: a raw byte < 0x20 inside a string is an error; [\uXXXX]: a lone
      trailing surrogate, or a leading surrogate not followed by [\uDC00..\uDFFF], is an error;
      the bytes of a string must be valid UTF-8 ([IoRead]/[SliceRead] check with
      [str::from_utf8]; [StrRead] gets the guarantee from its [&str] input);
    - [deserialize_any] keeps every key of an object, in order (what a visitor does with a
      duplicate is layer 1's business);
    - all syntax errors are collapsed into one error outcome.
    No proofs in this file (they are in Serde/JsonText_proofs.v); the model is compared with the implementation by
    the checks of Serde/JsonTextCheck.v on every run (tools/props/c18.py, json_text_leg). *)
From Coq Require Import ZArith NArith Bool List String Ascii.
From L21 Require Import Serde.SerdeGeneric.
Import ListNotations.
Local Open Scope string_scope.
Local Open Scope N_scope.

Definition code (c : ascii) : N := N_of_ascii c.
Definition chr (n : N) : ascii := ascii_of_N n.
Definition str1 (c : ascii) : string := String c EmptyString.
Definition nl : string := str1 (chr 10).

(** * f64 bit patterns *)
Definition f64_finiteb (b : Z) : bool :=
  ((0 <=? b) && (b <? 18446744073709551616) && negb ((b / 4503599627370496) mod 2048 =? 2047))%Z.
Definition wf_f64 (b : Z) : Prop := f64_finiteb b = true.

(** * Printer *)

(** ser.rs [format_escaped_str_contents] + [write_char_escape] *)
Definition hexdig (n : N) : ascii := if n <? 10 then chr (48 + n) else chr (87 + n).
Definition esc2 (e : N) : string := String (chr 92) (str1 (chr e)).
Definition escape_byte (c : ascii) : string :=
  let n := code c in
  if n =? 34 then esc2 34                 (* backslash, quote *)
  else if n =? 92 then esc2 92            (* backslash, backslash *)
  else if n =? 8 then esc2 98             (* \b *)
  else if n =? 9 then esc2 116            (* \t *)
  else if n =? 10 then esc2 110           (* \n *)
  else if n =? 12 then esc2 102           (* \f *)
  else if n =? 13 then esc2 114           (* \r *)
  else if n <? 32 then
    String (chr 92) (String (chr 117) (String (chr 48) (String (chr 48)
      (String (hexdig (n / 16)) (str1 (hexdig (n mod 16)))))))
  else str1 c.
Fixpoint escape_str (s : string) : string :=
  match s with
  | EmptyString => EmptyString
  | String c r => escape_byte c ++ escape_str r
  end.
Definition quote : string := str1 (chr 34).
Definition print_string (s : string) : string := quote ++ escape_str s ++ quote.

(** itoa: decimal digits, most significant first, no leading zero *)
Fixpoint print_digits (fuel : nat) (n : N) (acc : string) : string :=
  match fuel with
  | O => acc
  | S f =>
      let acc' := String (chr (48 + n mod 10)) acc in
      if n <? 10 then acc' else print_digits f (n / 10) acc'
  end.
(** the fuel is the bit length, which is at least the number of decimal digits *)
Definition print_N (n : N) : string := print_digits (S (N.to_nat (N.size n))) n EmptyString.
Definition print_int (z : Z) : string :=
  if (z <? 0)%Z then String (chr 45) (print_N (Z.to_N (- z))) else print_N (Z.to_N z).

Fixpoint indent (n : nat) : string :=
  match n with O => EmptyString | S k => "  " ++ indent k end.

Section Items.
  Variable A : Type.
  Variable pv : A -> string.
  Variable ind : nat.
  (** [begin_array_value]/[begin_object_key]: newline (after a comma unless first), then the indent *)
  Fixpoint print_items (first : bool) (l : list A) : string :=
    match l with
    | [] => EmptyString
    | x :: l' => (if first then nl else "," ++ nl) ++ indent ind ++ pv x ++ print_items false l'
    end.
End Items.

Section Print.
  Variable fmt_f64 : Z -> string.    (* bit pattern -> shortest round-trip decimal token (ryu) *)

  Definition print_f64 (b : Z) : string := if f64_finiteb b then fmt_f64 b else "null".

  Fixpoint print_val (ind : nat) (v : sval) {struct v} : string :=
    match v with
    | SNull => "null"
    | SBool b => if b then "true" else "false"
    | SInt z => print_int z
    | SF64 b => print_f64 b
    | SStr s => print_string s
    | SSeq l =>
        match l with
        | [] => "[]"
        | _ => "[" ++ print_items sval (print_val (S ind)) (S ind) true l ++ nl ++ indent ind ++ "]"
        end
    | SMap l =>
        match l with
        | [] => "{}"
        | _ => "{" ++ print_items (string * sval)
                        (fun kv => let '(k, x) := kv in print_string k ++ ": " ++ print_val (S ind) x)
                        (S ind) true l ++ nl ++ indent ind ++ "}"
        end
    end.

  Definition json_print (v : sval) : string := print_val 0 v.
End Print.

(** * Parser *)

Definition is_ws (c : ascii) : bool :=
  let n := code c in (n =? 32) || (n =? 9) || (n =? 10) || (n =? 13).
Fixpoint skip_ws (s : string) : string :=
  match s with
  | String c r => if is_ws c then skip_ws r else s
  | EmptyString => EmptyString
  end.

Definition is_digit (c : ascii) : bool := let n := code c in (48 <=? n) && (n <=? 57).
Definition is_float_char (c : ascii) : bool :=
  let n := code c in (n =? 46) || (n =? 101) || (n =? 69).                  (* . e E *)
Definition is_num_char (c : ascii) : bool :=
  let n := code c in is_digit c || (n =? 43) || (n =? 45) || is_float_char c.  (* 0-9 + - . e E *)

Fixpoint forallb_str (p : ascii -> bool) (s : string) : bool :=
  match s with EmptyString => true | String c r => p c && forallb_str p r end.
Fixpoint existsb_str (p : ascii -> bool) (s : string) : bool :=
  match s with EmptyString => false | String c r => p c || existsb_str p r end.

(** the number token: de.rs reads a number byte by byte; every byte it can accept is in
    [0-9 + - . e E], and no such byte can follow a complete number in valid JSON, so the
    maximal run of these bytes is the token (a malformed run is an error either way) *)
Fixpoint span_num (s : string) : string * string :=
  match s with
  | String c r => if is_num_char c then let (t, rest) := span_num r in (String c t, rest) else (EmptyString, s)
  | EmptyString => (EmptyString, EmptyString)
  end.

(** what the theorem assumes about the printed form of a finite double (hypothesis H2) *)
Definition float_tokenb (s : string) : bool :=
  match s with
  | EmptyString => false
  | String c _ => ((code c =? 45) || is_digit c) && forallb_str is_num_char s && existsb_str is_float_char s
  end.
Definition float_token (s : string) : Prop := float_tokenb s = true.

Fixpoint digits_acc (s : string) (acc : N) : option N :=
  match s with
  | EmptyString => Some acc
  | String c r => if is_digit c then digits_acc r (acc * 10 + (code c - 48)) else None
  end.
(** [parse_integer]: one digit at least; "0" may not be followed by another digit *)
Definition int_digits (s : string) : option N :=
  match s with
  | EmptyString => None
  | String c r =>
      if code c =? 48 then match r with EmptyString => Some 0 | _ => None end
      else digits_acc s 0
  end.

Section Number.
  Variable parse_f64 : string -> option Z.   (* number token -> bit pattern; None: malformed or out of range *)

  Definition as_f64 (tok : string) : option sval :=
    match parse_f64 tok with Some b => Some (SF64 b) | None => None end.

  Definition parse_number (tok : string) : option sval :=
    if existsb_str is_float_char tok then as_f64 tok
    else
      match tok with
      | EmptyString => None
      | String c r =>
          if code c =? 45 then
            match int_digits r with
            | None => None
            | Some n => if (0 <? n) && (n <=? 9223372036854775808) then Some (SInt (- Z.of_N n)%Z) else as_f64 tok
            end
          else
            match int_digits tok with
            | None => None
            | Some n => if n <? 18446744073709551616 then Some (SInt (Z.of_N n)) else as_f64 tok
            end
      end.
End Number.

(** str::from_utf8 (Unicode 15 table 3-7, well-formed byte sequences) *)
Definition cont (c : ascii) : bool := let n := code c in (128 <=? n) && (n <=? 191).
Definition in_range (lo hi : N) (c : ascii) : bool := let n := code c in (lo <=? n) && (n <=? hi).
Fixpoint utf8_validb (s : string) : bool :=
  match s with
  | EmptyString => true
  | String c0 r0 =>
      let a := code c0 in
      if a <? 128 then utf8_validb r0
      else if a <? 194 then false
      else if a <? 224 then
        match r0 with
        | String c1 r1 => cont c1 && utf8_validb r1
        | _ => false
        end
      else if a <? 240 then
        match r0 with
        | String c1 (String c2 r2) =>
            (if a =? 224 then in_range 160 191 c1 else if a =? 237 then in_range 128 159 c1 else cont c1)
            && cont c2 && utf8_validb r2
        | _ => false
        end
      else if a <? 245 then
        match r0 with
        | String c1 (String c2 (String c3 r3)) =>
            (if a =? 240 then in_range 144 191 c1 else if a =? 244 then in_range 128 143 c1 else cont c1)
            && cont c2 && cont c3 && utf8_validb r3
        | _ => false
        end
      else false
  end.
Definition utf8_valid (s : string) : Prop := utf8_validb s = true.

(** read.rs [push_wtf8_codepoint] *)
Definition utf8_encode (n : N) : string :=
  if n <? 128 then str1 (chr n)
  else if n <? 2048 then String (chr (192 + n / 64)) (str1 (chr (128 + n mod 64)))
  else if n <? 65536 then
    String (chr (224 + n / 4096)) (String (chr (128 + (n / 64) mod 64)) (str1 (chr (128 + n mod 64))))
  else
    String (chr (240 + (n / 262144) mod 8)) (String (chr (128 + (n / 4096) mod 64))
      (String (chr (128 + (n / 64) mod 64)) (str1 (chr (128 + n mod 64))))).

(** Unicode scalar values (everything a Rust [char] can be) and the UTF-8 bytes of a sequence of them *)
Definition scalar_value (n : N) : Prop := n < 1114112 /\ ~ (55296 <= n <= 57343).
Fixpoint utf8_of_scalars (l : list N) : string :=
  match l with [] => EmptyString | n :: r => utf8_encode n ++ utf8_of_scalars r end.

(** read.rs [decode_four_hex_digits] *)
Definition hexv (c : ascii) : option N :=
  let n := code c in
  if (48 <=? n) && (n <=? 57) then Some (n - 48)
  else if (65 <=? n) && (n <=? 70) then Some (n - 55)
  else if (97 <=? n) && (n <=? 102) then Some (n - 87)
  else None.
Definition hex4 (a b c d : ascii) : option N :=
  match hexv a, hexv b, hexv c, hexv d with
  | Some x, Some y, Some z, Some w => Some (((x * 16 + y) * 16 + z) * 16 + w)
  | _, _, _, _ => None
  end.

(** read.rs [parse_escape], the one-byte escapes *)
Definition simple_escape (e : N) : option ascii :=
  if e =? 34 then Some (chr 34) else if e =? 92 then Some (chr 92) else if e =? 47 then Some (chr 47)
  else if e =? 98 then Some (chr 8) else if e =? 102 then Some (chr 12) else if e =? 110 then Some (chr 10)
  else if e =? 114 then Some (chr 13) else if e =? 116 then Some (chr 9) else None.

Definition prepend (pre : string) (r : option (string * string)) : option (string * string) :=
  match r with Some (t, rest) => Some (pre ++ t, rest) | None => None end.

(** read.rs [parse_str_bytes] with validate = true, entered after the opening quote:
    the decoded bytes and the text after the closing quote *)
Fixpoint parse_str_body (s : string) : option (string * string) :=
  match s with
  | EmptyString => None
  | String c r =>
      let n := code c in
      if n =? 34 then Some (EmptyString, r)
      else if n =? 92 then
        match r with
        | EmptyString => None
        | String e r1 =>
            if code e =? 117 then
              match r1 with
              | String h1 (String h2 (String h3 (String h4 r2))) =>
                  match hex4 h1 h2 h3 h4 with
                  | None => None
                  | Some cp =>
                      if (56320 <=? cp) && (cp <=? 57343) then None         (* lone trailing surrogate *)
                      else if (55296 <=? cp) && (cp <=? 56319) then         (* leading surrogate *)
                        match r2 with
                        | String b1 (String b2 (String g1 (String g2 (String g3 (String g4 r3))))) =>
                            if (code b1 =? 92) && (code b2 =? 117) then
                              match hex4 g1 g2 g3 g4 with
                              | None => None
                              | Some lo =>
                                  if (56320 <=? lo) && (lo <=? 57343)
                                  then prepend (utf8_encode ((cp - 55296) * 1024 + (lo - 56320) + 65536)) (parse_str_body r3)
                                  else None
                              end
                            else None
                        | _ => None
                        end
                      else prepend (utf8_encode cp) (parse_str_body r2)
                  end
              | _ => None
              end
            else
              match simple_escape (code e) with
              | Some b => prepend (str1 b) (parse_str_body r1)
              | None => None
              end
        end
      else if n <? 32 then None
      else prepend (str1 c) (parse_str_body r)
  end.

(** the string token after its opening quote, checked to be UTF-8 *)
Definition parse_string (s : string) : option (string * string) :=
  match parse_str_body s with
  | Some (t, rest) => if utf8_validb t then Some (t, rest) else None
  | None => None
  end.

Fixpoint strip_prefix (p s : string) : option string :=
  match p, s with
  | EmptyString, _ => Some s
  | String a p', String b s' => if Ascii.eqb a b then strip_prefix p' s' else None
  | _, _ => None
  end.

Inductive pres (A : Type) : Type :=
| POk (a : A) (rest : string)
| PErr
| PFuel.
Arguments POk {A} a rest.
Arguments PErr {A}.
Arguments PFuel {A}.

Definition recursion_limit : nat := 128%nat.

Inductive jres : Type := JOk (v : sval) | JErr | JOutOfFuel.

Section Parse.
  Variable parse_f64 : string -> option Z.

  Definition parse_lit (lit : string) (v : sval) (s : string) : pres sval :=
    match strip_prefix lit s with Some r => POk v r | None => PErr end.

  (** de.rs [deserialize_any], [SeqAccess::next_element_seed] + [end_seq],
      [MapAccess::next_key_seed]/[next_value_seed] + [end_map].
      [depth] is [remaining_depth]; one unit of [fuel] per call. *)
  Fixpoint parse_value (fuel depth : nat) (s : string) {struct fuel} : pres sval :=
    match fuel with
    | O => PFuel
    | S f =>
        match skip_ws s with
        | EmptyString => PErr
        | String c r =>
            let n := code c in
            if n =? 110 then parse_lit "ull" SNull r
            else if n =? 116 then parse_lit "rue" (SBool true) r
            else if n =? 102 then parse_lit "alse" (SBool false) r
            else if (n =? 45) || is_digit c then
              let (tok, rest) := span_num (String c r) in
              match parse_number parse_f64 tok with Some v => POk v rest | None => PErr end
            else if n =? 34 then
              match parse_string r with Some (t, rest) => POk (SStr t) rest | None => PErr end
            else if n =? 91 then
              match depth with
              | S (S d) =>
                  match parse_seq f (S d) true r with
                  | POk l rest => POk (SSeq l) rest
                  | PErr => PErr
                  | PFuel => PFuel
                  end
              | _ => PErr
              end
            else if n =? 123 then
              match depth with
              | S (S d) =>
                  match parse_map f (S d) true r with
                  | POk l rest => POk (SMap l) rest
                  | PErr => PErr
                  | PFuel => PFuel
                  end
              | _ => PErr
              end
            else PErr
        end
    end
  with parse_seq (fuel depth : nat) (first : bool) (s : string) {struct fuel} : pres (list sval) :=
    match fuel with
    | O => PFuel
    | S f =>
        match skip_ws s with
        | EmptyString => PErr
        | String c r =>
            if code c =? 93 then POk [] r
            else
              let elem (t : string) : pres (list sval) :=
                match parse_value f depth t with
                | POk v rest =>
                    match parse_seq f depth false rest with
                    | POk l rest' => POk (v :: l) rest'
                    | PErr => PErr
                    | PFuel => PFuel
                    end
                | PErr => PErr
                | PFuel => PFuel
                end in
              if first then elem (String c r)
              else if code c =? 44 then
                match skip_ws r with
                | EmptyString => PErr
                | String c2 r2 => if code c2 =? 93 then PErr else elem (String c2 r2)
                end
              else PErr
        end
    end
  with parse_map (fuel depth : nat) (first : bool) (s : string) {struct fuel} : pres (list (string * sval)) :=
    match fuel with
    | O => PFuel
    | S f =>
        match skip_ws s with
        | EmptyString => PErr
        | String c r =>
            if code c =? 125 then POk [] r
            else
              (* [t]: the text after the opening quote of the key *)
              let entry (t : string) : pres (list (string * sval)) :=
                match parse_string t with
                | None => PErr
                | Some (k, t1) =>
                    match skip_ws t1 with
                    | EmptyString => PErr
                    | String c3 t2 =>
                        if code c3 =? 58 then
                          match parse_value f depth t2 with
                          | POk v rest =>
                              match parse_map f depth false rest with
                              | POk l rest' => POk ((k, v) :: l) rest'
                              | PErr => PErr
                              | PFuel => PFuel
                              end
                          | PErr => PErr
                          | PFuel => PFuel
                          end
                        else PErr
                    end
                end in
              if first then (if code c =? 34 then entry r else PErr)
              else if code c =? 44 then
                match skip_ws r with
                | EmptyString => PErr
                | String c2 r2 => if code c2 =? 34 then entry r2 else PErr
                end
              else PErr
        end
    end.

  (** [from_trait]: one value, then [Deserializer::end]: only whitespace may follow *)
  Definition json_parse (fuel : nat) (s : string) : jres :=
    match parse_value fuel recursion_limit s with
    | POk v rest => match skip_ws rest with EmptyString => JOk v | _ => JErr end
    | PErr => JErr
    | PFuel => JOutOfFuel
    end.

  (** fuel for a given text.  Every call consumes one unit; along any chain of nested calls at least one byte is
      consumed per two calls ([parse_value] on a bracket, then [parse_seq]/[parse_map], which hands the next byte
      to [parse_value] without consuming it), and the last call may meet the end of the text having consumed
      nothing: two units per byte and two more are enough for EVERY text, well-formed or not (for printed text one
      unit per byte is enough: JsonText_proofs.fuel_le_length).  [JOutOfFuel] is therefore never the outcome; the
      correspondence run counts it as a disagreement with the implementation if it ever is. *)
  Definition json_parse_text (s : string) : jres := json_parse (2 * String.length s + 2) s.
End Parse.

(** fuel that suffices to read back the printed form of [v] *)
Fixpoint sval_fuel (v : sval) : nat :=
  match v with
  | SSeq l => S (S (fold_right (fun x a => S (sval_fuel x + a)%nat) O l))
  | SMap l => S (S (fold_right (fun kx a => S (sval_fuel (snd kx) + a)%nat) O l))
  | _ => 1
  end.

(** nesting depth of containers *)
Fixpoint sval_depth (v : sval) : nat :=
  match v with
  | SSeq l => S (fold_right (fun x a => Nat.max (sval_depth x) a) O l)
  | SMap l => S (fold_right (fun kx a => Nat.max (sval_depth (snd kx)) a) O l)
  | _ => O
  end.

(** the values the round-trip theorem is about (decidable): integers that fit i64 or u64, finite doubles,
    strings and keys that are UTF-8 (every Rust [String] is), fewer than 128 nested containers *)
Definition int_in_rangeb (z : Z) : bool := ((- 9223372036854775808 <=? z) && (z <? 18446744073709551616))%Z.
Definition int_in_range (z : Z) : Prop := (- 9223372036854775808 <= z < 18446744073709551616)%Z.
Fixpoint sval_wfb (v : sval) : bool :=
  match v with
  | SInt z => int_in_rangeb z
  | SF64 b => f64_finiteb b
  | SStr s => utf8_validb s
  | SSeq l => forallb sval_wfb l
  | SMap l => forallb (fun kx => utf8_validb (fst kx) && sval_wfb (snd kx)) l
  | _ => true
  end.
Definition sval_okb (v : sval) : bool := sval_wfb v && (sval_depth v <? recursion_limit)%nat.
Definition sval_wf (v : sval) : Prop := sval_wfb v = true.
Definition sval_ok (v : sval) : Prop := sval_okb v = true.

(** the doubles that occur in a value *)
Fixpoint sval_floats (v : sval) : list Z :=
  match v with
  | SF64 b => [b]
  | SSeq l => flat_map sval_floats l
  | SMap l => flat_map (fun kx => sval_floats (snd kx)) l
  | _ => []
  end.

(** THE hypothesis of the text-layer theorems, about one double [b] and the (third-party) pair
    ryu printer [fmt] / serde_json number parser [parse]: the printed token is a JSON number with a
    fraction or an exponent (so that it is read as a float, not as an integer), and reading it gives [b] back *)
Definition float_pair_okb (fmt : Z -> string) (parse : string -> option Z) (b : Z) : bool :=
  float_tokenb (fmt b) && match parse (fmt b) with Some b' => (b' =? b)%Z | None => false end.
Definition float_pair_ok (fmt : Z -> string) (parse : string -> option Z) (b : Z) : Prop :=
  float_token (fmt b) /\ parse (fmt b) = Some b.

(** * textwrap::dedent (0.14.2) *)

(** pieces between line feeds: "a\nb" -> [a; b], "a\n" -> [a; ""], "" -> [""] *)
Fixpoint lines_raw (s : string) : list string :=
  match s with
  | EmptyString => [EmptyString]
  | String c r =>
      if code c =? 10 then EmptyString :: lines_raw r
      else match lines_raw r with
           | l :: ls => String c l :: ls
           | [] => [str1 c]
           end
  end.

Fixpoint strip_cr (s : string) : string :=
  match s with
  | EmptyString => EmptyString
  | String c EmptyString => if code c =? 13 then EmptyString else s
  | String c r => String c (strip_cr r)
  end.

(** core::str::lines (Rust 1.95): [split_inclusive('\n')], and from a piece that ended in a line feed
    that byte and then one carriage return are removed; no empty last piece *)
Fixpoint rust_lines_of (ls : list string) : list string :=
  match ls with
  | [] => []
  | [last] => match last with EmptyString => [] | _ => [last] end
  | l :: rest => strip_cr l :: rust_lines_of rest
  end.
Definition rust_lines (s : string) : list string := rust_lines_of (lines_raw s).

(** char::is_whitespace (Unicode White_Space) on the leading character of UTF-8 bytes: its byte length, or 0.
    U+0009-000D, U+0020, U+0085, U+00A0, U+1680, U+2000-200A, U+2028, U+2029, U+202F, U+205F, U+3000. *)
Definition ws_char_len (s : string) : nat :=
  match s with
  | EmptyString => 0%nat
  | String c0 r0 =>
      let a := code c0 in
      if ((9 <=? a) && (a <=? 13)) || (a =? 32) then 1%nat
      else if a =? 194 then
        match r0 with
        | String c1 _ => if (code c1 =? 133) || (code c1 =? 160) then 2%nat else 0%nat
        | _ => 0%nat
        end
      else if (a =? 225) || (a =? 226) || (a =? 227) then
        match r0 with
        | String c1 (String c2 _) =>
            let b := code c1 in
            let d := code c2 in
            if ((a =? 225) && (b =? 154) && (d =? 128))
               || ((a =? 226) && (b =? 128) && (((128 <=? d) && (d <=? 138)) || (d =? 168) || (d =? 169) || (d =? 175)))
               || ((a =? 226) && (b =? 129) && (d =? 159))
               || ((a =? 227) && (b =? 128) && (d =? 128))
            then 3%nat else 0%nat
        | _ => 0%nat
        end
      else 0%nat
  end.

Fixpoint drop (n : nat) (s : string) : string :=
  match n, s with
  | O, _ => s
  | S k, String _ r => drop k r
  | S _, EmptyString => EmptyString
  end.

(** byte index of the first non-whitespace character ([length] when there is none); the loop
    consumes at least one byte per step, so [length s] steps are enough *)
Fixpoint ws_idx_fuel (fuel : nat) (s : string) : nat :=
  match fuel with
  | O => O
  | S f => match ws_char_len s with
           | O => O
           | k => (k + ws_idx_fuel f (drop k s))%nat
           end
  end.
Definition ws_idx (s : string) : nat := ws_idx_fuel (String.length s) s.

(** byte length of the leading UTF-8 character, from its first byte *)
Definition char_len (s : string) : nat :=
  match s with
  | EmptyString => 0%nat
  | String c _ => let a := code c in
                  if a <? 192 then 1%nat else if a <? 224 then 2%nat else if a <? 240 then 3%nat else 4%nat
  end.
Definition first_char (s : string) : string := substring O (char_len s) s.

(** [line.char_indices().zip(prefix.chars())]: byte index in [line] of the first differing character;
    None when one of them is exhausted first *)
Fixpoint mismatch_idx (fuel : nat) (line pre : string) (idx : nat) : option nat :=
  match fuel with
  | O => None
  | S f =>
      match line, pre with
      | EmptyString, _ | _, EmptyString => None
      | _, _ =>
          let a := first_char line in
          let b := first_char pre in
          if String.eqb a b
          then mismatch_idx f (drop (String.length a) line) (drop (String.length b) pre) (idx + String.length a)%nat
          else Some idx
      end
  end.

(** second loop of dedent: possibly shorten the prefix (note: a whitespace-only line whose
    whitespace differs from the prefix shortens it too, as in the source) *)
Definition shorten (pre line : string) : string :=
  let widx := match mismatch_idx (String.length line) line pre O with
              | Some i => i
              | None => String.length line
              end in
  if (widx <? String.length line)%nat && (widx <? String.length pre)%nat then substring O widx line else pre.

(** first loop: the first line with a non-whitespace character gives the initial prefix *)
Fixpoint find_prefix (ls : list string) : string * list string :=
  match ls with
  | [] => (EmptyString, [])
  | l :: r => let w := ws_idx l in
              if (w <? String.length l)%nat then (substring O w l, r) else find_prefix r
  end.
Definition dedent_prefix (ls : list string) : string :=
  let (p, rest) := find_prefix ls in fold_left shorten rest p.

Fixpoint prefix_ofb (p s : string) : bool :=
  match p, s with
  | EmptyString, _ => true
  | String a p', String b s' => Ascii.eqb a b && prefix_ofb p' s'
  | _, _ => false
  end.

Definition dedent_line (pre line : string) : string :=
  if prefix_ofb pre line && (ws_idx line <? String.length line)%nat
  then drop (String.length pre) line ++ nl else nl.

Fixpoint ends_with_nl (s : string) : bool :=
  match s with
  | EmptyString => false
  | String c EmptyString => code c =? 10
  | String _ r => ends_with_nl r
  end.
Fixpoint remove_last (s : string) : string :=
  match s with
  | EmptyString => EmptyString
  | String _ EmptyString => EmptyString
  | String c r => String c (remove_last r)
  end.
Fixpoint concat_str (l : list string) : string :=
  match l with [] => EmptyString | x :: r => x ++ concat_str r end.

Definition dedent (s : string) : string :=
  let ls := rust_lines s in
  let p := dedent_prefix ls in
  let res := concat_str (map (dedent_line p) ls) in
  if ends_with_nl res && negb (ends_with_nl s) then remove_last res else res.

(** [SerializationFormat::Json.from_str] of layout21utils: dedent, then parse *)
Definition json_from_str (parse_f64 : string -> option Z) (fuel : nat) (s : string) : jres :=
  json_parse parse_f64 fuel (dedent s).
Definition json_from_str_text (parse_f64 : string -> option Z) (s : string) : jres :=
  json_parse_text parse_f64 (dedent s).

(** * Composition with layer 1: the typed helpers of layout21utils at the level of the models *)

(** [SerializationFormat::Json.to_string(&v)] for a value [v] of the Rust type of shape [t] *)
Definition json_to_string (fmt_f64 : Z -> string) (t : ty) (v : val) : string := json_print fmt_f64 (ser t v).
(** [SerializationFormat::Json.from_str::<T>(s)]: dedent, parse, derive(Deserialize) *)
Definition json_from_str_ty (parse_f64 : string -> option Z) (t : ty) (s : string) : option val :=
  match json_from_str_text parse_f64 s with JOk sv => de t sv | _ => None end.
(** [SerializationFormat::Json.open::<T>(file)] on a file holding [s]: from_reader, no dedent *)
Definition json_open_ty (parse_f64 : string -> option Z) (t : ty) (s : string) : option val :=
  match json_parse_text parse_f64 s with JOk sv => de t sv | _ => None end.

(** what JSON text can carry of a value: every string is UTF-8 (a Rust [String] always is) and every double is
    finite (serde_json writes NaN and the infinities as [null]) *)
Fixpoint val_textb (v : val) : bool :=
  match v with
  | VS s => utf8_validb s
  | VF b => f64_finiteb b
  | VSome x => val_textb x
  | VList l => forallb val_textb l
  | VVariant _ (Some x) => val_textb x
  | _ => true
  end.
(** the doubles that occur in a value *)
Fixpoint val_floats (v : val) : list Z :=
  match v with
  | VF b => [b]
  | VSome x => val_floats x
  | VList l => flat_map val_floats l
  | VVariant _ (Some x) => val_floats x
  | _ => []
  end.

(** what the text layer needs of a shape (decidable, re-checked on the generated shapes on every run): integer
    types within i64/u64, field and variant names UTF-8 *)
Fixpoint ty_textb (t : ty) : bool :=
  match t with
  | TInt lo hi => ((- 9223372036854775808 <=? lo) && (hi <? 18446744073709551616))%Z
  | TOption t' | TVec t' | TArray _ t' | TNewtype t' => ty_textb t'
  | TTuple ts => forallb ty_textb ts
  | TStruct fs =>
      (fix go (fs : list field) : bool :=
         match fs with
         | [] => true
         | Field sn _ _ _ t' :: fs' => utf8_validb sn && ty_textb t' && go fs'
         end) fs
  | TEnum vs =>
      (fix go (vs : list (string * option ty)) : bool :=
         match vs with
         | [] => true
         | (n, None) :: vs' => utf8_validb n && go vs'
         | (n, Some t') :: vs' => utf8_validb n && ty_textb t' && go vs'
         end) vs
  | _ => true
  end.
(** an upper bound of the container nesting of any serialised value of a shape *)
Fixpoint ty_depth (t : ty) : nat :=
  match t with
  | TOption t' | TNewtype t' => ty_depth t'
  | TVec t' | TArray _ t' => S (ty_depth t')
  | TTuple ts => S (fold_right (fun t' a => Nat.max (ty_depth t') a) O ts)
  | TStruct fs =>
      S ((fix go (fs : list field) : nat :=
            match fs with
            | [] => O
            | Field _ _ _ _ t' :: fs' => Nat.max (ty_depth t') (go fs')
            end) fs)
  | TEnum vs =>
      S ((fix go (vs : list (string * option ty)) : nat :=
            match vs with
            | [] => O
            | (_, None) :: vs' => go vs'
            | (_, Some t') :: vs' => Nat.max (ty_depth t') (go vs')
            end) vs)
  | _ => O
  end.
Definition ty_json_okb (t : ty) : bool := ty_textb t && (ty_depth t <? recursion_limit)%nat.

(** * A line-structure automaton (used to state what dedent needs of a text): every line is some
    spaces followed by a printable ASCII byte, there is no carriage return, and the text does not end in
    a line feed *)
Inductive lstate := LStart | LIn | LBad.
Definition lstep (st : lstate) (c : ascii) : lstate :=
  let n := code c in
  match st with
  | LBad => LBad
  | LStart => if n =? 32 then LStart else if (33 <=? n) && (n <=? 126) then LIn else LBad
  | LIn => if n =? 10 then LStart else if n =? 13 then LBad else LIn
  end.
Fixpoint lrun (st : lstate) (s : string) : lstate :=
  match s with EmptyString => st | String c r => lrun (lstep st c) r end.
