(** Proofs about the generic serde model (Serde/SerdeGeneric.v): the data-model round trip
    [de_ser] and the vacuity of the value-level side condition when a shape has no lossy
    field, [no_lossy_fields].  Used by Properties/C18.v. *)
From Coq Require Import ZArith Bool List String Lia.
From L21 Require Import Serde.SerdeGeneric.
Import ListNotations.
Local Open Scope Z_scope.

(** * Strong induction principles for the nested inductives *)
Definition on_field (P : ty -> Prop) (f : field) : Prop := P (f_ty f).
Definition on_variant (P : ty -> Prop) (nv : string * option ty) : Prop :=
  match snd nv with Some t => P t | None => True end.
Definition on_opt (P : val -> Prop) (p : option val) : Prop :=
  match p with Some x => P x | None => True end.

Section TyInd.
  Variable P : ty -> Prop.
  Hypothesis HBool : P TBool.
  Hypothesis HInt : forall lo hi, P (TInt lo hi).
  Hypothesis HF64 : P TF64.
  Hypothesis HStr : P TStr.
  Hypothesis HChar : P TChar.
  Hypothesis HDec : P TDec.
  Hypothesis HUnit : P TUnit.
  Hypothesis HOption : forall t, P t -> P (TOption t).
  Hypothesis HVec : forall t, P t -> P (TVec t).
  Hypothesis HArray : forall n t, P t -> P (TArray n t).
  Hypothesis HTuple : forall ts, Forall P ts -> P (TTuple ts).
  Hypothesis HNewtype : forall t, P t -> P (TNewtype t).
  Hypothesis HStruct : forall fs, Forall (on_field P) fs -> P (TStruct fs).
  Hypothesis HEnum : forall vs, Forall (on_variant P) vs -> P (TEnum vs).

  Fixpoint ty_ind' (t : ty) : P t :=
    match t with
    | TBool => HBool
    | TInt lo hi => HInt lo hi
    | TF64 => HF64
    | TStr => HStr
    | TChar => HChar
    | TDec => HDec
    | TUnit => HUnit
    | TOption t' => HOption t' (ty_ind' t')
    | TVec t' => HVec t' (ty_ind' t')
    | TArray n t' => HArray n t' (ty_ind' t')
    | TTuple ts =>
        HTuple ts
          ((fix go (ts : list ty) : Forall P ts :=
              match ts with
              | [] => Forall_nil _
              | t' :: ts' => Forall_cons _ (ty_ind' t') (go ts')
              end) ts)
    | TNewtype t' => HNewtype t' (ty_ind' t')
    | TStruct fs =>
        HStruct fs
          ((fix go (fs : list field) : Forall (on_field P) fs :=
              match fs with
              | [] => Forall_nil _
              | f :: fs' =>
                  @Forall_cons _ (on_field P) f fs'
                    (match f return on_field P f with Field _ _ _ _ t' => ty_ind' t' end)
                    (go fs')
              end) fs)
    | TEnum vs =>
        HEnum vs
          ((fix go (vs : list (string * option ty)) : Forall (on_variant P) vs :=
              match vs with
              | [] => Forall_nil _
              | nv :: vs' =>
                  @Forall_cons _ (on_variant P) nv vs'
                    (match nv return on_variant P nv with
                     | (_, Some t') => ty_ind' t'
                     | (_, None) => I
                     end)
                    (go vs')
              end) vs)
    end.
End TyInd.

Section ValInd.
  Variable P : val -> Prop.
  Hypothesis HNull : P VNull.
  Hypothesis HB : forall b, P (VB b).
  Hypothesis HI : forall z, P (VI z).
  Hypothesis HF : forall z, P (VF z).
  Hypothesis HS : forall s, P (VS s).
  Hypothesis HNone : P VNone.
  Hypothesis HSome : forall v, P v -> P (VSome v).
  Hypothesis HList : forall l, Forall P l -> P (VList l).
  Hypothesis HVariant : forall i p, on_opt P p -> P (VVariant i p).

  Fixpoint val_ind' (v : val) : P v :=
    match v with
    | VNull => HNull
    | VB b => HB b
    | VI z => HI z
    | VF z => HF z
    | VS s => HS s
    | VNone => HNone
    | VSome x => HSome x (val_ind' x)
    | VList l =>
        HList l
          ((fix go (l : list val) : Forall P l :=
              match l with
              | [] => Forall_nil _
              | x :: l' => Forall_cons _ (val_ind' x) (go l')
              end) l)
    | VVariant i p =>
        HVariant i p
          (match p return on_opt P p with
           | Some x => val_ind' x
           | None => I
           end)
    end.
End ValInd.

(** * [val_eqb] decides equality (soundness direction) *)
Definition val_list_eqb :=
  fix go (l m : list val) : bool :=
    match l, m with
    | [], [] => true
    | x :: l', y :: m' => val_eqb x y && go l' m'
    | _, _ => false
    end.

Lemma val_eqb_list : forall l m, val_eqb (VList l) (VList m) = val_list_eqb l m.
Proof. reflexivity. Qed.

Lemma val_eqb_eq : forall a b, val_eqb a b = true -> a = b.
Proof.
  induction a as [| | | | | |a IHa|l IHl|i p IHp] using val_ind';
    intros b0 E; destruct b0; simpl in E; try discriminate E.
  - reflexivity.
  - apply Bool.eqb_prop in E. congruence.
  - apply Z.eqb_eq in E. congruence.
  - apply Z.eqb_eq in E. congruence.
  - apply String.eqb_eq in E. congruence.
  - reflexivity.
  - f_equal. apply IHa. exact E.
  - f_equal. change (val_list_eqb l l0 = true) in E.
    revert l0 E. induction IHl as [|x l Hx Hl IH]; intros m E; destruct m; simpl in E;
      try discriminate E.
    + reflexivity.
    + apply andb_true_iff in E. destruct E as [E1 E2].
      f_equal; [apply Hx; exact E1 | apply IH; exact E2].
  - apply andb_true_iff in E. destruct E as [E1 E2].
    apply Nat.eqb_eq in E1. subst i0.
    destruct p as [x|]; destruct p0 as [y|]; try discriminate E2.
    + f_equal. f_equal. apply IHp. exact E2.
    + reflexivity.
Qed.

(** * Names for the local fixpoints of the model, with their unfolding equations *)
Definition wt_tuple :=
  fix go (ts : list ty) (l : list val) : bool :=
    match ts, l with
    | [], [] => true
    | t' :: ts', x :: l' => wt t' x && go ts' l'
    | _, _ => false
    end.

Definition wt_fields :=
  fix go (fs : list field) (l : list val) : bool :=
    match fs, l with
    | [], [] => true
    | Field _ _ _ _ t' :: fs', x :: l' => wt t' x && go fs' l'
    | _, _ => false
    end.

Definition wt_enum (p : option val) :=
  fix go (vs : list (string * option ty)) (i : nat) : bool :=
    match vs, i with
    | (_, None) :: _, O => match p with None => true | Some _ => false end
    | (_, Some t') :: _, O => match p with Some x => wt t' x | None => false end
    | _ :: vs', S i' => go vs' i'
    | [], _ => false
    end.

Lemma wt_tuple_eq : forall ts l, wt (TTuple ts) (VList l) = wt_tuple ts l.
Proof. reflexivity. Qed.
Lemma wt_fields_eq : forall fs l, wt (TStruct fs) (VList l) = wt_fields fs l.
Proof. reflexivity. Qed.
Lemma wt_enum_eq : forall vs i p, wt (TEnum vs) (VVariant i p) = wt_enum p vs i.
Proof. reflexivity. Qed.

Definition ser_tuple :=
  fix go (ts : list ty) (l : list val) : list sval :=
    match ts, l with
    | t' :: ts', x :: l' => ser t' x :: go ts' l'
    | _, _ => []
    end.

Definition ser_fields :=
  fix go (fs : list field) (l : list val) : list (string * sval) :=
    match fs, l with
    | Field sn _ k _ t' :: fs', x :: l' =>
        if skipped k x then go fs' l' else (sn, ser t' x) :: go fs' l'
    | _, _ => []
    end.

Definition ser_enum (p : option val) :=
  fix go (vs : list (string * option ty)) (i : nat) : sval :=
    match vs, i with
    | (name, None) :: _, O => SStr name
    | (name, Some t') :: _, O => match p with Some x => SMap [(name, ser t' x)] | None => SNull end
    | _ :: vs', S i' => go vs' i'
    | [], _ => SNull
    end.

Lemma ser_tuple_eq : forall ts l, ser (TTuple ts) (VList l) = SSeq (ser_tuple ts l).
Proof. reflexivity. Qed.
Lemma ser_fields_eq : forall fs l, ser (TStruct fs) (VList l) = SMap (ser_fields fs l).
Proof. reflexivity. Qed.
Lemma ser_enum_eq : forall vs i p, ser (TEnum vs) (VVariant i p) = ser_enum p vs i.
Proof. reflexivity. Qed.

Definition de_list (t' : ty) :=
  fix go (l : list sval) : option (list val) :=
    match l with
    | [] => Some []
    | x :: l' => match de t' x, go l' with Some y, Some r => Some (y :: r) | _, _ => None end
    end.

Definition de_tuple :=
  fix go (ts : list ty) (l : list sval) : option (list val) :=
    match ts, l with
    | [], [] => Some []
    | t' :: ts', x :: l' =>
        match de t' x, go ts' l' with Some y, Some r => Some (y :: r) | _, _ => None end
    | _, _ => None
    end.

Definition de_fields (m : list (string * sval)) :=
  fix go (fs : list field) : option (list val) :=
    match fs with
    | [] => Some []
    | Field _ dn _ dflt t' :: fs' =>
        let fv := match lookup dn m with
                  | Some sv => de t' sv
                  | None => if dflt then Some (default_val t')
                            else if is_option t' then Some VNone else None
                  end in
        match fv, go fs' with Some y, Some r => Some (y :: r) | _, _ => None end
    end.

Definition de_enum_unit (name : string) :=
  fix go (vs : list (string * option ty)) (i : nat) : option val :=
    match vs with
    | [] => None
    | (n, None) :: vs' => if String.eqb name n then Some (VVariant i None) else go vs' (S i)
    | (n, Some _) :: vs' => if String.eqb name n then None else go vs' (S i)
    end.

Definition de_enum_pay (name : string) (sv : sval) :=
  fix go (vs : list (string * option ty)) (i : nat) : option val :=
    match vs with
    | [] => None
    | (n, Some t') :: vs' =>
        if String.eqb name n then option_map (fun x => VVariant i (Some x)) (de t' sv)
        else go vs' (S i)
    | (n, None) :: vs' => if String.eqb name n then None else go vs' (S i)
    end.

Lemma de_vec_eq : forall t' l, de (TVec t') (SSeq l) = option_map VList (de_list t' l).
Proof. reflexivity. Qed.
Lemma de_array_eq : forall n t' l,
  de (TArray n t') (SSeq l) =
  if Nat.eqb (List.length l) n then option_map VList (de_list t' l) else None.
Proof. reflexivity. Qed.
Lemma de_tuple_eq : forall ts l, de (TTuple ts) (SSeq l) = option_map VList (de_tuple ts l).
Proof. reflexivity. Qed.
Lemma de_fields_eq : forall fs m, de (TStruct fs) (SMap m) = option_map VList (de_fields m fs).
Proof. reflexivity. Qed.
Lemma de_enum_unit_eq : forall vs name, de (TEnum vs) (SStr name) = de_enum_unit name vs O.
Proof. reflexivity. Qed.
Lemma de_enum_pay_eq : forall vs name sv,
  de (TEnum vs) (SMap [(name, sv)]) = de_enum_pay name sv vs O.
Proof. reflexivity. Qed.

Definition shape_fields :=
  fix go (fs : list field) : bool :=
    match fs with
    | [] => true
    | Field sn dn k dflt t' :: fs' =>
        String.eqb sn dn && skip_ok k dflt t' &&
        (match k with SkAlways => true | _ => shape_ok t' end) && go fs'
    end.

Definition shape_enum :=
  fix go (vs : list (string * option ty)) : bool :=
    match vs with
    | [] => true
    | (_, None) :: vs' => go vs'
    | (_, Some t') :: vs' => shape_ok t' && go vs'
    end.

Lemma shape_tuple_eq : forall ts, shape_ok (TTuple ts) = forallb shape_ok ts.
Proof. reflexivity. Qed.
Lemma shape_fields_eq : forall fs,
  shape_ok (TStruct fs) = nodupb (map f_de fs) && shape_fields fs.
Proof. reflexivity. Qed.
Lemma shape_enum_eq : forall vs, shape_ok (TEnum vs) = nodupb (map fst vs) && shape_enum vs.
Proof. reflexivity. Qed.

Definition sd_tuple :=
  fix go (ts : list ty) (l : list val) : bool :=
    match ts, l with
    | t' :: ts', x :: l' => skipped_default t' x && go ts' l'
    | _, _ => true
    end.

Definition sd_fields :=
  fix go (fs : list field) (l : list val) : bool :=
    match fs, l with
    | Field _ _ k _ t' :: fs', x :: l' =>
        (match k with SkAlways => val_eqb x (default_val t') | _ => skipped_default t' x end)
        && go fs' l'
    | _, _ => true
    end.

Definition sd_enum (x : val) :=
  fix go (vs : list (string * option ty)) (i : nat) : bool :=
    match vs, i with
    | (_, Some t') :: _, O => skipped_default t' x
    | _ :: vs', S i' => go vs' i'
    | _, _ => true
    end.

Lemma sd_tuple_eq : forall ts l, skipped_default (TTuple ts) (VList l) = sd_tuple ts l.
Proof. reflexivity. Qed.
Lemma sd_fields_eq : forall fs l, skipped_default (TStruct fs) (VList l) = sd_fields fs l.
Proof. reflexivity. Qed.
Lemma sd_enum_eq : forall vs i x,
  skipped_default (TEnum vs) (VVariant i (Some x)) = sd_enum x vs i.
Proof. reflexivity. Qed.

Definition lossy_fsl (pre : string) :=
  fix go (fs : list field) : list string :=
    match fs with
    | [] => []
    | Field sn _ k _ t' :: fs' =>
        (match k, t' with
         | SkAlways, TUnit => []
         | SkAlways, _ => [pre ++ "." ++ sn]
         | _, _ => lossy_fields (pre ++ "." ++ sn) t'
         end)%string ++ go fs'
    end.

Definition lossy_enum (pre : string) :=
  fix go (vs : list (string * option ty)) : list string :=
    match vs with
    | [] => []
    | (n, Some t') :: vs' => lossy_fields (pre ++ "/" ++ n)%string t' ++ go vs'
    | _ :: vs' => go vs'
    end.

Lemma lossy_tuple_eq : forall pre ts,
  lossy_fields pre (TTuple ts) = flat_map (lossy_fields pre) ts.
Proof. reflexivity. Qed.
Lemma lossy_fsl_eq : forall pre fs, lossy_fields pre (TStruct fs) = lossy_fsl pre fs.
Proof. reflexivity. Qed.
Lemma lossy_enum_eq : forall pre vs, lossy_fields pre (TEnum vs) = lossy_enum pre vs.
Proof. reflexivity. Qed.

(** * Association lists and duplicate-freeness *)
Lemma existsb_eqb_In : forall k l, existsb (String.eqb k) l = true <-> In k l.
Proof.
  intros k l. rewrite existsb_exists. split.
  - intros [x [Hx He]]. apply String.eqb_eq in He. subst x. exact Hx.
  - intros H. exists k. split; [exact H | apply String.eqb_refl].
Qed.

Lemma nodupb_cons : forall x l,
  nodupb (x :: l) = true -> ~ In x l /\ nodupb l = true.
Proof.
  intros x l H. simpl in H. apply andb_true_iff in H. destruct H as [H1 H2].
  split; [|exact H2]. intros Hin. apply existsb_eqb_In in Hin.
  rewrite Hin in H1. discriminate H1.
Qed.

Lemma lookup_none : forall k m, ~ In k (map fst m) -> lookup k m = None.
Proof.
  intros k m. induction m as [|[k' v] m IH]; intros H; simpl.
  - reflexivity.
  - destruct (String.eqb k k') eqn:E.
    + apply String.eqb_eq in E. subst k'. exfalso. apply H. left. reflexivity.
    + apply IH. intros Hin. apply H. right. exact Hin.
Qed.

Lemma lookup_app_none : forall k a b, ~ In k (map fst a) -> lookup k (a ++ b) = lookup k b.
Proof.
  intros k a b. induction a as [|[k' v] a IH]; intros H; simpl.
  - reflexivity.
  - destruct (String.eqb k k') eqn:E.
    + apply String.eqb_eq in E. subst k'. exfalso. apply H. left. reflexivity.
    + apply IH. intros Hin. apply H. right. exact Hin.
Qed.

(** * Sequences *)
Lemma de_list_map : forall t' l,
  (forall v, wt t' v = true -> skipped_default t' v = true -> de t' (ser t' v) = Some v) ->
  forallb (wt t') l = true -> forallb (skipped_default t') l = true ->
  de_list t' (map (ser t') l) = Some l.
Proof.
  intros t' l IH. induction l as [|x l IHl]; intros Hw Hd; simpl in *.
  - reflexivity.
  - apply andb_true_iff in Hw. destruct Hw as [Hw1 Hw2].
    apply andb_true_iff in Hd. destruct Hd as [Hd1 Hd2].
    rewrite (IH x Hw1 Hd1). rewrite (IHl Hw2 Hd2). reflexivity.
Qed.

Definition RT (t : ty) : Prop :=
  forall v, shape_ok t = true -> wt t v = true -> skipped_default t v = true ->
    de t (ser t v) = Some v.

Lemma de_tuple_ser : forall ts, Forall RT ts ->
  forall l, forallb shape_ok ts = true -> wt_tuple ts l = true -> sd_tuple ts l = true ->
    de_tuple ts (ser_tuple ts l) = Some l.
Proof.
  intros ts HF. induction HF as [|t' ts Ht HF IH]; intros l Hs Hw Hd;
    destruct l as [|x l]; simpl in *; try discriminate Hw.
  - reflexivity.
  - apply andb_true_iff in Hs. destruct Hs as [Hs1 Hs2].
    apply andb_true_iff in Hw. destruct Hw as [Hw1 Hw2].
    apply andb_true_iff in Hd. destruct Hd as [Hd1 Hd2].
    rewrite (Ht x Hs1 Hw1 Hd1). rewrite (IH l Hs2 Hw2 Hd2). reflexivity.
Qed.

(** * Option: a non-nullable type never serialises a well-typed value to null *)
Lemma wt_enum_ser_not_null : forall p vs i, wt_enum p vs i = true -> ser_enum p vs i <> SNull.
Proof.
  intros p vs. induction vs as [|[n o] vs IH]; intros i H.
  - destruct i; discriminate H.
  - destruct i as [|i]; destruct o as [t'|]; simpl in *.
    + destruct p; [discriminate | discriminate H].
    + discriminate.
    + apply IH. exact H.
    + apply IH. exact H.
Qed.

Lemma ser_not_null : forall t v, wt t v = true -> nullable t = false -> ser t v <> SNull.
Proof.
  induction t using ty_ind'; intros v Hw Hn; simpl in Hn; try discriminate Hn;
    try (destruct v; simpl in Hw; try discriminate Hw; simpl; discriminate).
  - (* TNewtype *) simpl in *. apply IHt; assumption.
  - (* TEnum *) destruct v; simpl in Hw; try discriminate Hw.
    rewrite ser_enum_eq. apply wt_enum_ser_not_null. exact Hw.
Qed.

(** * Structs *)
Lemma ser_fields_keys : forall fs l k,
  shape_fields fs = true -> In k (map fst (ser_fields fs l)) -> In k (map f_de fs).
Proof.
  induction fs as [|[sn dn sk dflt t'] fs IH]; intros l k Hs Hin.
  - destruct l; simpl in Hin; contradiction.
  - destruct l as [|x l]; [simpl in Hin; contradiction|].
    simpl in Hs.
    apply andb_true_iff in Hs. destruct Hs as [Hs Hs4].
    apply andb_true_iff in Hs. destruct Hs as [Hs Hs3].
    apply andb_true_iff in Hs. destruct Hs as [Hs1 Hs2].
    apply String.eqb_eq in Hs1. subst dn.
    simpl in Hin. simpl. destruct (skipped sk x).
    + right. eapply IH; eauto.
    + simpl in Hin. destruct Hin as [Hin|Hin]; [left; exact Hin | right; eapply IH; eauto].
Qed.

Lemma de_fields_cons : forall m sn dn k dflt t' fs',
  de_fields m (Field sn dn k dflt t' :: fs') =
  match (match lookup dn m with
         | Some sv => de t' sv
         | None => if dflt then Some (default_val t')
                   else if is_option t' then Some VNone else None
         end), de_fields m fs' with
  | Some y, Some r => Some (y :: r)
  | _, _ => None
  end.
Proof. reflexivity. Qed.

Lemma ser_fields_cons : forall sn dn k dflt t' fs' x l',
  ser_fields (Field sn dn k dflt t' :: fs') (x :: l') =
  if skipped k x then ser_fields fs' l' else (sn, ser t' x) :: ser_fields fs' l'.
Proof. reflexivity. Qed.

Lemma skipped_field_default : forall k dflt t' x,
  skip_ok k dflt t' = true -> skipped k x = true ->
  match k with SkAlways => val_eqb x (default_val t') | _ => skipped_default t' x end = true ->
  (if dflt then Some (default_val t') else if is_option t' then Some VNone else None) = Some x.
Proof.
  intros k dflt t' x Hok Hsk Hd. destruct k; simpl in Hok, Hsk.
  - discriminate Hsk.
  - destruct x; try discriminate Hsk. destruct t'; try discriminate Hok.
    destruct dflt; reflexivity.
  - destruct x as [| | | | | | |l|]; try discriminate Hsk. destruct l; try discriminate Hsk.
    apply andb_true_iff in Hok. destruct Hok as [Hdf Ht]. subst dflt.
    destruct t'; try discriminate Ht. reflexivity.
  - destruct x as [|b| | | | | | |]; try discriminate Hsk. destruct b; try discriminate Hsk.
    apply andb_true_iff in Hok. destruct Hok as [Hdf Ht]. subst dflt.
    destruct t'; try discriminate Ht. reflexivity.
  - subst dflt. apply val_eqb_eq in Hd. rewrite Hd. reflexivity.
Qed.

Lemma de_fields_ser : forall fs, Forall (on_field RT) fs ->
  forall l pre,
    nodupb (map f_de fs) = true -> shape_fields fs = true ->
    wt_fields fs l = true -> sd_fields fs l = true ->
    (forall k, In k (map f_de fs) -> ~ In k (map fst pre)) ->
    de_fields (pre ++ ser_fields fs l) fs = Some l.
Proof.
  intros fs HF. induction HF as [|[sn dn k dflt t'] fs Ht HF IH]; intros l pre Hnd Hs Hw Hd Hpre.
  - destruct l; [reflexivity | discriminate Hw].
  - destruct l as [|x l]; [discriminate Hw|].
    unfold on_field in Ht. simpl in Ht.
    simpl in Hnd. change (nodupb (dn :: map f_de fs) = true) in Hnd.
    apply nodupb_cons in Hnd. destruct Hnd as [Hnotin Hnd].
    simpl in Hs.
    apply andb_true_iff in Hs. destruct Hs as [Hs Hs4].
    apply andb_true_iff in Hs. destruct Hs as [Hs Hs3].
    apply andb_true_iff in Hs. destruct Hs as [Hs1 Hs2].
    apply String.eqb_eq in Hs1. subst sn.
    simpl in Hw. apply andb_true_iff in Hw. destruct Hw as [Hw1 Hw2].
    simpl in Hd. apply andb_true_iff in Hd. destruct Hd as [Hd1 Hd2].
    assert (Hpre_dn : ~ In dn (map fst pre)).
    { apply Hpre. simpl. left. reflexivity. }
    rewrite de_fields_cons, ser_fields_cons.
    destruct (skipped k x) eqn:Hsk.
    + (* the field was omitted: it is read back as its default *)
      rewrite lookup_app_none by exact Hpre_dn.
      rewrite lookup_none.
      2:{ intros Hin. apply Hnotin. eapply ser_fields_keys; eauto. }
      rewrite (skipped_field_default k dflt t' x Hs2 Hsk Hd1).
      rewrite (IH l pre Hnd Hs4 Hw2 Hd2).
      * reflexivity.
      * intros k0 Hk0. apply Hpre. simpl. right. exact Hk0.
    + (* the field was written: lookup finds its own entry *)
      rewrite lookup_app_none by exact Hpre_dn.
      simpl lookup. rewrite String.eqb_refl.
      assert (Hk : k <> SkAlways) by (intros ->; discriminate Hsk).
      assert (Hs3' : shape_ok t' = true) by (destruct k; try exact Hs3; congruence).
      assert (Hd1' : skipped_default t' x = true) by (destruct k; try exact Hd1; congruence).
      rewrite (Ht x Hs3' Hw1 Hd1').
      replace (pre ++ (dn, ser t' x) :: ser_fields fs l)
        with ((pre ++ [(dn, ser t' x)]) ++ ser_fields fs l)
        by (rewrite <- app_assoc; reflexivity).
      rewrite (IH l (pre ++ [(dn, ser t' x)]) Hnd Hs4 Hw2 Hd2).
      * reflexivity.
      * intros k0 Hk0 Hin. rewrite map_app in Hin. apply in_app_or in Hin.
        destruct Hin as [Hin|Hin].
        -- apply (Hpre k0); [simpl; right; exact Hk0 | exact Hin].
        -- simpl in Hin. destruct Hin as [Hin|[]]. subst k0. apply Hnotin. exact Hk0.
Qed.

(** * Enums *)
Lemma enum_unit : forall vs i k,
  nodupb (map fst vs) = true -> wt_enum None vs i = true ->
  exists name, In name (map fst vs) /\ ser_enum None vs i = SStr name /\
               de_enum_unit name vs k = Some (VVariant (i + k) None).
Proof.
  induction vs as [|[n o] vs IH]; intros i k Hnd Hw.
  - destruct i; discriminate Hw.
  - change (nodupb (n :: map fst vs) = true) in Hnd.
    apply nodupb_cons in Hnd. destruct Hnd as [Hnotin Hnd].
    destruct i as [|i].
    + destruct o as [t'|]; simpl in Hw; [discriminate Hw|].
      exists n. split; [left; reflexivity|]. split; [reflexivity|].
      simpl. rewrite String.eqb_refl. reflexivity.
    + assert (Hw' : wt_enum None vs i = true) by (destruct o; exact Hw).
      destruct (IH i (S k) Hnd Hw') as [name [Hin [Hser Hde]]].
      exists name. split; [right; exact Hin|].
      split; [destruct o; exact Hser|].
      assert (E : String.eqb name n = false).
      { apply String.eqb_neq. intros ->. apply Hnotin. exact Hin. }
      replace (S i + k)%nat with (i + S k)%nat by lia.
      destruct o; simpl; rewrite E; exact Hde.
Qed.

Lemma enum_pay : forall vs,
  Forall (on_variant RT) vs ->
  forall i k x,
    nodupb (map fst vs) = true -> shape_enum vs = true ->
    wt_enum (Some x) vs i = true -> sd_enum x vs i = true ->
    exists name sv, In name (map fst vs) /\ ser_enum (Some x) vs i = SMap [(name, sv)] /\
                    de_enum_pay name sv vs k = Some (VVariant (i + k) (Some x)).
Proof.
  intros vs HF. induction HF as [|[n o] vs Ht HF IH]; intros i k x Hnd Hs Hw Hd.
  - destruct i; discriminate Hw.
  - change (nodupb (n :: map fst vs) = true) in Hnd.
    apply nodupb_cons in Hnd. destruct Hnd as [Hnotin Hnd].
    destruct i as [|i].
    + destruct o as [t'|]; simpl in Hw; [|discriminate Hw].
      unfold on_variant in Ht. simpl in Ht, Hs, Hd.
      apply andb_true_iff in Hs. destruct Hs as [Hs1 Hs2].
      exists n, (ser t' x). split; [left; reflexivity|]. split; [reflexivity|].
      simpl. rewrite String.eqb_refl. rewrite (Ht x Hs1 Hw Hd). reflexivity.
    + assert (Hw' : wt_enum (Some x) vs i = true) by (destruct o; exact Hw).
      assert (Hd' : sd_enum x vs i = true) by (destruct o; exact Hd).
      assert (Hs' : shape_enum vs = true).
      { destruct o; simpl in Hs; [apply andb_true_iff in Hs; tauto | exact Hs]. }
      destruct (IH i (S k) x Hnd Hs' Hw' Hd') as [name [sv [Hin [Hser Hde]]]].
      exists name, sv. split; [right; exact Hin|].
      split; [destruct o; exact Hser|].
      assert (E : String.eqb name n = false).
      { apply String.eqb_neq. intros ->. apply Hnotin. exact Hin. }
      replace (S i + k)%nat with (i + S k)%nat by lia.
      destruct o; simpl; rewrite E; exact Hde.
Qed.

(** * Round trip *)
Lemma de_ser_RT : forall t, RT t.
Proof.
  induction t using ty_ind'; intros v Hs Hw Hd.
  - (* TBool *) destruct v; simpl in Hw; try discriminate Hw. reflexivity.
  - (* TInt *) destruct v; simpl in Hw; try discriminate Hw. simpl. rewrite Hw. reflexivity.
  - (* TF64 *) destruct v; simpl in Hw; try discriminate Hw. reflexivity.
  - (* TStr *) destruct v; simpl in Hw; try discriminate Hw. reflexivity.
  - (* TChar *) destruct v; simpl in Hw; try discriminate Hw. reflexivity.
  - (* TDec *) destruct v; simpl in Hw; try discriminate Hw. reflexivity.
  - (* TUnit *) destruct v; simpl in Hw; try discriminate Hw. reflexivity.
  - (* TOption *)
    destruct v; simpl in Hw; try discriminate Hw.
    + reflexivity.
    + simpl in Hs, Hd. apply andb_true_iff in Hd. destruct Hd as [Hn Hd].
      apply negb_true_iff in Hn.
      pose proof (IHt v Hs Hw Hd) as Hrt.
      pose proof (ser_not_null t v Hw Hn) as Hnn.
      simpl. destruct (ser t v); try (rewrite Hrt; reflexivity).
      exfalso. apply Hnn. reflexivity.
  - (* TVec *)
    destruct v; simpl in Hw; try discriminate Hw.
    simpl in Hs, Hd. simpl ser. rewrite de_vec_eq.
    rewrite de_list_map; [reflexivity | | exact Hw | exact Hd].
    intros x Hx1 Hx2. apply IHt; assumption.
  - (* TArray *)
    destruct v; simpl in Hw; try discriminate Hw.
    simpl in Hs, Hd. apply andb_true_iff in Hw. destruct Hw as [Hlen Hw].
    simpl ser. rewrite de_array_eq. rewrite map_length. rewrite Hlen.
    rewrite de_list_map; [reflexivity | | exact Hw | exact Hd].
    intros x Hx1 Hx2. apply IHt; assumption.
  - (* TTuple *)
    destruct v; try (simpl in Hw; discriminate Hw).
    rewrite wt_tuple_eq in Hw. rewrite sd_tuple_eq in Hd. rewrite shape_tuple_eq in Hs.
    rewrite ser_tuple_eq, de_tuple_eq.
    rewrite (de_tuple_ser ts H l Hs Hw Hd). reflexivity.
  - (* TNewtype *)
    simpl in *. apply IHt; assumption.
  - (* TStruct *)
    destruct v; try (simpl in Hw; discriminate Hw).
    rewrite wt_fields_eq in Hw. rewrite sd_fields_eq in Hd. rewrite shape_fields_eq in Hs.
    apply andb_true_iff in Hs. destruct Hs as [Hnd Hs].
    rewrite ser_fields_eq, de_fields_eq.
    change (ser_fields fs l) with ([] ++ ser_fields fs l).
    rewrite (de_fields_ser fs H l [] Hnd Hs Hw Hd); [reflexivity|].
    intros k _ [].
  - (* TEnum *)
    destruct v; try (simpl in Hw; discriminate Hw).
    rewrite wt_enum_eq in Hw. rewrite shape_enum_eq in Hs.
    apply andb_true_iff in Hs. destruct Hs as [Hnd Hs].
    rewrite ser_enum_eq. destruct p as [x|].
    + rewrite sd_enum_eq in Hd.
      destruct (enum_pay vs H i O x Hnd Hs Hw Hd) as [name [sv [_ [Hser Hde]]]].
      rewrite Hser, de_enum_pay_eq, Hde. rewrite Nat.add_0_r. reflexivity.
    + destruct (enum_unit vs i O Hnd Hw) as [name [_ [Hser Hde]]].
      rewrite Hser, de_enum_unit_eq, Hde. rewrite Nat.add_0_r. reflexivity.
Qed.

Lemma de_ser : forall t v,
  shape_ok t = true -> wt t v = true -> skipped_default t v = true ->
  de t (ser t v) = Some v.
Proof. intros t v. apply de_ser_RT. Qed.

(** * No lossy field: the value-level condition is vacuous *)
Definition NL (t : ty) : Prop :=
  forall pre v, lossy_fields pre t = [] -> wt t v = true -> skipped_default t v = true.

Lemma nl_tuple : forall ts, Forall NL ts ->
  forall pre l, flat_map (lossy_fields pre) ts = [] -> wt_tuple ts l = true ->
    sd_tuple ts l = true.
Proof.
  intros ts HF. induction HF as [|t' ts Ht HF IH]; intros pre l Hl Hw;
    destruct l as [|x l]; simpl in *; try discriminate Hw; try reflexivity.
  apply app_eq_nil in Hl. destruct Hl as [Hl1 Hl2].
  apply andb_true_iff in Hw. destruct Hw as [Hw1 Hw2].
  rewrite (Ht pre x Hl1 Hw1). rewrite (IH pre l Hl2 Hw2). reflexivity.
Qed.

Lemma nl_fields : forall fs, Forall (on_field NL) fs ->
  forall pre l, lossy_fsl pre fs = [] -> wt_fields fs l = true -> sd_fields fs l = true.
Proof.
  intros fs HF. induction HF as [|[sn dn k dflt t'] fs Ht HF IH]; intros pre l Hl Hw;
    destruct l as [|x l]; try discriminate Hw; try reflexivity.
  unfold on_field in Ht. simpl in Ht. simpl in Hl. apply app_eq_nil in Hl. destruct Hl as [Hl1 Hl2].
  simpl in Hw. apply andb_true_iff in Hw. destruct Hw as [Hw1 Hw2].
  simpl. rewrite (IH pre l Hl2 Hw2). rewrite andb_true_r.
  destruct k; try (eapply Ht; [exact Hl1 | exact Hw1]).
  destruct t'; try discriminate Hl1.
  destruct x; simpl in Hw1; try discriminate Hw1. reflexivity.
Qed.

Lemma nl_enum : forall vs,
  Forall (on_variant NL) vs ->
  forall pre i x, lossy_enum pre vs = [] -> wt_enum (Some x) vs i = true ->
    sd_enum x vs i = true.
Proof.
  intros vs HF. induction HF as [|[n o] vs Ht HF IH]; intros pre i x Hl Hw.
  - destruct i; reflexivity.
  - unfold on_variant in Ht. destruct o as [t'|]; destruct i as [|i]; simpl in *.
    + apply app_eq_nil in Hl. destruct Hl as [Hl1 Hl2]. eapply Ht; eauto.
    + apply app_eq_nil in Hl. destruct Hl as [Hl1 Hl2]. eapply IH; eauto.
    + reflexivity.
    + eapply IH; eauto.
Qed.

Lemma no_lossy_NL : forall t, NL t.
Proof.
  induction t using ty_ind'; intros pre v Hl Hw;
    try (destruct v; reflexivity).
  - (* TOption *)
    destruct v; try reflexivity. simpl in *.
    apply app_eq_nil in Hl. destruct Hl as [Hl1 Hl2].
    destruct (nullable t); [discriminate Hl1|]. simpl.
    eapply IHt; eauto.
  - (* TVec *)
    destruct v; try reflexivity. simpl in *.
    rewrite forallb_forall in *. intros x Hx. eapply IHt; eauto.
  - (* TArray *)
    destruct v; try reflexivity. simpl in *.
    apply andb_true_iff in Hw. destruct Hw as [_ Hw].
    rewrite forallb_forall in *. intros x Hx. eapply IHt; eauto.
  - (* TTuple *)
    destruct v; try reflexivity.
    rewrite sd_tuple_eq. rewrite wt_tuple_eq in Hw. rewrite lossy_tuple_eq in Hl.
    eapply nl_tuple; eauto.
  - (* TNewtype *)
    simpl in *. eapply IHt; eauto.
  - (* TStruct *)
    destruct v; try reflexivity.
    rewrite sd_fields_eq. rewrite wt_fields_eq in Hw. rewrite lossy_fsl_eq in Hl.
    eapply nl_fields; eauto.
  - (* TEnum *)
    destruct v; try reflexivity. destruct p as [x|]; [|reflexivity].
    rewrite sd_enum_eq. rewrite wt_enum_eq in Hw. rewrite lossy_enum_eq in Hl.
    eapply nl_enum; eauto.
Qed.

Lemma no_lossy_fields : forall pre t v,
  lossy_fields pre t = [] -> wt t v = true -> skipped_default t v = true.
Proof. intros pre t v. apply no_lossy_NL. Qed.
