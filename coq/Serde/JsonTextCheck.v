(** Executable checks for the JSON-text leg of the C18 correspondence run (tools/props/c18.py, harness op
    "jsonlayer").  The float oracles of the model are tables taken from the implementation for the case at hand:
    [ft] = (bits, token serde_json/ryu printed), [pt] = (token, bits serde_json read).  No proofs. *)
From Coq Require Import ZArith NArith Bool List String Ascii Uint63.
From L21 Require Import Serde.SerdeGeneric Serde.SerdeCheck Serde.JsonText.
Import ListNotations.
Local Open Scope Z_scope.

Fixpoint tab_fmt (t : list (Z * string)) (b : Z) : string :=
  match t with
  | [] => "?"%string
  | (b', tok) :: r => if b =? b' then tok else tab_fmt r b
  end.
Fixpoint tab_parse (t : list (string * Z)) (tok : string) : option Z :=
  match t with
  | [] => None
  | (tok', b) :: r => if String.eqb tok tok' then Some b else tab_parse r tok
  end.

(** a long text given in pieces of hex *)
Definition hsl (l : list string) : string := concat_str (map hs l).

(** a text of [n] bytes given as primitive integers of 7 bytes each, big-endian (the last one holds the remaining
    1..7 bytes): a literal of this form costs coqc a twentieth of the time a string literal does *)
Fixpoint bytes_of (k : nat) (z : Z) (acc : string) : string :=
  match k with
  | O => acc
  | S k' => bytes_of k' (z / 256) (String (ascii_of_N (Z.to_N (z mod 256))) acc)
  end.
Fixpoint us_nat (n : nat) (l : list int) : string :=
  match l with
  | [] => EmptyString
  | [x] => bytes_of n (Uint63.to_Z x) EmptyString
  | x :: r => bytes_of 7 (Uint63.to_Z x) (us_nat (n - 7) r)
  end.
Definition us (n : Z) (l : list int) : string := us_nat (Z.to_nat n) l.

(** model outcome against the implementation's (None = an error) *)
Definition jeq (r : jres) (o : option sval) : bool :=
  match r, o with
  | JOk a, Some b => sval_eqb a b
  | JErr, None => true
  | _, _ => false
  end.
Definition oeq (o : option sval) (v : sval) : bool :=
  match o with Some a => sval_eqb a v | None => false end.

(** [sv]: the data-model value that was printed; [impl_text]: SerializationFormat::Json.to_string;
    [impl_str]: SerializationFormat::Json.from_str of that text (dedent + from_str);
    [impl_open]: SerializationFormat::Json.open of the saved file (from_reader).
    codes: 0 text, both readings equal the model's and (the text layer is lossless or [sv] is outside the theorem's domain);
           1 lossless, but the model differs from the implementation somewhere (or both fail outside the domain, differently);
           2 the text layer is NOT lossless on a value inside the theorem's domain *)
Definition json_layer_check (ft : list (Z * string)) (pt : list (string * Z)) (sv : sval)
    (impl_text : string) (impl_str impl_open : option sval) : Z :=
  let same := String.eqb (json_print (tab_fmt ft) sv) impl_text in
  let m_open := json_parse_text (tab_parse pt) impl_text in
  let m_str := json_from_str_text (tab_parse pt) impl_text in
  let model_eq := same && jeq m_open impl_open && jeq m_str impl_str in
  let lossless := oeq impl_str sv && oeq impl_open sv in
  if lossless then (if model_eq then 0 else 1)
  else if sval_okb sv then 2
  else if model_eq then 0 else 1.

Definition json_lib_check (t : ty) (v : val) (ft : list (Z * string)) (pt : list (string * Z))
    (impl_text : string) (impl_str impl_open : option sval) : Z :=
  if negb (wt t v) then 4 else json_layer_check ft pt (ser t v) impl_text impl_str impl_open.

(** a given text (possibly not JSON, possibly not UTF-8: then from_str was not run): parser against parser *)
Definition json_parse_check (pt : list (string * Z)) (text : string) (str_run : bool)
    (impl_str impl_open : option sval) : Z :=
  if jeq (json_parse_text (tab_parse pt) text) impl_open
     && (negb str_run || jeq (json_from_str_text (tab_parse pt) text) impl_str)
  then 0 else 1.

(** textwrap::dedent observed through a TOML document [doc] = <indent>x = '''<LF>...''' : the value read for x *)
Definition dedent_check (doc xval : string) : Z :=
  match strip_prefix ("x = '''" ++ nl ++ xval ++ "'''")%string (skip_ws (dedent doc)) with
  | Some rest => match skip_ws rest with EmptyString => 0 | _ => 1 end
  | None => 1
  end.
