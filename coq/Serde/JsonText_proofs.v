(** C18, layer 2: proofs about the JSON text model (Serde/JsonText.v).
    - lexical: [parse_str_body_escape] (unescape after escape is the identity, for every byte string),
      [int_digits_print_N], [parse_number_print_int], [span_num_app], whitespace skipping;
    - structure: [rt_all] (by induction on the value, the parser run with any sufficient fuel and depth),
      [json_parse_print] (fuel = 2 * text length + 2, enough for any text), [dedent_id] / [dedent_json_print], [json_from_str_print];
    - composition with layer 1 (Serde/SerdeGeneric_proofs.v): [json_typed_roundtrip].
    The float printer/parser pair is a pair of section variables; the only thing assumed about it is
    [float_pair_ok] for the doubles that occur in the value at hand. *)
From Coq Require Import ZArith NArith Bool List String Ascii Lia.
From L21 Require Import Serde.SerdeGeneric Serde.SerdeGeneric_proofs Serde.JsonText.
Import ListNotations.
Local Open Scope string_scope.


Lemma app_assoc_s : forall a b c : string, (a ++ b) ++ c = a ++ (b ++ c).
Proof. induction a; intros; simpl; [reflexivity | rewrite IHa; reflexivity]. Qed.

Lemma code_chr : forall n, (n < 256)%N -> code (chr n) = n.
Proof. intros. apply N_ascii_embedding. assumption. Qed.
Lemma chr_code : forall c, chr (code c) = c.
Proof. intros. apply ascii_N_embedding. Qed.
Lemma code_lt : forall c, (code c < 256)%N.
Proof. intros. apply N_ascii_bounded. Qed.

(** * Strings *)
Lemma parse_str_body_escape_byte : forall c tail,
  parse_str_body (escape_byte c ++ tail) = prepend (str1 c) (parse_str_body tail).
Proof.
  intros c tail.
  destruct c as [[] [] [] [] [] [] [] []]; reflexivity.
Qed.

Lemma parse_str_body_escape : forall s rest,
  parse_str_body (escape_str s ++ String (chr 34) rest) = Some (s, rest).
Proof.
  induction s as [|c r IH]; intros rest.
  - reflexivity.
  - cbn [escape_str]. rewrite app_assoc_s, parse_str_body_escape_byte, IH. reflexivity.
Qed.

Lemma parse_string_print : forall s rest, utf8_validb s = true ->
  parse_string (escape_str s ++ quote ++ rest) = Some (s, rest).
Proof.
  intros s rest H. unfold parse_string, quote, str1. cbn [append].
  rewrite parse_str_body_escape, H. reflexivity.
Qed.

Local Open Scope N_scope.
(** * Integers *)
Lemma is_digit_chr : forall d, d < 10 -> is_digit (chr (48 + d)) = true.
Proof.
  intros d H. unfold is_digit. rewrite code_chr by lia.
  apply andb_true_intro; split; apply N.leb_le; lia.
Qed.

Lemma digits_acc_cons : forall d s a, d < 10 ->
  digits_acc (String (chr (48 + d)) s) a = digits_acc s (a * 10 + d).
Proof.
  intros d s a H. cbn [digits_acc]. rewrite is_digit_chr by assumption.
  rewrite code_chr by lia. f_equal. lia.
Qed.

Lemma print_digits_parse : forall f n acc, n < 2 ^ N.of_nat f ->
  exists k, forall a, digits_acc (print_digits (S f) n acc) a = digits_acc acc (a * 10 ^ k + n).
Proof.
  induction f as [|f IH]; intros n acc Hn.
  - exists 1. intros a. simpl in Hn.
    assert (n = 0) by lia. subst n. cbn [print_digits]. change (0 <? 10) with true. cbv iota.
    change (0 mod 10) with 0. rewrite digits_acc_cons by lia. f_equal; lia.
  - cbn [print_digits]. destruct (n <? 10) eqn:E.
    + apply N.ltb_lt in E. exists 1. intros a.
      rewrite N.mod_small by assumption. rewrite digits_acc_cons by assumption.
      f_equal; lia.
    + apply N.ltb_ge in E.
      assert (Hd : n / 10 < 2 ^ N.of_nat f).
      { rewrite Nnat.Nat2N.inj_succ, N.pow_succ_r' in Hn.
        apply N.div_lt_upper_bound; lia. }
      destruct (IH (n / 10) (String (chr (48 + n mod 10)) acc) Hd) as [k Hk].
      exists (k + 1). intros a. rewrite Hk.
      assert (n mod 10 < 10) by (apply N.mod_lt; lia).
      rewrite digits_acc_cons by assumption. f_equal.
      rewrite N.pow_add_r, N.pow_1_r.
      pose proof (N.div_mod n 10). lia.
Qed.

Lemma print_digits_head : forall f n acc, 0 < n -> n < 2 ^ N.of_nat f ->
  exists c t, print_digits (S f) n acc = String c t /\ is_digit c = true /\ code c <> 48.
Proof.
  induction f as [|f IH]; intros n acc Hp Hn.
  - simpl in Hn. lia.
  - cbn [print_digits]. destruct (n <? 10) eqn:E.
    + apply N.ltb_lt in E. rewrite N.mod_small by assumption.
      eexists _, _. split; [reflexivity|]. split.
      * apply is_digit_chr; assumption.
      * rewrite code_chr by lia. lia.
    + apply N.ltb_ge in E. apply IH.
      * apply N.div_str_pos. lia.
      * rewrite Nnat.Nat2N.inj_succ, N.pow_succ_r' in Hn.
        apply N.div_lt_upper_bound; lia.
Qed.

Lemma print_digits_all : forall f n acc, forallb_str is_digit acc = true ->
  forallb_str is_digit (print_digits f n acc) = true.
Proof.
  induction f as [|f IH]; intros n acc H.
  - exact H.
  - cbn [print_digits].
    assert (Hd : forallb_str is_digit (String (chr (48 + n mod 10)) acc) = true).
    { cbn [forallb_str]. rewrite H, is_digit_chr; [reflexivity|]. apply N.mod_lt. lia. }
    destruct (n <? 10); [exact Hd | apply IH; exact Hd].
Qed.

Lemma size_bound : forall n, n < 2 ^ N.of_nat (N.to_nat (N.size n)).
Proof. intros n. rewrite Nnat.N2Nat.id. apply N.size_gt. Qed.

Lemma int_digits_print_N : forall n, int_digits (print_N n) = Some n.
Proof.
  intros n. unfold print_N. destruct (N.eq_dec n 0) as [->|Hnz].
  - reflexivity.
  - assert (Hp : 0 < n) by lia.
    destruct (print_digits_head _ n EmptyString Hp (size_bound n)) as [c [t [E [Hd Hc]]]].
    destruct (print_digits_parse _ n EmptyString (size_bound n)) as [k Hk].
    unfold int_digits. rewrite E. apply N.eqb_neq in Hc. rewrite Hc.
    rewrite <- E, Hk. cbn [digits_acc]. f_equal.
Qed.

Lemma print_N_digits : forall n, forallb_str is_digit (print_N n) = true.
Proof. intros. apply print_digits_all. reflexivity. Qed.

Lemma print_N_head : forall n, exists c t, print_N n = String c t /\ is_digit c = true.
Proof.
  intros n. destruct (N.eq_dec n 0) as [->|Hnz].
  - eexists _, _. split; reflexivity.
  - destruct (print_digits_head _ n EmptyString ltac:(lia) (size_bound n)) as [c [t [E [Hd Hc]]]].
    exists c, t. split; assumption.
Qed.

(** * Number tokens *)
Lemma digit_is_num_char : forall c, is_digit c = true -> is_num_char c = true.
Proof. intros c H. unfold is_num_char. rewrite H. reflexivity. Qed.

Lemma digit_not_float_char : forall c, is_digit c = true -> is_float_char c = false.
Proof.
  intros c H. unfold is_digit in H. unfold is_float_char.
  apply andb_true_iff in H. destruct H as [H1 H2]. apply N.leb_le in H1. apply N.leb_le in H2.
  repeat (apply orb_false_intro); apply N.eqb_neq; lia.
Qed.

Lemma forallb_str_impl : forall (p q : ascii -> bool) s, (forall c, p c = true -> q c = true) ->
  forallb_str p s = true -> forallb_str q s = true.
Proof.
  intros p q s Hpq. induction s as [|c r IH]; intros H; [reflexivity|].
  cbn [forallb_str] in *. apply andb_true_iff in H. destruct H as [H1 H2].
  rewrite (Hpq _ H1), (IH H2). reflexivity.
Qed.

Lemma digits_no_float_char : forall s, forallb_str is_digit s = true -> existsb_str is_float_char s = false.
Proof.
  induction s as [|c r IH]; intros H; [reflexivity|].
  cbn [forallb_str existsb_str] in *. apply andb_true_iff in H. destruct H as [H1 H2].
  rewrite (digit_not_float_char _ H1), (IH H2). reflexivity.
Qed.

(** what may follow a number: the end of the text or a byte that cannot continue a number *)
Definition num_safe (rest : string) : Prop :=
  match rest with EmptyString => True | String c _ => is_num_char c = false end.

Lemma span_num_app : forall t rest, forallb_str is_num_char t = true -> num_safe rest ->
  span_num (t ++ rest) = (t, rest).
Proof.
  induction t as [|c r IH]; intros rest Ht Hr.
  - cbn [append]. destruct rest as [|c r]; [reflexivity|]. cbn [span_num]. cbn [num_safe] in Hr. rewrite Hr. reflexivity.
  - cbn [forallb_str] in Ht. apply andb_true_iff in Ht. destruct Ht as [H1 H2].
    cbn [append span_num]. rewrite H1, (IH rest H2 Hr). reflexivity.
Qed.

Section NumberRT.
  Variable parse_f64 : string -> option Z.

  Lemma parse_number_print_int : forall z, int_in_rangeb z = true ->
    parse_number parse_f64 (print_int z) = Some (SInt z).
  Proof.
    intros z Hz. unfold int_in_rangeb in Hz. apply andb_true_iff in Hz. destruct Hz as [Hlo Hhi].
    apply Z.leb_le in Hlo. apply Z.ltb_lt in Hhi.
    unfold print_int. destruct (z <? 0)%Z eqn:Ez.
    - apply Z.ltb_lt in Ez. unfold parse_number.
      cbn [existsb_str]. change (is_float_char (chr 45)) with false. cbn [orb].
      rewrite (digits_no_float_char _ (print_N_digits _)).
      change (code (chr 45) =? 45) with true. cbv iota.
      rewrite int_digits_print_N.
      assert (E1 : (0 <? Z.to_N (- z)) = true) by (apply N.ltb_lt; lia).
      assert (E2 : (Z.to_N (- z) <=? 9223372036854775808) = true) by (apply N.leb_le; lia).
      rewrite E1, E2. cbn [andb]. f_equal. f_equal. rewrite Z2N.id by lia. lia.
    - apply Z.ltb_ge in Ez. unfold parse_number.
      rewrite (digits_no_float_char _ (print_N_digits _)).
      destruct (print_N_head (Z.to_N z)) as [c [t [E Hd]]].
      rewrite E. rewrite <- E.
      assert (Hc : (code c =? 45) = false).
      { unfold is_digit in Hd. apply andb_true_iff in Hd. destruct Hd as [H1 _]. apply N.leb_le in H1.
        apply N.eqb_neq. lia. }
      rewrite Hc. rewrite int_digits_print_N.
      assert (E1 : (Z.to_N z <? 18446744073709551616) = true) by (apply N.ltb_lt; lia).
      rewrite E1. f_equal. f_equal. apply Z2N.id. lia.
  Qed.

  Lemma parse_number_float : forall tok b, float_tokenb tok = true -> parse_f64 tok = Some b ->
    parse_number parse_f64 tok = Some (SF64 b).
  Proof.
    intros tok b Ht Hp. unfold float_tokenb in Ht. destruct tok as [|c r]; [discriminate|].
    apply andb_true_iff in Ht. destruct Ht as [Ht He]. unfold parse_number. rewrite He.
    unfold as_f64. rewrite Hp. reflexivity.
  Qed.
End NumberRT.

Lemma print_int_num_chars : forall z, forallb_str is_num_char (print_int z) = true.
Proof.
  intros z. unfold print_int.
  pose proof (forallb_str_impl _ _ _ digit_is_num_char (print_N_digits (Z.to_N (- z)))) as H1.
  pose proof (forallb_str_impl _ _ _ digit_is_num_char (print_N_digits (Z.to_N z))) as H2.
  destruct (z <? 0)%Z; [|exact H2]. cbn [forallb_str]. rewrite H1. reflexivity.
Qed.

(** the first byte of a number token *)
Definition num_start (c : ascii) : bool := (code c =? 45) || is_digit c.

Lemma print_int_head : forall z, exists c t, print_int z = String c t /\ num_start c = true.
Proof.
  intros z. unfold print_int. destruct (z <? 0)%Z.
  - eexists _, _. split; reflexivity.
  - destruct (print_N_head (Z.to_N z)) as [c [t [E Hd]]]. exists c, t. split; [exact E|].
    unfold num_start. rewrite Hd. apply orb_true_r.
Qed.

Lemma float_token_head : forall tok, float_tokenb tok = true ->
  exists c t, tok = String c t /\ num_start c = true /\ forallb_str is_num_char tok = true.
Proof.
  intros tok H. destruct tok as [|c r]; [discriminate|]. unfold float_tokenb in H.
  apply andb_true_iff in H. destruct H as [H He]. apply andb_true_iff in H. destruct H as [Hs Hn].
  exists c, r. repeat split; assumption.
Qed.

(** * Induction principle for the nested [sval] *)
Section SvalInd.
  Variable P : sval -> Prop.
  Hypothesis HNull : P SNull.
  Hypothesis HBool : forall b, P (SBool b).
  Hypothesis HInt : forall z, P (SInt z).
  Hypothesis HF64 : forall bits, P (SF64 bits).
  Hypothesis HStr : forall s, P (SStr s).
  Hypothesis HSeq : forall l, Forall P l -> P (SSeq l).
  Hypothesis HMap : forall l, Forall (fun kx => P (snd kx)) l -> P (SMap l).
  Fixpoint sval_ind' (v : sval) : P v :=
    match v with
    | SNull => HNull
    | SBool b => HBool b
    | SInt z => HInt z
    | SF64 b => HF64 b
    | SStr s => HStr s
    | SSeq l =>
        HSeq l ((fix go (l : list sval) : Forall P l :=
                   match l with
                   | [] => Forall_nil _
                   | x :: l' => Forall_cons _ (sval_ind' x) (go l')
                   end) l)
    | SMap l =>
        HMap l ((fix go (l : list (string * sval)) : Forall (fun kx => P (snd kx)) l :=
                   match l with
                   | [] => Forall_nil _
                   | kx :: l' => @Forall_cons _ (fun kx => P (snd kx)) kx l' (sval_ind' (snd kx)) (go l')
                   end) l)
    end.
End SvalInd.

(** * textwrap::dedent is the identity on texts whose lines all begin with spaces followed by a printable
      ASCII byte, that begin at column 0, contain no carriage return and do not end in a line feed *)
Lemma lrun_bad : forall s, lrun LBad s = LBad.
Proof. induction s as [|c r IH]; [reflexivity | exact IH]. Qed.

Lemma lrun_app : forall a b st, lrun st (a ++ b) = lrun (lrun st a) b.
Proof. induction a as [|c r IH]; intros b st; [reflexivity | apply IH]. Qed.

Lemma code_eq_chr : forall c n, (code c =? n) = true -> c = chr n.
Proof. intros c n H. apply N.eqb_eq in H. rewrite <- H. symmetry. apply chr_code. Qed.

Lemma lines_raw_nonempty : forall s, lines_raw s <> [].
Proof.
  induction s as [|c r IH]; [discriminate|]. cbn [lines_raw].
  destruct (code c =? 10); [discriminate|]. destruct (lines_raw r); [congruence | discriminate].
Qed.

Definition line_ok (l : string) : Prop := lrun LStart l = LIn.

Lemma lines_ok : forall s st, lrun st s = LIn ->
  match lines_raw s with
  | [] => False
  | l :: ls => lrun st l = LIn /\ Forall line_ok ls
  end.
Proof.
  induction s as [|c r IH]; intros st H.
  - cbn. split; [exact H | constructor].
  - cbn [lrun] in H. cbn [lines_raw]. destruct (code c =? 10) eqn:E.
    + assert (Hst : st = LIn /\ lstep st c = LStart).
      { pose proof (code_eq_chr _ _ E) as ->. destruct st; cbn in H |- *.
        - rewrite lrun_bad in H. discriminate.
        - split; reflexivity.
        - rewrite lrun_bad in H. discriminate. }
      destruct Hst as [-> Hs]. rewrite Hs in H. specialize (IH LStart H).
      destruct (lines_raw r) as [|l ls]; [contradiction|]. destruct IH as [Hl Hls].
      split; [reflexivity|]. constructor; assumption.
    + specialize (IH (lstep st c) H). destruct (lines_raw r) as [|l ls]; [contradiction|].
      destruct IH as [Hl Hls]. split; [exact Hl | exact Hls].
Qed.

Lemma lstep_in : forall st c, lstep st c = LIn -> (code c =? 13) = false /\ (code c =? 10) = false.
Proof.
  intros st c H. destruct st; unfold lstep in H.
  - destruct (code c =? 32) eqn:E32; [discriminate|].
    destruct ((33 <=? code c) && (code c <=? 126)) eqn:Ep; [|discriminate].
    apply andb_true_iff in Ep. destruct Ep as [E1 E2]. apply N.leb_le in E1. apply N.leb_le in E2.
    split; apply N.eqb_neq; lia.
  - destruct (code c =? 10) eqn:E10; [discriminate|]. destruct (code c =? 13) eqn:E13; [discriminate|]. split; reflexivity.
  - discriminate.
Qed.

Lemma strip_cr_id : forall l st, lrun st l = LIn -> strip_cr l = l.
Proof.
  induction l as [|c r IH]; intros st H; [reflexivity|].
  cbn [lrun] in H. destruct r as [|c' r'].
  - cbn [lrun] in H. cbn [strip_cr]. destruct (lstep_in _ _ H) as [H13 _]. rewrite H13. reflexivity.
  - change (strip_cr (String c (String c' r'))) with (String c (strip_cr (String c' r'))).
    rewrite (IH _ H). reflexivity.
Qed.

Lemma ends_with_nl_false : forall s st, lrun st s = LIn -> ends_with_nl s = false.
Proof.
  induction s as [|c r IH]; intros st H; [reflexivity|].
  cbn [lrun] in H. destruct r as [|c' r'].
  - cbn [lrun] in H. cbn [ends_with_nl]. destruct (lstep_in _ _ H) as [_ H10]. exact H10.
  - change (ends_with_nl (String c (String c' r'))) with (ends_with_nl (String c' r')). apply (IH _ H).
Qed.

Lemma line_ok_nonempty : forall l, line_ok l -> l <> "".
Proof. intros l H ->. discriminate H. Qed.

Lemma rust_lines_of_id : forall ls, Forall line_ok ls -> rust_lines_of ls = ls.
Proof.
  induction ls as [|l ls IH]; intros H; [reflexivity|].
  inversion H as [|? ? Hl Hls]; subst. destruct ls as [|l' ls'].
  - cbn [rust_lines_of]. destruct l; [exfalso; apply (line_ok_nonempty _ Hl); reflexivity | reflexivity].
  - change (rust_lines_of (l :: l' :: ls')) with (strip_cr l :: rust_lines_of (l' :: ls')).
    rewrite (strip_cr_id _ _ Hl), (IH Hls). reflexivity.
Qed.

Definition printable (c : ascii) : bool := (33 <=? code c) && (code c <=? 126).

Lemma ws_char_len_printable : forall c r, printable c = true -> ws_char_len (String c r) = O.
Proof.
  intros c r H. destruct c as [[] [] [] [] [] [] [] []]; try reflexivity; cbv in H; discriminate H.
Qed.

Lemma lstep_start : forall c, lstep LStart c = LStart /\ c = chr 32 \/ lstep LStart c = LIn /\ printable c = true \/ lstep LStart c = LBad.
Proof.
  intros c. unfold lstep, printable. destruct (code c =? 32) eqn:E.
  - left. split; [reflexivity | apply code_eq_chr; exact E].
  - destruct ((33 <=? code c) && (code c <=? 126)); [right; left; split; reflexivity | right; right; reflexivity].
Qed.

Lemma ws_idx_fuel_lt : forall l f, line_ok l -> (String.length l <= f)%nat -> (ws_idx_fuel f l < String.length l)%nat.
Proof.
  unfold line_ok. induction l as [|c r IH]; intros f H Hf; [discriminate H|].
  cbn [String.length] in *. destruct f as [|f]; [lia|]. cbn [lrun] in H.
  destruct (lstep_start c) as [[Hs ->] | [[Hs Hp] | Hs]]; rewrite Hs in H.
  - change (ws_idx_fuel (S f) (String (chr 32) r)) with (1 + ws_idx_fuel f r)%nat.
    pose proof (IH f H ltac:(lia)). lia.
  - cbn [ws_idx_fuel]. rewrite (ws_char_len_printable _ _ Hp). lia.
  - rewrite lrun_bad in H. discriminate.
Qed.

Lemma ws_idx_lt : forall l, line_ok l -> (ws_idx l <? String.length l)%nat = true.
Proof. intros l H. apply Nat.ltb_lt. unfold ws_idx. apply ws_idx_fuel_lt; [exact H | lia]. Qed.

Lemma shorten_nil : forall line, shorten "" line = "".
Proof.
  intros line. unfold shorten.
  assert (E : mismatch_idx (String.length line) line "" 0 = None).
  { destruct (String.length line); [reflexivity|]. cbn [mismatch_idx]. destruct line; reflexivity. }
  rewrite E. rewrite Nat.ltb_irrefl. reflexivity.
Qed.

Lemma fold_shorten_nil : forall ls, fold_left shorten ls "" = "".
Proof. induction ls as [|l ls IH]; [reflexivity|]. cbn [fold_left]. rewrite shorten_nil. exact IH. Qed.

Lemma dedent_line_nil : forall l, line_ok l -> dedent_line "" l = l ++ nl.
Proof. intros l H. unfold dedent_line. cbn [prefix_ofb andb]. rewrite (ws_idx_lt _ H). reflexivity. Qed.

Lemma concat_lines : forall s, concat_str (map (fun l => l ++ nl) (lines_raw s)) = s ++ nl.
Proof.
  induction s as [|c r IH]; [reflexivity|]. cbn [lines_raw]. destruct (code c =? 10) eqn:E.
  - pose proof (code_eq_chr _ _ E) as ->. cbn [map concat_str]. rewrite IH. reflexivity.
  - pose proof (lines_raw_nonempty r) as Hne. destruct (lines_raw r) as [|l ls]; [congruence|].
    cbn [map concat_str] in *. cbn [append]. rewrite app_assoc_s in IH |- *. cbn [append]. rewrite IH. reflexivity.
Qed.

Lemma map_dedent_line : forall ls, Forall line_ok ls -> map (dedent_line "") ls = map (fun l => l ++ nl) ls.
Proof.
  induction ls as [|l ls IH]; intros H; [reflexivity|]. inversion H; subst. cbn [map].
  rewrite dedent_line_nil by assumption. rewrite IH by assumption. reflexivity.
Qed.

Lemma ends_with_nl_app : forall s, ends_with_nl (s ++ nl) = true.
Proof.
  induction s as [|c r IH]; [reflexivity|]. cbn [append]. destruct r; [reflexivity|].
  cbn [append] in *. exact IH.
Qed.

Lemma remove_last_app : forall s, remove_last (s ++ nl) = s.
Proof.
  induction s as [|c r IH]; [reflexivity|]. cbn [append]. destruct r as [|c' r'].
  - reflexivity.
  - cbn [append] in *. change (remove_last (String c (String c' (r' ++ nl)))) with (String c (remove_last (String c' (r' ++ nl)))).
    rewrite IH. reflexivity.
Qed.

Theorem dedent_id : forall c r,
  code c <> 32 -> lrun LStart (String c r) = LIn -> dedent (String c r) = String c r.
Proof.
  intros c r Hc H. set (s := String c r) in *.
  assert (Hall : Forall line_ok (lines_raw s)).
  { pose proof (lines_ok s LStart H) as Hl. destruct (lines_raw s) as [|l ls]; [contradiction|].
    destruct Hl as [H1 H2]. constructor; assumption. }
  assert (Hp : printable c = true).
  { cbn [lrun] in H. destruct (lstep_start c) as [[Hs ->] | [[Hs Hp] | Hs]].
    - exfalso. apply Hc. reflexivity.
    - exact Hp.
    - unfold s in H. cbn [lrun] in H. rewrite Hs, lrun_bad in H. discriminate. }
  assert (Hpre : dedent_prefix (lines_raw s) = "").
  { unfold s. cbn [lines_raw].
    assert (E10 : (code c =? 10) = false).
    { unfold printable in Hp. apply andb_true_iff in Hp. destruct Hp as [E1 _]. apply N.leb_le in E1. apply N.eqb_neq. lia. }
    rewrite E10. pose proof (lines_raw_nonempty r) as Hne. destruct (lines_raw r) as [|l ls]; [congruence|].
    unfold dedent_prefix. cbn [find_prefix].
    assert (Ew : ws_idx (String c l) = O).
    { unfold ws_idx. cbn [String.length ws_idx_fuel]. rewrite (ws_char_len_printable _ _ Hp). reflexivity. }
    rewrite Ew. cbn [String.length Nat.ltb Nat.leb]. cbn [substring]. apply fold_shorten_nil. }
  unfold dedent, rust_lines. rewrite (rust_lines_of_id _ Hall), Hpre, (map_dedent_line _ Hall), concat_lines.
  rewrite ends_with_nl_app, (ends_with_nl_false _ _ H). cbn [negb andb]. apply remove_last_app.
Qed.

(** * Whitespace *)
Lemma skip_ws_head : forall c r, is_ws c = false -> skip_ws (String c r) = String c r.
Proof. intros c r H. cbn [skip_ws]. rewrite H. reflexivity. Qed.

Lemma skip_ws_idem : forall s, skip_ws (skip_ws s) = skip_ws s.
Proof.
  induction s as [|c r IH]; [reflexivity|]. cbn [skip_ws]. destruct (is_ws c) eqn:E; [exact IH|].
  cbn [skip_ws]. rewrite E. reflexivity.
Qed.

Lemma skip_ws_indent : forall k s, skip_ws (indent k ++ s) = skip_ws s.
Proof. induction k as [|k IH]; intros s; [reflexivity|]. cbn [indent]. rewrite app_assoc_s. cbn. apply IH. Qed.

Lemma skip_ws_nl_indent : forall k s, skip_ws (nl ++ indent k ++ s) = skip_ws s.
Proof. intros. cbn. apply skip_ws_indent. Qed.

(** the first byte of a printed value: not whitespace, not a closing bracket *)
Definition val_head (c : ascii) : bool := negb (is_ws c) && negb (code c =? 93).

Lemma num_start_val_head : forall c, num_start c = true -> val_head c = true.
Proof.
  intros c H. destruct c as [[] [] [] [] [] [] [] []]; try reflexivity; cbv in H; discriminate H.
Qed.

Lemma val_head_ws : forall c, val_head c = true -> is_ws c = false.
Proof. intros c H. unfold val_head in H. apply andb_true_iff in H. destruct H as [H _]. apply negb_true_iff in H. exact H. Qed.
Lemma val_head_93 : forall c, val_head c = true -> (code c =? 93) = false.
Proof. intros c H. unfold val_head in H. apply andb_true_iff in H. destruct H as [_ H]. apply negb_true_iff in H. exact H. Qed.

(** * The recursive structure *)
Definition lift_seq (v : sval) (r : pres (list sval)) : pres (list sval) :=
  match r with POk l rest' => POk (v :: l) rest' | PErr => PErr | PFuel => PFuel end.
Definition lift_map (k : string) (v : sval) (r : pres (list (string * sval))) : pres (list (string * sval)) :=
  match r with POk l rest' => POk ((k, v) :: l) rest' | PErr => PErr | PFuel => PFuel end.

Section ParseRT.
  Variable fmt_f64 : Z -> string.
  Variable parse_f64 : string -> option Z.

  Notation PV := (parse_value parse_f64).
  Notation PS := (parse_seq parse_f64).
  Notation PM := (parse_map parse_f64).

  Definition seq_elem (f d : nat) (t : string) : pres (list sval) :=
    match PV f d t with
    | POk v rest => lift_seq v (PS f d false rest)
    | PErr => PErr
    | PFuel => PFuel
    end.
  Definition map_entry (f d : nat) (t : string) : pres (list (string * sval)) :=
    match parse_string t with
    | None => PErr
    | Some (k, t1) =>
        match skip_ws t1 with
        | EmptyString => PErr
        | String c3 t2 =>
            if code c3 =? 58 then
              match PV f d t2 with
              | POk v rest => lift_map k v (PM f d false rest)
              | PErr => PErr
              | PFuel => PFuel
              end
            else PErr
        end
    end.

  (** one-step unfoldings *)
  Lemma pv_skip : forall f d s, PV f d s = PV f d (skip_ws s).
  Proof. intros [|f] d s; [reflexivity|]. cbn [parse_value]. rewrite skip_ws_idem. reflexivity. Qed.
  Lemma ps_skip : forall f d first s, PS f d first s = PS f d first (skip_ws s).
  Proof. intros [|f] d first s; [reflexivity|]. cbn [parse_seq]. rewrite skip_ws_idem. reflexivity. Qed.
  Lemma pm_skip : forall f d first s, PM f d first s = PM f d first (skip_ws s).
  Proof. intros [|f] d first s; [reflexivity|]. cbn [parse_map]. rewrite skip_ws_idem. reflexivity. Qed.

  Lemma pv_null : forall f d rest, PV (S f) d ("null" ++ rest) = POk SNull rest.
  Proof. reflexivity. Qed.
  Lemma pv_true : forall f d rest, PV (S f) d ("true" ++ rest) = POk (SBool true) rest.
  Proof. reflexivity. Qed.
  Lemma pv_false : forall f d rest, PV (S f) d ("false" ++ rest) = POk (SBool false) rest.
  Proof. reflexivity. Qed.
  Lemma pv_string : forall f d r,
    PV (S f) d (String (chr 34) r) = match parse_string r with Some (t, rest) => POk (SStr t) rest | None => PErr end.
  Proof. reflexivity. Qed.
  Lemma pv_num : forall f d c r, num_start c = true ->
    PV (S f) d (String c r) =
    let (tok, rest) := span_num (String c r) in
    match parse_number parse_f64 tok with Some v => POk v rest | None => PErr end.
  Proof.
    intros f d c r H.
    destruct c as [[] [] [] [] [] [] [] []]; try reflexivity; cbv in H; discriminate H.
  Qed.
  Lemma pv_seq : forall f d r,
    PV (S f) (S (S d)) (String (chr 91) r) =
    match PS f (S d) true r with POk l rest => POk (SSeq l) rest | PErr => PErr | PFuel => PFuel end.
  Proof. reflexivity. Qed.
  Lemma pv_map : forall f d r,
    PV (S f) (S (S d)) (String (chr 123) r) =
    match PM f (S d) true r with POk l rest => POk (SMap l) rest | PErr => PErr | PFuel => PFuel end.
  Proof. reflexivity. Qed.

  Lemma ps_close : forall f d first rest, PS (S f) d first (String (chr 93) rest) = POk [] rest.
  Proof. reflexivity. Qed.
  Lemma pm_close : forall f d first rest, PM (S f) d first (String (chr 125) rest) = POk [] rest.
  Proof. reflexivity. Qed.

  Lemma ps_first : forall f d c r, val_head c = true -> PS (S f) d true (String c r) = seq_elem f d (String c r).
  Proof.
    intros f d c r H. cbn [parse_seq]. rewrite (skip_ws_head _ _ (val_head_ws _ H)), (val_head_93 _ H).
    reflexivity.
  Qed.
  Lemma ps_next : forall f d k c r, val_head c = true ->
    PS (S f) d false ("," ++ nl ++ indent k ++ String c r) = seq_elem f d (String c r).
  Proof.
    intros f d k c r H. cbn [parse_seq].
    change (skip_ws ("," ++ nl ++ indent k ++ String c r)) with (String (chr 44) (nl ++ indent k ++ String c r)).
    change (code (chr 44) =? 93) with false. change (code (chr 44) =? 44) with true. cbv iota.
    rewrite skip_ws_nl_indent, (skip_ws_head _ _ (val_head_ws _ H)), (val_head_93 _ H).
    reflexivity.
  Qed.
  Lemma pm_first : forall f d r, PM (S f) d true (String (chr 34) r) = map_entry f d r.
  Proof. reflexivity. Qed.
  Lemma pm_next : forall f d k r,
    PM (S f) d false ("," ++ nl ++ indent k ++ String (chr 34) r) = map_entry f d r.
  Proof.
    intros f d k r. cbn [parse_map].
    change (skip_ws ("," ++ nl ++ indent k ++ String (chr 34) r)) with (String (chr 44) (nl ++ indent k ++ String (chr 34) r)).
    change (code (chr 44) =? 125) with false. change (code (chr 44) =? 44) with true. cbv iota.
    rewrite skip_ws_nl_indent. reflexivity.
  Qed.

  (** ** The round trip, by induction on the value *)
  Definition floats_ok (v : sval) : Prop :=
    forall b, In b (sval_floats v) -> float_pair_ok fmt_f64 parse_f64 b.
  Definition floats_ok_l (l : list Z) : Prop := forall b, In b l -> float_pair_ok fmt_f64 parse_f64 b.

  Definition PRT (v : sval) : Prop := forall ind fuel depth rest,
    sval_wfb v = true -> floats_ok v -> (sval_fuel v <= fuel)%nat -> (sval_depth v < depth)%nat -> num_safe rest ->
    PV fuel depth (print_val fmt_f64 ind v ++ rest) = POk v rest.

  Lemma print_val_head : forall v ind, sval_wfb v = true -> floats_ok v ->
    exists c t, print_val fmt_f64 ind v = String c t /\ val_head c = true.
  Proof.
    intros v ind Hwf Hfl. destruct v as [|b|z|b|s|l|l].
    - eexists _, _. split; reflexivity.
    - destruct b; eexists _, _; split; reflexivity.
    - destruct (print_int_head z) as [c [t [E H]]]. exists c, t. split; [exact E | apply num_start_val_head; exact H].
    - cbn [sval_wfb] in Hwf. cbn [print_val]. unfold print_f64. rewrite Hwf.
      destruct (Hfl b (or_introl eq_refl)) as [Ht _].
      destruct (float_token_head _ Ht) as [c [t [E [H _]]]]. exists c, t. split; [exact E | apply num_start_val_head; exact H].
    - eexists _, _. split; reflexivity.
    - destruct l; eexists _, _; split; reflexivity.
    - destruct l; eexists _, _; split; reflexivity.
  Qed.

  Lemma num_safe_items : forall (A : Type) (pv : A -> string) k l X, num_safe (print_items A pv k false l ++ nl ++ X).
  Proof. intros A pv k l X. destruct l; reflexivity. Qed.

  Definition seq_sum (l : list sval) : nat := fold_right (fun x a => S (sval_fuel x + a)%nat) O l.
  Definition seq_maxd (l : list sval) : nat := fold_right (fun x a => Nat.max (sval_depth x) a) O l.
  Definition map_sum (l : list (string * sval)) : nat := fold_right (fun kx a => S (sval_fuel (snd kx) + a)%nat) O l.
  Definition map_maxd (l : list (string * sval)) : nat := fold_right (fun kx a => Nat.max (sval_depth (snd kx)) a) O l.

  Lemma seq_items_rt : forall l, Forall PRT l -> forall ind rest first f d,
    forallb sval_wfb l = true -> floats_ok_l (flat_map sval_floats l) ->
    (S (seq_sum l) <= f)%nat -> (seq_maxd l < d)%nat ->
    PS f d first (print_items sval (print_val fmt_f64 (S ind)) (S ind) first l ++ nl ++ indent ind ++ "]" ++ rest) = POk l rest.
  Proof.
    induction l as [|x l IH]; intros HF ind rest first f d Hwf Hfl Hfu Hd.
    - cbn [print_items append]. destruct f as [|f]; [lia|].
      rewrite ps_skip, skip_ws_nl_indent. cbn [append skip_ws]. apply ps_close.
    - inversion HF as [|? ? Hx HF']; subst.
      cbn [forallb] in Hwf. apply andb_true_iff in Hwf. destruct Hwf as [Hwx Hwl].
      assert (Hfx : floats_ok x). { intros b Hb. apply Hfl. cbn [flat_map]. apply in_or_app. left. exact Hb. }
      assert (Hfl' : floats_ok_l (flat_map sval_floats l)). { intros b Hb. apply Hfl. cbn [flat_map]. apply in_or_app. right. exact Hb. }
      cbn [seq_sum fold_right] in Hfu. fold (seq_sum l) in Hfu.
      cbn [seq_maxd fold_right] in Hd. fold (seq_maxd l) in Hd.
      destruct f as [|f]; [lia|].
      destruct (print_val_head x (S ind) Hwx Hfx) as [c [t [E Hc]]].
      set (tail := print_items sval (print_val fmt_f64 (S ind)) (S ind) false l ++ nl ++ indent ind ++ "]" ++ rest).
      assert (HE : print_val fmt_f64 (S ind) x ++ tail = String c (t ++ tail)) by (rewrite E; reflexivity).
      assert (Hstep : seq_elem f d (String c (t ++ tail)) = POk (x :: l) rest).
      { unfold seq_elem. rewrite <- HE. rewrite (Hx (S ind) f d tail Hwx Hfx); [| lia | lia | apply num_safe_items].
        unfold tail. rewrite (IH HF' ind rest false f d Hwl Hfl'); [reflexivity | lia | lia]. }
      cbn [print_items]. destruct first.
      + rewrite !app_assoc_s. fold tail. rewrite ps_skip, skip_ws_nl_indent, HE.
        rewrite (skip_ws_head _ _ (val_head_ws _ Hc)). rewrite ps_first by exact Hc. exact Hstep.
      + rewrite !app_assoc_s. fold tail. rewrite HE. rewrite ps_next by exact Hc. exact Hstep.
  Qed.

  Lemma pv_print_string : forall f d s rest, utf8_validb s = true ->
    PV (S f) d (print_string s ++ rest) = POk (SStr s) rest.
  Proof.
    intros f d s rest H.
    replace (print_string s ++ rest) with (String (chr 34) (escape_str s ++ quote ++ rest))
      by (unfold print_string; rewrite !app_assoc_s; reflexivity).
    rewrite pv_string, (parse_string_print _ _ H). reflexivity.
  Qed.

  Definition print_entry (ind : nat) (kv : string * sval) : string :=
    let '(k, x) := kv in print_string k ++ ": " ++ print_val fmt_f64 ind x.

  Lemma map_items_rt : forall l, Forall (fun kx => PRT (snd kx)) l -> forall ind rest first f d,
    forallb (fun kx => utf8_validb (fst kx) && sval_wfb (snd kx)) l = true ->
    floats_ok_l (flat_map (fun kx => sval_floats (snd kx)) l) ->
    (S (map_sum l) <= f)%nat -> (map_maxd l < d)%nat ->
    PM f d first (print_items (string * sval) (print_entry (S ind)) (S ind) first l ++ nl ++ indent ind ++ "}" ++ rest) = POk l rest.
  Proof.
    induction l as [|[k x] l IH]; intros HF ind rest first f d Hwf Hfl Hfu Hd.
    - cbn [print_items append]. destruct f as [|f]; [lia|].
      rewrite pm_skip, skip_ws_nl_indent. cbn [append skip_ws]. apply pm_close.
    - inversion HF as [|? ? Hx HF']; subst. cbn [snd] in Hx.
      cbn [forallb fst snd] in Hwf. apply andb_true_iff in Hwf. destruct Hwf as [Hwx Hwl].
      apply andb_true_iff in Hwx. destruct Hwx as [Hk Hwx].
      assert (Hfx : floats_ok x). { intros b Hb. apply Hfl. cbn [flat_map snd]. apply in_or_app. left. exact Hb. }
      assert (Hfl' : floats_ok_l (flat_map (fun kx => sval_floats (snd kx)) l)).
      { intros b Hb. apply Hfl. cbn [flat_map]. apply in_or_app. right. exact Hb. }
      cbn [map_sum fold_right snd] in Hfu. fold (map_sum l) in Hfu.
      cbn [map_maxd fold_right snd] in Hd. fold (map_maxd l) in Hd.
      destruct f as [|f]; [lia|].
      set (tail := print_items (string * sval) (print_entry (S ind)) (S ind) false l ++ nl ++ indent ind ++ "}" ++ rest).
      assert (HE : print_entry (S ind) (k, x) ++ tail
                   = String (chr 34) (escape_str k ++ quote ++ ": " ++ print_val fmt_f64 (S ind) x ++ tail)).
      { unfold print_entry, print_string. rewrite !app_assoc_s. reflexivity. }
      assert (Hstep : map_entry f d (escape_str k ++ quote ++ ": " ++ print_val fmt_f64 (S ind) x ++ tail) = POk ((k, x) :: l) rest).
      { unfold map_entry. rewrite (parse_string_print _ _ Hk).
        change (skip_ws (": " ++ print_val fmt_f64 (S ind) x ++ tail))
          with (String (chr 58) (" " ++ print_val fmt_f64 (S ind) x ++ tail)).
        change (code (chr 58) =? 58) with true. cbv iota.
        rewrite pv_skip. change (skip_ws (" " ++ print_val fmt_f64 (S ind) x ++ tail)) with (skip_ws (print_val fmt_f64 (S ind) x ++ tail)).
        rewrite <- pv_skip.
        rewrite (Hx (S ind) f d tail Hwx Hfx); [| lia | lia | apply num_safe_items].
        unfold tail. rewrite (IH HF' ind rest false f d Hwl Hfl'); [reflexivity | lia | lia]. }
      cbn [print_items]. destruct first.
      + rewrite !app_assoc_s. fold tail. rewrite pm_skip, skip_ws_nl_indent, HE.
        change (skip_ws (String (chr 34) ?X)) with (String (chr 34) X).
        cbn [skip_ws]. change (is_ws (chr 34)) with false. cbv iota.
        rewrite pm_first. exact Hstep.
      + rewrite !app_assoc_s. fold tail. rewrite HE. rewrite pm_next. exact Hstep.
  Qed.

  Lemma print_val_map : forall ind l,
    print_val fmt_f64 ind (SMap l) =
    match l with
    | [] => "{}"
    | _ => "{" ++ print_items (string * sval) (print_entry (S ind)) (S ind) true l ++ nl ++ indent ind ++ "}"
    end.
  Proof. intros ind l. destruct l; reflexivity. Qed.

  Lemma rt_all : forall v, PRT v.
  Proof.
    induction v using sval_ind'; intros ind fuel depth rest Hwf Hfl Hfu Hd Hr.
    - (* SNull *) destruct fuel as [|f]; [cbn in Hfu; lia|]. apply pv_null.
    - (* SBool *) destruct fuel as [|f]; [cbn in Hfu; lia|]. destruct b; [apply pv_true | apply pv_false].
    - (* SInt *)
      destruct fuel as [|f]; [cbn in Hfu; lia|]. cbn [print_val sval_wfb] in *.
      destruct (print_int_head z) as [c [t [E Hc]]].
      assert (HE : print_int z ++ rest = String c (t ++ rest)) by (rewrite E; reflexivity).
      rewrite HE, (pv_num _ _ _ _ Hc), <- HE.
      rewrite (span_num_app _ _ (print_int_num_chars z) Hr).
      rewrite (parse_number_print_int _ _ Hwf). reflexivity.
    - (* SF64 *)
      destruct fuel as [|f]; [cbn in Hfu; lia|]. cbn [print_val sval_wfb] in *.
      unfold print_f64. rewrite Hwf.
      destruct (Hfl bits (or_introl eq_refl)) as [Ht Hp].
      destruct (float_token_head _ Ht) as [c [t [E [Hc Hn]]]].
      assert (HE : fmt_f64 bits ++ rest = String c (t ++ rest)) by (rewrite E; reflexivity).
      rewrite HE, (pv_num _ _ _ _ Hc), <- HE.
      rewrite (span_num_app _ _ Hn Hr).
      rewrite (parse_number_float _ _ _ Ht Hp). reflexivity.
    - (* SStr *)
      destruct fuel as [|f]; [cbn in Hfu; lia|]. cbn [print_val sval_wfb] in *.
      apply pv_print_string. exact Hwf.
    - (* SSeq *)
      change (sval_fuel (SSeq l)) with (S (S (seq_sum l))) in Hfu.
      change (sval_depth (SSeq l)) with (S (seq_maxd l)) in Hd.
      cbn [sval_wfb] in Hwf.
      destruct fuel as [|f]; [lia|]. destruct depth as [|[|d]]; [lia | lia |].
      destruct l as [|x l].
      + destruct f as [|f]; [cbn in Hfu; lia|]. cbn [print_val]. cbn [append].
        change (String "[" (String "]" rest)) with (String (chr 91) (String (chr 93) rest)).
        rewrite pv_seq, ps_close. reflexivity.
      + replace (print_val fmt_f64 ind (SSeq (x :: l)) ++ rest)
          with (String (chr 91) (print_items sval (print_val fmt_f64 (S ind)) (S ind) true (x :: l) ++ nl ++ indent ind ++ "]" ++ rest))
          by (cbn [print_val]; rewrite !app_assoc_s; reflexivity).
        rewrite pv_seq. rewrite (seq_items_rt (x :: l) H ind rest true f (S d) Hwf); [reflexivity | exact Hfl | lia | lia].
    - (* SMap *)
      change (sval_fuel (SMap l)) with (S (S (map_sum l))) in Hfu.
      change (sval_depth (SMap l)) with (S (map_maxd l)) in Hd.
      cbn [sval_wfb] in Hwf.
      destruct fuel as [|f]; [lia|]. destruct depth as [|[|d]]; [lia | lia |].
      destruct l as [|kx l].
      + destruct f as [|f]; [cbn in Hfu; lia|]. cbn [print_val]. cbn [append].
        change (String "{" (String "}" rest)) with (String (chr 123) (String (chr 125) rest)).
        rewrite pv_map, pm_close. reflexivity.
      + replace (print_val fmt_f64 ind (SMap (kx :: l)) ++ rest)
          with (String (chr 123) (print_items (string * sval) (print_entry (S ind)) (S ind) true (kx :: l) ++ nl ++ indent ind ++ "}" ++ rest))
          by (rewrite print_val_map; rewrite !app_assoc_s; reflexivity).
        rewrite pv_map. rewrite (map_items_rt (kx :: l) H ind rest true f (S d) Hwf); [reflexivity | exact Hfl | lia | lia].
  Qed.

  (** ** Top level *)
  Lemma append_nil_r : forall s : string, s ++ "" = s.
  Proof. induction s as [|c r IH]; [reflexivity|]. cbn [append]. rewrite IH. reflexivity. Qed.

  Theorem json_parse_print_fuel : forall v fuel,
    sval_okb v = true -> floats_ok v -> (sval_fuel v <= fuel)%nat ->
    json_parse parse_f64 fuel (json_print fmt_f64 v) = JOk v.
  Proof.
    intros v fuel Hok Hfl Hfu. unfold sval_okb in Hok. apply andb_true_iff in Hok. destruct Hok as [Hwf Hd].
    apply Nat.ltb_lt in Hd.
    unfold json_parse, json_print. rewrite <- (append_nil_r (print_val fmt_f64 0 v)).
    rewrite (rt_all v 0%nat fuel recursion_limit "" Hwf Hfl Hfu Hd I). reflexivity.
  Qed.

  (** one unit of fuel per byte of the text is enough *)
  Lemma length_app : forall a b : string, String.length (a ++ b) = (String.length a + String.length b)%nat.
  Proof. induction a as [|c r IH]; intros b; [reflexivity|]. cbn [append String.length]. rewrite IH. reflexivity. Qed.

  Definition FL (v : sval) : Prop := forall ind, sval_wfb v = true -> floats_ok v ->
    (sval_fuel v <= String.length (print_val fmt_f64 ind v))%nat.

  Lemma fl_scalar : forall v ind, sval_wfb v = true -> floats_ok v -> (1 <= String.length (print_val fmt_f64 ind v))%nat.
  Proof.
    intros v ind Hwf Hfl. destruct (print_val_head v ind Hwf Hfl) as [c [t [E _]]]. rewrite E. cbn [String.length]. lia.
  Qed.

  Lemma fl_seq_items : forall l, Forall FL l -> forall k first,
    forallb sval_wfb l = true -> floats_ok_l (flat_map sval_floats l) ->
    (seq_sum l <= String.length (print_items sval (print_val fmt_f64 k) k first l))%nat.
  Proof.
    induction l as [|x l IH]; intros HF k first Hwf Hfl; [cbn; lia|].
    inversion HF as [|? ? Hx HF']; subst.
    cbn [forallb] in Hwf. apply andb_true_iff in Hwf. destruct Hwf as [Hwx Hwl].
    assert (Hfx : floats_ok x). { intros b Hb. apply Hfl. cbn [flat_map]. apply in_or_app. left. exact Hb. }
    assert (Hfl' : floats_ok_l (flat_map sval_floats l)). { intros b Hb. apply Hfl. cbn [flat_map]. apply in_or_app. right. exact Hb. }
    cbn [seq_sum fold_right]. fold (seq_sum l). cbn [print_items]. rewrite !length_app.
    pose proof (Hx k Hwx Hfx). pose proof (IH HF' k false Hwl Hfl').
    assert (1 <= String.length (if first then nl else "," ++ nl))%nat by (destruct first; cbn; lia).
    lia.
  Qed.

  Lemma fl_map_items : forall l, Forall (fun kx => FL (snd kx)) l -> forall k first,
    forallb (fun kx => utf8_validb (fst kx) && sval_wfb (snd kx)) l = true ->
    floats_ok_l (flat_map (fun kx => sval_floats (snd kx)) l) ->
    (map_sum l <= String.length (print_items (string * sval) (print_entry k) k first l))%nat.
  Proof.
    induction l as [|[key x] l IH]; intros HF k first Hwf Hfl; [cbn; lia|].
    inversion HF as [|? ? Hx HF']; subst. cbn [snd] in Hx.
    cbn [forallb fst snd] in Hwf. apply andb_true_iff in Hwf. destruct Hwf as [Hwx Hwl].
    apply andb_true_iff in Hwx. destruct Hwx as [_ Hwx].
    assert (Hfx : floats_ok x). { intros b Hb. apply Hfl. cbn [flat_map snd]. apply in_or_app. left. exact Hb. }
    assert (Hfl' : floats_ok_l (flat_map (fun kx => sval_floats (snd kx)) l)).
    { intros b Hb. apply Hfl. cbn [flat_map]. apply in_or_app. right. exact Hb. }
    cbn [map_sum fold_right snd]. fold (map_sum l). cbn [print_items]. unfold print_entry at 1. rewrite !length_app.
    pose proof (Hx k Hwx Hfx). pose proof (IH HF' k false Hwl Hfl').
    assert (1 <= String.length (if first then nl else "," ++ nl))%nat by (destruct first; cbn; lia).
    lia.
  Qed.

  Lemma fuel_le_length : forall v, FL v.
  Proof.
    induction v using sval_ind'; intros ind Hwf Hfl;
      try (apply fl_scalar; assumption).
    - change (sval_fuel (SSeq l)) with (S (S (seq_sum l))). cbn [sval_wfb] in Hwf.
      destruct l as [|x l]; [cbn; lia|].
      cbn [print_val]. rewrite !length_app.
      pose proof (fl_seq_items (x :: l) H (S ind) true Hwf Hfl). cbn [String.length] in *. lia.
    - change (sval_fuel (SMap l)) with (S (S (map_sum l))). cbn [sval_wfb] in Hwf.
      destruct l as [|kx l]; [cbn; lia|].
      rewrite print_val_map. rewrite !length_app.
      pose proof (fl_map_items (kx :: l) H (S ind) true Hwf Hfl). cbn [String.length] in *. lia.
  Qed.

  Theorem json_parse_print : forall v,
    sval_okb v = true -> floats_ok v ->
    json_parse_text parse_f64 (json_print fmt_f64 v) = JOk v.
  Proof.
    intros v Hok Hfl. unfold json_parse_text. apply json_parse_print_fuel; [exact Hok | exact Hfl |].
    pose proof Hok as Hok'. unfold sval_okb in Hok'. apply andb_true_iff in Hok'. destruct Hok' as [Hwf _].
    pose proof (fuel_le_length v 0%nat Hwf Hfl). unfold json_print in *. lia.
  Qed.

  (** ** [dedent] leaves printed text alone *)
  Definition st_ok (st : lstate) : Prop := st = LStart \/ st = LIn.

  Lemma lrun_escape_byte : forall c, lrun LIn (escape_byte c) = LIn.
  Proof. intros c. destruct c as [[] [] [] [] [] [] [] []]; reflexivity. Qed.
  Lemma lrun_escape_str : forall s, lrun LIn (escape_str s) = LIn.
  Proof. induction s as [|c r IH]; [reflexivity|]. cbn [escape_str]. rewrite lrun_app, lrun_escape_byte. exact IH. Qed.
  Lemma lrun_print_string : forall st s, st_ok st -> lrun st (print_string s) = LIn.
  Proof.
    intros st s Hst. unfold print_string. rewrite !lrun_app.
    assert (E : lrun st quote = LIn) by (destruct Hst as [-> | ->]; reflexivity).
    rewrite E, lrun_escape_str. reflexivity.
  Qed.
  Lemma lstep_num_char : forall c, is_num_char c = true -> lstep LIn c = LIn.
  Proof. intros c H. destruct c as [[] [] [] [] [] [] [] []]; try reflexivity; cbv in H; discriminate H. Qed.
  Lemma lstep_num_start : forall st c, st_ok st -> num_start c = true -> lstep st c = LIn.
  Proof.
    intros st c Hst H. destruct Hst as [-> | ->];
      destruct c as [[] [] [] [] [] [] [] []]; try reflexivity; cbv in H; discriminate H.
  Qed.
  Lemma lrun_num_chars : forall t, forallb_str is_num_char t = true -> lrun LIn t = LIn.
  Proof.
    induction t as [|c r IH]; intros H; [reflexivity|]. cbn [forallb_str] in H. apply andb_true_iff in H.
    destruct H as [H1 H2]. cbn [lrun]. rewrite (lstep_num_char _ H1). apply IH. exact H2.
  Qed.
  Lemma lrun_num_token : forall st c t, st_ok st -> num_start c = true -> forallb_str is_num_char (String c t) = true ->
    lrun st (String c t) = LIn.
  Proof.
    intros st c t Hst Hc H. cbn [forallb_str] in H. apply andb_true_iff in H. destruct H as [_ H].
    cbn [lrun]. rewrite (lstep_num_start _ _ Hst Hc). apply lrun_num_chars. exact H.
  Qed.
  Lemma lrun_indent : forall k, lrun LStart (indent k) = LStart.
  Proof. induction k as [|k IH]; [reflexivity|]. cbn [indent]. rewrite lrun_app. exact IH. Qed.

  Definition LR (v : sval) : Prop := forall ind st, st_ok st -> sval_wfb v = true -> floats_ok v ->
    lrun st (print_val fmt_f64 ind v) = LIn.

  Lemma lr_seq_items : forall l, Forall LR l -> forall k first,
    forallb sval_wfb l = true -> floats_ok_l (flat_map sval_floats l) ->
    lrun LIn (print_items sval (print_val fmt_f64 k) k first l) = LIn.
  Proof.
    induction l as [|x l IH]; intros HF k first Hwf Hfl; [reflexivity|].
    inversion HF as [|? ? Hx HF']; subst.
    cbn [forallb] in Hwf. apply andb_true_iff in Hwf. destruct Hwf as [Hwx Hwl].
    assert (Hfx : floats_ok x). { intros b Hb. apply Hfl. cbn [flat_map]. apply in_or_app. left. exact Hb. }
    assert (Hfl' : floats_ok_l (flat_map sval_floats l)). { intros b Hb. apply Hfl. cbn [flat_map]. apply in_or_app. right. exact Hb. }
    cbn [print_items]. rewrite !lrun_app.
    assert (E : lrun LIn (if first then nl else "," ++ nl) = LStart) by (destruct first; reflexivity).
    rewrite E, lrun_indent, (Hx k LStart (or_introl eq_refl) Hwx Hfx). apply IH; assumption.
  Qed.

  Lemma lr_map_items : forall l, Forall (fun kx => LR (snd kx)) l -> forall k first,
    forallb (fun kx => utf8_validb (fst kx) && sval_wfb (snd kx)) l = true ->
    floats_ok_l (flat_map (fun kx => sval_floats (snd kx)) l) ->
    lrun LIn (print_items (string * sval) (print_entry k) k first l) = LIn.
  Proof.
    induction l as [|[key x] l IH]; intros HF k first Hwf Hfl; [reflexivity|].
    inversion HF as [|? ? Hx HF']; subst. cbn [snd] in Hx.
    cbn [forallb fst snd] in Hwf. apply andb_true_iff in Hwf. destruct Hwf as [Hwx Hwl].
    apply andb_true_iff in Hwx. destruct Hwx as [_ Hwx].
    assert (Hfx : floats_ok x). { intros b Hb. apply Hfl. cbn [flat_map snd]. apply in_or_app. left. exact Hb. }
    assert (Hfl' : floats_ok_l (flat_map (fun kx => sval_floats (snd kx)) l)).
    { intros b Hb. apply Hfl. cbn [flat_map]. apply in_or_app. right. exact Hb. }
    cbn [print_items]. unfold print_entry at 1. rewrite !lrun_app.
    assert (E : lrun LIn (if first then nl else "," ++ nl) = LStart) by (destruct first; reflexivity).
    rewrite E, lrun_indent, (lrun_print_string LStart key (or_introl eq_refl)).
    change (lrun LIn ": ") with LIn.
    rewrite (Hx k LIn (or_intror eq_refl) Hwx Hfx). apply IH; assumption.
  Qed.

  Lemma lr_all : forall v, LR v.
  Proof.
    induction v using sval_ind'; intros ind st Hst Hwf Hfl.
    - destruct Hst as [-> | ->]; reflexivity.
    - destruct Hst as [-> | ->]; destruct b; reflexivity.
    - cbn [print_val]. destruct (print_int_head z) as [c [t [E Hc]]].
      pose proof (print_int_num_chars z) as Hn. rewrite E in *. apply lrun_num_token; assumption.
    - cbn [print_val sval_wfb] in *. unfold print_f64. rewrite Hwf.
      destruct (Hfl bits (or_introl eq_refl)) as [Ht _].
      destruct (float_token_head _ Ht) as [c [t [E [Hc Hn]]]]. rewrite E in *. apply lrun_num_token; assumption.
    - cbn [print_val]. apply lrun_print_string. exact Hst.
    - cbn [sval_wfb] in Hwf. destruct l as [|x l]; [destruct Hst as [-> | ->]; reflexivity|].
      cbn [print_val]. rewrite !lrun_app.
      assert (E : lrun st "[" = LIn) by (destruct Hst as [-> | ->]; reflexivity).
      rewrite E, (lr_seq_items (x :: l) H (S ind) true Hwf Hfl).
      change (lrun LIn nl) with LStart. rewrite lrun_indent. reflexivity.
    - cbn [sval_wfb] in Hwf. destruct l as [|kx l]; [destruct Hst as [-> | ->]; reflexivity|].
      rewrite print_val_map. rewrite !lrun_app.
      assert (E : lrun st "{" = LIn) by (destruct Hst as [-> | ->]; reflexivity).
      rewrite E, (lr_map_items (kx :: l) H (S ind) true Hwf Hfl).
      change (lrun LIn nl) with LStart. rewrite lrun_indent. reflexivity.
  Qed.

  Theorem dedent_json_print : forall v, sval_wfb v = true -> floats_ok v ->
    dedent (json_print fmt_f64 v) = json_print fmt_f64 v.
  Proof.
    intros v Hwf Hfl. unfold json_print.
    pose proof (lr_all v 0%nat LStart (or_introl eq_refl) Hwf Hfl) as Hl.
    destruct (print_val_head v 0%nat Hwf Hfl) as [c [t [E Hc]]]. rewrite E in *.
    apply dedent_id; [|exact Hl].
    intros H32. apply val_head_ws in Hc. unfold is_ws in Hc. rewrite H32 in Hc. discriminate Hc.
  Qed.

  (** [SerializationFormat::Json.from_str] after [SerializationFormat::Json.to_string], at the level of the data model *)
  Theorem json_from_str_print : forall v,
    sval_okb v = true -> floats_ok v ->
    json_from_str_text parse_f64 (json_print fmt_f64 v) = JOk v.
  Proof.
    intros v Hok Hfl. unfold json_from_str_text.
    pose proof Hok as Hok'. unfold sval_okb in Hok'. apply andb_true_iff in Hok'. destruct Hok' as [Hwf _].
    rewrite (dedent_json_print v Hwf Hfl). apply json_parse_print; assumption.
  Qed.
End ParseRT.

(** the doubles of a well-formed value are finite *)
Lemma wf_floats_finite : forall v, sval_wfb v = true -> forall x, In x (sval_floats v) -> f64_finiteb x = true.
Proof.
  induction v using sval_ind'; intros Hwf fb Hb; try contradiction.
  - cbn in Hb. destruct Hb as [<- | []]. exact Hwf.
  - cbn [sval_wfb sval_floats] in *. induction H as [|y l Hx HF IH]; [contradiction|].
    cbn [forallb flat_map] in *. apply andb_true_iff in Hwf. destruct Hwf as [H1 H2].
    apply in_app_or in Hb. destruct Hb as [Hb|Hb]; [apply (Hx H1 fb Hb) | apply (IH H2 Hb)].
  - cbn [sval_wfb sval_floats] in *. induction H as [|y l Hx HF IH]; [contradiction|].
    cbn [forallb flat_map] in *. apply andb_true_iff in Hwf. destruct Hwf as [H1 H2].
    apply andb_true_iff in H1. destruct H1 as [_ H1].
    apply in_app_or in Hb. destruct Hb as [Hb|Hb]; [apply (Hx H1 fb Hb) | apply (IH H2 Hb)].
Qed.

(** * Composition with layer 1 *)
Local Open Scope nat_scope.

Definition tt_fields :=
  fix go (fs : list field) : bool :=
    match fs with
    | [] => true
    | Field sn _ _ _ t' :: fs' => utf8_validb sn && ty_textb t' && go fs'
    end.
Definition tt_enum :=
  fix go (vs : list (string * option ty)) : bool :=
    match vs with
    | [] => true
    | (n, None) :: vs' => utf8_validb n && go vs'
    | (n, Some t') :: vs' => utf8_validb n && ty_textb t' && go vs'
    end.
Definition td_fields :=
  fix go (fs : list field) : nat :=
    match fs with
    | [] => O
    | Field _ _ _ _ t' :: fs' => Nat.max (ty_depth t') (go fs')
    end.
Definition td_enum :=
  fix go (vs : list (string * option ty)) : nat :=
    match vs with
    | [] => O
    | (_, None) :: vs' => go vs'
    | (_, Some t') :: vs' => Nat.max (ty_depth t') (go vs')
    end.
Definition td_tuple (ts : list ty) : nat := fold_right (fun t' a => Nat.max (ty_depth t') a) O ts.
Lemma tt_fields_eq : forall fs, ty_textb (TStruct fs) = tt_fields fs. Proof. reflexivity. Qed.
Lemma tt_enum_eq : forall vs, ty_textb (TEnum vs) = tt_enum vs. Proof. reflexivity. Qed.
Lemma td_fields_eq : forall fs, ty_depth (TStruct fs) = S (td_fields fs). Proof. reflexivity. Qed.
Lemma td_enum_eq : forall vs, ty_depth (TEnum vs) = S (td_enum vs). Proof. reflexivity. Qed.
Lemma td_tuple_eq : forall ts, ty_depth (TTuple ts) = S (td_tuple ts). Proof. reflexivity. Qed.

(** ** the serialised value is printable text *)
Definition WF (t : ty) : Prop := forall v,
  ty_textb t = true -> wt t v = true -> val_textb v = true -> sval_wfb (ser t v) = true.

Lemma wf_list : forall t, WF t -> forall l, ty_textb t = true -> forallb (wt t) l = true -> forallb val_textb l = true ->
  forallb sval_wfb (map (ser t) l) = true.
Proof.
  intros t Ht. induction l as [|x l IH]; intros Hs Hw Hv; [reflexivity|].
  cbn [forallb map] in *. apply andb_true_iff in Hw. destruct Hw as [Hw1 Hw2].
  apply andb_true_iff in Hv. destruct Hv as [Hv1 Hv2].
  rewrite (Ht x Hs Hw1 Hv1), (IH Hs Hw2 Hv2). reflexivity.
Qed.

Lemma wf_tuple : forall ts, Forall WF ts -> forall l,
  forallb ty_textb ts = true -> wt_tuple ts l = true -> forallb val_textb l = true ->
  forallb sval_wfb (ser_tuple ts l) = true.
Proof.
  induction ts as [|t ts IH]; intros HF l Hs Hw Hv.
  - destruct l; reflexivity.
  - inversion HF as [|? ? Ht HF']; subst. destruct l as [|x l]; [discriminate Hw|].
    cbn [forallb wt_tuple ser_tuple] in *.
    apply andb_true_iff in Hs. destruct Hs as [Hs1 Hs2].
    apply andb_true_iff in Hw. destruct Hw as [Hw1 Hw2].
    apply andb_true_iff in Hv. destruct Hv as [Hv1 Hv2].
    rewrite (Ht x Hs1 Hw1 Hv1), (IH HF' l Hs2 Hw2 Hv2). reflexivity.
Qed.

Lemma wf_fields : forall fs, Forall (on_field WF) fs -> forall l,
  tt_fields fs = true -> wt_fields fs l = true -> forallb val_textb l = true ->
  forallb (fun kx => utf8_validb (fst kx) && sval_wfb (snd kx)) (ser_fields fs l) = true.
Proof.
  induction fs as [|[sn dn k dflt t'] fs IH]; intros HF l Hs Hw Hv.
  - destruct l; reflexivity.
  - inversion HF as [|? ? Ht HF']; subst. unfold on_field in Ht. cbn [f_ty] in Ht.
    destruct l as [|x l]; [discriminate Hw|].
    cbn [tt_fields wt_fields ser_fields forallb] in *.
    apply andb_true_iff in Hs. destruct Hs as [Hs Hs3]. apply andb_true_iff in Hs. destruct Hs as [Hs1 Hs2].
    apply andb_true_iff in Hw. destruct Hw as [Hw1 Hw2].
    apply andb_true_iff in Hv. destruct Hv as [Hv1 Hv2].
    pose proof (IH HF' l Hs3 Hw2 Hv2) as Hrest.
    destruct (skipped k x); [exact Hrest|].
    cbn [forallb fst snd]. rewrite Hs1, (Ht x Hs2 Hw1 Hv1), Hrest. reflexivity.
Qed.

Lemma wf_enum : forall vs, Forall (on_variant WF) vs -> forall i p,
  tt_enum vs = true -> wt_enum p vs i = true -> val_textb (VVariant i p) = true ->
  sval_wfb (ser_enum p vs i) = true.
Proof.
  induction vs as [|[n o] vs IH]; intros HF i p Hs Hw Hv.
  - destruct i; discriminate Hw.
  - inversion HF as [|? ? Ht HF']; subst. unfold on_variant in Ht. cbn [snd] in Ht.
    destruct i as [|i]; destruct o as [t'|]; cbn [tt_enum wt_enum ser_enum] in *.
    + destruct p as [x|]; [|discriminate Hw].
      apply andb_true_iff in Hs. destruct Hs as [Hs Hs3]. apply andb_true_iff in Hs. destruct Hs as [Hs1 Hs2].
      cbn [val_textb] in Hv. cbn [sval_wfb forallb fst snd]. rewrite Hs1, (Ht x Hs2 Hw Hv). reflexivity.
    + apply andb_true_iff in Hs. destruct Hs as [Hs1 _]. exact Hs1.
    + apply andb_true_iff in Hs. destruct Hs as [_ Hs3]. apply (IH HF' i p Hs3 Hw). destruct p; exact Hv.
    + apply andb_true_iff in Hs. destruct Hs as [_ Hs3]. apply (IH HF' i p Hs3 Hw). destruct p; exact Hv.
Qed.

Lemma ser_wf : forall t, WF t.
Proof.
  induction t using ty_ind'; intros v Hs Hw Hv.
  - destruct v; simpl in Hw; try discriminate Hw. reflexivity.
  - destruct v; simpl in Hw; try discriminate Hw. cbn [ser sval_wfb]. cbn [ty_textb] in Hs.
    unfold int_in_rangeb. apply andb_true_iff in Hs. destruct Hs as [H1 H2].
    apply andb_true_iff in Hw. destruct Hw as [H3 H4].
    apply Z.leb_le in H1. apply Z.ltb_lt in H2. apply Z.leb_le in H3. apply Z.leb_le in H4.
    apply andb_true_iff. split; [apply Z.leb_le | apply Z.ltb_lt]; lia.
  - destruct v; simpl in Hw; try discriminate Hw. exact Hv.
  - destruct v; simpl in Hw; try discriminate Hw. exact Hv.
  - destruct v; simpl in Hw; try discriminate Hw. exact Hv.
  - destruct v; simpl in Hw; try discriminate Hw. exact Hv.
  - reflexivity.
  - destruct v; simpl in Hw; try discriminate Hw; [reflexivity|]. cbn [ser]. apply IHt; assumption.
  - destruct v; simpl in Hw; try discriminate Hw. cbn [ser sval_wfb]. apply wf_list; assumption.
  - destruct v; simpl in Hw; try discriminate Hw. apply andb_true_iff in Hw. destruct Hw as [_ Hw].
    cbn [ser sval_wfb]. apply wf_list; assumption.
  - destruct v; try (simpl in Hw; discriminate Hw). rewrite wt_tuple_eq in Hw. rewrite ser_tuple_eq.
    cbn [sval_wfb]. apply wf_tuple; assumption.
  - simpl in *. apply IHt; assumption.
  - destruct v; try (simpl in Hw; discriminate Hw). rewrite wt_fields_eq in Hw. rewrite ser_fields_eq.
    rewrite tt_fields_eq in Hs. cbn [sval_wfb]. apply wf_fields; assumption.
  - destruct v; try (simpl in Hw; discriminate Hw). rewrite wt_enum_eq in Hw. rewrite ser_enum_eq.
    rewrite tt_enum_eq in Hs. apply wf_enum; assumption.
Qed.

(** ** its nesting is bounded by the shape *)
Definition DP (t : ty) : Prop := forall v, sval_depth (ser t v) <= ty_depth t.

Lemma sval_depth_seq : forall l, sval_depth (SSeq l) = S (seq_maxd l). Proof. reflexivity. Qed.
Lemma sval_depth_map : forall l, sval_depth (SMap l) = S (map_maxd l). Proof. reflexivity. Qed.

Lemma dp_list : forall t, DP t -> forall l, seq_maxd (map (ser t) l) <= ty_depth t.
Proof.
  intros t Ht. induction l as [|x l IH]; [cbn; lia|].
  cbn [map seq_maxd fold_right]. fold (seq_maxd (map (ser t) l)). pose proof (Ht x). lia.
Qed.
Lemma dp_tuple : forall ts, Forall DP ts -> forall l, seq_maxd (ser_tuple ts l) <= td_tuple ts.
Proof.
  induction ts as [|t ts IH]; intros HF l; [destruct l; cbn; lia|].
  inversion HF as [|? ? Ht HF']; subst. destruct l as [|x l]; [cbn; lia|].
  cbn [ser_tuple seq_maxd td_tuple fold_right]. fold (seq_maxd (ser_tuple ts l)). fold (td_tuple ts).
  pose proof (Ht x). pose proof (IH HF' l). lia.
Qed.
Lemma dp_fields : forall fs, Forall (on_field DP) fs -> forall l, map_maxd (ser_fields fs l) <= td_fields fs.
Proof.
  induction fs as [|[sn dn k dflt t'] fs IH]; intros HF l; [destruct l; cbn; lia|].
  inversion HF as [|? ? Ht HF']; subst. unfold on_field in Ht. cbn [f_ty] in Ht.
  destruct l as [|x l]; [cbn; lia|].
  cbn [ser_fields td_fields]. pose proof (IH HF' l). destruct (skipped k x); [lia|].
  cbn [map_maxd fold_right snd]. fold (map_maxd (ser_fields fs l)). pose proof (Ht x). lia.
Qed.
Lemma dp_enum : forall vs, Forall (on_variant DP) vs -> forall i p, sval_depth (ser_enum p vs i) <= S (td_enum vs).
Proof.
  induction vs as [|[n o] vs IH]; intros HF i p; [destruct i; cbn; lia|].
  inversion HF as [|? ? Ht HF']; subst. unfold on_variant in Ht. cbn [snd] in Ht.
  destruct i as [|i]; destruct o as [t'|]; cbn [ser_enum td_enum].
  - destruct p as [x|]; [|cbn; lia]. rewrite sval_depth_map. cbn [map_maxd fold_right snd]. pose proof (Ht x). lia.
  - cbn. lia.
  - pose proof (IH HF' i p). lia.
  - apply (IH HF' i p).
Qed.

Lemma ser_depth : forall t, DP t.
Proof.
  induction t using ty_ind'; intros v;
    try (destruct v; cbn; lia).
  - (* TOption *) destruct v; try (cbn; lia). cbn [ser ty_depth]. apply IHt.
  - (* TVec *) destruct v; try (cbn; lia). cbn [ser ty_depth]. rewrite sval_depth_seq. pose proof (dp_list t IHt l). lia.
  - (* TArray *) destruct v; try (cbn; lia). cbn [ser ty_depth]. rewrite sval_depth_seq. pose proof (dp_list t IHt l). lia.
  - (* TTuple *) destruct v; try (cbn; lia). rewrite ser_tuple_eq, td_tuple_eq, sval_depth_seq. pose proof (dp_tuple ts H l). lia.
  - (* TNewtype *) cbn [ser ty_depth]. apply IHt.
  - (* TStruct *) destruct v; try (cbn; lia). rewrite ser_fields_eq, td_fields_eq, sval_depth_map. pose proof (dp_fields fs H l). lia.
  - (* TEnum *) destruct v; try (cbn; lia). rewrite ser_enum_eq, td_enum_eq. apply dp_enum. exact H.
Qed.

(** ** its doubles are doubles of the value *)
Definition FLT (t : ty) : Prop := forall v b, In b (sval_floats (ser t v)) -> In b (val_floats v).

Lemma flt_list : forall t, FLT t -> forall l b, In b (flat_map sval_floats (map (ser t) l)) -> In b (flat_map val_floats l).
Proof.
  intros t Ht. induction l as [|x l IH]; intros b Hb; [exact Hb|].
  cbn [map flat_map] in *. apply in_app_or in Hb. apply in_or_app. destruct Hb as [Hb|Hb]; [left; apply Ht; exact Hb | right; apply IH; exact Hb].
Qed.
Lemma flt_tuple : forall ts, Forall FLT ts -> forall l b, In b (flat_map sval_floats (ser_tuple ts l)) -> In b (flat_map val_floats l).
Proof.
  induction ts as [|t ts IH]; intros HF l b Hb; [destruct l; contradiction|].
  inversion HF as [|? ? Ht HF']; subst. destruct l as [|x l]; [contradiction|].
  cbn [ser_tuple flat_map] in *. apply in_app_or in Hb. apply in_or_app.
  destruct Hb as [Hb|Hb]; [left; apply Ht; exact Hb | right; apply (IH HF'); exact Hb].
Qed.
Lemma flt_fields : forall fs, Forall (on_field FLT) fs -> forall l b,
  In b (flat_map (fun kx => sval_floats (snd kx)) (ser_fields fs l)) -> In b (flat_map val_floats l).
Proof.
  induction fs as [|[sn dn k dflt t'] fs IH]; intros HF l b Hb; [destruct l; contradiction|].
  inversion HF as [|? ? Ht HF']; subst. unfold on_field in Ht. cbn [f_ty] in Ht.
  destruct l as [|x l]; [contradiction|].
  cbn [ser_fields] in Hb. cbn [flat_map]. apply in_or_app. destruct (skipped k x).
  - right. apply (IH HF'). exact Hb.
  - cbn [flat_map snd] in Hb. apply in_app_or in Hb. destruct Hb as [Hb|Hb]; [left; apply Ht; exact Hb | right; apply (IH HF'); exact Hb].
Qed.
Lemma flt_enum : forall vs, Forall (on_variant FLT) vs -> forall i p b,
  In b (sval_floats (ser_enum p vs i)) -> In b (val_floats (VVariant i p)).
Proof.
  induction vs as [|[n o] vs IH]; intros HF i p b Hb; [destruct i; contradiction|].
  inversion HF as [|? ? Ht HF']; subst. unfold on_variant in Ht. cbn [snd] in Ht.
  destruct i as [|i]; destruct o as [t'|]; cbn [ser_enum] in Hb.
  - destruct p as [x|]; [|contradiction]. cbn [sval_floats flat_map snd] in Hb. rewrite app_nil_r in Hb.
    cbn [val_floats]. apply Ht. exact Hb.
  - contradiction.
  - pose proof (IH HF' i p b Hb) as H. destruct p; exact H.
  - pose proof (IH HF' i p b Hb) as H. destruct p; exact H.
Qed.

Lemma ser_floats : forall t, FLT t.
Proof.
  induction t using ty_ind'; intros v b Hb;
    try (destruct v; cbn in Hb; solve [contradiction | exact Hb]).
  - (* TOption *) destruct v; try (cbn in Hb; contradiction). cbn [ser] in Hb. cbn [val_floats]. apply IHt. exact Hb.
  - (* TVec *) destruct v; try (cbn in Hb; contradiction). cbn [ser sval_floats] in Hb. cbn [val_floats]. apply (flt_list t IHt). exact Hb.
  - (* TArray *) destruct v; try (cbn in Hb; contradiction). cbn [ser sval_floats] in Hb. cbn [val_floats]. apply (flt_list t IHt). exact Hb.
  - (* TTuple *) destruct v; try (cbn in Hb; contradiction). rewrite ser_tuple_eq in Hb. cbn [sval_floats] in Hb. cbn [val_floats]. apply (flt_tuple ts H). exact Hb.
  - (* TNewtype *) cbn [ser] in Hb. apply IHt. exact Hb.
  - (* TStruct *) destruct v; try (cbn in Hb; contradiction). rewrite ser_fields_eq in Hb. cbn [sval_floats] in Hb. cbn [val_floats]. apply (flt_fields fs H). exact Hb.
  - (* TEnum *) destruct v; try (cbn in Hb; contradiction). rewrite ser_enum_eq in Hb. apply (flt_enum vs H). exact Hb.
Qed.

(** ** End to end at model level: to_string, then from_str / open, give the value back *)
Section EndToEnd.
  Variable fmt_f64 : Z -> string.
  Variable parse_f64 : string -> option Z.

  Theorem json_typed_roundtrip : forall t v,
    shape_ok t = true -> ty_json_okb t = true ->
    wt t v = true -> skipped_default t v = true -> val_textb v = true ->
    (forall b, In b (val_floats v) -> float_pair_ok fmt_f64 parse_f64 b) ->
    json_from_str_ty parse_f64 t (json_to_string fmt_f64 t v) = Some v /\
    json_open_ty parse_f64 t (json_to_string fmt_f64 t v) = Some v.
  Proof.
    intros t v Hs Hj Hw Hd Hv Hf. unfold ty_json_okb in Hj. apply andb_true_iff in Hj. destruct Hj as [Ht Hdp].
    apply Nat.ltb_lt in Hdp.
    assert (Hok : sval_okb (ser t v) = true).
    { unfold sval_okb. rewrite (ser_wf t v Ht Hw Hv). cbn [andb]. apply Nat.ltb_lt. pose proof (ser_depth t v). lia. }
    assert (Hfl : floats_ok fmt_f64 parse_f64 (ser t v)).
    { intros b Hb. apply Hf. apply (ser_floats t v b Hb). }
    unfold json_from_str_ty, json_open_ty, json_to_string.
    rewrite (json_from_str_print fmt_f64 parse_f64 _ Hok Hfl), (json_parse_print fmt_f64 parse_f64 _ Hok Hfl).
    split; apply de_ser; assumption.
  Qed.
End EndToEnd.

Local Open Scope N_scope.
(** * Every sequence of Unicode scalar values, encoded in UTF-8, is a string the theorems cover *)

Ltac ncmp :=
  repeat match goal with
         | |- context [?x <? ?y] => destruct (N.ltb_spec x y); try lia
         | |- context [?x <=? ?y] => destruct (N.leb_spec x y); try lia
         | |- context [?x =? ?y] => destruct (N.eqb_spec x y); try lia
         end.

Lemma valid1 : forall a s, a < 128 -> utf8_validb (String (chr a) s) = utf8_validb s.
Proof. intros a s H. cbn [utf8_validb]. rewrite code_chr by lia. ncmp. reflexivity. Qed.

Lemma valid2 : forall a b s, 194 <= a <= 223 -> 128 <= b <= 191 ->
  utf8_validb (String (chr a) (String (chr b) s)) = utf8_validb s.
Proof.
  intros a b s Ha Hb. cbn [utf8_validb]. unfold cont. rewrite !code_chr by lia. ncmp. reflexivity.
Qed.

Lemma valid3 : forall a b c s, 224 <= a <= 239 -> 128 <= b <= 191 -> 128 <= c <= 191 ->
  (a = 224 -> 160 <= b) -> (a = 237 -> b <= 159) ->
  utf8_validb (String (chr a) (String (chr b) (String (chr c) s))) = utf8_validb s.
Proof.
  intros a b c s Ha Hb Hc H1 H2. cbn [utf8_validb]. unfold cont, in_range. rewrite !code_chr by lia.
  ncmp; reflexivity.
Qed.

Lemma valid4 : forall a b c d s, 240 <= a <= 244 -> 128 <= b <= 191 -> 128 <= c <= 191 -> 128 <= d <= 191 ->
  (a = 240 -> 144 <= b) -> (a = 244 -> b <= 143) ->
  utf8_validb (String (chr a) (String (chr b) (String (chr c) (String (chr d) s)))) = utf8_validb s.
Proof.
  intros a b c d s Ha Hb Hc Hd H1 H2. cbn [utf8_validb]. unfold cont, in_range. rewrite !code_chr by lia.
  ncmp; reflexivity.
Qed.

#[local] Ltac Zify.zify_post_hook ::= Z.to_euclidean_division_equations.

Lemma utf8_encode_valid : forall n s, scalar_value n -> utf8_validb (utf8_encode n ++ s) = utf8_validb s.
Proof.
  intros n s [Hlt Hns]. unfold utf8_encode.
  destruct (N.ltb_spec n 128).
  { cbn [str1 append]. apply valid1. assumption. }
  destruct (N.ltb_spec n 2048).
  { cbn [str1 append]. apply valid2; lia. }
  destruct (N.ltb_spec n 65536).
  { cbn [str1 append]. apply valid3; lia. }
  cbn [str1 append]. apply valid4; lia.
Qed.


Theorem utf8_of_scalars_valid : forall l, Forall scalar_value l -> utf8_validb (utf8_of_scalars l) = true.
Proof.
  induction l as [|n l IH]; intros H; [reflexivity|]. inversion H; subst.
  cbn [utf8_of_scalars]. rewrite utf8_encode_valid by assumption. apply IH. assumption.
Qed.
