(** Generic model of serde-derive's Serialize/Deserialize for the shapes of types used in
    gds21/src/data.rs and lef21/src/data.rs, at the level of a self-describing value tree
    ([sval]: what serde_json / serde_yaml see).  The concrete shapes are GENERATED from the
    Rust sources on every run (coq/Gen/SerdeShapeGen.v, tools/translate_serde_shapes.py).

    Rules modelled (serde_derive 1.x, externally tagged enums, no container attributes):
    - struct            -> map of (name, value) in declaration order, fields omitted per
                           `skip_serializing_if = Option::is_none | Vec::is_empty | is_false` and `skip_serializing`
    - missing field on deserialisation: `default` -> Default::default(); otherwise an Option field -> None;
      otherwise an error.  Unknown keys are ignored.
    - newtype struct    -> its content (transparent); tuple struct / tuple / array -> sequence
    - unit struct       -> null;  Option: None -> null, Some v -> v
    - enum: unit variant -> the variant name as a string; other variants -> one-entry map name -> payload
    Leaves: bool, integers (with range), f64 (bit pattern), strings, chars and decimals (as strings).
    No proofs in this file. *)
From Coq Require Import ZArith Bool List String.
Import ListNotations.
Local Open Scope Z_scope.

Inductive sval :=
| SNull | SBool (b : bool) | SInt (z : Z) | SF64 (bits : Z) | SStr (s : string)
| SSeq (l : list sval) | SMap (l : list (string * sval)).

Inductive skip := SkNever | SkIfNone | SkIfEmpty | SkIfFalse | SkAlways.

Inductive ty :=
| TBool | TInt (lo hi : Z) | TF64 | TStr | TChar | TDec | TUnit
| TOption (t : ty) | TVec (t : ty) | TArray (n : nat) (t : ty) | TTuple (ts : list ty)
| TNewtype (t : ty)
| TStruct (fs : list field)
| TEnum (vs : list (string * option ty))
with field := Field (sername dename : string) (sk : skip) (dflt : bool) (t : ty).

Definition f_ser '(Field s _ _ _ _) := s.
Definition f_de '(Field _ d _ _ _) := d.
Definition f_skip '(Field _ _ k _ _) := k.
Definition f_dflt '(Field _ _ _ d _) := d.
Definition f_ty '(Field _ _ _ _ t) := t.

(** Values of the Rust types, untyped tree + a typing judgement [wt]. *)
Inductive val :=
| VNull | VB (b : bool) | VI (z : Z) | VF (bits : Z) | VS (s : string)
| VNone | VSome (v : val)
| VList (l : list val)                (* Vec, array, tuple, struct fields in declaration order *)
| VVariant (i : nat) (p : option val).

Fixpoint val_eqb (a b : val) : bool :=
  match a, b with
  | VNull, VNull => true
  | VB x, VB y => Bool.eqb x y
  | VI x, VI y => x =? y
  | VF x, VF y => x =? y
  | VS x, VS y => String.eqb x y
  | VNone, VNone => true
  | VSome x, VSome y => val_eqb x y
  | VList l, VList m =>
      (fix go (l m : list val) : bool :=
         match l, m with
         | [], [] => true
         | x :: l', y :: m' => val_eqb x y && go l' m'
         | _, _ => false
         end) l m
  | VVariant i p, VVariant j q =>
      Nat.eqb i j && match p, q with
                     | None, None => true
                     | Some x, Some y => val_eqb x y
                     | _, _ => false
                     end
  | _, _ => false
  end.

Fixpoint sval_eqb (a b : sval) : bool :=
  match a, b with
  | SNull, SNull => true
  | SBool x, SBool y => Bool.eqb x y
  | SInt x, SInt y => x =? y
  | SF64 x, SF64 y => x =? y
  | SStr x, SStr y => String.eqb x y
  | SSeq l, SSeq m =>
      (fix go (l m : list sval) : bool :=
         match l, m with
         | [], [] => true
         | x :: l', y :: m' => sval_eqb x y && go l' m'
         | _, _ => false
         end) l m
  | SMap l, SMap m =>
      (fix go (l m : list (string * sval)) : bool :=
         match l, m with
         | [], [] => true
         | (k, x) :: l', (k', y) :: m' => String.eqb k k' && sval_eqb x y && go l' m'
         | _, _ => false
         end) l m
  | _, _ => false
  end.

Definition default_val (t : ty) : val :=
  match t with
  | TBool => VB false
  | TInt _ _ => VI 0
  | TStr | TChar | TDec => VS EmptyString
  | TOption _ => VNone
  | TVec _ => VList []
  | _ => VNull
  end.

Definition skipped (k : skip) (v : val) : bool :=
  match k, v with
  | SkNever, _ => false
  | SkAlways, _ => true
  | SkIfNone, VNone => true
  | SkIfEmpty, VList [] => true
  | SkIfFalse, VB false => true
  | _, _ => false
  end.

(** * Typing *)
Fixpoint wt (t : ty) (v : val) {struct t} : bool :=
  match t, v with
  | TBool, VB _ => true
  | TInt lo hi, VI z => (lo <=? z) && (z <=? hi)
  | TF64, VF b => (0 <=? b) && (b <? 18446744073709551616)
  | TStr, VS _ | TChar, VS _ | TDec, VS _ => true
  | TUnit, VNull => true
  | TOption _, VNone => true
  | TOption t', VSome x => wt t' x
  | TVec t', VList l => forallb (wt t') l
  | TArray n t', VList l => Nat.eqb (List.length l) n && forallb (wt t') l
  | TTuple ts, VList l =>
      (fix go (ts : list ty) (l : list val) : bool :=
         match ts, l with
         | [], [] => true
         | t' :: ts', x :: l' => wt t' x && go ts' l'
         | _, _ => false
         end) ts l
  | TNewtype t', _ => wt t' v
  | TStruct fs, VList l =>
      (fix go (fs : list field) (l : list val) : bool :=
         match fs, l with
         | [], [] => true
         | Field _ _ _ _ t' :: fs', x :: l' => wt t' x && go fs' l'
         | _, _ => false
         end) fs l
  | TEnum vs, VVariant i p =>
      (fix go (vs : list (string * option ty)) (i : nat) : bool :=
         match vs, i with
         | (_, None) :: _, O => match p with None => true | Some _ => false end
         | (_, Some t') :: _, O => match p with Some x => wt t' x | None => false end
         | _ :: vs', S i' => go vs' i'
         | [], _ => false
         end) vs i
  | _, _ => false
  end.

(** * Serialize *)
Fixpoint ser (t : ty) (v : val) {struct t} : sval :=
  match t, v with
  | TBool, VB b => SBool b
  | TInt _ _, VI z => SInt z
  | TF64, VF b => SF64 b
  | TStr, VS s | TChar, VS s | TDec, VS s => SStr s
  | TUnit, _ => SNull
  | TOption _, VNone => SNull
  | TOption t', VSome x => ser t' x
  | TVec t', VList l => SSeq (map (ser t') l)
  | TArray _ t', VList l => SSeq (map (ser t') l)
  | TTuple ts, VList l =>
      SSeq ((fix go (ts : list ty) (l : list val) : list sval :=
               match ts, l with
               | t' :: ts', x :: l' => ser t' x :: go ts' l'
               | _, _ => []
               end) ts l)
  | TNewtype t', _ => ser t' v
  | TStruct fs, VList l =>
      SMap ((fix go (fs : list field) (l : list val) : list (string * sval) :=
               match fs, l with
               | Field sn _ k _ t' :: fs', x :: l' =>
                   if skipped k x then go fs' l' else (sn, ser t' x) :: go fs' l'
               | _, _ => []
               end) fs l)
  | TEnum vs, VVariant i p =>
      (fix go (vs : list (string * option ty)) (i : nat) : sval :=
         match vs, i with
         | (name, None) :: _, O => SStr name
         | (name, Some t') :: _, O => match p with Some x => SMap [(name, ser t' x)] | None => SNull end
         | _ :: vs', S i' => go vs' i'
         | [], _ => SNull
         end) vs i
  | _, _ => SNull
  end.

(** * Deserialize *)
Fixpoint lookup (k : string) (m : list (string * sval)) : option sval :=
  match m with
  | [] => None
  | (k', v) :: m' => if String.eqb k k' then Some v else lookup k m'
  end.

Definition is_option (t : ty) : bool := match t with TOption _ => true | _ => false end.

Fixpoint de (t : ty) (s : sval) {struct t} : option val :=
  match t with
  | TBool => match s with SBool b => Some (VB b) | _ => None end
  | TInt lo hi => match s with SInt z => if (lo <=? z) && (z <=? hi) then Some (VI z) else None | _ => None end
  | TF64 => match s with SF64 b => Some (VF b) | _ => None end
  | TStr | TChar | TDec => match s with SStr x => Some (VS x) | _ => None end
  | TUnit => match s with SNull => Some VNull | _ => None end
  | TOption t' => match s with SNull => Some VNone | _ => option_map VSome (de t' s) end
  | TVec t' =>
      match s with
      | SSeq l =>
          option_map VList
            ((fix go (l : list sval) : option (list val) :=
                match l with
                | [] => Some []
                | x :: l' => match de t' x, go l' with Some y, Some r => Some (y :: r) | _, _ => None end
                end) l)
      | _ => None
      end
  | TArray n t' =>
      match s with
      | SSeq l =>
          if Nat.eqb (List.length l) n then
            option_map VList
              ((fix go (l : list sval) : option (list val) :=
                  match l with
                  | [] => Some []
                  | x :: l' => match de t' x, go l' with Some y, Some r => Some (y :: r) | _, _ => None end
                  end) l)
          else None
      | _ => None
      end
  | TTuple ts =>
      match s with
      | SSeq l =>
          option_map VList
            ((fix go (ts : list ty) (l : list sval) : option (list val) :=
                match ts, l with
                | [], [] => Some []
                | t' :: ts', x :: l' => match de t' x, go ts' l' with Some y, Some r => Some (y :: r) | _, _ => None end
                | _, _ => None
                end) ts l)
      | _ => None
      end
  | TNewtype t' => de t' s
  | TStruct fs =>
      match s with
      | SMap m =>
          option_map VList
            ((fix go (fs : list field) : option (list val) :=
                match fs with
                | [] => Some []
                | Field _ dn _ dflt t' :: fs' =>
                    let fv := match lookup dn m with
                              | Some sv => de t' sv
                              | None => if dflt then Some (default_val t')
                                        else if is_option t' then Some VNone else None
                              end in
                    match fv, go fs' with Some y, Some r => Some (y :: r) | _, _ => None end
                end) fs)
      | _ => None
      end
  | TEnum vs =>
      match s with
      | SStr name =>
          (fix go (vs : list (string * option ty)) (i : nat) : option val :=
             match vs with
             | [] => None
             | (n, None) :: vs' => if String.eqb name n then Some (VVariant i None) else go vs' (S i)
             | (n, Some _) :: vs' => if String.eqb name n then None else go vs' (S i)
             end) vs O
      | SMap [(name, sv)] =>
          (fix go (vs : list (string * option ty)) (i : nat) : option val :=
             match vs with
             | [] => None
             | (n, Some t') :: vs' =>
                 if String.eqb name n then option_map (fun x => VVariant i (Some x)) (de t' sv) else go vs' (S i)
             | (n, None) :: vs' => if String.eqb name n then None else go vs' (S i)
             end) vs O
      | _ => None
      end
  end.

(** * Shape consistency (decidable): what makes the attributes lossless *)
(** [nullable t]: some value of t serialises to null (so Option<t> would be ambiguous) *)
Fixpoint nullable (t : ty) : bool :=
  match t with
  | TUnit | TOption _ => true
  | TNewtype t' => nullable t'
  | _ => false
  end.

Fixpoint nodupb (l : list string) : bool :=
  match l with
  | [] => true
  | x :: l' => negb (existsb (String.eqb x) l') && nodupb l'
  end.

Definition skip_ok (k : skip) (dflt : bool) (t : ty) : bool :=
  match k with
  | SkNever => true
  | SkIfNone => is_option t                       (* absent Option field reads as None with or without `default` *)
  | SkIfEmpty => dflt && match t with TVec _ => true | _ => false end
  | SkIfFalse => dflt && match t with TBool => true | _ => false end
  | SkAlways => dflt                               (* value-level condition: see [skipped_default] *)
  end.

Fixpoint shape_ok (t : ty) {struct t} : bool :=
  match t with
  | TOption t' | TVec t' | TArray _ t' | TNewtype t' => shape_ok t'
  | TTuple ts => forallb shape_ok ts
  | TStruct fs =>
      nodupb (map f_de fs) &&
      (fix go (fs : list field) : bool :=
         match fs with
         | [] => true
         | Field sn dn k dflt t' :: fs' =>
             String.eqb sn dn && skip_ok k dflt t' &&
             (match k with SkAlways => true (* never serialised *) | _ => shape_ok t' end) && go fs'
         end) fs
  | TEnum vs =>
      nodupb (map fst vs) &&
      (fix go (vs : list (string * option ty)) : bool :=
         match vs with
         | [] => true
         | (_, None) :: vs' => go vs'
         | (_, Some t') :: vs' => shape_ok t' && go vs'
         end) vs
  | _ => true
  end.

(** Value-level condition under which nothing can be lost: every `skip_serializing` (always) field
    holds its Default value, and no Option of a nullable type (e.g. Option<Unsupported>, where
    Some(Unsupported) and None both serialise to null) is Some. *)
Fixpoint skipped_default (t : ty) (v : val) {struct t} : bool :=
  match t, v with
  | TOption t', VSome x => negb (nullable t') && skipped_default t' x
  | TVec t', VList l | TArray _ t', VList l => forallb (skipped_default t') l
  | TTuple ts, VList l =>
      (fix go (ts : list ty) (l : list val) : bool :=
         match ts, l with
         | t' :: ts', x :: l' => skipped_default t' x && go ts' l'
         | _, _ => true
         end) ts l
  | TNewtype t', _ => skipped_default t' v
  | TStruct fs, VList l =>
      (fix go (fs : list field) (l : list val) : bool :=
         match fs, l with
         | Field _ _ k _ t' :: fs', x :: l' =>
             (match k with SkAlways => val_eqb x (default_val t') | _ => skipped_default t' x end) && go fs' l'
         | _, _ => true
         end) fs l
  | TEnum vs, VVariant i (Some x) =>
      (fix go (vs : list (string * option ty)) (i : nat) : bool :=
         match vs, i with
         | (_, Some t') :: _, O => skipped_default t' x
         | _ :: vs', S i' => go vs' i'
         | _, _ => true
         end) vs i
  | _, _ => true
  end.

(** The always-skipped fields whose type has more than one value: exactly the places where
    information CAN be lost.  Reported as (struct path . field) names; compared by the check
    with the known-finding list. *)
Fixpoint lossy_fields (pre : string) (t : ty) {struct t} : list string :=
  match t with
  | TOption t' => (if nullable t' then [pre ++ "?"]%string else []) ++ lossy_fields pre t'
  | TVec t' | TArray _ t' | TNewtype t' => lossy_fields pre t'
  | TTuple ts => flat_map (lossy_fields pre) ts
  | TStruct fs =>
      (fix go (fs : list field) : list string :=
         match fs with
         | [] => []
         | Field sn _ k _ t' :: fs' =>
             (match k, t' with
              | SkAlways, TUnit => []
              | SkAlways, _ => [pre ++ "." ++ sn]
              | _, _ => lossy_fields (pre ++ "." ++ sn) t'
              end)%string ++ go fs'
         end) fs
  | TEnum vs =>
      (fix go (vs : list (string * option ty)) : list string :=
         match vs with
         | [] => []
         | (n, Some t') :: vs' => lossy_fields (pre ++ "/" ++ n)%string t' ++ go vs'
         | _ :: vs' => go vs'
         end) vs
  | _ => []
  end.
