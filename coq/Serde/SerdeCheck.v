(** Executable checks for the C18 correspondence run (tools/props/c18.py). No proofs. *)
From Coq Require Import ZArith Bool List String Ascii.
From L21 Require Import Serde.SerdeGeneric.
Import ListNotations.
Local Open Scope Z_scope.

(** strings are passed as hex so that any byte sequence can be written in a case file *)
Definition hexval (c : ascii) : N :=
  let n := N_of_ascii c in
  if (48 <=? n)%N && (n <=? 57)%N then n - 48
  else if (97 <=? n)%N && (n <=? 102)%N then n - 87
  else if (65 <=? n)%N && (n <=? 70)%N then n - 55 else 0.
Fixpoint hs (s : string) : string :=
  match s with
  | String a (String b r) => String (ascii_of_N (hexval a * 16 + hexval b)) (hs r)
  | _ => EmptyString
  end.

(** serde_json::Value keeps object keys sorted (BTreeMap): compare maps up to key order *)
Fixpoint insert_kv (kv : string * sval) (l : list (string * sval)) : list (string * sval) :=
  match l with
  | [] => [kv]
  | kv' :: l' => if String.leb (fst kv) (fst kv') then kv :: l else kv' :: insert_kv kv l'
  end.
Fixpoint sort_sval (s : sval) : sval :=
  match s with
  | SSeq l => SSeq (map sort_sval l)
  | SMap l =>
      SMap ((fix go (l : list (string * sval)) : list (string * sval) :=
               match l with
               | [] => []
               | (k, x) :: l' => insert_kv (k, sort_sval x) (go l')
               end) l)
  | _ => s
  end.

(** codes: 0 impl = model and the copies are lossless; 1 lossless but impl <> model;
    2 a copy is NOT lossless although the value meets the theorem's hypotheses;
    3 a copy is not lossless and the value is in the excluded (known) class;
    4 the generated value is not well-typed for the shape (generator bug) *)
Definition c18_check (t : ty) (v : val) (impl_ser : sval) (copies_ok : bool) : Z :=
  if negb (wt t v) then 4
  else
    let model_eq :=
      sval_eqb (sort_sval (ser t v)) (sort_sval impl_ser) &&
      match de t impl_ser with Some v' => val_eqb v' v || negb (skipped_default t v) | None => false end in
    if copies_ok then (if model_eq then 0 else 1)
    else if skipped_default t v then 2 else 3.
