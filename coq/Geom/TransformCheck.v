(** Executable checks used by the correspondence run of C12 (tools/props/c12.py).
    Result codes: 0 = impl agrees with the (float-level) model and the property holds on the impl's
    output; 1 = impl differs from the model, property still holds on the impl's output (or is
    silent); 2 = the property fails on the impl's output. No proofs here.

    The property is evaluated by the specification Geom/TransformSpec.v (exact integer maps);
    it speaks when every angle is a right angle of the libm table (or absent) and every
    coordinate is within [coord_bound]; otherwise only the model comparison is made. *)
From Coq Require Import ZArith Bool List.
From L21 Require Import Base.F64 Geom.Transform Geom.TransformSpec.
Import ListNotations.
Local Open Scope Z_scope.

Definition coord_bound : Z := 2 ^ 40.

Definition code (prop_ok model_eq : bool) : Z :=
  if negb prop_ok then 2 else if model_eq then 0 else 1.

(** ** equalities *)
Fixpoint list_eqb {A} (eqb : A -> A -> bool) (l1 l2 : list A) : bool :=
  match l1, l2 with
  | [], [] => true
  | x :: r1, y :: r2 => eqb x y && list_eqb eqb r1 r2
  | _, _ => false
  end.
Definition pt_eqb (p q : Z * Z) : bool := (fst p =? fst q) && (snd p =? snd q).
Definition shape_eqb (s1 s2 : shape (Z * Z)) : bool :=
  match s1, s2 with
  | Rect p0 p1, Rect q0 q1 => pt_eqb p0 q0 && pt_eqb p1 q1
  | Polygon l1, Polygon l2 => list_eqb pt_eqb l1 l2
  | Path l1 w1, Path l2 w2 => list_eqb pt_eqb l1 l2 && (w1 =? w2)
  | _, _ => false
  end.
Definition elem_eqb (e1 e2 : element (Z * Z)) : bool := (fst e1 =? fst e2) && shape_eqb (snd e1) (snd e2).
Definition opt_eqb {A} (eqb : A -> A -> bool) (x y : option A) : bool :=
  match x, y with Some a, Some b => eqb a b | None, None => true | _, _ => false end.

(** ** bits of a float transform *)
Definition tbits (t : ftransform) : option (list Z) :=
  match dy_to_bits (a00 t), dy_to_bits (a01 t), dy_to_bits (a10 t), dy_to_bits (a11 t),
        dy_to_bits (b0 t), dy_to_bits (b1 t) with
  | Some x0, Some x1, Some x2, Some x3, Some x4, Some x5 => Some [x0; x1; x2; x3; x4; x5]
  | _, _, _, _, _, _ => None
  end.
Definition otbits (ot : option ftransform) : option (list Z) :=
  match ot with Some t => tbits t | None => None end.
Definition bits_eq (m : option (list Z)) (impl : list Z) : bool :=
  match m with Some l => list_eqb Z.eqb l impl | None => false end.

(** A placement whose (sin, cos) doubles are given explicitly (bit patterns): the libm values
    are an input of the float model. *)
Definition gplacement : Type := (Z * Z * bool * option (Z * Z))%type.
Definition g_of_f (p : fplacement) : option gplacement :=
  let '(lx, ly, r, oa) := p in
  match oa with
  | None => Some (lx, ly, r, None)
  | Some a => match assocZ a Gen.LibmGen.libm_sincos_table with
              | Some sc => Some (lx, ly, r, Some sc) | None => None end
  end.
Definition g_sincos (osc : option (Z * Z)) : option (option (dy * dy)) :=
  match osc with
  | None => Some None
  | Some (sb, cb) => match dy_of_bits sb, dy_of_bits cb with
                     | Some s, Some c => Some (Some (s, c)) | _, _ => None end
  end.
Definition from_gplacement (p : gplacement) : option ftransform :=
  let '(lx, ly, r, osc) := p in
  sc <- g_sincos osc ;; from_instance_f lx ly r sc.
Definition from_gplacement_orig (p : gplacement) : option ftransform :=
  let '(lx, ly, r, osc) := p in
  sc <- g_sincos osc ;; from_instance_orig_f lx ly r sc.

(** ** the placement written with the elementary transforms, at the float level:
    `cascade(translate(loc), cascade(rotate(angle) | identity, reflect_vert | identity))` *)
Definition elementary_f (p : gplacement) : option ftransform :=
  let '(lx, ly, r, osc) := p in
  sc <- g_sincos osc ;;
  let rot := match sc with None => identity_f | Some (sn, cs) => rotate_f sn cs end in
  bx <- f_of_int lx ;; by_ <- f_of_int ly ;;
  inner <- cascade_f rot (if r then reflect_vert_f else identity_f) ;;
  cascade_f (translate_f bx by_) inner.

Fixpoint omap {A B} (f : A -> option B) (l : list A) : option (list B) :=
  match l with
  | [] => Some []
  | x :: r => y <- f x ;; r' <- omap f r ;; Some (y :: r')
  end.
(** left-nested from the identity (as flatten_helper) *)
Fixpoint lfold_f (t : ftransform) (l : list ftransform) : option ftransform :=
  match l with [] => Some t | x :: r => t' <- cascade_f t x ;; lfold_f t' r end.
(** right-nested: cascade(f1, cascade(f2, ... fn)); identity for the empty list *)
Fixpoint rfold_f (l : list ftransform) : option ftransform :=
  match l with
  | [] => Some identity_f
  | [x] => Some x
  | x :: r => t <- rfold_f r ;; cascade_f x t
  end.
(** one placement at a time, innermost first, rounding at every level *)
Fixpoint seq_apply_f (l : list ftransform) (v : Z * Z) : option (Z * Z) :=
  match l with [] => Some v | x :: r => w <- seq_apply_f r v ;; apply_f x w end.

(** ** domain of the property, spec side *)
Definition splacement_of (p : fplacement) : option splacement :=
  let '(lx, ly, r, oa) := p in
  match oa with
  | None => Some (lx, ly, r, O)
  | Some a => match quarters_of a, libm_sincos a with
              | Some q, Some _ => Some (lx, ly, r, q) | _, _ => None end
  end.
Definition small (z : Z) : bool := Z.abs z <=? coord_bound.
Definition pt_small (p : Z * Z) : bool := small (fst p) && small (snd p).
Definition pl_small (p : fplacement) : bool := let '(lx, ly, _, _) := p in small lx && small ly.

(** ** op 1: a chain of placements (outermost first) applied to points *)
Definition chain_model_eq (from_pl : gplacement -> option ftransform)
           (gpl : list gplacement) (pts : list (Z * Z))
           (fi el : list (list Z)) (t tr te : list Z) (p pr pe ps : list (Z * Z)) : bool :=
  let ofi := omap from_pl gpl in
  let oel := omap elementary_f gpl in
  let ot := match ofi with Some l => lfold_f identity_f l | None => None end in
  let otr := match ofi with Some l => rfold_f l | None => None end in
  let ote := match oel with Some l => lfold_f identity_f l | None => None end in
  let pts_by (o : option ftransform) : option (list (Z * Z)) :=
    match o with Some t => omap (apply_f t) pts | None => None end in
  match ofi, oel with
  | Some lfi, Some lel =>
    opt_eqb (list_eqb (list_eqb Z.eqb)) (omap tbits lfi) (Some fi)
    && opt_eqb (list_eqb (list_eqb Z.eqb)) (omap tbits lel) (Some el)
  | _, _ => false
  end
  && bits_eq (otbits ot) t && bits_eq (otbits otr) tr && bits_eq (otbits ote) te
  && opt_eqb (list_eqb pt_eqb) (pts_by ot) (Some p)
  && opt_eqb (list_eqb pt_eqb) (pts_by otr) (Some pr)
  && opt_eqb (list_eqb pt_eqb) (pts_by ote) (Some pe)
  && opt_eqb (list_eqb pt_eqb)
       (match ofi with Some l => omap (seq_apply_f l) pts | None => None end) (Some ps).

Definition check_chain (pl : list fplacement) (pts : list (Z * Z))
           (fi el : list (list Z)) (t tr te : list Z) (p pr pe ps : list (Z * Z)) : Z :=
  let model_eq :=
    match omap g_of_f pl with
    | Some gpl => chain_model_eq from_gplacement gpl pts fi el t tr te p pr pe ps
    | None => false
    end in
  let prop_ok :=
    match omap splacement_of pl with
    | Some spl =>
      if forallb pl_small pl && forallb pt_small pts then
        let want := map (path_image spl) pts in
        (* identical to the composition of the library's elementary transforms *)
        list_eqb (list_eqb Z.eqb) fi el
        (* and every way of nesting moves the points to the exact images *)
        && list_eqb pt_eqb p want && list_eqb pt_eqb pr want
        && list_eqb pt_eqb pe want && list_eqb pt_eqb ps want
      else true
    | None => true
    end in
  code prop_ok model_eq.

(** ** op 4: general angles. The (sin, cos) doubles are read off the implementation's own
    from_instance matrix by the caller and given here; the float model then predicts everything
    else. Model comparison only (codes 0 / 1, and 2 when from_instance differs from the
    elementary composition); the geometric judgement against a high-precision reference is made
    outside Coq and is a test, not a proof. *)
Definition check_chain_g (gpl : list gplacement) (pts : list (Z * Z))
           (fi el : list (list Z)) (t tr te : list Z) (p pr pe ps : list (Z * Z)) : Z :=
  code (list_eqb (list_eqb Z.eqb) fi el)
       (chain_model_eq from_gplacement gpl pts fi el t tr te p pr pe ps).

(** the model of the function as found, on the same outputs *)
Definition check_chain_orig_model (pl : list fplacement) (pts : list (Z * Z))
           (fi el : list (list Z)) (t tr te : list Z) (p pr pe ps : list (Z * Z)) : bool :=
  match omap g_of_f pl with
  | Some gpl => chain_model_eq from_gplacement_orig gpl pts fi el t tr te p pr pe ps
  | None => false
  end.

(** ** op 2: flatten. [impl] = None when the implementation panicked. *)
Fixpoint spec_layout_of (l : layout fplacement (Z * Z)) : option (layout splacement pt) :=
  match l with
  | Layout elems insts =>
    let fix go (is : list (fplacement * option (layout fplacement (Z * Z))))
        : option (list (splacement * option (layout splacement pt))) :=
      match is with
      | [] => Some []
      | (p, oc) :: rest =>
        sp <- splacement_of p ;;
        oc' <- match oc with
               | None => Some None
               | Some c => match spec_layout_of c with Some c' => Some (Some c') | None => None end
               end ;;
        rest' <- go rest ;;
        Some ((sp, oc') :: rest')
      end in
    match go insts with Some i' => Some (Layout elems i') | None => None end
  end.

Definition shape_small (s : shape (Z * Z)) : bool :=
  match s with
  | Rect p0 p1 => pt_small p0 && pt_small p1
  | Polygon l => forallb pt_small l
  | Path l _ => forallb pt_small l
  end.
Fixpoint layout_small (l : layout fplacement (Z * Z)) : bool :=
  match l with
  | Layout elems insts =>
    forallb (fun e => shape_small (snd e)) elems &&
    (fix go (is : list (fplacement * option (layout fplacement (Z * Z)))) : bool :=
       match is with
       | [] => true
       | (p, oc) :: rest =>
         pl_small p && match oc with Some c => layout_small c | None => true end && go rest
       end) insts
  end.

Definition check_flatten (l : layout fplacement (Z * Z)) (impl : option (list (element (Z * Z)))) : Z :=
  let model_eq :=
    match flatten_f l, impl with
    | Ok m, Some i => list_eqb elem_eqb m i
    | Panic, None => true
    | _, _ => false
    end in
  let prop_ok :=
    match spec_layout_of l with
    | Some sl =>
      if layout_small l then
        match flatten_spec sl, impl with
        | Some want, Some i => list_eqb elem_eqb want i
        | Some _, None => false       (* a panic on a hierarchy in which every cell has a layout *)
        | None, _ => true
        end
      else true
    | None => true
    end in
  code prop_ok model_eq.

(** ** op 3: the elementary constructors on their own. kind 0 identity, 1 translate x y,
    2 rotate a (a in the table), 3 reflect_vert. Definitions: model comparison only; what they
    mean geometrically is judged by [check_chain] (field pe). *)
Definition check_elem (kind x y a : Z) (impl : list Z) : Z :=
  let m :=
    if kind =? 0 then Some identity_f
    else if kind =? 1 then (bx <- f_of_int x ;; by_ <- f_of_int y ;; Some (translate_f bx by_))
    else if kind =? 2 then match libm_sincos a with Some (sn, cs) => Some (rotate_f sn cs) | None => None end
    else if kind =? 3 then Some reflect_vert_f
    else None in
  code true (bits_eq (otbits m) impl).

