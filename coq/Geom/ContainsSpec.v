(** C13 -- specification of "the closed region a shape covers", written from the property
    statement and elementary exact geometry, NOT from the code. Integer points, all
    decisions by exact integer arithmetic (cross products), no division.

    A polygon is its vertex list; closure from the last vertex to the first is implied.
    [in_region P q] is the even-odd definition of the closed region:
    q lies on some edge, or the open rightward ray from q crosses the boundary an odd
    number of times, crossings being counted with the half-open rule (an edge counts
    when its lower endpoint is at or below the ray and its upper endpoint strictly above).
    [in_region_nz] is the non-zero-winding variant (signed crossings); the two agree
    whenever the signed count lies in {-1,0,1}, which is the case for simple polygons. *)
From Coq Require Import ZArith Bool List.
Import ListNotations.
Local Open Scope Z_scope.

Definition pt := (Z * Z)%type.
Definition px (p : pt) : Z := fst p.
Definition py (p : pt) : Z := snd p.

(** Twice the signed area of the triangle a b q: positive iff q is strictly to the LEFT
    of the directed line a -> b, zero iff a, b, q are collinear. *)
Definition cross (a b q : pt) : Z :=
  (px b - px a) * (py q - py a) - (px q - px a) * (py b - py a).

Definition in_seg_box (a b q : pt) : Prop :=
  Z.min (px a) (px b) <= px q <= Z.max (px a) (px b) /\
  Z.min (py a) (py b) <= py q <= Z.max (py a) (py b).

(** q lies on the closed segment a b *)
Definition on_seg (a b q : pt) : Prop := cross a b q = 0 /\ in_seg_box a b q.

(** consecutive pairs of an open chain of points *)
Fixpoint chain (l : list pt) : list (pt * pt) :=
  match l with
  | a :: (b :: _) as t => (a, b) :: chain t
  | _ => []
  end.

(** the edges of the closed polygon with vertex list P (last -> first included) *)
Definition edges (P : list pt) : list (pt * pt) :=
  match P with
  | [] => []
  | p0 :: _ => chain (P ++ [p0])
  end.

Definition on_boundary (P : list pt) (q : pt) : Prop :=
  exists e, In e (edges P) /\ on_seg (fst e) (snd e) q.

(** The edge a b crosses the open rightward ray from q, half-open rule:
    upward edge with ay <= qy < by and q strictly left of it, or
    downward edge with by <= qy < ay and q strictly right of a -> b (again: the edge is to the right of q). *)
Definition up_right (a b q : pt) : bool :=
  (py a <=? py q) && (py q <? py b) && (0 <? cross a b q).
Definition down_right (a b q : pt) : bool :=
  (py b <=? py q) && (py q <? py a) && (cross a b q <? 0).
Definition crosses_right (a b q : pt) : bool := up_right a b q || down_right a b q.

Definition crossings (P : list pt) (q : pt) : Z :=
  fold_right (fun e n => (if crosses_right (fst e) (snd e) q then 1 else 0) + n) 0 (edges P).

(** signed crossings: +1 upward, -1 downward *)
Definition wind_edge (a b q : pt) : Z :=
  if up_right a b q then 1 else if down_right a b q then -1 else 0.
Definition winding (P : list pt) (q : pt) : Z :=
  fold_right (fun e n => wind_edge (fst e) (snd e) q + n) 0 (edges P).

(** The closed region, even-odd rule. *)
Definition in_region (P : list pt) (q : pt) : Prop :=
  on_boundary P q \/ Z.odd (crossings P q) = true.

(** The closed region, non-zero-winding rule. *)
Definition in_region_nz (P : list pt) (q : pt) : Prop :=
  on_boundary P q \/ winding P q <> 0.

(** ** Simple polygons (decidable, exact integer arithmetic)

    Consecutive repeated vertices are dropped first. The remaining cyclic vertex list is
    simple when it has at least three vertices, two edges that are not neighbours in the
    cycle have no point in common, and two neighbouring edges have only their shared
    vertex in common (no spike folding back on itself). Collinear pass-through vertices
    are allowed. *)
Definition pt_eqb (a b : pt) : bool := (px a =? px b) && (py a =? py b).

Definition in_seg_boxb (a b q : pt) : bool :=
  (Z.min (px a) (px b) <=? px q) && (px q <=? Z.max (px a) (px b)) &&
  (Z.min (py a) (py b) <=? py q) && (py q <=? Z.max (py a) (py b)).
Definition on_segb (a b q : pt) : bool := (cross a b q =? 0) && in_seg_boxb a b q.

(** closed segments a b and c d have a point in common *)
Definition segs_meet (a b c d : pt) : bool :=
  let d1 := Z.sgn (cross a b c) in let d2 := Z.sgn (cross a b d) in
  let d3 := Z.sgn (cross c d a) in let d4 := Z.sgn (cross c d b) in
  ((d1 * d2 <? 0) && (d3 * d4 <? 0))
  || on_segb a b c || on_segb a b d || on_segb c d a || on_segb c d b.

Fixpoint dedup_adj (l : list pt) : list pt :=
  match l with
  | a :: (b :: _) as t => if pt_eqb a b then dedup_adj t else a :: dedup_adj t
  | _ => l
  end.
(** drop consecutive repeats, cyclically *)
Definition dedup_cyc (P : list pt) : list pt :=
  match dedup_adj P with
  | a :: (_ :: _) as t => if pt_eqb a (last t a) then t else a :: t
  | l => l
  end.

(** edge e against the later edges: [adj] says whether the first of [rest] is e's successor *)
Fixpoint edge_vs_rest (e : pt * pt) (rest : list (pt * pt)) (first : bool) (wraps : bool) : bool :=
  match rest with
  | [] => true
  | f :: rest' =>
    let is_last := match rest' with [] => true | _ => false end in
    (if first then
       (* f follows e: share snd e = fst f only *)
       negb (on_segb (fst e) (snd e) (snd f)) && negb (on_segb (fst f) (snd f) (fst e))
     else if is_last && wraps then
       (* f precedes e cyclically: share snd f = fst e only *)
       negb (on_segb (fst e) (snd e) (fst f)) && negb (on_segb (fst f) (snd f) (snd e))
     else negb (segs_meet (fst e) (snd e) (fst f) (snd f)))
    && edge_vs_rest e rest' false wraps
  end.

Fixpoint edges_simple (es : list (pt * pt)) (wraps : bool) : bool :=
  match es with
  | [] => true
  | e :: rest => edge_vs_rest e rest true wraps && edges_simple rest false
  end.

Definition simpleb (P : list pt) : bool :=
  let Q := dedup_cyc P in
  (3 <=? Z.of_nat (length Q)) && edges_simple (edges Q) true.

(** ** Rectangles and Manhattan paths *)

(** the closed box spanned by two opposite corners, in either order *)
Definition in_box (p0 p1 q : pt) : Prop :=
  Z.min (px p0) (px p1) <= px q <= Z.max (px p0) (px p1) /\
  Z.min (py p0) (py p1) <= py q <= Z.max (py p0) (py p1).

(** distance from coordinate v to the closed interval spanned by a and b *)
Definition dist_iv (a b v : Z) : Z :=
  Z.max 0 (Z.max (Z.min a b - v) (v - Z.max a b)).

Definition manhattan_seg (a b : pt) : Prop := px a = px b \/ py a = py b.

(** "within half the width w of segment a b" (DESIGN.md section 4): q lies on the segment, or the
    segment has non-zero length, the projection of q falls on it and the perpendicular
    distance d satisfies d <= w/2, i.e. 2d <= w (for integer d the same as d <= w/2 truncated).
    For an axis-parallel segment both distances are coordinate differences.
    A segment of zero length has no direction, hence no perpendicular: only the point itself
    must be accepted; its surroundings up to Chebyshev distance w/2 are unspecified, like the
    regions beyond the ends of every other segment (correction of 2026-10-01, DESIGN.md section 9). *)
Definition near_seg (w : Z) (a b q : pt) : Prop :=
  on_seg a b q
  \/ (px a = px b /\ py a <> py b /\ Z.min (py a) (py b) <= py q <= Z.max (py a) (py b) /\ 2 * Z.abs (px q - px a) <= w)
  \/ (py a = py b /\ px a <> px b /\ Z.min (px a) (px b) <= px q <= Z.max (px a) (px b) /\ 2 * Z.abs (py q - py a) <= w).

(** Chebyshev distance from q to the closed segment a b (axis-parallel) *)
Definition cheb_seg (a b q : pt) : Z :=
  Z.max (dist_iv (px a) (px b) (px q)) (dist_iv (py a) (py b) (py q)).

(** farther than half the width from the segment, in the Chebyshev sense *)
Definition far_seg (w : Z) (a b q : pt) : Prop := w < 2 * cheb_seg a b q.
