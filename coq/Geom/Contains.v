(** C13 -- model of layout21raw/src/geom.rs [ShapeTrait::contains] for Rect, Polygon, Path
    (and of layout21raw/src/bbox.rs [Vec<Point>::bbox], [BoundBox::contains]).
    Transcribed function by function. [Int = isize], taken to be 64 bits; arithmetic is done
    in Z and every intermediate that Rust computes in isize (in i128 in the repaired
    Polygon::contains) is range-checked: leaving the range yields [Ovf] (a panic in builds
    with overflow checks -- the harness is one -- and a silent wrap-around otherwise; the
    model does not follow the wrapped computation).
    [Panic] is an unconditional panic (index out of range, unwrap, unimplemented!).
    No proofs in this file. *)
From Coq Require Import ZArith Bool List.
Import ListNotations.
Local Open Scope Z_scope.

Definition point := (Z * Z)%type.          (* Point { x, y } *)
Definition X (p : point) : Z := fst p.
Definition Y (p : point) : Z := snd p.

Inductive res : Type :=
| Ret (b : bool)   (* normal return *)
| Ovf              (* an integer operation left the range of its type *)
| Panic.           (* unconditional panic *)

Definition int_min : Z := - 2 ^ 63.
Definition int_max : Z := 2 ^ 63 - 1.
Definition in_int (z : Z) : bool := (int_min <=? z) && (z <=? int_max).
Definition all_in_int (l : list Z) : bool := forallb in_int l.

(** ** Rect::contains -- accepts the two corners in either order
<<
    p0.x.min(p1.x) <= pt.x && p0.x.max(p1.x) >= pt.x && p0.y.min(p1.y) <= pt.y && p0.y.max(p1.y) >= pt.y
>> *)
Definition rect_contains (p0 p1 q : point) : bool :=
  (Z.min (X p0) (X p1) <=? X q) && (X q <=? Z.max (X p0) (X p1)) &&
  (Z.min (Y p0) (Y p1) <=? Y q) && (Y q <=? Z.max (Y p0) (Y p1)).

(** Rect::to_poly *)
Definition rect_to_poly (p0 p1 : point) : list point :=
  [p0; (X p1, Y p0); p1; (X p0, Y p1)].

(** ** bbox.rs: BoundBox::empty, union with a point's box (fold), BoundBox::contains.
    A box is (p0, p1). *)
Definition bbox_empty : point * point := ((int_max, int_max), (int_min, int_min)).
Definition bbox_union_pt (bb : point * point) (p : point) : point * point :=
  let '(b0, b1) := bb in
  ((Z.min (X b0) (X p), Z.min (Y b0) (Y p)), (Z.max (X b1) (X p), Z.max (Y b1) (Y p))).
Definition points_bbox (ps : list point) : point * point :=
  fold_left bbox_union_pt ps bbox_empty.
Definition bbox_contains (bb : point * point) (q : point) : bool :=
  let '(b0, b1) := bb in
  (X b0 <=? X q) && (X q <=? X b1) && (Y b0 <=? Y q) && (Y q <=? Y b1).

(** the (past, next) pairs visited by [for idx in 0..len]: (points[idx], points[(idx+1) % len]) *)
Definition seg_pairs (ps : list point) : list (point * point) :=
  match ps with
  | [] => []
  | p0 :: tl => combine ps (tl ++ [p0])
  end.

Definition y_in_range (past next q : point) : bool :=
  (Z.min (Y past) (Y next) <=? Y q) && (Y q <=? Z.max (Y past) (Y next)).
Definition x_in_range (past next q : point) : bool :=
  (Z.min (X past) (X next) <=? X q) && (X q <=? Z.max (X past) (X next)).

(** ** Polygon::contains as found (closed y-interval on both incident edges, truncating division) *)
Fixpoint poly_scan_orig (es : list (point * point)) (q : point) (winding : Z) : res :=
  match es with
  | [] => Ret (negb (winding =? 0))
  | (past, next) :: es' =>
    if y_in_range past next q then
      if Y next =? Y past then
        if x_in_range past next q then Ret true
        else poly_scan_orig es' q winding
      else
        (* let xsolve = (next.x - past.x) * (pt.y - past.y) / (next.y - past.y) + past.x; *)
        let a := X next - X past in
        let b := Y q - Y past in
        let c := Y next - Y past in
        let d := Z.quot (a * b) c in         (* Rust `/` truncates toward zero *)
        let xsolve := d + X past in
        if all_in_int [a; b; a * b; c; d; xsolve] then
          if xsolve =? X q then Ret true
          else if X q <? xsolve then
            let winding' := if Y past <? Y next then winding + 1 else winding - 1 in
            poly_scan_orig es' q winding'
          else poly_scan_orig es' q winding
        else Ovf
    else poly_scan_orig es' q winding
  end.

Definition poly_contains_orig (ps : list point) (q : point) : res :=
  if negb (bbox_contains (points_bbox ps) q) then Ret false
  else poly_scan_orig (seg_pairs ps) q 0.

(** ** Polygon::contains after the repair (work/c13/fix-polygon-contains.patch):
    same structure; the x-intercept comparison is replaced by the sign of the exact cross
    product, computed in i128 (every coordinate is cast before the subtraction), and a
    non-horizontal edge is counted under the half-open rule only.
<<
    let cross = (next.x as i128 - past.x as i128) * (pt.y as i128 - past.y as i128)
        - (pt.x as i128 - past.x as i128) * (next.y as i128 - past.y as i128);
    if cross == 0 { return true; }
    if next.y > past.y { if pt.y < next.y && cross > 0 { winding_num += 1; } }
    else if pt.y < past.y && cross < 0 { winding_num -= 1; }
>>
    [Ovf] = an i128 operation left the 128-bit range. *)
Definition i128_min : Z := - 2 ^ 127.
Definition i128_max : Z := 2 ^ 127 - 1.
Definition in_i128 (z : Z) : bool := (i128_min <=? z) && (z <=? i128_max).
Definition all_in_i128 (l : list Z) : bool := forallb in_i128 l.

Fixpoint poly_scan (es : list (point * point)) (q : point) (winding : Z) : res :=
  match es with
  | [] => Ret (negb (winding =? 0))
  | (past, next) :: es' =>
    if y_in_range past next q then
      if Y next =? Y past then
        if x_in_range past next q then Ret true
        else poly_scan es' q winding
      else
        let a := X next - X past in
        let b := Y q - Y past in
        let d := X q - X past in
        let c := Y next - Y past in
        let cr := a * b - d * c in
        if all_in_i128 [a; b; a * b; d; c; d * c; cr] then
          if cr =? 0 then Ret true
          else if Y past <? Y next then
            if (Y q <? Y next) && (0 <? cr) then poly_scan es' q (winding + 1)
            else poly_scan es' q winding
          else
            if (Y q <? Y past) && (cr <? 0) then poly_scan es' q (winding - 1)
            else poly_scan es' q winding
        else Ovf
    else poly_scan es' q winding
  end.

Definition poly_contains (ps : list point) (q : point) : res :=
  if negb (bbox_contains (points_bbox ps) q) then Ret false
  else poly_scan (seg_pairs ps) q 0.

(** ** Path::contains -- Manhattan paths only; one rectangle per segment, half-width
    [width / 2] (usize -> isize conversion, then truncating division of a non-negative value).
    [for k in 0..points.len() - 1]: an empty point list underflows usize (panic with overflow
    checks; otherwise the wrapped bound makes [points[0]] panic): [Panic] either way. *)
Fixpoint path_scan (ps : list point) (hw : Z) (q : point) : res :=
  match ps with
  | a :: (b :: _) as tl =>
    if X a =? X b then
      let x0 := X a - hw in let x1 := X a + hw in
      if all_in_int [x0; x1] then
        if rect_contains (x0, Y a) (x1, Y b) q then Ret true else path_scan tl hw q
      else Ovf
    else if Y a =? Y b then
      let y0 := Y a - hw in let y1 := Y a + hw in
      if all_in_int [y0; y1] then
        if rect_contains (X a, y0) (X b, y1) q then Ret true else path_scan tl hw q
      else Ovf
    else Panic   (* unimplemented!("Unsupported Non-Manhattan Path") *)
  | _ => Ret false
  end.

(** [width] is a usize: 0 <= width < 2^64 *)
Definition path_contains (ps : list point) (width : Z) (q : point) : res :=
  if negb (in_int width) then Panic        (* Int::try_from(width).unwrap() *)
  else match ps with
       | [] => Panic                        (* points.len() - 1 *)
       | _ => path_scan ps (Z.quot width 2) q
       end.

(** ** Shape::contains -- enum_dispatch to the variant *)
Inductive shape : Type :=
| SRect (p0 p1 : point)
| SPolygon (ps : list point)
| SPath (ps : list point) (width : Z).

Definition shape_contains (s : shape) (q : point) : res :=
  match s with
  | SRect p0 p1 => Ret (rect_contains p0 p1 q)
  | SPolygon ps => poly_contains ps q
  | SPath ps w => path_contains ps w q
  end.

(** the same with Polygon::contains as it stood before the repair *)
Definition shape_contains_orig (s : shape) (q : point) : res :=
  match s with
  | SPolygon ps => poly_contains_orig ps q
  | _ => shape_contains s q
  end.
