(** C13 -- lemmas about Geom/Contains.v (model) and Geom/ContainsSpec.v (specification). *)
From Coq Require Import ZArith Bool List Lia Permutation.
From L21 Require Import Geom.ContainsSpec Geom.Contains Geom.ContainsCheck.
Import ListNotations.
Local Open Scope Z_scope.

(** ** boolean reflection helper *)
Ltac b2p :=
  repeat match goal with
  | H : _ && _ = true |- _ => apply andb_true_iff in H; destruct H
  | H : _ || _ = false |- _ => apply orb_false_iff in H; destruct H
  | H : negb _ = true |- _ => apply negb_true_iff in H
  | H : negb _ = false |- _ => apply negb_false_iff in H
  | H : (_ <=? _) = true |- _ => apply Z.leb_le in H
  | H : (_ <=? _) = false |- _ => apply Z.leb_gt in H
  | H : (_ <? _) = true |- _ => apply Z.ltb_lt in H
  | H : (_ <? _) = false |- _ => apply Z.ltb_ge in H
  | H : (_ =? _) = true |- _ => apply Z.eqb_eq in H
  | H : (_ =? _) = false |- _ => apply Z.eqb_neq in H
  end.

(** ** Rect::contains *)
Lemma rect_contains_spec : forall p0 p1 q, rect_contains p0 p1 q = true <-> in_box p0 p1 q.
Proof.
  intros p0 p1 q. unfold rect_contains, in_box, X, Y, px, py.
  rewrite !andb_true_iff, !Z.leb_le. tauto.
Qed.

(** ** the model's edge list is the specification's edge list *)
Lemma chain_combine : forall (l : list pt) a x, chain (a :: l ++ [x]) = combine (a :: l) (l ++ [x]).
Proof.
  induction l as [|b l IH]; intros a x.
  - reflexivity.
  - change (chain (a :: (b :: l) ++ [x])) with ((a, b) :: chain (b :: l ++ [x])).
    rewrite IH. reflexivity.
Qed.

Lemma seg_pairs_edges : forall P, seg_pairs P = edges P.
Proof.
  intros [|p0 tl]; [reflexivity|].
  unfold seg_pairs, edges. change ((p0 :: tl) ++ [p0]) with (p0 :: tl ++ [p0]).
  symmetry. apply chain_combine.
Qed.

(** ** one edge of the scan *)
Definition edge_class (a b q : pt) : option Z :=
  if y_in_range a b q then
    if Y b =? Y a then (if x_in_range a b q then None else Some 0)
    else let cr := cross a b q in
      if cr =? 0 then None
      else if Y a <? Y b then (if (Y q <? Y b) && (0 <? cr) then Some 1 else Some 0)
      else (if (Y q <? Y a) && (cr <? 0) then Some (-1) else Some 0)
  else Some 0.

Definition edge_ovf (a b q : pt) : bool :=
  y_in_range a b q && negb (Y b =? Y a) &&
  negb (all_in_i128 [X b - X a; Y q - Y a; (X b - X a) * (Y q - Y a); X q - X a; Y b - Y a;
                     (X q - X a) * (Y b - Y a);
                     (X b - X a) * (Y q - Y a) - (X q - X a) * (Y b - Y a)]).

Lemma poly_scan_step : forall a b es q w,
  poly_scan ((a, b) :: es) q w =
  if edge_ovf a b q then Ovf
  else match edge_class a b q with None => Ret true | Some d => poly_scan es q (w + d) end.
Proof.
  intros a b es q w. cbn [poly_scan]. unfold edge_ovf, edge_class, cross.
  change px with X. change py with Y.
  destruct (y_in_range a b q); cbn [andb negb]; [|f_equal; lia].
  destruct (Y b =? Y a); cbn [andb negb].
  - destruct (x_in_range a b q); [reflexivity|f_equal; lia].
  - destruct (all_in_i128 _); cbn [negb]; [|reflexivity].
    destruct (_ =? 0); [reflexivity|].
    destruct (Y a <? Y b).
    + destruct ((Y q <? Y b) && _); f_equal; lia.
    + destruct ((Y q <? Y a) && _); f_equal; lia.
Qed.

Lemma edge_class_none : forall a b q, edge_class a b q = None <-> on_seg a b q.
Proof.
  intros [ax ay] [bx by_] [qx qy].
  unfold edge_class, on_seg, in_seg_box, y_in_range, x_in_range, cross, X, Y, px, py; cbn [fst snd].
  split.
  - intros H.
    destruct ((Z.min ay by_ <=? qy) && (qy <=? Z.max ay by_)) eqn:Hy; [|discriminate]. b2p.
    destruct (by_ =? ay) eqn:Hh; b2p.
    + destruct ((Z.min ax bx <=? qx) && (qx <=? Z.max ax bx)) eqn:Hx; [|discriminate]. b2p.
      subst by_. assert (qy = ay) by lia. subst qy. split; [ring|lia].
    + destruct (_ =? 0) eqn:Hc; b2p.
      * split; [exact Hc|]. split; [|lia]. nia.
      * destruct (ay <? by_); [destruct (_ && _)|destruct (_ && _)]; discriminate.
  - intros [Hc [Hx Hy]].
    destruct ((Z.min ay by_ <=? qy) && (qy <=? Z.max ay by_)) eqn:Hy'.
    2:{ apply andb_false_iff in Hy'. destruct Hy' as [Hy'|Hy']; b2p; lia. }
    destruct (by_ =? ay) eqn:Hh; b2p.
    + destruct ((Z.min ax bx <=? qx) && (qx <=? Z.max ax bx)) eqn:Hx'; [reflexivity|].
      apply andb_false_iff in Hx'. destruct Hx' as [Hx'|Hx']; b2p; lia.
    + rewrite Hc. reflexivity.
Qed.

Lemma edge_class_some : forall a b q d, edge_class a b q = Some d -> d = wind_edge a b q.
Proof.
  intros [ax ay] [bx by_] [qx qy] d.
  unfold edge_class, wind_edge, up_right, down_right, y_in_range, x_in_range, cross, X, Y, px, py; cbn [fst snd].
  set (cr := (bx - ax) * (qy - ay) - (qx - ax) * (by_ - ay)).
  intros H.
  destruct ((Z.min ay by_ <=? qy) && (qy <=? Z.max ay by_)) eqn:Hy.
  - b2p. destruct (by_ =? ay) eqn:Hh; b2p.
    + destruct (_ && _) in H; [discriminate|]. injection H as <-.
      subst by_.
      replace (ay <=? qy) with true by (symmetry; apply Z.leb_le; lia).
      replace (qy <? ay) with false by (symmetry; apply Z.ltb_ge; lia).
      reflexivity.
    + destruct (cr =? 0) eqn:Hc; [discriminate|]. b2p.
      destruct (ay <? by_) eqn:Hud; b2p.
      * replace (by_ <=? qy) with (negb (qy <? by_)) by (rewrite Z.ltb_antisym, negb_involutive; reflexivity).
        replace (ay <=? qy) with true by (symmetry; apply Z.leb_le; lia).
        replace (qy <? ay) with false by (symmetry; apply Z.ltb_ge; lia).
        destruct (qy <? by_); cbn [andb negb] in *; [|injection H as <-; reflexivity].
        destruct (0 <? cr); cbn [andb negb] in *; injection H as <-; reflexivity.
      * replace (ay <=? qy) with (negb (qy <? ay)) by (rewrite Z.ltb_antisym, negb_involutive; reflexivity).
        replace (by_ <=? qy) with true by (symmetry; apply Z.leb_le; lia).
        replace (qy <? by_) with false by (symmetry; apply Z.ltb_ge; lia).
        destruct (qy <? ay); cbn [andb negb] in *; [|injection H as <-; reflexivity].
        destruct (cr <? 0); cbn [andb negb] in *; injection H as <-; reflexivity.
  - injection H as <-.
    apply andb_false_iff in Hy.
    destruct ((ay <=? qy) && (qy <? by_)) eqn:H1.
    { b2p. destruct Hy; b2p; lia. }
    cbn [andb].
    destruct ((by_ <=? qy) && (qy <? ay)) eqn:H2.
    { b2p. destruct Hy; b2p; lia. }
    reflexivity.
Qed.

(** signed crossing sum over a list of edges *)
Definition wsum (es : list (pt * pt)) (q : pt) : Z :=
  fold_right (fun e n => wind_edge (fst e) (snd e) q + n) 0 es.

Lemma winding_wsum : forall P q, winding P q = wsum (edges P) q.
Proof. reflexivity. Qed.

Lemma poly_scan_spec : forall es q w b,
  poly_scan es q w = Ret b ->
  (b = true <-> (exists e, In e es /\ on_seg (fst e) (snd e) q) \/ w + wsum es q <> 0).
Proof.
  induction es as [|[a b0] es IH]; intros q w b H.
  - cbn in H. injection H as <-. cbn [wsum fold_right].
    rewrite negb_true_iff, Z.eqb_neq, Z.add_0_r.
    split; [intros Hw; right; exact Hw|].
    intros [[e [[] _]]|Hw]; exact Hw.
  - rewrite poly_scan_step in H.
    destruct (edge_ovf a b0 q); [discriminate|].
    destruct (edge_class a b0 q) as [d|] eqn:Hc.
    + pose proof (edge_class_some _ _ _ _ Hc) as Hd.
      assert (Hn : ~ on_seg a b0 q).
      { intros Ho. apply edge_class_none in Ho. congruence. }
      specialize (IH q (w + d) b H). rewrite IH.
      cbn [wsum fold_right fst snd]. fold (wsum es q). rewrite <- Hd.
      split.
      * intros [[e [Hin Ho]]|Hw]; [left; exists e; split; [right; exact Hin|exact Ho]|right; lia].
      * intros [[e [[<-|Hin] Ho]]|Hw]; [contradiction|left; exists e; split; assumption|right; lia].
    + injection H as <-. apply edge_class_none in Hc.
      split; [intros _|reflexivity]. left. exists (a, b0). split; [left; reflexivity|exact Hc].
Qed.

(** ** sums over edge lists; telescoping over closed chains *)
Definition esum (f : pt -> pt -> Z) (es : list (pt * pt)) : Z :=
  fold_right (fun e n => f (fst e) (snd e) + n) 0 es.

Lemma esum_cons : forall f a b es, esum f ((a, b) :: es) = f a b + esum f es.
Proof. reflexivity. Qed.

Lemma esum_app : forall f l1 l2, esum f (l1 ++ l2) = esum f l1 + esum f l2.
Proof.
  intros f l1 l2. induction l1 as [|[a b] l1 IH]; [reflexivity|].
  cbn [app]. rewrite !esum_cons, IH. ring.
Qed.

Lemma esum_ext : forall f g es,
  (forall e, In e es -> f (fst e) (snd e) = g (fst e) (snd e)) -> esum f es = esum g es.
Proof.
  intros f g es. induction es as [|[a b] es IH]; intros H; [reflexivity|].
  rewrite !esum_cons. rewrite IH by (intros e He; apply H; right; exact He).
  pose proof (H (a, b) (or_introl eq_refl)) as Hab. cbn [fst snd] in Hab. rewrite Hab. reflexivity.
Qed.

Lemma last_cons_default : forall (l : list pt) a b, last (b :: l) a = last l b.
Proof.
  induction l as [|c l IH]; intros a b; [reflexivity|].
  change (last (b :: c :: l) a) with (last (c :: l) a).
  rewrite (IH a c), (IH b c). reflexivity.
Qed.

Lemma esum_tele : forall (g : pt -> Z) l a,
  esum (fun x y => g x - g y) (chain (a :: l)) = g a - g (last l a).
Proof.
  intros g. induction l as [|b l IH]; intros a.
  - cbn. ring.
  - change (chain (a :: b :: l)) with ((a, b) :: chain (b :: l)).
    rewrite esum_cons, IH.
    rewrite last_cons_default. ring.
Qed.

Lemma esum_closed : forall (g : pt -> Z) P, esum (fun x y => g x - g y) (edges P) = 0.
Proof.
  intros g [|p0 tl]; [reflexivity|].
  unfold edges. change ((p0 :: tl) ++ [p0]) with (p0 :: (tl ++ [p0])).
  rewrite esum_tele, last_last. ring.
Qed.

Lemma wsum_esum : forall es q, wsum es q = esum (fun a b => wind_edge a b q) es.
Proof. reflexivity. Qed.

(** the end points of every edge are vertices *)
Lemma chain_in : forall l a b, In (a, b) (chain l) -> In a l /\ In b l.
Proof.
  induction l as [|x l IH]; intros a b H; [destruct H|].
  destruct l as [|y l]; [destruct H|].
  change (chain (x :: y :: l)) with ((x, y) :: chain (y :: l)) in H.
  destruct H as [H|H].
  - injection H as <- <-. split; [left; reflexivity|right; left; reflexivity].
  - apply IH in H. destruct H as [Ha Hb]. split; right; assumption.
Qed.

Lemma edges_in : forall P a b, In (a, b) (edges P) -> In a P /\ In b P.
Proof.
  intros [|p0 tl] a b H; [destruct H|].
  unfold edges in H. apply chain_in in H. destruct H as [Ha Hb].
  split.
  - apply in_app_or in Ha. destruct Ha as [Ha|[<-|[]]]; [exact Ha|left; reflexivity].
  - apply in_app_or in Hb. destruct Hb as [Hb|[<-|[]]]; [exact Hb|left; reflexivity].
Qed.

(** ** a point outside the bounding box of the vertices is outside the region *)
Definition above (q p : pt) : Z := if py q <? py p then 1 else 0.

Lemma wind_edge_left : forall a b q, px q < px a -> px q < px b ->
  wind_edge a b q = above q b - above q a.
Proof.
  intros [ax ay] [bx by_] [qx qy]. unfold wind_edge, up_right, down_right, above, cross, px, py; cbn [fst snd].
  intros Ha Hb.
  destruct (qy <? by_) eqn:H1, (qy <? ay) eqn:H2; b2p.
  - replace (ay <=? qy) with false by (symmetry; apply Z.leb_gt; lia).
    replace (by_ <=? qy) with false by (symmetry; apply Z.leb_gt; lia). reflexivity.
  - replace (ay <=? qy) with true by (symmetry; apply Z.leb_le; lia).
    replace (0 <? (bx - ax) * (qy - ay) - (qx - ax) * (by_ - ay)) with true; [reflexivity|].
    symmetry; apply Z.ltb_lt. nia.
  - replace (ay <=? qy) with false by (symmetry; apply Z.leb_gt; lia).
    replace (by_ <=? qy) with true by (symmetry; apply Z.leb_le; lia).
    replace ((bx - ax) * (qy - ay) - (qx - ax) * (by_ - ay) <? 0) with true; [reflexivity|].
    symmetry; apply Z.ltb_lt. nia.
  - rewrite !andb_false_r. cbn [andb]. reflexivity.
Qed.

Lemma wind_edge_right : forall a b q, px a < px q -> px b < px q -> wind_edge a b q = 0.
Proof.
  intros [ax ay] [bx by_] [qx qy]. unfold wind_edge, up_right, down_right, cross, px, py; cbn [fst snd].
  intros Ha Hb.
  destruct ((ay <=? qy) && (qy <? by_)) eqn:H1; cbn [andb].
  - b2p. replace (0 <? (bx - ax) * (qy - ay) - (qx - ax) * (by_ - ay)) with false.
    2:{ symmetry; apply Z.ltb_ge. nia. }
    destruct ((by_ <=? qy) && (qy <? ay)) eqn:H2; cbn [andb]; [b2p; lia|reflexivity].
  - destruct ((by_ <=? qy) && (qy <? ay)) eqn:H2; cbn [andb]; [|reflexivity].
    b2p. replace ((bx - ax) * (qy - ay) - (qx - ax) * (by_ - ay) <? 0) with false; [reflexivity|].
    symmetry; apply Z.ltb_ge. nia.
Qed.

Lemma wind_edge_yout : forall a b q,
  (py q < py a /\ py q < py b) \/ (py a < py q /\ py b < py q) -> wind_edge a b q = 0.
Proof.
  intros [ax ay] [bx by_] [qx qy]. unfold wind_edge, up_right, down_right, px, py; cbn [fst snd].
  intros H.
  destruct ((ay <=? qy) && (qy <? by_)) eqn:H1; [b2p; lia|].
  destruct ((by_ <=? qy) && (qy <? ay)) eqn:H2; [b2p; lia|]. reflexivity.
Qed.

Lemma esum_zero : forall f es, (forall e, In e es -> f (fst e) (snd e) = 0) -> esum f es = 0.
Proof.
  intros f es. induction es as [|[a b] es IH]; intros H; [reflexivity|].
  rewrite esum_cons, IH by (intros e He; apply H; right; exact He).
  pose proof (H (a, b) (or_introl eq_refl)) as Hab. cbn [fst snd] in Hab. lia.
Qed.

Definition outside_bbox (P : list pt) (q : pt) : Prop :=
  (forall p, In p P -> px q < px p) \/ (forall p, In p P -> px p < px q) \/
  (forall p, In p P -> py q < py p) \/ (forall p, In p P -> py p < py q).

Lemma outside_bbox_not_in_region_nz : forall P q, outside_bbox P q -> ~ in_region_nz P q.
Proof.
  intros P q Hout [[[a b] [Hin [_ [Hx Hy]]]]|Hw].
  - cbn [fst snd] in Hx, Hy. apply edges_in in Hin. destruct Hin as [Ha Hb].
    destruct Hout as [H|[H|[H|H]]]; pose proof (H _ Ha); pose proof (H _ Hb); lia.
  - apply Hw. rewrite winding_wsum, wsum_esum.
    destruct Hout as [H|[H|[H|H]]].
    + rewrite (esum_ext _ (fun a b => above q b - above q a)).
      2:{ intros [a b] He. apply edges_in in He. destruct He. apply wind_edge_left; apply H; assumption. }
      pose proof (esum_closed (fun p => - above q p) P) as Hc.
      rewrite <- Hc. apply esum_ext. intros; ring.
    + apply esum_zero. intros [a b] He. apply edges_in in He. destruct He.
      apply wind_edge_right; apply H; assumption.
    + apply esum_zero. intros [a b] He. apply edges_in in He. destruct He as [Ha Hb].
      apply wind_edge_yout. left. split; apply H; assumption.
    + apply esum_zero. intros [a b] He. apply edges_in in He. destruct He as [Ha Hb].
      apply wind_edge_yout. right. split; apply H; assumption.
Qed.

(** the model's bounding box *)
Lemma points_bbox_bounds : forall ps bb p,
  In p ps ->
  let r := fold_left bbox_union_pt ps bb in
  X (fst r) <= X p <= X (snd r) /\ Y (fst r) <= Y p <= Y (snd r).
Proof.
  assert (Hmono : forall ps bb,
    let r := fold_left bbox_union_pt ps bb in
    X (fst r) <= X (fst bb) /\ X (snd bb) <= X (snd r) /\ Y (fst r) <= Y (fst bb) /\ Y (snd bb) <= Y (snd r)).
  { induction ps as [|p ps IH]; intros bb; cbn [fold_left].
    - lia.
    - specialize (IH (bbox_union_pt bb p)). cbv zeta in IH.
      destruct bb as [[b0x b0y] [b1x b1y]]. unfold bbox_union_pt, X, Y in *. cbn [fst snd] in *. lia. }
  induction ps as [|p0 ps IH]; intros bb p Hin; [destruct Hin|].
  cbn [fold_left]. destruct Hin as [<-|Hin].
  - specialize (Hmono ps (bbox_union_pt bb p0)). cbv zeta in Hmono.
    destruct bb as [[b0x b0y] [b1x b1y]]. unfold bbox_union_pt, X, Y in *. cbn [fst snd] in *. lia.
  - apply IH. exact Hin.
Qed.

Lemma bbox_false_outside : forall P q, bbox_contains (points_bbox P) q = false -> outside_bbox P q.
Proof.
  intros P q H. unfold points_bbox in H.
  pose proof (fun p Hp => points_bbox_bounds P bbox_empty p Hp) as Hb. cbv zeta in Hb.
  destruct (fold_left bbox_union_pt P bbox_empty) as [b0 b1]. unfold bbox_contains in H.
  cbn [fst snd] in Hb. unfold X, Y in *. unfold outside_bbox, px, py.
  apply andb_false_iff in H. destruct H as [H|H]; [apply andb_false_iff in H; destruct H as [H|H];
    [apply andb_false_iff in H; destruct H as [H|H]|]|]; b2p.
  - left. intros p Hp. specialize (Hb p Hp). lia.
  - right; left. intros p Hp. specialize (Hb p Hp). lia.
  - right; right; left. intros p Hp. specialize (Hb p Hp). lia.
  - right; right; right. intros p Hp. specialize (Hb p Hp). lia.
Qed.

(** ** Polygon::contains (repaired) = the closed region, non-zero-winding rule, for ALL vertex lists *)
Theorem poly_contains_nz : forall P q b,
  poly_contains P q = Ret b -> (b = true <-> in_region_nz P q).
Proof.
  intros P q b H. unfold poly_contains in H.
  destruct (bbox_contains (points_bbox P) q) eqn:Hbb; cbn [negb] in H.
  - rewrite seg_pairs_edges in H. apply poly_scan_spec in H. rewrite H.
    unfold in_region_nz, on_boundary. rewrite winding_wsum. rewrite Z.add_0_l. reflexivity.
  - injection H as <-. apply bbox_false_outside in Hbb.
    split; [discriminate|]. intros Hr. exfalso. exact (outside_bbox_not_in_region_nz _ _ Hbb Hr).
Qed.

(** ** no overflow: coordinates of magnitude below 2^62 *)
Definition coord_ok (z : Z) : Prop := Z.abs z < 2 ^ 62.
Definition pt_ok (p : pt) : Prop := coord_ok (px p) /\ coord_ok (py p).

Lemma edge_ovf_false : forall a b q, pt_ok a -> pt_ok b -> pt_ok q -> edge_ovf a b q = false.
Proof.
  intros [ax ay] [bx by_] [qx qy] [Ha1 Ha2] [Hb1 Hb2] [Hq1 Hq2].
  unfold coord_ok, px, py in *; cbn [fst snd] in *.
  unfold edge_ovf, X, Y; cbn [fst snd].
  destruct (y_in_range _ _ _); [|reflexivity]. destruct (_ =? _); [reflexivity|]. cbn [andb negb].
  apply negb_false_iff.
  assert (H62 : 2 ^ 62 = 4611686018427387904) by reflexivity.
  assert (Hin : forall z, Z.abs z < 2 ^ 127 -> in_i128 z = true).
  { intros z Hz. unfold in_i128, i128_min, i128_max.
    assert (2 ^ 126 = 85070591730234615865843651857942052864) by reflexivity.
    assert (2 ^ 127 = 170141183460469231731687303715884105728) by reflexivity.
    apply andb_true_iff; split; apply Z.leb_le; lia. }
  assert (H126 : 2 ^ 126 = 2 ^ 63 * 2 ^ 63) by reflexivity.
  assert (H63 : 2 ^ 63 = 9223372036854775808) by reflexivity.
  assert (Hd : forall u v, Z.abs u < 2 ^ 62 -> Z.abs v < 2 ^ 62 -> Z.abs (u - v) < 2 ^ 63) by (intros; lia).
  assert (Hp : forall u v, Z.abs u < 2 ^ 63 -> Z.abs v < 2 ^ 63 -> Z.abs (u * v) < 2 ^ 126).
  { intros u v Hu Hv. rewrite Z.abs_mul, H126.
    destruct (Z.eq_dec (Z.abs v) 0) as [->|Hnz]; [lia|].
    apply Z.le_lt_trans with (Z.abs u * 2 ^ 63); [|apply Z.mul_lt_mono_pos_r; lia].
    apply Z.mul_le_mono_nonneg_l; lia. }
  pose proof (Hd _ _ Hb1 Ha1). pose proof (Hd _ _ Hq2 Ha2). pose proof (Hd _ _ Hq1 Ha1). pose proof (Hd _ _ Hb2 Ha2).
  pose proof (Hp (bx - ax) (qy - ay) ltac:(assumption) ltac:(assumption)).
  pose proof (Hp (qx - ax) (by_ - ay) ltac:(assumption) ltac:(assumption)).
  assert (2 ^ 126 = 85070591730234615865843651857942052864) by reflexivity.
  assert (2 ^ 127 = 170141183460469231731687303715884105728) by reflexivity.
  cbn [all_in_i128 forallb]. rewrite !Hin; [reflexivity| | | | | | |]; lia.
Qed.

Lemma poly_scan_total : forall es q w,
  (forall a b, In (a, b) es -> edge_ovf a b q = false) -> exists b, poly_scan es q w = Ret b.
Proof.
  induction es as [|[a b0] es IH]; intros q w H.
  - eexists; reflexivity.
  - rewrite poly_scan_step. rewrite (H a b0) by (left; reflexivity).
    destruct (edge_class a b0 q); [|eexists; reflexivity].
    apply IH. intros a' b' Hin. apply H. right. exact Hin.
Qed.

Theorem poly_contains_total : forall P q,
  Forall pt_ok P -> pt_ok q -> exists b, poly_contains P q = Ret b.
Proof.
  intros P q HP Hq. unfold poly_contains.
  destruct (negb _); [eexists; reflexivity|].
  apply poly_scan_total. intros a b Hin. rewrite seg_pairs_edges in Hin.
  apply edges_in in Hin. destruct Hin as [Ha Hb]. rewrite Forall_forall in HP.
  apply edge_ovf_false; auto.
Qed.

(** ** crossings and winding as edge sums *)
Definition cr01 (q a b : pt) : Z := if crosses_right a b q then 1 else 0.
Definition wnd (q a b : pt) : Z := wind_edge a b q.

Lemma crossings_esum : forall P q, crossings P q = esum (cr01 q) (edges P).
Proof. reflexivity. Qed.
Lemma winding_esum : forall P q, winding P q = esum (wnd q) (edges P).
Proof. reflexivity. Qed.

Lemma up_down_excl : forall a b q, up_right a b q = true -> down_right a b q = false.
Proof.
  intros a b q H. unfold up_right, down_right in *. b2p.
  destruct (py b <=? py q) eqn:E; [b2p; lia|reflexivity].
Qed.

Lemma cr01_abs_wnd : forall q a b, cr01 q a b = Z.abs (wnd q a b).
Proof.
  intros q a b. unfold cr01, wnd, wind_edge, crosses_right.
  destruct (up_right a b q) eqn:U; [reflexivity|].
  destruct (down_right a b q); reflexivity.
Qed.

Lemma odd_abs : forall z, Z.odd (Z.abs z) = Z.odd z.
Proof. intros z. destruct z; reflexivity. Qed.

Lemma esum_odd_abs : forall f es, Z.odd (esum (fun a b => Z.abs (f a b)) es) = Z.odd (esum f es).
Proof.
  intros f es. induction es as [|[a b] es IH]; [reflexivity|].
  rewrite !esum_cons, !Z.odd_add, IH, odd_abs. reflexivity.
Qed.

Lemma crossings_winding_parity : forall P q, Z.odd (crossings P q) = Z.odd (winding P q).
Proof.
  intros P q. rewrite crossings_esum, winding_esum.
  rewrite (esum_ext (cr01 q) (fun a b => Z.abs (wnd q a b))) by (intros; apply cr01_abs_wnd).
  apply esum_odd_abs.
Qed.

(** even-odd region is contained in the non-zero-winding region; they agree when the signed
    count is -1, 0 or 1 (as it is for simple polygons, by the Jordan curve theorem) *)
Lemma in_region_in_nz : forall P q, in_region P q -> in_region_nz P q.
Proof.
  intros P q [H|H]; [left; exact H|right].
  rewrite crossings_winding_parity in H. intros E. rewrite E in H. discriminate.
Qed.

Lemma in_region_nz_iff : forall P q, -1 <= winding P q <= 1 -> (in_region P q <-> in_region_nz P q).
Proof.
  intros P q Hw. split; [apply in_region_in_nz|].
  intros [H|H]; [left; exact H|right].
  rewrite crossings_winding_parity.
  assert (winding P q = 1 \/ winding P q = -1) as [->| ->] by lia; reflexivity.
Qed.

(** ** the decision procedures of the checker decide the specification *)
Lemma on_segb_spec : forall a b q, on_segb a b q = true <-> on_seg a b q.
Proof.
  intros a b q. unfold on_segb, in_seg_boxb, on_seg, in_seg_box.
  rewrite !andb_true_iff, !Z.leb_le, Z.eqb_eq. tauto.
Qed.

Lemma on_boundaryb_spec : forall P q, on_boundaryb P q = true <-> on_boundary P q.
Proof.
  intros P q. unfold on_boundaryb, on_boundary. rewrite existsb_exists.
  split; intros [e [H1 H2]]; exists e; (split; [exact H1|apply on_segb_spec; exact H2]).
Qed.

Lemma in_regionb_spec : forall P q, in_regionb P q = true <-> in_region P q.
Proof.
  intros P q. unfold in_regionb, in_region. rewrite orb_true_iff, on_boundaryb_spec. reflexivity.
Qed.

Lemma in_region_nzb_spec : forall P q, in_region_nzb P q = true <-> in_region_nz P q.
Proof.
  intros P q. unfold in_region_nzb, in_region_nz.
  rewrite orb_true_iff, on_boundaryb_spec, negb_true_iff, Z.eqb_neq. reflexivity.
Qed.

(** ** invariance under anything that permutes / maps the edge list edge by edge *)
Lemma esum_perm : forall f es es', Permutation es es' -> esum f es = esum f es'.
Proof.
  intros f es es' H. induction H as [|[a b] l l' H IH|[a b] [c d] l|l l' l'' H1 IH1 H2 IH2].
  - reflexivity.
  - rewrite !esum_cons, IH. reflexivity.
  - rewrite !esum_cons. ring.
  - congruence.
Qed.

Lemma esum_map : forall f (phi : pt * pt -> pt * pt) es,
  esum f (map phi es) = esum (fun a b => f (fst (phi (a, b))) (snd (phi (a, b)))) es.
Proof.
  intros f phi es. induction es as [|[a b] es IH]; [reflexivity|].
  cbn [map]. destruct (phi (a, b)) as [a' b'] eqn:E. rewrite !esum_cons, IH, E. reflexivity.
Qed.

Section EdgeMap.
  Variables (P P' : list pt) (q q' : pt) (phi : pt * pt -> pt * pt).
  Hypothesis Hperm : Permutation (edges P') (map phi (edges P)).
  Hypothesis Hon : forall a b, on_seg (fst (phi (a, b))) (snd (phi (a, b))) q' <-> on_seg a b q.

  Lemma on_boundary_edge_map : on_boundary P' q' <-> on_boundary P q.
  Proof.
    unfold on_boundary. split.
    - intros [e [Hin Ho]]. apply (Permutation_in _ Hperm) in Hin. apply in_map_iff in Hin.
      destruct Hin as [[a b] [<- Hin]]. exists (a, b). split; [exact Hin|]. apply Hon. exact Ho.
    - intros [[a b] [Hin Ho]]. exists (phi (a, b)). split.
      + apply (Permutation_in _ (Permutation_sym Hperm)). apply in_map. exact Hin.
      + apply Hon. exact Ho.
  Qed.

  Lemma in_region_edge_map :
    (forall a b, cr01 q' (fst (phi (a, b))) (snd (phi (a, b))) = cr01 q a b) ->
    (in_region P' q' <-> in_region P q).
  Proof.
    intros Hc. unfold in_region. rewrite on_boundary_edge_map.
    rewrite !crossings_esum, (esum_perm _ _ _ Hperm), esum_map.
    rewrite (esum_ext _ (cr01 q)) by (intros [a b] _; apply Hc). reflexivity.
  Qed.

  Lemma in_region_nz_edge_map : forall s, (s = 1 \/ s = -1) ->
    (forall a b, wnd q' (fst (phi (a, b))) (snd (phi (a, b))) = s * wnd q a b) ->
    (in_region_nz P' q' <-> in_region_nz P q).
  Proof.
    intros s Hs Hc. unfold in_region_nz. rewrite on_boundary_edge_map.
    rewrite !winding_esum, (esum_perm _ _ _ Hperm), esum_map.
    rewrite (esum_ext _ (fun a b => s * wnd q a b)) by (intros [a b] _; apply Hc).
    assert (E : forall es, esum (fun a b => s * wnd q a b) es = s * esum (wnd q) es).
    { induction es as [|[a b] es IH]; [cbn; ring|]. rewrite !esum_cons, IH. ring. }
    rewrite E. destruct Hs as [-> | ->]; split; intros [H|H]; auto; right; lia.
  Qed.
End EdgeMap.

(** ** cyclic shift of the vertex list *)
Lemma chain_app : forall (l : list pt) x m, chain (l ++ x :: m) = chain (l ++ [x]) ++ chain (x :: m).
Proof.
  induction l as [|a l IH]; intros x m.
  - reflexivity.
  - destruct l as [|b l].
    + reflexivity.
    + change (chain ((a :: b :: l) ++ x :: m)) with ((a, b) :: chain ((b :: l) ++ x :: m)).
      change (chain ((a :: b :: l) ++ [x])) with ((a, b) :: chain ((b :: l) ++ [x])).
      rewrite IH. reflexivity.
Qed.

Lemma edges_rotate : forall l1 l2, Permutation (edges (l2 ++ l1)) (edges (l1 ++ l2)).
Proof.
  intros [|a l1] [|b l2]; rewrite ?app_nil_r; try apply Permutation_refl.
  unfold edges. cbn [app].
  replace (a :: (l1 ++ b :: l2) ++ [a]) with ((a :: l1) ++ b :: (l2 ++ [a])) by (cbn; rewrite <- app_assoc; reflexivity).
  replace (b :: (l2 ++ a :: l1) ++ [b]) with ((b :: l2) ++ a :: (l1 ++ [b])) by (cbn; rewrite <- app_assoc; reflexivity).
  rewrite (chain_app (a :: l1) b (l2 ++ [a])), (chain_app (b :: l2) a (l1 ++ [b])). apply Permutation_app_comm.
Qed.

Lemma map_id_edges : forall (es : list (pt * pt)), map (fun e => e) es = es.
Proof. apply map_id. Qed.

Theorem in_region_rotate : forall l1 l2 q, in_region (l2 ++ l1) q <-> in_region (l1 ++ l2) q.
Proof.
  intros l1 l2 q. apply (in_region_edge_map _ _ q q (fun e => e)).
  - rewrite map_id. apply edges_rotate.
  - reflexivity.
  - reflexivity.
Qed.

Theorem in_region_nz_rotate : forall l1 l2 q, in_region_nz (l2 ++ l1) q <-> in_region_nz (l1 ++ l2) q.
Proof.
  intros l1 l2 q. apply (in_region_nz_edge_map _ _ q q (fun e => e)) with (s := 1).
  - rewrite map_id. apply edges_rotate.
  - reflexivity.
  - left; reflexivity.
  - intros; cbn [fst snd]; ring.
Qed.

(** ** reversal of the vertex list *)
Definition swap (e : pt * pt) : pt * pt := (snd e, fst e).

Lemma chain_rev : forall l, chain (rev l) = map swap (rev (chain l)).
Proof.
  induction l as [|a l IH]; [reflexivity|].
  destruct l as [|b l]; [reflexivity|].
  change (chain (a :: b :: l)) with ((a, b) :: chain (b :: l)).
  cbn [rev] in *. rewrite <- app_assoc. cbn [app].
  rewrite chain_app. rewrite IH. rewrite map_app. reflexivity.
Qed.

Lemma edges_rev : forall P, Permutation (edges (rev P)) (map swap (edges P)).
Proof.
  intros [|p0 tl]; [apply Permutation_refl|].
  (* rev (p0 :: tl) = rev tl ++ [p0], a rotation of p0 :: rev tl *)
  cbn [rev]. eapply Permutation_trans; [apply (edges_rotate [p0] (rev tl))|].
  cbn [app]. unfold edges.
  replace ((p0 :: rev tl) ++ [p0]) with (rev ((p0 :: tl) ++ [p0])).
  2:{ rewrite rev_app_distr. cbn [rev app]. reflexivity. }
  rewrite chain_rev. apply Permutation_map. apply Permutation_sym, Permutation_rev.
Qed.

Lemma cross_swap : forall a b q, cross b a q = - cross a b q.
Proof. intros a b q. unfold cross. ring. Qed.

Lemma on_seg_swap : forall a b q, on_seg b a q <-> on_seg a b q.
Proof.
  intros a b q. unfold on_seg, in_seg_box. rewrite cross_swap.
  rewrite (Z.min_comm (px b)), (Z.max_comm (px b)), (Z.min_comm (py b)), (Z.max_comm (py b)). lia.
Qed.

Lemma up_right_swap : forall a b q, up_right b a q = down_right a b q.
Proof.
  intros a b q. unfold up_right, down_right. rewrite cross_swap. f_equal.
  destruct (cross a b q <? 0) eqn:E, (0 <? - cross a b q) eqn:E'; b2p; try reflexivity; lia.
Qed.

Lemma down_right_swap : forall a b q, down_right b a q = up_right a b q.
Proof.
  intros a b q. unfold up_right, down_right. rewrite cross_swap. f_equal.
  destruct (0 <? cross a b q) eqn:E, (- cross a b q <? 0) eqn:E'; b2p; try reflexivity; lia.
Qed.

Lemma wnd_swap : forall q a b, wnd q b a = - wnd q a b.
Proof.
  intros q a b. unfold wnd, wind_edge. rewrite (up_right_swap a b q), (down_right_swap a b q).
  destruct (up_right a b q) eqn:U.
  - rewrite (up_down_excl _ _ _ U). reflexivity.
  - destruct (down_right a b q); reflexivity.
Qed.

Lemma cr01_swap : forall q a b, cr01 q b a = cr01 q a b.
Proof. intros. rewrite !cr01_abs_wnd, wnd_swap. apply Z.abs_opp. Qed.

Theorem in_region_rev : forall P q, in_region (rev P) q <-> in_region P q.
Proof.
  intros P q. apply (in_region_edge_map _ _ q q swap).
  - apply edges_rev.
  - intros a b. cbn [swap fst snd]. apply on_seg_swap.
  - intros a b. cbn [swap fst snd]. apply cr01_swap.
Qed.

Theorem in_region_nz_rev : forall P q, in_region_nz (rev P) q <-> in_region_nz P q.
Proof.
  intros P q. apply (in_region_nz_edge_map _ _ q q swap) with (s := -1).
  - apply edges_rev.
  - intros a b. cbn [swap fst snd]. apply on_seg_swap.
  - right; reflexivity.
  - intros a b. cbn [swap fst snd]. rewrite wnd_swap. ring.
Qed.

(** ** translation *)
Definition shift (d p : pt) : pt := (px p + px d, py p + py d).

Lemma chain_map : forall (f : pt -> pt) l, chain (map f l) = map (fun e => (f (fst e), f (snd e))) (chain l).
Proof.
  intros f. induction l as [|a l IH]; [reflexivity|].
  destruct l as [|b l]; [reflexivity|].
  change (chain (map f (a :: b :: l))) with ((f a, f b) :: chain (map f (b :: l))).
  rewrite IH. reflexivity.
Qed.

Lemma edges_map : forall (f : pt -> pt) P, edges (map f P) = map (fun e => (f (fst e), f (snd e))) (edges P).
Proof.
  intros f [|p0 tl]; [reflexivity|].
  unfold edges. cbn [map]. rewrite <- chain_map. cbn [map]. rewrite map_app. reflexivity.
Qed.

Lemma cross_shift : forall d a b q, cross (shift d a) (shift d b) (shift d q) = cross a b q.
Proof. intros d a b q. unfold cross, shift, px, py; cbn [fst snd]. ring. Qed.

Lemma on_seg_shift : forall d a b q, on_seg (shift d a) (shift d b) (shift d q) <-> on_seg a b q.
Proof.
  intros d a b q. unfold on_seg, in_seg_box. rewrite cross_shift.
  unfold shift, px, py; cbn [fst snd]. lia.
Qed.

Lemma leb_shift : forall x y d, (x + d <=? y + d) = (x <=? y).
Proof. intros. destruct (x <=? y) eqn:E, (x + d <=? y + d) eqn:E'; b2p; try reflexivity; lia. Qed.
Lemma ltb_shift : forall x y d, (x + d <? y + d) = (x <? y).
Proof. intros. destruct (x <? y) eqn:E, (x + d <? y + d) eqn:E'; b2p; try reflexivity; lia. Qed.

Lemma up_right_shift : forall d a b q, up_right (shift d a) (shift d b) (shift d q) = up_right a b q.
Proof.
  intros d a b q. unfold up_right. rewrite cross_shift. unfold shift, px, py; cbn [fst snd].
  rewrite leb_shift, ltb_shift. reflexivity.
Qed.

Lemma down_right_shift : forall d a b q, down_right (shift d a) (shift d b) (shift d q) = down_right a b q.
Proof.
  intros d a b q. unfold down_right. rewrite cross_shift. unfold shift, px, py; cbn [fst snd].
  rewrite leb_shift, ltb_shift. reflexivity.
Qed.

Theorem in_region_shift : forall d P q, in_region (map (shift d) P) (shift d q) <-> in_region P q.
Proof.
  intros d P q. apply (in_region_edge_map _ _ q (shift d q) (fun e => (shift d (fst e), shift d (snd e)))).
  - rewrite edges_map. apply Permutation_refl.
  - intros a b. cbn [fst snd]. apply on_seg_shift.
  - intros a b. cbn [fst snd]. unfold cr01, crosses_right. rewrite up_right_shift, down_right_shift. reflexivity.
Qed.

Theorem in_region_nz_shift : forall d P q, in_region_nz (map (shift d) P) (shift d q) <-> in_region_nz P q.
Proof.
  intros d P q.
  apply (in_region_nz_edge_map _ _ q (shift d q) (fun e => (shift d (fst e), shift d (snd e)))) with (s := 1).
  - rewrite edges_map. apply Permutation_refl.
  - intros a b. cbn [fst snd]. apply on_seg_shift.
  - left; reflexivity.
  - intros a b. cbn [fst snd]. unfold wnd, wind_edge. rewrite up_right_shift, down_right_shift. ring.
Qed.

(** ** combined form: the repaired Polygon::contains computes [in_region_nzb] *)
Theorem poly_contains_eq_nzb : forall P q,
  Forall pt_ok P -> pt_ok q -> poly_contains P q = Ret (in_region_nzb P q).
Proof.
  intros P q HP Hq. destruct (poly_contains_total P q HP Hq) as [b Hb]. rewrite Hb. f_equal.
  pose proof (poly_contains_nz P q b Hb) as H. rewrite <- in_region_nzb_spec in H.
  destruct b, (in_region_nzb P q); try reflexivity.
  - symmetry. apply H. reflexivity.
  - apply H. reflexivity.
Qed.

(** ** Path::contains *)

(** the rectangle the code tests for segment a b with half-width hw: a segment with equal x
    (zero-length segments included) is read as vertical, any other as horizontal *)
Definition seg_cover (hw : Z) (a b q : pt) : Prop :=
  (px a = px b /\ Z.abs (px q - px a) <= hw /\ Z.min (py a) (py b) <= py q <= Z.max (py a) (py b))
  \/ (px a <> px b /\ py a = py b /\ Z.abs (py q - py a) <= hw /\ Z.min (px a) (px b) <= px q <= Z.max (px a) (px b)).

Definition path_cover (hw : Z) (ps : list pt) (q : pt) : Prop :=
  exists a b, In (a, b) (chain ps) /\ seg_cover hw a b q.

Lemma path_scan_spec : forall ps hw q r, 0 <= hw ->
  path_scan ps hw q = Ret r -> (r = true <-> path_cover hw ps q).
Proof.
  induction ps as [|a ps IH]; intros hw q r Hhw H.
  - cbn in H. injection H as <-. split; [discriminate|]. intros [a [b [[] _]]].
  - destruct ps as [|b ps].
    + cbn in H. injection H as <-. split; [discriminate|]. intros [a' [b [[] _]]].
    + change (chain (a :: b :: ps)) with ((a, b) :: chain (b :: ps)) in *.
      assert (Hstep : forall c : bool,
        (c = true <-> seg_cover hw a b q) ->
        (if c then Ret true else path_scan (b :: ps) hw q) = Ret r ->
        (r = true <-> path_cover hw (a :: b :: ps) q)).
      { intros c Hc Hr. unfold path_cover.
        change (chain (a :: b :: ps)) with ((a, b) :: chain (b :: ps)).
        destruct c.
        - injection Hr as <-. split; [intros _|reflexivity].
          exists a, b. split; [left; reflexivity|apply Hc; reflexivity].
        - rewrite (IH hw q r Hhw Hr). unfold path_cover. split.
          + intros [a' [b' [Hin Hcv]]]. exists a', b'. split; [right; exact Hin|exact Hcv].
          + intros [a' [b' [[Heq|Hin] Hcv]]].
            * injection Heq as <- <-. apply Hc in Hcv. discriminate.
            * exists a', b'. split; assumption. }
      cbn [path_scan] in H.
      destruct (X a =? X b) eqn:Ex; b2p.
      * destruct (all_in_int _); [|discriminate].
        refine (Hstep _ _ H).
        rewrite rect_contains_spec. unfold in_box, seg_cover, X, Y, px, py in *; cbn [fst snd]. lia.
      * destruct (Y a =? Y b) eqn:Ey; b2p; [|discriminate].
        destruct (all_in_int _); [|discriminate].
        refine (Hstep _ _ H).
        rewrite rect_contains_spec. unfold in_box, seg_cover, X, Y, px, py in *; cbn [fst snd]. lia.
Qed.

Lemma path_scan_cons2 : forall a b ps hw q,
  path_scan (a :: b :: ps) hw q =
    if X a =? X b then
      let x0 := X a - hw in let x1 := X a + hw in
      if all_in_int [x0; x1] then
        if rect_contains (x0, Y a) (x1, Y b) q then Ret true else path_scan (b :: ps) hw q
      else Ovf
    else if Y a =? Y b then
      let y0 := Y a - hw in let y1 := Y a + hw in
      if all_in_int [y0; y1] then
        if rect_contains (X a, y0) (X b, y1) q then Ret true else path_scan (b :: ps) hw q
      else Ovf
    else Panic.
Proof. reflexivity. Qed.

(** no overflow, no panic: a Manhattan path with moderate coordinates *)
Lemma path_scan_total : forall ps hw q,
  Forall pt_ok ps -> 0 <= hw < 2 ^ 62 ->
  Forall (fun e => manhattan_seg (fst e) (snd e)) (chain ps) ->
  exists r, path_scan ps hw q = Ret r.
Proof.
  induction ps as [|a ps IH]; intros hw q Hok Hhw Hm; [eexists; reflexivity|].
  destruct ps as [|b ps]; [eexists; reflexivity|].
  change (chain (a :: b :: ps)) with ((a, b) :: chain (b :: ps)) in Hm.
  inversion Hm as [|e es Hab Hm' E]; subst. inversion Hok as [|p l Ha Hok' E]; subst.
  cbn [fst snd] in Hab. rewrite path_scan_cons2. cbv zeta.
  assert (H62 : 2 ^ 62 = 4611686018427387904) by reflexivity.
  assert (Hin : forall z, Z.abs z < 2 ^ 63 -> in_int z = true).
  { intros z Hz. unfold in_int, int_min, int_max.
    assert (2 ^ 63 = 9223372036854775808) by reflexivity.
    apply andb_true_iff; split; apply Z.leb_le; lia. }
  assert (H63 : 2 ^ 63 = 9223372036854775808) by reflexivity.
  destruct Ha as [Hax Hay]. unfold coord_ok, px, py in Hax, Hay.
  destruct (X a =? X b) eqn:Ex; b2p.
  - cbn [all_in_int forallb]. unfold X in *. rewrite !Hin by lia. cbn [andb].
    destruct (rect_contains _ _ _); [eexists; reflexivity|]. apply IH; assumption.
  - destruct Hab as [Hab|Hab]; [unfold X, px in *; contradiction|].
    unfold py in Hab. unfold Y. rewrite Hab, Z.eqb_refl.
    cbn [all_in_int forallb]. rewrite <- Hab. rewrite !Hin by lia. cbn [andb].
    destruct (rect_contains _ _ _); [eexists; reflexivity|]. apply IH; assumption.
Qed.

(** integer half-width: for integer distances, d <= w/2 (exact) iff d <= w quot 2 *)
Lemma half_width : forall w d, 0 <= w -> (2 * d <= w <-> d <= Z.quot w 2).
Proof.
  intros w d Hw. rewrite Z.quot_div_nonneg by lia.
  pose proof (Z.div_mod w 2 ltac:(lia)). pose proof (Z.mod_pos_bound w 2 ltac:(lia)). lia.
Qed.

(** must-accept: within half the width of a segment (DESIGN.md section 4) *)
Lemma near_seg_cover : forall w a b q, 0 <= w -> manhattan_seg a b ->
  near_seg w a b q -> seg_cover (Z.quot w 2) a b q.
Proof.
  intros w [ax ay] [bx by_] [qx qy] Hw Hm Hn.
  pose proof (half_width w (Z.abs (qx - ax)) Hw) as Hx.
  pose proof (half_width w (Z.abs (qy - ay)) Hw) as Hy.
  assert (0 <= Z.quot w 2) by (apply Z.quot_pos; lia).
  unfold near_seg, seg_cover, manhattan_seg, on_seg, in_seg_box, cross, px, py in *; cbn [fst snd] in *.
  destruct Hn as [[Hc [Hbx Hby]]|[Hn|Hn]].
  - destruct (Z.eq_dec ax bx) as [E|E].
    + left. subst bx. replace (ax - ax) with 0 in Hc by ring.
      assert (qx = ax) by lia. subst qx. replace (ax - ax) with 0 by ring. cbn [Z.abs]. lia.
    + right. destruct Hm as [Hm|Hm]; [contradiction|]. subst by_.
      replace (ay - ay) with 0 in Hc by ring.
      assert (qy = ay) by nia. subst qy. replace (ay - ay) with 0 by ring. cbn [Z.abs]. lia.
  - left. lia.
  - right. lia.
Qed.

(** must-reject: Chebyshev distance above half the width from the segment *)
Lemma cover_not_far : forall w a b q, 0 <= w ->
  seg_cover (Z.quot w 2) a b q -> ~ far_seg w a b q.
Proof.
  intros w [ax ay] [bx by_] [qx qy] Hw Hc.
  pose proof (half_width w (Z.abs (qx - ax)) Hw) as Hx.
  pose proof (half_width w (Z.abs (qy - ay)) Hw) as Hy.
  unfold seg_cover, far_seg, cheb_seg, dist_iv, px, py in *; cbn [fst snd] in *. lia.
Qed.

Definition path_ok (ps : list pt) (w : Z) : Prop :=
  ps <> [] /\ Forall pt_ok ps /\ 0 <= w < 2 ^ 62 /\
  Forall (fun e => manhattan_seg (fst e) (snd e)) (chain ps).

Theorem path_contains_spec : forall ps w q, path_ok ps w ->
  exists r, path_contains ps w q = Ret r /\
    (r = true <-> path_cover (Z.quot w 2) ps q) /\
    ((exists a b, In (a, b) (chain ps) /\ near_seg w a b q) -> r = true) /\
    ((forall a b, In (a, b) (chain ps) -> far_seg w a b q) -> r = false).
Proof.
  intros ps w q [Hne [Hok [Hw Hm]]].
  assert (H62 : 2 ^ 62 = 4611686018427387904) by reflexivity.
  assert (Hhw : 0 <= Z.quot w 2 < 2 ^ 62).
  { rewrite Z.quot_div_nonneg by lia. split; [apply Z.div_pos; lia|].
    apply Z.div_lt_upper_bound; lia. }
  destruct (path_scan_total ps (Z.quot w 2) q Hok Hhw Hm) as [r Hr].
  exists r. unfold path_contains.
  replace (in_int w) with true.
  2:{ symmetry. unfold in_int, int_min, int_max. assert (2 ^ 63 = 9223372036854775808) by reflexivity.
      apply andb_true_iff; split; apply Z.leb_le; lia. }
  cbn [negb]. destruct ps as [|p ps]; [contradiction|].
  pose proof (path_scan_spec _ _ _ _ (proj1 Hhw) Hr) as Hs.
  split; [exact Hr|]. split; [exact Hs|]. split.
  - intros [a [b [Hin Hn]]]. apply Hs. exists a, b. split; [exact Hin|].
    apply near_seg_cover; [lia| |exact Hn].
    rewrite Forall_forall in Hm. exact (Hm (a, b) Hin).
  - intros Hfar. destruct r; [|reflexivity].
    destruct (proj1 Hs eq_refl) as [a [b [Hin Hc]]].
    exfalso. apply (cover_not_far w a b q); [lia|exact Hc|]. apply Hfar. exact Hin.
Qed.

(** what happens outside [path_ok] *)
Lemma path_contains_empty : forall w q, path_contains [] w q = Panic.
Proof. intros w q. unfold path_contains. destruct (negb (in_int w)); reflexivity. Qed.

Lemma path_contains_nonmanhattan_first : forall a b ps w q,
  in_int w = true -> px a <> px b -> py a <> py b -> path_contains (a :: b :: ps) w q = Panic.
Proof.
  intros a b ps w q Hw Hx Hy. unfold path_contains. rewrite Hw. cbn [negb path_scan].
  unfold X, Y, px, py in *.
  destruct (fst a =? fst b) eqn:E1; b2p; [contradiction|].
  destruct (snd a =? snd b) eqn:E2; b2p; [contradiction|]. reflexivity.
Qed.

(** ** insertion of a vertex lying on an edge (a repeated vertex is the special case m = a) *)

(** the two identities behind it: with m on the line a b,
    cross a m q and cross m b q are the fractions (m-a)/(b-a) and (b-m)/(b-a) of cross a b q *)
Lemma cross_split_1 : forall a b m q,
  cross a m q * (py b - py a) = cross a b q * (py m - py a) - cross a b m * (py q - py a).
Proof. intros. unfold cross. ring. Qed.
Lemma cross_split_2 : forall a b m q,
  cross m b q * (py b - py a) = cross a b q * (py b - py m) + cross a b m * (py q - py b).
Proof. intros. unfold cross. ring. Qed.
Lemma cross_split_1x : forall a b m q,
  cross a m q * (px b - px a) = cross a b q * (px m - px a) - cross a b m * (px q - px a).
Proof. intros. unfold cross. ring. Qed.
Lemma cross_split_2x : forall a b m q,
  cross m b q * (px b - px a) = cross a b q * (px b - px m) + cross a b m * (px q - px b).
Proof. intros. unfold cross. ring. Qed.

Definition ub (c : bool) : Z := if c then 1 else 0.

Lemma sign_transfer_pos : forall x y p r, x * p = y * r -> 0 < p -> 0 < r -> (0 <? x) = (0 <? y).
Proof.
  intros x y p r H Hp Hr.
  destruct (0 <? x) eqn:E, (0 <? y) eqn:E'; b2p; try reflexivity; nia.
Qed.
Lemma sign_transfer_neg : forall x y p r, x * p = y * r -> 0 < p -> 0 < r -> (x <? 0) = (y <? 0).
Proof.
  intros x y p r H Hp Hr.
  destruct (x <? 0) eqn:E, (y <? 0) eqn:E'; b2p; try reflexivity; nia.
Qed.

Lemma up_right_split : forall a b m q, on_seg a b m ->
  ub (up_right a b q) = ub (up_right a m q) + ub (up_right m b q).
Proof.
  intros a b m q [Hc [_ Hy]].
  pose proof (cross_split_1 a b m q) as I1. pose proof (cross_split_2 a b m q) as I2.
  rewrite Hc in I1, I2. unfold up_right.
  destruct ((py a <=? py q) && (py q <? py m)) eqn:R1.
  - (* ay <= qy < my <= by *)
    b2p. replace ((py m <=? py q) && (py q <? py b)) with false.
    2:{ symmetry. apply andb_false_iff. left. apply Z.leb_gt. lia. }
    replace ((py a <=? py q) && (py q <? py b)) with true.
    2:{ symmetry. apply andb_true_iff. split; [apply Z.leb_le|apply Z.ltb_lt]; lia. }
    cbn [andb]. rewrite (sign_transfer_pos (cross a m q) (cross a b q) (py b - py a) (py m - py a)) by lia.
    destruct (0 <? cross a b q); reflexivity.
  - cbn [andb ub]. destruct ((py m <=? py q) && (py q <? py b)) eqn:R2.
    + (* ay <= my <= qy < by *)
      b2p. replace ((py a <=? py q) && (py q <? py b)) with true.
      2:{ symmetry. apply andb_true_iff. split; [apply Z.leb_le|apply Z.ltb_lt]; lia. }
      cbn [andb]. rewrite (sign_transfer_pos (cross m b q) (cross a b q) (py b - py a) (py b - py m)) by lia.
      destruct (0 <? cross a b q); reflexivity.
    + cbn [andb ub]. replace ((py a <=? py q) && (py q <? py b)) with false; [reflexivity|].
      symmetry. apply andb_false_iff.
      apply andb_false_iff in R1. apply andb_false_iff in R2.
      destruct (py a <=? py q) eqn:E1; [|left; reflexivity]. right. apply Z.ltb_ge.
      destruct R1 as [R1|R1]; [discriminate|]. destruct R2 as [R2|R2]; b2p; lia.
Qed.

Lemma down_right_split : forall a b m q, on_seg a b m ->
  ub (down_right a b q) = ub (down_right a m q) + ub (down_right m b q).
Proof.
  intros a b m q Hm. rewrite <- !up_right_swap.
  rewrite (up_right_split b a m q) by (apply on_seg_swap; exact Hm). lia.
Qed.

Lemma wnd_ub : forall q a b, wnd q a b = ub (up_right a b q) - ub (down_right a b q).
Proof.
  intros q a b. unfold wnd, wind_edge. destruct (up_right a b q) eqn:U.
  - rewrite (up_down_excl _ _ _ U). reflexivity.
  - destruct (down_right a b q); reflexivity.
Qed.
Lemma cr01_ub : forall q a b, cr01 q a b = ub (up_right a b q) + ub (down_right a b q).
Proof.
  intros q a b. unfold cr01, crosses_right. destruct (up_right a b q) eqn:U.
  - rewrite (up_down_excl _ _ _ U). reflexivity.
  - destruct (down_right a b q); reflexivity.
Qed.

Lemma wnd_split : forall q a b m, on_seg a b m -> wnd q a b = wnd q a m + wnd q m b.
Proof.
  intros q a b m Hm. rewrite !wnd_ub, (up_right_split a b m q Hm), (down_right_split a b m q Hm). ring.
Qed.
Lemma cr01_split : forall q a b m, on_seg a b m -> cr01 q a b = cr01 q a m + cr01 q m b.
Proof.
  intros q a b m Hm. rewrite !cr01_ub, (up_right_split a b m q Hm), (down_right_split a b m q Hm). ring.
Qed.

Lemma between_scaled : forall D K u v s t, D <> 0 -> D * s = u * K -> D * t = v * K ->
  (0 <= u <= v \/ v <= u <= 0) -> Z.min 0 t <= s <= Z.max 0 t.
Proof.
  intros D K u v s t HD H1 H2 Hu.
  assert (E : D * s * (D * t - D * s) = u * K * (v * K - u * K)) by (rewrite H1, H2; reflexivity).
  assert (E' : (s * (t - s)) * (D * D) = (u * (v - u)) * (K * K)) by (rewrite <- (Z.mul_comm (D * D)); nia).
  assert (0 <= u * (v - u)) by nia.
  assert (0 <= K * K) by apply Z.square_nonneg.
  assert (0 < D * D) by nia.
  assert (0 <= s * (t - s)) by nia.
  nia.
Qed.

Lemma on_seg_split : forall a b m q, on_seg a b m ->
  (on_seg a b q <-> on_seg a m q \/ on_seg m b q).
Proof.
  intros [ax ay] [bx by_] [mx my] [qx qy] [Hc [Hx Hy]].
  pose proof (cross_split_1 (ax,ay) (bx,by_) (mx,my) (qx,qy)) as I1.
  pose proof (cross_split_2 (ax,ay) (bx,by_) (mx,my) (qx,qy)) as I2.
  pose proof (cross_split_1x (ax,ay) (bx,by_) (mx,my) (qx,qy)) as J1.
  pose proof (cross_split_2x (ax,ay) (bx,by_) (mx,my) (qx,qy)) as J2.
  (* the same with the roles of m and b exchanged: a, m, b collinear seen from m *)
  pose proof (cross_split_1 (ax,ay) (mx,my) (bx,by_) (qx,qy)) as K1.
  pose proof (cross_split_1x (ax,ay) (mx,my) (bx,by_) (qx,qy)) as K1x.
  pose proof (cross_split_1 (bx,by_) (mx,my) (ax,ay) (qx,qy)) as K2.
  pose proof (cross_split_1x (bx,by_) (mx,my) (ax,ay) (qx,qy)) as K2x.
  assert (Hamb : cross (ax,ay) (mx,my) (bx,by_) = 0).
  { revert Hc. unfold cross; cbn [px py fst snd]. intros Hc. lia. }
  assert (Hbma : cross (bx,by_) (mx,my) (ax,ay) = 0).
  { revert Hc. unfold cross; cbn [px py fst snd]. intros Hc. lia. }
  assert (Hswap : cross (bx,by_) (ax,ay) (qx,qy) = - cross (ax,ay) (bx,by_) (qx,qy)) by apply cross_swap.
  assert (Hswap2 : cross (bx,by_) (mx,my) (qx,qy) = - cross (mx,my) (bx,by_) (qx,qy)) by apply cross_swap.
  rewrite Hc in I1, I2, J1, J2. rewrite Hamb in K1, K1x. rewrite Hbma in K2, K2x.
  unfold on_seg, in_seg_box. cbn [px py fst snd] in *.
  set (cab := cross (ax,ay) (bx,by_) (qx,qy)) in *.
  set (cam := cross (ax,ay) (mx,my) (qx,qy)) in *.
  set (cmb := cross (mx,my) (bx,by_) (qx,qy)) in *.
  split.
  - intros [Hq [Hqx Hqy]].
    assert (Ham : cam = 0).
    { destruct (Z.eq_dec by_ ay) as [E|E]; [destruct (Z.eq_dec bx ax) as [E'|E']|].
      - subst. assert (qx = ax) by lia. assert (qy = ay) by lia. subst. unfold cam, cross; cbn [px py fst snd]. ring.
      - nia.
      - nia. }
    assert (Hmb : cmb = 0).
    { destruct (Z.eq_dec by_ ay) as [E|E]; [destruct (Z.eq_dec bx ax) as [E'|E']|].
      - subst. assert (qx = ax) by lia. assert (qy = ay) by lia. assert (mx = ax) by lia. assert (my = ay) by lia.
        subst. unfold cmb, cross; cbn [px py fst snd]. ring.
      - nia.
      - nia. }
    destruct (Z.eq_dec ax bx) as [E|E].
    + (* vertical or degenerate: order by y *)
      destruct (Z_le_gt_dec (Z.min ay my) qy) as [L1|L1]; destruct (Z_le_gt_dec qy (Z.max ay my)) as [L2|L2].
      * left. split; [exact Ham|]. lia.
      * right. split; [exact Hmb|]. lia.
      * right. split; [exact Hmb|]. lia.
      * lia.
    + destruct (Z_le_gt_dec (Z.min ax mx) qx) as [L1|L1]; destruct (Z_le_gt_dec qx (Z.max ax mx)) as [L2|L2].
      * left. split; [exact Ham|]. split; [lia|].
        (* y follows from collinearity *)
        assert (B : Z.min 0 (my - ay) <= qy - ay <= Z.max 0 (my - ay)).
        { apply (between_scaled (bx - ax) (by_ - ay) (qx - ax) (mx - ax)); [lia| | |lia].
          - revert Hq. unfold cab, cross; cbn [px py fst snd]. lia.
          - revert Hc. unfold cross; cbn [px py fst snd]. lia. }
        lia.
      * right. split; [exact Hmb|]. split; [lia|].
        assert (B : Z.min 0 (my - by_) <= qy - by_ <= Z.max 0 (my - by_)).
        { apply (between_scaled (ax - bx) (ay - by_) (qx - bx) (mx - bx)); [lia| | |lia].
          - revert Hq. unfold cab, cross; cbn [px py fst snd]. lia.
          - revert Hc. unfold cross; cbn [px py fst snd]. lia. }
        lia.
      * right. split; [exact Hmb|]. split; [lia|].
        assert (B : Z.min 0 (my - by_) <= qy - by_ <= Z.max 0 (my - by_)).
        { apply (between_scaled (ax - bx) (ay - by_) (qx - bx) (mx - bx)); [lia| | |lia].
          - revert Hq. unfold cab, cross; cbn [px py fst snd]. lia.
          - revert Hc. unfold cross; cbn [px py fst snd]. lia. }
        lia.
      * lia.
  - intros [[Hq [Hqx Hqy]]|[Hq [Hqx Hqy]]].
    + split; [|lia].
      destruct (Z.eq_dec my ay) as [E|E]; [destruct (Z.eq_dec mx ax) as [E'|E']|].
      * subst. assert (qx = ax) by lia. assert (qy = ay) by lia. subst. unfold cab, cross; cbn [px py fst snd]. ring.
      * nia.
      * nia.
    + split; [|lia].
      destruct (Z.eq_dec my by_) as [E|E]; [destruct (Z.eq_dec mx bx) as [E'|E']|].
      * subst. assert (qx = bx) by lia. assert (qy = by_) by lia. subst. unfold cab, cross; cbn [px py fst snd]. ring.
      * nia.
      * nia.
Qed.

Lemma edges_cons : forall a R, edges (a :: R) = (a, hd a R) :: chain (R ++ [a]).
Proof. intros a [|b R]; reflexivity. Qed.

Lemma edges_cons2 : forall a m R, edges (a :: m :: R) = (a, m) :: (m, hd a R) :: chain (R ++ [a]).
Proof. intros a m [|b R]; reflexivity. Qed.

Lemma on_boundary_insert_head : forall a m R q, on_seg a (hd a R) m ->
  (on_boundary (a :: m :: R) q <-> on_boundary (a :: R) q).
Proof.
  intros a m R q Hm. unfold on_boundary. rewrite (edges_cons2 a m R), (edges_cons a R).
  pose proof (on_seg_split a (hd a R) m q Hm) as Hs.
  split.
  - intros [e [[<-|[<-|Hin]] Ho]]; cbn [fst snd] in Ho.
    + exists (a, hd a R). split; [left; reflexivity|]. apply Hs. left. exact Ho.
    + exists (a, hd a R). split; [left; reflexivity|]. apply Hs. right. exact Ho.
    + exists e. split; [right; exact Hin|exact Ho].
  - intros [e [[<-|Hin] Ho]]; cbn [fst snd] in Ho.
    + apply Hs in Ho. destruct Ho as [Ho|Ho].
      * exists (a, m). split; [left; reflexivity|exact Ho].
      * exists (m, hd a R). split; [right; left; reflexivity|exact Ho].
    + exists e. split; [right; right; exact Hin|exact Ho].
Qed.

Lemma in_region_insert_head : forall a m R q, on_seg a (hd a R) m ->
  (in_region (a :: m :: R) q <-> in_region (a :: R) q).
Proof.
  intros a m R q Hm. unfold in_region. rewrite (on_boundary_insert_head a m R q Hm).
  rewrite !crossings_esum, (edges_cons2 a m R), (edges_cons a R), !esum_cons.
  rewrite (cr01_split q a (hd a R) m Hm), Z.add_assoc. reflexivity.
Qed.

Lemma in_region_nz_insert_head : forall a m R q, on_seg a (hd a R) m ->
  (in_region_nz (a :: m :: R) q <-> in_region_nz (a :: R) q).
Proof.
  intros a m R q Hm. unfold in_region_nz. rewrite (on_boundary_insert_head a m R q Hm).
  rewrite !winding_esum, (edges_cons2 a m R), (edges_cons a R), !esum_cons.
  rewrite (wnd_split q a (hd a R) m Hm), Z.add_assoc. reflexivity.
Qed.

(** insertion anywhere: m lies on the edge that leaves vertex a (towards the next vertex, cyclically) *)
Theorem in_region_insert_collinear : forall l1 a l2 m q, on_seg a (hd a (l2 ++ l1)) m ->
  (in_region (l1 ++ a :: m :: l2) q <-> in_region (l1 ++ a :: l2) q).
Proof.
  intros l1 a l2 m q Hm.
  rewrite (in_region_rotate (a :: m :: l2) l1 q), (in_region_rotate (a :: l2) l1 q).
  cbn [app]. apply in_region_insert_head. exact Hm.
Qed.

Theorem in_region_nz_insert_collinear : forall l1 a l2 m q, on_seg a (hd a (l2 ++ l1)) m ->
  (in_region_nz (l1 ++ a :: m :: l2) q <-> in_region_nz (l1 ++ a :: l2) q).
Proof.
  intros l1 a l2 m q Hm.
  rewrite (in_region_nz_rotate (a :: m :: l2) l1 q), (in_region_nz_rotate (a :: l2) l1 q).
  cbn [app]. apply in_region_nz_insert_head. exact Hm.
Qed.

Lemma on_seg_start : forall a b, on_seg a b a.
Proof. intros a b. unfold on_seg, in_seg_box, cross. split; [ring|lia]. Qed.

Theorem in_region_insert_repeat : forall l1 a l2 q,
  in_region (l1 ++ a :: a :: l2) q <-> in_region (l1 ++ a :: l2) q.
Proof. intros. apply in_region_insert_collinear. apply on_seg_start. Qed.

Theorem in_region_nz_insert_repeat : forall l1 a l2 q,
  in_region_nz (l1 ++ a :: a :: l2) q <-> in_region_nz (l1 ++ a :: l2) q.
Proof. intros. apply in_region_nz_insert_collinear. apply on_seg_start. Qed.

Ltac decide_cmp :=
  repeat match goal with
  | |- context [?x <=? ?y] =>
      first [ replace (x <=? y) with true by (symmetry; apply Z.leb_le; lia)
            | replace (x <=? y) with false by (symmetry; apply Z.leb_gt; lia) ]
  | |- context [?x <? ?y] =>
      first [ replace (x <? y) with true by (symmetry; apply Z.ltb_lt; lia)
            | replace (x <? y) with false by (symmetry; apply Z.ltb_ge; lia) ]
  | |- context [?x =? ?y] =>
      first [ replace (x =? y) with true by (symmetry; apply Z.eqb_eq; lia)
            | replace (x =? y) with false by (symmetry; apply Z.eqb_neq; lia) ]
  end.

(** a point of the line a b whose y lies in the closed y-range of a non-horizontal edge is on the edge *)
Lemma collinear_yrange_on_seg : forall a b q,
  cross a b q = 0 -> py a <> py b -> Z.min (py a) (py b) <= py q <= Z.max (py a) (py b) -> on_seg a b q.
Proof.
  intros [ax ay] [bx by_] [qx qy]. unfold on_seg, in_seg_box, cross; cbn [px py fst snd].
  intros Hc Hne Hy. split; [exact Hc|]. split; [|exact Hy].
  assert (B : Z.min 0 (bx - ax) <= qx - ax <= Z.max 0 (bx - ax)).
  { apply (between_scaled (by_ - ay) (bx - ax) (qy - ay) (by_ - ay)); lia. }
  lia.
Qed.

(** ** mirror image in the y axis: the ray points the other way *)
Definition up_left (a b q : pt) : bool := (py a <=? py q) && (py q <? py b) && (cross a b q <? 0).
Definition down_left (a b q : pt) : bool := (py b <=? py q) && (py q <? py a) && (0 <? cross a b q).
Definition wndL (q a b : pt) : Z := ub (up_left a b q) - ub (down_left a b q).
Definition cr01L (q a b : pt) : Z := ub (up_left a b q) + ub (down_left a b q).

Definition mirror_x (p : pt) : pt := (- px p, py p).

Lemma cross_mirror_x : forall a b q, cross (mirror_x a) (mirror_x b) (mirror_x q) = - cross a b q.
Proof. intros. unfold cross, mirror_x, px, py; cbn [fst snd]. ring. Qed.

Lemma on_seg_mirror_x : forall a b q, on_seg (mirror_x a) (mirror_x b) (mirror_x q) <-> on_seg a b q.
Proof.
  intros a b q. unfold on_seg, in_seg_box. rewrite cross_mirror_x.
  unfold mirror_x, px, py; cbn [fst snd]. lia.
Qed.

Lemma ltb_opp_l : forall z, (0 <? - z) = (z <? 0).
Proof. intros. destruct (z <? 0) eqn:E, (0 <? - z) eqn:E'; b2p; try reflexivity; lia. Qed.
Lemma ltb_opp_r : forall z, (- z <? 0) = (0 <? z).
Proof. intros. destruct (0 <? z) eqn:E, (- z <? 0) eqn:E'; b2p; try reflexivity; lia. Qed.

Lemma up_right_mirror_x : forall a b q, up_right (mirror_x a) (mirror_x b) (mirror_x q) = up_left a b q.
Proof. intros. unfold up_right, up_left. rewrite cross_mirror_x, ltb_opp_l. reflexivity. Qed.
Lemma down_right_mirror_x : forall a b q, down_right (mirror_x a) (mirror_x b) (mirror_x q) = down_left a b q.
Proof. intros. unfold down_right, down_left. rewrite cross_mirror_x, ltb_opp_r. reflexivity. Qed.

(** off the edge, an edge that crosses the level of q does so either left or right of q *)
Lemma right_plus_left : forall a b q, ~ on_seg a b q ->
  wnd q a b + wndL q a b = above q b - above q a /\
  cr01 q a b + cr01L q a b = Z.abs (above q b - above q a).
Proof.
  intros a b q Hn. rewrite wnd_ub, cr01_ub. unfold wndL, cr01L, up_right, down_right, up_left, down_left, above.
  assert (Hc : cross a b q = 0 -> py a <> py b -> Z.min (py a) (py b) <= py q <= Z.max (py a) (py b) -> False).
  { intros H1 H2 H3. apply Hn. apply collinear_yrange_on_seg; assumption. }
  set (c := cross a b q) in *.
  destruct (Z_lt_ge_dec (py q) (py a)) as [Ha|Ha]; destruct (Z_lt_ge_dec (py q) (py b)) as [Hb|Hb].
  - decide_cmp. cbn. split; reflexivity.
  - assert (c <> 0) by (intros E; apply Hc; [exact E|lia|lia]).
    destruct (Z_lt_ge_dec c 0); decide_cmp; cbn; split; reflexivity.
  - assert (c <> 0) by (intros E; apply Hc; [exact E|lia|lia]).
    destruct (Z_lt_ge_dec c 0); decide_cmp; cbn; split; reflexivity.
  - decide_cmp. cbn. split; reflexivity.
Qed.

Lemma not_on_boundary_edges : forall P q, ~ on_boundary P q ->
  forall e, In e (edges P) -> ~ on_seg (fst e) (snd e) q.
Proof. intros P q H e He Ho. apply H. exists e. split; assumption. Qed.

Lemma esum_add : forall f g es, esum (fun a b => f a b + g a b) es = esum f es + esum g es.
Proof.
  intros f g es. induction es as [|[a b] es IH]; [reflexivity|]. rewrite !esum_cons, IH. ring.
Qed.

Lemma on_boundary_dec : forall P q, on_boundary P q \/ ~ on_boundary P q.
Proof.
  intros P q. destruct (on_boundaryb P q) eqn:E.
  - left. apply on_boundaryb_spec. exact E.
  - right. intros H. apply on_boundaryb_spec in H. congruence.
Qed.

Lemma winding_left : forall P q, ~ on_boundary P q ->
  esum (wndL q) (edges P) = - winding P q /\
  Z.odd (esum (cr01L q) (edges P)) = Z.odd (crossings P q).
Proof.
  intros P q Hn. pose proof (not_on_boundary_edges P q Hn) as He.
  split.
  - assert (E : esum (fun a b => wnd q a b + wndL q a b) (edges P) = 0).
    { rewrite (esum_ext _ (fun a b => (fun p => - above q p) a - (fun p => - above q p) b)).
      - apply esum_closed.
      - intros e Hin. destruct (right_plus_left _ _ q (He e Hin)) as [H _]. rewrite H. ring. }
    rewrite esum_add in E. rewrite winding_esum. lia.
  - assert (E : Z.odd (esum (fun a b => cr01 q a b + cr01L q a b) (edges P)) = false).
    { rewrite (esum_ext _ (fun a b => Z.abs ((fun p => - above q p) a - (fun p => - above q p) b))).
      - rewrite esum_odd_abs, esum_closed. reflexivity.
      - intros e Hin. destruct (right_plus_left _ _ q (He e Hin)) as [_ H]. rewrite H. f_equal. ring. }
    rewrite esum_add, Z.odd_add in E. rewrite crossings_esum.
    destruct (Z.odd (esum (cr01 q) (edges P))), (Z.odd (esum (cr01L q) (edges P))); try reflexivity; discriminate.
Qed.

Lemma on_boundary_mirror_x : forall P q, on_boundary (map mirror_x P) (mirror_x q) <-> on_boundary P q.
Proof.
  intros P q. apply (on_boundary_edge_map _ _ q (mirror_x q) (fun e => (mirror_x (fst e), mirror_x (snd e)))).
  - rewrite edges_map. apply Permutation_refl.
  - intros a b. cbn [fst snd]. apply on_seg_mirror_x.
Qed.

Lemma sums_mirror_x : forall P q,
  winding (map mirror_x P) (mirror_x q) = esum (wndL q) (edges P) /\
  crossings (map mirror_x P) (mirror_x q) = esum (cr01L q) (edges P).
Proof.
  intros P q. rewrite winding_esum, crossings_esum, edges_map, !esum_map. split; apply esum_ext; intros [a b] _; cbn [fst snd].
  - rewrite wnd_ub, up_right_mirror_x, down_right_mirror_x. reflexivity.
  - rewrite cr01_ub, up_right_mirror_x, down_right_mirror_x. reflexivity.
Qed.

Theorem in_region_mirror_x : forall P q, in_region (map mirror_x P) (mirror_x q) <-> in_region P q.
Proof.
  intros P q. unfold in_region. rewrite on_boundary_mirror_x.
  destruct (on_boundary_dec P q) as [H|H]; [tauto|].
  destruct (sums_mirror_x P q) as [_ ->]. destruct (winding_left P q H) as [_ ->]. reflexivity.
Qed.

Theorem in_region_nz_mirror_x : forall P q, in_region_nz (map mirror_x P) (mirror_x q) <-> in_region_nz P q.
Proof.
  intros P q. unfold in_region_nz. rewrite on_boundary_mirror_x.
  destruct (on_boundary_dec P q) as [H|H]; [tauto|].
  destruct (sums_mirror_x P q) as [-> _]. destruct (winding_left P q H) as [-> _].
  split; intros [H'|H']; auto; right; lia.
Qed.

(** ** mirror image in the x axis: the half-open rule turns upside down (upper end included) *)
Definition upU (a b q : pt) : bool := (py a <? py q) && (py q <=? py b) && (0 <? cross a b q).
Definition downU (a b q : pt) : bool := (py b <? py q) && (py q <=? py a) && (cross a b q <? 0).
Definition wndU (q a b : pt) : Z := ub (upU a b q) - ub (downU a b q).
Definition rlev (q p : pt) : Z := ub ((py p =? py q) && (px q <? px p)).

Definition mirror_y (p : pt) : pt := (px p, - py p).

Lemma cross_mirror_y : forall a b q, cross (mirror_y a) (mirror_y b) (mirror_y q) = - cross a b q.
Proof. intros. unfold cross, mirror_y, px, py; cbn [fst snd]. ring. Qed.

Lemma on_seg_mirror_y : forall a b q, on_seg (mirror_y a) (mirror_y b) (mirror_y q) <-> on_seg a b q.
Proof.
  intros a b q. unfold on_seg, in_seg_box. rewrite cross_mirror_y.
  unfold mirror_y, px, py; cbn [fst snd]. lia.
Qed.

Lemma leb_opp : forall x y, (- x <=? - y) = (y <=? x).
Proof. intros. destruct (y <=? x) eqn:E, (- x <=? - y) eqn:E'; b2p; try reflexivity; lia. Qed.
Lemma ltb_opp : forall x y, (- x <? - y) = (y <? x).
Proof. intros. destruct (y <? x) eqn:E, (- x <? - y) eqn:E'; b2p; try reflexivity; lia. Qed.

Lemma up_right_mirror_y : forall a b q, up_right (mirror_y a) (mirror_y b) (mirror_y q) = downU a b q.
Proof.
  intros. unfold up_right, downU. rewrite cross_mirror_y, ltb_opp_l.
  unfold mirror_y, px, py; cbn [fst snd]. rewrite leb_opp, ltb_opp.
  rewrite (andb_comm (snd q <=? snd a)). reflexivity.
Qed.
Lemma down_right_mirror_y : forall a b q, down_right (mirror_y a) (mirror_y b) (mirror_y q) = upU a b q.
Proof.
  intros. unfold down_right, upU. rewrite cross_mirror_y, ltb_opp_r.
  unfold mirror_y, px, py; cbn [fst snd]. rewrite leb_opp, ltb_opp.
  rewrite (andb_comm (snd q <=? snd b)). reflexivity.
Qed.

Lemma upU_downU_excl : forall a b q, upU a b q = true -> downU a b q = false.
Proof.
  intros a b q H. unfold upU, downU in *. b2p.
  destruct (py b <? py q) eqn:E; [b2p; lia|reflexivity].
Qed.

Lemma U_minus_L : forall a b q, ~ on_seg a b q ->
  wndU q a b - wnd q a b = rlev q b - rlev q a.
Proof.
  intros [ax ay] [bx by_] [qx qy] Hn. rewrite wnd_ub.
  unfold wndU, rlev, upU, downU, up_right, down_right.
  unfold on_seg, in_seg_box in Hn.
  assert (F1 : ay = qy -> cross (ax,ay) (bx,by_) (qx,qy) = - ((qx - ax) * (by_ - ay))).
  { intros ->. unfold cross; cbn [px py fst snd]. ring. }
  assert (F2 : by_ = qy -> cross (ax,ay) (bx,by_) (qx,qy) = (qy - ay) * (bx - qx)).
  { intros ->. unfold cross; cbn [px py fst snd]. ring. }
  set (c := cross (ax,ay) (bx,by_) (qx,qy)) in *. cbn [px py fst snd] in *.
  destruct (Z.lt_trichotomy ay qy) as [Ha|[Ha|Ha]]; destruct (Z.lt_trichotomy by_ qy) as [Hb|[Hb|Hb]].
  - decide_cmp. cbn. reflexivity.
  - specialize (F2 Hb).
    assert (E : (0 <? c) = (qx <? bx)) by (destruct (0 <? c) eqn:E1, (qx <? bx) eqn:E2; b2p; try reflexivity; nia).
    rewrite E. decide_cmp. cbn. destruct (qx <? bx); reflexivity.
  - decide_cmp. cbn. destruct (0 <? c); reflexivity.
  - specialize (F1 Ha).
    assert (E : (c <? 0) = (qx <? ax)) by (destruct (c <? 0) eqn:E1, (qx <? ax) eqn:E2; b2p; try reflexivity; nia).
    rewrite E. decide_cmp. cbn. destruct (qx <? ax); reflexivity.
  - specialize (F1 Ha).
    assert (Hc0 : c = 0) by (rewrite F1; replace (by_ - ay) with 0 by lia; ring).
    assert (E : (qx <? bx) = (qx <? ax)).
    { destruct (qx <? bx) eqn:E1, (qx <? ax) eqn:E2; b2p; try reflexivity; exfalso; apply Hn; (split; [exact Hc0|lia]). }
    rewrite E. decide_cmp. cbn. destruct (qx <? ax); reflexivity.
  - specialize (F1 Ha).
    assert (E : (0 <? c) = (qx <? ax)) by (destruct (0 <? c) eqn:E1, (qx <? ax) eqn:E2; b2p; try reflexivity; nia).
    rewrite E. decide_cmp. cbn. destruct (qx <? ax); reflexivity.
  - decide_cmp. cbn. destruct (c <? 0); reflexivity.
  - specialize (F2 Hb).
    assert (E : (c <? 0) = (qx <? bx)) by (destruct (c <? 0) eqn:E1, (qx <? bx) eqn:E2; b2p; try reflexivity; nia).
    rewrite E. decide_cmp. cbn. destruct (qx <? bx); reflexivity.
  - decide_cmp. cbn. reflexivity.
Qed.

Lemma winding_upper : forall P q, ~ on_boundary P q -> esum (wndU q) (edges P) = winding P q.
Proof.
  intros P q Hn. pose proof (not_on_boundary_edges P q Hn) as He.
  assert (E : esum (fun a b => wndU q a b + - wnd q a b) (edges P) = 0).
  { rewrite (esum_ext _ (fun a b => (fun p => - rlev q p) a - (fun p => - rlev q p) b)).
    - apply esum_closed.
    - intros e Hin. pose proof (U_minus_L _ _ q (He e Hin)) as H. lia. }
  rewrite esum_add in E. rewrite winding_esum.
  assert (E2 : esum (fun a b => - wnd q a b) (edges P) = - esum (wnd q) (edges P)).
  { generalize (edges P). induction l as [|[a b] l IH]; [reflexivity|]. rewrite !esum_cons, IH. ring. }
  lia.
Qed.

Lemma on_boundary_mirror_y : forall P q, on_boundary (map mirror_y P) (mirror_y q) <-> on_boundary P q.
Proof.
  intros P q. apply (on_boundary_edge_map _ _ q (mirror_y q) (fun e => (mirror_y (fst e), mirror_y (snd e)))).
  - rewrite edges_map. apply Permutation_refl.
  - intros a b. cbn [fst snd]. apply on_seg_mirror_y.
Qed.

Lemma sums_mirror_y : forall P q,
  winding (map mirror_y P) (mirror_y q) = - esum (wndU q) (edges P) /\
  Z.odd (crossings (map mirror_y P) (mirror_y q)) = Z.odd (esum (wndU q) (edges P)).
Proof.
  intros P q. rewrite winding_esum, crossings_esum, edges_map, !esum_map. split.
  - generalize (edges P). induction l as [|[a b] l IH]; [reflexivity|].
    rewrite !esum_cons, IH. cbn [fst snd]. rewrite wnd_ub, up_right_mirror_y, down_right_mirror_y.
    unfold wndU. ring.
  - rewrite <- (esum_odd_abs (wndU q)). f_equal. apply esum_ext. intros [a b] _. cbn [fst snd].
    rewrite cr01_ub, up_right_mirror_y, down_right_mirror_y. unfold wndU.
    destruct (upU a b q) eqn:U.
    + rewrite (upU_downU_excl _ _ _ U). reflexivity.
    + destruct (downU a b q); reflexivity.
Qed.

Theorem in_region_mirror_y : forall P q, in_region (map mirror_y P) (mirror_y q) <-> in_region P q.
Proof.
  intros P q. unfold in_region. rewrite on_boundary_mirror_y.
  destruct (on_boundary_dec P q) as [H|H]; [tauto|].
  destruct (sums_mirror_y P q) as [_ ->]. rewrite (winding_upper P q H), crossings_winding_parity. reflexivity.
Qed.

Theorem in_region_nz_mirror_y : forall P q, in_region_nz (map mirror_y P) (mirror_y q) <-> in_region_nz P q.
Proof.
  intros P q. unfold in_region_nz. rewrite on_boundary_mirror_y.
  destruct (on_boundary_dec P q) as [H|H]; [tauto|].
  destruct (sums_mirror_y P q) as [-> _]. rewrite (winding_upper P q H).
  split; intros [H'|H']; auto; right; lia.
Qed.

(** ** axis-parallel edges *)
Lemma up_right_vertical : forall x ya yb q,
  up_right (x, ya) (x, yb) q = (ya <=? py q) && (py q <? yb) && (px q <? x).
Proof.
  intros x ya yb [qx qy]. unfold up_right, cross; cbn [px py fst snd].
  destruct ((ya <=? qy) && (qy <? yb)) eqn:R; [|reflexivity]. cbn [andb]. b2p.
  destruct (0 <? (x - x) * (qy - ya) - (qx - x) * (yb - ya)) eqn:E1, (qx <? x) eqn:E2; b2p; try reflexivity; nia.
Qed.

Lemma down_right_vertical : forall x ya yb q,
  down_right (x, ya) (x, yb) q = (yb <=? py q) && (py q <? ya) && (px q <? x).
Proof.
  intros x ya yb [qx qy]. unfold down_right, cross; cbn [px py fst snd].
  destruct ((yb <=? qy) && (qy <? ya)) eqn:R; [|reflexivity]. cbn [andb]. b2p.
  destruct ((x - x) * (qy - ya) - (qx - x) * (yb - ya) <? 0) eqn:E1, (qx <? x) eqn:E2; b2p; try reflexivity; nia.
Qed.

Lemma up_right_horizontal : forall xa xb y q, up_right (xa, y) (xb, y) q = false.
Proof.
  intros xa xb y q. unfold up_right; cbn [px py fst snd].
  destruct (y <=? py q) eqn:E1, (py q <? y) eqn:E2; b2p; try reflexivity; lia.
Qed.

Lemma down_right_horizontal : forall xa xb y q, down_right (xa, y) (xb, y) q = false.
Proof.
  intros xa xb y q. unfold down_right; cbn [px py fst snd].
  destruct (y <=? py q) eqn:E1, (py q <? y) eqn:E2; b2p; try reflexivity; lia.
Qed.

Lemma on_seg_vertical : forall x ya yb q,
  on_seg (x, ya) (x, yb) q <-> px q = x /\ Z.min ya yb <= py q <= Z.max ya yb.
Proof.
  intros x ya yb [qx qy]. unfold on_seg, in_seg_box, cross; cbn [px py fst snd]. split.
  - intros [_ [Hx Hy]]. split; lia.
  - intros [-> Hy]. split; [ring|lia].
Qed.

Lemma on_seg_horizontal : forall xa xb y q,
  on_seg (xa, y) (xb, y) q <-> py q = y /\ Z.min xa xb <= px q <= Z.max xa xb.
Proof.
  intros xa xb y [qx qy]. unfold on_seg, in_seg_box, cross; cbn [px py fst snd]. split.
  - intros [_ [Hx Hy]]. split; lia.
  - intros [-> Hx]. split; [ring|lia].
Qed.

(** ** a rectangle given as a 4-vertex polygon is the closed box *)
Lemma rect_poly_facts : forall p0 p1 q,
  (on_boundary (rect_to_poly p0 p1) q \/ winding (rect_to_poly p0 p1) q <> 0 <-> in_box p0 p1 q) /\
  -1 <= winding (rect_to_poly p0 p1) q <= 1.
Proof.
  intros [x0 y0] [x1 y1] [qx qy].
  assert (Hb : on_boundary (rect_to_poly (x0,y0) (x1,y1)) (qx,qy) <->
    (qy = y0 /\ Z.min x0 x1 <= qx <= Z.max x0 x1) \/ (qx = x1 /\ Z.min y0 y1 <= qy <= Z.max y0 y1) \/
    (qy = y1 /\ Z.min x1 x0 <= qx <= Z.max x1 x0) \/ (qx = x0 /\ Z.min y1 y0 <= qy <= Z.max y1 y0)).
  { unfold on_boundary, rect_to_poly, edges, X, Y; cbn [app chain fst snd].
    pose proof (on_seg_horizontal x0 x1 y0 (qx,qy)) as H1. pose proof (on_seg_vertical x1 y0 y1 (qx,qy)) as H2.
    pose proof (on_seg_horizontal x1 x0 y1 (qx,qy)) as H3. pose proof (on_seg_vertical x0 y1 y0 (qx,qy)) as H4.
    cbn [px py fst snd] in *. split.
    - intros [e [[<-|[<-|[<-|[<-|[]]]]] Ho]]; cbn [fst snd] in Ho; tauto.
    - intros [H|[H|[H|H]]].
      + exists ((x0,y0),(x1,y0)). split; [left; reflexivity|apply H1; exact H].
      + exists ((x1,y0),(x1,y1)). split; [right; left; reflexivity|apply H2; exact H].
      + exists ((x1,y1),(x0,y1)). split; [right; right; left; reflexivity|apply H3; exact H].
      + exists ((x0,y1),(x0,y0)). split; [right; right; right; left; reflexivity|apply H4; exact H]. }
  rewrite Hb. clear Hb.
  assert (Hw : winding (rect_to_poly (x0,y0) (x1,y1)) (qx,qy) =
    (ub ((y0 <=? qy) && (qy <? y1) && (qx <? x1)) - ub ((y1 <=? qy) && (qy <? y0) && (qx <? x1))) +
    (ub ((y1 <=? qy) && (qy <? y0) && (qx <? x0)) - ub ((y0 <=? qy) && (qy <? y1) && (qx <? x0)))).
  { rewrite winding_esum. unfold rect_to_poly, edges, X, Y; cbn [app chain fst snd].
    rewrite !esum_cons. cbn [esum fold_right]. rewrite !wnd_ub.
    rewrite !up_right_horizontal, !down_right_horizontal, !up_right_vertical, !down_right_vertical.
    cbn [px py fst snd ub]. ring. }
  rewrite Hw. clear Hw. unfold in_box; cbn [px py fst snd].
  destruct (y0 <=? qy) eqn:E1, (qy <? y1) eqn:E2, (y1 <=? qy) eqn:E3, (qy <? y0) eqn:E4,
           (qx <? x1) eqn:E5, (qx <? x0) eqn:E6; cbn [andb ub]; b2p; lia.
Qed.

Theorem rect_poly_in_region_nz : forall p0 p1 q, in_region_nz (rect_to_poly p0 p1) q <-> in_box p0 p1 q.
Proof. intros. unfold in_region_nz. apply rect_poly_facts. Qed.

Theorem rect_poly_in_region : forall p0 p1 q, in_region (rect_to_poly p0 p1) q <-> in_box p0 p1 q.
Proof.
  intros. rewrite in_region_nz_iff by apply rect_poly_facts. apply rect_poly_in_region_nz.
Qed.

(** all eight presentations: any starting corner, either orientation *)
Theorem rect_poly_all_variants : forall p0 p1 (l1 l2 : list pt) q,
  l1 ++ l2 = rect_to_poly p0 p1 \/ l1 ++ l2 = rev (rect_to_poly p0 p1) ->
  (in_region (l2 ++ l1) q <-> in_box p0 p1 q) /\ (in_region_nz (l2 ++ l1) q <-> in_box p0 p1 q).
Proof.
  intros p0 p1 l1 l2 q H. rewrite (in_region_rotate l1 l2 q), (in_region_nz_rotate l1 l2 q).
  destruct H as [H | H]; rewrite H.
  - split; [apply rect_poly_in_region|apply rect_poly_in_region_nz].
  - rewrite in_region_rev, in_region_nz_rev. split; [apply rect_poly_in_region|apply rect_poly_in_region_nz].
Qed.

(** Polygon::contains on Rect::to_poly agrees with Rect::contains *)
Theorem poly_rect_agree : forall p0 p1 q, pt_ok p0 -> pt_ok p1 -> pt_ok q ->
  poly_contains (rect_to_poly p0 p1) q = Ret (rect_contains p0 p1 q).
Proof.
  intros p0 p1 q H0 H1 Hq. rewrite poly_contains_eq_nzb; [|unfold rect_to_poly|exact Hq].
  - f_equal. destruct (in_region_nzb (rect_to_poly p0 p1) q) eqn:E1, (rect_contains p0 p1 q) eqn:E2; try reflexivity.
    + apply in_region_nzb_spec, rect_poly_in_region_nz, rect_contains_spec in E1. congruence.
    + apply rect_contains_spec, rect_poly_in_region_nz, in_region_nzb_spec in E2. congruence.
  - destruct H0, H1. repeat constructor; assumption.
Qed.

(** ** The code as found is refuted by two independent witnesses (both polygons are simple) *)
Definition wit_vertex : list pt := [(0,0);(5,0);(5,4);(0,4);(1,2)].
Definition wit_division : list pt := [(0,0);(1,3);(1,0)].

Lemma orig_refuted_vertex :
  simpleb wit_vertex = true /\ poly_contains_orig wit_vertex (0,2) = Ret true /\
  ~ in_region wit_vertex (0,2) /\ ~ in_region_nz wit_vertex (0,2) /\ poly_contains wit_vertex (0,2) = Ret false.
Proof.
  split; [vm_compute; reflexivity|]. split; [vm_compute; reflexivity|]. split; [|split].
  - intros H. apply in_regionb_spec in H. vm_compute in H. discriminate.
  - intros H. apply in_region_nzb_spec in H. vm_compute in H. discriminate.
  - vm_compute. reflexivity.
Qed.

Lemma orig_refuted_division :
  simpleb wit_division = true /\ poly_contains_orig wit_division (0,1) = Ret true /\
  ~ in_region wit_division (0,1) /\ ~ in_region_nz wit_division (0,1) /\ poly_contains wit_division (0,1) = Ret false.
Proof.
  split; [vm_compute; reflexivity|]. split; [vm_compute; reflexivity|]. split; [|split].
  - intros H. apply in_regionb_spec in H. vm_compute in H. discriminate.
  - intros H. apply in_region_nzb_spec in H. vm_compute in H. discriminate.
  - vm_compute. reflexivity.
Qed.

(** the code as found overflows isize for coordinates of the GDSII range (32 bits), the repaired code does not *)
Definition wit_i32 : list pt := [(-2147483648, -2147483648); (2147483647, -2147483648); (2147483647, 2147483647)].
Lemma orig_overflow_i32 :
  poly_contains_orig wit_i32 (0, -2147483647) = Ovf /\ poly_contains wit_i32 (0, -2147483647) = Ret true /\
  in_region wit_i32 (0, -2147483647).
Proof.
  split; [vm_compute; reflexivity|]. split; [vm_compute; reflexivity|].
  apply in_regionb_spec. vm_compute. reflexivity.
Qed.

(** ** a vertex list that runs twice round a square: winding number 2; the repaired code (non-zero
    winding) answers true, the even-odd rule says outside.  Hence the even-odd form of the polygon
    theorem cannot hold for ALL vertex lists; it needs the winding bound that simple polygons have. *)
Definition double_square : list pt := [(0,0);(2,0);(2,2);(0,2);(0,0);(2,0);(2,2);(0,2)].
Lemma double_square_facts :
  poly_contains double_square (1,1) = Ret true /\ winding double_square (1,1) = 2 /\
  ~ in_region double_square (1,1) /\ simpleb double_square = false.
Proof.
  split; [vm_compute; reflexivity|]. split; [vm_compute; reflexivity|]. split; [|vm_compute; reflexivity].
  intros H. apply in_regionb_spec in H. vm_compute in H. discriminate.
Qed.

(** every vertex of the list is on the boundary, hence in both regions *)
Lemma vertex_on_boundary : forall P v, In v P -> on_boundary P v.
Proof.
  intros P v Hin. apply in_split in Hin. destruct Hin as [l1 [l2 ->]].
  assert (H : on_boundary ((v :: l2) ++ l1) v).
  { cbn [app]. exists (v, hd v (l2 ++ l1)). split.
    - rewrite edges_cons. left. reflexivity.
    - cbn [fst snd]. apply on_seg_start. }
  destruct H as [e [He Ho]]. exists e. split; [|exact Ho].
  apply (Permutation_in _ (edges_rotate l1 (v :: l2))). exact He.
Qed.

Theorem boundary_inside : forall P q b, poly_contains P q = Ret b -> on_boundary P q -> b = true.
Proof. intros P q b H Hb. apply (poly_contains_nz P q b H). left. exact Hb. Qed.
