(** C13 -- lemmas about Geom/Contains.v (model) and Geom/ContainsSpec.v (specification). *)
From Coq Require Import ZArith Bool List Lia Permutation.
From L21 Require Import Geom.ContainsSpec Geom.Contains Geom.ContainsCheck.
Import ListNotations.
Local Open Scope Z_scope.

(** ** The code before the repair is refuted by two independent witnesses *)
Lemma orig_refuted_vertex :
  poly_contains_orig [(0,0);(5,0);(5,4);(0,4);(1,2)] (0,2) = Ret true /\
  in_regionb [(0,0);(5,0);(5,4);(0,4);(1,2)] (0,2) = false.
Proof. vm_compute. split; reflexivity. Qed.

Lemma orig_refuted_division :
  poly_contains_orig [(0,0);(1,3);(1,0)] (0,1) = Ret true /\
  in_regionb [(0,0);(1,3);(1,0)] (0,1) = false.
Proof. vm_compute. split; reflexivity. Qed.
