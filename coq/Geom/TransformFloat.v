(** Vocabulary of the float-level theorems of C12 ("no rounding drift at right angles").
    Definitions only; the float model itself ([chain_f], [apply_f], [from_placement_f], ...) is
    Geom/Transform.v part (B), the specification ([place_pt], [path_image]) is Geom/TransformSpec.v.
    No proofs. *)
From Coq Require Import ZArith Bool List.
From L21 Require Import Base.F64 Gen.LibmGen Geom.Transform Geom.TransformSpec.
Import ListNotations.
Local Open Scope Z_scope.

(** A placement the theorem speaks about: location within [L] in both coordinates, any reflect
    flag, and an angle that is absent or one of the angles of the libm table (0, +-90, +-180,
    +-270, 360 degrees; Gen/LibmGen.v, regenerated from the implementation on every run). *)
Definition placement_ok (L : Z) (p : fplacement) : Prop :=
  let '(lx, ly, r, oa) := p in
  Z.abs lx <= L /\ Z.abs ly <= L /\
  match oa with None => True | Some a => In a (map fst libm_sincos_table) end.

(** The depth bound. [D]: number of nested placements; [L]: bound on |loc.x|, |loc.y| of every
    placement; [X]: bound on |x|, |y| of the point. In units of 2^-53 the terms are: the error of
    the accumulated offset (quadratic in the depth), the rounding of the last addition, the error
    of the matrix entries times the point, the rounding of the two products and their sum. *)
Definition drift_budget (D L X : Z) : Prop :=
  0 <= D /\ 1 <= L /\ 1 <= X /\ 10 * D * D * L + D * L + 16 * X * D + 4 * X + 4 <= 2 ^ 52.

(** The same chain at the ring level K = Z (exact cosine and sine), all or nothing. *)
Fixpoint zchain_of (chain : list fplacement) : option (list (placement Z)) :=
  match chain with
  | [] => Some []
  | p :: r => match zplacement_of p, zchain_of r with
              | Some z, Some zr => Some (z :: zr)
              | _, _ => None
              end
  end.

(** ... and in the specification's terms: loc, reflect, quarter turns. *)
Definition spec_placement_of (p : fplacement) : option splacement :=
  let '(lx, ly, r, oa) := p in
  match oa with
  | None => Some (lx, ly, r, O)
  | Some a => match quarters_of a with Some q => Some (lx, ly, r, q) | None => None end
  end.
Fixpoint spec_path_of (chain : list fplacement) : option (list splacement) :=
  match chain with
  | [] => Some []
  | p :: r => match spec_placement_of p, spec_path_of r with
              | Some s, Some sr => Some (s :: sr)
              | _, _ => None
              end
  end.

(** The same hierarchy at the ring level K = Z, all or nothing. *)
Fixpoint zlayout_of (l : layout fplacement (Z * Z)) : option (layout (placement Z) (Z * Z)) :=
  match l with
  | Layout elems insts =>
    let fix go (is : list (fplacement * option (layout fplacement (Z * Z))))
        : option (list (placement Z * option (layout (placement Z) (Z * Z)))) :=
      match is with
      | [] => Some []
      | (p, oc) :: rest =>
        match zplacement_of p,
              match oc with
              | None => Some None
              | Some c => match zlayout_of c with Some c' => Some (Some c') | None => None end
              end,
              go rest with
        | Some z, Some oc', Some rest' => Some ((z, oc') :: rest')
        | _, _, _ => None
        end
      end in
    match go insts with Some i' => Some (Layout elems i') | None => None end
  end.

Definition shape_pts {Pt} (s : shape Pt) : list Pt :=
  match s with Rect p0 p1 => [p0; p1] | Polygon pts => pts | Path pts _ => pts end.
Definition pt_within (X : Z) (v : Z * Z) : Prop := Z.abs (fst v) <= X /\ Z.abs (snd v) <= X.
Definition elem_within (X : Z) (e : element (Z * Z)) : Prop := Forall (pt_within X) (shape_pts (snd e)).

(** Every placement within [L] and at a table angle, every point of every shape within [X],
    at most [n] levels of instances below this cell. *)
Fixpoint layout_ok (L X : Z) (l : layout fplacement (Z * Z)) (n : nat) {struct l} : Prop :=
  match l with
  | Layout elems insts =>
    Forall (elem_within X) elems /\
    (fix go (is : list (fplacement * option (layout fplacement (Z * Z)))) : Prop :=
       match is with
       | [] => True
       | (p, oc) :: rest =>
         placement_ok L p /\
         match oc with
         | None => True
         | Some c => match n with O => False | S k => layout_ok L X c k end
         end /\ go rest
       end) insts
  end.

(** The float-level image of a point under a chain of placements (outermost first): the
    transform [flatten_helper] holds after descending through the chain, applied by
    [Point::transform]. [None]: outside the float model (overflow, angle not in the table). *)
Definition chain_image_f (chain : list fplacement) (v : Z * Z) : option (Z * Z) :=
  match chain_f identity_f chain with
  | Some t => apply_f t v
  | None => None
  end.

(** Witness that the depth bound cannot be dropped: [n] nested placements at (0, 2^40), each
    rotated by 360 degrees (sin 360 = -2.4e-16 in libm: the matrix is not the identity). *)
Definition drift_chain (n : nat) : list fplacement := repeat (0, 2 ^ 40, false, Some 360) n.

(** The table entry on which the witness was found (glibc, x86-64):
    sin 360 = 0xBCB1A62633145C07, cos 360 = 1.0. [false] when the table differs (the witness
    then says nothing). *)
Definition table360_as_seen : bool :=
  match assocZ 360 libm_sincos_table with
  | Some (sb, cb) => (sb =? 13596831433004178439) && (cb =? 4607182418800017408)
  | None => false
  end.

Definition image_is (r : option (Z * Z)) (x y : Z) : bool :=
  match r with Some (a, b) => (a =? x) && (b =? y) | None => false end.

Definition drift_check : bool :=
  if table360_as_seen then
    image_is (chain_image_f (drift_chain 61) (0, 0)) 0 (61 * 2 ^ 40)
    && image_is (chain_image_f (drift_chain 62) (0, 0)) 1 (62 * 2 ^ 40)
  else true.

(** * Exact tables: when the repository computes the sine and cosine of right angles exactly *)
(** the dyadic [d] is exactly the integer [z] *)
Definition dy_is (d : dy) (z : Z) : bool :=
  let '(m, e) := d in if 0 <=? e then m * 2 ^ e =? z else m =? z * 2 ^ (- e).
Definition entry_exactb (en : Z * (Z * Z)) : bool :=
  let '(a, (sb, cb)) := en in
  match dy_of_bits sb, dy_of_bits cb, exact_cs a with
  | Some sn, Some cs, Some (C, Sn) => dy_is sn Sn && dy_is cs C
  | _, _, _ => false
  end.
(** every sine and cosine of the table is exactly the mathematical value (0, 1 or -1) *)
Definition table_exactb : bool := forallb entry_exactb libm_sincos_table.

(** every offset of the exact cascade along the chain, one per prefix, is below [B] in magnitude *)
Fixpoint offsets_below (B : Z) (t : Ztransform) (zc : list (placement Z)) : Prop :=
  match zc with
  | [] => True
  | z :: r => let t' := cascade_Z t (from_placement_Z z) in
              Z.abs (b0 t') < B /\ Z.abs (b1 t') < B /\ offsets_below B t' r
  end.
