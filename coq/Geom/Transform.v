(** Model of layout21raw/src/geom.rs ([Transform], [Point::transform], [TransformTrait]) and of
    layout21raw/src/data.rs ([Layout::flatten], [flatten_helper]).

    Two instantiations of the same transcription:

    (A) ring level -- matrix entries in any type [K] with ring operations, the pair (c, s)
        standing for (cos, sin) of the angle; no rounding. Used for the algebraic theorems
        (all angles) and, at K = Z with the exact right-angle values, for the specification.

    (B) float level -- binary64 values as exact dyadics (m, e) over Z, value m * 2^e, every
        float `*` and `+` of the Rust code followed by round-to-nearest-even to 53 bits
        (gradual underflow modelled; overflow to infinity is *outside* the model: [None]),
        `isize as f64` rounding, `f64::round` (half away from zero), `as isize` (saturating).
        The sign of a zero is not modelled (-0.0 = +0.0): it cannot reach an integer
        coordinate (`z + b` and `round(z) as isize` do not depend on it).
        libm's sin/cos are NOT modelled: [from_instance_f]/[rotate_f] take the two doubles as
        arguments; for the right angles they come from the generated table Gen/LibmGen.v
        (read off the repository's own `Transform::rotate` / `from_instance` on every run).

    [from_instance] is the function as it stands AFTER the proposed repair (reflected
    placements negate the second *column* of the rotation matrix); [from_instance_orig] is
    the function as found (only the entry a11 negated).

    No proofs in this file. *)
From Coq Require Import ZArith Bool List.
From L21 Require Import Base.F64 Gen.LibmGen.
Import ListNotations.
Local Open Scope Z_scope.

(** * Outcomes *)
Inductive outcome (A : Type) : Type :=
| Ok (a : A)
| Panic            (* `cell.layout.as_ref().unwrap()` on a cell without layout *)
| OutOfModel.      (* float overflow / angle outside the libm table: the float model does not say *)
Arguments Ok {A} a.
Arguments Panic {A}.
Arguments OutOfModel {A}.

(** * Shapes (geom.rs: Rect, Polygon, Path, Shape), over any point type *)
Inductive shape (Pt : Type) : Type :=
| Rect (p0 p1 : Pt)
| Polygon (pts : list Pt)
| Path (pts : list Pt) (width : Z).
Arguments Rect {Pt} p0 p1.
Arguments Polygon {Pt} pts.
Arguments Path {Pt} pts width.

(** An element: a tag standing for everything that [flatten] clones unchanged
    (net, layer, purpose), and the shape. *)
Definition element (Pt : Type) : Type := (Z * shape Pt)%type.

(** A layout with its instances, unfolded into a tree ([Ptr<Cell>] sharing is invisible to
    [flatten], which only reads). [P] is the placement data of an instance (loc, reflect_vert,
    angle); the instantiated cell may have no layout ([None]). Cyclic hierarchies are not
    representable: on those the Rust recursion does not terminate (see C17). *)
Inductive layout (P Pt : Type) : Type :=
| Layout (elems : list (element Pt)) (insts : list (P * option (layout P Pt))).
Arguments Layout {P Pt} elems insts.

(** `impl TransformTrait for Shape / Rect / Polygon / Path`, given the point map.
    The point map may fail (float level: overflow), hence [option]. *)
Section ShapeMap.
  Context {Pt : Type} (f : Pt -> option Pt).
  Fixpoint map_opt (l : list Pt) : option (list Pt) :=
    match l with
    | [] => Some []
    | p :: r => match f p, map_opt r with Some q, Some r' => Some (q :: r') | _, _ => None end
    end.
  Definition shape_transform (s : shape Pt) : option (shape Pt) :=
    match s with
    | Rect p0 p1 => match f p0, f p1 with Some q0, Some q1 => Some (Rect q0 q1) | _, _ => None end
    | Polygon pts => match map_opt pts with Some q => Some (Polygon q) | None => None end
    | Path pts w => match map_opt pts with Some q => Some (Path q w) | None => None end
    end.
  (** `new_elem = elem.clone(); new_elem.inner = elem.inner.transform(trans)` *)
  Definition elem_transform (e : element Pt) : option (element Pt) :=
    match shape_transform (snd e) with Some s => Some (fst e, s) | None => None end.
  Fixpoint elems_transform (l : list (element Pt)) : option (list (element Pt)) :=
    match l with
    | [] => Some []
    | e :: r => match elem_transform e, elems_transform r with
                | Some e', Some r' => Some (e' :: r') | _, _ => None end
    end.
End ShapeMap.

(** * flatten_helper / Layout::flatten, generic in the transform arithmetic.
    [casc parent child], [fromi placement], [app trans point] may each be outside the model. *)
Section Flatten.
  Context {T P Pt : Type}.
  Variable casc : T -> T -> option T.
  Variable fromi : P -> option T.
  Variable app : T -> Pt -> option Pt.

  Fixpoint flatten_helper (l : layout P Pt) (trans : T) {struct l} : outcome (list (element Pt)) :=
    match l with
    | Layout elems insts =>
      (* `for elem in layout.elems.iter() { ... elems.push(new_elem) }` *)
      match elems_transform (app trans) elems with
      | None => OutOfModel
      | Some own =>
        (* `for inst in &layout.insts { ... flatten_helper(&layout, &trans, elems)? }` *)
        let fix go (is : list (P * option (layout P Pt))) : outcome (list (element Pt)) :=
          match is with
          | [] => Ok []
          | (p, oc) :: rest =>
            match oc with
            | None => Panic                          (* `cell.layout.as_ref().unwrap()` *)
            | Some c =>
              match fromi p with
              | None => OutOfModel
              | Some it =>
                match casc trans it with             (* `Transform::cascade(&trans, &inst_trans)` *)
                | None => OutOfModel
                | Some t' =>
                  match flatten_helper c t' with
                  | Ok xs => match go rest with
                             | Ok ys => Ok (xs ++ ys)
                             | Panic => Panic
                             | OutOfModel => OutOfModel
                             end
                  | Panic => Panic
                  | OutOfModel => OutOfModel
                  end
                end
              end
            end
          end in
        match go insts with
        | Ok sub => Ok (own ++ sub)
        | Panic => Panic
        | OutOfModel => OutOfModel
        end
      end
    end.
End Flatten.

(** * (A) Ring level *)

(** `pub struct Transform { a: [[f64; 2]; 2], b: [f64; 2] }`, row-major *)
Record transform (K : Type) : Type := mkT { a00 : K; a01 : K; a10 : K; a11 : K; b0 : K; b1 : K }.
Arguments mkT {K}.
Arguments a00 {K}. Arguments a01 {K}. Arguments a10 {K}. Arguments a11 {K}.
Arguments b0 {K}. Arguments b1 {K}.

(** The operations of the entry type. *)
Record ring_ops (K : Type) : Type :=
  mkOps { k0 : K; k1 : K; kadd : K -> K -> K; kmul : K -> K -> K; ksub : K -> K -> K; kopp : K -> K }.
Arguments mkOps {K}.
Arguments k0 {K}. Arguments k1 {K}. Arguments kadd {K}. Arguments kmul {K}.
Arguments ksub {K}. Arguments kopp {K}.

Section RingModel.
  Context {K : Type} (R : ring_ops K).
  Local Notation "0" := (k0 R).
  Local Notation "1" := (k1 R).
  Local Notation "x [+] y" := (kadd R x y) (at level 50, left associativity).
  Local Notation "x [*] y" := (kmul R x y) (at level 40, left associativity).
  Local Notation "[-] x" := (kopp R x) (at level 35, right associativity).

  Definition identity : transform K := mkT 1 0 0 1 0 0.
  Definition translate (x y : K) : transform K := mkT 1 0 0 1 x y.
  (** `a: [[cos, -sin], [sin, cos]]` *)
  Definition rotate (c s : K) : transform K := mkT c ([-] s) s c 0 0.
  (** `a: [[1., 0.], [0., -1.]]` *)
  Definition reflect_vert : transform K := mkT 1 0 0 ([-] 1) 0 0.

  (** As found: `let cos_refl = if reflect_vert { -cos } else { cos };
                 let a = [[cos, -sin], [sin, cos_refl]];` *)
  Definition from_instance_orig (lx ly : K) (r : bool) (c s : K) : transform K :=
    let cos_refl := if r then [-] c else c in
    mkT c ([-] s) s cos_refl lx ly.

  (** After the repair: `let a = if reflect_vert { [[cos, sin], [sin, -cos]] }
                                  else { [[cos, -sin], [sin, cos]] };` *)
  Definition from_instance (lx ly : K) (r : bool) (c s : K) : transform K :=
    if r then mkT c s s ([-] c) lx ly else mkT c ([-] s) s c lx ly.

  (** `angle: Option<f64>`: `let (mut sin, mut cos) = (0., 1.); if let Some(angle) = ...` *)
  Definition cs_of (ocs : option (K * K)) : K * K :=
    match ocs with Some cs => cs | None => (1, 0) end.
  Definition from_instance_opt (lx ly : K) (r : bool) (ocs : option (K * K)) : transform K :=
    from_instance lx ly r (fst (cs_of ocs)) (snd (cs_of ocs)).

  (** `fn matmul(a, b)`: the 2x2 product, entries in the code's order of operations *)
  Definition matmul (p q : transform K) : K * K * K * K :=
    (a00 p [*] a00 q [+] a01 p [*] a10 q,
     a00 p [*] a01 q [+] a01 p [*] a11 q,
     a10 p [*] a00 q [+] a11 p [*] a10 q,
     a10 p [*] a01 q [+] a11 p [*] a11 q).
  (** `fn matvec(a, b)` *)
  Definition matvec (p : transform K) (v : K * K) : K * K :=
    (a00 p [*] fst v [+] a01 p [*] snd v, a10 p [*] fst v [+] a11 p [*] snd v).
  (** `cascade(parent, child)`: `b = matvec(parent.a, child.b); b[i] += parent.b[i];
      a = matmul(parent.a, child.a)` *)
  Definition cascade (parent child : transform K) : transform K :=
    let v := matvec parent (b0 child, b1 child) in
    let '(m00, m01, m10, m11) := matmul parent child in
    mkT m00 m01 m10 m11 (fst v [+] b0 parent) (snd v [+] b1 parent).

  (** `Point::transform` without the final rounding:
      `x = a[0][0]*xf + a[0][1]*yf + b[0]; y = a[1][0]*xf + a[1][1]*yf + b[1]` *)
  Definition apply (t : transform K) (v : K * K) : K * K :=
    (a00 t [*] fst v [+] a01 t [*] snd v [+] b0 t, a10 t [*] fst v [+] a11 t [*] snd v [+] b1 t).

  (** Placement data of an instance: loc, reflect_vert, (cos, sin) of the optional angle. *)
  Definition placement : Type := (K * K * bool * option (K * K))%type.
  Definition from_placement (p : placement) : transform K :=
    let '(lx, ly, r, ocs) := p in from_instance_opt lx ly r ocs.
  Definition from_placement_orig (p : placement) : transform K :=
    let '(lx, ly, r, ocs) := p in from_instance_orig lx ly r (fst (cs_of ocs)) (snd (cs_of ocs)).

  (** flatten at the ring level: nothing can fail except the missing layout. *)
  Definition flatten_helper_K (l : layout placement (K * K)) (t : transform K) :=
    flatten_helper (fun p q => Some (cascade p q)) (fun p => Some (from_placement p))
                   (fun t v => Some (apply t v)) l t.
  (** `flatten_helper(self, &Transform::identity(), &mut elems)` *)
  Definition flatten_K (l : layout placement (K * K)) := flatten_helper_K l identity.
End RingModel.
Arguments placement K : clear implicits.

(** ** The instance K = Z, with the exact sine and cosine of the right angles *)
Definition ZR : ring_ops Z := mkOps 0 1 Z.add Z.mul Z.sub Z.opp.
Definition Ztransform := transform Z.
Definition identity_Z := identity ZR.
Definition translate_Z := translate ZR.
Definition rotate_Z := rotate ZR.
Definition reflect_vert_Z := reflect_vert ZR.
Definition from_instance_Z := from_instance ZR.
Definition from_instance_orig_Z := from_instance_orig ZR.
Definition cascade_Z := cascade ZR.
Definition apply_Z := apply ZR.

(** (cos, sin) of a whole number of degrees that is a multiple of 90 *)
Definition exact_cs (a : Z) : option (Z * Z) :=
  if a mod 90 =? 0 then
    let q := (a / 90) mod 4 in
    Some (if q =? 0 then (1, 0) else if q =? 1 then (0, 1) else if q =? 2 then (-1, 0) else (0, -1))
  else None.

(** * (B) Float level *)

(** A finite double: value [m * 2^e]. Not normalised; zero is any (0, e). *)
Definition dy : Type := (Z * Z)%type.
Definition dzero : dy := (0, 0).
Definition done : dy := (1, 0).
Definition dy_of_Z (n : Z) : dy := (n, 0).

(** number of bits of |m| *)
Definition bitlen (m : Z) : Z := if m =? 0 then 0 else Z.log2 (Z.abs m) + 1.

(** 2^k, m / 2^k (floor) and m mod 2^k for k >= 0, written with shifts and masks so that the
    model evaluates quickly inside Coq (lemmas [pow2_eq], [divp2_eq], [modp2_eq] in
    TransformFloat_proofs.v state that they are the arithmetic operations) *)
Definition pow2 (k : Z) : Z := Z.shiftl 1 k.
Definition divp2 (m k : Z) : Z := Z.shiftr m k.
Definition modp2 (m k : Z) : Z := Z.land m (Z.ones k).

(** m / 2^sh rounded to the nearest integer, ties to even (sh > 0; floor division, so the
    definition is symmetric in the sign of m) *)
Definition rne_shift (m sh : Z) : Z :=
  let d := pow2 sh in
  let lo := divp2 m sh in
  let r := modp2 m sh in
  if 2 * r <? d then lo
  else if d <? 2 * r then lo + 1
  else if Z.even lo then lo else lo + 1.

(** Round an exact dyadic to binary64: at most 53 significant bits and exponent >= -1074
    (gradual underflow). The exponent is unbounded above; see [finite_ok]. *)
Definition round_flt (d : dy) : dy :=
  let '(m, e) := d in
  let sh := Z.max (bitlen m - 53) (-1074 - e) in
  if sh <=? 0 then (m, e) else (rne_shift m sh, e + sh).

(** |m * 2^e| < 2^1024, i.e. the rounded value is a finite double *)
Definition finite_ok (d : dy) : bool :=
  let '(m, e) := d in (m =? 0) || (Z.log2 (Z.abs m) + e <? 1024).
Definition chk (d : dy) : option dy := if finite_ok d then Some d else None.

Definition mul_exact (a b : dy) : dy := (fst a * fst b, snd a + snd b).
Definition add_exact (a b : dy) : dy :=
  let e := Z.min (snd a) (snd b) in
  (fst a * pow2 (snd a - e) + fst b * pow2 (snd b - e), e).

(** f64 `*`, `+`, unary `-`, `isize as f64` *)
Definition fmul (a b : dy) : option dy := chk (round_flt (mul_exact a b)).
Definition fadd (a b : dy) : option dy := chk (round_flt (add_exact a b)).
Definition fneg (a : dy) : dy := (- fst a, snd a).
Definition f_of_int (n : Z) : option dy := chk (round_flt (n, 0)).

(** `f64::round`: to the nearest integer, ties away from zero *)
Definition f_round (d : dy) : Z :=
  let '(m, e) := d in
  if 0 <=? e then m * pow2 e
  else
    let D := pow2 (- e) in
    if 0 <=? m then divp2 (2 * m + D) (1 - e) else - (divp2 (2 * (- m) + D) (1 - e)).
(** `as isize` on a finite double: saturating *)
Definition as_isize (n : Z) : Z := Z.max (- two63) (Z.min (two63 - 1) n).

(** bit pattern <-> dyadic ([f64_decomp], [f64_of_norm] from Base/F64.v) *)
Definition dy_of_bits (b : Z) : option dy :=
  match f64_decomp b with
  | Some (s, m, e) => Some (if s then - m else m, e)
  | None => None
  end.
(** [None] when the dyadic is not a double (more than 53 bits, too small, too large). +0 for zero. *)
Definition dy_to_bits (d : dy) : option Z :=
  let '(m, e) := d in
  if m =? 0 then Some 0
  else
    let s := m <? 0 in
    let a := Z.abs m in
    let sh := Z.log2 a + 1 - 53 in
    if (0 <? sh) && negb (modp2 a sh =? 0) then None
    else
      let m53 := if 0 <? sh then divp2 a sh else a * pow2 (- sh) in
      let e53 := e + sh in
      if 971 <? e53 then None
      else if -1074 <=? e53 then Some (f64_of_norm s m53 e53)
      else
        let t := -1074 - e53 in
        if modp2 m53 t =? 0 then Some ((if s then two63 else 0) + divp2 m53 t) else None.

Notation "x <- e ;; k" := (match e with Some x => k | None => None end)
  (at level 61, e at next level, right associativity, only parsing).

Definition ftransform := transform dy.

Definition identity_f : ftransform := mkT done dzero dzero done dzero dzero.
Definition translate_f (x y : dy) : ftransform := mkT done dzero dzero done x y.
(** [sn], [cs]: the doubles returned by `angle.to_radians().sin()` / `.cos()` *)
Definition rotate_f (sn cs : dy) : ftransform := mkT cs (fneg sn) sn cs dzero dzero.
Definition reflect_vert_f : ftransform := mkT done dzero dzero (fneg done) dzero dzero.

Definition sincos_of (osc : option (dy * dy)) : dy * dy :=
  match osc with Some sc => sc | None => (dzero, done) end.

(** `let b = [loc.x as f64, loc.y as f64]; ...` as found *)
Definition from_instance_orig_f (lx ly : Z) (r : bool) (osc : option (dy * dy)) : option ftransform :=
  bx <- f_of_int lx ;; by_ <- f_of_int ly ;;
  let '(sn, cs) := sincos_of osc in
  let cos_refl := if r then fneg cs else cs in
  Some (mkT cs (fneg sn) sn cos_refl bx by_).
(** ... after the repair *)
Definition from_instance_f (lx ly : Z) (r : bool) (osc : option (dy * dy)) : option ftransform :=
  bx <- f_of_int lx ;; by_ <- f_of_int ly ;;
  let '(sn, cs) := sincos_of osc in
  Some (if r then mkT cs sn sn (fneg cs) bx by_ else mkT cs (fneg sn) sn cs bx by_).

(** `a[0][0] * b[0][0] + a[0][1] * b[1][0]`: two roundings for the products, one for the sum *)
Definition dot2 (x0 y0 x1 y1 : dy) : option dy :=
  p <- fmul x0 y0 ;; q <- fmul x1 y1 ;; fadd p q.

Definition matmul_f (p q : ftransform) : option (dy * dy * dy * dy) :=
  m00 <- dot2 (a00 p) (a00 q) (a01 p) (a10 q) ;;
  m01 <- dot2 (a00 p) (a01 q) (a01 p) (a11 q) ;;
  m10 <- dot2 (a10 p) (a00 q) (a11 p) (a10 q) ;;
  m11 <- dot2 (a10 p) (a01 q) (a11 p) (a11 q) ;;
  Some (m00, m01, m10, m11).
Definition matvec_f (p : ftransform) (v : dy * dy) : option (dy * dy) :=
  v0 <- dot2 (a00 p) (fst v) (a01 p) (snd v) ;;
  v1 <- dot2 (a10 p) (fst v) (a11 p) (snd v) ;;
  Some (v0, v1).
Definition cascade_f (parent child : ftransform) : option ftransform :=
  v <- matvec_f parent (b0 child, b1 child) ;;
  c0 <- fadd (fst v) (b0 parent) ;;
  c1 <- fadd (snd v) (b1 parent) ;;
  m <- matmul_f parent child ;;
  let '(m00, m01, m10, m11) := m in
  Some (mkT m00 m01 m10 m11 c0 c1).

(** `trans.a[0][0] * xf + trans.a[0][1] * yf + trans.b[0]` (left to right), `.round() as Int` *)
Definition apply_f (t : ftransform) (v : Z * Z) : option (Z * Z) :=
  xf <- f_of_int (fst v) ;; yf <- f_of_int (snd v) ;;
  sx <- dot2 (a00 t) xf (a01 t) yf ;; x <- fadd sx (b0 t) ;;
  sy <- dot2 (a10 t) xf (a11 t) yf ;; y <- fadd sy (b1 t) ;;
  Some (as_isize (f_round x), as_isize (f_round y)).

(** ** libm table: angle in whole degrees -> (sin, cos) as doubles *)
Fixpoint assocZ {A} (k : Z) (l : list (Z * A)) : option A :=
  match l with
  | [] => None
  | (k', v) :: r => if k =? k' then Some v else assocZ k r
  end.
Definition libm_sincos (a : Z) : option (dy * dy) :=
  match assocZ a libm_sincos_table with
  | Some (sb, cb) =>
    match dy_of_bits sb, dy_of_bits cb with Some s, Some c => Some (s, c) | _, _ => None end
  | None => None
  end.

(** Placement of an instance at the float level: loc, reflect_vert, angle (whole degrees,
    must be in the table) *)
Definition fplacement : Type := (Z * Z * bool * option Z)%type.
Definition from_placement_gen (fi : Z -> Z -> bool -> option (dy * dy) -> option ftransform)
           (p : fplacement) : option ftransform :=
  let '(lx, ly, r, oa) := p in
  match oa with
  | None => fi lx ly r None
  | Some a => match libm_sincos a with Some sc => fi lx ly r (Some sc) | None => None end
  end.
Definition from_placement_f := from_placement_gen from_instance_f.
Definition from_placement_orig_f := from_placement_gen from_instance_orig_f.

(** The transform [flatten_helper] holds after descending through [chain] (outermost first):
    `trans = cascade(trans, from_instance(..))` starting from the identity. *)
Fixpoint chain_f (t : ftransform) (chain : list fplacement) : option ftransform :=
  match chain with
  | [] => Some t
  | p :: r => it <- from_placement_f p ;; t' <- cascade_f t it ;; chain_f t' r
  end.

Definition flatten_helper_f (l : layout fplacement (Z * Z)) (t : ftransform) :=
  flatten_helper cascade_f from_placement_f apply_f l t.
Definition flatten_f (l : layout fplacement (Z * Z)) := flatten_helper_f l identity_f.
Definition flatten_orig_f (l : layout fplacement (Z * Z)) :=
  flatten_helper cascade_f from_placement_orig_f apply_f l identity_f.

(** The same placement at the ring level K = Z (exact cos and sin). [None]: not a right angle. *)
Definition zplacement_of (p : fplacement) : option (placement Z) :=
  let '(lx, ly, r, oa) := p in
  match oa with
  | None => Some (lx, ly, r, None)
  | Some a => match exact_cs a with Some cs => Some (lx, ly, r, Some cs) | None => None end
  end.
Definition from_placement_Z (p : placement Z) : Ztransform := from_placement ZR p.
Fixpoint chain_Z (t : Ztransform) (chain : list (placement Z)) : Ztransform :=
  match chain with
  | [] => t
  | p :: r => chain_Z (cascade_Z t (from_placement_Z p)) r
  end.
