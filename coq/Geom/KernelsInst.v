(** Readings of the generated kernels (Gen/KernelsGen.v) at the levels of the hand-written models:

    - [ring_kops R]   any ring [R : ring_ops K] of Geom/Transform.v, nothing fails      (C12, ring level)
    - [float_kops]    binary64 as dyadics, [fmul]/[fadd]/... of Geom/Transform.v         (C12, float level)
    - [zc_kops]       Z with the range checks of Geom/Contains.v ([Ovf] / [Panic])       (C13)

    and the maps between the generated records (gTransform, gPoint, gRect, ...) and the
    representations the models use (the record [transform], pairs of Z).
    Operations that a level does not model are [None] / [CPanic] there: a kernel that starts using
    one of them no longer equals its model, which is what the tie theorems are for.
    No proofs in this file. *)
From Coq Require Import ZArith Bool List.
From L21 Require Import Base.KernelOps Gen.KernelsGen Geom.Transform Geom.Contains.
Import ListNotations.
Local Open Scope Z_scope.

(** * Effects *)
Definition oret (A : Type) (a : A) : option A := Some a.
Definition obnd (A B : Type) (x : option A) (f : A -> option B) : option B :=
  match x with Some a => f a | None => None end.
Definition onone (A : Type) : option A := None.

(** value / overflow / panic, as [Contains.res] but for any type *)
Inductive cres (A : Type) : Type :=
| CVal (a : A)
| COvf
| CPanic.
Arguments CVal {A} a.
Arguments COvf {A}.
Arguments CPanic {A}.
Definition cret (A : Type) (a : A) : cres A := CVal a.
Definition cbnd (A B : Type) (x : cres A) (f : A -> cres B) : cres B :=
  match x with CVal a => f a | COvf => COvf | CPanic => CPanic end.
Definition cpanic (A : Type) : cres A := CPanic.

(** * (A) ring level: F = I = K, every operation is total *)
Section RingInst.
  Context {K : Type} (R : ring_ops K).
  Definition rb2 (f : K -> K -> K) (x y : K) : option K := Some (f x y).
  Definition rnone2 (x y : K) : option K := None.
  Definition rnone3 (t : ity) (x y : K) : option K := None.
  Definition ring_kops : kops option K K :=
    {| k_ret := oret; k_bind := obnd; k_panic := onone;
       f_zero := k0 R; f_one := k1 R; f_lit := fun _ _ => k0 R;
       f_add := rb2 (kadd R); f_sub := rb2 (ksub R); f_mul := rb2 (kmul R); f_div := rnone2;
       f_neg := fun x => Some (kopp R x);
       f_eq := fun _ _ => false; f_lt := fun _ _ => false; f_le := fun _ _ => false;
       KernelOps.f_round := fun x => Some x;                       (* the ring level has no rounding *)
       f_rem_euclid := rnone2; f_to_radians := fun _ => None; f_sin := fun _ => None; f_cos := fun _ => None;
       f_powi := rnone2;
       i_lit := fun _ => k0 R; i_minval := fun _ => k0 R; i_maxval := fun _ => k0 R;
       i_add := rnone3; i_sub := rnone3; i_mul := rnone3; i_div := rnone3; i_rem := rnone3;
       i_neg := fun _ _ => None;
       i_and := rnone3; i_or := rnone3; i_shl := rnone3; i_shr := rnone3;
       i_min := fun x _ => x; i_max := fun x _ => x;
       i_eq := fun _ _ => false; i_lt := fun _ _ => false; i_le := fun _ _ => false;
       i_cast := fun _ _ _ => None; i_try_from := fun _ _ _ => None;
       i_to_f := fun _ x => Some x;                      (* `x as f64`: the embedding, no rounding *)
       f_to_i := fun _ x => Some x;
       v_len := fun _ _ => k0 R; v_get := fun A _ _ => None;
       k_for := fun Rt St _ _ _ _ => None |}.
End RingInst.

(** * (B) float level: F = dy (binary64 as exact dyadics), I = Z *)

(** comparison of dyadic values *)
Definition dy_cmp (a b : dy) : comparison :=
  let e := Z.min (snd a) (snd b) in
  Z.compare (fst a * pow2 (snd a - e)) (fst b * pow2 (snd b - e)).
Definition dy_eqb (a b : dy) : bool := match dy_cmp a b with Eq => true | _ => false end.
Definition dy_ltb (a b : dy) : bool := match dy_cmp a b with Lt => true | _ => false end.
Definition dy_leb (a b : dy) : bool := match dy_cmp a b with Gt => false | _ => true end.
(** the integer a dyadic is, when its exponent says so and it is below 2^53 (exactly a double) *)
Definition dy_int (d : dy) : option Z :=
  let '(m, e) := d in
  if (0 <=? e) && (Z.abs (m * pow2 e) <? 2 ^ 53) then Some (m * pow2 e) else None.
(** truncation toward zero (`as isize` before saturation) *)
Definition dy_trunc (d : dy) : Z :=
  let '(m, e) := d in
  if e =? 0 then m else if 0 <=? e then m * pow2 e else Z.quot m (pow2 (- e)).
(** `rem_euclid` on integer-valued doubles below 2^53 (exact there); otherwise outside the model *)
Definition dy_rem_euclid (a b : dy) : option dy :=
  match dy_int a, dy_int b with
  | Some x, Some y => if y =? 0 then None else Some (dy_of_Z (x mod Z.abs y))
  | _, _ => None
  end.
Definition fnone3 (t : ity) (x y : Z) : option Z := None.
Definition float_kops : kops option dy Z :=
  {| k_ret := oret; k_bind := obnd; k_panic := onone;
     f_zero := dzero; f_one := done;
     f_lit := fun m e => if 0 <=? e then dy_of_Z (m * 10 ^ e) else dzero;   (* only integer literals occur *)
     f_add := fadd; f_sub := fun a b => fadd a (fneg b); f_mul := fmul; f_div := fun _ _ => None;
     f_neg := fun x => Some (fneg x);
     f_eq := dy_eqb; f_lt := dy_ltb; f_le := dy_leb;
     KernelOps.f_round := fun x => Some (dy_of_Z (Transform.f_round x));
     f_rem_euclid := dy_rem_euclid;
     f_to_radians := fun _ => None; f_sin := fun _ => None; f_cos := fun _ => None;   (* libm: not modelled *)
     f_powi := fun _ _ => None;
     i_lit := fun z => z; i_minval := ity_min; i_maxval := ity_max;
     i_add := fnone3; i_sub := fnone3; i_mul := fnone3; i_div := fnone3; i_rem := fnone3;
     i_neg := fun _ _ => None;
     i_and := fnone3; i_or := fnone3; i_shl := fnone3; i_shr := fnone3;
     i_min := Z.min; i_max := Z.max; i_eq := Z.eqb; i_lt := Z.ltb; i_le := Z.leb;
     i_cast := fun _ _ _ => None; i_try_from := fun _ _ _ => None;
     i_to_f := fun _ n => f_of_int n;
     f_to_i := fun t d => match t with Isize => Some (as_isize (dy_trunc d)) | _ => None end;
     v_len := fun A l => Z.of_nat (length l); v_get := fun A _ _ => None;
     k_for := fun Rt St _ _ _ _ => None |}.

(** * (C) range-checked integers: I = Z, no floats.
    An operation whose result leaves the range of its type is [COvf] (a panic in builds with
    overflow checks, a wrapped value otherwise: the models do not follow it) -- except on
    [usize], where it is [CPanic]: these are index and length computations, and Contains.v
    counts `points.len() - 1` on an empty list as a panic in either kind of build. *)
Definition zc_chk (t : ity) (z : Z) : cres Z :=
  if ity_in t z then CVal z else match t with Usize => CPanic | _ => COvf end.
Definition ity_wrap (t : ity) (z : Z) : Z :=
  (z - ity_min t) mod (ity_max t - ity_min t + 1) + ity_min t.
Definition zc_get (A : Type) (l : list A) (i : Z) : cres A :=
  if i <? 0 then CPanic else match nth_error l (Z.to_nat i) with Some x => CVal x | None => CPanic end.
Definition zc_nof (x y : unit) : cres unit := CPanic.
Definition zc_kops : kops cres unit Z :=
  {| k_ret := cret; k_bind := cbnd; k_panic := cpanic;
     f_zero := tt; f_one := tt; f_lit := fun _ _ => tt;
     f_add := zc_nof; f_sub := zc_nof; f_mul := zc_nof; f_div := zc_nof; f_neg := fun _ => CPanic;
     f_eq := fun _ _ => false; f_lt := fun _ _ => false; f_le := fun _ _ => false;
     KernelOps.f_round := fun _ => CPanic; f_rem_euclid := zc_nof;
     f_to_radians := fun _ => CPanic; f_sin := fun _ => CPanic; f_cos := fun _ => CPanic;
     f_powi := fun _ _ => CPanic;
     i_lit := fun z => z; i_minval := ity_min; i_maxval := ity_max;
     i_add := fun t a b => zc_chk t (a + b);
     i_sub := fun t a b => zc_chk t (a - b);
     i_mul := fun t a b => zc_chk t (a * b);
     i_div := fun t a b => if b =? 0 then CPanic else zc_chk t (Z.quot a b);
     i_rem := fun t a b => if b =? 0 then CPanic else zc_chk t (Z.rem a b);
     i_neg := fun t a => zc_chk t (- a);
     i_and := fun t a b => zc_chk t (Z.land a b);
     i_or := fun t a b => zc_chk t (Z.lor a b);
     i_shl := fun t a b => CPanic; i_shr := fun t a b => CPanic;
     i_min := Z.min; i_max := Z.max; i_eq := Z.eqb; i_lt := Z.ltb; i_le := Z.leb;
     i_cast := fun _ t z => CVal (if ity_in t z then z else ity_wrap t z);     (* `as`: wraps, never fails *)
     i_try_from := fun _ t z => if ity_in t z then CVal z else CPanic;         (* try_from(..).unwrap() *)
     i_to_f := fun _ _ => CPanic; f_to_i := fun _ _ => CPanic;
     v_len := fun A l => Z.of_nat (length l); v_get := zc_get;
     k_for := fun Rt St => for_Z cret cbnd |}.

(** * Representations *)
(** the model's [transform K] as the generated record, and back *)
Definition T_of {F I : Type} (t : transform F) : gTransform F I :=
  mk_gTransform ((a00 t, a01 t), (a10 t, a11 t)) (b0 t, b1 t).
Definition T_to {F I : Type} (g : gTransform F I) : transform F :=
  mkT (fst (fst (gTransform_a g))) (snd (fst (gTransform_a g)))
      (fst (snd (gTransform_a g))) (snd (snd (gTransform_a g)))
      (fst (gTransform_b g)) (snd (gTransform_b g)).
(** the 2x2 part alone: `&parent.a` *)
Definition A_of {F : Type} (t : transform F) : (F * F) * (F * F) := ((a00 t, a01 t), (a10 t, a11 t)).
(** the model's quadruple (m00, m01, m10, m11) as `[[f64; 2]; 2]` *)
Definition M4_of {F : Type} (m : F * F * F * F) : (F * F) * (F * F) :=
  let '(m00, m01, m10, m11) := m in ((m00, m01), (m10, m11)).
(** a point (pair) as the generated record *)
Definition P_of {F I : Type} (v : I * I) : gPoint F I := mk_gPoint (fst v) (snd v).
Definition P_to {F I : Type} (p : gPoint F I) : I * I := (gPoint_x p, gPoint_y p).
Definition R_of {F I : Type} (p0 p1 : I * I) : gRect F I := mk_gRect (P_of p0) (P_of p1).
Definition B_of {F I : Type} (bb : (I * I) * (I * I)) : gBoundBox F I := mk_gBoundBox (P_of (fst bb)) (P_of (snd bb)).
Definition B_to {F I : Type} (b : gBoundBox F I) : (I * I) * (I * I) := (P_to (gBoundBox_p0 b), P_to (gBoundBox_p1 b)).

(** a point whose coordinates are values of the type `Int = isize` (the type invariant of a Rust [Point]) *)
Definition pt_ok (p : point) : Prop := in_int (X p) = true /\ in_int (Y p) = true.

(** [Contains.res] of a checked boolean *)
Definition res_of (r : cres bool) : res :=
  match r with CVal b => Ret b | COvf => Ovf | CPanic => Contains.Panic end.
