(** Lemmas for C12. Model: Geom/Transform.v; specification: Geom/TransformSpec.v. *)
From Coq Require Import ZArith Bool List Lia Ring Ring_theory.
From L21 Require Import Base.F64 Gen.LibmGen Geom.Transform Geom.TransformSpec.
Import ListNotations.
Local Open Scope Z_scope.

(** * Part 1 -- ring level: any commutative ring, any (c, s) *)
Section RingProofs.
  Context {K : Type} (R : ring_ops K).
  Hypothesis Rth : ring_theory (k0 R) (k1 R) (kadd R) (kmul R) (ksub R) (kopp R) (@eq K).
  Add Ring Kring : Rth.

  Local Notation "0" := (k0 R).
  Local Notation "1" := (k1 R).
  Local Notation "x [+] y" := (kadd R x y) (at level 50, left associativity).
  Local Notation "x [*] y" := (kmul R x y) (at level 40, left associativity).
  Local Notation "[-] x" := (kopp R x) (at level 35, right associativity).

  Lemma transform_eq : forall x0 x1 x2 x3 x4 x5 y0 y1 y2 y3 y4 y5 : K,
      x0 = y0 -> x1 = y1 -> x2 = y2 -> x3 = y3 -> x4 = y4 -> x5 = y5 ->
      mkT x0 x1 x2 x3 x4 x5 = mkT y0 y1 y2 y3 y4 y5.
  Proof. intros; subst; reflexivity. Qed.

  (** [cascade parent child] applies the child first. *)
  Lemma cascade_apply : forall (p q : transform K) (v : K * K),
      apply R (cascade R p q) v = apply R p (apply R q v).
  Proof.
    intros [p00 p01 p10 p11 pb0 pb1] [q00 q01 q10 q11 qb0 qb1] [x y].
    unfold apply, cascade, matmul, matvec; cbn. f_equal; ring.
  Qed.

  Lemma cascade_assoc : forall p q r : transform K,
      cascade R (cascade R p q) r = cascade R p (cascade R q r).
  Proof.
    intros [p00 p01 p10 p11 pb0 pb1] [q00 q01 q10 q11 qb0 qb1] [r00 r01 r10 r11 rb0 rb1].
    unfold cascade, matmul, matvec; cbn. apply transform_eq; ring.
  Qed.

  Lemma cascade_identity_l : forall p : transform K, cascade R (identity R) p = p.
  Proof.
    intros [p00 p01 p10 p11 pb0 pb1]. unfold cascade, matmul, matvec, identity; cbn.
    apply transform_eq; ring.
  Qed.
  Lemma cascade_identity_r : forall p : transform K, cascade R p (identity R) = p.
  Proof.
    intros [p00 p01 p10 p11 pb0 pb1]. unfold cascade, matmul, matvec, identity; cbn.
    apply transform_eq; ring.
  Qed.
  Lemma apply_identity : forall v : K * K, apply R (identity R) v = v.
  Proof. intros [x y]. unfold apply, identity; cbn. f_equal; ring. Qed.

  (** The elementary transforms are the operations they name. *)
  Lemma apply_translate : forall lx ly x y, apply R (translate R lx ly) (x, y) = (x [+] lx, y [+] ly).
  Proof. intros. unfold apply, translate; cbn. f_equal; ring. Qed.
  Lemma apply_rotate : forall c s x y,
      apply R (rotate R c s) (x, y) = (c [*] x [+] [-] (s [*] y), s [*] x [+] c [*] y).
  Proof. intros. unfold apply, rotate; cbn. f_equal; ring. Qed.
  Lemma apply_reflect_vert : forall x y, apply R (reflect_vert R) (x, y) = (x, [-] y).
  Proof. intros. unfold apply, reflect_vert; cbn. f_equal; ring. Qed.

  (** The repaired [from_instance] is translate . rotate . reflect (reflect acts first). *)
  Lemma from_instance_is_composition : forall (lx ly : K) (r : bool) (c s : K),
      from_instance R lx ly r c s =
      cascade R (translate R lx ly)
              (cascade R (rotate R c s) (if r then reflect_vert R else identity R)).
  Proof.
    intros lx ly [|] c s;
      unfold from_instance, cascade, matmul, matvec, translate, rotate, reflect_vert, identity; cbn;
      apply transform_eq; ring.
  Qed.

  Lemma from_instance_opt_none : forall lx ly r,
      from_instance_opt R lx ly r None =
      cascade R (translate R lx ly) (if r then reflect_vert R else identity R).
  Proof.
    intros lx ly [|];
      unfold from_instance_opt, from_instance, cs_of, cascade, matmul, matvec, translate, reflect_vert, identity; cbn;
      apply transform_eq; ring.
  Qed.

  (** Hence the point map: reflect, then rotate, then translate. *)
  Lemma from_instance_point_map : forall lx ly r c s v,
      apply R (from_instance R lx ly r c s) v =
      apply R (translate R lx ly)
            (apply R (rotate R c s) (apply R (if r then reflect_vert R else identity R) v)).
  Proof. intros. rewrite from_instance_is_composition, !cascade_apply. reflexivity. Qed.

  (** The function as found agrees with the composition exactly when nothing is reflected or
      2 s = 0 ... one direction, over any ring: *)
  Lemma from_instance_orig_unreflected : forall lx ly c s,
      from_instance_orig R lx ly false c s = from_instance R lx ly false c s.
  Proof. reflexivity. Qed.

  (** Determinant of the matrix part. *)
  Definition det (t : transform K) : K := a00 t [*] a11 t [+] [-] (a01 t [*] a10 t).

  Lemma det_from_instance : forall lx ly r c s,
      det (from_instance R lx ly r c s) =
      if r then [-] (c [*] c [+] s [*] s) else c [*] c [+] s [*] s.
  Proof. intros lx ly [|] c s; unfold det, from_instance; cbn; ring. Qed.

  Lemma det_cascade : forall p q, det (cascade R p q) = det p [*] det q.
  Proof.
    intros [p00 p01 p10 p11 pb0 pb1] [q00 q01 q10 q11 qb0 qb1].
    unfold det, cascade, matmul, matvec; cbn. ring.
  Qed.

  (** Reflected placements at any angle (c^2 + s^2 = 1) have determinant -1, others +1. *)
  Lemma reflect_mirrors : forall lx ly r c s,
      c [*] c [+] s [*] s = 1 ->
      det (from_instance R lx ly r c s) = if r then [-] 1 else 1.
  Proof. intros lx ly r c s H. rewrite det_from_instance, H. reflexivity. Qed.

  (** The determinant is the factor by which signed areas are multiplied: a transform with
      determinant -1 turns every triangle over (mirror image). *)
  Definition karea2 (p q r : K * K) : K :=
    ksub R ((ksub R (fst q) (fst p)) [*] (ksub R (snd r) (snd p)))
           ((ksub R (fst r) (fst p)) [*] (ksub R (snd q) (snd p))).
  Lemma area_scaled_by_det : forall t p q r,
      karea2 (apply R t p) (apply R t q) (apply R t r) = det t [*] karea2 p q r.
  Proof.
    intros [t00 t01 t10 t11 tb0 tb1] [px py] [qx qy] [rx ry].
    unfold karea2, det, apply; cbn. ring.
  Qed.

  (** ** chains *)
  Lemma fold_cascade_apply : forall (ts : list (transform K)) (t : transform K) (v : K * K),
      apply R (fold_left (cascade R) ts t) v =
      apply R t (fold_right (fun x w => apply R x w) v ts).
  Proof.
    induction ts as [|x ts IH]; intros t v; cbn [fold_left fold_right].
    - reflexivity.
    - rewrite IH, cascade_apply. reflexivity.
  Qed.

  (** ** flatten *)
  Definition shape_map (f : K * K -> K * K) (s : shape (K * K)) : shape (K * K) :=
    match s with
    | Rect p0 p1 => Rect (f p0) (f p1)
    | Polygon pts => Polygon (map f pts)
    | Path pts w => Path (map f pts) w
    end.
  Definition elem_map (f : K * K -> K * K) (e : element (K * K)) : element (K * K) :=
    (fst e, shape_map f (snd e)).

  Lemma map_opt_total : forall (f : K * K -> K * K) l, map_opt (fun v => Some (f v)) l = Some (map f l).
  Proof. induction l as [|p l IH]; cbn; [reflexivity|]. rewrite IH. reflexivity. Qed.
  Lemma elems_transform_total : forall (f : K * K -> K * K) es,
      elems_transform (fun v => Some (f v)) es = Some (map (elem_map f) es).
  Proof.
    induction es as [|[tag s] es IH]; cbn; [reflexivity|]. rewrite IH.
    unfold elem_transform, elem_map; cbn.
    destruct s; cbn; rewrite ?map_opt_total; reflexivity.
  Qed.
End RingProofs.

(** ** The hierarchy: induction principle, paths *)
Section LayoutInd.
  Context {P Pt : Type}.
  Variable Q : layout P Pt -> Prop.
  Definition sub_ok (pc : P * option (layout P Pt)) : Prop :=
    match snd pc with Some c => Q c | None => True end.
  Hypothesis step : forall es insts, Forall sub_ok insts -> Q (Layout es insts).
  Fixpoint layout_induction (l : layout P Pt) : Q l :=
    match l with
    | Layout es insts =>
      step es insts
           ((fix go (is : list (P * option (layout P Pt))) : Forall sub_ok is :=
               match is with
               | [] => Forall_nil _
               | pc :: rest =>
                 Forall_cons pc
                   (match pc as pc0 return sub_ok pc0 with
                    | (p, oc) =>
                      match oc as o return sub_ok (p, o) with
                      | Some c => layout_induction c
                      | None => I
                      end
                    end)
                   (go rest)
               end) insts)
    end.
End LayoutInd.

Section Paths.
  Context {P Pt : Type}.
  (** Every element of the hierarchy with the placements on its path (outermost first), in the
      order in which [flatten] emits them. [None]: some instantiated cell has no layout. *)
  Fixpoint paths (l : layout P Pt) : option (list (list P * element Pt)) :=
    match l with
    | Layout es insts =>
      let fix go (is : list (P * option (layout P Pt))) : option (list (list P * element Pt)) :=
        match is with
        | [] => Some []
        | (p, oc) :: rest =>
          match oc with
          | None => None
          | Some c =>
            match paths c, go rest with
            | Some xs, Some ys => Some (map (fun pe => (p :: fst pe, snd pe)) xs ++ ys)
            | _, _ => None
            end
          end
        end in
      match go insts with
      | Some sub => Some (map (fun e => ([], e)) es ++ sub)
      | None => None
      end
    end.
  Fixpoint paths_insts (is : list (P * option (layout P Pt))) : option (list (list P * element Pt)) :=
    match is with
    | [] => Some []
    | (p, oc) :: rest =>
      match oc with
      | None => None
      | Some c =>
        match paths c, paths_insts rest with
        | Some xs, Some ys => Some (map (fun pe => (p :: fst pe, snd pe)) xs ++ ys)
        | _, _ => None
        end
      end
    end.
  Lemma paths_eq : forall es insts,
      paths (Layout es insts) =
      match paths_insts insts with
      | Some sub => Some (map (fun e => ([], e)) es ++ sub)
      | None => None
      end.
  Proof. reflexivity. Qed.

  (** depth of the hierarchy: 0 for a cell without instances *)
  Fixpoint depth (l : layout P Pt) : nat :=
    match l with
    | Layout _ insts =>
      (fix go (is : list (P * option (layout P Pt))) : nat :=
         match is with
         | [] => O
         | (_, oc) :: rest => Nat.max (match oc with Some c => S (depth c) | None => 1%nat end) (go rest)
         end) insts
    end.
End Paths.

(** The inner loop of [flatten_helper] as a function of its own. *)
Section FlattenEq.
  Context {T P Pt : Type}.
  Variable casc : T -> T -> option T.
  Variable fromi : P -> option T.
  Variable app : T -> Pt -> option Pt.
  Definition flatten_insts (trans : T) : list (P * option (layout P Pt)) -> outcome (list (element Pt)) :=
    fix go (is : list (P * option (layout P Pt))) : outcome (list (element Pt)) :=
    match is with
    | [] => Ok []
    | (p, oc) :: rest =>
      match oc with
      | None => Panic
      | Some c =>
        match fromi p with
        | None => OutOfModel
        | Some it =>
          match casc trans it with
          | None => OutOfModel
          | Some t' =>
            match flatten_helper casc fromi app c t' with
            | Ok xs => match go rest with
                       | Ok ys => Ok (xs ++ ys)
                       | Panic => Panic
                       | OutOfModel => OutOfModel
                       end
            | Panic => Panic
            | OutOfModel => OutOfModel
            end
          end
        end
      end
    end.
  Lemma flatten_insts_nil : forall trans, flatten_insts trans [] = Ok [].
  Proof. reflexivity. Qed.
  Lemma flatten_insts_cons : forall trans p oc rest,
      flatten_insts trans ((p, oc) :: rest) =
      match oc with
      | None => Panic
      | Some c =>
        match fromi p with
        | None => OutOfModel
        | Some it =>
          match casc trans it with
          | None => OutOfModel
          | Some t' =>
            match flatten_helper casc fromi app c t' with
            | Ok xs => match flatten_insts trans rest with
                       | Ok ys => Ok (xs ++ ys)
                       | Panic => Panic
                       | OutOfModel => OutOfModel
                       end
            | Panic => Panic
            | OutOfModel => OutOfModel
            end
          end
        end
      end.
  Proof. reflexivity. Qed.
  Lemma flatten_helper_eq : forall es insts trans,
      flatten_helper casc fromi app (Layout es insts) trans =
      match elems_transform (app trans) es with
      | None => OutOfModel
      | Some own =>
        match flatten_insts trans insts with
        | Ok sub => Ok (own ++ sub)
        | Panic => Panic
        | OutOfModel => OutOfModel
        end
      end.
  Proof. reflexivity. Qed.
End FlattenEq.

Section RingFlatten.
  Context {K : Type} (R : ring_ops K).
  Hypothesis Rth : ring_theory (k0 R) (k1 R) (kadd R) (kmul R) (ksub R) (kopp R) (@eq K).

  (** the transform [flatten_helper] holds after descending along [path] from [t] *)
  Definition along (t : transform K) (path : list (placement K)) : transform K :=
    fold_left (cascade R) (map (from_placement R) path) t.

  Definition image_under (t : transform K) (pe : list (placement K) * element (K * K)) : element (K * K) :=
    elem_map (apply R (along t (fst pe))) (snd pe).

  Lemma flatten_helper_paths : forall (l : layout (placement K) (K * K)) (t : transform K),
      flatten_helper_K R l t =
      match paths l with
      | Some ps => Ok (map (image_under t) ps)
      | None => Panic
      end.
  Proof.
    induction l as [es insts IH] using layout_induction; intro t.
    unfold flatten_helper_K. rewrite flatten_helper_eq, paths_eq, elems_transform_total.
    assert (Hins : flatten_insts (fun p q => Some (cascade R p q)) (fun p => Some (from_placement R p))
                                 (fun t v => Some (apply R t v)) t insts =
                   match paths_insts insts with
                   | Some sub => Ok (map (image_under t) sub)
                   | None => Panic
                   end).
    { induction insts as [|[p [c|]] rest IHr]; rewrite ?flatten_insts_nil, ?flatten_insts_cons; cbn [paths_insts].
      - reflexivity.
      - inversion IH as [|x xs Hc Hrest]; subst. unfold sub_ok in Hc; cbn in Hc.
        unfold flatten_helper_K in Hc. rewrite Hc. rewrite (IHr Hrest).
        destruct (paths c) as [xs|]; [|reflexivity].
        destruct (paths_insts rest) as [ys|]; [|reflexivity].
        rewrite map_app, map_map. f_equal.
      - reflexivity. }
    rewrite Hins. destruct (paths_insts insts) as [sub|]; [|reflexivity].
    rewrite map_app, map_map. reflexivity.
  Qed.

  (** Flattening from the identity: every emitted shape is the shape moved by the point map
      "innermost placement first, then its parent's, ... up to the top". *)
  Definition path_map (path : list (placement K)) (v : K * K) : K * K :=
    fold_right (fun p w => apply R (from_placement R p) w) v path.

  Lemma along_identity_apply : forall path v,
      apply R (along (identity R) path) v = path_map path v.
  Proof.
    intros path v. unfold along, path_map. rewrite (fold_cascade_apply R Rth).
    rewrite (apply_identity R Rth). induction path as [|p path IH]; cbn; [reflexivity|].
    rewrite IH. reflexivity.
  Qed.

  Lemma shape_map_ext : forall (f g : K * K -> K * K) s, (forall v, f v = g v) -> shape_map f s = shape_map g s.
  Proof.
    intros f g s H. destruct s; cbn; rewrite ?H; try reflexivity;
      f_equal; apply map_ext; exact H.
  Qed.

  Lemma flatten_is_path_composition : forall l : layout (placement K) (K * K),
      flatten_K R l =
      match paths l with
      | Some ps => Ok (map (fun pe => elem_map (path_map (fst pe)) (snd pe)) ps)
      | None => Panic
      end.
  Proof.
    intro l. unfold flatten_K. rewrite flatten_helper_paths.
    destruct (paths l) as [ps|]; [|reflexivity]. f_equal. apply map_ext. intros [path [tag s]].
    unfold image_under, elem_map; cbn. f_equal. apply shape_map_ext. apply along_identity_apply.
  Qed.
End RingFlatten.

(** * Part 2 -- K = Z *)
Lemma ZRth : ring_theory (k0 ZR) (k1 ZR) (kadd ZR) (kmul ZR) (ksub ZR) (kopp ZR) (@eq Z).
Proof. exact Zth. Qed.

(** The function as found is refuted: reflected, 90 degrees, loc (10, 20), point (3, 1). *)
Lemma from_instance_orig_refuted :
  exists lx ly c s v,
    c * c + s * s = 1 /\
    apply_Z (from_instance_orig_Z lx ly true c s) v = (9, 23) /\
    apply_Z (cascade_Z (translate_Z lx ly) (cascade_Z (rotate_Z c s) reflect_vert_Z)) v = (11, 23).
Proof. exists 10, 20, 0, 1, (3, 1). vm_compute. repeat split. Qed.

(** ... and exactly when it is wrong. *)
Lemma from_instance_orig_correct_iff : forall lx ly r c s,
    from_instance_orig_Z lx ly r c s =
    cascade_Z (translate_Z lx ly) (cascade_Z (rotate_Z c s) (if r then reflect_vert_Z else identity_Z))
    <-> (r = false \/ s = 0).
Proof.
  intros lx ly r c s.
  unfold cascade_Z, translate_Z, rotate_Z, reflect_vert_Z, identity_Z.
  rewrite <- (from_instance_is_composition ZR ZRth). split.
  - destruct r; [|auto]. unfold from_instance_orig_Z, from_instance_orig, from_instance; cbn.
    intro H. injection H as H. right. lia.
  - intros [-> | ->]; [reflexivity|]. destruct r; reflexivity.
Qed.

Ltac zr_cbn := cbn [a00 a01 a10 a11 b0 b1 fst snd ZR kadd kmul ksub kopp k0 k1].

(** ** the model at the right angles is the specification *)
Lemma rot_quarters_cs : forall a cs q,
    exact_cs a = Some cs -> quarters_of a = Some q ->
    forall x y, apply_Z (rotate_Z (fst cs) (snd cs)) (x, y) = rot_quarters q (x, y).
Proof.
  intros a cs q Hcs Hq x y. unfold exact_cs in Hcs. unfold quarters_of in Hq.
  destruct (a mod 90 =? 0); [|discriminate].
  injection Hcs as <-. injection Hq as <-.
  assert (Hr : 0 <= (a / 90) mod 4 < 4) by (apply Z.mod_pos_bound; lia).
  assert (Hc : (a / 90) mod 4 = 0 \/ (a / 90) mod 4 = 1 \/ (a / 90) mod 4 = 2 \/ (a / 90) mod 4 = 3) by lia.
  destruct Hc as [-> | [-> | [-> | ->]]]; cbn [Z.eqb Pos.eqb fst snd Z.to_nat];
    repeat match goal with
           | |- context [Pos.to_nat ?p] =>
             let n := eval compute in (Pos.to_nat p) in change (Pos.to_nat p) with n
           end;
    unfold apply_Z, rotate_Z, apply, rotate;
    cbn [a00 a01 a10 a11 b0 b1 fst snd ZR kadd kmul kopp k0 k1 rot_quarters];
    unfold rot90; cbn [fst snd]; f_equal; lia.
Qed.

Definition splacement_of_z (lx ly : Z) (r : bool) (q : nat) : splacement := (lx, ly, r, q).

Lemma from_instance_Z_spec : forall lx ly r a cs q v,
    exact_cs a = Some cs -> quarters_of a = Some q ->
    apply_Z (from_instance_Z lx ly r (fst cs) (snd cs)) v = place_pt (lx, ly, r, q) v.
Proof.
  intros lx ly r a cs q [x y] Hcs Hq.
  unfold apply_Z, from_instance_Z. rewrite (from_instance_point_map ZR ZRth).
  unfold place_pt.
  assert (Hrot : forall wx wy, apply ZR (rotate ZR (fst cs) (snd cs)) (wx, wy) = rot_quarters q (wx, wy))
    by (intros; exact (rot_quarters_cs a cs q Hcs Hq wx wy)).
  assert (Htr : forall u, apply ZR (translate ZR lx ly) u = translate_by lx ly u).
  { intros [ux uy]. unfold translate_by, apply, translate; zr_cbn. f_equal; lia. }
  destruct r.
  - replace (apply ZR (reflect_vert ZR) (x, y)) with (x, - y)
      by (unfold apply, reflect_vert; zr_cbn; f_equal; lia).
    unfold reflect_x; cbn [fst snd]. rewrite Hrot, Htr. reflexivity.
  - replace (apply ZR (identity ZR) (x, y)) with (x, y)
      by (unfold apply, identity; zr_cbn; f_equal; lia).
    rewrite Hrot, Htr. reflexivity.
Qed.

Lemma from_instance_Z_spec_noangle : forall lx ly r v,
    apply_Z (from_instance_opt ZR lx ly r None) v = place_pt (lx, ly, r, O) v.
Proof.
  intros lx ly r [x y]. unfold place_pt, translate_by, apply_Z, apply, from_instance_opt, from_instance, cs_of, reflect_x.
  destruct r; cbn [rot_quarters]; zr_cbn; f_equal; lia.
Qed.
