(** Executable checks for the correspondence run of C13 (tools/props/c13.py).
    Per query the implementation's answer is coded 0 = false, 1 = true, 2 = panic.
    Result code per query: 0 = impl equals the model and the property holds on the impl's answer;
    1 = impl differs from the model but the property holds or is silent;
    2 = the property fails on the impl's answer.
    A case carries many queries; the case's code is the maximum, plus 10 when the polygon is
    simple according to [simpleb] (so that the generator's own simplicity test is cross-checked).
    No proofs here. *)
From Coq Require Import ZArith Bool List.
From L21 Require Import Geom.ContainsSpec Geom.Contains.
Import ListNotations.
Local Open Scope Z_scope.

Definition code (prop_ok model_eq : bool) : Z :=
  if negb prop_ok then 2 else if model_eq then 0 else 1.

Definition res_code (r : res) : Z :=
  match r with Ret false => 0 | Ret true => 1 | Ovf => 2 | Panic => 2 end.

(** ** decision procedures for the specification *)
Definition on_boundaryb (P : list pt) (q : pt) : bool :=
  existsb (fun e => on_segb (fst e) (snd e) q) (edges P).
Definition in_regionb (P : list pt) (q : pt) : bool :=
  on_boundaryb P q || Z.odd (crossings P q).
Definition in_region_nzb (P : list pt) (q : pt) : bool :=
  on_boundaryb P q || negb (winding P q =? 0).
Definition in_boxb (p0 p1 q : pt) : bool :=
  (Z.min (px p0) (px p1) <=? px q) && (px q <=? Z.max (px p0) (px p1)) &&
  (Z.min (py p0) (py p1) <=? py q) && (py q <=? Z.max (py p0) (py p1)).

Definition manhattan_segb (a b : pt) : bool := (px a =? px b) || (py a =? py b).
Definition near_segb (w : Z) (a b q : pt) : bool :=
  on_segb a b q
  || ((px a =? px b) && negb (py a =? py b) && (Z.min (py a) (py b) <=? py q) && (py q <=? Z.max (py a) (py b))
     && (2 * Z.abs (px q - px a) <=? w))
  || ((py a =? py b) && negb (px a =? px b) && (Z.min (px a) (px b) <=? px q) && (px q <=? Z.max (px a) (px b))
     && (2 * Z.abs (py q - py a) <=? w)).
Definition far_segb (w : Z) (a b q : pt) : bool := w <? 2 * cheb_seg a b q.

(** coordinates within the bound under which the theorems exclude overflow *)
Definition small (z : Z) : bool := Z.abs z <? 2 ^ 30.
Definition small_pt (p : pt) : bool := small (px p) && small (py p).

(** ** per-query checks *)

(** rectangle: spec = closed box *)
Definition check_rect_q (p0 p1 q : pt) (impl : Z) : Z :=
  let model_eq := res_code (Ret (rect_contains p0 p1 q)) =? impl in
  let prop_ok := impl =? (if in_boxb p0 p1 q then 1 else 0) in
  code prop_ok model_eq.

(** polygon against model [m]; the property (even-odd closed region) is judged on simple
    polygons with small coordinates only; elsewhere it is silent. *)
Definition check_poly_q (m : list point -> point -> res) (simple smallP : bool)
           (P : list pt) (q : pt) (impl : Z) : Z :=
  let model_eq := res_code (m P q) =? impl in
  let prop_ok :=
    if simple && smallP && small_pt q
    then impl =? (if in_regionb P q then 1 else 0)
    else true in
  code prop_ok model_eq.

(** path: judged when non-empty, Manhattan, small coordinates and width *)
Definition check_path_q (P : list pt) (w : Z) (q : pt) (impl : Z) : Z :=
  let model_eq := res_code (path_contains P w q) =? impl in
  let segs := chain P in
  let judged :=
    match P with [] => false | _ => true end &&
    forallb (fun e => manhattan_segb (fst e) (snd e)) segs &&
    forallb small_pt P && small_pt q && (0 <=? w) && small w in
  let prop_ok :=
    if judged then
      if existsb (fun e => near_segb w (fst e) (snd e) q) segs then impl =? 1
      else if forallb (fun e => far_segb w (fst e) (snd e) q) segs then impl =? 0
      else (impl =? 0) || (impl =? 1)
    else true in
  code prop_ok model_eq.

Fixpoint max_code (f : pt -> Z -> Z) (qs : list (pt * Z)) : Z :=
  match qs with
  | [] => 0
  | (q, i) :: qs' => Z.max (f q i) (max_code f qs')
  end.

(** op 1 rect (pts = [p0; p1]); op 2 polygon against the repaired model; op 3 path (width w);
    op 4 polygon against the model of the code as it stands before the repair. *)
Definition c13_check (op : Z) (pts : list pt) (w : Z) (qs : list (pt * Z)) : Z :=
  if op =? 1 then
    match pts with
    | [p0; p1] => max_code (check_rect_q p0 p1) qs
    | _ => 2
    end
  else if (op =? 2) || (op =? 4) then
    let s := simpleb pts in
    let sm := forallb small_pt pts in
    let m := if op =? 2 then poly_contains else poly_contains_orig in
    max_code (check_poly_q m s sm pts) qs + (if s then 10 else 0)
  else if op =? 3 then max_code (check_path_q pts w) qs
  else 2.

(** Same as [c13_check] with the queries given as the full grid [x0..x1] x [y0..y1]
    (row-major: y outer, x inner, ascending) and the implementation's answers packed in two
    bit masks: bit k of [mtrue] = answer true for the k-th point, bit k of [mpanic] = panic. *)
Fixpoint zrange (a : Z) (n : nat) : list Z :=
  match n with O => [] | S n' => a :: zrange (a + 1) n' end.
Definition grid (x0 y0 x1 y1 : Z) : list pt :=
  flat_map (fun y => map (fun x => (x, y)) (zrange x0 (Z.to_nat (x1 - x0 + 1))))
           (zrange y0 (Z.to_nat (y1 - y0 + 1))).
Fixpoint unpack (ps : list pt) (k : Z) (mtrue mpanic : Z) : list (pt * Z) :=
  match ps with
  | [] => []
  | p :: ps' =>
    (p, if Z.testbit mpanic k then 2 else if Z.testbit mtrue k then 1 else 0)
      :: unpack ps' (k + 1) mtrue mpanic
  end.
Definition c13_check_grid (op : Z) (pts : list pt) (w : Z) (x0 y0 x1 y1 mtrue mpanic : Z) : Z :=
  c13_check op pts w (unpack (grid x0 y0 x1 y1) 0 mtrue mpanic).

(** Compact form for the exhaustive enumerations: the polygon's n vertices lie on the grid
    [0..G-1]^2 and are packed in base G*G (vertex = x + G*y, first vertex in the lowest digit);
    it is queried on the grid extended by one unit on each side. [cs] = list of (n, enc, mtrue). *)
Fixpoint decode_pts (G : Z) (n : nat) (enc : Z) : list pt :=
  match n with
  | O => []
  | S n' => let v := enc mod (G * G) in (v mod G, v / G) :: decode_pts G n' (enc / (G * G))
  end.
Definition c13_check_enum (op G : Z) (cs : list (nat * Z * Z)) : list Z :=
  map (fun c => match c with (n, enc, mtrue) =>
         c13_check_grid op (decode_pts G n enc) 0 (-1) (-1) G G mtrue 0 end) cs.
