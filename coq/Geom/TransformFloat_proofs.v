(** Float-level lemmas for C12: along a chain of right-angle placements the binary64 transform that
    [Layout::flatten] accumulates ([chain_f]: `cascade` of `from_instance` matrices, every `*` and `+`
    rounded to nearest even) stays so close to the exact signed-permutation matrix and integer offset
    that [Point::transform] ([apply_f]: three more roundings, then `round() as isize`) returns the exact
    integer image -- no rounding drift -- up to an explicit depth bound ([drift_budget]).

    Model: Geom/Transform.v part (B); vocabulary of the statements: Geom/TransformFloat.v;
    specification: Geom/TransformSpec.v. The error analysis is over Q (exact rationals, [qval] of a
    dyadic); no real numbers, no axioms. The facts about the eight base matrices are closed by
    [vm_compute] over the table Gen/LibmGen.v, which is regenerated from the implementation on every
    run ([table_ok_true]): the theorem is re-proved against whatever libm returns on the machine.

    Error budget (u53 = 2^-53, depth d, locations <= L, points <= X):
      matrix entries   |a - A| <= d * 2^-50          (A in {0, 1, -1}; base entries within 2^-51, 3 roundings)
      offsets          |b - B| <= 5/4 * d^2 * L * 2^-50   (|B| <= d * L)
      final coordinate error < 1/2 when 10 D^2 L + D L + 16 X D + 4 X + 4 <= 2^52.
    The growth of the offset error is genuinely quadratic in the depth (the matrix error grows linearly
    and multiplies the next location): see [drift_at_depth_62]. *)
From Coq Require Import ZArith Bool List Lia QArith Qabs Qpower Lqa.
From L21 Require Import Base.F64 Gen.LibmGen Geom.Transform Geom.TransformSpec Geom.Transform_proofs Geom.TransformFloat.
Import ListNotations.

Local Open Scope Z_scope.

(** * shifts and masks are the arithmetic operations *)
Lemma pow2_eq : forall k, pow2 k = 2 ^ k.
Proof. intro k. apply Z.shiftl_1_l. Qed.
Lemma divp2_eq : forall m k, 0 <= k -> divp2 m k = m / 2 ^ k.
Proof. intros. apply Z.shiftr_div_pow2; assumption. Qed.
Lemma modp2_eq : forall m k, 0 <= k -> modp2 m k = m mod 2 ^ k.
Proof. intros. apply Z.land_ones; assumption. Qed.

(** * nearest-even shift: the error is at most half a unit *)
Lemma rne_shift_bound : forall m sh, 0 < sh ->
    2 * Z.abs (rne_shift m sh * 2 ^ sh - m) <= 2 ^ sh.
Proof.
  intros m sh Hsh. unfold rne_shift. rewrite pow2_eq, divp2_eq, modp2_eq by lia.
  assert (Hd : 0 < 2 ^ sh) by (apply Z.pow_pos_nonneg; lia).
  set (d := 2 ^ sh) in *.
  pose proof (Z.div_mod m d ltac:(lia)) as Hdm.
  pose proof (Z.mod_pos_bound m d Hd) as Hr.
  set (lo := m / d) in *. set (r := m mod d) in *.
  destruct (2 * r <? d) eqn:E1; [apply Z.ltb_lt in E1; nia|].
  apply Z.ltb_ge in E1.
  destruct (d <? 2 * r) eqn:E2; [apply Z.ltb_lt in E2; nia|].
  apply Z.ltb_ge in E2.
  destruct (Z.even lo); nia.
Qed.

Local Open Scope Q_scope.

(** * powers of two in Q *)
Definition p2 (e : Z) : Q := 2 ^ e.
Lemma two_neq0 : ~ 2 == 0. Proof. intro H; discriminate H. Qed.
Lemma p2_pos : forall e, 0 < p2 e.
Proof. intro e. apply Qpower_0_lt. reflexivity. Qed.
Lemma p2_add : forall a b, p2 (a + b) == p2 a * p2 b.
Proof. intros. apply Qpower_plus. exact two_neq0. Qed.
Lemma p2_Z : forall k, (0 <= k)%Z -> inject_Z (2 ^ k) == p2 k.
Proof. intros k Hk. unfold p2. rewrite Zpower_Qpower by exact Hk. reflexivity. Qed.
Lemma p2_le : forall a b, (a <= b)%Z -> p2 a <= p2 b.
Proof. intros a b H. apply Qpower_le_compat_l; [exact H|]. discriminate. Qed.
Lemma p2_0 : p2 0 == 1. Proof. reflexivity. Qed.

(** * the rational value of a dyadic *)
Definition qval (d : dy) : Q := inject_Z (fst d) * p2 (snd d).

Lemma val_int : forall n, qval (n, 0%Z) == inject_Z n.
Proof. intro n. unfold qval; cbn [fst snd]. rewrite p2_0. ring. Qed.
Lemma val_zero : qval dzero == 0.
Proof. reflexivity. Qed.
Lemma val_one : qval done == 1.
Proof. reflexivity. Qed.
Lemma val_fneg : forall a, qval (fneg a) == - qval a.
Proof. intros [m e]. unfold qval, fneg; cbn [fst snd]. rewrite inject_Z_opp. ring. Qed.

Lemma val_mul_exact : forall a b, qval (mul_exact a b) == qval a * qval b.
Proof.
  intros [ma ea] [mb eb]. unfold qval, mul_exact; cbn [fst snd].
  rewrite inject_Z_mult. rewrite p2_add. ring.
Qed.

Lemma val_add_exact : forall a b, qval (add_exact a b) == qval a + qval b.
Proof.
  intros [ma ea] [mb eb]. unfold qval, add_exact; cbn [fst snd].
  set (e := Z.min ea eb).
  rewrite inject_Z_plus, !inject_Z_mult, !pow2_eq, !p2_Z by lia.
  assert (Ha : p2 ea == p2 (ea - e) * p2 e) by (rewrite <- p2_add; replace (ea - e + e)%Z with ea by lia; reflexivity).
  assert (Hb : p2 eb == p2 (eb - e) * p2 e) by (rewrite <- p2_add; replace (eb - e + e)%Z with eb by lia; reflexivity).
  rewrite Ha, Hb. ring.
Qed.

Definition u53 : Q := p2 (-53).
Definition eta_f : Q := p2 (-200).

Lemma bitlen_ge : forall m, m <> 0%Z -> (2 ^ (bitlen m - 1) <= Z.abs m)%Z.
Proof.
  intros m Hm. unfold bitlen. destruct (m =? 0)%Z eqn:E; [apply Z.eqb_eq in E; contradiction|].
  replace (Z.log2 (Z.abs m) + 1 - 1)%Z with (Z.log2 (Z.abs m)) by lia.
  apply Z.log2_spec. lia.
Qed.

Lemma Qabs_inject : forall z, Qabs (inject_Z z) == inject_Z (Z.abs z).
Proof. intro z. unfold Qabs, inject_Z. reflexivity. Qed.

Lemma Qabs_val : forall m e, Qabs (qval (m, e)) == inject_Z (Z.abs m) * p2 e.
Proof.
  intros m e. unfold qval; cbn [fst snd]. rewrite Qabs_Qmult, Qabs_inject.
  rewrite (Qabs_pos (p2 e)); [reflexivity|]. apply Qlt_le_weak, p2_pos.
Qed.

(** * one rounding: relative error 2^-53, or absolute error 2^-1075 when subnormal *)
Lemma round_flt_error : forall d,
    Qabs (qval (round_flt d) - qval d) <= u53 * Qabs (qval d) + eta_f.
Proof.
  intros [m e]. unfold round_flt.
  set (sh := Z.max (bitlen m - 53) (-1074 - e)).
  assert (Hu0 : 0 < u53) by apply p2_pos.
  assert (He0 : 0 < eta_f) by apply p2_pos.
  pose proof (Qabs_nonneg (qval (m, e))) as Hv0.
  assert (Hu : 0 <= u53 * Qabs (qval (m, e)) + eta_f) by nra.
  destruct (sh <=? 0)%Z eqn:Esh.
  - setoid_replace (qval (m, e) - qval (m, e)) with 0 by ring. exact Hu.
  - apply Z.leb_gt in Esh.
    pose proof (rne_shift_bound m sh Esh) as Hb.
    set (q := rne_shift m sh) in *.
    assert (Hdiff : qval (q, (e + sh)%Z) - qval (m, e) == inject_Z (q * 2 ^ sh - m) * p2 e).
    { unfold qval; cbn [fst snd]. unfold Zminus. rewrite inject_Z_plus, inject_Z_opp, inject_Z_mult, p2_Z by lia.
      rewrite p2_add. ring. }
    rewrite Hdiff, Qabs_Qmult, Qabs_inject, (Qabs_pos (p2 e)) by (apply Qlt_le_weak, p2_pos).
    assert (Hhalf : 2 * inject_Z (Z.abs (q * 2 ^ sh - m)) <= p2 sh).
    { rewrite <- p2_Z by lia. change 2 with (inject_Z 2). rewrite <- inject_Z_mult, <- Zle_Qle. exact Hb. }
    assert (Hpe : 0 < p2 e) by apply p2_pos.
    assert (Hmain : inject_Z (Z.abs (q * 2 ^ sh - m)) * p2 e <= p2 (sh + e - 1)).
    { replace (sh + e - 1)%Z with (sh + -1 + e)%Z by lia. rewrite !p2_add.
      change (p2 (-1)) with (1 # 2). nra. }
    eapply Qle_trans; [exact Hmain|].
    destruct (Z.max_spec (bitlen m - 53) (-1074 - e)) as [[Hlt Hmax] | [Hge Hmax]]; fold sh in Hmax.
    + assert (p2 (sh + e - 1) <= eta_f) by (apply p2_le; lia). nra.
    + assert (Hm0 : m <> 0%Z).
      { intro; subst m. unfold bitlen in Hmax; cbn in Hmax. lia. }
      pose proof (bitlen_ge m Hm0) as Hbl.
      assert (Hbl0 : (0 <= bitlen m - 1)%Z).
      { unfold bitlen in *. destruct (m =? 0)%Z; pose proof (Z.log2_nonneg (Z.abs m)); lia. }
      rewrite Zle_Qle, p2_Z in Hbl by exact Hbl0.
      rewrite Qabs_val.
      assert (Heq : p2 (sh + e - 1) == u53 * (p2 (bitlen m - 1) * p2 e)).
      { unfold u53. rewrite <- !p2_add. replace (sh + e - 1)%Z with (-53 + (bitlen m - 1 + e))%Z by lia. reflexivity. }
      rewrite Heq.
      assert (p2 (bitlen m - 1) * p2 e <= inject_Z (Z.abs m) * p2 e) by nra.
      nra.
Qed.

Local Open Scope Q_scope.

(** * overflow check *)
Lemma finite_ok_of_bound : forall d, Qabs (qval d) < p2 1024 -> finite_ok d = true.
Proof.
  intros [m e] H. unfold finite_ok.
  destruct (m =? 0)%Z eqn:E; [reflexivity|]. apply Z.eqb_neq in E. cbn [orb].
  apply Z.ltb_lt. apply Z.lt_nge. intro Hge.
  assert (Hl : (2 ^ Z.log2 (Z.abs m) <= Z.abs m)%Z) by (apply Z.log2_spec; lia).
  rewrite Zle_Qle, p2_Z in Hl by apply Z.log2_nonneg.
  rewrite Qabs_val in H.
  assert (Hb : p2 1024 <= p2 (Z.log2 (Z.abs m) + e)) by (apply p2_le; lia).
  rewrite p2_add in Hb. pose proof (p2_pos e).
  assert (p2 (Z.log2 (Z.abs m)) * p2 e <= inject_Z (Z.abs m) * p2 e) by nra.
  lra.
Qed.

Definition big_f : Q := p2 100.

Lemma u_val : u53 == 1 # 9007199254740992. Proof. reflexivity. Qed.
Lemma u_pos : 0 < u53. Proof. apply p2_pos. Qed.
Lemma eta_pos : 0 < eta_f. Proof. apply p2_pos. Qed.
Lemma eta_small : eta_f <= (1 # 1024) * u53 * u53.
Proof. unfold Qle; vm_compute; discriminate. Qed.
Lemma u_small : u53 <= 1 # 1024.
Proof. unfold Qle; vm_compute; discriminate. Qed.

Lemma chk_round_spec : forall d, Qabs (qval d) <= big_f ->
    exists r, chk (round_flt d) = Some r /\ Qabs (qval r - qval d) <= u53 * Qabs (qval d) + eta_f.
Proof.
  intros d Hd. exists (round_flt d). pose proof (round_flt_error d) as He. split; [|exact He].
  unfold chk. rewrite finite_ok_of_bound; [reflexivity|].
  assert (Hv : Qabs (qval (round_flt d)) <= Qabs (qval d) + Qabs (qval (round_flt d) - qval d)).
  { setoid_replace (qval (round_flt d)) with (qval d + (qval (round_flt d) - qval d)) at 1 by ring. apply Qabs_triangle. }
  pose proof u_small. pose proof u_pos. pose proof eta_small. pose proof eta_pos. pose proof (Qabs_nonneg (qval d)).
  assert (Hbig : big_f * 2 + 1 < p2 1024) by (unfold Qlt; vm_compute; reflexivity).
  nra.
Qed.

Lemma fmul_spec : forall a b, Qabs (qval a * qval b) <= big_f ->
    exists r, fmul a b = Some r /\ Qabs (qval r - qval a * qval b) <= u53 * Qabs (qval a * qval b) + eta_f.
Proof.
  intros a b H. unfold fmul. rewrite <- val_mul_exact in H.
  destruct (chk_round_spec _ H) as [r [Hr He]]. exists r. split; [exact Hr|].
  rewrite val_mul_exact in He. exact He.
Qed.
Lemma fadd_spec : forall a b, Qabs (qval a + qval b) <= big_f ->
    exists r, fadd a b = Some r /\ Qabs (qval r - (qval a + qval b)) <= u53 * Qabs (qval a + qval b) + eta_f.
Proof.
  intros a b H. unfold fadd. rewrite <- val_add_exact in H.
  destruct (chk_round_spec _ H) as [r [Hr He]]. exists r. split; [exact Hr|].
  rewrite val_add_exact in He. exact He.
Qed.

(** `isize as f64` is exact below 2^53 *)
Lemma f_of_int_exact : forall n, (Z.abs n < 2 ^ 53)%Z -> f_of_int n = Some (n, 0%Z).
Proof.
  intros n Hn. unfold f_of_int, round_flt.
  assert (Hbl : (bitlen n <= 53)%Z).
  { unfold bitlen. destruct (n =? 0)%Z eqn:E; [lia|]. apply Z.eqb_neq in E.
    assert (Z.log2 (Z.abs n) < 53)%Z by (apply Z.log2_lt_pow2; lia). lia. }
  replace (Z.max (bitlen n - 53) (-1074 - 0) <=? 0)%Z with true by (symmetry; apply Z.leb_le; lia).
  unfold chk. rewrite finite_ok_of_bound; [reflexivity|].
  rewrite val_int, Qabs_inject.
  apply Qlt_trans with (inject_Z (2 ^ 53)); [rewrite <- Zlt_Qlt; exact Hn|].
  unfold Qlt; vm_compute; reflexivity.
Qed.

(** `f64::round`: a value within 1/2 of an integer goes to that integer *)
Lemma f_round_near : forall d V, Qabs (qval d - inject_Z V) < 1 # 2 -> f_round d = V.
Proof.
  intros [m e] V H. unfold f_round. unfold qval in H; cbn [fst snd] in H.
  destruct (0 <=? e)%Z eqn:Ee.
  - apply Z.leb_le in Ee. rewrite pow2_eq.
    rewrite <- p2_Z, <- inject_Z_mult in H by lia.
    unfold Qminus in H. rewrite <- inject_Z_opp, <- inject_Z_plus, Qabs_inject in H.
    assert (Z.abs (m * 2 ^ e + - V) < 1)%Z.
    { apply Z.lt_nge. intro Hc. rewrite Zle_Qle in Hc. change (inject_Z 1) with 1 in Hc. lra. }
    lia.
  - apply Z.leb_gt in Ee. rewrite pow2_eq, !divp2_eq by lia.
    set (D := (2 ^ (- e))%Z).
    assert (HD : (0 < D)%Z) by (apply Z.pow_pos_nonneg; lia).
    assert (HDr : p2 e * inject_Z D == 1).
    { unfold D. rewrite p2_Z by lia. rewrite <- p2_add. replace (e + - e)%Z with 0%Z by lia. reflexivity. }
    assert (HDpos : 0 < inject_Z D) by (change 0 with (inject_Z 0); rewrite <- Zlt_Qlt; exact HD).
    assert (Hz : (Z.abs (2 * m - 2 * V * D) < D)%Z).
    { apply Z.lt_nge. intro Hc. rewrite Zle_Qle in Hc. rewrite <- Qabs_inject in Hc.
      unfold Zminus in Hc. rewrite inject_Z_plus, inject_Z_opp, !inject_Z_mult in Hc.
      change (inject_Z 2) with 2 in Hc.
      assert (Heq : 2 * inject_Z m + - (2 * inject_Z V * inject_Z D) == (2 * inject_Z D) * (inject_Z m * p2 e - inject_Z V)).
      { setoid_replace (2 * inject_Z D * (inject_Z m * p2 e - inject_Z V))
          with (2 * inject_Z m * (p2 e * inject_Z D) - 2 * inject_Z V * inject_Z D) by ring.
        rewrite HDr. ring. }
      rewrite Heq, Qabs_Qmult, (Qabs_pos (2 * inject_Z D)) in Hc by lra.
      pose proof (Qabs_nonneg (inject_Z m * p2 e - inject_Z V)). nra. }
    replace (2 ^ (1 - e))%Z with (2 * D)%Z by (unfold D; replace (1 - e)%Z with (1 + - e)%Z by lia; rewrite Z.pow_add_r by lia; reflexivity).
    destruct (0 <=? m)%Z eqn:Em.
    + symmetry. apply Z.div_unique with (r := (2 * m + D - 2 * D * V)%Z); lia.
    + assert ((2 * - m + D) / (2 * D) = - V)%Z; [|lia].
      symmetry. apply Z.div_unique with (r := (2 * - m + D + 2 * D * V)%Z); lia.
Qed.

Lemma as_isize_id : forall n, (Z.abs n < 2 ^ 62)%Z -> as_isize n = n.
Proof. intros n H. unfold as_isize, two63. lia. Qed.

Local Open Scope Q_scope.

Lemma Qabs_le_add : forall a b c, Qabs (a - c) <= Qabs (a - b) + Qabs (b - c).
Proof.
  intros a b c. setoid_replace (a - c) with ((a - b) + (b - c)) by ring. apply Qabs_triangle.
Qed.
Lemma Qabs_bound_add : forall a b, Qabs a <= Qabs b + Qabs (a - b).
Proof.
  intros a b. setoid_replace a with (b + (a - b)) at 1 by ring. apply Qabs_triangle.
Qed.

(** `x0*y0 + x1*y1` in floats: three roundings *)
Lemma dot2_flt : forall x0 y0 x1 y1 M,
    Qabs (qval x0 * qval y0) + Qabs (qval x1 * qval y1) <= M -> 1 <= M -> M <= p2 90 ->
    exists r, dot2 x0 y0 x1 y1 = Some r /\
              Qabs (qval r - (qval x0 * qval y0 + qval x1 * qval y1)) <= 3 * u53 * M.
Proof.
  intros x0 y0 x1 y1 M HM H1 HMb. unfold dot2.
  pose proof (Qabs_nonneg (qval x0 * qval y0)) as Ha0. pose proof (Qabs_nonneg (qval x1 * qval y1)) as Ha1.
  assert (Hbig : p2 90 * 2 <= big_f) by (unfold Qle; vm_compute; discriminate).
  pose proof u_small as Hus. pose proof u_pos as Hup. pose proof eta_small as Hes. pose proof eta_pos as Hep.
  destruct (fmul_spec x0 y0) as [t0 [Ht0 He0]]; [lra|]. rewrite Ht0.
  destruct (fmul_spec x1 y1) as [t1 [Ht1 He1]]; [lra|]. rewrite Ht1.
  set (a0 := Qabs (qval x0 * qval y0)) in *. set (a1 := Qabs (qval x1 * qval y1)) in *.
  set (p0 := qval x0 * qval y0) in *. set (p1 := qval x1 * qval y1) in *.
  assert (Hs : Qabs (qval t0 + qval t1) <= a0 + a1 + Qabs (qval t0 - p0) + Qabs (qval t1 - p1)).
  { setoid_replace (qval t0 + qval t1) with ((p0 + p1) + ((qval t0 - p0) + (qval t1 - p1))) by ring.
    eapply Qle_trans; [apply Qabs_triangle|].
    pose proof (Qabs_triangle p0 p1). pose proof (Qabs_triangle (qval t0 - p0) (qval t1 - p1)).
    fold a0 a1 in H. lra. }
  set (e0 := Qabs (qval t0 - p0)) in *. set (e1 := Qabs (qval t1 - p1)) in *.
  assert (Hsum : Qabs (qval t0 + qval t1) <= big_f) by nra.
  destruct (fadd_spec t0 t1 Hsum) as [r [Hr He2]]. exists r. split; [exact Hr|].
  assert (Hfin : Qabs (qval r - (p0 + p1)) <= Qabs (qval r - (qval t0 + qval t1)) + (e0 + e1)).
  { setoid_replace (qval r - (p0 + p1)) with ((qval r - (qval t0 + qval t1)) + ((qval t0 - p0) + (qval t1 - p1))) by ring.
    eapply Qle_trans; [apply Qabs_triangle|].
    pose proof (Qabs_triangle (qval t0 - p0) (qval t1 - p1)). fold e0 e1 in H. lra. }
  set (e2 := Qabs (qval r - (qval t0 + qval t1))) in *. set (s := Qabs (qval t0 + qval t1)) in *.
  assert (0 <= e0) by apply Qabs_nonneg. assert (0 <= e1) by apply Qabs_nonneg.
  assert (0 <= s) by apply Qabs_nonneg.
  eapply Qle_trans; [exact Hfin|].
  assert (Hm1 : u53 * (a0 + a1) <= u53 * M) by (apply Qmult_le_l; [exact Hup | exact HM]).
  assert (Hee : e0 + e1 <= u53 * M + 2 * eta_f) by lra.
  assert (Hs2 : s <= M + u53 * M + 2 * eta_f) by lra.
  assert (Hm2 : u53 * s <= u53 * (M + u53 * M + 2 * eta_f)) by (apply Qmult_le_l; [exact Hup | exact Hs2]).
  assert (He2' : e2 <= u53 * (M + u53 * M + 2 * eta_f) + eta_f) by lra.
  assert (HuM : 0 <= u53 * M) by (apply Qmult_le_0_compat; lra).
  assert (Hm3 : u53 * (u53 * M) <= (1 # 1024) * (u53 * M)) by (apply Qmult_le_compat_r; [exact Hus | exact HuM]).
  assert (Hm4 : u53 * u53 <= (1 # 1024) * u53) by (apply Qmult_le_compat_r; lra).
  assert (Hm5 : u53 * eta_f <= (1 # 1024) * eta_f) by (apply Qmult_le_compat_r; lra).
  assert (Hm6 : u53 * 1 <= u53 * M) by (apply Qmult_le_l; [exact Hup | exact H1]).
  lra.
Qed.

Local Open Scope Q_scope.

Lemma Qmult_le_mono : forall a b c d, 0 <= a -> a <= c -> 0 <= b -> b <= d -> a * b <= c * d.
Proof.
  intros a b c d Ha Hac Hb Hbd.
  apply Qle_trans with (c * b).
  - apply Qmult_le_compat_r; assumption.
  - rewrite (Qmult_comm c b), (Qmult_comm c d). apply Qmult_le_compat_r; [assumption|].
    apply Qle_trans with a; assumption.
Qed.

Lemma mul_err : forall x y p q e h,
    Qabs (x - p) <= e -> Qabs (y - q) <= h ->
    Qabs (x * y - p * q) <= Qabs p * h + Qabs q * e + e * h.
Proof.
  intros x y p q e h He Hh.
  setoid_replace (x * y - p * q) with (p * (y - q) + q * (x - p) + (x - p) * (y - q)) by ring.
  eapply Qle_trans; [apply Qabs_triangle|].
  eapply Qle_trans; [apply Qplus_le_compat; [apply Qabs_triangle | apply Qle_refl]|].
  rewrite !Qabs_Qmult.
  pose proof (Qabs_nonneg p). pose proof (Qabs_nonneg q).
  pose proof (Qabs_nonneg (x - p)). pose proof (Qabs_nonneg (y - q)).
  assert (Qabs p * Qabs (y - q) <= Qabs p * h) by (apply Qmult_le_mono; lra).
  assert (Qabs q * Qabs (x - p) <= Qabs q * e) by (apply Qmult_le_mono; lra).
  assert (Qabs (x - p) * Qabs (y - q) <= e * h) by (apply Qmult_le_mono; lra).
  lra.
Qed.

(** the exact part of a dot product of a near-{0,+-1} row with a near-integer column *)
Lemma dot_err : forall x0 y0 x1 y1 p0 q0 p1 q1 e h S Ym,
    Qabs (x0 - p0) <= e -> Qabs (x1 - p1) <= e -> Qabs (y0 - q0) <= h -> Qabs (y1 - q1) <= h ->
    Qabs p0 + Qabs p1 <= 1 -> Qabs q0 + Qabs q1 <= S -> Qabs q0 <= Ym -> Qabs q1 <= Ym ->
    Qabs (x0 * y0 + x1 * y1 - (p0 * q0 + p1 * q1)) <= h + e * S + 2 * e * h
    /\ Qabs (x0 * y0) + Qabs (x1 * y1) <= Ym + (h + e * S + 2 * e * h).
Proof.
  intros x0 y0 x1 y1 p0 q0 p1 q1 e h S Ym Hx0 Hx1 Hy0 Hy1 Hp Hq Hq0 Hq1.
  pose proof (mul_err _ _ _ _ _ _ Hx0 Hy0) as H0. pose proof (mul_err _ _ _ _ _ _ Hx1 Hy1) as H1.
  pose proof (Qabs_nonneg p0). pose proof (Qabs_nonneg p1).
  pose proof (Qabs_nonneg q0). pose proof (Qabs_nonneg q1).
  assert (He0 : 0 <= e) by (eapply Qle_trans; [apply Qabs_nonneg | exact Hx0]).
  assert (Hh0 : 0 <= h) by (eapply Qle_trans; [apply Qabs_nonneg | exact Hy0]).
  assert (Ha : (Qabs p0 + Qabs p1) * h <= 1 * h) by (apply Qmult_le_compat_r; assumption).
  assert (Hb : (Qabs q0 + Qabs q1) * e <= S * e) by (apply Qmult_le_compat_r; assumption).
  assert (Hsum : Qabs (x0 * y0 - p0 * q0) + Qabs (x1 * y1 - p1 * q1) <= h + e * S + 2 * e * h) by lra.
  split.
  - setoid_replace (x0 * y0 + x1 * y1 - (p0 * q0 + p1 * q1))
      with ((x0 * y0 - p0 * q0) + (x1 * y1 - p1 * q1)) by ring.
    eapply Qle_trans; [apply Qabs_triangle|]. exact Hsum.
  - pose proof (Qabs_bound_add (x0 * y0) (p0 * q0)) as Hc0.
    pose proof (Qabs_bound_add (x1 * y1) (p1 * q1)) as Hc1.
    rewrite (Qabs_Qmult p0 q0) in Hc0. rewrite (Qabs_Qmult p1 q1) in Hc1.
    assert (Qabs p0 * Qabs q0 <= Qabs p0 * Ym) by (apply Qmult_le_mono; lra).
    assert (Qabs p1 * Qabs q1 <= Qabs p1 * Ym) by (apply Qmult_le_mono; lra).
    assert (HYm : 0 <= Ym) by lra.
    assert ((Qabs p0 + Qabs p1) * Ym <= 1 * Ym) by (apply Qmult_le_compat_r; assumption).
    lra.
Qed.

Definition near (d : dy) (z : Z) (eps : Q) : Prop := Qabs (qval d - inject_Z z) <= eps.

Lemma near_weaken : forall d z e e', near d z e -> e <= e' -> near d z e'.
Proof. unfold near; intros. eapply Qle_trans; eassumption. Qed.

Lemma near_exact : forall n, near (n, 0%Z) n 0.
Proof. intro n. unfold near. rewrite val_int. setoid_replace (inject_Z n - inject_Z n) with 0 by ring. apply Qle_refl. Qed.

Lemma near_fneg : forall d z e, near d z e -> near (fneg d) (- z) e.
Proof.
  unfold near. intros d z e H. rewrite val_fneg, inject_Z_opp.
  setoid_replace (- qval d - - inject_Z z) with (- (qval d - inject_Z z)) by ring.
  rewrite Qabs_opp. exact H.
Qed.

(** float dot product of a row near a signed unit vector with a column near integers *)
Lemma dot2_near : forall x0 y0 x1 y1 P0 Y0 P1 Y1 e h E (S Ym : Z),
    near x0 P0 e -> near x1 P1 e -> near y0 Y0 h -> near y1 Y1 h ->
    (Z.abs P0 + Z.abs P1 = 1)%Z -> (Z.abs Y0 + Z.abs Y1 <= S)%Z ->
    (Z.abs Y0 <= Ym)%Z -> (Z.abs Y1 <= Ym)%Z -> (1 <= Ym)%Z -> (Ym <= 2 ^ 80)%Z ->
    h + e * inject_Z S + 2 * e * h <= E -> E <= 1 ->
    exists r, dot2 x0 y0 x1 y1 = Some r /\
              near r (P0 * Y0 + P1 * Y1) (E + 3 * u53 * (inject_Z Ym + E)).
Proof.
  intros x0 y0 x1 y1 P0 Y0 P1 Y1 e h E S Ym Hx0 Hx1 Hy0 Hy1 HP HS HY0 HY1 HYm1 HYmb HE HE1.
  unfold near in *.
  destruct (dot_err (qval x0) (qval y0) (qval x1) (qval y1) (inject_Z P0) (inject_Z Y0) (inject_Z P1) (inject_Z Y1)
                    e h (inject_Z S) (inject_Z Ym) Hx0 Hx1 Hy0 Hy1) as [Hd HM].
  - rewrite !Qabs_inject, <- inject_Z_plus. change 1 with (inject_Z 1). rewrite <- Zle_Qle. lia.
  - rewrite !Qabs_inject, <- inject_Z_plus. rewrite <- Zle_Qle. exact HS.
  - rewrite Qabs_inject, <- Zle_Qle. exact HY0.
  - rewrite Qabs_inject, <- Zle_Qle. exact HY1.
  - assert (HYq : 1 <= inject_Z Ym) by (change 1 with (inject_Z 1); rewrite <- Zle_Qle; exact HYm1).
    assert (HYb : inject_Z Ym <= p2 80) by (rewrite <- p2_Z by lia; rewrite <- Zle_Qle; exact HYmb).
    assert (HE0 : 0 <= h + e * inject_Z S + 2 * e * h).
    { eapply Qle_trans; [apply Qabs_nonneg | exact Hd]. }
    assert (Hpp : p2 80 + 1 <= p2 90) by (unfold Qle; vm_compute; discriminate).
    destruct (dot2_flt x0 y0 x1 y1 (inject_Z Ym + E)) as [r [Hr Her]]; [lra | lra | lra |].
    exists r. split; [exact Hr|].
    rewrite inject_Z_plus, !inject_Z_mult.
    eapply Qle_trans; [apply (Qabs_le_add _ (qval x0 * qval y0 + qval x1 * qval y1))|].
    lra.
Qed.

Local Open Scope Q_scope.

(** numerals, so that [lra] sees constants *)
Local Notation U := (1 # 9007199254740992) (only parsing).          (* 2^-53 *)
Local Notation E0 := (1 # 2251799813685248) (only parsing).         (* 2^-51: base matrices *)
Local Notation E1 := (1 # 1125899906842624) (only parsing).         (* 2^-50: growth per level *)
Local Notation ETA := (1 # 1606938044258990275541962092341162602522202993782792835301376) (only parsing). (* 2^-200 *)

Lemma u_num : u53 == U. Proof. reflexivity. Qed.
Lemma eta_num : eta_f == ETA. Proof. reflexivity. Qed.

Lemma dot2_near_num : forall x0 y0 x1 y1 P0 Y0 P1 Y1 e h E (S Ym : Z),
    near x0 P0 e -> near x1 P1 e -> near y0 Y0 h -> near y1 Y1 h ->
    (Z.abs P0 + Z.abs P1 = 1)%Z -> (Z.abs Y0 + Z.abs Y1 <= S)%Z ->
    (Z.abs Y0 <= Ym)%Z -> (Z.abs Y1 <= Ym)%Z -> (1 <= Ym)%Z -> (Ym <= 2 ^ 80)%Z ->
    h + e * inject_Z S + 2 * e * h <= E -> E <= 1 ->
    exists r, dot2 x0 y0 x1 y1 = Some r /\
              near r (P0 * Y0 + P1 * Y1) (E + 3 * U * (inject_Z Ym + E)).
Proof.
  intros. destruct (dot2_near x0 y0 x1 y1 P0 Y0 P1 Y1 e h E S Ym) as [r [Hr Hn]]; try assumption.
  exists r. split; [exact Hr|]. eapply near_weaken; [exact Hn|]. rewrite u_num. apply Qle_refl.
Qed.

(** float addition of a near-integer and a near-integer *)
Lemma fadd_near : forall v pb V PB ev dl (Bm : Z),
    near v V ev -> near pb PB dl -> (Z.abs V + Z.abs PB <= Bm)%Z -> (Bm <= 2 ^ 80)%Z ->
    ev + dl <= 2 ->
    exists c, fadd v pb = Some c /\ near c (V + PB) (ev + dl + U * (inject_Z Bm + 2) + ETA).
Proof.
  intros v pb V PB ev dl Bm Hv Hpb HB HBb H1. unfold near in *.
  assert (Hs : Qabs (qval v + qval pb - inject_Z (V + PB)) <= ev + dl).
  { rewrite inject_Z_plus.
    setoid_replace (qval v + qval pb - (inject_Z V + inject_Z PB)) with ((qval v - inject_Z V) + (qval pb - inject_Z PB)) by ring.
    eapply Qle_trans; [apply Qabs_triangle|]. lra. }
  assert (Hm : Qabs (qval v + qval pb) <= inject_Z Bm + 2).
  { pose proof (Qabs_bound_add (qval v + qval pb) (inject_Z (V + PB))) as Hc.
    rewrite Qabs_inject in Hc.
    assert (inject_Z (Z.abs (V + PB)) <= inject_Z Bm) by (rewrite <- Zle_Qle; lia). lra. }
  assert (HBq : inject_Z Bm <= p2 80) by (rewrite <- p2_Z by lia; rewrite <- Zle_Qle; exact HBb).
  assert (Hpp : p2 80 + 2 <= big_f) by (unfold Qle; vm_compute; discriminate).
  destruct (fadd_spec v pb) as [c [Hc He]]; [lra|]. exists c. split; [exact Hc|].
  eapply Qle_trans; [apply (Qabs_le_add _ (qval v + qval pb))|].
  rewrite u_num, eta_num in He.
  assert (U * Qabs (qval v + qval pb) <= U * (inject_Z Bm + 2)) by (apply Qmult_le_l; [reflexivity | exact Hm]).
  lra.
Qed.

Local Open Scope Z_scope.

(** * signed permutation matrices *)
Definition sperm (t : Ztransform) : Prop :=
  Z.abs (a00 t) + Z.abs (a01 t) = 1 /\ Z.abs (a10 t) + Z.abs (a11 t) = 1 /\
  Z.abs (a00 t) + Z.abs (a10 t) = 1 /\ Z.abs (a01 t) + Z.abs (a11 t) = 1.

Definition D4 : list (Z * Z * Z * Z) :=
  [(1, 0, 0, 1); (0, -1, 1, 0); (-1, 0, 0, -1); (0, 1, -1, 0);
   (1, 0, 0, -1); (0, 1, 1, 0); (-1, 0, 0, 1); (0, -1, -1, 0)].

Lemma sperm_cases : forall t, sperm t -> In (a00 t, a01 t, a10 t, a11 t) D4.
Proof.
  intros [p00 p01 p10 p11 pb0 pb1] [H1 [H2 [H3 H4]]]; cbn [a00 a01 a10 a11] in *.
  assert (C0 : p00 = 0 \/ p00 = 1 \/ p00 = -1) by lia.
  assert (C1 : p01 = 0 \/ p01 = 1 \/ p01 = -1) by lia.
  assert (C2 : p10 = 0 \/ p10 = 1 \/ p10 = -1) by lia.
  assert (C3 : p11 = 0 \/ p11 = 1 \/ p11 = -1) by lia.
  destruct C0 as [-> | [-> | ->]]; destruct C1 as [-> | [-> | ->]];
    destruct C2 as [-> | [-> | ->]]; destruct C3 as [-> | [-> | ->]];
      try (exfalso; cbn in *; lia); cbn; tauto.
Qed.

Lemma sperm_cascade : forall p q, sperm p -> sperm q -> sperm (cascade_Z p q).
Proof.
  intros p q Hp Hq. pose proof (sperm_cases p Hp) as Cp. pose proof (sperm_cases q Hq) as Cq.
  destruct p as [p00 p01 p10 p11 pb0 pb1]. destruct q as [q00 q01 q10 q11 qb0 qb1].
  cbn [a00 a01 a10 a11] in Cp, Cq. unfold D4 in Cp, Cq. cbn [In] in Cp, Cq.
  unfold sperm, cascade_Z, cascade, matmul, matvec.
  cbn [a00 a01 a10 a11 b0 b1 fst snd ZR kadd kmul].
  repeat (destruct Cp as [Cp | Cp]; [injection Cp as <- <- <- <- |]); [.. | contradiction];
    (repeat (destruct Cq as [Cq | Cq]; [injection Cq as <- <- <- <- |]); [.. | contradiction]; cbn; lia).
Qed.

Local Open Scope Q_scope.

Lemma inject_Z_le_num : forall a b, (a <= b)%Z -> inject_Z a <= inject_Z b.
Proof. intros. rewrite <- Zle_Qle. assumption. Qed.

Lemma sign_unit_dot : forall P0 P1 c0 c1 M,
    (Z.abs P0 + Z.abs P1 = 1)%Z -> (Z.abs c0 <= M)%Z -> (Z.abs c1 <= M)%Z ->
    (Z.abs (P0 * c0 + P1 * c1) <= M)%Z.
Proof.
  intros P0 P1 c0 c1 M HP H0 H1.
  assert (C0 : (P0 = 0 \/ P0 = 1 \/ P0 = -1)%Z) by lia.
  assert (C1 : (P1 = 0 \/ P1 = 1 \/ P1 = -1)%Z) by lia.
  destruct C0 as [-> | [-> | ->]]; destruct C1 as [-> | [-> | ->]]; lia.
Qed.

(** `a_i0 * c0 + a_i1 * c1 + b_i` in floats, for exact integers c0, c1 *)
Lemma affine_near : forall x0 x1 pb P0 P1 PB c0 c1 e dl (M Bz : Z),
    near x0 P0 e -> near x1 P1 e -> near pb PB dl ->
    (Z.abs P0 + Z.abs P1 = 1)%Z -> (Z.abs c0 <= M)%Z -> (Z.abs c1 <= M)%Z -> (Z.abs PB <= Bz)%Z ->
    (1 <= M)%Z -> (M <= 2 ^ 50)%Z -> (Bz <= 2 ^ 79)%Z ->
    2 * e * inject_Z M <= 1 -> dl <= 1 # 2 ->
    exists r c, dot2 x0 (c0, 0%Z) x1 (c1, 0%Z) = Some r /\ fadd r pb = Some c /\
      near c (P0 * c0 + P1 * c1 + PB)
           (2 * e * inject_Z M + 3 * U * (inject_Z M + 2 * e * inject_Z M) + dl
            + U * (inject_Z M + inject_Z Bz + 2) + ETA).
Proof.
  intros x0 x1 pb P0 P1 PB c0 c1 e dl M Bz Hx0 Hx1 Hpb HP Hc0 Hc1 HPB HM1 HMb HBb HE Hdl.
  destruct (dot2_near_num x0 (c0, 0%Z) x1 (c1, 0%Z) P0 c0 P1 c1 e 0 (2 * e * inject_Z M) (2 * M) M)
    as [r [Hr Hn]]; try assumption; try apply near_exact; try lia.
  - change (inject_Z (2 * M)) with (inject_Z (2 * M)). rewrite inject_Z_mult. change (inject_Z 2) with 2. lra.
  - pose proof (sign_unit_dot P0 P1 c0 c1 M HP Hc0 Hc1) as HV.
    assert (HMq : inject_Z M <= inject_Z (2 ^ 50)) by (apply inject_Z_le_num; exact HMb).
    assert (HMq1 : inject_Z 1 <= inject_Z M) by (apply inject_Z_le_num; exact HM1).
    change (inject_Z (2 ^ 50)) with (1125899906842624 # 1) in HMq. change (inject_Z 1) with 1 in HMq1.
    destruct (fadd_near r pb (P0 * c0 + P1 * c1) PB
                        (2 * e * inject_Z M + 3 * U * (inject_Z M + 2 * e * inject_Z M)) dl (M + Bz))
      as [c [Hc Hnc]]; try assumption; try lia.
    + lra.
    + exists r, c. split; [exact Hr|]. split; [exact Hc|].
      eapply near_weaken; [exact Hnc|]. rewrite inject_Z_plus. lra.
Qed.

Definition epsd (d : Z) : Q := inject_Z d * E1.
Definition deltad (L d : Z) : Q := (5 # 4) * (inject_Z d * inject_Z d * inject_Z L) * E1.

(** one entry of the matrix product: parent row (depth d) times base column *)
Lemma matmul_entry : forall x0 y0 x1 y1 P0 Q0 P1 Q1 d,
    near x0 P0 (epsd d) -> near x1 P1 (epsd d) -> near y0 Q0 E0 -> near y1 Q1 E0 ->
    (Z.abs P0 + Z.abs P1 = 1)%Z -> (Z.abs Q0 + Z.abs Q1 = 1)%Z -> (0 <= d <= 2 ^ 30)%Z ->
    exists r, dot2 x0 y0 x1 y1 = Some r /\ near r (P0 * Q0 + P1 * Q1) (epsd (d + 1)).
Proof.
  intros x0 y0 x1 y1 P0 Q0 P1 Q1 d Hx0 Hx1 Hy0 Hy1 HP HQ Hd.
  assert (Hd0 : inject_Z 0 <= inject_Z d) by (apply inject_Z_le_num; lia).
  assert (Hd1 : inject_Z d <= inject_Z (2 ^ 30)) by (apply inject_Z_le_num; lia).
  change (inject_Z 0) with 0 in Hd0. change (inject_Z (2 ^ 30)) with (1073741824 # 1) in Hd1.
  destruct (dot2_near_num x0 y0 x1 y1 P0 Q0 P1 Q1 (epsd d) E0 (E0 + epsd d + 2 * epsd d * E0) 1 1)
    as [r [Hr Hn]]; try assumption; try lia.
  - change (inject_Z 1) with 1. lra.
  - unfold epsd. lra.
  - exists r. split; [exact Hr|]. eapply near_weaken; [exact Hn|].
    unfold epsd. rewrite inject_Z_plus. change (inject_Z 1) with 1. lra.
Qed.

Local Open Scope Q_scope.

(** * the invariant along a chain *)
Record finv (L d : Z) (t : ftransform) (tz : Ztransform) : Prop := mkInv {
  i_sp : sperm tz;
  i_a00 : near (a00 t) (a00 tz) (epsd d);
  i_a01 : near (a01 t) (a01 tz) (epsd d);
  i_a10 : near (a10 t) (a10 tz) (epsd d);
  i_a11 : near (a11 t) (a11 tz) (epsd d);
  i_b0 : near (b0 t) (b0 tz) (deltad L d);
  i_b1 : near (b1 t) (b1 tz) (deltad L d);
  i_z0 : (Z.abs (b0 tz) <= d * L)%Z;
  i_z1 : (Z.abs (b1 tz) <= d * L)%Z }.

(** what is needed of the transform of one placement *)
Record child_ok (L : Z) (it : ftransform) (iz : Ztransform) : Prop := mkChild {
  c_sp : sperm iz;
  c_a00 : near (a00 it) (a00 iz) E0;
  c_a01 : near (a01 it) (a01 iz) E0;
  c_a10 : near (a10 it) (a10 iz) E0;
  c_a11 : near (a11 it) (a11 iz) E0;
  c_b0 : b0 it = (b0 iz, 0%Z);
  c_b1 : b1 it = (b1 iz, 0%Z);
  c_z0 : (Z.abs (b0 iz) <= L)%Z;
  c_z1 : (Z.abs (b1 iz) <= L)%Z }.

Lemma near_0 : forall e, 0 <= e -> near dzero 0 e.
Proof. intros e He. unfold near. rewrite val_zero. exact He. Qed.
Lemma near_1 : forall e, 0 <= e -> near done 1 e.
Proof. intros e He. unfold near. rewrite val_one. exact He. Qed.

Lemma inv_identity : forall L, finv L 0 identity_f identity_Z.
Proof.
  intro L.
  assert (He : 0 <= epsd 0) by (unfold Qle; vm_compute; discriminate).
  assert (Hd : 0 <= deltad L 0).
  { unfold deltad. change (inject_Z 0) with 0. setoid_replace ((5 # 4) * (0 * 0 * inject_Z L) * E1) with 0 by ring. apply Qle_refl. }
  constructor; cbn [identity_f identity_Z identity a00 a01 a10 a11 b0 b1 ZR k0 k1];
    try (apply near_0; assumption); try (apply near_1; assumption); try lia.
  unfold sperm; cbn; lia.
Qed.

(** the offsets: budget at the next depth *)
Definition step_ok (L d : Z) : Prop := (0 <= d /\ 1 <= L /\ 10 * (d + 1) * (d + 1) * L <= 2 ^ 52)%Z.

Lemma offset_step : forall L d x0 x1 pb P0 P1 PB c0 c1,
    step_ok L d ->
    near x0 P0 (epsd d) -> near x1 P1 (epsd d) -> near pb PB (deltad L d) ->
    (Z.abs P0 + Z.abs P1 = 1)%Z -> (Z.abs c0 <= L)%Z -> (Z.abs c1 <= L)%Z -> (Z.abs PB <= d * L)%Z ->
    exists r c, dot2 x0 (c0, 0%Z) x1 (c1, 0%Z) = Some r /\ fadd r pb = Some c /\
      near c (P0 * c0 + P1 * c1 + PB) (deltad L (d + 1)) /\
      (Z.abs (P0 * c0 + P1 * c1 + PB) <= (d + 1) * L)%Z.
Proof.
  intros L d x0 x1 pb P0 P1 PB c0 c1 [Hd0 [HL1 Hbud]] Hx0 Hx1 Hpb HP Hc0 Hc1 HPB.
  assert (HdL : (d * L <= 2 ^ 49)%Z) by nia.
  assert (HddL : (10 * (d * d * L) <= 2 ^ 52)%Z) by nia.
  assert (HLb : (L <= 2 ^ 49)%Z) by nia.
  assert (Q1 : 0 <= inject_Z d) by (change 0 with (inject_Z 0); apply inject_Z_le_num; lia).
  assert (Q2 : 1 <= inject_Z L) by (change 1 with (inject_Z 1); apply inject_Z_le_num; lia).
  assert (Q3 : inject_Z d * inject_Z L <= 562949953421312 # 1).
  { rewrite <- inject_Z_mult. change (562949953421312 # 1) with (inject_Z (2 ^ 49)). apply inject_Z_le_num. exact HdL. }
  assert (Q4 : 10 * (inject_Z d * inject_Z d * inject_Z L) <= 4503599627370496 # 1).
  { rewrite <- !inject_Z_mult. change 10 with (inject_Z 10). rewrite <- inject_Z_mult.
    change (4503599627370496 # 1) with (inject_Z (2 ^ 52)). apply inject_Z_le_num. exact HddL. }
  assert (Q5 : 0 <= inject_Z d * inject_Z L) by (apply Qmult_le_0_compat; lra).
  assert (Q6 : 0 <= inject_Z d * inject_Z d * inject_Z L) by (repeat apply Qmult_le_0_compat; lra).
  destruct (affine_near x0 x1 pb P0 P1 PB c0 c1 (epsd d) (deltad L d) L (d * L))
    as [r [c [Hr [Hc Hn]]]]; try assumption; try lia.
  - unfold epsd. lra.
  - unfold deltad. lra.
  - exists r, c. split; [exact Hr|]. split; [exact Hc|]. split.
    + eapply near_weaken; [exact Hn|]. unfold epsd, deltad.
      rewrite inject_Z_plus, inject_Z_mult. change (inject_Z 1) with 1. lra.
    + pose proof (sign_unit_dot P0 P1 c0 c1 L HP Hc0 Hc1). lia.
Qed.

Ltac zr := cbn [a00 a01 a10 a11 b0 b1 fst snd ZR kadd kmul ksub kopp k0 k1].

Lemma cascade_step : forall L d t tz it iz,
    step_ok L d -> finv L d t tz -> child_ok L it iz ->
    exists t', cascade_f t it = Some t' /\ finv L (d + 1) t' (cascade_Z tz iz).
Proof.
  intros L d t tz it iz Hok Hi Hc.
  destruct Hi as [Isp Ia00 Ia01 Ia10 Ia11 Ib0 Ib1 Iz0 Iz1].
  destruct Hc as [Csp Ca00 Ca01 Ca10 Ca11 Cb0 Cb1 Cz0 Cz1].
  pose proof (sperm_cascade tz iz Isp Csp) as Hsp'.
  destruct Isp as [R0 [R1 [K0 K1]]]. destruct Csp as [S0 [S1 [T0 T1]]].
  assert (Hd : (0 <= d <= 2 ^ 30)%Z).
  { clear - Hok. destruct Hok as [Hd0 [HL1 Hb]]. split; [exact Hd0|].
    destruct (Z.le_gt_cases d (2 ^ 30)) as [Hle | Hgt]; [exact Hle | exfalso].
    assert (H1 : (2 ^ 30 * 2 ^ 30 <= (d + 1) * (d + 1))%Z) by (apply Z.mul_le_mono_nonneg; lia).
    assert (H2 : ((d + 1) * (d + 1) * 1 <= (d + 1) * (d + 1) * L)%Z) by (apply Z.mul_le_mono_nonneg_l; lia).
    lia. }
  unfold cascade_f, matvec_f, matmul_f. cbn [fst snd]. rewrite Cb0, Cb1.
  destruct (offset_step L d _ _ _ _ _ _ (b0 iz) (b1 iz) Hok Ia00 Ia01 Ib0 R0 Cz0 Cz1 Iz0)
    as [r0 [c0 [Hr0 [Hc0 [Hn0 Hz0]]]]].
  destruct (offset_step L d _ _ _ _ _ _ (b0 iz) (b1 iz) Hok Ia10 Ia11 Ib1 R1 Cz0 Cz1 Iz1)
    as [r1 [c1 [Hr1 [Hc1 [Hn1 Hz1]]]]].
  rewrite Hr0, Hr1. cbn [fst snd]. rewrite Hc0, Hc1.
  destruct (matmul_entry _ _ _ _ _ _ _ _ d Ia00 Ia01 Ca00 Ca10 R0 T0 Hd) as [m00 [Hm00 Hn00]].
  destruct (matmul_entry _ _ _ _ _ _ _ _ d Ia00 Ia01 Ca01 Ca11 R0 T1 Hd) as [m01 [Hm01 Hn01]].
  destruct (matmul_entry _ _ _ _ _ _ _ _ d Ia10 Ia11 Ca00 Ca10 R1 T0 Hd) as [m10 [Hm10 Hn10]].
  destruct (matmul_entry _ _ _ _ _ _ _ _ d Ia10 Ia11 Ca01 Ca11 R1 T1 Hd) as [m11 [Hm11 Hn11]].
  rewrite Hm00, Hm01, Hm10, Hm11.
  eexists. split; [reflexivity|].
  destruct tz as [p00 p01 p10 p11 pb0 pb1]. destruct iz as [q00 q01 q10 q11 qb0 qb1].
  unfold cascade_Z, cascade, matmul, matvec in *. zr. cbn [a00 a01 a10 a11 b0 b1 fst snd] in *.
  constructor; zr; try assumption.
Qed.

(** * the final coordinate *)

Lemma coord_exact : forall D L X d x0 x1 pb P0 P1 PB x y,
    drift_budget D L X -> (0 <= d <= D)%Z ->
    near x0 P0 (epsd d) -> near x1 P1 (epsd d) -> near pb PB (deltad L d) ->
    (Z.abs P0 + Z.abs P1 = 1)%Z -> (Z.abs x <= X)%Z -> (Z.abs y <= X)%Z -> (Z.abs PB <= d * L)%Z ->
    exists r c, dot2 x0 (x, 0%Z) x1 (y, 0%Z) = Some r /\ fadd r pb = Some c /\
      as_isize (f_round c) = (P0 * x + P1 * y + PB)%Z.
Proof.
  intros D L X d x0 x1 pb P0 P1 PB x y [HD0 [HL1 [HX1 Hbud]]] Hd Hx0 Hx1 Hpb HP Hx Hy HPB.
  assert (Hmono : (10 * d * d * L + d * L + 16 * X * d + 4 * X + 4 <= 2 ^ 52)%Z).
  { assert (H1 : (d * d <= D * D)%Z) by (apply Z.mul_le_mono_nonneg; lia).
    assert (H2 : (d * d * L <= D * D * L)%Z) by (apply Z.mul_le_mono_nonneg_r; lia).
    assert (H3 : (d * L <= D * L)%Z) by (apply Z.mul_le_mono_nonneg_r; lia).
    assert (H4 : (X * d <= X * D)%Z) by (apply Z.mul_le_mono_nonneg_l; lia).
    lia. }
  assert (HXb : (X <= 2 ^ 50)%Z) by nia.
  assert (HdL : (d * L <= 2 ^ 52)%Z) by nia.
  assert (Q1 : 0 <= inject_Z d) by (change 0 with (inject_Z 0); apply inject_Z_le_num; lia).
  assert (Q2 : 1 <= inject_Z L) by (change 1 with (inject_Z 1); apply inject_Z_le_num; lia).
  assert (Q3 : 1 <= inject_Z X) by (change 1 with (inject_Z 1); apply inject_Z_le_num; lia).
  assert (Q4 : 10 * (inject_Z d * inject_Z d * inject_Z L) + inject_Z d * inject_Z L
               + 16 * (inject_Z X * inject_Z d) + 4 * inject_Z X + 4 <= 4503599627370496 # 1).
  { rewrite <- !inject_Z_mult. change 10 with (inject_Z 10). change 16 with (inject_Z 16).
    change 4 with (inject_Z 4). rewrite <- !inject_Z_mult, <- !inject_Z_plus.
    change (4503599627370496 # 1) with (inject_Z (2 ^ 52)). apply inject_Z_le_num. lia. }
  assert (Q5 : 0 <= inject_Z d * inject_Z L) by (apply Qmult_le_0_compat; lra).
  assert (Q6 : 0 <= inject_Z d * inject_Z d * inject_Z L) by (repeat apply Qmult_le_0_compat; lra).
  assert (Q7 : 0 <= inject_Z X * inject_Z d) by (apply Qmult_le_0_compat; lra).
  assert (Q8 : inject_Z X * inject_Z d <= 281474976710656 # 1).
  { rewrite <- inject_Z_mult. change (281474976710656 # 1) with (inject_Z (2 ^ 48)). apply inject_Z_le_num.
    assert (H1 : (X * d <= X * D)%Z) by (apply Z.mul_le_mono_nonneg_l; lia).
    assert (H2 : (0 <= D * D * L)%Z) by (repeat apply Z.mul_nonneg_nonneg; lia).
    assert (H3 : (0 <= D * L)%Z) by (apply Z.mul_nonneg_nonneg; lia).
    clear - H1 H2 H3 Hbud HX1 HD0 Hd. lia. }
  destruct (affine_near x0 x1 pb P0 P1 PB x y (epsd d) (deltad L d) X (d * L))
    as [r [c [Hr [Hc Hn]]]]; try assumption; try lia.
  - unfold epsd. lra.
  - unfold deltad. lra.
  - exists r, c. split; [exact Hr|]. split; [exact Hc|].
    assert (Hfr : f_round c = (P0 * x + P1 * y + PB)%Z).
    { apply f_round_near. eapply Qle_lt_trans; [exact Hn|]. unfold epsd, deltad.
      rewrite inject_Z_mult. lra. }
    rewrite Hfr. apply as_isize_id.
    pose proof (sign_unit_dot P0 P1 x y X HP Hx Hy). lia.
Qed.

Lemma apply_f_exact : forall D L X d t tz x y,
    drift_budget D L X -> (0 <= d <= D)%Z -> finv L d t tz -> (Z.abs x <= X)%Z -> (Z.abs y <= X)%Z ->
    apply_f t (x, y) = Some (apply_Z tz (x, y)).
Proof.
  intros D L X d t tz x y Hf Hd Hi Hx Hy.
  destruct Hi as [Isp Ia00 Ia01 Ia10 Ia11 Ib0 Ib1 Iz0 Iz1]. destruct Isp as [R0 [R1 [K0 K1]]].
  assert (HXb : (X <= 2 ^ 50)%Z) by (clear - Hf; destruct Hf as [? [? [? ?]]]; nia).
  unfold apply_f. cbn [fst snd].
  rewrite (f_of_int_exact x), (f_of_int_exact y) by lia.
  destruct (coord_exact D L X d _ _ _ _ _ _ x y Hf Hd Ia00 Ia01 Ib0 R0 Hx Hy Iz0) as [r0 [c0 [Hr0 [Hc0 He0]]]].
  destruct (coord_exact D L X d _ _ _ _ _ _ x y Hf Hd Ia10 Ia11 Ib1 R1 Hx Hy Iz1) as [r1 [c1 [Hr1 [Hc1 He1]]]].
  rewrite Hr0, Hc0, Hr1, Hc1, He0, He1.
  destruct tz as [p00 p01 p10 p11 pb0 pb1]. unfold apply_Z, apply. zr. reflexivity.
Qed.

Local Open Scope Z_scope.

(** * the base matrices: checked against the regenerated libm table *)
Definition closeb (d : dy) (z : Z) : bool := Qle_bool (Qabs (qval d - inject_Z z)) E0.
Lemma closeb_near : forall d z, closeb d z = true -> near d z E0.
Proof. intros d z H. unfold near. apply Qle_bool_iff. exact H. Qed.

Definition unit_cs (C Sn : Z) : bool :=
  ((C =? 1) && (Sn =? 0)) || ((C =? 0) && (Sn =? 1)) || ((C =? -1) && (Sn =? 0)) || ((C =? 0) && (Sn =? -1)).
(** [sn], [cs]: the doubles; [C], [Sn]: the exact cosine and sine *)
Definition pair_ok (sn cs : dy) (C Sn : Z) : bool := closeb sn Sn && closeb cs C && unit_cs C Sn.

Definition entry_ok (e : Z * (Z * Z)) : bool :=
  let '(a, (sb, cb)) := e in
  match dy_of_bits sb, dy_of_bits cb, exact_cs a with
  | Some sn, Some cs, Some (C, Sn) => pair_ok sn cs C Sn
  | _, _, _ => false
  end.
Definition table_ok : bool := forallb entry_ok libm_sincos_table.
Lemma table_ok_true : table_ok = true.
Proof. vm_compute. reflexivity. Qed.

Lemma assocZ_in : forall {A} (l : list (Z * A)) a, In a (map fst l) -> exists v, assocZ a l = Some v /\ In (a, v) l.
Proof.
  induction l as [|[k v] l IH]; intros a Hin; cbn in *; [contradiction|].
  destruct (a =? k) eqn:E.
  - apply Z.eqb_eq in E; subst. exists v. split; [reflexivity | left; reflexivity].
  - destruct Hin as [<- | Hin]; [rewrite Z.eqb_refl in E; discriminate|].
    destruct (IH a Hin) as [w [Hw Hi]]. exists w. split; [exact Hw | right; exact Hi].
Qed.

Lemma table_angle : forall a, In a (map fst libm_sincos_table) ->
    exists sn cs C Sn, libm_sincos a = Some (sn, cs) /\ exact_cs a = Some (C, Sn) /\ pair_ok sn cs C Sn = true.
Proof.
  intros a Hin. destruct (assocZ_in _ a Hin) as [[sb cb] [Has Hi]].
  pose proof table_ok_true as Ht. unfold table_ok in Ht. rewrite forallb_forall in Ht.
  specialize (Ht _ Hi). unfold entry_ok in Ht. unfold libm_sincos. rewrite Has.
  destruct (dy_of_bits sb) as [sn|]; [|discriminate]. destruct (dy_of_bits cb) as [cs|]; [|discriminate].
  destruct (exact_cs a) as [[C Sn]|]; [|discriminate].
  exists sn, cs, C, Sn. repeat split; assumption.
Qed.

Lemma pair_ok_none : pair_ok dzero done 1 0 = true.
Proof. vm_compute. reflexivity. Qed.

(** the matrix part of a placement's transform, float and exact *)
Lemma child_of_pair : forall L lx ly (r : bool) sn cs C Sn,
    pair_ok sn cs C Sn = true -> Z.abs lx <= L -> Z.abs ly <= L ->
    child_ok L (if r then mkT cs sn sn (fneg cs) (lx, 0) (ly, 0) else mkT cs (fneg sn) sn cs (lx, 0) (ly, 0))
             (from_instance ZR lx ly r C Sn).
Proof.
  intros L lx ly r sn cs C Sn Hp Hlx Hly. unfold pair_ok in Hp.
  apply andb_prop in Hp. destruct Hp as [Hp Hu]. apply andb_prop in Hp. destruct Hp as [Hs Hc].
  apply closeb_near in Hs. apply closeb_near in Hc.
  pose proof (near_fneg _ _ _ Hs) as Hns. pose proof (near_fneg _ _ _ Hc) as Hnc.
  assert (Hsp : Z.abs C + Z.abs Sn = 1).
  { unfold unit_cs in Hu. repeat (apply orb_prop in Hu; destruct Hu as [Hu | Hu]);
      apply andb_prop in Hu; destruct Hu as [H1 H2]; apply Z.eqb_eq in H1; apply Z.eqb_eq in H2; subst; reflexivity. }
  destruct r; unfold from_instance; constructor; zr; try assumption; try reflexivity;
    unfold sperm; zr; lia.
Qed.


Lemma placement_child : forall L p, L < 2 ^ 53 -> placement_ok L p ->
    exists it z, from_placement_f p = Some it /\ zplacement_of p = Some z /\ child_ok L it (from_placement_Z z).
Proof.
  intros L [[[lx ly] r] oa] HL [Hlx [Hly Ha]].
  unfold from_placement_f, from_placement_gen, zplacement_of.
  destruct oa as [a|].
  - destruct (table_angle a Ha) as [sn [cs [C [Sn [Hl [He Hp]]]]]]. rewrite Hl, He.
    unfold from_instance_f. rewrite (f_of_int_exact lx), (f_of_int_exact ly) by lia.
    cbn [sincos_of]. eexists. eexists. split; [reflexivity|]. split; [reflexivity|].
    unfold from_placement_Z, from_placement, from_instance_opt, cs_of. cbn [fst snd].
    apply child_of_pair; assumption.
  - unfold from_instance_f. rewrite (f_of_int_exact lx), (f_of_int_exact ly) by lia.
    cbn [sincos_of]. eexists. eexists. split; [reflexivity|]. split; [reflexivity|].
    unfold from_placement_Z, from_placement, from_instance_opt, cs_of. cbn [fst snd ZR k0 k1].
    apply child_of_pair; try assumption. exact pair_ok_none.
Qed.

(** * chains *)

Lemma chain_inv : forall D L X chain d t tz,
    drift_budget D L X -> finv L d t tz -> 0 <= d -> d + Z.of_nat (length chain) <= D ->
    Forall (placement_ok L) chain ->
    exists zc t', zchain_of chain = Some zc /\ chain_f t chain = Some t' /\
                  finv L (d + Z.of_nat (length chain)) t' (chain_Z tz zc).
Proof.
  intros D L X chain. induction chain as [|p chain IH]; intros d t tz Hf Hi Hd Hlen Hall.
  - exists [], t. cbn [length Z.of_nat zchain_of chain_f chain_Z]. replace (d + 0) with d by lia. split; [reflexivity|]. split; [reflexivity | exact Hi].
  - inversion Hall as [|p' l' Hp Hrest]; subst.
    cbn [length] in Hlen. rewrite Nat2Z.inj_succ in Hlen.
    assert (HL : L < 2 ^ 53) by (destruct Hf as [? [? [? ?]]]; nia).
    assert (Hok : step_ok L d) by (destruct Hf as [? [? [? ?]]]; unfold step_ok; repeat split; try lia; nia).
    destruct (placement_child L p HL Hp) as [it [z [Hit [Hz Hc]]]].
    destruct (cascade_step L d t tz it (from_placement_Z z) Hok Hi Hc) as [t1 [Ht1 Hi1]].
    destruct (IH (d + 1) t1 (cascade_Z tz (from_placement_Z z)) Hf Hi1 ltac:(lia) ltac:(lia) Hrest)
      as [zc [t' [Hzc [Ht' Hi']]]].
    exists (z :: zc), t'. cbn [zchain_of chain_f chain_Z length]. rewrite Hz, Hzc, Hit, Ht1.
    split; [reflexivity|]. split; [exact Ht'|].
    rewrite Nat2Z.inj_succ. replace (d + Z.succ (Z.of_nat (length chain))) with (d + 1 + Z.of_nat (length chain)) by lia.
    exact Hi'.
Qed.

(** no drift: the float result is the exact integer image *)
Lemma chain_exact_Z : forall D L X chain x y,
    drift_budget D L X -> Z.of_nat (length chain) <= D -> Forall (placement_ok L) chain ->
    Z.abs x <= X -> Z.abs y <= X ->
    exists zc t, zchain_of chain = Some zc /\ chain_f identity_f chain = Some t /\
                 apply_f t (x, y) = Some (apply_Z (chain_Z identity_Z zc) (x, y)).
Proof.
  intros D L X chain x y Hf Hlen Hall Hx Hy.
  destruct (chain_inv D L X chain 0 identity_f identity_Z Hf (inv_identity L) ltac:(lia) ltac:(lia) Hall)
    as [zc [t [Hzc [Ht Hi]]]].
  exists zc, t. split; [exact Hzc|]. split; [exact Ht|].
  apply (apply_f_exact D L X (0 + Z.of_nat (length chain))); try assumption. lia.
Qed.

(** * ... which is the specification's image *)

Lemma chain_Z_along : forall zc t, chain_Z t zc = along ZR t zc.
Proof. induction zc as [|z zc IH]; intro t; cbn; [reflexivity|]. rewrite IH. reflexivity. Qed.

Lemma zplacement_spec : forall p z, zplacement_of p = Some z ->
    exists s, spec_placement_of p = Some s /\ forall v, apply_Z (from_placement_Z z) v = place_pt s v.
Proof.
  intros [[[lx ly] r] oa] z Hz. unfold zplacement_of in Hz. unfold spec_placement_of.
  destruct oa as [a|].
  - destruct (exact_cs a) as [cs|] eqn:Ecs; [|discriminate]. injection Hz as <-.
    assert (Hq : exists q, quarters_of a = Some q).
    { unfold exact_cs in Ecs. unfold quarters_of. destruct (a mod 90 =? 0); [eexists; reflexivity | discriminate]. }
    destruct Hq as [q Hq]. rewrite Hq. eexists. split; [reflexivity|]. intro v.
    exact (from_instance_Z_spec lx ly r a cs q v Ecs Hq).
  - injection Hz as <-. eexists. split; [reflexivity|]. intro v.
    exact (from_instance_Z_spec_noangle lx ly r v).
Qed.

Lemma zchain_spec : forall chain zc, zchain_of chain = Some zc ->
    exists sp, spec_path_of chain = Some sp /\
               forall v, apply_Z (chain_Z identity_Z zc) v = path_image sp v.
Proof.
  intros chain zc Hzc.
  assert (H : exists sp, spec_path_of chain = Some sp /\
                         forall v, path_map ZR zc v = path_image sp v).
  { revert zc Hzc. induction chain as [|p chain IH]; intros zc Hzc; cbn in Hzc.
    - injection Hzc as <-. exists []. split; [reflexivity|]. intro v. reflexivity.
    - destruct (zplacement_of p) as [z|] eqn:Ez; [|discriminate].
      destruct (zchain_of chain) as [zr|] eqn:Ezr; [|discriminate]. injection Hzc as <-.
      destruct (zplacement_spec p z Ez) as [s [Hs Hsv]]. destruct (IH zr eq_refl) as [sr [Hsr Hrv]].
      exists (s :: sr). cbn [spec_path_of]. rewrite Hs, Hsr. split; [reflexivity|].
      intro v. unfold path_map, path_image in *. cbn [fold_right]. rewrite Hrv. apply Hsv. }
  destruct H as [sp [Hsp Hv]]. exists sp. split; [exact Hsp|]. intro v.
  rewrite chain_Z_along. unfold apply_Z, identity_Z. rewrite (along_identity_apply ZR ZRth). apply Hv.
Qed.

Theorem chain_exact : forall D L X chain x y,
    drift_budget D L X -> Z.of_nat (length chain) <= D -> Forall (placement_ok L) chain ->
    Z.abs x <= X -> Z.abs y <= X ->
    exists sp t, spec_path_of chain = Some sp /\ chain_f identity_f chain = Some t /\
                 apply_f t (x, y) = Some (path_image sp (x, y)).
Proof.
  intros D L X chain x y Hf Hlen Hall Hx Hy.
  destruct (chain_exact_Z D L X chain x y Hf Hlen Hall Hx Hy) as [zc [t [Hzc [Ht Ha]]]].
  destruct (zchain_spec chain zc Hzc) as [sp [Hsp Hv]].
  exists sp, t. split; [exact Hsp|]. split; [exact Ht|]. rewrite Ha, Hv. reflexivity.
Qed.


(** * concrete budgets *)
Lemma drift_budget_20 : drift_budget 20 (2 ^ 40) (2 ^ 31).
Proof. unfold drift_budget. lia. Qed.
Lemma drift_budget_1024 : drift_budget 1024 (2 ^ 28) (2 ^ 31).
Proof. unfold drift_budget. lia. Qed.

(** * the depth bound cannot be dropped *)
Lemma drift_check_true : drift_check = true.
Proof. vm_compute. reflexivity. Qed.

Lemma assocZ_some_in : forall {A} (l : list (Z * A)) a v, assocZ a l = Some v -> In a (map fst l).
Proof.
  induction l as [|[k w] l IH]; intros a v H; cbn in *; [discriminate|].
  destruct (a =? k) eqn:E; [left; symmetry; apply Z.eqb_eq; exact E | right; exact (IH a v H)].
Qed.

Lemma image_is_true : forall r x y, image_is r x y = true -> r = Some (x, y).
Proof.
  intros [[a b]|] x y H; cbn in H; [|discriminate].
  apply andb_prop in H. destruct H as [H1 H2]. apply Z.eqb_eq in H1. apply Z.eqb_eq in H2. subst. reflexivity.
Qed.

Lemma table360_in : table360_as_seen = true -> In 360 (map fst libm_sincos_table).
Proof.
  unfold table360_as_seen. destruct (assocZ 360 libm_sincos_table) as [v|] eqn:E; [|discriminate].
  intros _. exact (assocZ_some_in _ _ _ E).
Qed.

Lemma drift_at_depth_62 :
  table360_as_seen = true ->
  Forall (placement_ok (2 ^ 40)) (drift_chain 62) /\
  exists sp, spec_path_of (drift_chain 62) = Some sp /\ path_image sp (0, 0) = (0, 62 * 2 ^ 40) /\
             chain_image_f (drift_chain 61) (0, 0) = Some (0, 61 * 2 ^ 40) /\
             chain_image_f (drift_chain 62) (0, 0) = Some (1, 62 * 2 ^ 40).
Proof.
  intro H. split.
  - apply Forall_forall. intros p Hp. apply repeat_spec in Hp. subst p.
    unfold placement_ok. split; [lia|]. split; [lia|]. exact (table360_in H).
  - pose proof drift_check_true as C. unfold drift_check in C. rewrite H in C.
    apply andb_prop in C. destruct C as [C1 C2].
    apply image_is_true in C1. apply image_is_true in C2.
    eexists. split; [vm_compute; reflexivity|]. split; [vm_compute; reflexivity|].
    split; assumption.
Qed.

(** the theorem in terms of [chain_image_f] *)
Theorem chain_image_exact : forall D L X chain x y,
    drift_budget D L X -> Z.of_nat (length chain) <= D -> Forall (placement_ok L) chain ->
    Z.abs x <= X -> Z.abs y <= X ->
    exists sp, spec_path_of chain = Some sp /\ chain_image_f chain (x, y) = Some (path_image sp (x, y)).
Proof.
  intros D L X chain x y Hf Hlen Hall Hx Hy.
  destruct (chain_exact D L X chain x y Hf Hlen Hall Hx Hy) as [sp [t [Hsp [Ht Ha]]]].
  exists sp. split; [exact Hsp|]. unfold chain_image_f. rewrite Ht. exact Ha.
Qed.

Lemma chain_image_exact_20 : forall (chain : list fplacement) (x y : Z),
    (length chain <= 20)%nat -> Forall (placement_ok (2 ^ 40)) chain ->
    Z.abs x <= 2 ^ 31 -> Z.abs y <= 2 ^ 31 ->
    exists sp, spec_path_of chain = Some sp /\ chain_image_f chain (x, y) = Some (path_image sp (x, y)).
Proof.
  intros chain x y Hlen. apply (chain_image_exact 20 (2 ^ 40) (2 ^ 31)); [exact drift_budget_20|].
  apply (Nat2Z.inj_le _ 20). exact Hlen.
Qed.

Lemma chain_image_exact_1024 : forall (chain : list fplacement) (x y : Z),
    (length chain <= 1024)%nat -> Forall (placement_ok (2 ^ 28)) chain ->
    Z.abs x <= 2 ^ 31 -> Z.abs y <= 2 ^ 31 ->
    exists sp, spec_path_of chain = Some sp /\ chain_image_f chain (x, y) = Some (path_image sp (x, y)).
Proof.
  intros chain x y Hlen. apply (chain_image_exact 1024 (2 ^ 28) (2 ^ 31)); [exact drift_budget_1024|].
  apply (Nat2Z.inj_le _ 1024). exact Hlen.
Qed.

(** * non-vacuity: depth 3, locations and point near 2^31 *)
Lemma chain_nonvacuous :
  let chain := [(2 ^ 31 - 5, - 2 ^ 31 + 7, true, Some 90); (123456789, - 2 ^ 31, false, Some (-270));
                (- 2 ^ 31 + 1, 2 ^ 31 - 1, true, Some 180)] in
  let sp := [(2147483643, -2147483641, true, 1%nat); (123456789, -2147483648, false, 1%nat);
             (-2147483647, 2147483647, true, 2%nat)] in
  drift_budget 20 (2 ^ 40) (2 ^ 31) /\ (length chain <= 20)%nat /\ Forall (placement_ok (2 ^ 40)) chain /\
  spec_path_of chain = Some sp /\
  path_image sp (2 ^ 31 - 1, - 2 ^ 31) = (-4294967299, -2024026851) /\
  chain_image_f chain (2 ^ 31 - 1, - 2 ^ 31) = Some (-4294967299, -2024026851).
Proof.
  cbv zeta. split; [exact drift_budget_20|]. split; [cbn; repeat constructor|].
  split.
  - apply Forall_cons; [|apply Forall_cons; [|apply Forall_cons; [|apply Forall_nil]]];
      unfold placement_ok; (split; [lia|]; split; [lia|]); cbn; intuition.
  - vm_compute. repeat split; reflexivity.
Qed.

(** * flatten: the whole hierarchy *)
Fixpoint zlayout_insts (is : list (fplacement * option (layout fplacement (Z * Z))))
  : option (list (placement Z * option (layout (placement Z) (Z * Z)))) :=
  match is with
  | [] => Some []
  | (p, oc) :: rest =>
    match zplacement_of p,
          match oc with
          | None => Some None
          | Some c => match zlayout_of c with Some c' => Some (Some c') | None => None end
          end,
          zlayout_insts rest with
    | Some z, Some oc', Some rest' => Some ((z, oc') :: rest')
    | _, _, _ => None
    end
  end.
Lemma zlayout_of_eq : forall es insts,
    zlayout_of (Layout es insts) =
    match zlayout_insts insts with Some i' => Some (Layout es i') | None => None end.
Proof. reflexivity. Qed.

Definition insts_ok (L X : Z) (n : nat) : list (fplacement * option (layout fplacement (Z * Z))) -> Prop :=
  fix go (is : list (fplacement * option (layout fplacement (Z * Z)))) : Prop :=
  match is with
  | [] => True
  | (p, oc) :: rest =>
    placement_ok L p /\
    match oc with
    | None => True
    | Some c => match n with O => False | S k => layout_ok L X c k end
    end /\ go rest
  end.
Lemma insts_ok_cons : forall L X n p oc rest,
    insts_ok L X n ((p, oc) :: rest) =
    (placement_ok L p /\
     match oc with
     | None => True
     | Some c => match n with O => False | S k => layout_ok L X c k end
     end /\ insts_ok L X n rest).
Proof. reflexivity. Qed.
Lemma layout_ok_eq : forall L X es insts n,
    layout_ok L X (Layout es insts) n = (Forall (elem_within X) es /\ insts_ok L X n insts).
Proof. reflexivity. Qed.

Section PointwiseMap.
  Variable f : Z * Z -> option (Z * Z).
  Variable g : Z * Z -> Z * Z.
  Variable P : Z * Z -> Prop.
  Hypothesis Hfg : forall v, P v -> f v = Some (g v).
  Lemma map_opt_pointwise : forall l, Forall P l -> map_opt f l = Some (map g l).
  Proof.
    induction l as [|p l IH]; intro H; cbn; [reflexivity|].
    inversion H as [|? ? Hp Hl]; subst. rewrite (Hfg p Hp), (IH Hl). reflexivity.
  Qed.
  Lemma elems_transform_pointwise : forall es,
      Forall (fun e => Forall P (shape_pts (snd e))) es ->
      elems_transform f es = Some (map (elem_map g) es).
  Proof.
    induction es as [|[tag s] es IH]; intro H; cbn [elems_transform map]; [reflexivity|].
    inversion H as [|? ? He Hes]; subst. rewrite (IH Hes).
    unfold elem_transform, elem_map; cbn [fst snd] in *.
    destruct s as [p0 p1 | pts | pts w]; cbn [shape_transform shape_map shape_pts] in *.
    - inversion He as [|? ? H0 H1']; subst. inversion H1' as [|? ? H1 _]; subst.
      rewrite (Hfg p0 H0), (Hfg p1 H1). reflexivity.
    - rewrite (map_opt_pointwise pts He). reflexivity.
    - rewrite (map_opt_pointwise pts He). reflexivity.
  Qed.
End PointwiseMap.

Lemma placement_z : forall L p, placement_ok L p -> exists z, zplacement_of p = Some z.
Proof.
  intros L [[[lx ly] r] oa] [_ [_ Ha]]. unfold zplacement_of. destruct oa as [a|]; [|eexists; reflexivity].
  destruct (table_angle a Ha) as [sn [cs [C [Sn [_ [He _]]]]]]. rewrite He. eexists; reflexivity.
Qed.

Lemma flatten_helper_f_exact : forall D L X, drift_budget D L X ->
    forall (l : layout fplacement (Z * Z)) n d t tz,
      finv L d t tz -> 0 <= d -> d + Z.of_nat n <= D -> layout_ok L X l n ->
      exists zl, zlayout_of l = Some zl /\ flatten_helper_f l t = flatten_helper_K ZR zl tz.
Proof.
  intros D L X Hf l. induction l as [es insts IH] using layout_induction.
  intros n d t tz Hi Hd Hn Hok. rewrite layout_ok_eq in Hok. destruct Hok as [Hes His].
  rewrite zlayout_of_eq. unfold flatten_helper_f, flatten_helper_K.
  assert (Hins : exists zi, zlayout_insts insts = Some zi /\
                 flatten_insts cascade_f from_placement_f apply_f t insts =
                 flatten_insts (fun p q => Some (cascade ZR p q)) (fun p => Some (from_placement ZR p))
                               (fun t v => Some (apply ZR t v)) tz zi).
  { clear Hes. induction insts as [|[p oc] rest IHr]; cbn [zlayout_insts] in *.
    - exists []. split; reflexivity.
    - rewrite insts_ok_cons in His. destruct His as [Hp [Hc Hrest]]. inversion IH as [|? ? Hsub IHrest]; subst.
      destruct (IHr IHrest Hrest) as [zr [Hzr Hfr]].
      destruct oc as [c|].
      + destruct n as [|k]; [contradiction|].
        rewrite Nat2Z.inj_succ in Hn.
        assert (HL : L < 2 ^ 53) by (destruct Hf as [? [? [? ?]]]; nia).
        destruct (placement_child L p HL Hp) as [it [z [Hit [Hz Hch]]]].
        rewrite Hz, Hzr.
        assert (Hstep : step_ok L d).
        { destruct Hf as [? [? [? ?]]]. unfold step_ok. repeat split; try lia. nia. }
        destruct (cascade_step L d t tz it (from_placement_Z z) Hstep Hi Hch) as [t1 [Ht1 Hi1]].
        unfold sub_ok in Hsub; cbn [snd] in Hsub.
        destruct (Hsub k (d + 1) t1 (cascade_Z tz (from_placement_Z z)) Hi1 ltac:(lia) ltac:(lia) Hc)
          as [zc [Hzc Hfc]].
        rewrite Hzc. eexists. split; [reflexivity|].
        rewrite !flatten_insts_cons. rewrite Hit, Ht1.
        unfold flatten_helper_f, flatten_helper_K in Hfc. rewrite Hfc, Hfr. reflexivity.
      + destruct (placement_z L p Hp) as [z Hz]. rewrite Hz, Hzr.
        eexists. split; [reflexivity|]. rewrite !flatten_insts_cons. reflexivity. }
  destruct Hins as [zi [Hzi Hfi]]. rewrite Hzi. eexists. split; [reflexivity|].
  rewrite !flatten_helper_eq.
  rewrite (elems_transform_pointwise (apply_f t) (apply ZR tz) (pt_within X)).
  - rewrite elems_transform_total, Hfi. reflexivity.
  - intros [x y] [Hx Hy]. cbn [fst snd] in *.
    apply (apply_f_exact D L X d); try assumption. lia.
  - exact Hes.
Qed.

Theorem flatten_f_exact : forall (D : nat) L X l,
    drift_budget (Z.of_nat D) L X -> layout_ok L X l D ->
    exists zl, zlayout_of l = Some zl /\ flatten_f l = flatten_K ZR zl.
Proof.
  intros D L X l Hf Hok.
  apply (flatten_helper_f_exact (Z.of_nat D) L X Hf l D 0 identity_f identity_Z (inv_identity L)); try lia.
  exact Hok.
Qed.

Theorem flatten_f_paths : forall (D : nat) L X l,
    drift_budget (Z.of_nat D) L X -> layout_ok L X l D ->
    exists zl, zlayout_of l = Some zl /\
      flatten_f l =
      match paths zl with
      | Some ps => Ok (map (fun pe => elem_map (path_map ZR (fst pe)) (snd pe)) ps)
      | None => Panic
      end.
Proof.
  intros D L X l Hf Hok. destruct (flatten_f_exact D L X l Hf Hok) as [zl [Hzl Hfl]].
  exists zl. split; [exact Hzl|]. rewrite Hfl. exact (flatten_is_path_composition ZR ZRth zl).
Qed.

Lemma flatten_f_no_drift : forall (D : nat) (L X : Z) (l : layout fplacement (Z * Z)),
    drift_budget (Z.of_nat D) L X -> layout_ok L X l D ->
    exists zl, zlayout_of l = Some zl /\ flatten_f l = flatten_K ZR zl /\
      flatten_f l =
      match paths zl with
      | Some ps => Ok (map (fun pe => elem_map (path_map ZR (fst pe)) (snd pe)) ps)
      | None => Panic
      end.
Proof.
  intros D L X l Hb Hok. destruct (flatten_f_exact D L X l Hb Hok) as [zl [Hzl Hfl]].
  exists zl. split; [exact Hzl|]. split; [exact Hfl|].
  rewrite Hfl. exact (flatten_is_path_composition ZR ZRth zl).
Qed.

(** non-vacuity: a hierarchy of depth 2 with locations and points up to 2^31 *)
Lemma flatten_nonvacuous :
  let l := Layout [(7, Rect (0, 0) (3, 1))]
             [((2 ^ 31 - 1, - 2 ^ 31, true, Some 90),
               Some (Layout [(8, Polygon [(3, 1); (0, 2 ^ 31)])]
                            [((1, 1, false, Some (-180)), Some (Layout [(9, Path [(1, 0)] 5)] []));
                             ((- 2 ^ 30, 5, true, None),
                              Some (Layout [(10, Rect (-7, 2) (2 ^ 20, - 2 ^ 20))] []))]))] in
  drift_budget (Z.of_nat 2) (2 ^ 40) (2 ^ 31) /\ layout_ok (2 ^ 40) (2 ^ 31) l 2 /\
  flatten_f l = Ok [(7, Rect (0, 0) (3, 1));
                    (8, Polygon [(2147483648, -2147483645); (4294967295, -2147483648)]);
                    (9, Path [(2147483648, -2147483648)] 5);
                    (10, Rect (2147483650, -3221225479) (2148532228, -3220176896))].
Proof.
  cbv zeta. split; [unfold drift_budget; cbn [Z.of_nat Pos.of_succ_nat Pos.succ]; lia|]. split.
  - cbn [layout_ok]. unfold elem_within, pt_within, placement_ok; cbn [shape_pts fst snd].
    repeat match goal with
           | |- _ /\ _ => split
           | |- Forall _ _ => constructor
           | |- True => exact I
           | |- In _ _ => cbn; intuition
           | |- _ <= _ => cbn [fst snd]; lia
           end.
  - vm_compute. reflexivity.
Qed.

(** * Any depth, when the table is exact ([table_exactb]): every product and sum of [cascade] and
    of [Point::transform] is then an integer below 2^53 in magnitude, hence a double, hence not moved
    by the rounding -- the float transform IS the integer transform. *)
Local Open Scope Q_scope.
Definition exact (d : dy) (z : Z) : Prop := qval d == inject_Z z.

Lemma inject_Z_inj : forall a b, inject_Z a == inject_Z b -> a = b.
Proof. intros a b H. unfold Qeq in H. cbn in H. lia. Qed.

Lemma p2_neg_inv : forall e, p2 e * p2 (- e) == 1.
Proof. intro e. rewrite <- p2_add. replace (e + - e)%Z with 0%Z by lia. reflexivity. Qed.

Lemma dy_is_exact : forall d z, dy_is d z = true -> exact d z.
Proof.
  intros [m e] z H. unfold dy_is in H. unfold exact, qval; cbn [fst snd].
  destruct (0 <=? e)%Z eqn:Ee.
  - apply Z.leb_le in Ee. apply Z.eqb_eq in H. rewrite <- p2_Z, <- inject_Z_mult, H by lia. reflexivity.
  - apply Z.leb_gt in Ee. apply Z.eqb_eq in H. subst m.
    rewrite inject_Z_mult, p2_Z by lia.
    setoid_replace (inject_Z z * p2 (- e) * p2 e) with (inject_Z z * (p2 e * p2 (- e))) by ring.
    rewrite p2_neg_inv. ring.
Qed.

(** an integer below 2^53 in magnitude is a double: rounding does not move it *)
Lemma exact_Z_form : forall m e N, exact (m, e) N ->
    if (0 <=? e)%Z then (m * 2 ^ e = N)%Z else (m = N * 2 ^ (- e))%Z.
Proof.
  intros m e N H. unfold exact, qval in H; cbn [fst snd] in H.
  destruct (0 <=? e)%Z eqn:Ee.
  - apply Z.leb_le in Ee. rewrite <- p2_Z, <- inject_Z_mult in H by lia. apply inject_Z_inj. exact H.
  - apply Z.leb_gt in Ee. apply inject_Z_inj. rewrite inject_Z_mult, p2_Z by lia.
    rewrite <- H. setoid_replace (inject_Z m * p2 e * p2 (- e)) with (inject_Z m * (p2 e * p2 (- e))) by ring.
    rewrite p2_neg_inv. ring.
Qed.

Lemma bitlen_le : forall m k, (0 <= k)%Z -> (Z.abs m < 2 ^ k)%Z -> (bitlen m <= k)%Z.
Proof.
  intros m k Hk H. unfold bitlen. destruct (m =? 0)%Z eqn:E; [lia|]. apply Z.eqb_neq in E.
  assert (Z.log2 (Z.abs m) < k)%Z by (apply Z.log2_lt_pow2; lia). lia.
Qed.

Lemma round_flt_int : forall d N, exact d N -> (Z.abs N < 2 ^ 53)%Z -> exact (round_flt d) N.
Proof.
  intros [m e] N H HN. pose proof (exact_Z_form m e N H) as HZ. unfold round_flt.
  set (sh := Z.max (bitlen m - 53) (-1074 - e)).
  destruct (sh <=? 0)%Z eqn:Esh; [exact H|]. apply Z.leb_gt in Esh.
  destruct (0 <=? e)%Z eqn:Ee.
  - exfalso. apply Z.leb_le in Ee.
    assert (Hp : (0 < 2 ^ e)%Z) by (apply Z.pow_pos_nonneg; lia).
    assert (Hm : (Z.abs m < 2 ^ 53)%Z) by (subst N; rewrite Z.abs_mul in HN; nia).
    pose proof (bitlen_le m 53 ltac:(lia) Hm). lia.
  - apply Z.leb_gt in Ee. subst m.
    assert (Hpe : (0 < 2 ^ (- e))%Z) by (apply Z.pow_pos_nonneg; lia).
    assert (Hsh : (sh <= - e)%Z).
    { apply Z.max_lub; [|lia].
      assert (Hm : (Z.abs (N * 2 ^ (- e)) < 2 ^ (53 + - e))%Z).
      { rewrite Z.abs_mul, Z.pow_add_r, (Z.abs_eq (2 ^ (- e))) by lia. nia. }
      pose proof (bitlen_le _ (53 + - e) ltac:(lia) Hm). lia. }
    assert (Hsplit : (2 ^ (- e) = 2 ^ (- e - sh) * 2 ^ sh)%Z) by (rewrite <- Z.pow_add_r by lia; f_equal; lia).
    assert (Hd : (0 < 2 ^ sh)%Z) by (apply Z.pow_pos_nonneg; lia).
    assert (Hq : rne_shift (N * 2 ^ (- e)) sh = (N * 2 ^ (- e - sh))%Z).
    { unfold rne_shift. rewrite pow2_eq, divp2_eq, modp2_eq by lia.
      rewrite Hsplit, Z.mul_assoc, Z.mod_mul, Z.div_mul by lia.
      replace (2 * 0 <? 2 ^ sh)%Z with true by (symmetry; apply Z.ltb_lt; lia). reflexivity. }
    rewrite Hq. unfold exact, qval; cbn [fst snd].
    rewrite inject_Z_mult, p2_Z by lia. rewrite <- Qmult_assoc, <- p2_add.
    replace (- e - sh + (e + sh))%Z with 0%Z by lia. rewrite p2_0. ring.
Qed.

Lemma chk_round_int : forall d N, exact d N -> (Z.abs N < 2 ^ 53)%Z ->
    exists r, chk (round_flt d) = Some r /\ exact r N.
Proof.
  intros d N H HN. pose proof (round_flt_int d N H HN) as Hr. exists (round_flt d). split; [|exact Hr].
  unfold chk. rewrite finite_ok_of_bound; [reflexivity|]. unfold exact in Hr. rewrite Hr, Qabs_inject.
  apply Qlt_trans with (inject_Z (2 ^ 53)); [rewrite <- Zlt_Qlt; exact HN|]. unfold Qlt; vm_compute; reflexivity.
Qed.

Lemma fmul_int : forall a b A B, exact a A -> exact b B -> (Z.abs (A * B) < 2 ^ 53)%Z ->
    exists r, fmul a b = Some r /\ exact r (A * B).
Proof.
  intros a b A B Ha Hb H. unfold fmul. apply chk_round_int; [|exact H].
  unfold exact in *. rewrite val_mul_exact, Ha, Hb, inject_Z_mult. reflexivity.
Qed.
Lemma fadd_int : forall a b A B, exact a A -> exact b B -> (Z.abs (A + B) < 2 ^ 53)%Z ->
    exists r, fadd a b = Some r /\ exact r (A + B).
Proof.
  intros a b A B Ha Hb H. unfold fadd. apply chk_round_int; [|exact H].
  unfold exact in *. rewrite val_add_exact, Ha, Hb, inject_Z_plus. reflexivity.
Qed.

(** a signed unit row times an integer column, plus an integer: exact while below 2^53 *)
Lemma dot2_int : forall x0 x1 y0 y1 P0 P1 Y0 Y1,
    exact x0 P0 -> exact x1 P1 -> exact y0 Y0 -> exact y1 Y1 ->
    (Z.abs P0 + Z.abs P1 = 1)%Z -> (Z.abs Y0 < 2 ^ 53)%Z -> (Z.abs Y1 < 2 ^ 53)%Z ->
    exists r, dot2 x0 y0 x1 y1 = Some r /\ exact r (P0 * Y0 + P1 * Y1).
Proof.
  intros x0 x1 y0 y1 P0 P1 Y0 Y1 Hx0 Hx1 Hy0 Hy1 HP HY0 HY1.
  assert (C0 : (P0 = 0 \/ P0 = 1 \/ P0 = -1)%Z) by lia.
  assert (C1 : (P1 = 0 \/ P1 = 1 \/ P1 = -1)%Z) by lia.
  assert (H0 : (Z.abs (P0 * Y0) < 2 ^ 53)%Z) by (destruct C0 as [-> | [-> | ->]]; lia).
  assert (H1 : (Z.abs (P1 * Y1) < 2 ^ 53)%Z) by (destruct C1 as [-> | [-> | ->]]; lia).
  assert (Hs : (Z.abs (P0 * Y0 + P1 * Y1) < 2 ^ 53)%Z)
    by (destruct C0 as [-> | [-> | ->]]; destruct C1 as [-> | [-> | ->]]; lia).
  unfold dot2.
  destruct (fmul_int x0 y0 P0 Y0 Hx0 Hy0 H0) as [t0 [Ht0 He0]]. rewrite Ht0.
  destruct (fmul_int x1 y1 P1 Y1 Hx1 Hy1 H1) as [t1 [Ht1 He1]]. rewrite Ht1.
  exact (fadd_int t0 t1 _ _ He0 He1 Hs).
Qed.

Lemma affine_int : forall x0 x1 y0 y1 pb P0 P1 Y0 Y1 PB,
    exact x0 P0 -> exact x1 P1 -> exact y0 Y0 -> exact y1 Y1 -> exact pb PB ->
    (Z.abs P0 + Z.abs P1 = 1)%Z -> (Z.abs Y0 < 2 ^ 53)%Z -> (Z.abs Y1 < 2 ^ 53)%Z ->
    (Z.abs (P0 * Y0 + P1 * Y1 + PB) < 2 ^ 53)%Z ->
    exists r c, dot2 x0 y0 x1 y1 = Some r /\ fadd r pb = Some c /\ exact c (P0 * Y0 + P1 * Y1 + PB).
Proof.
  intros x0 x1 y0 y1 pb P0 P1 Y0 Y1 PB Hx0 Hx1 Hy0 Hy1 Hpb HP HY0 HY1 HB.
  destruct (dot2_int x0 x1 y0 y1 P0 P1 Y0 Y1 Hx0 Hx1 Hy0 Hy1 HP HY0 HY1) as [r [Hr Her]].
  destruct (fadd_int r pb _ _ Her Hpb HB) as [c [Hc Hec]].
  exists r, c. repeat split; assumption.
Qed.

Lemma exact_int : forall n, exact (n, 0%Z) n.
Proof. intro n. unfold exact. apply val_int. Qed.
Lemma exact_fneg : forall d z, exact d z -> exact (fneg d) (- z).
Proof. unfold exact. intros d z H. rewrite val_fneg, H, inject_Z_opp. reflexivity. Qed.
Lemma exact_zero : exact dzero 0. Proof. reflexivity. Qed.
Lemma exact_one : exact done 1. Proof. reflexivity. Qed.

Local Open Scope Z_scope.

(** * the exact invariant: the float transform IS the integer transform *)
Record xinv (t : ftransform) (tz : Ztransform) : Prop := mkXinv {
  x_sp : sperm tz;
  x_a00 : exact (a00 t) (a00 tz); x_a01 : exact (a01 t) (a01 tz);
  x_a10 : exact (a10 t) (a10 tz); x_a11 : exact (a11 t) (a11 tz);
  x_b0 : exact (b0 t) (b0 tz); x_b1 : exact (b1 t) (b1 tz);
  x_z0 : Z.abs (b0 tz) < 2 ^ 53; x_z1 : Z.abs (b1 tz) < 2 ^ 53 }.

Record xchild (L : Z) (it : ftransform) (iz : Ztransform) : Prop := mkXchild {
  xc_sp : sperm iz;
  xc_a00 : exact (a00 it) (a00 iz); xc_a01 : exact (a01 it) (a01 iz);
  xc_a10 : exact (a10 it) (a10 iz); xc_a11 : exact (a11 it) (a11 iz);
  xc_b0 : b0 it = (b0 iz, 0); xc_b1 : b1 it = (b1 iz, 0);
  xc_z0 : Z.abs (b0 iz) <= L; xc_z1 : Z.abs (b1 iz) <= L }.

Lemma xinv_identity : xinv identity_f identity_Z.
Proof.
  constructor; cbn [identity_f identity_Z identity a00 a01 a10 a11 b0 b1 ZR k0 k1];
    try exact exact_zero; try exact exact_one; try (cbn; lia).
  unfold sperm; cbn; lia.
Qed.

Lemma xcascade_step : forall L t tz it iz,
    L < 2 ^ 53 -> xinv t tz -> xchild L it iz ->
    Z.abs (b0 (cascade_Z tz iz)) < 2 ^ 53 -> Z.abs (b1 (cascade_Z tz iz)) < 2 ^ 53 ->
    exists t', cascade_f t it = Some t' /\ xinv t' (cascade_Z tz iz).
Proof.
  intros L t tz it iz HL Hi Hc HB0 HB1.
  destruct Hi as [Isp Ia00 Ia01 Ia10 Ia11 Ib0 Ib1 Iz0 Iz1].
  destruct Hc as [Csp Ca00 Ca01 Ca10 Ca11 Cb0 Cb1 Cz0 Cz1].
  pose proof (sperm_cascade tz iz Isp Csp) as Hsp'.
  destruct Isp as [R0 [R1 [K0 K1]]]. destruct Csp as [S0 [S1 [T0 T1]]].
  destruct tz as [p00 p01 p10 p11 pb0 pb1]. destruct iz as [q00 q01 q10 q11 qb0 qb1].
  unfold cascade_Z, cascade, matmul, matvec in *. zr. cbn [a00 a01 a10 a11 b0 b1 fst snd] in *.
  zr. cbn [a00 a01 a10 a11 b0 b1 fst snd ZR kadd kmul] in HB0, HB1.
  unfold cascade_f, matvec_f, matmul_f. cbn [fst snd]. rewrite Cb0, Cb1.
  assert (Hq0 : Z.abs qb0 < 2 ^ 53) by (clear - Cz0 HL; lia).
  assert (Hq1 : Z.abs qb1 < 2 ^ 53) by (clear - Cz1 HL; lia).
  assert (E00 : Z.abs q00 < 2 ^ 53) by (clear - T0; lia).
  assert (E10 : Z.abs q10 < 2 ^ 53) by (clear - T0; lia).
  assert (E01 : Z.abs q01 < 2 ^ 53) by (clear - T1; lia).
  assert (E11 : Z.abs q11 < 2 ^ 53) by (clear - T1; lia).
  destruct (affine_int _ _ _ _ _ _ _ _ _ _ Ia00 Ia01 (exact_int qb0) (exact_int qb1) Ib0 R0 Hq0 Hq1 HB0)
    as [r0 [c0 [Hr0 [Hc0 He0]]]].
  destruct (affine_int _ _ _ _ _ _ _ _ _ _ Ia10 Ia11 (exact_int qb0) (exact_int qb1) Ib1 R1 Hq0 Hq1 HB1)
    as [r1 [c1 [Hr1 [Hc1 He1]]]].
  rewrite Hr0, Hr1. cbn [fst snd]. rewrite Hc0, Hc1.
  destruct (dot2_int _ _ _ _ _ _ _ _ Ia00 Ia01 Ca00 Ca10 R0 E00 E10) as [m00 [Hm00 Hn00]].
  destruct (dot2_int _ _ _ _ _ _ _ _ Ia00 Ia01 Ca01 Ca11 R0 E01 E11) as [m01 [Hm01 Hn01]].
  destruct (dot2_int _ _ _ _ _ _ _ _ Ia10 Ia11 Ca00 Ca10 R1 E00 E10) as [m10 [Hm10 Hn10]].
  destruct (dot2_int _ _ _ _ _ _ _ _ Ia10 Ia11 Ca01 Ca11 R1 E01 E11) as [m11 [Hm11 Hn11]].
  rewrite Hm00, Hm01, Hm10, Hm11.
  eexists. split; [reflexivity|].
  constructor; cbn [a00 a01 a10 a11 b0 b1]; assumption.
Qed.

Lemma xapply : forall t tz x y,
    xinv t tz -> Z.abs x < 2 ^ 53 -> Z.abs y < 2 ^ 53 ->
    Z.abs (fst (apply_Z tz (x, y))) < 2 ^ 53 -> Z.abs (snd (apply_Z tz (x, y))) < 2 ^ 53 ->
    apply_f t (x, y) = Some (apply_Z tz (x, y)).
Proof.
  intros t tz x y Hi Hx Hy HX HY.
  destruct Hi as [Isp Ia00 Ia01 Ia10 Ia11 Ib0 Ib1 Iz0 Iz1]. destruct Isp as [R0 [R1 [K0 K1]]].
  destruct tz as [p00 p01 p10 p11 pb0 pb1]. unfold apply_Z, apply in *. zr. cbn [a00 a01 a10 a11 b0 b1 fst snd] in *.
  zr. cbn [fst snd ZR kadd kmul] in HX, HY.
  unfold apply_f. cbn [fst snd]. rewrite (f_of_int_exact x), (f_of_int_exact y) by assumption.
  destruct (affine_int _ _ _ _ _ _ _ _ _ _ Ia00 Ia01 (exact_int x) (exact_int y) Ib0 R0 Hx Hy HX) as [r0 [c0 [Hr0 [Hc0 He0]]]].
  destruct (affine_int _ _ _ _ _ _ _ _ _ _ Ia10 Ia11 (exact_int x) (exact_int y) Ib1 R1 Hx Hy HY) as [r1 [c1 [Hr1 [Hc1 He1]]]].
  rewrite Hr0, Hc0, Hr1, Hc1.
  assert (Hf : forall c N, exact c N -> Z.abs N < 2 ^ 53 -> as_isize (f_round c) = N).
  { intros c N He HN. rewrite (f_round_near c N).
    - apply as_isize_id. lia.
    - unfold exact in He. rewrite He. setoid_replace (inject_Z N - inject_Z N)%Q with 0%Q by ring. reflexivity. }
  rewrite (Hf _ _ He0 HX), (Hf _ _ He1 HY). reflexivity.
Qed.

Lemma exact_cs_unit : forall a C Sn, exact_cs a = Some (C, Sn) -> Z.abs C + Z.abs Sn = 1.
Proof.
  intros a C Sn H. unfold exact_cs in H. destruct (a mod 90 =? 0); [|discriminate].
  repeat match type of H with context [if ?b then _ else _] => destruct b end;
    injection H as <- <-; reflexivity.
Qed.

Lemma table_angle_exact : table_exactb = true -> forall a, In a (map fst libm_sincos_table) ->
    exists sn cs C Sn, libm_sincos a = Some (sn, cs) /\ exact_cs a = Some (C, Sn) /\ exact sn Sn /\ exact cs C.
Proof.
  intros Ht a Hin. destruct (assocZ_in _ a Hin) as [[sb cb] [Has Hi]].
  unfold table_exactb in Ht. rewrite forallb_forall in Ht.
  specialize (Ht _ Hi). unfold entry_exactb in Ht. unfold libm_sincos. rewrite Has.
  destruct (dy_of_bits sb) as [sn|]; [|discriminate]. destruct (dy_of_bits cb) as [cs|]; [|discriminate].
  destruct (exact_cs a) as [[C Sn]|]; [|discriminate].
  apply andb_prop in Ht. destruct Ht as [H1 H2].
  exists sn, cs, C, Sn. repeat split; try reflexivity; apply dy_is_exact; assumption.
Qed.

Lemma xchild_of_pair : forall L lx ly (r : bool) sn cs C Sn,
    exact sn Sn -> exact cs C -> Z.abs C + Z.abs Sn = 1 -> Z.abs lx <= L -> Z.abs ly <= L ->
    xchild L (if r then mkT cs sn sn (fneg cs) (lx, 0) (ly, 0) else mkT cs (fneg sn) sn cs (lx, 0) (ly, 0))
           (from_instance ZR lx ly r C Sn).
Proof.
  intros L lx ly r sn cs C Sn Hs Hc Hu Hlx Hly.
  pose proof (exact_fneg _ _ Hs) as Hns. pose proof (exact_fneg _ _ Hc) as Hnc.
  destruct r; unfold from_instance; constructor; zr; try assumption; try reflexivity;
    unfold sperm; zr; lia.
Qed.

Lemma placement_xchild : table_exactb = true -> forall L p, L < 2 ^ 53 -> placement_ok L p ->
    exists it z, from_placement_f p = Some it /\ zplacement_of p = Some z /\ xchild L it (from_placement_Z z).
Proof.
  intros Ht L [[[lx ly] r] oa] HL [Hlx [Hly Ha]].
  unfold from_placement_f, from_placement_gen, zplacement_of.
  destruct oa as [a|].
  - destruct (table_angle_exact Ht a Ha) as [sn [cs [C [Sn [Hl [He [Hs Hc]]]]]]]. rewrite Hl, He.
    unfold from_instance_f. rewrite (f_of_int_exact lx), (f_of_int_exact ly) by lia.
    cbn [sincos_of]. eexists. eexists. split; [reflexivity|]. split; [reflexivity|].
    unfold from_placement_Z, from_placement, from_instance_opt, cs_of. cbn [fst snd].
    apply xchild_of_pair; try assumption. exact (exact_cs_unit a C Sn He).
  - unfold from_instance_f. rewrite (f_of_int_exact lx), (f_of_int_exact ly) by lia.
    cbn [sincos_of]. eexists. eexists. split; [reflexivity|]. split; [reflexivity|].
    unfold from_placement_Z, from_placement, from_instance_opt, cs_of. cbn [fst snd ZR k0 k1].
    apply xchild_of_pair; try assumption; try reflexivity.
Qed.

(** * chains of any depth, precise bound: every prefix offset and the image below 2^53 *)
Lemma xchain : table_exactb = true -> forall L chain zc t tz,
    L < 2 ^ 53 -> xinv t tz -> Forall (placement_ok L) chain -> zchain_of chain = Some zc ->
    offsets_below (2 ^ 53) tz zc ->
    exists t', chain_f t chain = Some t' /\ xinv t' (chain_Z tz zc).
Proof.
  intros Ht L chain. induction chain as [|p chain IH]; intros zc t tz HL Hi Hall Hzc Hoff.
  - cbn in Hzc. injection Hzc as <-. exists t. split; [reflexivity | exact Hi].
  - inversion Hall as [|p' l' Hp Hrest]; subst. cbn [zchain_of] in Hzc.
    destruct (placement_xchild Ht L p HL Hp) as [it [z [Hit [Hz Hc]]]]. rewrite Hz in Hzc.
    destruct (zchain_of chain) as [zr|] eqn:Ezr; [|discriminate]. injection Hzc as <-.
    cbn [offsets_below] in Hoff. destruct Hoff as [H0 [H1 Hoff]].
    destruct (xcascade_step L t tz it (from_placement_Z z) HL Hi Hc H0 H1) as [t1 [Ht1 Hi1]].
    destruct (IH zr t1 _ HL Hi1 Hrest eq_refl Hoff) as [t' [Ht' Hi']].
    exists t'. cbn [chain_f chain_Z]. rewrite Hit, Ht1. split; [exact Ht' | exact Hi'].
Qed.

Theorem chain_image_exact_any_depth : table_exactb = true ->
  forall (chain : list fplacement) (zc : list (placement Z)) (x y : Z),
    Forall (placement_ok (2 ^ 53 - 1)) chain -> zchain_of chain = Some zc ->
    offsets_below (2 ^ 53) identity_Z zc ->
    Z.abs x < 2 ^ 53 -> Z.abs y < 2 ^ 53 ->
    Z.abs (fst (apply_Z (chain_Z identity_Z zc) (x, y))) < 2 ^ 53 ->
    Z.abs (snd (apply_Z (chain_Z identity_Z zc) (x, y))) < 2 ^ 53 ->
    exists sp, spec_path_of chain = Some sp /\ chain_image_f chain (x, y) = Some (path_image sp (x, y)).
Proof.
  intros Ht chain zc x y Hall Hzc Hoff Hx Hy HX HY.
  destruct (xchain Ht (2 ^ 53 - 1) chain zc identity_f identity_Z ltac:(lia) xinv_identity Hall Hzc Hoff)
    as [t [Hcf Hi]].
  destruct (zchain_spec chain zc Hzc) as [sp [Hsp Hv]].
  exists sp. split; [exact Hsp|]. unfold chain_image_f. rewrite Hcf.
  rewrite (xapply t _ x y Hi Hx Hy HX HY). rewrite Hv. reflexivity.
Qed.

(** * uniform bound: depth * L + X < 2^53 *)
Lemma zstep_bound : forall L M tz it iz,
    sperm tz -> xchild L it iz -> Z.abs (b0 tz) <= M -> Z.abs (b1 tz) <= M ->
    Z.abs (b0 (cascade_Z tz iz)) <= M + L /\ Z.abs (b1 (cascade_Z tz iz)) <= M + L.
Proof.
  intros L M tz it iz [R0 [R1 _]] Hc H0 H1. destruct Hc as [_ _ _ _ _ _ _ Cz0 Cz1].
  destruct tz as [p00 p01 p10 p11 pb0 pb1]. destruct iz as [q00 q01 q10 q11 qb0 qb1].
  unfold cascade_Z, cascade, matmul, matvec. zr. cbn [a00 a01 a10 a11 b0 b1 fst snd] in *.
  pose proof (sign_unit_dot p00 p01 qb0 qb1 L R0 Cz0 Cz1).
  pose proof (sign_unit_dot p10 p11 qb0 qb1 L R1 Cz0 Cz1).
  clear - H H2 H0 H1. lia.
Qed.

Lemma xchain_uniform : table_exactb = true -> forall L chain d t tz,
    0 <= L -> xinv t tz -> Z.abs (b0 tz) <= d * L -> Z.abs (b1 tz) <= d * L ->
    Forall (placement_ok L) chain -> (d + Z.of_nat (length chain)) * L < 2 ^ 53 -> 0 <= d ->
    exists zc t', zchain_of chain = Some zc /\ chain_f t chain = Some t' /\ xinv t' (chain_Z tz zc) /\
                  Z.abs (b0 (chain_Z tz zc)) <= (d + Z.of_nat (length chain)) * L /\
                  Z.abs (b1 (chain_Z tz zc)) <= (d + Z.of_nat (length chain)) * L.
Proof.
  intros Ht L chain. induction chain as [|p chain IH]; intros d t tz HL0 Hi Hb0 Hb1 Hall Hlen Hd.
  - exists [], t. cbn [length Z.of_nat zchain_of chain_f chain_Z]. replace (d + 0) with d by lia.
    split; [reflexivity|]. split; [reflexivity|]. split; [exact Hi|]. split; assumption.
  - inversion Hall as [|p' l' Hp Hrest]; subst. cbn [length] in Hlen. rewrite Nat2Z.inj_succ in Hlen.
    assert (HL : L < 2 ^ 53) by nia.
    destruct (placement_xchild Ht L p HL Hp) as [it [z [Hit [Hz Hc]]]].
    destruct (zstep_bound L (d * L) tz it (from_placement_Z z) (x_sp _ _ Hi) Hc Hb0 Hb1) as [B0 B1].
    assert (Hlt : (d + 1) * L < 2 ^ 53) by nia.
    destruct (xcascade_step L t tz it (from_placement_Z z) HL Hi Hc ltac:(lia) ltac:(lia)) as [t1 [Ht1 Hi1]].
    destruct (IH (d + 1) t1 _ HL0 Hi1 ltac:(lia) ltac:(lia) Hrest ltac:(lia) ltac:(lia))
      as [zr [t' [Hzr [Ht' [Hi' [C0 C1]]]]]].
    exists (z :: zr), t'. cbn [zchain_of chain_f chain_Z length]. rewrite Hz, Hzr, Hit, Ht1.
    rewrite Nat2Z.inj_succ.
    replace (d + Z.succ (Z.of_nat (length chain))) with (d + 1 + Z.of_nat (length chain)) by lia.
    split; [reflexivity|]. split; [exact Ht'|]. split; [exact Hi'|]. split; assumption.
Qed.

Lemma apply_Z_bound : forall tz x y X B, sperm tz -> Z.abs x <= X -> Z.abs y <= X ->
    Z.abs (b0 tz) <= B -> Z.abs (b1 tz) <= B ->
    Z.abs (fst (apply_Z tz (x, y))) <= X + B /\ Z.abs (snd (apply_Z tz (x, y))) <= X + B.
Proof.
  intros tz x y X B [R0 [R1 _]] Hx Hy H0 H1. destruct tz as [p00 p01 p10 p11 pb0 pb1].
  unfold apply_Z, apply. zr. cbn [a00 a01 a10 a11 b0 b1 fst snd] in *.
  pose proof (sign_unit_dot p00 p01 x y X R0 Hx Hy). pose proof (sign_unit_dot p10 p11 x y X R1 Hx Hy).
  clear - H H2 H0 H1. lia.
Qed.

Theorem chain_image_exact_any_depth_uniform : table_exactb = true ->
  forall (L X : Z) (chain : list fplacement) (x y : Z),
    0 <= L -> Forall (placement_ok L) chain -> Z.abs x <= X -> Z.abs y <= X ->
    Z.of_nat (length chain) * L + X < 2 ^ 53 ->
    exists sp, spec_path_of chain = Some sp /\ chain_image_f chain (x, y) = Some (path_image sp (x, y)).
Proof.
  intros Ht L X chain x y HL Hall Hx Hy Hb.
  assert (HX0 : 0 <= X) by lia.
  destruct (xchain_uniform Ht L chain 0 identity_f identity_Z HL xinv_identity ltac:(cbn; lia) ltac:(cbn; lia) Hall
                           ltac:(lia) ltac:(lia)) as [zc [t [Hzc [Hcf [Hi [B0 B1]]]]]].
  destruct (zchain_spec chain zc Hzc) as [sp [Hsp Hv]].
  exists sp. split; [exact Hsp|]. unfold chain_image_f. rewrite Hcf.
  destruct (apply_Z_bound _ x y X _ (x_sp _ _ Hi) Hx Hy B0 B1) as [A0 A1].
  rewrite (xapply t _ x y Hi ltac:(lia) ltac:(lia) ltac:(lia) ltac:(lia)). rewrite Hv. reflexivity.
Qed.

Lemma xflatten_helper : table_exactb = true -> forall L X, 0 <= L -> 0 <= X ->
    forall (l : layout fplacement (Z * Z)) n d t tz,
      xinv t tz -> Z.abs (b0 tz) <= d * L -> Z.abs (b1 tz) <= d * L -> 0 <= d ->
      (d + Z.of_nat n) * L + X < 2 ^ 53 -> layout_ok L X l n ->
      exists zl, zlayout_of l = Some zl /\ flatten_helper_f l t = flatten_helper_K ZR zl tz.
Proof.
  intros Ht L X HL0 HX0 l. induction l as [es insts IH] using layout_induction.
  intros n d t tz Hi Hb0 Hb1 Hd Hn Hok. rewrite layout_ok_eq in Hok. destruct Hok as [Hes His].
  rewrite zlayout_of_eq. unfold flatten_helper_f, flatten_helper_K.
  assert (Hins : exists zi, zlayout_insts insts = Some zi /\
                 flatten_insts cascade_f from_placement_f apply_f t insts =
                 flatten_insts (fun p q => Some (cascade ZR p q)) (fun p => Some (from_placement ZR p))
                               (fun t v => Some (apply ZR t v)) tz zi).
  { clear Hes. induction insts as [|[p oc] rest IHr]; cbn [zlayout_insts] in *.
    - exists []. split; reflexivity.
    - rewrite insts_ok_cons in His. destruct His as [Hp [Hc Hrest]]. inversion IH as [|? ? Hsub IHrest]; subst.
      destruct (IHr IHrest Hrest) as [zr [Hzr Hfr]].
      destruct oc as [c|].
      + destruct n as [|k]; [contradiction|].
        rewrite Nat2Z.inj_succ in Hn.
        assert (HL : L < 2 ^ 53) by nia.
        destruct (placement_xchild Ht L p HL Hp) as [it [z [Hit [Hz Hch]]]].
        rewrite Hz, Hzr.
        destruct (zstep_bound L (d * L) tz it (from_placement_Z z) (x_sp _ _ Hi) Hch Hb0 Hb1) as [B0 B1].
        assert (Hlt : (d + 1) * L < 2 ^ 53) by nia.
        destruct (xcascade_step L t tz it (from_placement_Z z) HL Hi Hch ltac:(lia) ltac:(lia)) as [t1 [Ht1 Hi1]].
        unfold sub_ok in Hsub; cbn [snd] in Hsub.
        destruct (Hsub k (d + 1) t1 (cascade_Z tz (from_placement_Z z)) Hi1 ltac:(lia) ltac:(lia) ltac:(lia)
                       ltac:(lia) Hc) as [zc [Hzc Hfc]].
        rewrite Hzc. eexists. split; [reflexivity|].
        rewrite !flatten_insts_cons. rewrite Hit, Ht1.
        unfold flatten_helper_f, flatten_helper_K in Hfc. rewrite Hfc, Hfr. reflexivity.
      + destruct (placement_z L p Hp) as [z Hz]. rewrite Hz, Hzr.
        eexists. split; [reflexivity|]. rewrite !flatten_insts_cons. reflexivity. }
  destruct Hins as [zi [Hzi Hfi]]. rewrite Hzi. eexists. split; [reflexivity|].
  rewrite !flatten_helper_eq.
  rewrite (elems_transform_pointwise (apply_f t) (apply ZR tz) (pt_within X)).
  - rewrite elems_transform_total, Hfi. reflexivity.
  - intros [x y] [Hx Hy]. cbn [fst snd] in *.
    assert (HdL : d * L + X < 2 ^ 53) by nia.
    destruct (apply_Z_bound tz x y X (d * L) (x_sp _ _ Hi) Hx Hy Hb0 Hb1) as [A0 A1].
    apply (xapply t tz x y Hi); lia.
  - exact Hes.
Qed.

Theorem flatten_f_exact_any_depth : table_exactb = true ->
  forall (n : nat) (L X : Z) (l : layout fplacement (Z * Z)),
    0 <= L -> 0 <= X -> Z.of_nat n * L + X < 2 ^ 53 -> layout_ok L X l n ->
    exists zl, zlayout_of l = Some zl /\ flatten_f l = flatten_K ZR zl /\
      flatten_f l =
      match paths zl with
      | Some ps => Ok (map (fun pe => elem_map (path_map ZR (fst pe)) (snd pe)) ps)
      | None => Panic
      end.
Proof.
  intros Ht n L X l HL HX Hb Hok.
  destruct (xflatten_helper Ht L X HL HX l n 0 identity_f identity_Z xinv_identity ltac:(cbn; lia) ltac:(cbn; lia)
                            ltac:(lia) ltac:(lia) Hok) as [zl [Hzl Hfl]].
  exists zl. split; [exact Hzl|]. split; [exact Hfl|].
  unfold flatten_f, flatten_K. rewrite Hfl. exact (flatten_is_path_composition ZR ZRth zl).
Qed.
