(** C12, float level, ANY depth: the obligation that THIS tree carries an exact table.

    This file builds only when every sine and cosine of Gen/LibmGen.v (regenerated on every run from
    the repository's own `Transform::rotate` / `Transform::from_instance`) is exactly 0, 1 or -1,
    i.e. when layout21raw/src/geom.rs computes the right angles exactly (`sin_cos_degrees`).
    tools/props/c12.py builds it, and counts it in the proof leg, exactly when the source carries
    that function (the variant follows the source); with `angle.to_radians().sin()` of libm in
    geom.rs it does not build, and parts (8), (9) of Properties/C12.v (bounded depth) are what holds.

    [table_exact_now] discharges the hypothesis of C12_right_angle_no_drift_any_depth,
    C12_right_angle_no_drift_any_depth_uniform and C12_right_angle_flatten_no_drift_any_depth. *)
From Coq Require Import ZArith Bool List Lia.
From L21 Require Import Base.F64 Gen.LibmGen Geom.Transform Geom.TransformSpec Geom.Transform_proofs.
From L21 Require Import Geom.TransformFloat Geom.TransformFloat_proofs Properties.C12.
Import ListNotations.
Local Open Scope Z_scope.

Lemma table_exact_now : table_exactb = true.
Proof. vm_compute. reflexivity. Qed.

Theorem right_angle_no_drift_any_depth_now :
  forall (L X : Z) (chain : list fplacement) (x y : Z),
    0 <= L -> Forall (placement_ok L) chain -> Z.abs x <= X -> Z.abs y <= X ->
    Z.of_nat (length chain) * L + X < 2 ^ 53 ->
    exists sp, spec_path_of chain = Some sp /\ chain_image_f chain (x, y) = Some (path_image sp (x, y)).
Proof. exact (C12_right_angle_no_drift_any_depth_uniform table_exact_now). Qed.

Theorem right_angle_no_drift_any_depth_precise_now :
  forall (chain : list fplacement) (zc : list (placement Z)) (x y : Z),
    Forall (placement_ok (2 ^ 53 - 1)) chain -> zchain_of chain = Some zc ->
    offsets_below (2 ^ 53) identity_Z zc ->
    Z.abs x < 2 ^ 53 -> Z.abs y < 2 ^ 53 ->
    Z.abs (fst (apply_Z (chain_Z identity_Z zc) (x, y))) < 2 ^ 53 ->
    Z.abs (snd (apply_Z (chain_Z identity_Z zc) (x, y))) < 2 ^ 53 ->
    exists sp, spec_path_of chain = Some sp /\ chain_image_f chain (x, y) = Some (path_image sp (x, y)).
Proof. exact (C12_right_angle_no_drift_any_depth table_exact_now). Qed.

Theorem right_angle_flatten_no_drift_any_depth_now :
  forall (n : nat) (L X : Z) (l : layout fplacement (Z * Z)),
    0 <= L -> 0 <= X -> Z.of_nat n * L + X < 2 ^ 53 -> layout_ok L X l n ->
    exists zl, zlayout_of l = Some zl /\ flatten_f l = flatten_K ZR zl.
Proof.
  intros n L X l HL HX Hb Hok.
  destruct (C12_right_angle_flatten_no_drift_any_depth table_exact_now n L X l HL HX Hb Hok) as [zl [H1 [H2 _]]].
  exists zl. split; assumption.
Qed.

(** Non-vacuity, and the former drift witnesses: 62 and 1000 nested placements at (0, 2^40), each
    rotated by 360 degrees, now send the origin to the exact image. *)
Example right_angle_no_drift_any_depth_nonvacuous :
  Forall (placement_ok (2 ^ 40)) (drift_chain 1000) /\ Z.of_nat (length (drift_chain 1000)) * 2 ^ 40 + 0 < 2 ^ 53 /\
  chain_image_f (drift_chain 62) (0, 0) = Some (0, 62 * 2 ^ 40) /\
  chain_image_f (drift_chain 1000) (0, 0) = Some (0, 1000 * 2 ^ 40) /\
  table360_as_seen = false.
Proof.
  split.
  - apply Forall_forall. intros p Hp. apply repeat_spec in Hp. subst p.
    unfold placement_ok. split; [lia|]. split; [lia|]. vm_compute. tauto.
  - split; [vm_compute; reflexivity|]. vm_compute. repeat split; reflexivity.
Qed.

Print Assumptions table_exact_now.
Print Assumptions right_angle_no_drift_any_depth_now.
Print Assumptions right_angle_no_drift_any_depth_precise_now.
Print Assumptions right_angle_flatten_no_drift_any_depth_now.
