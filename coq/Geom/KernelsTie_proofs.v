(** Tie (a) of DESIGN.md 2.3 for the transform kernels of layout21raw/src/geom.rs:
    the definitions GENERATED from the Rust source on every run (Gen/KernelsGen.v, by
    tools/translate_rust_kernels.py), read at the ring level ([ring_kops R], any ring) and at the
    float level ([float_kops]), EQUAL the hand-written model functions of Geom/Transform.v that
    the C12 (C06, C07) theorems are about.  An edit to one of these Rust functions changes the
    generated term and breaks the corresponding lemma here.

    The proofs are computation ([reflexivity]) plus case analysis on the float operations that
    may leave the model ([fmul], [fadd], [f_of_int] returning [None]); nothing else. *)
From Coq Require Import ZArith Bool List Lia.
From L21 Require Import Base.KernelOps Gen.KernelsGen Geom.Transform Geom.KernelsInst.
Local Open Scope Z_scope.

(** the whole of `Transform::rotate` / `from_instance`: the generated functions with the generated
    `sin_cos_degrees` put back in place of the abstract callee *)
Definition g_rotate_full {M F I} (ops : kops M F I) := g_Transform_rotate ops (g_sin_cos_degrees ops).
Definition g_from_instance_full {M F I} (ops : kops M F I) := g_Transform_from_instance ops (g_sin_cos_degrees ops).

(** * Ring level: any [R : ring_ops K], any callee for the sine and cosine *)
Section Ring.
  Context {K : Type} (R : ring_ops K).
  Let O := ring_kops R.

  Lemma tie_matmul : forall p q : transform K,
    g_matmul O (A_of p) (A_of q) = Some (M4_of (matmul R p q)).
  Proof. reflexivity. Qed.

  Lemma tie_matvec : forall (p : transform K) (v : K * K),
    g_matvec O (A_of p) v = Some (matvec R p v).
  Proof. reflexivity. Qed.

  Lemma tie_cascade : forall p q : transform K,
    g_Transform_cascade O (T_of p) (T_of q) = Some (T_of (cascade R p q)).
  Proof. reflexivity. Qed.

  Lemma tie_identity : g_Transform_identity O = Some (T_of (identity R)).
  Proof. reflexivity. Qed.

  Lemma tie_translate : forall x y : K,
    g_Transform_translate O x y = Some (T_of (translate R x y)).
  Proof. reflexivity. Qed.

  Lemma tie_reflect_vert : g_Transform_reflect_vert O = Some (T_of (reflect_vert R)).
  Proof. reflexivity. Qed.

  (** `sin_cos_degrees` is an argument: whatever (sin, cos) it returns *)
  Lemma tie_rotate : forall (sc : K -> option (K * K)) (a : K),
    g_Transform_rotate O sc a =
    match sc a with Some (s, c) => Some (T_of (rotate R c s)) | None => None end.
  Proof. intros. unfold g_Transform_rotate. cbn. destruct (sc a) as [[s c]|]; reflexivity. Qed.

  Lemma tie_from_instance : forall (sc : K -> option (K * K)) (lx ly : K) (r : bool) (oa : option K),
    g_Transform_from_instance O sc (P_of (lx, ly)) r oa =
    match oa with
    | None => Some (T_of (from_instance_opt R lx ly r None))
    | Some a => match sc a with
                | Some (s, c) => Some (T_of (from_instance_opt R lx ly r (Some (c, s))))
                | None => None
                end
    end.
  Proof.
    intros. destruct oa as [a|]; cbn.
    - destruct (sc a) as [[s c]|]; destruct r; reflexivity.
    - destruct r; reflexivity.
  Qed.

  (** `Point::transform` before the final rounding *)
  Lemma tie_point_transform : forall (t : transform K) (v : K * K),
    g_Point_transform O (P_of v) (T_of t) = Some (P_of (apply R t v)).
  Proof. reflexivity. Qed.

  (** `impl TransformTrait for Rect` *)
  Lemma tie_rect_transform : forall (t : transform K) (p0 p1 : K * K),
    g_Rect_transform O (R_of p0 p1) (T_of t) =
    match shape_transform (fun v => Some (apply R t v)) (Rect p0 p1) with
    | Some (Rect q0 q1) => Some (R_of q0 q1)
    | _ => None
    end.
  Proof. reflexivity. Qed.
End Ring.

(** * Float level *)
Ltac kt_step :=
  match goal with
  | |- context [match fmul ?a ?b with Some _ => _ | None => _ end] => destruct (fmul a b); cbn
  | |- context [match fadd ?a ?b with Some _ => _ | None => _ end] => destruct (fadd a b); cbn
  | |- context [match f_of_int ?a with Some _ => _ | None => _ end] => destruct (f_of_int a); cbn
  end.
Ltac kt := cbn; repeat kt_step; try reflexivity.

Lemma tie_matmul_f : forall p q : ftransform,
  g_matmul float_kops (A_of p) (A_of q) = option_map M4_of (matmul_f p q).
Proof. intros. unfold g_matmul, matmul_f, dot2. kt. Qed.

Lemma tie_matvec_f : forall (p : ftransform) (v : dy * dy),
  g_matvec float_kops (A_of p) v = matvec_f p v.
Proof. intros. unfold g_matvec, matvec_f, dot2. kt. Qed.

Lemma tie_cascade_f : forall p q : ftransform,
  g_Transform_cascade float_kops (T_of p) (T_of q) = option_map T_of (cascade_f p q).
Proof.
  intros. unfold g_Transform_cascade, g_matvec, g_matmul, cascade_f, matvec_f, matmul_f, dot2. kt.
Qed.

Lemma tie_identity_f : g_Transform_identity float_kops = Some (T_of identity_f).
Proof. reflexivity. Qed.

Lemma tie_translate_f : forall x y : dy,
  g_Transform_translate float_kops x y = Some (T_of (translate_f x y)).
Proof. reflexivity. Qed.

Lemma tie_reflect_vert_f : g_Transform_reflect_vert float_kops = Some (T_of reflect_vert_f).
Proof. reflexivity. Qed.

Lemma tie_rotate_f : forall (sc : dy -> option (dy * dy)) (a : dy),
  g_Transform_rotate float_kops sc a =
  match sc a with Some (s, c) => Some (T_of (rotate_f s c)) | None => None end.
Proof. intros. unfold g_Transform_rotate. cbn. destruct (sc a) as [[s c]|]; reflexivity. Qed.

Lemma tie_from_instance_f : forall (sc : dy -> option (dy * dy)) (lx ly : Z) (r : bool) (oa : option dy),
  g_Transform_from_instance float_kops sc (P_of (lx, ly)) r oa =
  match oa with
  | None => option_map T_of (from_instance_f lx ly r None)
  | Some a => match sc a with
              | Some p => option_map T_of (from_instance_f lx ly r (Some p))
              | None => None
              end
  end.
Proof.
  intros. unfold g_Transform_from_instance, from_instance_f. destruct oa as [a|]; kt.
  all: try (destruct (sc a) as [[s c]|]; cbn; try reflexivity).
  all: try (destruct r; reflexivity).
Qed.

(** `Point::transform` with the rounding: `.round() as Int` *)
Lemma tie_point_transform_f : forall (t : ftransform) (v : Z * Z),
  g_Point_transform float_kops (P_of v) (T_of t) = option_map P_of (apply_f t v).
Proof. intros. unfold g_Point_transform, apply_f, dot2. kt. Qed.

Lemma tie_rect_transform_f : forall (t : ftransform) (p0 p1 : Z * Z),
  g_Rect_transform float_kops (R_of p0 p1) (T_of t) =
  match shape_transform (apply_f t) (Rect p0 p1) with
  | Some (Rect q0 q1) => Some (R_of q0 q1)
  | _ => None
  end.
Proof.
  intros. unfold g_Rect_transform. cbn [gRect_p0 gRect_p1 R_of k_bind float_kops].
  rewrite !tie_point_transform_f. cbn [shape_transform].
  destruct (apply_f t p0), (apply_f t p1); reflexivity.
Qed.

(** * `sin_cos_degrees` at the multiples of 90 degrees: the generated function returns EXACTLY
    the sine and cosine [exact_cs] of the specification (0, 1, -1 as doubles), for every
    integer-valued angle below 2^53 -- no libm value is involved (at the float level libm is
    [None], so the equation also says that the libm branch is not taken). *)
Lemma dy_int_Z : forall a, Z.abs a < 2 ^ 53 -> dy_int (dy_of_Z a) = Some a.
Proof.
  intros a H. unfold dy_int, dy_of_Z. change (pow2 0) with 1. rewrite Z.mul_1_r.
  change (0 <=? 0) with true. cbn [andb].
  destruct (Z.ltb_spec (Z.abs a) (2 ^ 53)); [reflexivity|lia].
Qed.

Lemma dy_eqb_Z : forall a b, dy_eqb (dy_of_Z a) (dy_of_Z b) = (a =? b).
Proof.
  intros. unfold dy_eqb, dy_cmp, dy_of_Z. cbn [fst snd]. change (Z.min 0 0) with 0.
  change (pow2 (0 - 0)) with 1. rewrite !Z.mul_1_r.
  destruct (Z.eqb_spec a b) as [->|N]. rewrite Z.compare_refl; reflexivity.
  destruct (Z.compare_spec a b); try reflexivity; contradiction.
Qed.

Lemma tie_sin_cos_degrees_right : forall a : Z, Z.abs a < 2 ^ 53 -> a mod 90 = 0 ->
  g_sin_cos_degrees float_kops (dy_of_Z a) =
  match exact_cs a with Some (c, s) => Some (dy_of_Z s, dy_of_Z c) | None => None end.
Proof.
  intros a Ha H90. unfold g_sin_cos_degrees, exact_cs. rewrite H90. change (0 =? 0) with true. cbv iota.
  cbn [k_bind float_kops f_rem_euclid obnd f_lit].
  change (if 0 <=? 0 then dy_of_Z (360 * 10 ^ 0) else dzero) with (dy_of_Z 360).
  unfold dy_rem_euclid. rewrite (dy_int_Z a Ha). change (dy_int (dy_of_Z 360)) with (Some 360).
  cbv beta iota. change (360 =? 0) with false. cbv iota. change (Z.abs 360) with 360.
  unfold obnd at 1. cbv beta iota.
  cbn [f_eq f_zero f_one float_kops].
  change (if 0 <=? 0 then dy_of_Z (90 * 10 ^ 0) else dzero) with (dy_of_Z 90).
  change (if 0 <=? 0 then dy_of_Z (180 * 10 ^ 0) else dzero) with (dy_of_Z 180).
  change (if 0 <=? 0 then dy_of_Z (270 * 10 ^ 0) else dzero) with (dy_of_Z 270).
  change dzero with (dy_of_Z 0). rewrite !dy_eqb_Z.
  assert (Hq : a mod 360 = 90 * ((a / 90) mod 4)).
  { Ltac Zify.zify_post_hook ::= Z.div_mod_to_equations. lia. }
  assert (Hr : 0 <= (a / 90) mod 4 < 4) by (apply Z.mod_pos_bound; lia).
  set (k := (a / 90) mod 4) in *. rewrite Hq.
  assert (Hk : k = 0 \/ k = 1 \/ k = 2 \/ k = 3) by lia.
  destruct Hk as [-> | [-> | [-> | ->]]]; reflexivity.
Qed.

(** hence the whole of `Transform::rotate` at a right angle is the exact quarter turn *)
Lemma tie_rotate_full_right : forall a : Z, Z.abs a < 2 ^ 53 ->
  forall c s, exact_cs a = Some (c, s) ->
  g_rotate_full float_kops (dy_of_Z a) = Some (T_of (rotate_f (dy_of_Z s) (dy_of_Z c))).
Proof.
  intros a Ha c s E. unfold g_rotate_full. rewrite tie_rotate_f.
  assert (H90 : a mod 90 = 0).
  { unfold exact_cs in E. destruct (Z.eqb_spec (a mod 90) 0); [assumption|discriminate]. }
  rewrite (tie_sin_cos_degrees_right a Ha H90), E. reflexivity.
Qed.
