(** Tie (a) of DESIGN.md 2.3 for the containment kernels of layout21raw/src/geom.rs and bbox.rs:
    the definitions GENERATED from the Rust source on every run (Gen/KernelsGen.v), read over Z with
    range checks ([zc_kops]), EQUAL the hand-written model functions of Geom/Contains.v that the
    C13 theorems are about. *)
From Coq Require Import ZArith Bool List Lia.
From L21 Require Import Base.KernelOps Gen.KernelsGen Geom.Contains Geom.KernelsInst.
Import ListNotations.
Local Open Scope Z_scope.

Notation ZC := zc_kops.
Notation gpt := (gPoint unit Z) (only parsing).
Definition Pz (p : point) : gpt := P_of p.

Lemma tie_point_new : forall x y, g_Point_new ZC x y = CVal (Pz (x, y)).
Proof. reflexivity. Qed.

(** `Rect::contains` *)
Lemma tie_rect_contains : forall p0 p1 q : point,
  g_Rect_contains ZC (R_of p0 p1) (Pz q) = CVal (rect_contains p0 p1 q).
Proof. reflexivity. Qed.

(** bbox.rs: `BoundBox::contains`, `BoundBox::empty`, one round of `Vec<Point>::bbox`
    (`bbox = bbox.union(&pt.bbox())`), and the whole of it *)
Lemma tie_bbox_contains : forall (bb : point * point) (q : point),
  g_BoundBox_contains ZC (B_of bb) (Pz q) = CVal (bbox_contains bb q).
Proof. intros [b0 b1] q. reflexivity. Qed.

Lemma tie_bbox_empty : g_BoundBox_empty ZC = CVal (B_of bbox_empty).
Proof. reflexivity. Qed.

Lemma tie_bbox_union_pt : forall (bb : point * point) (p : point),
  g_Vec_Point_bbox_loop1 ZC (Pz p) (B_of bb) = CVal (Cont (B_of (bbox_union_pt bb p))).
Proof. intros [b0 b1] p. reflexivity. Qed.

Lemma foreach_bbox : forall ps bb,
  k_foreach ZC (map Pz ps) (fun pt st => g_Vec_Point_bbox_loop1 ZC pt st) (B_of bb)
  = CVal (Cont (R := gBoundBox unit Z) (B_of (fold_left bbox_union_pt ps bb))).
Proof.
  induction ps as [|p ps IH]; intros bb. reflexivity.
  cbn [map k_foreach fold_left]. rewrite tie_bbox_union_pt. cbn [k_bind ZC cbnd]. apply IH.
Qed.

Lemma tie_points_bbox : forall ps : list point,
  g_Vec_Point_bbox ZC (map Pz ps) = CVal (B_of (points_bbox ps)).
Proof.
  intros. unfold g_Vec_Point_bbox. rewrite tie_bbox_empty. cbn [k_bind ZC cbnd].
  rewrite foreach_bbox. reflexivity.
Qed.

(** * `Path::contains`: the loop over the segments *)
(** the result of the model's scan as the result of the generated loop *)
Definition lift_pb (r : res) : cres (ctrl bool unit) :=
  match r with Ret true => CVal (Brk true) | Ret false => CVal (Cont tt) | Ovf => COvf | Contains.Panic => CPanic end.

Lemma nth_error_app_mid : forall (A : Type) (pre : list A) a tl,
  nth_error (pre ++ a :: tl) (length pre) = Some a.
Proof. induction pre; intros; cbn; auto. Qed.

Lemma zc_get_mid : forall (pre : list point) a tl,
  v_get ZC (map Pz (pre ++ a :: tl)) (Z.of_nat (length pre)) = CVal (Pz a).
Proof.
  intros. cbn [v_get ZC]. unfold zc_get.
  destruct (Z.ltb_spec (Z.of_nat (length pre)) 0); [lia|].
  rewrite Nat2Z.id, map_app. cbn [map].
  replace (length pre) with (length (map Pz pre)) by apply map_length.
  rewrite nth_error_app_mid. reflexivity.
Qed.

Lemma ity_in_isize : forall z, ity_in Isize z = in_int z.
Proof. reflexivity. Qed.

Section Path.
  Variables (w : Z) (q : point).
  Hypothesis Hw : in_int w = true.
  Notation hw := (Z.quot w 2).

  Lemma in_int_hw : in_int hw = true.
  Proof.
    unfold in_int, int_min, int_max in *. apply andb_true_iff in Hw. destruct Hw as [A B].
    apply Z.leb_le in A. apply Z.leb_le in B. apply andb_true_iff. split; apply Z.leb_le.
    - assert (- 2 ^ 63 <= w) by exact A. Ltac Zify.zify_post_hook ::= Z.to_euclidean_division_equations. lia.
    - assert (w <= 2 ^ 63 - 1) by exact B. lia.
  Qed.

  Lemma div_w : i_div ZC Isize w (i_lit ZC 2) = CVal hw.
  Proof. cbn [i_div i_lit ZC]. change (2 =? 0) with false. cbv iota. unfold zc_chk. rewrite ity_in_isize, in_int_hw. reflexivity. Qed.

  Lemma tie_path_contains_round : forall pre a b tl,
    Z.of_nat (length (pre ++ a :: b :: tl)) <= 2 ^ 63 ->
    g_Path_contains_loop1 ZC (Pz q) (map Pz (pre ++ a :: b :: tl)) w (Z.of_nat (length pre)) tt =
    match path_scan [a; b] hw q with
    | Ret true => CVal (Brk true) | Ret false => CVal (Cont tt) | Ovf => COvf | Contains.Panic => CPanic end.
  Proof.
    intros pre a b tl Hlen.
    assert (G0 := zc_get_mid pre a (b :: tl)).
    assert (G1 : v_get ZC (map Pz (pre ++ a :: b :: tl)) (Z.of_nat (length pre) + 1) = CVal (Pz b)).
    { replace (pre ++ a :: b :: tl) with ((pre ++ [a]) ++ b :: tl) by (rewrite <- app_assoc; reflexivity).
      replace (Z.of_nat (length pre) + 1) with (Z.of_nat (length (pre ++ [a]))) by (rewrite app_length; cbn; lia).
      apply zc_get_mid. }
    assert (A1 : i_add ZC Usize (Z.of_nat (length pre)) (i_lit ZC 1) = CVal (Z.of_nat (length pre) + 1)).
    { cbn [i_add i_lit ZC]. unfold zc_chk, ity_in. rewrite app_length in Hlen. cbn [length] in Hlen.
      change (ity_min Usize) with 0. change (ity_max Usize) with (2 ^ 64 - 1).
      destruct (Z.leb_spec 0 (Z.of_nat (length pre) + 1)); [|lia].
      destruct (Z.leb_spec (Z.of_nat (length pre) + 1) (2 ^ 64 - 1)); [reflexivity|lia]. }
    unfold g_Path_contains_loop1.
    rewrite ?A1. cbn [k_bind ZC cbnd]. rewrite ?G0, ?G1, ?div_w.
    cbn [k_bind k_ret ZC cbnd cret]. rewrite ?G0, ?G1, ?div_w. cbn [k_bind k_ret ZC cbnd cret].
    destruct a as [xa ya], b as [xb yb]. unfold path_scan, all_in_int, forallb.
    cbn [i_eq i_sub i_add ZC gPoint_x gPoint_y Pz P_of fst snd X Y k_panic cpanic]. unfold zc_chk. change (ity_in Isize) with in_int.
    destruct (xa =? xb).
    - destruct (in_int (xa - hw)); cbn [cbnd andb]; [|reflexivity].
      destruct (in_int (xa + hw)); cbn [cbnd andb]; [|reflexivity].
      unfold g_Point_new. cbn [k_ret ZC cret cbnd].
      change (g_Rect_contains ZC {| gRect_p0 := {| gPoint_x := xa - hw; gPoint_y := ya |}; gRect_p1 := {| gPoint_x := xa + hw; gPoint_y := yb |} |} (Pz q))
        with (CVal (rect_contains (xa - hw, ya) (xa + hw, yb) q)).
      cbn [cbnd]. destruct (rect_contains (xa - hw, ya) (xa + hw, yb) q); reflexivity.
    - destruct (ya =? yb); [|reflexivity].
      destruct (in_int (ya - hw)); cbn [cbnd andb]; [|reflexivity].
      destruct (in_int (ya + hw)); cbn [cbnd andb]; [|reflexivity].
      unfold g_Point_new. cbn [k_ret ZC cret cbnd].
      change (g_Rect_contains ZC {| gRect_p0 := {| gPoint_x := xa; gPoint_y := ya - hw |}; gRect_p1 := {| gPoint_x := xb; gPoint_y := ya + hw |} |} (Pz q))
        with (CVal (rect_contains (xa, ya - hw) (xb, ya + hw) q)).
      cbn [cbnd]. destruct (rect_contains (xa, ya - hw) (xb, ya + hw) q); reflexivity.
  Qed.

  (* one round of the model's scan *)
  Lemma path_scan_unroll : forall a b tl,
    path_scan (a :: b :: tl) hw q =
    match path_scan [a; b] hw q with Ret false => path_scan (b :: tl) hw q | r => r end.
  Proof.
    intros [xa ya] [xb yb] tl. cbn [path_scan X Y fst snd].
    destruct (xa =? xb).
    - destruct (all_in_int [xa - hw; xa + hw]); [|reflexivity].
      destruct (rect_contains (xa - hw, ya) (xa + hw, yb) q); [reflexivity|]. destruct tl; reflexivity.
    - destruct (ya =? yb); [|reflexivity].
      destruct (all_in_int [ya - hw; ya + hw]); [|reflexivity].
      destruct (rect_contains (xa, ya - hw) (xb, ya + hw) q); [reflexivity|]. destruct tl; reflexivity.
  Qed.

  Lemma tie_path_contains_loop : forall tl pre a,
    Z.of_nat (length (pre ++ a :: tl)) <= 2 ^ 63 ->
    for_from cret cbnd (length tl) (Z.of_nat (length pre))
      (fun k st => g_Path_contains_loop1 ZC (Pz q) (map Pz (pre ++ a :: tl)) w k st) tt =
    lift_pb (path_scan (a :: tl) hw q).
  Proof.
    induction tl as [|b tl IH]; intros pre a Hlen.
    - reflexivity.
    - cbn [length for_from]. rewrite (tie_path_contains_round pre a b tl Hlen). rewrite (path_scan_unroll a b tl).
      destruct (path_scan [a; b] hw q) as [[|]| |]; cbn [cbnd]; try reflexivity.
      replace (Z.of_nat (length pre) + 1) with (Z.of_nat (length (pre ++ [a]))) by (rewrite app_length; cbn; lia).
      replace (pre ++ a :: b :: tl) with ((pre ++ [a]) ++ b :: tl) in * by (rewrite <- app_assoc; reflexivity).
      apply IH. exact Hlen.
  Qed.
End Path.

Lemma tie_path_contains : forall (ps : list point) (width : Z) (q : point),
  Z.of_nat (length ps) <= 2 ^ 63 ->
  res_of (g_Path_contains ZC (mk_gPath (map Pz ps) width) (Pz q)) = path_contains ps width q.
Proof.
  intros ps width q Hlen. unfold g_Path_contains, path_contains.
  cbn [gPath_points gPath_width i_try_from ZC k_bind cbnd]. rewrite ity_in_isize.
  destruct (in_int width) eqn:Hw; cbn [negb cbnd]; [|reflexivity].
  cbn [i_sub ZC v_len i_lit]. rewrite map_length. unfold zc_chk, ity_in.
  change (ity_min Usize) with 0. change (ity_max Usize) with (2 ^ 64 - 1).
  destruct ps as [|a tl].
  - reflexivity.
  - cbn [length] in *. destruct (Z.leb_spec 0 (Z.of_nat (S (length tl)) - 1)); [|lia].
    destruct (Z.leb_spec (Z.of_nat (S (length tl)) - 1) (2 ^ 64 - 1)); [|lia]. cbn [andb cbnd].
    cbn [k_for ZC]. unfold for_Z.
    replace (Z.to_nat (Z.of_nat (S (length tl)) - 1 - 0)) with (length tl) by lia.
    pose proof (tie_path_contains_loop width q Hw tl [] a) as PL. cbn [app length Z.of_nat] in PL.
    rewrite PL by lia.
    cbn [app]. destruct (path_scan (a :: tl) (Z.quot width 2) q) as [[|]| |]; reflexivity.
Qed.

(** * `Polygon::contains`: the loop over the edges *)
(** one round of [poly_scan] *)
Definition poly_step (past next q : point) (w : Z) : cres (ctrl bool Z) :=
  if y_in_range past next q then
    if Y next =? Y past then
      if x_in_range past next q then CVal (Brk true) else CVal (Cont w)
    else
      let a := X next - X past in
      let b := Y q - Y past in
      let d := X q - X past in
      let c := Y next - Y past in
      let cr := a * b - d * c in
      if all_in_i128 [a; b; a * b; d; c; d * c; cr] then
        if cr =? 0 then CVal (Brk true)
        else if Y past <? Y next then
          if (Y q <? Y next) && (0 <? cr) then CVal (Cont (w + 1)) else CVal (Cont w)
        else
          if (Y q <? Y past) && (cr <? 0) then CVal (Cont (w - 1)) else CVal (Cont w)
      else COvf
  else CVal (Cont w).

Lemma poly_scan_step : forall past next es q w,
  poly_scan ((past, next) :: es) q w =
  match poly_step past next q w with
  | CVal (Brk b) => Ret b
  | CVal (Cont w') => poly_scan es q w'
  | COvf => Ovf
  | CPanic => Contains.Panic
  end.
Proof.
  intros. cbn [poly_scan]. unfold poly_step.
  destruct (y_in_range past next q); [|reflexivity].
  destruct (Y next =? Y past). { destruct (x_in_range past next q); reflexivity. }
  cbv zeta.
  destruct (all_in_i128 _); [|reflexivity].
  destruct (_ =? 0); [reflexivity|].
  destruct (Y past <? Y next); destruct (_ && _); reflexivity.
Qed.

Lemma poly_step_bound : forall past next q w w',
  poly_step past next q w = CVal (Cont w') -> Z.abs w' <= Z.abs w + 1.
Proof.
  intros past next q w w'. unfold poly_step.
  destruct (y_in_range past next q); [|intros H; inversion H; lia].
  destruct (Y next =? Y past). { destruct (x_in_range past next q); intros H; inversion H; lia. }
  cbv zeta. destruct (all_in_i128 _); [|discriminate].
  destruct (_ =? 0); [discriminate|].
  destruct (Y past <? Y next); destruct (_ && _); intros H; inversion H; lia.
Qed.

Lemma in_int_i128_sub : forall x y, in_int x = true -> in_int y = true -> ity_in I128 (x - y) = true.
Proof.
  intros x y Hx Hy. unfold in_int, int_min, int_max in *. unfold ity_in.
  change (ity_min I128) with (- 2 ^ 127). change (ity_max I128) with (2 ^ 127 - 1).
  apply andb_true_iff in Hx. apply andb_true_iff in Hy. destruct Hx as [A B], Hy as [C D].
  apply Z.leb_le in A, B, C, D. apply andb_true_iff; split; apply Z.leb_le.
  - assert (2 ^ 127 = 2 ^ 64 * 2 ^ 63) by reflexivity. assert (0 < 2 ^ 63) by reflexivity. nia.
  - assert (2 ^ 127 = 2 ^ 64 * 2 ^ 63) by reflexivity. assert (0 < 2 ^ 63) by reflexivity. nia.
Qed.
Lemma in_int_i128 : forall x, in_int x = true -> ity_in I128 x = true.
Proof. intros. replace x with (x - 0) by lia. apply in_int_i128_sub; auto. Qed.

Lemma cast_ok : forall x, in_int x = true -> i_cast ZC Isize I128 x = CVal x.
Proof. intros. cbn [i_cast ZC]. rewrite in_int_i128; auto. Qed.

Section Poly.
  Variables (ps : list point) (q : point).
  Hypothesis Hps : Forall pt_ok ps.
  Hypothesis Hq : pt_ok q.
  Hypothesis Hlen : Z.of_nat (length ps) <= 2 ^ 62.

  Lemma tie_polygon_contains_round : forall idx past next w,
    0 <= idx -> idx + 1 <= Z.of_nat (length ps) ->
    v_get ZC (map Pz ps) idx = CVal (Pz past) ->
    v_get ZC (map Pz ps) (Z.rem (idx + 1) (Z.of_nat (length ps))) = CVal (Pz next) ->
    pt_ok past -> pt_ok next -> Z.abs w < 2 ^ 62 ->
    g_Polygon_contains_loop1 ZC (mk_gPolygon (map Pz ps)) (Pz q) idx w = poly_step past next q w.
  Proof.
    intros idx past next w Hi0 Hi1 G0 G1 [Px Py] [Nx Ny] Hw. destruct Hq as [Qx Qy].
    unfold g_Polygon_contains_loop1. cbn [gPolygon_points].
    assert (A1 : i_add ZC Usize idx (i_lit ZC 1) = CVal (idx + 1)).
    { cbn [i_add i_lit ZC]. unfold zc_chk, ity_in. change (ity_min Usize) with 0. change (ity_max Usize) with (2 ^ 64 - 1).
      destruct (Z.leb_spec 0 (idx + 1)); [|lia]. destruct (Z.leb_spec (idx + 1) (2 ^ 64 - 1)); [reflexivity|lia]. }
    assert (R1 : i_rem ZC Usize (idx + 1) (v_len ZC (map Pz ps)) = CVal (Z.rem (idx + 1) (Z.of_nat (length ps)))).
    { cbn [i_rem v_len ZC]. rewrite map_length.
      destruct (Z.eqb_spec (Z.of_nat (length ps)) 0); [lia|].
      unfold zc_chk, ity_in. change (ity_min Usize) with 0. change (ity_max Usize) with (2 ^ 64 - 1).
      assert (0 <= Z.rem (idx + 1) (Z.of_nat (length ps)) < Z.of_nat (length ps)) by (apply Z.rem_bound_pos; lia).
      destruct (Z.leb_spec 0 (Z.rem (idx + 1) (Z.of_nat (length ps)))); [|lia].
      destruct (Z.leb_spec (Z.rem (idx + 1) (Z.of_nat (length ps))) (2 ^ 64 - 1)); [reflexivity|lia]. }
    rewrite G0, A1. cbn [k_bind ZC cbnd]. rewrite R1. cbn [cbnd]. rewrite G1. cbn [cbnd k_ret ZC cret].
    destruct past as [px py], next as [nx ny], q as [qx qy]. cbn [X Y fst snd] in *.
    unfold poly_step, y_in_range, x_in_range.
    cbn [i_le i_min i_max i_eq i_lt ZC gPoint_x gPoint_y Pz P_of fst snd X Y].
    destruct ((Z.min py ny <=? qy) && (qy <=? Z.max py ny)); [|reflexivity].
    destruct (ny =? py). { destruct ((Z.min px nx <=? qx) && (qx <=? Z.max px nx)); reflexivity. }
    rewrite !cast_ok by assumption. cbn [k_bind ZC cbnd i_sub i_mul]. unfold zc_chk.
    rewrite !in_int_i128_sub by assumption. cbn [cbnd].
    unfold all_in_i128, forallb. change in_i128 with (ity_in I128).
    rewrite !in_int_i128_sub by assumption. cbn [andb].
    destruct (ity_in I128 ((nx - px) * (qy - py))); cbn [andb cbnd]; [|reflexivity].
    destruct (ity_in I128 ((qx - px) * (ny - py))); cbn [andb cbnd]; [|reflexivity].
    destruct (ity_in I128 ((nx - px) * (qy - py) - (qx - px) * (ny - py))); cbn [andb cbnd]; [|reflexivity].
    cbn [i_lit ZC].
    destruct (_ =? 0); [reflexivity|].
    destruct (py <? ny).
    - destruct (_ && _); [|reflexivity]. cbn [k_bind ZC cbnd i_add]. unfold zc_chk, ity_in.
      change (ity_min Isize) with (- 2 ^ 63). change (ity_max Isize) with (2 ^ 63 - 1).
      destruct (Z.leb_spec (- 2 ^ 63) (w + 1)); [|lia]. destruct (Z.leb_spec (w + 1) (2 ^ 63 - 1)); [reflexivity|lia].
    - destruct (_ && _); [|reflexivity]. cbn [k_bind ZC cbnd i_sub]. unfold zc_chk, ity_in.
      change (ity_min Isize) with (- 2 ^ 63). change (ity_max Isize) with (2 ^ 63 - 1).
      destruct (Z.leb_spec (- 2 ^ 63) (w - 1)); [|lia]. destruct (Z.leb_spec (w - 1) (2 ^ 63 - 1)); [reflexivity|lia].
  Qed.

  Definition finish (r : cres (ctrl bool Z)) : res :=
    match r with
    | CVal (Brk b) => Ret b
    | CVal (Cont w) => Ret (negb (w =? 0))
    | COvf => Ovf
    | CPanic => Contains.Panic
    end.

  Lemma tie_polygon_contains_loop : forall tl pre a w p0,
    ps = pre ++ a :: tl -> nth_error ps 0 = Some p0 ->
    Z.abs w <= Z.of_nat (length pre) ->
    finish (for_from cret cbnd (S (length tl)) (Z.of_nat (length pre))
              (fun idx st => g_Polygon_contains_loop1 ZC (mk_gPolygon (map Pz ps)) (Pz q) idx st) w)
    = poly_scan (combine (a :: tl) (tl ++ [p0])) q w.
  Proof.
    induction tl as [|b tl IH]; intros pre a w p0 E H0 Hw.
    - assert (Ln : length ps = S (length pre)) by (rewrite E, app_length; cbn; lia).
      assert (Ha : pt_ok a) by (eapply Forall_forall; [exact Hps|rewrite E; apply in_or_app; right; left; reflexivity]).
      assert (Hp0 : pt_ok p0) by (eapply Forall_forall; [exact Hps|eapply nth_error_In; exact H0]).
      cbn [length for_from app combine].
      rewrite (tie_polygon_contains_round (Z.of_nat (length pre)) a p0 w); try assumption; try lia.
      + rewrite poly_scan_step. destruct (poly_step a p0 q w) as [[bb|w']| |]; reflexivity.
      + rewrite E. apply zc_get_mid.
      + rewrite Ln. replace (Z.of_nat (length pre) + 1) with (Z.of_nat (S (length pre))) by lia.
        rewrite Z.rem_same by lia. cbn [v_get ZC]. unfold zc_get. change (0 <? 0) with false. cbv iota.
        change (Z.to_nat 0) with 0%nat. rewrite nth_error_map, H0. reflexivity.
    - assert (Ln : length ps = S (S (length pre + length tl))) by (rewrite E, app_length; cbn; lia).
      assert (Ha : pt_ok a) by (eapply Forall_forall; [exact Hps|rewrite E; apply in_or_app; right; left; reflexivity]).
      assert (Hb : pt_ok b) by (eapply Forall_forall; [exact Hps|rewrite E; apply in_or_app; right; right; left; reflexivity]).
      cbn [length app combine]. cbn [for_from].
      rewrite (tie_polygon_contains_round (Z.of_nat (length pre)) a b w); try assumption; try lia.
      + rewrite poly_scan_step. destruct (poly_step a b q w) as [[bb|w']| |] eqn:St; cbn [cbnd]; try reflexivity.
        replace (Z.of_nat (length pre) + 1) with (Z.of_nat (length (pre ++ [a]))) by (rewrite app_length; cbn; lia).
        apply IH.
        * rewrite E, <- app_assoc. reflexivity.
        * exact H0.
        * apply poly_step_bound in St. rewrite app_length. cbn [length]. lia.
      + rewrite E. apply zc_get_mid.
      + rewrite Z.rem_small by lia.
        replace (Z.of_nat (length pre) + 1) with (Z.of_nat (length (pre ++ [a]))) by (rewrite app_length; cbn; lia).
        rewrite E. replace (pre ++ a :: b :: tl) with ((pre ++ [a]) ++ b :: tl) by (rewrite <- app_assoc; reflexivity).
        apply zc_get_mid.
  Qed.
End Poly.

Lemma tie_polygon_contains : forall (ps : list point) (q : point),
  Forall pt_ok ps -> pt_ok q -> Z.of_nat (length ps) <= 2 ^ 62 ->
  res_of (g_Polygon_contains ZC (mk_gPolygon (map Pz ps)) (Pz q)) = poly_contains ps q.
Proof.
  intros ps q Hps Hq Hlen. unfold g_Polygon_contains, poly_contains. cbn [gPolygon_points].
  rewrite tie_points_bbox. cbn [k_bind ZC cbnd]. rewrite tie_bbox_contains. cbn [k_bind k_ret ZC cbnd cret].
  destruct (negb (bbox_contains (points_bbox ps) q)); [reflexivity|].
  cbn [k_for ZC v_len i_lit]. unfold for_Z. rewrite map_length, Z.sub_0_r, Nat2Z.id.
  destruct ps as [|p0 rest].
  - reflexivity.
  - cbn [length seg_pairs].
    pose proof (tie_polygon_contains_loop (p0 :: rest) q Hps Hq Hlen rest [] p0 0 p0 eq_refl eq_refl) as PL.
    cbn [length Z.of_nat] in PL. rewrite <- PL by (cbn; lia).
    destruct (for_from _ _ _ _ _ _) as [[b|w]| |]; reflexivity.
Qed.
