(** Specification for C12, written from the property statement (not from the code):
    a placement with location (lx, ly), optional reflection about the x-axis and a rotation by a
    whole number of quarter turns moves a point by reflecting first, then rotating
    counter-clockwise, then translating; nested placements compose; flattening a hierarchy yields,
    for every shape, the image of its points under the composition of the placements on its path.
    Only the data types [shape], [element], [layout] are shared with the model. No proofs. *)
From Coq Require Import ZArith List.
From L21 Require Import Geom.Transform.
Import ListNotations.
Local Open Scope Z_scope.

Definition pt : Type := (Z * Z)%type.

(** reflection about the x-axis *)
Definition reflect_x (p : pt) : pt := (fst p, - snd p).
(** a quarter turn counter-clockwise about the origin: (1,0) -> (0,1) -> (-1,0) -> (0,-1) *)
Definition rot90 (p : pt) : pt := (- snd p, fst p).
Fixpoint rot_quarters (n : nat) (p : pt) : pt :=
  match n with O => p | S k => rot90 (rot_quarters k p) end.
Definition translate_by (lx ly : Z) (p : pt) : pt := (fst p + lx, snd p + ly).

(** loc, reflect, number of quarter turns *)
Definition splacement : Type := (Z * Z * bool * nat)%type.

(** reflect, then rotate, then translate *)
Definition place_pt (pl : splacement) (p : pt) : pt :=
  let '(lx, ly, r, q) := pl in
  translate_by lx ly (rot_quarters q (if r then reflect_x p else p)).

(** the image under the composition of the placements on a path (outermost first):
    the innermost placement acts first *)
Definition path_image (path : list splacement) (p : pt) : pt := fold_right place_pt p path.

(** whole degrees -> quarter turns *)
Definition quarters_of (a : Z) : option nat :=
  if a mod 90 =? 0 then Some (Z.to_nat ((a / 90) mod 4)) else None.

Definition place_shape (pl : splacement) (s : shape pt) : shape pt :=
  match s with
  | Rect p0 p1 => Rect (place_pt pl p0) (place_pt pl p1)
  | Polygon pts => Polygon (map (place_pt pl) pts)
  | Path pts w => Path (map (place_pt pl) pts) w
  end.
Definition place_elem (pl : splacement) (e : element pt) : element pt := (fst e, place_shape pl (snd e)).

(** Flattening: the cell's own elements, then, instance by instance in order, the flattened
    content of the instantiated cell moved by the instance's placement.
    [None]: some instantiated cell has no layout (the property is silent). *)
Fixpoint flatten_spec (l : layout splacement pt) : option (list (element pt)) :=
  match l with
  | Layout elems insts =>
    let fix go (is : list (splacement * option (layout splacement pt))) : option (list (element pt)) :=
      match is with
      | [] => Some []
      | (pl, oc) :: rest =>
        match oc with
        | None => None
        | Some c =>
          match flatten_spec c, go rest with
          | Some xs, Some ys => Some (map (place_elem pl) xs ++ ys)
          | _, _ => None
          end
        end
      end in
    match go insts with Some sub => Some (elems ++ sub) | None => None end
  end.

(** A reflected placement is a mirror image: it reverses orientation. The signed area of the
    triangle (p, q, r), doubled. *)
Definition area2 (p q r : pt) : Z :=
  (fst q - fst p) * (snd r - snd p) - (fst r - fst p) * (snd q - snd p).
