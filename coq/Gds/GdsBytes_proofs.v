(** General lemmas about bytes, big-endian integers and lists for the GDSII proofs
    (shared by C01/C02/C03 and C10). First part: builder-gds; builder-c10 appends below the marker
    at the end of the file. No model definitions here. *)
From Coq Require Import ZArith Bool List Lia.
From L21 Require Import Base.Outcome Base.Hex Base.F64 Gds.GdsReal Gds.GdsData Gds.GdsRecord Gds.GdsWrite Gds.GdsRead Gds.GdsSpec.
Import ListNotations.
Local Open Scope Z_scope.

(** * Boolean range predicates *)
Lemma i16b_iff x : i16b x = true <-> -32768 <= x <= 32767.
Proof. unfold i16b. rewrite andb_true_iff, !Z.leb_le. tauto. Qed.
Lemma i32b_iff x : i32b x = true <-> -2147483648 <= x <= 2147483647.
Proof. unfold i32b. rewrite andb_true_iff, !Z.leb_le. tauto. Qed.
Lemma u8b_iff x : u8b x = true <-> 0 <= x <= 255.
Proof. unfold u8b. rewrite andb_true_iff, !Z.leb_le. tauto. Qed.

Lemma forallb_Forall {A} (p : A -> bool) l : forallb p l = true <-> Forall (fun x => p x = true) l.
Proof.
  induction l as [|a l IH]; cbn.
  - split; auto.
  - rewrite andb_true_iff, IH. split.
    + intros [H1 H2]. constructor; auto.
    + intros H. inversion H; auto.
Qed.

(** * [take] / [read_exact] *)
Lemma take_app (a b : bytes) : take (length a) (a ++ b) = Some (a, b).
Proof. induction a as [|x a IH]; cbn; [reflexivity | rewrite IH; reflexivity]. Qed.

Lemma read_exact_app (a b : bytes) n :
  n = Z.of_nat (length a) -> read_exact n (a ++ b) = Ok (a, b).
Proof. intros ->. unfold read_exact. rewrite Nat2Z.id, take_app. reflexivity. Qed.

Lemma take_length n bs a r : take n bs = Some (a, r) -> length a = n /\ bs = a ++ r.
Proof.
  revert bs a r. induction n as [|n IH]; intros bs a r; cbn.
  - intros H. inversion H. auto.
  - destruct bs as [|b bs]; [discriminate|].
    destruct (take n bs) as [[a' r']|] eqn:E; [|discriminate].
    intros H. inversion H; subst. destruct (IH _ _ _ E) as [H1 H2]. subst. cbn. auto.
Qed.

Lemma take_none n bs : take n bs = None <-> (length bs < n)%nat.
Proof.
  revert bs. induction n as [|n IH]; intros bs; cbn.
  - split; [discriminate | lia].
  - destruct bs as [|b bs]; cbn.
    + split; [lia | reflexivity].
    + specialize (IH bs). destruct (take n bs) as [[a r]|].
      * split; [discriminate|]. intros H. assert (length bs < n)%nat by lia. apply IH in H0. discriminate.
      * split; [|reflexivity]. intros _. assert (length bs < n)%nat by (apply IH; reflexivity). lia.
Qed.

(** * Big-endian integers of the model: [be16] [be32] [be64] against [u16_of] .. [octs64] *)
Lemma u16_of_be16 x : 0 <= x < 65536 -> u16_of ((x / 256) mod 256) (x mod 256) = x.
Proof. intros H. unfold u16_of. Z.div_mod_to_equations. lia. Qed.

Lemma i16_of_be16 x : -32768 <= x <= 32767 -> i16_of ((x / 256) mod 256) (x mod 256) = x.
Proof.
  intros H. unfold i16_of, u16_of.
  destruct (Z.ltb_spec ((x / 256) mod 256 * 256 + x mod 256) 32768); Z.div_mod_to_equations; lia.
Qed.

Lemma u32_of_be32 x :
  u32_of ((x / 16777216) mod 256) ((x / 65536) mod 256) ((x / 256) mod 256) (x mod 256) = x mod 4294967296.
Proof. unfold u32_of. Z.div_mod_to_equations. lia. Qed.

Lemma i32_of_be32 x : -2147483648 <= x <= 2147483647 ->
  i32_of ((x / 16777216) mod 256) ((x / 65536) mod 256) ((x / 256) mod 256) (x mod 256) = x.
Proof.
  intros H. unfold i32_of. rewrite u32_of_be32.
  destruct (Z.ltb_spec (x mod 4294967296) 2147483648); Z.div_mod_to_equations; lia.
Qed.

Lemma pairs16_be16 l : Forall (fun x => i16b x = true) l -> pairs16 (flat_map be16 l) = l.
Proof.
  induction 1 as [|x l Hx _ IH]; [reflexivity|].
  cbn [flat_map be16 app pairs16]. rewrite IH, i16_of_be16; [reflexivity | apply i16b_iff; exact Hx].
Qed.

Lemma quads32_be32 l : Forall (fun x => i32b x = true) l -> quads32 (flat_map be32 l) = l.
Proof.
  induction 1 as [|x l Hx _ IH]; [reflexivity|].
  cbn [flat_map be32 app quads32]. rewrite IH, i32_of_be32; [reflexivity | apply i32b_iff; exact Hx].
Qed.

Lemma octs64_be64 l : Forall (fun w => 0 <= w < two64) l -> octs64 (flat_map be64 l) = l.
Proof.
  induction 1 as [|w l Hw _ IH]; [reflexivity|].
  cbn [flat_map]. unfold be64 at 1. cbn [be32 app octs64].
  rewrite IH, !u32_of_be32. f_equal. unfold two64 in Hw. Z.div_mod_to_equations. lia.
Qed.

Lemma length_flat_map_const {A B} (f : A -> list B) n l :
  (forall x, length (f x) = n) -> length (flat_map f l) = (n * length l)%nat.
Proof.
  intros H. induction l as [|a l IH]; cbn; [lia|]. rewrite app_length, H, IH. lia.
Qed.
Lemma length_be16s l : length (flat_map be16 l) = (2 * length l)%nat.
Proof. apply length_flat_map_const. reflexivity. Qed.
Lemma length_be32s l : length (flat_map be32 l) = (4 * length l)%nat.
Proof. apply length_flat_map_const. reflexivity. Qed.
Lemma length_be64s {A} (g : A -> Z) l : length (flat_map (fun x => be64 (g x)) l) = (8 * length l)%nat.
Proof. apply length_flat_map_const. reflexivity. Qed.

(** * Record / data type codes *)
Lemma rtype_of_Z_code r : rtype_of_Z (rtype_code r) = Some r.
Proof. destruct r; reflexivity. Qed.
Lemma dtype_of_Z_code d : dtype_of_Z (dtype_code d) = Some d.
Proof. destruct d; reflexivity. Qed.
Lemma rtype_code_range r : 0 <= rtype_code r < 60.
Proof. destruct r; cbn; lia. Qed.
Lemma rtype_eqb_eq a b : rtype_eqb a b = true <-> a = b.
Proof. unfold rtype_eqb. rewrite Z.eqb_eq. split; [|intros ->; reflexivity]. destruct a, b; cbn; intros H; try reflexivity; discriminate. Qed.
Lemma dtype_eqb_eq a b : dtype_eqb a b = true <-> a = b.
Proof. unfold dtype_eqb. rewrite Z.eqb_eq. split; [|intros ->; reflexivity]. destruct a, b; cbn; intros H; try reflexivity; discriminate. Qed.
Lemma rtype_eqb_refl a : rtype_eqb a a = true.
Proof. apply rtype_eqb_eq. reflexivity. Qed.
Lemma dtype_eqb_refl a : dtype_eqb a a = true.
Proof. apply dtype_eqb_eq. reflexivity. Qed.

(** * Big-endian integers of the specification: [be_nat] [unsigned_be] [signed_be] [chunks] *)
Lemma be_nat_length n x : length (be_nat n x) = n.
Proof. revert x. induction n as [|n IH]; intros x; cbn; [reflexivity|]. rewrite app_length, IH. cbn. lia. Qed.

Lemma be16_be_nat x : be16 x = be_nat 2 x.
Proof. reflexivity. Qed.
Lemma be32_be_nat x : be32 x = be_nat 4 x.
Proof.
  unfold be32. cbn [be_nat app]. rewrite !Z.div_div by lia. reflexivity.
Qed.
Lemma be_nat_mod n x : be_nat n (x mod 256 ^ Z.of_nat n) = be_nat n x.
Proof.
  revert x. induction n as [|n IH]; intros x; [reflexivity|].
  cbn [be_nat]. rewrite Nat2Z.inj_succ, Z.pow_succ_r by lia.
  assert (Hp : 0 < 256 ^ Z.of_nat n) by (apply Z.pow_pos_nonneg; lia).
  f_equal.
  - rewrite <- (IH (x / 256)), <- (IH (x mod (256 * 256 ^ Z.of_nat n) / 256)). f_equal.
    rewrite Z.rem_mul_r by lia.
    replace (x mod 256 + 256 * ((x / 256) mod 256 ^ Z.of_nat n)) with (x mod 256 + ((x / 256) mod 256 ^ Z.of_nat n) * 256) by ring.
    rewrite Z.div_add by lia. rewrite (Z.div_small (x mod 256)) by (apply Z.mod_pos_bound; lia).
    rewrite Z.add_0_l. rewrite Z.mod_mod by lia. reflexivity.
  - f_equal. rewrite Z.rem_mul_r by lia.
    replace (x mod 256 + 256 * ((x / 256) mod 256 ^ Z.of_nat n)) with (x mod 256 + ((x / 256) mod 256 ^ Z.of_nat n) * 256) by ring.
    rewrite Z.mod_add by lia. apply Z.mod_mod. lia.
Qed.
Lemma be_nat_add a b x : be_nat (a + b) x = be_nat a (x / 256 ^ Z.of_nat b) ++ be_nat b x.
Proof.
  revert x. induction b as [|b IH]; intros x.
  - rewrite Nat.add_0_r. cbn. rewrite Z.div_1_r, app_nil_r. reflexivity.
  - rewrite Nat.add_succ_r. cbn [be_nat]. rewrite IH, app_assoc. do 2 f_equal.
    rewrite Nat2Z.inj_succ, Z.pow_succ_r by lia. rewrite Z.div_div; [reflexivity | lia | apply Z.pow_pos_nonneg; lia].
Qed.
Lemma be64_be_nat x : be64 x = be_nat 8 x.
Proof.
  unfold be64. rewrite !be32_be_nat. change 8%nat with (4 + 4)%nat. rewrite be_nat_add. f_equal.
  change 4294967296 with (256 ^ Z.of_nat 4). apply be_nat_mod.
Qed.

Lemma unsigned_be_app a b : unsigned_be (a ++ [b]) = unsigned_be a * 256 + b.
Proof. unfold unsigned_be. rewrite fold_left_app. reflexivity. Qed.
Lemma unsigned_be_be_nat n x : unsigned_be (be_nat n x) = x mod 256 ^ Z.of_nat n.
Proof.
  revert x. induction n as [|n IH]; intros x.
  - cbn. rewrite Z.mod_1_r. reflexivity.
  - cbn [be_nat]. rewrite unsigned_be_app, IH, Nat2Z.inj_succ, Z.pow_succ_r by lia.
    assert (Hp : 0 < 256 ^ Z.of_nat n) by (apply Z.pow_pos_nonneg; lia).
    rewrite Z.rem_mul_r by lia. ring.
Qed.
Lemma signed_be_be_nat n x :
  (0 < n)%nat -> - (256 ^ Z.of_nat n) <= 2 * x < 256 ^ Z.of_nat n -> signed_be (be_nat n x) = x.
Proof.
  intros Hn Hx. unfold signed_be. rewrite unsigned_be_be_nat, be_nat_length.
  assert (Hp : 0 < 256 ^ Z.of_nat n) by (apply Z.pow_pos_nonneg; lia).
  set (m := 256 ^ Z.of_nat n) in *.
  destruct (Z_lt_le_dec x 0) as [Hneg|Hpos].
  - assert (E : x mod m = x + m).
    { rewrite <- (Z.mod_add x 1 m) by lia. rewrite Z.mul_1_l. apply Z.mod_small. lia. }
    rewrite E. destruct (Z.ltb_spec (2 * (x + m)) m); lia.
  - rewrite Z.mod_small by lia. destruct (Z.ltb_spec (2 * x) m); lia.
Qed.

Lemma firstn_skipn_app {A} (a b : list A) : firstn (length a) (a ++ b) = a /\ skipn (length a) (a ++ b) = b.
Proof.
  split.
  - rewrite firstn_app, Nat.sub_diag, firstn_all. cbn. apply app_nil_r.
  - rewrite skipn_app, Nat.sub_diag, skipn_all. reflexivity.
Qed.

Lemma chunks_be_nat n fuel l :
  (0 < n)%nat -> (length l <= fuel)%nat -> chunks n fuel (flat_map (be_nat n) l) = map (be_nat n) l.
Proof.
  intros Hn. revert fuel. induction l as [|x l IH]; intros fuel Hf.
  - destruct fuel; reflexivity.
  - destruct fuel as [|fuel]; [cbn in Hf; lia|].
    cbn [flat_map map chunks].
    destruct (be_nat n x ++ flat_map (be_nat n) l) eqn:E.
    + exfalso. assert (H := be_nat_length n x). apply (f_equal (@length Z)) in E. rewrite app_length in E. cbn in E. lia.
    + rewrite <- E. pose proof (firstn_skipn_app (be_nat n x) (flat_map (be_nat n) l)) as [H1 H2].
      rewrite be_nat_length in H1, H2. rewrite H1, H2, IH; [reflexivity | cbn in Hf; lia].
Qed.

Lemma enc_ints_length n l : length (enc_ints n l) = (n * length l)%nat.
Proof. apply length_flat_map_const. apply be_nat_length. Qed.

Lemma dec_ints_enc_ints n l :
  (0 < n)%nat -> Forall (fun x => - (256 ^ Z.of_nat n) <= 2 * x < 256 ^ Z.of_nat n) l ->
  dec_ints n (enc_ints n l) = Some l.
Proof.
  intros Hn Hl. unfold dec_ints. rewrite enc_ints_length.
  rewrite Nat.mul_comm, Nat.mod_mul by lia. cbn [Nat.eqb].
  unfold enc_ints. rewrite chunks_be_nat; [|exact Hn|nia].
  f_equal. rewrite map_map. induction Hl as [|x l Hx _ IH]; [reflexivity|].
  cbn [map]. rewrite IH, signed_be_be_nat by assumption. reflexivity.
Qed.

(* ==== builder-c10 section (append below) ==== *)
