(** Reading of the generated `GdsFloat64::decode` (Gen/KernelsGen.v) at the level of Gds/GdsReal.v.

    GdsReal.v gives the float part of decode a single exact semantics (one rounding, `mantissa as f64`,
    the division by 2^56 and the multiplication by 16^exp being exact).  What the generated function is
    compared with here is therefore (a) the BIT EXTRACTION -- sign, seven-bit exponent, 56-bit mantissa:
    [gds_sign], [gds_exp7], [gds_mant] -- over Z with the range checks of the integer types, and (b) the
    SHAPE of the float expression built from them (which operations, in which order, on which operands),
    with f64 read as the free term algebra [fexp].  No proofs in this file. *)
From Coq Require Import ZArith Bool List.
From L21 Require Import Base.KernelOps Base.F64 Gen.KernelsGen Gds.GdsReal.
Local Open Scope Z_scope.

(** float expressions, uninterpreted *)
Inductive fexp : Type :=
| FZero | FOne
| FLit (m e10 : Z)
| FOfInt (t : ity) (n : Z)                 (* `n as f64` *)
| FAdd (a b : fexp) | FSub (a b : fexp) | FMul (a b : fexp) | FDiv (a b : fexp)
| FNeg (a : fexp)
| FPowi (a : fexp) (n : Z)
| FOther (name : nat) (a : fexp).           (* round / rem_euclid / to_radians / sin / cos: not used by decode *)

(** integers: Z with the range check of the operation's type ([None]: overflow panic of a debug build);
    `as` between integer types wraps *)
Definition sy_chk (t : ity) (z : Z) : option Z := if ity_in t z then Some z else None.
Definition sy_wrap (t : ity) (z : Z) : Z :=
  if ity_in t z then z else (z - ity_min t) mod (ity_max t - ity_min t + 1) + ity_min t.
Definition sret (A : Type) (a : A) : option A := Some a.
Definition sbnd (A B : Type) (x : option A) (f : A -> option B) : option B :=
  match x with Some a => f a | None => None end.
Definition sym_kops : kops option fexp Z :=
  {| k_ret := sret; k_bind := sbnd; k_panic := fun A => None;
     f_zero := FZero; f_one := FOne; f_lit := FLit;
     f_add := fun a b => Some (FAdd a b); f_sub := fun a b => Some (FSub a b);
     f_mul := fun a b => Some (FMul a b); f_div := fun a b => Some (FDiv a b);
     f_neg := fun a => Some (FNeg a);
     f_eq := fun _ _ => false; f_lt := fun _ _ => false; f_le := fun _ _ => false;
     f_round := fun a => Some (FOther 0 a); f_rem_euclid := fun a _ => Some (FOther 1 a);
     f_to_radians := fun a => Some (FOther 2 a); f_sin := fun a => Some (FOther 3 a); f_cos := fun a => Some (FOther 4 a);
     f_powi := fun a n => Some (FPowi a n);
     i_lit := fun z => z; i_minval := ity_min; i_maxval := ity_max;
     i_add := fun t a b => sy_chk t (a + b); i_sub := fun t a b => sy_chk t (a - b);
     i_mul := fun t a b => sy_chk t (a * b);
     i_div := fun t a b => if b =? 0 then None else sy_chk t (Z.quot a b);
     i_rem := fun t a b => if b =? 0 then None else sy_chk t (Z.rem a b);
     i_neg := fun t a => sy_chk t (- a);
     i_and := fun t a b => Some (Z.land a b); i_or := fun t a b => Some (Z.lor a b);
     i_shl := fun t a b => None;
     i_shr := fun t a b => if (0 <=? b) && (b <? 64) then Some (Z.shiftr a b) else None;
     i_min := Z.min; i_max := Z.max; i_eq := Z.eqb; i_lt := Z.ltb; i_le := Z.leb;
     i_cast := fun _ t z => Some (sy_wrap t z);
     i_try_from := fun _ t z => sy_chk t z;
     i_to_f := fun t n => Some (FOfInt t n);
     f_to_i := fun _ _ => None;
     v_len := fun A l => Z.of_nat (length l); v_get := fun A _ _ => None;
     k_for := fun Rt St _ _ _ _ => None |}.

(** the expression `decode` evaluates, given the three fields: `mantissa as f64 / 2f64.powi(8 * 7)`, then
    `-1.0 * mantissa * 16f64.powi(exp)` or `mantissa * 16f64.powi(exp)` *)
Definition decode_expr (neg : bool) (mant : Z) (exp : Z) : fexp :=
  let m := FDiv (FOfInt U64 mant) (FPowi (FLit 2 0) 56) in
  if neg then FMul (FMul (FNeg FOne) m) (FPowi (FLit 16 0) exp)
  else FMul m (FPowi (FLit 16 0) exp).
