(** Tie (a) of DESIGN.md 2.3 for the GDSII reader, record level (family "gds_read", properties C01, C03, C10): the definitions
    generated from gds21/src/read.rs `GdsReader::read_record_header` (length below 4 / odd length, record type by number and
    `valid()`, data type by number), `read_record_content` (the 49 arms over (record type, data type, length) with their typed reads
    and the fields each variant takes) and `read_record`, and from data.rs `GdsRecordType::valid` (Gen/KernelsGdsReadGen.v), read as
    in Gds/KernelsInstGdsRead.v, EQUAL [read_header], [read_content], [read_record], [rtype_valid] of Gds/GdsRead.v / GdsRecord.v,
    the `GdsError` variant apart. *)
From Coq Require Import ZArith Bool List Lia.
From L21 Require Import Base.KernelOps Base.KernelOpsX Base.KernelOpsS Base.KernelOpsL Base.Outcome Gen.KernelsGdsReadGen.
From L21 Require Import Gds.GdsReal Gds.GdsData Gds.GdsRecord Gds.GdsRead Gds.KernelsInstGdsRead.
Import ListNotations.
Local Open Scope Z_scope.

Ltac rs := cbn [rd_xops kx_base rd_kops k_bind k_ret k_panic k_fail i_lit i_eq i_lt i_sub i_rem v_get]; unfold rd_bind, rd_ret, rd_pan, rd_err.

Lemma tie_valid : forall r bs, g_valid r bs = Ok (rtype_valid r, bs).
Proof. intros r bs. destruct r; reflexivity. Qed.

Definition hdr_of (x : rtype * dtype * Z * bytes) : gGdsRecordHeader Z Z * bytes :=
  let '(rt, dt, len, r) := x in (Ghdr rt dt len, r).

Lemma tie_read_record_header : forall bs, forallb u8b (firstn 2 bs) = true ->
  g_read_record_header bs = ounit (omap hdr_of (read_header bs)).
Proof.
  intros bs H. unfold g_read_record_header, g_GdsReader_read_record_header, read_header.
  destruct bs as [|b0 [|b1 r1]]; try reflexivity.
  cbn [firstn forallb] in H. rewrite andb_true_r in H. apply andb_true_iff in H. destruct H as [H0 H1].
  unfold u8b in H0, H1. apply andb_true_iff in H0. apply andb_true_iff in H1. destruct H0 as [A0 B0], H1 as [A1 B1].
  apply Z.leb_le in A0, B0, A1, B1.
  rs. unfold x_read_u16 at 1. cbv beta iota.
  set (num := u16_of b0 b1). assert (Hn : 0 <= num <= 65535) by (unfold num, u16_of; lia).
  destruct (num <? 4) eqn:E4; [reflexivity|]. apply Z.ltb_ge in E4.
  cbv beta iota zeta. change (2 =? 0) with false. cbv iota. unfold rd_chk.
  assert (R : ity_in U16 (Z.rem num 2) = true).
  { unfold ity_in. change (ity_min U16) with 0. change (ity_max U16) with 65535. rewrite Z.rem_mod_nonneg by lia.
    apply andb_true_iff; split; apply Z.leb_le; [apply Z.mod_pos_bound; lia | pose proof (Z.mod_pos_bound num 2); lia]. }
  rewrite R. unfold rd_ret. cbv beta iota. rewrite Z.rem_mod_nonneg by lia.
  destruct (num mod 2 =? 0) eqn:Em; cbn [negb]; [|reflexivity].
  assert (S4 : ity_in U16 (num - 4) = true).
  { unfold ity_in. change (ity_min U16) with 0. change (ity_max U16) with 65535. apply andb_true_iff; split; apply Z.leb_le; lia. }
  rewrite S4. cbv beta iota.
  destruct r1 as [|rt r2]; [reflexivity|]. unfold x_read_u8 at 1. cbv beta iota.
  unfold x_rt_from_u8, rd_ret. destruct (rtype_of_Z rt) as [rty|]; cbn [option_map]; [|reflexivity].
  change (g_GdsRecordType_valid rd_xops (Grt rty)) with (g_valid rty). rewrite tie_valid. cbv beta iota.
  destruct (rtype_valid rty); cbn [negb]; [|reflexivity].
  destruct r2 as [|dt r3]; [reflexivity|]. unfold x_read_u8. cbv beta iota.
  unfold x_dt_from_u8, rd_ret. destruct (dtype_of_Z dt) as [d|]; cbn [option_map]; reflexivity.
Qed.

Ltac prep :=
  unfold g_read_record_content, read_content;
  cbv beta zeta iota delta [g_GdsReader_read_record_content Ghdr Grt Gdty gGdsRecordHeader_rtype gGdsRecordHeader_dtype gGdsRecordHeader_len
                            arm_of dtype_eqb dtype_code len_matches];
  rs.

Lemma need_0 : forall l, need 0 l = Ok l.
Proof. intros l. unfold need. destruct (0 <=? Z.of_nat (length l)) eqn:E; [reflexivity|]. apply Z.leb_gt in E. lia. Qed.

Lemma tie_read_record_content : forall rt dt len bs,
  as_rec (g_read_record_content rt dt len bs) = ounit (read_content true rt dt len bs).
Proof.
  intros rt dt len bs.
  destruct rt; destruct dt; prep; try reflexivity.
  all: try (match goal with |- context [?l =? ?n] => is_var l;
         rewrite (Z.eqb_sym n l); destruct (l =? n) eqn:E; [apply Z.eqb_eq in E; subst l | reflexivity] end).
  all: unfold x_read_i16, x_read_i32, x_read_f64, x_read_bytes, x_read_str, read_exact.
  all: try (match goal with |- context [take (Z.to_nat ?n) ?b] => is_var b;
         let k := eval compute in (Z.to_nat n) in change (Z.to_nat n) with k;
         do 25 (try (destruct b as [|? b]; [reflexivity|])); reflexivity end).
  all: try reflexivity.
  all: try (match goal with |- context [read_str true ?l ?b] => destruct (read_str true l b) as [[? ?]| | |]; reflexivity end).
  all: try (match goal with |- context [take ?n ?b] => destruct (take n b) as [[? ?]|]; reflexivity end).
  cbn [fixed_count]. destruct (take (Z.to_nat len) bs) as [[d r]|]; [|reflexivity].
  cbn [omap obind ounit fst snd]. rewrite need_0. reflexivity.
Qed.

(** `read_record` = header, then content.  (The generated `read_record_content` is a chain of 49 arms behind names: conversion
    must not unfold it where the two sides already agree.) *)
Strategy opaque [g_GdsReader_read_record_content].
Lemma read_record_unfold : forall bs, g_read_record bs =
  match g_read_record_header bs with
  | Ok (h, bs') => g_GdsReader_read_record_content rd_xops bytes x_read_bytes x_read_f64 x_read_i16 x_read_i32 x_read_str h bs'
  | Err e => Err e | Panic => Panic | OutOfFuel => OutOfFuel end.
Proof. intros bs. reflexivity. Qed.
Lemma tie_read_record : forall bs, forallb u8b (firstn 2 bs) = true ->
  as_rec (g_read_record bs) = ounit (read_record true bs).
Proof.
  intros bs H. rewrite read_record_unfold. rewrite (tie_read_record_header bs H). unfold read_record.
  destruct (read_header bs) as [[[[rt dt] len] r]| | |]; try reflexivity.
  exact (tie_read_record_content rt dt len r).
Qed.
