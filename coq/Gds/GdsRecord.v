(** Record layer of gds21/src/data.rs: GdsRecordType, GdsDataType, GdsRecord, GdsError kinds.
    A [record] is a record type plus a payload by data type; the shapes the Rust enum `GdsRecord`
    allows (Header: one i16, BgnLib: twelve, ColRow: two, Units: two reals, ...) are the
    fixed lengths of table [arm_of], which is the (record type, data type, length) table used by
    BOTH `write_record_header` (write.rs) and `read_record_content` (read.rs); tools/translate_gds_tables.py
    extracts both tables from the Rust source and Properties/C02.v proves them equal to this one.
    No proofs in this file. *)
From Coq Require Import ZArith Bool List String.
From L21 Require Import Base.Hex Gds.GdsData.
Import ListNotations.
Local Open Scope Z_scope.

Inductive rtype :=
| Header | BgnLib | LibName | Units | EndLib | BgnStruct | StructName | EndStruct
| Boundary | Path | StructRef | ArrayRef | Text | Layer | DataType | Width
| Xy | EndElement | StructRefName | ColRow | TextNode | Node | TextType | Presentation
| Spacing | RString | Strans | Mag | Angle | Uinteger | Ustring | RefLibs
| Fonts | PathType | Generations | AttrTable | StypTable | StrType | ElemFlags | ElemKey
| LinkType | LinkKeys | Nodetype | PropAttr | PropValue | RBox | BoxType | Plex
| BeginExtn | EndExtn | TapeNum | TapeCode | StrClass | Reserved | Format | Mask
| EndMasks | LibDirSize | SrfName | LibSecur.

(** declaration order of `enum GdsRecordType` = numeric value (first variant `= 0x00`) *)
Definition all_rtypes : list rtype :=
  [Header; BgnLib; LibName; Units; EndLib; BgnStruct; StructName; EndStruct;
   Boundary; Path; StructRef; ArrayRef; Text; Layer; DataType; Width;
   Xy; EndElement; StructRefName; ColRow; TextNode; Node; TextType; Presentation;
   Spacing; RString; Strans; Mag; Angle; Uinteger; Ustring; RefLibs;
   Fonts; PathType; Generations; AttrTable; StypTable; StrType; ElemFlags; ElemKey;
   LinkType; LinkKeys; Nodetype; PropAttr; PropValue; RBox; BoxType; Plex;
   BeginExtn; EndExtn; TapeNum; TapeCode; StrClass; Reserved; Format; Mask;
   EndMasks; LibDirSize; SrfName; LibSecur].

Definition rtype_code (r : rtype) : Z :=
  match r with
  | Header => 0 | BgnLib => 1 | LibName => 2 | Units => 3 | EndLib => 4 | BgnStruct => 5 | StructName => 6 | EndStruct => 7
  | Boundary => 8 | Path => 9 | StructRef => 10 | ArrayRef => 11 | Text => 12 | Layer => 13 | DataType => 14 | Width => 15
  | Xy => 16 | EndElement => 17 | StructRefName => 18 | ColRow => 19 | TextNode => 20 | Node => 21 | TextType => 22 | Presentation => 23
  | Spacing => 24 | RString => 25 | Strans => 26 | Mag => 27 | Angle => 28 | Uinteger => 29 | Ustring => 30 | RefLibs => 31
  | Fonts => 32 | PathType => 33 | Generations => 34 | AttrTable => 35 | StypTable => 36 | StrType => 37 | ElemFlags => 38 | ElemKey => 39
  | LinkType => 40 | LinkKeys => 41 | Nodetype => 42 | PropAttr => 43 | PropValue => 44 | RBox => 45 | BoxType => 46 | Plex => 47
  | BeginExtn => 48 | EndExtn => 49 | TapeNum => 50 | TapeCode => 51 | StrClass => 52 | Reserved => 53 | Format => 54 | Mask => 55
  | EndMasks => 56 | LibDirSize => 57 | SrfName => 58 | LibSecur => 59
  end.

(** `FromPrimitive::from_u8` *)
Definition rtype_of_Z (n : Z) : option rtype :=
  if (0 <=? n) && (n <? 60) then nth_error all_rtypes (Z.to_nat n) else None.

(** Rust variant names (the two that clash with Coq identifiers are renamed RString, RBox) *)
Definition rtype_name (r : rtype) : string :=
  match r with
  | Header => "Header" | BgnLib => "BgnLib" | LibName => "LibName" | Units => "Units" | EndLib => "EndLib"
  | BgnStruct => "BgnStruct" | StructName => "StructName" | EndStruct => "EndStruct"
  | Boundary => "Boundary" | Path => "Path" | StructRef => "StructRef" | ArrayRef => "ArrayRef" | Text => "Text"
  | Layer => "Layer" | DataType => "DataType" | Width => "Width"
  | Xy => "Xy" | EndElement => "EndElement" | StructRefName => "StructRefName" | ColRow => "ColRow"
  | TextNode => "TextNode" | Node => "Node" | TextType => "TextType" | Presentation => "Presentation"
  | Spacing => "Spacing" | RString => "String" | Strans => "Strans" | Mag => "Mag" | Angle => "Angle"
  | Uinteger => "Uinteger" | Ustring => "Ustring" | RefLibs => "RefLibs"
  | Fonts => "Fonts" | PathType => "PathType" | Generations => "Generations" | AttrTable => "AttrTable"
  | StypTable => "StypTable" | StrType => "StrType" | ElemFlags => "ElemFlags" | ElemKey => "ElemKey"
  | LinkType => "LinkType" | LinkKeys => "LinkKeys" | Nodetype => "Nodetype" | PropAttr => "PropAttr"
  | PropValue => "PropValue" | RBox => "Box" | BoxType => "BoxType" | Plex => "Plex"
  | BeginExtn => "BeginExtn" | EndExtn => "EndExtn" | TapeNum => "TapeNum" | TapeCode => "TapeCode"
  | StrClass => "StrClass" | Reserved => "Reserved" | Format => "Format" | Mask => "Mask"
  | EndMasks => "EndMasks" | LibDirSize => "LibDirSize" | SrfName => "SrfName" | LibSecur => "LibSecur"
  end.

(** `GdsRecordType::valid` *)
Definition rtype_valid (r : rtype) : bool :=
  match r with
  | TextNode | Spacing | Uinteger | Ustring | StypTable | StrType | ElemKey | LinkType | LinkKeys
  | StrClass | Reserved => false
  | _ => true
  end.

Definition rtype_eqb (a b : rtype) : bool := rtype_code a =? rtype_code b.

Inductive dtype := DNoData | DBitArray | DI16 | DI32 | DF32 | DF64 | DStr.
Definition all_dtypes : list dtype := [DNoData; DBitArray; DI16; DI32; DF32; DF64; DStr].
Definition dtype_code (d : dtype) : Z :=
  match d with DNoData => 0 | DBitArray => 1 | DI16 => 2 | DI32 => 3 | DF32 => 4 | DF64 => 5 | DStr => 6 end.
Definition dtype_of_Z (n : Z) : option dtype :=
  if (0 <=? n) && (n <? 7) then nth_error all_dtypes (Z.to_nat n) else None.
Definition dtype_name (d : dtype) : string :=
  match d with DNoData => "NoData" | DBitArray => "BitArray" | DI16 => "I16" | DI32 => "I32"
             | DF32 => "F32" | DF64 => "F64" | DStr => "Str" end.
Definition dtype_eqb (a b : dtype) : bool := dtype_code a =? dtype_code b.

(** Payload length of an arm: a fixed number of bytes, or `_` (any). *)
Inductive lenspec := LFixed (n : Z) | LAny.

(** The (record type -> data type, length) table of `write_record_header` and the arms of
    `read_record_content`. [None]: the record type has no `GdsRecord` variant / no arm. *)
Definition arm_of (r : rtype) : option (dtype * lenspec) :=
  match r with
  | Header => Some (DI16, LFixed 2)
  | BgnLib => Some (DI16, LFixed 24)
  | LibName => Some (DStr, LAny)
  | Units => Some (DF64, LFixed 16)
  | EndLib => Some (DNoData, LFixed 0)
  | BgnStruct => Some (DI16, LFixed 24)
  | StructName => Some (DStr, LAny)
  | StructRefName => Some (DStr, LAny)
  | EndStruct => Some (DNoData, LFixed 0)
  | Boundary => Some (DNoData, LFixed 0)
  | Path => Some (DNoData, LFixed 0)
  | StructRef => Some (DNoData, LFixed 0)
  | ArrayRef => Some (DNoData, LFixed 0)
  | Text => Some (DNoData, LFixed 0)
  | Layer => Some (DI16, LFixed 2)
  | DataType => Some (DI16, LFixed 2)
  | Width => Some (DI32, LFixed 4)
  | Xy => Some (DI32, LAny)
  | EndElement => Some (DNoData, LFixed 0)
  | ColRow => Some (DI16, LFixed 4)
  | Node => Some (DNoData, LFixed 0)
  | TextType => Some (DI16, LFixed 2)
  | Presentation => Some (DBitArray, LFixed 2)
  | RString => Some (DStr, LAny)
  | Strans => Some (DBitArray, LFixed 2)
  | Mag => Some (DF64, LFixed 8)
  | Angle => Some (DF64, LFixed 8)
  | RefLibs => Some (DStr, LAny)
  | Fonts => Some (DStr, LAny)
  | PathType => Some (DI16, LFixed 2)
  | Generations => Some (DI16, LFixed 2)
  | AttrTable => Some (DStr, LAny)
  | ElemFlags => Some (DBitArray, LFixed 2)
  | Nodetype => Some (DI16, LFixed 2)
  | PropAttr => Some (DI16, LFixed 2)
  | PropValue => Some (DStr, LAny)
  | RBox => Some (DNoData, LFixed 0)
  | BoxType => Some (DI16, LFixed 2)
  | Plex => Some (DI32, LFixed 4)
  | BeginExtn => Some (DI32, LFixed 4)
  | EndExtn => Some (DI32, LFixed 4)
  | TapeNum => Some (DI16, LFixed 2)
  | TapeCode => Some (DI16, LFixed 12)
  | Format => Some (DI16, LFixed 2)
  | Mask => Some (DStr, LAny)
  | EndMasks => Some (DNoData, LFixed 0)
  | LibDirSize => Some (DI16, LFixed 2)
  | SrfName => Some (DStr, LAny)
  | LibSecur => Some (DI16, LFixed 2)
  | TextNode | Spacing | Uinteger | Ustring | StypTable | StrType | ElemKey | LinkType | LinkKeys
  | StrClass | Reserved => None
  end.

(** The table in printable form, for comparison with the generated tables. -1 stands for `_`. *)
Definition arm_table : list (string * string * Z) :=
  flat_map (fun r => match arm_of r with
                     | Some (d, LFixed n) => [(rtype_name r, dtype_name d, n)]
                     | Some (d, LAny) => [(rtype_name r, dtype_name d, -1)]
                     | None => []
                     end) all_rtypes.
Definition rtype_table : list (string * Z) := map (fun r => (rtype_name r, rtype_code r)) all_rtypes.
Definition dtype_table : list (string * Z) := map (fun d => (dtype_name d, dtype_code d)) all_dtypes.
Definition invalid_table : list string :=
  flat_map (fun r => if rtype_valid r then [] else [rtype_name r]) all_rtypes.

(** Payload by data type. Doubles in [PF64] are IEEE bit patterns (decoded values). *)
Inductive payload :=
| PNone
| PBits (b0 b1 : Z)
| PI16 (l : list Z)
| PI32 (l : list Z)
| PF64 (l : list Z)
| PStr (s : bytes).

Definition record := (rtype * payload)%type.

Definition payload_eqb (a b : payload) : bool :=
  match a, b with
  | PNone, PNone => true
  | PBits a0 a1, PBits b0 b1 => (a0 =? b0) && (a1 =? b1)
  | PI16 x, PI16 y | PI32 x, PI32 y | PF64 x, PF64 y | PStr x, PStr y => zlist_eqb x y
  | _, _ => false
  end.
Definition record_eqb (a b : record) : bool := rtype_eqb (fst a) (fst b) && payload_eqb (snd a) (snd b).

(** `self.nxt == GdsRecord::EndLib` *)
Definition is_endlib (r : record) : bool := match fst r with EndLib => true | _ => false end.

(** Variants of `GdsError` *)
Inductive ekind :=
| ERecordDecode | ERecordLen | EInvalidDataType | EInvalidRecordType | EUnsupported | EParse | EBoxed | EStr.
Definition ekind_code (e : ekind) : Z :=
  match e with ERecordDecode => 0 | ERecordLen => 1 | EInvalidDataType => 2 | EInvalidRecordType => 3
             | EUnsupported => 4 | EParse => 5 | EBoxed => 6 | EStr => 7 end.
Definition ekind_eqb (a b : ekind) : bool := ekind_code a =? ekind_code b.

(** Big-endian two's-complement integers *)
Definition be16 (x : Z) : bytes := [(x / 256) mod 256; x mod 256].
Definition be32 (x : Z) : bytes := [(x / 16777216) mod 256; (x / 65536) mod 256; (x / 256) mod 256; x mod 256].
Definition be64 (x : Z) : bytes := be32 (x / 4294967296) ++ be32 (x mod 4294967296).
Definition u16_of (b0 b1 : Z) : Z := b0 * 256 + b1.
Definition i16_of (b0 b1 : Z) : Z := let u := u16_of b0 b1 in if u <? 32768 then u else u - 65536.
Definition u32_of (b0 b1 b2 b3 : Z) : Z := ((b0 * 256 + b1) * 256 + b2) * 256 + b3.
Definition i32_of (b0 b1 b2 b3 : Z) : Z := let u := u32_of b0 b1 b2 b3 in if u <? 2147483648 then u else u - 4294967296.
