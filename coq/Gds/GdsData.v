(** Data model of gds21/src/data.rs: GdsLibrary and everything below it.
    Strings are lists of bytes (Z in 0..255; Rust `String` = valid UTF-8, see [utf8_valid]);
    doubles are 64-bit words (Z, see Base/F64.v); integers are Z with the ranges of their
    Rust types collected in [lib_okb]. Fixed-size arrays ([GdsPoint;3], [GdsPoint;5]) are
    lists whose length is part of [lib_okb]. No proofs in this file. *)
From Coq Require Import ZArith Bool List.
From L21 Require Import Base.F64 Base.Hex Gds.GdsReal.
Import ListNotations.
Local Open Scope Z_scope.

Definition bytes := list Z.

(** * UTF-8 well-formedness, as checked by Rust's `std::str::from_utf8`
    (Unicode Standard table 3-7 "Well-Formed UTF-8 Byte Sequences"). Structural on the list:
    [k] continuation bytes are still owed, the next one must lie in [lo, hi]. *)
Fixpoint utf8_go (k lo hi : Z) (l : bytes) : bool :=
  match l with
  | [] => k =? 0
  | b :: r =>
    if k =? 0 then
      if (0 <=? b) && (b <=? 127) then utf8_go 0 128 191 r
      else if (194 <=? b) && (b <=? 223) then utf8_go 1 128 191 r
      else if b =? 224 then utf8_go 2 160 191 r
      else if ((225 <=? b) && (b <=? 236)) || (b =? 238) || (b =? 239) then utf8_go 2 128 191 r
      else if b =? 237 then utf8_go 2 128 159 r
      else if b =? 240 then utf8_go 3 144 191 r
      else if (241 <=? b) && (b <=? 243) then utf8_go 3 128 191 r
      else if b =? 244 then utf8_go 3 128 143 r
      else false
    else
      if (lo <=? b) && (b <=? hi) then utf8_go (k - 1) 128 191 r else false
  end.
Definition utf8_valid (l : bytes) : bool := utf8_go 0 128 191 l.

(** * Records *)
Record datetime := mkDT { dt_year : Z; dt_month : Z; dt_day : Z; dt_hour : Z; dt_minute : Z; dt_second : Z }.
Record datetimes := mkDTs { d_modified : datetime; d_accessed : datetime }.

Record strans := mkStrans {
  st_reflected : bool; st_abs_mag : bool; st_abs_angle : bool;
  st_mag : option Z; st_angle : option Z }.

Record point := mkPt { px : Z; py : Z }.
Record property := mkProp { pr_attr : Z; pr_value : bytes }.

(** GdsPresentation(u8,u8), GdsElemFlags(u8,u8) are pairs; GdsPlex(i32) is a Z. *)
Definition bits2 := (Z * Z)%type.

Record boundary := mkBoundary {
  b_layer : Z; b_datatype : Z; b_xy : list point;
  b_elflags : option bits2; b_plex : option Z; b_props : list property }.

Record path := mkPath {
  p_layer : Z; p_datatype : Z; p_xy : list point;
  p_width : option Z; p_path_type : option Z; p_begin_extn : option Z; p_end_extn : option Z;
  p_elflags : option bits2; p_plex : option Z; p_props : list property }.

Record sref := mkSref {
  sr_name : bytes; sr_xy : point; sr_strans : option strans;
  sr_elflags : option bits2; sr_plex : option Z; sr_props : list property }.

(** [ar_xy] mirrors `[GdsPoint; 3]` *)
Record aref := mkAref {
  ar_name : bytes; ar_xy : list point; ar_cols : Z; ar_rows : Z; ar_strans : option strans;
  ar_elflags : option bits2; ar_plex : option Z; ar_props : list property }.

Record textelem := mkText {
  t_string : bytes; t_layer : Z; t_texttype : Z; t_xy : point;
  t_presentation : option bits2; t_path_type : option Z; t_width : option Z; t_strans : option strans;
  t_elflags : option bits2; t_plex : option Z; t_props : list property }.

Record node := mkNode {
  n_layer : Z; n_nodetype : Z; n_xy : list point;
  n_elflags : option bits2; n_plex : option Z; n_props : list property }.

(** [x_xy] mirrors `[GdsPoint; 5]` *)
Record gbox := mkBox {
  x_layer : Z; x_boxtype : Z; x_xy : list point;
  x_elflags : option bits2; x_plex : option Z; x_props : list property }.

Inductive element :=
| EBoundary (e : boundary)
| EPath (e : path)
| ESref (e : sref)
| EAref (e : aref)
| EText (e : textelem)
| ENode (e : node)
| EBox (e : gbox).

Record gstruct := mkStruct { s_name : bytes; s_dates : datetimes; s_elems : list element }.

(** GdsUnits(f64,f64) is a pair of double words. The `Unsupported` unit fields carry no data. *)
Record library := mkLib {
  l_name : bytes; l_version : Z; l_dates : datetimes; l_units : Z * Z; l_structs : list gstruct }.

(** * Equality. [feq] compares doubles: bit equality for model-vs-impl, Rust `==` for the property. *)
Definition f64_is_nan (x : Z) : bool := (f64_bexp x =? 2047) && negb (f64_frac x =? 0).
(** Rust `==` on f64 given as bit patterns: equal bits and not NaN, or both zeros. *)
Definition f64_rust_eq (x y : Z) : bool :=
  ((x =? y) && negb (f64_is_nan x)) || (f64_is_zero x && f64_is_zero y).

Definition opt_eqb {A} (eq : A -> A -> bool) (a b : option A) : bool :=
  match a, b with
  | None, None => true
  | Some x, Some y => eq x y
  | _, _ => false
  end.
Fixpoint list_eqb {A} (eq : A -> A -> bool) (a b : list A) : bool :=
  match a, b with
  | [], [] => true
  | x :: a', y :: b' => eq x y && list_eqb eq a' b'
  | _, _ => false
  end.
Definition bits2_eqb (a b : bits2) : bool := (fst a =? fst b) && (snd a =? snd b).
Definition point_eqb (a b : point) : bool := (px a =? px b) && (py a =? py b).
Definition prop_eqb (a b : property) : bool :=
  (pr_attr a =? pr_attr b) && zlist_eqb (pr_value a) (pr_value b).
Definition dt_eqb (a b : datetime) : bool :=
  (dt_year a =? dt_year b) && (dt_month a =? dt_month b) && (dt_day a =? dt_day b) &&
  (dt_hour a =? dt_hour b) && (dt_minute a =? dt_minute b) && (dt_second a =? dt_second b).
Definition dts_eqb (a b : datetimes) : bool :=
  dt_eqb (d_modified a) (d_modified b) && dt_eqb (d_accessed a) (d_accessed b).

Section Eq.
Variable feq : Z -> Z -> bool.

Definition strans_eqb (a b : strans) : bool :=
  Bool.eqb (st_reflected a) (st_reflected b) && Bool.eqb (st_abs_mag a) (st_abs_mag b) &&
  Bool.eqb (st_abs_angle a) (st_abs_angle b) &&
  opt_eqb feq (st_mag a) (st_mag b) && opt_eqb feq (st_angle a) (st_angle b).

Definition boundary_eqb (a b : boundary) : bool :=
  (b_layer a =? b_layer b) && (b_datatype a =? b_datatype b) && list_eqb point_eqb (b_xy a) (b_xy b) &&
  opt_eqb bits2_eqb (b_elflags a) (b_elflags b) && opt_eqb Z.eqb (b_plex a) (b_plex b) &&
  list_eqb prop_eqb (b_props a) (b_props b).

Definition path_eqb (a b : path) : bool :=
  (p_layer a =? p_layer b) && (p_datatype a =? p_datatype b) && list_eqb point_eqb (p_xy a) (p_xy b) &&
  opt_eqb Z.eqb (p_width a) (p_width b) && opt_eqb Z.eqb (p_path_type a) (p_path_type b) &&
  opt_eqb Z.eqb (p_begin_extn a) (p_begin_extn b) && opt_eqb Z.eqb (p_end_extn a) (p_end_extn b) &&
  opt_eqb bits2_eqb (p_elflags a) (p_elflags b) && opt_eqb Z.eqb (p_plex a) (p_plex b) &&
  list_eqb prop_eqb (p_props a) (p_props b).

Definition sref_eqb (a b : sref) : bool :=
  zlist_eqb (sr_name a) (sr_name b) && point_eqb (sr_xy a) (sr_xy b) &&
  opt_eqb strans_eqb (sr_strans a) (sr_strans b) &&
  opt_eqb bits2_eqb (sr_elflags a) (sr_elflags b) && opt_eqb Z.eqb (sr_plex a) (sr_plex b) &&
  list_eqb prop_eqb (sr_props a) (sr_props b).

Definition aref_eqb (a b : aref) : bool :=
  zlist_eqb (ar_name a) (ar_name b) && list_eqb point_eqb (ar_xy a) (ar_xy b) &&
  (ar_cols a =? ar_cols b) && (ar_rows a =? ar_rows b) &&
  opt_eqb strans_eqb (ar_strans a) (ar_strans b) &&
  opt_eqb bits2_eqb (ar_elflags a) (ar_elflags b) && opt_eqb Z.eqb (ar_plex a) (ar_plex b) &&
  list_eqb prop_eqb (ar_props a) (ar_props b).

Definition text_eqb (a b : textelem) : bool :=
  zlist_eqb (t_string a) (t_string b) && (t_layer a =? t_layer b) && (t_texttype a =? t_texttype b) &&
  point_eqb (t_xy a) (t_xy b) &&
  opt_eqb bits2_eqb (t_presentation a) (t_presentation b) && opt_eqb Z.eqb (t_path_type a) (t_path_type b) &&
  opt_eqb Z.eqb (t_width a) (t_width b) && opt_eqb strans_eqb (t_strans a) (t_strans b) &&
  opt_eqb bits2_eqb (t_elflags a) (t_elflags b) && opt_eqb Z.eqb (t_plex a) (t_plex b) &&
  list_eqb prop_eqb (t_props a) (t_props b).

Definition node_eqb (a b : node) : bool :=
  (n_layer a =? n_layer b) && (n_nodetype a =? n_nodetype b) && list_eqb point_eqb (n_xy a) (n_xy b) &&
  opt_eqb bits2_eqb (n_elflags a) (n_elflags b) && opt_eqb Z.eqb (n_plex a) (n_plex b) &&
  list_eqb prop_eqb (n_props a) (n_props b).

Definition box_eqb (a b : gbox) : bool :=
  (x_layer a =? x_layer b) && (x_boxtype a =? x_boxtype b) && list_eqb point_eqb (x_xy a) (x_xy b) &&
  opt_eqb bits2_eqb (x_elflags a) (x_elflags b) && opt_eqb Z.eqb (x_plex a) (x_plex b) &&
  list_eqb prop_eqb (x_props a) (x_props b).

Definition element_eqb (a b : element) : bool :=
  match a, b with
  | EBoundary x, EBoundary y => boundary_eqb x y
  | EPath x, EPath y => path_eqb x y
  | ESref x, ESref y => sref_eqb x y
  | EAref x, EAref y => aref_eqb x y
  | EText x, EText y => text_eqb x y
  | ENode x, ENode y => node_eqb x y
  | EBox x, EBox y => box_eqb x y
  | _, _ => false
  end.

Definition struct_eqb (a b : gstruct) : bool :=
  zlist_eqb (s_name a) (s_name b) && dts_eqb (s_dates a) (s_dates b) &&
  list_eqb element_eqb (s_elems a) (s_elems b).

Definition lib_eqb_with (a b : library) : bool :=
  zlist_eqb (l_name a) (l_name b) && (l_version a =? l_version b) && dts_eqb (l_dates a) (l_dates b) &&
  feq (fst (l_units a)) (fst (l_units b)) && feq (snd (l_units a)) (snd (l_units b)) &&
  list_eqb struct_eqb (l_structs a) (l_structs b).
End Eq.

(** bit-exact equality *)
Definition lib_eqb : library -> library -> bool := lib_eqb_with Z.eqb.
(** Rust's derived `PartialEq` (doubles by `==`) *)
Definition lib_rust_eqb : library -> library -> bool := lib_eqb_with f64_rust_eq.

(** * Type invariants ([lib_okb]) *)
Definition i16b (x : Z) : bool := (-32768 <=? x) && (x <=? 32767).
Definition i32b (x : Z) : bool := (-2147483648 <=? x) && (x <=? 2147483647).
Definition u8b (x : Z) : bool := (0 <=? x) && (x <=? 255).
(** a Rust `String`: bytes, valid UTF-8 *)
Definition str_okb (s : bytes) : bool := forallb u8b s && utf8_valid s.
(** a real-valued field the property speaks about: a double inside the GDSII real range
    ([in_gds_rangeb]: 16^-65 <= |x| < 16^63, every normalised real), or a zero *)
Definition real_okb (x : Z) : bool := (0 <=? x) && (x <? two64) && (in_gds_rangeb x || f64_is_zero x).

Definition opt_okb {A} (ok : A -> bool) (a : option A) : bool :=
  match a with None => true | Some x => ok x end.
Definition bits2_okb (a : bits2) : bool := u8b (fst a) && u8b (snd a).
Definition point_okb (p : point) : bool := i32b (px p) && i32b (py p).
Definition prop_okb (p : property) : bool := i16b (pr_attr p) && str_okb (pr_value p).
Definition dt_okb (d : datetime) : bool :=
  i16b (dt_year d) && i16b (dt_month d) && i16b (dt_day d) && i16b (dt_hour d) && i16b (dt_minute d) && i16b (dt_second d).
Definition dts_okb (d : datetimes) : bool := dt_okb (d_modified d) && dt_okb (d_accessed d).
Definition strans_okb (s : strans) : bool := opt_okb real_okb (st_mag s) && opt_okb real_okb (st_angle s).

Definition boundary_okb (e : boundary) : bool :=
  i16b (b_layer e) && i16b (b_datatype e) && forallb point_okb (b_xy e) &&
  opt_okb bits2_okb (b_elflags e) && opt_okb i32b (b_plex e) && forallb prop_okb (b_props e).
Definition path_okb (e : path) : bool :=
  i16b (p_layer e) && i16b (p_datatype e) && forallb point_okb (p_xy e) &&
  opt_okb i32b (p_width e) && opt_okb i16b (p_path_type e) && opt_okb i32b (p_begin_extn e) && opt_okb i32b (p_end_extn e) &&
  opt_okb bits2_okb (p_elflags e) && opt_okb i32b (p_plex e) && forallb prop_okb (p_props e).
Definition sref_okb (e : sref) : bool :=
  str_okb (sr_name e) && point_okb (sr_xy e) && opt_okb strans_okb (sr_strans e) &&
  opt_okb bits2_okb (sr_elflags e) && opt_okb i32b (sr_plex e) && forallb prop_okb (sr_props e).
Definition aref_okb (e : aref) : bool :=
  str_okb (ar_name e) && forallb point_okb (ar_xy e) && (Z.of_nat (length (ar_xy e)) =? 3) &&
  i16b (ar_cols e) && i16b (ar_rows e) && opt_okb strans_okb (ar_strans e) &&
  opt_okb bits2_okb (ar_elflags e) && opt_okb i32b (ar_plex e) && forallb prop_okb (ar_props e).
Definition text_okb (e : textelem) : bool :=
  str_okb (t_string e) && i16b (t_layer e) && i16b (t_texttype e) && point_okb (t_xy e) &&
  opt_okb bits2_okb (t_presentation e) && opt_okb i16b (t_path_type e) && opt_okb i32b (t_width e) &&
  opt_okb strans_okb (t_strans e) &&
  opt_okb bits2_okb (t_elflags e) && opt_okb i32b (t_plex e) && forallb prop_okb (t_props e).
Definition node_okb (e : node) : bool :=
  i16b (n_layer e) && i16b (n_nodetype e) && forallb point_okb (n_xy e) &&
  opt_okb bits2_okb (n_elflags e) && opt_okb i32b (n_plex e) && forallb prop_okb (n_props e).
Definition box_okb (e : gbox) : bool :=
  i16b (x_layer e) && i16b (x_boxtype e) && forallb point_okb (x_xy e) && (Z.of_nat (length (x_xy e)) =? 5) &&
  opt_okb bits2_okb (x_elflags e) && opt_okb i32b (x_plex e) && forallb prop_okb (x_props e).
Definition element_okb (e : element) : bool :=
  match e with
  | EBoundary x => boundary_okb x | EPath x => path_okb x | ESref x => sref_okb x | EAref x => aref_okb x
  | EText x => text_okb x | ENode x => node_okb x | EBox x => box_okb x
  end.
Definition struct_okb (s : gstruct) : bool :=
  str_okb (s_name s) && dts_okb (s_dates s) && forallb element_okb (s_elems s).
Definition lib_okb (l : library) : bool :=
  str_okb (l_name l) && i16b (l_version l) && dts_okb (l_dates l) &&
  real_okb (fst (l_units l)) && real_okb (snd (l_units l)) && forallb struct_okb (l_structs l).
Definition lib_ok (l : library) : Prop := lib_okb l = true.

(** * All strings of a library (for the known-finding class of C01/C03) *)
Definition props_strings (ps : list property) : list bytes := map pr_value ps.
Definition element_strings (e : element) : list bytes :=
  match e with
  | EBoundary x => props_strings (b_props x)
  | EPath x => props_strings (p_props x)
  | ESref x => sr_name x :: props_strings (sr_props x)
  | EAref x => ar_name x :: props_strings (ar_props x)
  | EText x => t_string x :: props_strings (t_props x)
  | ENode x => props_strings (n_props x)
  | EBox x => props_strings (x_props x)
  end.
Definition struct_strings (s : gstruct) : list bytes := s_name s :: flat_map element_strings (s_elems s).
Definition lib_strings (l : library) : list bytes := l_name l :: flat_map struct_strings (l_structs l).

(** A string of even byte length whose last byte is NUL: the format's padding rule makes its
    last byte indistinguishable from padding. *)
Definition even_trailing_nul (s : bytes) : bool :=
  Z.even (Z.of_nat (length s)) && (last s 1 =? 0).
Definition known_class_c01b (l : library) : bool := existsb even_trailing_nul (lib_strings l).
Definition KnownClass_C01 (l : library) : Prop := known_class_c01b l = true.

(** All real-valued fields of a library *)
Definition strans_reals (s : option strans) : list Z :=
  match s with
  | None => []
  | Some s => (match st_mag s with Some x => [x] | None => [] end) ++ (match st_angle s with Some x => [x] | None => [] end)
  end.
Definition element_reals (e : element) : list Z :=
  match e with
  | ESref x => strans_reals (sr_strans x)
  | EAref x => strans_reals (ar_strans x)
  | EText x => strans_reals (t_strans x)
  | _ => []
  end.
Definition lib_reals (l : library) : list Z :=
  fst (l_units l) :: snd (l_units l) :: flat_map (fun s => flat_map element_reals (s_elems s)) (l_structs l).
