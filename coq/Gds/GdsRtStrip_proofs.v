(** The known-finding class characterised: writing a library [l] and writing [lib_strip l] give the
    same bytes, [lib_strip l] is outside the class and keeps the type invariants; hence all the
    round-trip theorems hold for EVERY library with [lib_strip l] in place of [l]. *)
From Coq Require Import ZArith Bool List Lia.
From L21 Require Import Base.Outcome Base.Hex Base.F64 Gds.GdsReal Gds.GdsData Gds.GdsRecord
  Gds.GdsWrite Gds.GdsRead Gds.GdsSpec Gds.GdsRtDefs Gds.GdsRtStrip Gds.GdsBytes_proofs Gds.GdsWrite_proofs
  Gds.GdsRtRead_proofs Gds.GdsRoundtrip_proofs Gds.GdsRtSpec_proofs.
Import ListNotations.
Local Open Scope Z_scope.

(** * One string *)
Lemma GdsRtP_etn_nonempty s : even_trailing_nul s = true -> s = removelast s ++ [0].
Proof.
  unfold even_trailing_nul. rewrite andb_true_iff, Z.eqb_eq. intros [_ H].
  destruct s as [|x s]; [cbn in H; discriminate|].
  rewrite (app_removelast_last 1) at 1 by discriminate. rewrite H. reflexivity.
Qed.
Lemma GdsRtP_etn_even s : even_trailing_nul s = true -> Z.even (Z.of_nat (length s)) = true.
Proof. unfold even_trailing_nul. rewrite andb_true_iff. tauto. Qed.

Lemma GdsRtP_strip_not_known s : even_trailing_nul (str_strip s) = false.
Proof.
  unfold str_strip. destruct (even_trailing_nul s) eqn:E; [|exact E].
  pose proof (GdsRtP_etn_nonempty s E) as Hs. pose proof (GdsRtP_etn_even s E) as He.
  unfold even_trailing_nul. apply andb_false_iff. left.
  rewrite Hs, app_length in He. cbn [length] in He.
  rewrite Nat2Z.inj_add, Z.even_add in He. cbn in He. destruct (Z.even (Z.of_nat (length (removelast s)))); [discriminate | reflexivity].
Qed.

Lemma GdsRtP_utf8_drop_nul a : forall k lo hi, 0 < lo -> utf8_go k lo hi (a ++ [0]) = true -> utf8_go k lo hi a = true.
Proof.
  induction a as [|b a IH]; intros k lo hi Hlo; cbn [app utf8_go].
  - destruct (k =? 0); [reflexivity|].
    destruct (Z.leb_spec lo 0); [lia|]. cbn [andb]. discriminate.
  - destruct (k =? 0).
    + repeat match goal with |- context [if ?c then _ else _] => destruct c end;
        try discriminate; intros H; apply IH in H; auto; lia.
    + destruct ((lo <=? b) && (b <=? hi)); [|discriminate]. intros H. apply IH in H; auto; lia.
Qed.

Lemma GdsRtP_strip_str_ok s : str_okb s = true -> str_okb (str_strip s) = true.
Proof.
  unfold str_strip. destruct (even_trailing_nul s) eqn:E; [|auto].
  pose proof (GdsRtP_etn_nonempty s E) as Hs. unfold str_okb. rewrite !andb_true_iff. intros [H1 H2].
  rewrite Hs in H1, H2. rewrite forallb_app in H1. apply andb_true_iff in H1. destruct H1 as [H1 _].
  split; [exact H1|]. unfold utf8_valid in *. apply GdsRtP_utf8_drop_nul in H2; [exact H2 | lia].
Qed.

Lemma GdsRtP_strip_strlen s : gds_strlen (str_strip s) = gds_strlen s.
Proof.
  unfold str_strip. destruct (even_trailing_nul s) eqn:E; [|reflexivity].
  pose proof (GdsRtP_etn_nonempty s E) as Hs. pose proof (GdsRtP_etn_even s E) as He.
  assert (L : length s = S (length (removelast s))) by (rewrite Hs at 1; rewrite app_length; cbn [length]; lia).
  unfold gds_strlen, zlen. rewrite L in He |- *. rewrite Nat2Z.inj_succ in *.
  apply Z.even_spec in He. destruct He as [m He]. Z.div_mod_to_equations. lia.
Qed.

Lemma GdsRtP_strip_payload s : enc_payload (PStr (str_strip s)) = enc_payload (PStr s).
Proof.
  unfold str_strip. destruct (even_trailing_nul s) eqn:E; [|reflexivity].
  pose proof (GdsRtP_etn_nonempty s E) as Hs. pose proof (GdsRtP_etn_even s E) as He.
  cbn [enc_payload]. unfold zlen.
  assert (H1 : Z.of_nat (length s) mod 2 = 0).
  { apply Z.even_spec in He. destruct He as [m ->]. rewrite Z.mul_comm. apply Z.mod_mul. lia. }
  assert (L : length s = S (length (removelast s))) by (rewrite Hs at 1; rewrite app_length; cbn [length]; lia).
  assert (H2 : Z.of_nat (length (removelast s)) mod 2 = 1).
  { rewrite L, Nat2Z.inj_succ in H1. Z.div_mod_to_equations. lia. }
  rewrite H1, H2. cbn [Z.eqb]. rewrite app_nil_r. symmetry. exact Hs.
Qed.

(** * Records *)
Lemma GdsRtP_encb_strip r : encb (rec_map_str str_strip r) = encb r.
Proof.
  destruct r as [rt pl]. unfold rec_map_str. cbn [fst snd]. destruct pl; try reflexivity.
  unfold encb, rec_len. cbn [fst snd]. destruct (arm_of rt) as [[d ls]|]; [|reflexivity].
  destruct d, ls; try reflexivity. rewrite GdsRtP_strip_strlen, GdsRtP_strip_payload. reflexivity.
Qed.
Lemma GdsRtP_fits_strip r : rec_fitsb (rec_map_str str_strip r) = rec_fitsb r.
Proof.
  destruct r as [rt pl]. unfold rec_map_str. cbn [fst snd]. destruct pl; try reflexivity.
  unfold rec_fitsb, rec_len. cbn [fst snd]. destruct (arm_of rt) as [[d ls]|]; [|reflexivity].
  destruct d, ls; try reflexivity. rewrite GdsRtP_strip_strlen. reflexivity.
Qed.

Section Flat.
Variable f : bytes -> bytes.
Lemma GdsRtP_flat_props ps : flat_props (props_map_str f ps) = map (rec_map_str f) (flat_props ps).
Proof. unfold flat_props, props_map_str. induction ps as [|p ps IH]; [reflexivity|]. cbn [map flat_map app]. rewrite IH. reflexivity. Qed.
Lemma GdsRtP_opt_i16 rt o : map (rec_map_str f) (opt_rec (r_i16 rt) o) = opt_rec (r_i16 rt) o.
Proof. destruct o; reflexivity. Qed.
Lemma GdsRtP_opt_i32 rt o : map (rec_map_str f) (opt_rec (r_i32 rt) o) = opt_rec (r_i32 rt) o.
Proof. destruct o; reflexivity. Qed.
Lemma GdsRtP_opt_bits rt o : map (rec_map_str f) (opt_rec (r_bits rt) o) = opt_rec (r_bits rt) o.
Proof. destruct o; reflexivity. Qed.
Lemma GdsRtP_ostrans o : map (rec_map_str f) (flat_ostrans o) = flat_ostrans o.
Proof. destruct o as [[? ? ? [?|] [?|]]|]; reflexivity. Qed.

Lemma GdsRtP_flat_element e : flat_element (element_map_str f e) = map (rec_map_str f) (flat_element e).
Proof.
  destruct e as [e|e|e|e|e|e|e]; cbn [element_map_str flat_element];
    unfold flat_boundary, flat_path, flat_sref, flat_aref, flat_text, flat_node, flat_box, flat_head, flat_tail;
    cbn [b_layer b_datatype b_xy b_elflags b_plex b_props
         p_layer p_datatype GdsData.p_xy p_width p_path_type p_begin_extn p_end_extn p_elflags p_plex GdsData.p_props
         sr_name sr_xy sr_strans sr_elflags sr_plex sr_props
         ar_name ar_xy ar_cols ar_rows ar_strans ar_elflags ar_plex ar_props
         t_string t_layer t_texttype t_xy t_presentation t_path_type t_width t_strans t_elflags t_plex t_props
         n_layer n_nodetype n_xy n_elflags n_plex n_props x_layer x_boxtype x_xy x_elflags x_plex x_props];
    repeat first [rewrite map_app | progress cbn [map app]];
    rewrite ?GdsRtP_flat_props, ?GdsRtP_opt_i16, ?GdsRtP_opt_i32, ?GdsRtP_opt_bits, ?GdsRtP_ostrans; reflexivity.
Qed.
Lemma GdsRtP_flat_struct s : flat_struct (struct_map_str f s) = map (rec_map_str f) (flat_struct s).
Proof.
  unfold flat_struct, struct_map_str. cbn [s_name s_dates s_elems].
  repeat first [rewrite map_app | progress cbn [map app]]. do 2 f_equal. f_equal.
  rewrite GdsW_flat_map_map, GdsW_map_flat_map. apply flat_map_ext. apply GdsRtP_flat_element.
Qed.
Lemma GdsRtP_flatten_lib l : flatten_lib (lib_map_str f l) = map (rec_map_str f) (flatten_lib l).
Proof.
  unfold flatten_lib, lib_map_str. cbn [l_name l_version l_dates l_units l_structs].
  repeat first [rewrite map_app | progress cbn [map app]]. do 4 f_equal. f_equal.
  rewrite GdsW_flat_map_map, GdsW_map_flat_map. apply flat_map_ext. apply GdsRtP_flat_struct.
Qed.
End Flat.

Theorem GdsRtP_bytes_strip l : flat_map encb (flatten_lib (lib_strip l)) = flat_map encb (flatten_lib l).
Proof.
  unfold lib_strip. rewrite GdsRtP_flatten_lib, GdsW_flat_map_map. apply flat_map_ext. apply GdsRtP_encb_strip.
Qed.
Lemma GdsRtP_forallb_map {A B} (p : B -> bool) (g : A -> B) l : forallb p (map g l) = forallb (fun x => p (g x)) l.
Proof. induction l as [|a l IH]; cbn; [reflexivity|]. rewrite IH. reflexivity. Qed.
Lemma GdsRtP_existsb_map {A B} (p : B -> bool) (g : A -> B) l : existsb p (map g l) = existsb (fun x => p (g x)) l.
Proof. induction l as [|a l IH]; cbn; [reflexivity|]. rewrite IH. reflexivity. Qed.

Theorem GdsRtP_fits_strip_lib l : lib_fitsb (lib_strip l) = lib_fitsb l.
Proof.
  unfold lib_fitsb, lib_strip. rewrite GdsRtP_flatten_lib, GdsRtP_forallb_map.
  induction (flatten_lib l) as [|r rs IH]; cbn [forallb]; [reflexivity|]. rewrite GdsRtP_fits_strip, IH. reflexivity.
Qed.

(** * Strings and reals of the mapped library *)
Section Strings.
Variable f : bytes -> bytes.
Lemma GdsRtP_props_strings ps : props_strings (props_map_str f ps) = map f (props_strings ps).
Proof. unfold props_strings, props_map_str. rewrite !map_map. reflexivity. Qed.
Lemma GdsRtP_element_strings e : element_strings (element_map_str f e) = map f (element_strings e).
Proof.
  destruct e as [[a1 a2 a3 a4 a5 ps]|[a1 a2 a3 a4 a5 a6 a7 a8 a9 ps]|[nm a2 a3 a4 a5 ps]|[nm a2 a3 a4 a5 a6 a7 ps]|[nm a2 a3 a4 a5 a6 a7 a8 a9 a10 ps]|[a1 a2 a3 a4 a5 ps]|[a1 a2 a3 a4 a5 ps]];
    cbn [element_map_str element_strings map b_props GdsData.p_props sr_name sr_props ar_name ar_props t_string t_props n_props x_props];
    rewrite GdsRtP_props_strings; reflexivity.
Qed.
Lemma GdsRtP_struct_strings s : struct_strings (struct_map_str f s) = map f (struct_strings s).
Proof.
  unfold struct_strings, struct_map_str. cbn [s_name s_elems map]. f_equal.
  rewrite GdsW_flat_map_map, GdsW_map_flat_map. apply flat_map_ext. apply GdsRtP_element_strings.
Qed.
Lemma GdsRtP_lib_strings l : lib_strings (lib_map_str f l) = map f (lib_strings l).
Proof.
  unfold lib_strings, lib_map_str. cbn [l_name l_structs map]. f_equal.
  rewrite GdsW_flat_map_map, GdsW_map_flat_map. apply flat_map_ext. apply GdsRtP_struct_strings.
Qed.
Lemma GdsRtP_element_reals e : element_reals (element_map_str f e) = element_reals e.
Proof. destruct e; reflexivity. Qed.
Lemma GdsRtP_lib_reals l : lib_reals (lib_map_str f l) = lib_reals l.
Proof.
  unfold lib_reals, lib_map_str. cbn [l_units l_structs]. do 2 f_equal.
  rewrite GdsW_flat_map_map. apply flat_map_ext. intros s. unfold struct_map_str. cbn [s_elems].
  rewrite GdsW_flat_map_map. apply flat_map_ext. apply GdsRtP_element_reals.
Qed.

(** type invariants are kept when [f] keeps [str_okb] *)
Hypothesis Hf : forall s, str_okb s = true -> str_okb (f s) = true.
Lemma GdsRtP_props_ok ps : forallb prop_okb ps = true -> forallb prop_okb (props_map_str f ps) = true.
Proof.
  unfold props_map_str. rewrite GdsRtP_forallb_map. apply GdsW_forallb_impl. intros p _.
  unfold prop_okb, prop_map_str. cbn [pr_attr pr_value]. rewrite !andb_true_iff. intros [H1 H2]. auto.
Qed.
Lemma GdsRtP_element_ok (rok : Z -> bool) e : element_okb_with rok e = true -> element_okb_with rok (element_map_str f e) = true.
Proof.
  destruct e as [e|e|e|e|e|e|e]; cbn [element_okb_with element_map_str];
    unfold boundary_okb, path_okb, sref_okb_with, aref_okb_with, text_okb_with, node_okb, box_okb;
    cbn [b_layer b_datatype b_xy b_elflags b_plex b_props
         p_layer p_datatype GdsData.p_xy p_width p_path_type p_begin_extn p_end_extn p_elflags p_plex GdsData.p_props
         sr_name sr_xy sr_strans sr_elflags sr_plex sr_props
         ar_name ar_xy ar_cols ar_rows ar_strans ar_elflags ar_plex ar_props
         t_string t_layer t_texttype t_xy t_presentation t_path_type t_width t_strans t_elflags t_plex t_props
         n_layer n_nodetype n_xy n_elflags n_plex n_props x_layer x_boxtype x_xy x_elflags x_plex x_props];
    intros H; GdsRt_bsplit;
    repeat match goal with
           | H : forallb prop_okb ?ps = true |- context [forallb prop_okb (props_map_str f ?ps)] => rewrite (GdsRtP_props_ok ps H)
           | H : str_okb ?s = true |- context [str_okb (f ?s)] => rewrite (Hf s H)
           end; GdsRt_brew; reflexivity.
Qed.
Lemma GdsRtP_lib_ok_with rok l : lib_okb_with rok l = true -> lib_okb_with rok (lib_map_str f l) = true.
Proof.
  unfold lib_okb_with, lib_map_str. cbn [l_name l_version l_dates l_units l_structs]. intros H. GdsRt_bsplit.
  match goal with H : forallb (struct_okb_with rok) _ = true |- _ => rename H into Hss end.
  assert (Hss' : forallb (struct_okb_with rok) (map (struct_map_str f) (l_structs l)) = true).
  { rewrite GdsRtP_forallb_map. revert Hss. apply GdsW_forallb_impl. intros s _.
    unfold struct_okb_with, struct_map_str. cbn [s_name s_dates s_elems]. intros Hs. GdsRt_bsplit.
    match goal with H : forallb (element_okb_with rok) _ = true |- _ => rename H into Hes end.
    assert (Hes' : forallb (element_okb_with rok) (map (element_map_str f) (s_elems s)) = true).
    { rewrite GdsRtP_forallb_map. revert Hes. apply GdsW_forallb_impl. intros e _. apply GdsRtP_element_ok. }
    repeat match goal with H : str_okb ?s = true |- context [str_okb (f ?s)] => rewrite (Hf s H) end. GdsRt_brew. reflexivity. }
  repeat match goal with H : str_okb ?s = true |- context [str_okb (f ?s)] => rewrite (Hf s H) end. GdsRt_brew. reflexivity.
Qed.
End Strings.

Theorem GdsRtP_strip_shape l : lib_shape_ok l -> lib_shape_ok (lib_strip l).
Proof. apply GdsRtP_lib_ok_with. apply GdsRtP_strip_str_ok. Qed.
Theorem GdsRtP_strip_ok l : lib_ok l -> lib_ok (lib_strip l).
Proof. unfold lib_ok. rewrite !GdsRt_lib_okb_with. apply GdsRtP_lib_ok_with. apply GdsRtP_strip_str_ok. Qed.
Theorem GdsRtP_strip_not_known_lib l : ~ KnownClass_C01 (lib_strip l).
Proof.
  unfold KnownClass_C01, known_class_c01b, lib_strip. rewrite GdsRtP_lib_strings, GdsRtP_existsb_map.
  intros H. apply existsb_exists in H. destruct H as (s & _ & H). rewrite GdsRtP_strip_not_known in H. discriminate.
Qed.

(** outside the class nothing changes *)
Section MapId.
Variable f : bytes -> bytes.
Lemma GdsRtP_props_id ps : (forall s, In s (props_strings ps) -> f s = s) -> props_map_str f ps = ps.
Proof.
  unfold props_strings, props_map_str. intros H. rewrite <- (map_id ps) at 2. apply map_ext_in. intros [a v] Hp.
  unfold prop_map_str. cbn [pr_attr pr_value]. rewrite H; [reflexivity|]. apply in_map_iff. exists (mkProp a v). auto.
Qed.
Lemma GdsRtP_element_id e : (forall s, In s (element_strings e) -> f s = s) -> element_map_str f e = e.
Proof.
  destruct e as [[a1 a2 a3 a4 a5 ps]|[a1 a2 a3 a4 a5 a6 a7 a8 a9 ps]|[nm a2 a3 a4 a5 ps]|[nm a2 a3 a4 a5 a6 a7 ps]|[nm a2 a3 a4 a5 a6 a7 a8 a9 a10 ps]|[a1 a2 a3 a4 a5 ps]|[a1 a2 a3 a4 a5 ps]]; cbn [element_strings element_map_str
         b_layer b_datatype b_xy b_elflags b_plex b_props
         p_layer p_datatype GdsData.p_xy p_width p_path_type p_begin_extn p_end_extn p_elflags p_plex GdsData.p_props
         sr_name sr_xy sr_strans sr_elflags sr_plex sr_props
         ar_name ar_xy ar_cols ar_rows ar_strans ar_elflags ar_plex ar_props
         t_string t_layer t_texttype t_xy t_presentation t_path_type t_width t_strans t_elflags t_plex t_props
         n_layer n_nodetype n_xy n_elflags n_plex n_props x_layer x_boxtype x_xy x_elflags x_plex x_props];
    intros H; rewrite GdsRtP_props_id by (intros; apply H; cbn; auto); rewrite ?H by (cbn; auto); reflexivity.
Qed.
Lemma GdsRtP_lib_id l : (forall s, In s (lib_strings l) -> f s = s) -> lib_map_str f l = l.
Proof.
  destruct l as [n v d u ss]. unfold lib_strings, lib_map_str. cbn [l_name l_version l_dates l_units l_structs].
  intros H. rewrite (H n) by (cbn; auto). f_equal. rewrite <- (map_id ss) at 2. apply map_ext_in. intros [sn sd es] Hs.
  unfold struct_map_str. cbn [s_name s_dates s_elems].
  assert (Hin : forall t, In t (struct_strings (mkStruct sn sd es)) -> f t = t).
  { intros t Ht. apply H. right. apply in_flat_map. eauto. }
  unfold struct_strings in Hin. cbn [s_name s_elems] in Hin.
  rewrite (Hin sn) by (cbn; auto). f_equal. rewrite <- (map_id es) at 2. apply map_ext_in. intros e He.
  apply GdsRtP_element_id. intros t Ht. apply Hin. right. apply in_flat_map. eauto.
Qed.
End MapId.

Theorem GdsRtP_strip_id l : ~ KnownClass_C01 l -> lib_strip l = l.
Proof.
  intros Hk. apply GdsRt_not_known in Hk. unfold known_class_c01b in Hk. apply GdsRtP_lib_id. intros s Hs.
  unfold str_strip. destruct (even_trailing_nul s) eqn:E; [|reflexivity].
  exfalso. assert (existsb even_trailing_nul (lib_strings l) = true) by (apply existsb_exists; eauto). congruence.
Qed.

(** * The round trip for every library *)
Theorem GdsRtP_reads_encoded_total l tail :
  lib_shape_ok l -> lib_fitsb l = true ->
  read_lib (flat_map encb (flatten_lib l) ++ tail) = Ok (lib_readback (lib_strip l)).
Proof.
  intros Hok Hf. rewrite <- GdsRtP_bytes_strip. apply GdsRt_reads_encoded.
  - apply GdsRtP_strip_shape, Hok.
  - apply GdsRtP_strip_not_known_lib.
  - rewrite GdsRtP_fits_strip_lib. exact Hf.
Qed.

Theorem GdsRtP_roundtrip_total l bs :
  lib_shape_ok l -> write_lib l = Ok bs -> read_lib bs = Ok (lib_readback (lib_strip l)).
Proof.
  intros Hok Hw. destruct (GdsRt_write_ok_fits l bs Hw) as [Hf ->].
  rewrite <- (app_nil_r (flat_map encb (flatten_lib l))). apply GdsRtP_reads_encoded_total; assumption.
Qed.

Theorem GdsRtP_readback_strip_canon l : lib_ok l -> lib_readback (lib_strip l) = lib_canon (lib_strip l).
Proof. intros Hok. apply GdsRt_readback_canon, GdsRtP_strip_ok, Hok. Qed.

(** * The specification side for every library *)
Theorem GdsRtP_spec_render_strip l : lib_ok l -> spec_render (lib_strip l) = spec_render l.
Proof.
  intros Hok. rewrite (GdsRtS_spec_render_encb l Hok), (GdsRtS_spec_render_encb _ (GdsRtP_strip_ok l Hok)).
  apply GdsRtP_bytes_strip.
Qed.
Theorem GdsRtP_spec_parse_total l tail :
  lib_ok l -> lib_fitsb l = true ->
  spec_parse (spec_render l ++ tail) = Some (lib_canon (lib_strip l)) /\ stream_wf (spec_render l ++ tail).
Proof.
  intros Hok Hf. rewrite <- (GdsRtP_spec_render_strip l Hok).
  assert (Hf' : lib_fitsb (lib_strip l) = true) by (rewrite GdsRtP_fits_strip_lib; exact Hf).
  split.
  - apply GdsRtS_spec_parse_render; [apply GdsRtP_strip_ok, Hok | apply GdsRtP_strip_not_known_lib | exact Hf'].
  - apply GdsRtS_stream_wf_render; [apply GdsRtP_strip_ok, Hok | apply GdsRtP_strip_not_known_lib | exact Hf'].
Qed.
