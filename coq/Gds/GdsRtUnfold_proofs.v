(** Unfolding equations of the fuelled parser loops of Gds/GdsRead.v, stated once; proofs
    [rewrite] with these instead of unfolding the fixpoints. Shared by C01/C02/C03 and C10. *)
From Coq Require Import ZArith Bool List.
From L21 Require Import Base.Outcome Base.Hex Gds.GdsReal Gds.GdsData Gds.GdsRecord Gds.GdsRead.
Import ListNotations.
Local Open Scope Z_scope.
Local Open Scope outcome_scope.

Lemma GdsRt_parse_elem_S fx f k st b props :
  parse_elem fx (S f) k st b props =
    let? (r, st1) := next fx st in
    match r with
    | (EndElement, _) => let? e := build_elem k b props in Ok (e, st1)
    | (rt, pl) =>
      if negb (accepts k rt) then Err EParse
      else match r with
           | (Strans, PBits d0 d1) =>
             let? (s, st2) := parse_strans fx f st1 d0 d1 in
             parse_elem fx f k st2 ((Strans, VStrans s) :: b) props
           | (PropAttr, PI16 (attr :: _)) =>
             let? (p, st2) := parse_property fx st1 attr in
             parse_elem fx f k st2 b (props ++ [p])
           | _ =>
             let? v := field_of k r in
             parse_elem fx f k st1 ((rt, v) :: b) props
           end
    end.
Proof. reflexivity. Qed.


Lemma GdsRt_parse_elem_body_S fx f k st b props :
  parse_elem fx (S f) k st b props = parse_elem_body fx (parse_elem fx f) f k st b props.
Proof. reflexivity. Qed.

Lemma GdsRt_struct_loop_S fx f st :
  struct_loop fx (S f) st =
    let? (r, st1) := next fx st in
    match fst r with
    | EndStruct => Ok ([], st1)
    | rt =>
      match elkind_of rt with
      | None => Err EParse
      | Some k =>
        let? (e, st2) := parse_elem fx f k st1 [] [] in
        let? (es, st3) := struct_loop fx f st2 in
        Ok (e :: es, st3)
      end
    end.
Proof. reflexivity. Qed.

Lemma GdsRt_lib_loop_S fx f st name units structs :
  lib_loop fx (S f) st name units structs =
    let? (r, st1) := next fx st in
    match r with
    | (EndLib, _) => Ok (name, units, structs)
    | (LibName, PStr d) => lib_loop fx f st1 (Some d) units structs
    | (Units, PF64 (d0 :: d1 :: _)) => lib_loop fx f st1 name (Some (d0, d1)) structs
    | (BgnStruct, PI16 dates) =>
      let? (s, st2) := parse_struct fx f st1 dates in
      lib_loop fx f st2 name units (structs ++ [s])
    | (rt, _) => if unsupported_lib rt then Err EUnsupported else Err EParse
    end.
Proof. reflexivity. Qed.
