(** Definitions used to STATE the GDSII round-trip theorems C01, C02, C03 (and reused by C10).
    No proofs in this file; nothing here changes the models GdsWrite.v / GdsRead.v / GdsSpec.v.

    - [rd_real], [canon_real], [real_rt]: what a real-valued field becomes after write-then-read;
    - [lib_map_reals f]: apply [f] to every real-valued field of a library (units, STRANS mag / angle);
    - [lib_okb_with rok]: [lib_okb] with the predicate on reals as a parameter; [lib_shapeb] = no
      condition on reals (only the invariants of the Rust integer / string / array types);
    - [payload_sizes], [some_payload_too_long], [lib_fitsb]: the 16-bit record-length limit;
    - [encb], [rd_rec], [rec_goodb]: one record as bytes / as read back / the records that read back;
    - [optrec]: the optional library-level records of the manual (C03, expected: reader error). *)
From Coq Require Import ZArith Bool List.
From L21 Require Import Base.Outcome Base.Hex Base.F64 Gds.GdsReal Gds.GdsData Gds.GdsRecord Gds.GdsWrite Gds.GdsRead Gds.GdsSpec.
Import ListNotations.
Local Open Scope Z_scope.

(** * Reals *)
(** the double the reader returns for a double [x] that the writer encoded *)
Definition rd_real (x : Z) : Z := gds_decode (gds_encode x).
(** the same for doubles inside the GDSII range or zero ([real_okb]): the value itself, zeros become +0.0 *)
Definition canon_real (x : Z) : Z := if f64_is_zero x then 0 else x.
(** [x] survives write-then-read as a value (Rust `==`) *)
Definition real_rt (x : Z) : Prop :=
  gds_decode (gds_encode x) = x \/
  (f64_is_zero x = true /\ f64_is_zero (gds_decode (gds_encode x)) = true).

Section MapReals.
Variable f : Z -> Z.
Definition strans_map_reals (s : strans) : strans :=
  mkStrans (st_reflected s) (st_abs_mag s) (st_abs_angle s) (option_map f (st_mag s)) (option_map f (st_angle s)).
Definition element_map_reals (e : element) : element :=
  match e with
  | ESref x => ESref (mkSref (sr_name x) (sr_xy x) (option_map strans_map_reals (sr_strans x))
                             (sr_elflags x) (sr_plex x) (sr_props x))
  | EAref x => EAref (mkAref (ar_name x) (ar_xy x) (ar_cols x) (ar_rows x) (option_map strans_map_reals (ar_strans x))
                             (ar_elflags x) (ar_plex x) (ar_props x))
  | EText x => EText (mkText (t_string x) (t_layer x) (t_texttype x) (t_xy x) (t_presentation x) (t_path_type x)
                             (t_width x) (option_map strans_map_reals (t_strans x))
                             (t_elflags x) (t_plex x) (t_props x))
  | e => e
  end.
Definition struct_map_reals (s : gstruct) : gstruct :=
  mkStruct (s_name s) (s_dates s) (map element_map_reals (s_elems s)).
Definition lib_map_reals (l : library) : library :=
  mkLib (l_name l) (l_version l) (l_dates l) (f (fst (l_units l)), f (snd (l_units l)))
        (map struct_map_reals (l_structs l)).
End MapReals.

(** the library a reader returns for what the writer wrote: reals through the codec; and the same
    for libraries satisfying [lib_ok]: equal to the original except that -0.0 reads back as +0.0 *)
Definition lib_readback : library -> library := lib_map_reals rd_real.
Definition lib_canon : library -> library := lib_map_reals canon_real.

(** * Type invariants with the predicate on reals as a parameter *)
Section OkWith.
Variable rok : Z -> bool.
Definition strans_okb_with (s : strans) : bool := opt_okb rok (st_mag s) && opt_okb rok (st_angle s).
Definition sref_okb_with (e : sref) : bool :=
  str_okb (sr_name e) && point_okb (sr_xy e) && opt_okb strans_okb_with (sr_strans e) &&
  opt_okb bits2_okb (sr_elflags e) && opt_okb i32b (sr_plex e) && forallb prop_okb (sr_props e).
Definition aref_okb_with (e : aref) : bool :=
  str_okb (ar_name e) && forallb point_okb (ar_xy e) && (Z.of_nat (length (ar_xy e)) =? 3) &&
  i16b (ar_cols e) && i16b (ar_rows e) && opt_okb strans_okb_with (ar_strans e) &&
  opt_okb bits2_okb (ar_elflags e) && opt_okb i32b (ar_plex e) && forallb prop_okb (ar_props e).
Definition text_okb_with (e : textelem) : bool :=
  str_okb (t_string e) && i16b (t_layer e) && i16b (t_texttype e) && point_okb (t_xy e) &&
  opt_okb bits2_okb (t_presentation e) && opt_okb i16b (t_path_type e) && opt_okb i32b (t_width e) &&
  opt_okb strans_okb_with (t_strans e) &&
  opt_okb bits2_okb (t_elflags e) && opt_okb i32b (t_plex e) && forallb prop_okb (t_props e).
Definition element_okb_with (e : element) : bool :=
  match e with
  | EBoundary x => boundary_okb x | EPath x => path_okb x | ESref x => sref_okb_with x | EAref x => aref_okb_with x
  | EText x => text_okb_with x | ENode x => node_okb x | EBox x => box_okb x
  end.
Definition struct_okb_with (s : gstruct) : bool :=
  str_okb (s_name s) && dts_okb (s_dates s) && forallb element_okb_with (s_elems s).
Definition lib_okb_with (l : library) : bool :=
  str_okb (l_name l) && i16b (l_version l) && dts_okb (l_dates l) &&
  rok (fst (l_units l)) && rok (snd (l_units l)) && forallb struct_okb_with (l_structs l).
End OkWith.

(** only the invariants of the Rust types: integer ranges, byte-valued UTF-8 strings, [GdsPoint; 3] / [GdsPoint; 5] *)
Definition lib_shapeb : library -> bool := lib_okb_with (fun _ => true).
Definition lib_shape_ok (l : library) : Prop := lib_shapeb l = true.

(** * The record-length limit, stated on the library *)
Definition element_xy_count (e : element) : Z :=
  match e with
  | EBoundary x => zlen (b_xy x) | EPath x => zlen (GdsData.p_xy x) | ESref _ => 1 | EAref x => zlen (ar_xy x)
  | EText _ => 1 | ENode x => zlen (n_xy x) | EBox x => zlen (x_xy x)
  end.
Definition lib_elements (l : library) : list element := flat_map s_elems (l_structs l).
(** payload sizes in bytes of the records of variable length: strings (padded to even), coordinate lists *)
Definition payload_sizes (l : library) : list Z :=
  map gds_strlen (lib_strings l) ++ map (fun e => 8 * element_xy_count e) (lib_elements l).
(** total record length (payload + 4) does not fit the 16-bit length field *)
Definition some_payload_too_long (l : library) : bool := existsb (fun n => 65535 <? n + 4) (payload_sizes l).

Definition rec_fitsb (r : record) : bool :=
  match rec_len r with Some (_, len) => len + 4 <=? 65535 | None => false end.
Definition lib_fitsb (l : library) : bool := forallb rec_fitsb (flatten_lib l).

(** * One record *)
(** the bytes of a record that fits: header (big-endian length + 4, record type, data type), payload *)
Definition encb (r : record) : bytes :=
  match rec_len r with
  | Some (dt, len) => be16 (len + 4) ++ [rtype_code (fst r); dtype_code dt] ++ enc_payload (snd r)
  | None => []
  end.
(** the record as the reader returns it: reals through the codec *)
Definition rd_payload (p : payload) : payload :=
  match p with PF64 l => PF64 (map rd_real l) | p => p end.
Definition rd_rec (r : record) : record := (fst r, rd_payload (snd r)).

Definition payload_okb (p : payload) : bool :=
  match p with
  | PNone => true
  | PBits b0 b1 => u8b b0 && u8b b1
  | PI16 l => forallb i16b l
  | PI32 l => forallb i32b l
  | PF64 _ => true
  | PStr s => str_okb s && negb (even_trailing_nul s)
  end.
(** a record the writer can emit and the reader reads back as [rd_rec] *)
Definition rec_goodb (r : record) : bool :=
  rec_fitsb r && rtype_valid (fst r) && payload_okb (snd r).

(** * Optional library-level records (manual: LIBDIRSIZE, SRFNAME, LIBSECUR between BGNLIB and LIBNAME;
      REFLIBS, FONTS, ATTRTABLE, GENERATIONS, FORMAT [MASK.. ENDMASKS] between LIBNAME and UNITS) *)
Inductive optrec :=
| OLibDirSize (n : Z) | OSrfName (s : bytes) | OLibSecur (l : list Z)
| ORefLibs (s : bytes) | OFonts (s : bytes) | OAttrTable (s : bytes) | OGenerations (n : Z) | OFormat (n : Z)
| OMask (s : bytes) | OEndMasks.
Definition optrec_srec (o : optrec) : srec :=
  match o with
  | OLibDirSize n => x_libdirsize n | OSrfName s => x_srfname s | OLibSecur l => x_libsecur l
  | ORefLibs s => x_reflibs s | OFonts s => x_fonts s | OAttrTable s => x_attrtable s
  | OGenerations n => x_generations n | OFormat n => x_format n | OMask s => x_mask s | OEndMasks => x_endmasks
  end.
Definition optstr_okb (s : bytes) : bool := str_okb s && (gds_strlen s + 4 <=? 65535).
Definition optrec_okb (o : optrec) : bool :=
  match o with
  | OLibDirSize n | OGenerations n | OFormat n => i16b n
  | OLibSecur l => forallb i16b l && (2 * zlen l + 4 <=? 65535)
  | OSrfName s | ORefLibs s | OFonts s | OAttrTable s | OMask s => optstr_okb s
  | OEndMasks => true
  end.
(** what gds21 answers when this record is the first optional one in the stream: `Unsupported` for the
    eight documented record types; LIBSECUR carrying anything but one integer is rejected earlier by the
    record decoder (its arm is `(LibSecur, I16, 2)`); MASK / ENDMASKS have no arm in parse_lib *)
Definition optrec_error (o : optrec) : ekind :=
  match o with
  | OLibSecur l => if zlen l =? 1 then EUnsupported else ERecordDecode
  | OMask _ | OEndMasks => EParse
  | _ => EUnsupported
  end.
