(** Safety of the GDSII reader model (C10): no Panic is reachable in [read_lib_fuel true], fuel
    linear in the input length always suffices, an accepted stream contains complete records up to
    an ENDLIB record. One lemma per reader function ([..._wp], [..._ctl]), all in the form
    [wp Ppanic Pfuel Post outcome]: the outcome is [Panic] only if [Ppanic], [OutOfFuel] only if
    [Pfuel], and satisfies [Post] when it is [Ok]. Holds for every [list Z], byte-valued or not. *)
From Coq Require Import ZArith Bool List Lia.
From L21 Require Import Base.Outcome Base.Hex Base.F64 Gds.GdsReal Gds.GdsData Gds.GdsRecord Gds.GdsWrite Gds.GdsRead Gds.GdsSpec.
Import ListNotations.
Local Open Scope Z_scope.


(** * Outcome predicates *)
Definition wp {A} (Pp Pf : Prop) (P : A -> Prop) (x : res A) : Prop :=
  match x with Ok a => P a | Err _ => True | Panic => Pp | OutOfFuel => Pf end.

Lemma wp_bind {A B} (Pp Pf : Prop) (P : A -> Prop) (Q : B -> Prop) (x : res A) (f : A -> res B) :
  wp Pp Pf P x -> (forall a, P a -> wp Pp Pf Q (f a)) -> wp Pp Pf Q (obind x f).
Proof. destruct x; simpl; auto. Qed.

Lemma wp_weaken {A} (Pp Pf Pp' Pf' : Prop) (P P' : A -> Prop) (x : res A) :
  wp Pp Pf P x -> (Pp -> Pp') -> (Pf -> Pf') -> (forall a, P a -> P' a) -> wp Pp' Pf' P' x.
Proof. destruct x; simpl; auto. Qed.

Lemma wp_ok_inv {A} (Pp Pf : Prop) (P : A -> Prop) (x : res A) a : wp Pp Pf P x -> x = Ok a -> P a.
Proof. intros H ->. exact H. Qed.
Lemma wp_no_panic {A} (Pf : Prop) (P : A -> Prop) (x : res A) : wp False Pf P x -> x <> Panic.
Proof. intros H ->. exact H. Qed.
Lemma wp_no_fuel {A} (Pp : Prop) (P : A -> Prop) (x : res A) : wp Pp False P x -> x <> OutOfFuel.
Proof. intros H ->. exact H. Qed.

(** * Bytes *)
Lemma take_inv n : forall bs a r, take n bs = Some (a, r) -> bs = a ++ r /\ length a = n.
Proof.
  induction n as [|n IH]; intros bs a r H; simpl in H.
  - inversion H; subst; auto.
  - destruct bs as [|b bs']; [discriminate|].
    destruct (take n bs') as [[a' r']|] eqn:E; [|discriminate].
    inversion H; subst. apply IH in E as [-> <-]. auto.
Qed.

Lemma read_exact_wp (Pp Pf : Prop) len bs :
  wp Pp Pf (fun '(a, r) => bs = a ++ r /\ length a = Z.to_nat len) (read_exact len bs).
Proof.
  unfold read_exact. destruct (take (Z.to_nat len) bs) as [[a r]|] eqn:E; simpl; auto.
  apply take_inv in E. exact E.
Qed.

Lemma pairs16_len : forall l, (2 * length (pairs16 l) <= length l < 2 * length (pairs16 l) + 2)%nat.
Proof. fix IH 1. intros [|a [|b r]]; simpl; try lia. specialize (IH r). lia. Qed.
Lemma quads32_len : forall l, (4 * length (quads32 l) <= length l < 4 * length (quads32 l) + 4)%nat.
Proof. fix IH 1. intros [|a [|b [|c [|d r]]]]; simpl; try lia. specialize (IH r). lia. Qed.
Lemma octs64_len : forall l, (8 * length (octs64 l) <= length l < 8 * length (octs64 l) + 8)%nat.
Proof.
  fix IH 1. intros [|a0 [|a1 [|a2 [|a3 [|a4 [|a5 [|a6 [|a7 r]]]]]]]]; cbn [octs64 length]; try lia.
  specialize (IH r). lia.
Qed.

Lemma nth_rtype_code : forall k rt, nth_error all_rtypes k = Some rt -> Z.of_nat k = rtype_code rt.
Proof.
  intros k rt H.
  do 60 (destruct k as [|k]; [inversion H; subst; reflexivity|]).
  destruct k; discriminate H.
Qed.
Lemma rtype_of_Z_inv c rt : rtype_of_Z c = Some rt -> c = rtype_code rt.
Proof.
  unfold rtype_of_Z. destruct ((0 <=? c) && (c <? 60)) eqn:E; [|discriminate].
  intros H. apply nth_rtype_code in H. lia.
Qed.
Lemma rtype_code_endlib rt : rtype_code rt = 4 -> rt = EndLib.
Proof. destruct rt; simpl; intros H; try discriminate H; reflexivity. Qed.

(** * Header *)
Lemma read_header_wp (Pp Pf : Prop) bs :
  wp Pp Pf (fun '(rt, dt, len, r) =>
      exists l0 l1 c d, bs = l0 :: l1 :: c :: d :: r /\ len = l0 * 256 + l1 - 4 /\ 0 <= len /\
                        Z.odd (l0 * 256 + l1) = false /\ rtype_of_Z c = Some rt) (read_header bs).
Proof.
  unfold read_header.
  destruct bs as [|b0 [|b1 r1]]; simpl; auto.
  unfold u16_of.
  destruct (b0 * 256 + b1 <? 4) eqn:E1; simpl; auto.
  destruct ((b0 * 256 + b1) mod 2 =? 0) eqn:E2; simpl; auto.
  destruct r1 as [|rt r2]; simpl; auto.
  destruct (rtype_of_Z rt) as [rty|] eqn:E3; simpl; auto.
  destruct (rtype_valid rty); simpl; auto.
  destruct r2 as [|dt r3]; simpl; auto.
  destruct (dtype_of_Z dt) as [d|]; simpl; auto.
  exists b0, b1, rt, dt. apply Z.ltb_ge in E1. apply Z.eqb_eq in E2.
  repeat split; auto; try lia.
  rewrite Zodd_mod, E2. reflexivity.
Qed.

(** * Record shape: the payload has the form of the Rust enum variant *)
Definition rec_shape (r : record) : Prop := rec_len r <> None.

Lemma arm_nodata rt ls : arm_of rt = Some (DNoData, ls) -> ls = LFixed 0.
Proof. destruct rt; simpl; intros H; inversion H; reflexivity. Qed.
Lemma arm_bits rt ls : arm_of rt = Some (DBitArray, ls) -> ls = LFixed 2.
Proof. destruct rt; simpl; intros H; inversion H; reflexivity. Qed.
Lemma arm_i16 rt ls : arm_of rt = Some (DI16, ls) -> exists n, ls = LFixed n /\ 0 <= n /\ n mod 2 = 0.
Proof. destruct rt; simpl; intros H; inversion H; eexists; (split; [reflexivity|split; [lia|reflexivity]]). Qed.
Lemma arm_i32 rt ls : arm_of rt = Some (DI32, ls) -> ls = LAny \/ ls = LFixed 4.
Proof. destruct rt; simpl; intros H; inversion H; auto. Qed.
Lemma arm_f64 rt ls : arm_of rt = Some (DF64, ls) -> ls = LFixed 8 \/ ls = LFixed 16.
Proof. destruct rt; simpl; intros H; inversion H; auto. Qed.
Lemma arm_str rt ls : arm_of rt = Some (DStr, ls) -> ls = LAny.
Proof. destruct rt; simpl; intros H; inversion H; auto. Qed.
Lemma arm_f32 rt ls : arm_of rt = Some (DF32, ls) -> False.
Proof. destruct rt; simpl; intros H; inversion H. Qed.

Lemma need_wp (Pf : Prop) n l : n <= Z.of_nat (length l) -> wp False Pf (fun v => v = l) (need n l).
Proof. intros H. unfold need. apply Z.leb_le in H. rewrite H. reflexivity. Qed.

Ltac Zify.zify_post_hook ::= Z.div_mod_to_equations.

Definition consumed (bs : bytes) (len : Z) (bs' : bytes) : Prop :=
  exists pl, bs = pl ++ bs' /\ length pl = Z.to_nat len.

Lemma read_content_wp rt dt len bs : 0 <= len ->
  wp False False (fun '(r, bs') => fst r = rt /\ rec_shape r /\ consumed bs len bs') (read_content true rt dt len bs).
Proof.
  intros Hlen. unfold read_content.
  destruct (arm_of rt) as [[d ls]|] eqn:Harm; [|exact I].
  destruct (dtype_eqb d dt && len_matches ls len) eqn:Hc; cbn [negb]; [|exact I].
  apply andb_true_iff in Hc as [_ Hlm].
  assert (Hshape : forall pl, (match d, ls, pl with
             | DNoData, LFixed _, PNone => True
             | DBitArray, LFixed _, PBits _ _ => True
             | DI16, LFixed n, PI16 l => 2 * zlen l = n
             | DI32, LFixed n, PI32 l => 4 * zlen l = n
             | DF64, LFixed n, PF64 l => 8 * zlen l = n
             | DStr, LAny, PStr _ => True
             | DI32, LAny, PI32 _ => True
             | _, _, _ => False end) -> rec_shape (rt, pl)).
  { intros pl H. unfold rec_shape, rec_len. cbn [fst snd]. rewrite Harm.
    destruct d, ls, pl; try contradiction; try discriminate;
      try (apply Z.eqb_eq in H; rewrite H; discriminate). }
  destruct d.
  - (* NoData *)
    apply arm_nodata in Harm as Hls. subst ls. cbn [len_matches] in Hlm. apply Z.eqb_eq in Hlm. subst len.
    simpl. repeat split; [apply Hshape; exact I|]. exists []. split; reflexivity.
  - (* BitArray *)
    apply arm_bits in Harm as Hls. subst ls. cbn [len_matches] in Hlm. apply Z.eqb_eq in Hlm. subst len.
    eapply wp_bind; [apply read_exact_wp|]. intros [data r] [-> Hl].
    destruct data as [|b0 [|b1 [|]]]; try discriminate Hl.
    simpl. repeat split; [apply Hshape; exact I|]. exists [b0; b1]. split; reflexivity.
  - (* I16 *)
    apply arm_i16 in Harm as Hls. destruct Hls as (n & -> & Hn0 & Hn2). cbn [len_matches] in Hlm. apply Z.eqb_eq in Hlm. subst len.
    eapply wp_bind; [apply read_exact_wp|]. intros [data r] [-> Hl].
    pose proof (pairs16_len data) as Hp.
    eapply wp_bind; [apply need_wp; unfold fixed_count; lia|]. intros v ->.
    simpl. repeat split; [apply Hshape; unfold zlen; lia|]. exists data. split; auto.
  - (* I32 *)
    apply arm_i32 in Harm as Hls.
    eapply wp_bind; [apply read_exact_wp|]. intros [data r] [-> Hl].
    pose proof (quads32_len data) as Hp.
    destruct Hls as [-> | ->].
    + eapply wp_bind; [apply need_wp; unfold fixed_count; lia|]. intros v ->.
      simpl. repeat split; [apply Hshape; exact I|]. exists data. split; auto.
    + cbn [len_matches] in Hlm. apply Z.eqb_eq in Hlm. subst len.
      eapply wp_bind; [apply need_wp; unfold fixed_count; lia|]. intros v ->.
      simpl. repeat split; [apply Hshape; unfold zlen; lia|]. exists data. split; auto.
  - (* F32 *) exact I.
  - (* F64 *)
    apply arm_f64 in Harm as Hls.
    destruct Hls as [-> | ->]; cbn [len_matches] in Hlm; apply Z.eqb_eq in Hlm; subst len.
    + change (8 * (8 / 8)) with 8.
      eapply wp_bind; [apply read_exact_wp|]. intros [data r] [-> Hl].
      pose proof (octs64_len data) as Hp.
      eapply wp_bind; [apply need_wp; unfold fixed_count; rewrite map_length; lia|]. intros v ->.
      simpl. repeat split; [apply Hshape; unfold zlen; rewrite map_length; lia|]. exists data. split; auto.
    + change (8 * (16 / 8)) with 16.
      eapply wp_bind; [apply read_exact_wp|]. intros [data r] [-> Hl].
      pose proof (octs64_len data) as Hp.
      eapply wp_bind; [apply need_wp; unfold fixed_count; rewrite map_length; lia|]. intros v ->.
      simpl. repeat split; [apply Hshape; unfold zlen; rewrite map_length; lia|]. exists data. split; auto.
  - (* Str *)
    apply arm_str in Harm as Hls. subst ls.
    unfold read_str.
    eapply wp_bind; [eapply wp_bind; [apply read_exact_wp|]|].
    + intros [data r] [-> Hl]. cbn [negb andb].
      match goal with |- context [utf8_valid ?s] => destruct (utf8_valid s) end; simpl; [|exact I].
      instantiate (1 := fun '(_, r') => consumed bs len r'). simpl. exists data. auto.
    + intros [s r] Hcons. simpl. repeat split; [apply Hshape; exact I|exact Hcons].
Qed.


(** * Complete records up to and including ENDLIB: [endlib_at n bs] says that the first [n] bytes
      of [bs] are complete records (even total length >= 4, payload present), none of type ENDLIB
      (0x04) except the last one, which is. *)
Inductive endlib_at : nat -> bytes -> Prop :=
| EA_last l0 l1 dt r :
    4 <= l0 * 256 + l1 -> Z.odd (l0 * 256 + l1) = false -> (Z.to_nat (l0 * 256 + l1 - 4) <= length r)%nat ->
    endlib_at (4 + Z.to_nat (l0 * 256 + l1 - 4)) (l0 :: l1 :: 4 :: dt :: r)
| EA_cons l0 l1 rt dt r n :
    4 <= l0 * 256 + l1 -> Z.odd (l0 * 256 + l1) = false -> (Z.to_nat (l0 * 256 + l1 - 4) <= length r)%nat ->
    rt <> 4 -> endlib_at n (skipn (Z.to_nat (l0 * 256 + l1 - 4)) r) ->
    endlib_at (4 + Z.to_nat (l0 * 256 + l1 - 4) + n) (l0 :: l1 :: rt :: dt :: r).
Definition has_endlib (bs : bytes) : Prop := exists n, endlib_at n bs.

Lemma skipn_length_app {A} (a b : list A) : skipn (length a) (a ++ b) = b.
Proof. induction a; simpl; auto. Qed.

(** what one successful read_record did to the byte string *)
Definition rec_at (bs : bytes) (r : record) (bs' : bytes) : Prop :=
  exists l0 l1 c d pl, bs = l0 :: l1 :: c :: d :: pl ++ bs' /\ 4 <= l0 * 256 + l1 /\ Z.odd (l0 * 256 + l1) = false /\
    length pl = Z.to_nat (l0 * 256 + l1 - 4) /\ c = rtype_code (fst r).

Lemma read_record_wp bs :
  wp False False (fun '(r, bs') => rec_shape r /\ rec_at bs r bs') (read_record true bs).
Proof.
  unfold read_record.
  eapply wp_bind; [apply read_header_wp|].
  intros [[[rt dt] len] r] (l0 & l1 & c & d & -> & -> & Hlen & Hodd & Hrt).
  eapply wp_weaken; [apply read_content_wp; exact Hlen|tauto|tauto|].
  intros [rc bs'] (Hfst & Hshape & pl & -> & Hpl). split; [exact Hshape|].
  exists l0, l1, c, d, pl. repeat split; auto; try lia.
  rewrite Hfst. apply rtype_of_Z_inv. exact Hrt.
Qed.

Lemma rec_at_len bs r bs' : rec_at bs r bs' -> (length bs' + 4 <= length bs)%nat.
Proof. intros (l0 & l1 & c & d & pl & -> & _). simpl. rewrite app_length. lia. Qed.

Lemma rec_at_endlib bs r bs' : rec_at bs r bs' -> is_endlib r = true -> has_endlib bs.
Proof.
  intros (l0 & l1 & c & d & pl & -> & H4 & Hodd & Hpl & Hc) He.
  unfold is_endlib in He. destruct (fst r); try discriminate He. simpl in Hc. subst c.
  eexists. apply EA_last; auto. rewrite app_length. lia.
Qed.
Lemma rec_at_cons bs r bs' : rec_at bs r bs' -> is_endlib r = false -> has_endlib bs' -> has_endlib bs.
Proof.
  intros (l0 & l1 & c & d & pl & -> & H4 & Hodd & Hpl & Hc) He [n Hn].
  eexists. apply EA_cons; eauto.
  { rewrite app_length. lia. }
  2: { rewrite <- Hpl, skipn_length_app. exact Hn. }
  intros Hc4. rewrite Hc4 in Hc. symmetry in Hc. apply rtype_code_endlib in Hc.
  unfold is_endlib in He. rewrite Hc in He. discriminate He.
Qed.

(** * Parser states *)
Definition st_ok (st : pstate) : Prop := rec_shape (nxt st).
Definition st_goal (st : pstate) : Prop := is_endlib (nxt st) = true \/ has_endlib (rest st).
(** relation between the state before and after a parser function that returned Ok *)
Definition st_le (st st' : pstate) : Prop :=
  st_ok st' /\ (length (rest st') <= length (rest st))%nat /\ (st_goal st' -> st_goal st).

Lemma st_le_refl st : st_ok st -> st_le st st.
Proof. intros H. repeat split; auto. Qed.
Lemma st_le_trans a b c : st_le a b -> st_le b c -> st_le a c.
Proof. intros (H1 & H2 & H3) (H4 & H5 & H6). repeat split; auto. lia. Qed.

Lemma next_wp st : st_ok st ->
  wp False False (fun '(r, st') => r = nxt st /\ st_le st st' /\
     (is_endlib (nxt st) = false -> (length (rest st') + 4 <= length (rest st))%nat)) (next true st).
Proof.
  intros Hok. unfold next. destruct (is_endlib (nxt st)) eqn:He.
  - simpl. split; [reflexivity|]. split; [apply st_le_refl; exact Hok|]. intros H; discriminate H.
  - eapply wp_bind; [apply read_record_wp|]. intros [r bs'] [Hs Hat]. simpl.
    pose proof (rec_at_len _ _ _ Hat) as Hl.
    repeat split; cbn [rest nxt st_ok]; auto; try lia.
    intros [Hg|Hg]; right; simpl in Hg.
    + eapply rec_at_endlib; eauto.
    + destruct (is_endlib r) eqn:Hr.
      * eapply rec_at_endlib; eauto.
      * eapply rec_at_cons; eauto.
Qed.

(** the standard way to use a sub-result inside a bind *)
Ltac wp_step L :=
  eapply wp_bind; [eapply wp_weaken; [eapply L| | |intros ? HH; exact HH]|].

(** * shape inversion *)
Lemma shape_inv rt pl : rec_shape (rt, pl) ->
  match arm_of rt with
  | Some (DNoData, _) => pl = PNone
  | Some (DBitArray, _) => exists a b, pl = PBits a b
  | Some (DI16, LFixed n) => exists l, pl = PI16 l /\ 2 * zlen l = n
  | Some (DI32, LFixed n) => exists l, pl = PI32 l /\ 4 * zlen l = n
  | Some (DI32, LAny) => exists l, pl = PI32 l
  | Some (DF64, LFixed n) => exists l, pl = PF64 l /\ 8 * zlen l = n
  | Some (DStr, LAny) => exists s, pl = PStr s
  | _ => False
  end.
Proof.
  unfold rec_shape, rec_len. cbn [fst snd].
  destruct (arm_of rt) as [[d ls]|]; [|congruence].
  destruct d, ls, pl; try congruence; eauto;
    match goal with |- context [if ?c then _ else _] => destruct c eqn:E; [apply Z.eqb_eq in E; eauto|congruence] end.
Qed.

Lemma zlen_cons {A} (a : A) l : zlen (a :: l) = 1 + zlen l.
Proof. unfold zlen. cbn [length]. lia. Qed.
Lemma zlen_nil {A} : zlen (@nil A) = 0.
Proof. reflexivity. Qed.
Lemma zlen_nonneg {A} (l : list A) : 0 <= zlen l.
Proof. unfold zlen. lia. Qed.

(** destruct a list whose [zlen] is pinned by a linear equation *)
Ltac list_by_zlen l H :=
  unfold zlen in H;
  repeat (let a := fresh "x" in destruct l as [|a l]; cbn [length] in H;
          [try (exfalso; lia)|try (exfalso; lia)]).

(** * strans *)
Lemma strans_loop_ctl : forall f st s, st_ok st ->
  wp False (4 * f <= length (rest st))%nat (fun '(_, st') => st_le st st') (strans_loop true f st s).
Proof.
  induction f as [|f IH]; intros st s Hok; cbn [strans_loop].
  - simpl. lia.
  - destruct (nxt st) as [rt pl] eqn:Hn.
    destruct rt; try (simpl; apply st_le_refl; exact Hok);
      destruct pl as [| | | |l|]; try (simpl; apply st_le_refl; exact Hok);
      destruct l as [|d l]; try (simpl; apply st_le_refl; exact Hok).
    all: wp_step next_wp; [exact Hok|tauto|tauto|].
    all: intros [r st1] (Hr & Hle & Hc); cbn beta iota.
    all: eapply wp_weaken; [apply IH; apply Hle|tauto| |].
    all: try (intros Hf; rewrite Hn in Hc; specialize (Hc eq_refl); destruct Hle as (_ & Hl & _); lia).
    all: intros [s' st'] Hle'; eapply st_le_trans; eauto.
Qed.

Lemma parse_strans_ctl f st d0 d1 : st_ok st ->
  wp False (4 * f <= length (rest st))%nat (fun '(_, st') => st_le st st') (parse_strans true f st d0 d1).
Proof. intros. apply strans_loop_ctl. assumption. Qed.

Lemma parse_property_ctl st attr : st_ok st ->
  wp False False (fun '(_, st') => st_le st st') (parse_property true st attr).
Proof.
  intros Hok. unfold parse_property.
  wp_step next_wp; [exact Hok|tauto|tauto|].
  intros [[rt pl] st1] (Hr & Hle & Hc). cbn beta iota.
  destruct rt; try exact I. destruct pl; try exact I. simpl. exact Hle.
Qed.


Ltac break_match :=
  match goal with |- context [match ?x with _ => _ end] => destruct x end.

Lemma build_elem_wp k b props : wp False False (fun _ => True) (build_elem k b props).
Proof.
  unfold build_elem, req_z, req_pts, req_pt, req_str.
  destruct k; repeat (break_match; cbn [obind wp]; auto).
Qed.

Lemma parse_vec_wp l : wp False False (fun _ => True) (parse_vec l).
Proof. unfold parse_vec. break_match; simpl; auto. Qed.
Lemma parse_point_wp l : wp False False (fun _ => True) (parse_point l).
Proof. unfold parse_point. repeat (break_match; simpl; auto). Qed.

Lemma dates_of_wp l : 2 * zlen l = 24 -> wp False False (fun _ => True) (dates_of l).
Proof. intros H. list_by_zlen l H. exact I. Qed.

Lemma accepts_endlib k : accepts k EndLib = false.
Proof. destruct k; reflexivity. Qed.

(** a field record of an element: never a panic *)
Lemma field_of_wp k rt pl : rec_shape (rt, pl) -> accepts k rt = true ->
  wp False False (fun _ => True) (field_of k (rt, pl)).
Proof.
  intros Hs Ha. apply shape_inv in Hs.
  destruct rt; try (exfalso; destruct k; discriminate Ha); cbn [arm_of] in Hs.
  all: try (destruct Hs as (l & -> & Hl); list_by_zlen l Hl; exact I).
  all: try (destruct Hs as (a & b & ->); exact I).
  all: try (destruct Hs as (s & ->); exact I).
  (* Xy *)
  destruct Hs as (l & ->). cbn [field_of].
  destruct k; try (exfalso; discriminate Ha).
  all: try (eapply wp_bind; [apply parse_vec_wp|]; intros v _; try break_match; exact I).
  all: try (eapply wp_bind; [apply parse_point_wp|]; intros v _; exact I).
Qed.

Lemma parse_elem_ctl : forall f k st b props, st_ok st ->
  wp False (4 * f <= length (rest st))%nat (fun '(_, st') => st_le st st') (parse_elem true f k st b props).
Proof.
  induction f as [|f IH]; intros k st b props Hok; cbn [parse_elem]; [|unfold parse_elem_body].
  - simpl. lia.
  - wp_step next_wp; [exact Hok|tauto|tauto|].
    intros [[rt pl] st1] (Hr & Hle & Hc). cbn beta iota.
    assert (Hsh : rec_shape (rt, pl)) by (rewrite Hr; exact Hok).
    assert (Hfuel : is_endlib (nxt st) = false -> (4 * f <= length (rest st1))%nat -> (4 * S f <= length (rest st))%nat) by (intros H1 H2; specialize (Hc H1); lia).
    assert (Hrec : forall st2 b' props', st_le st1 st2 -> is_endlib (nxt st) = false ->
              wp False (4 * S f <= length (rest st))%nat (fun '(_, st') => st_le st st') (parse_elem true f k st2 b' props')).
    { intros st2 b' props' Hle2 He. eapply wp_weaken; [apply IH; apply Hle2|tauto| |].
      - intros Hf. apply Hfuel; auto. destruct Hle2 as (_ & Hl2 & _). lia.
      - intros [e st'] Hle'. eapply st_le_trans; [exact Hle|]. eapply st_le_trans; eauto. }
    destruct rt.
    all: lazymatch goal with
         | H : rec_shape (EndElement, _) |- _ =>
           eapply wp_bind; [eapply wp_weaken; [apply build_elem_wp|tauto|tauto|intros ? HH; exact HH]|];
           intros e _; simpl; exact Hle
         | _ => idtac
         end.
    all: destruct (accepts k _) eqn:Hacc; cbn [negb]; [|exact I].
    all: try (exfalso; destruct k; discriminate Hacc).
    all: assert (He : is_endlib (nxt st) = false) by (rewrite <- Hr; reflexivity).
    all: lazymatch goal with
         | H : rec_shape (Strans, _) |- _ =>
           apply shape_inv in Hsh; cbn [arm_of] in Hsh; destruct Hsh as (d0 & d1 & ->);
           eapply wp_bind; [eapply wp_weaken; [apply (parse_strans_ctl f st1 d0 d1); apply Hle|tauto| |intros ? HH; exact HH]|];
           [intros Hf; apply Hfuel; auto
           |intros [s st2] Hle2; cbn beta iota; apply Hrec; auto]
         | H : rec_shape (PropAttr, _) |- _ =>
           apply shape_inv in Hsh; cbn [arm_of] in Hsh; destruct Hsh as (l & -> & Hl); list_by_zlen l Hl;
           eapply wp_bind; [eapply wp_weaken; [eapply (parse_property_ctl st1); apply Hle|tauto|tauto|intros ? HH; exact HH]|];
           intros [p st2] Hle2; cbn beta iota; apply Hrec; auto
         | _ =>
           eapply wp_bind; [eapply wp_weaken; [apply field_of_wp; [exact Hsh|exact Hacc]|tauto|tauto|intros ? HH; exact HH]|];
           intros v _; apply Hrec; [apply st_le_refl; apply Hle|exact He]
         end.
Qed.


Lemma struct_loop_ctl : forall f st, st_ok st ->
  wp False (4 * f <= length (rest st))%nat (fun '(_, st') => st_le st st') (struct_loop true f st).
Proof.
  induction f as [|f IH]; intros st Hok; cbn [struct_loop].
  - simpl. lia.
  - wp_step next_wp; [exact Hok|tauto|tauto|].
    intros [[rt pl] st1] (Hr & Hle & Hc). cbn beta iota. cbn [fst].
    destruct rt; cbn [elkind_of]; try exact I; try (simpl; exact Hle).
    all: assert (He : is_endlib (nxt st) = false) by (rewrite <- Hr; reflexivity); specialize (Hc He).
    all: eapply wp_bind; [eapply wp_weaken; [eapply parse_elem_ctl; apply Hle|tauto| |intros ? HH; exact HH]|]; [lia|].
    all: intros [e st2] Hle2; cbn beta iota.
    all: eapply wp_bind; [eapply wp_weaken; [eapply IH; apply Hle2|tauto| |intros ? HH; exact HH]|];
         [destruct Hle2 as (_ & Hl2 & _); lia|].
    all: intros [es st3] Hle3; simpl.
    all: eapply st_le_trans; [exact Hle|]; eapply st_le_trans; eauto.
Qed.

Lemma parse_struct_ctl f st dates : st_ok st -> 2 * zlen dates = 24 ->
  wp False (4 * f <= length (rest st))%nat (fun '(_, st') => st_le st st') (parse_struct true f st dates).
Proof.
  intros Hok Hd. unfold parse_struct.
  eapply wp_bind; [eapply wp_weaken; [apply dates_of_wp; exact Hd|tauto|tauto|intros ? HH; exact HH]|].
  intros ds _.
  wp_step next_wp; [exact Hok|tauto|tauto|].
  intros [[rt pl] st1] (Hr & Hle & Hc). cbn beta iota.
  destruct rt; try exact I. destruct pl; try exact I.
  eapply wp_bind; [eapply wp_weaken; [eapply struct_loop_ctl; apply Hle|tauto| |intros ? HH; exact HH]|];
    [destruct Hle as (_ & Hl & _); lia|].
  intros [es st2] Hle2. simpl. eapply st_le_trans; eauto.
Qed.

Lemma lib_loop_ctl : forall f st name units structs, st_ok st ->
  wp False (4 * f <= length (rest st))%nat (fun _ => st_goal st) (lib_loop true f st name units structs).
Proof.
  induction f as [|f IH]; intros st name units structs Hok; cbn [lib_loop].
  - simpl. lia.
  - wp_step next_wp; [exact Hok|tauto|tauto|].
    intros [[rt pl] st1] (Hr & Hle & Hc). cbn beta iota.
    assert (Hsh : rec_shape (rt, pl)) by (rewrite Hr; exact Hok).
    assert (Hrec : forall st2 n u ss, st_le st1 st2 -> is_endlib (nxt st) = false ->
              wp False (4 * S f <= length (rest st))%nat (fun _ => st_goal st) (lib_loop true f st2 n u ss)).
    { intros st2 n u ss Hle2 He. specialize (Hc He).
      eapply wp_weaken; [apply IH; apply Hle2|tauto| |].
      - destruct Hle2 as (_ & Hl2 & _). lia.
      - intros a Hg. cbn beta in Hg. apply Hle. apply Hle2. exact Hg. }
    destruct rt; try (destruct (unsupported_lib _); exact I).
    + (* LibName *)
      destruct pl; try exact I. apply Hrec; [apply st_le_refl; apply Hle|rewrite <- Hr; reflexivity].
    + (* Units *)
      destruct pl as [| | | |l|]; try exact I. destruct l as [|d0 [|d1 l]]; try exact I.
      apply Hrec; [apply st_le_refl; apply Hle|rewrite <- Hr; reflexivity].
    + (* EndLib *)
      simpl. left. rewrite <- Hr. reflexivity.
    + (* BgnStruct *)
      destruct pl as [| |dates| | |]; try exact I.
      assert (He : is_endlib (nxt st) = false) by (rewrite <- Hr; reflexivity).
      apply shape_inv in Hsh. cbn [arm_of] in Hsh. destruct Hsh as (l & Hl & Hz). inversion Hl; subst l.
      eapply wp_bind; [eapply wp_weaken; [eapply parse_struct_ctl; [apply Hle|exact Hz]|tauto| |intros ? HH; exact HH]|];
        [specialize (Hc He); lia|].
      intros [s st2] Hle2. cbn beta iota. apply Hrec; auto.
Qed.

Lemma parse_lib_ctl f st : st_ok st ->
  wp False (4 * f <= length (rest st))%nat (fun _ => st_goal st) (parse_lib true f st).
Proof.
  intros Hok. unfold parse_lib.
  wp_step next_wp; [exact Hok|tauto|tauto|].
  intros [[rt pl] st1] (Hr & Hle & Hc). cbn beta iota.
  destruct rt; try exact I. destruct pl as [| |l| | |]; try exact I. destruct l as [|v l]; try exact I.
  wp_step next_wp; [apply Hle|tauto|tauto|].
  intros [[rt2 pl2] st2] (Hr2 & Hle2 & Hc2). cbn beta iota.
  assert (Hsh : rec_shape (rt2, pl2)) by (rewrite Hr2; apply Hle).
  destruct rt2; try exact I. destruct pl2 as [| |d| | |]; try exact I.
  apply shape_inv in Hsh. cbn [arm_of] in Hsh. destruct Hsh as (l' & Hl & Hz). inversion Hl; subst l'.
  eapply wp_bind; [eapply wp_weaken; [apply dates_of_wp; exact Hz|tauto|tauto|intros ? HH; exact HH]|].
  intros ds _.
  eapply wp_bind; [eapply wp_weaken; [eapply lib_loop_ctl; apply Hle2|tauto| |intros ? HH; exact HH]|].
  - destruct Hle as (_ & Hl1 & _). destruct Hle2 as (_ & Hl2 & _). lia.
  - intros [[name units] structs] Hg.
    assert (Hg0 : st_goal st) by (apply Hle; apply Hle2; exact Hg).
    destruct name; destruct units; simpl; auto.
Qed.


Lemma read_lib_fuel_ctl f bs :
  wp False (4 * f <= length bs)%nat (fun _ => has_endlib bs) (read_lib_fuel true f bs).
Proof.
  unfold read_lib_fuel.
  wp_step read_record_wp; [tauto|tauto|].
  intros [r bs'] [Hs Hat]. cbn beta iota.
  pose proof (rec_at_len _ _ _ Hat) as Hl.
  eapply wp_weaken; [apply parse_lib_ctl; exact Hs|tauto| |].
  - cbn [rest]. lia.
  - intros l [Hg|Hg]; cbn [nxt rest] in Hg.
    + eapply rec_at_endlib; eauto.
    + destruct (is_endlib r) eqn:Hr.
      * eapply rec_at_endlib; eauto.
      * eapply rec_at_cons; eauto.
Qed.

Theorem read_no_panic bs f : read_lib_fuel true f bs <> Panic.
Proof. eapply wp_no_panic. apply read_lib_fuel_ctl. Qed.

Theorem read_enough_fuel bs f : (length bs < 4 * f)%nat -> read_lib_fuel true f bs <> OutOfFuel.
Proof.
  intros Hf E. pose proof (read_lib_fuel_ctl f bs) as W. rewrite E in W. simpl in W. lia.
Qed.

Lemma read_fuel_enough bs : (length bs < 4 * read_fuel bs)%nat.
Proof.
  unfold read_fuel. pose proof (Nat.div_mod (length bs) 4 ltac:(lia)) as H.
  pose proof (Nat.mod_upper_bound (length bs) 4 ltac:(lia)). lia.
Qed.

Theorem read_terminates bs : read_lib_fuel true (read_fuel bs) bs <> OutOfFuel.
Proof. apply read_enough_fuel. apply read_fuel_enough. Qed.

Theorem read_ok_has_endlib bs l : read_lib bs = Ok l -> has_endlib bs.
Proof.
  unfold read_lib. intros E. pose proof (read_lib_fuel_ctl (read_fuel bs) bs) as W.
  rewrite E in W. exact W.
Qed.

(** * [endlib_at]: basic facts *)
Lemma endlib_at_le n bs : endlib_at n bs -> (n <= length bs)%nat.
Proof.
  induction 1 as [l0 l1 dt r H4 Hodd Hlen|l0 l1 rt dt r n H4 Hodd Hlen Hrt Hrest IH]; cbn [length].
  - lia.
  - rewrite skipn_length in IH. lia.
Qed.

Lemma endlib_at_det n bs : endlib_at n bs -> forall m, endlib_at m bs -> n = m.
Proof.
  induction 1 as [l0 l1 dt r H4 Hodd Hlen|l0 l1 rt dt r n H4 Hodd Hlen Hrt Hrest IH]; intros m Hm; inversion Hm; subst; try congruence.
  f_equal. apply IH. assumption.
Qed.

Lemma endlib_at_app n bs x : endlib_at n bs -> endlib_at n (bs ++ x).
Proof.
  induction 1 as [l0 l1 dt r H4 Hodd Hlen|l0 l1 rt dt r n H4 Hodd Hlen Hrt Hrest IH]; cbn [app].
  - apply EA_last; auto. rewrite app_length. lia.
  - apply EA_cons; auto.
    + rewrite app_length. lia.
    + rewrite skipn_app. replace (Z.to_nat (l0 * 256 + l1 - 4) - length r)%nat with 0%nat by lia.
      exact IH.
Qed.

Lemma endlib_at_firstn n bs : endlib_at n bs -> endlib_at n (firstn n bs).
Proof.
  induction 1 as [l0 l1 dt r H4 Hodd Hlen|l0 l1 rt dt r n H4 Hodd Hlen Hrt Hrest IH].
  - cbn [plus firstn]. apply EA_last; auto. rewrite firstn_length. lia.
  - pose proof (endlib_at_le _ _ Hrest) as Hle. rewrite skipn_length in Hle.
    cbn [plus firstn]. apply EA_cons; auto.
    + rewrite firstn_length. lia.
    + rewrite <- firstn_skipn_comm. exact IH.
Qed.

Lemma skipn_add {A} (l : list A) : forall m n, skipn n (skipn m l) = skipn (m + n) l.
Proof.
  induction l as [|a l IH]; intros m n.
  - rewrite !skipn_nil. reflexivity.
  - destruct m; cbn [plus skipn]; auto.
Qed.

(** * agreement with the reference splitter of GdsSpec.v *)
Lemma endlib_at_split n bs : endlib_at n bs -> forall fuel, (length bs < fuel)%nat ->
  exists rs, split_records fuel bs = Some (rs, skipn n bs) /\ rs <> [] /\ fst (fst (last rs (0, 0, []))) = 4.
Proof.
  induction 1 as [l0 l1 dt r H4 Hodd Hlen|l0 l1 rt dt r n H4 Hodd Hlen Hrt Hrest IH]; intros fuel Hf; (destruct fuel as [|fuel]; [lia|]); cbn [split_records].
  - assert (E1 : (l0 * 256 + l1 <? 4) || Z.odd (l0 * 256 + l1) = false).
    { rewrite Hodd, orb_false_r. apply Z.ltb_ge. lia. }
    rewrite E1. unfold cut. destruct (Nat.leb_spec (Z.to_nat (l0 * 256 + l1 - 4)) (length r)); [|lia].
    change (4 =? 4) with true. cbn iota.
    eexists. split; [reflexivity|]. split; [discriminate|reflexivity].
  - assert (E1 : (l0 * 256 + l1 <? 4) || Z.odd (l0 * 256 + l1) = false).
    { rewrite Hodd, orb_false_r. apply Z.ltb_ge. lia. }
    rewrite E1. unfold cut. destruct (Nat.leb_spec (Z.to_nat (l0 * 256 + l1 - 4)) (length r)); [|lia].
    destruct (rt =? 4) eqn:E2; [apply Z.eqb_eq in E2; contradiction|].
    destruct (IH fuel) as (rs & Hs & Hne & Hlast).
    { rewrite skipn_length. cbn [length] in Hf. lia. }
    rewrite Hs. eexists. split.
    + f_equal. f_equal. cbn [plus skipn]. rewrite skipn_add. reflexivity.
    + split; [discriminate|]. destruct rs as [|r0 rs]; [contradiction|]. exact Hlast.
Qed.

Lemma split_endlib_at : forall fuel bs rs t, split_records fuel bs = Some (rs, t) ->
  exists n, endlib_at n bs /\ t = skipn n bs.
Proof.
  induction fuel as [|fuel IH]; intros bs rs t H; [discriminate|].
  cbn [split_records] in H.
  destruct bs as [|l0 [|l1 [|rt [|dt r]]]]; try discriminate.
  destruct ((l0 * 256 + l1 <? 4) || Z.odd (l0 * 256 + l1)) eqn:E1; [discriminate|].
  apply orb_false_iff in E1 as [E1 E1']. apply Z.ltb_ge in E1.
  unfold cut in H. destruct (Nat.leb_spec (Z.to_nat (l0 * 256 + l1 - 4)) (length r)); [|discriminate].
  destruct (rt =? 4) eqn:E2.
  - apply Z.eqb_eq in E2. subst rt. inversion H; subst. eexists. split; [apply EA_last; auto|reflexivity].
  - apply Z.eqb_neq in E2.
    destruct (split_records fuel (skipn (Z.to_nat (l0 * 256 + l1 - 4)) r)) as [[rs' t']|] eqn:E3; [|discriminate].
    inversion H; subst. apply IH in E3 as (n & Hn & ->).
    eexists. split; [apply EA_cons; eauto|].
    cbn [plus skipn]. rewrite skipn_add. reflexivity.
Qed.

Lemma has_endlib_complete bs : has_endlib bs <-> complete_to_endlib bs = true.
Proof.
  unfold complete_to_endlib, split_stream. split.
  - intros [n Hn]. destruct (endlib_at_split _ _ Hn (S (length bs))) as (rs & -> & _); [lia|reflexivity].
  - destruct (split_records (S (length bs)) bs) as [[rs t]|] eqn:E; [|discriminate].
    intros _. apply split_endlib_at in E as (n & Hn & _). exists n. exact Hn.
Qed.

(** the accepted stream's prefix up to its first ENDLIB, in the words of the specification *)
Theorem read_ok_complete_prefix bs l : read_lib bs = Ok l ->
  exists n rs, (n <= length bs)%nat /\ endlib_at n bs /\ split_stream (firstn n bs) = Some (rs, []) /\
               rs <> [] /\ fst (fst (last rs (0, 0, []))) = 4.
Proof.
  intros H. apply read_ok_has_endlib in H as [n Hn].
  pose proof (endlib_at_le _ _ Hn) as Hle.
  pose proof (endlib_at_firstn _ _ Hn) as Hf.
  destruct (endlib_at_split _ _ Hf (S (length (firstn n bs)))) as (rs & Hs & Hne & Hl); [lia|].
  exists n, rs. repeat split; auto.
  unfold split_stream. rewrite Hs. f_equal. f_equal.
  apply skipn_all2. rewrite firstn_length. lia.
Qed.

Theorem read_incomplete_rejected bs : complete_to_endlib bs = false -> forall l, read_lib bs <> Ok l.
Proof.
  intros Hc l H. apply read_ok_has_endlib in H. apply has_endlib_complete in H. congruence.
Qed.

Theorem read_truncated_rejected bs n k : endlib_at n bs -> (k < n)%nat -> forall l, read_lib (firstn k bs) <> Ok l.
Proof.
  intros Hn Hk l H. apply read_ok_has_endlib in H as [m Hm].
  pose proof (endlib_at_le _ _ Hm) as Hle. rewrite firstn_length in Hle.
  apply (endlib_at_app _ _ (skipn k bs)) in Hm. rewrite firstn_skipn in Hm.
  pose proof (endlib_at_det _ _ Hn _ Hm). lia.
Qed.

(** the same in the words of the specification only: if the first [n] bytes of [bs] split into
    complete records ending with ENDLIB, no shorter prefix of [bs] is accepted *)
Lemma split_firstn_endlib_at bs n rs : (n <= length bs)%nat ->
  split_stream (firstn n bs) = Some (rs, []) -> endlib_at n bs.
Proof.
  intros Hn H. unfold split_stream in H. apply split_endlib_at in H as (m & Hm & Ht).
  pose proof (endlib_at_le _ _ Hm) as Hle. rewrite firstn_length in Hle.
  assert (Hge : (length (firstn n bs) <= m)%nat).
  { destruct (Nat.le_gt_cases (length (firstn n bs)) m) as [|Hlt]; [assumption|].
    exfalso. assert (Hl : length (skipn m (firstn n bs)) = 0%nat) by (rewrite <- Ht; reflexivity).
    rewrite skipn_length in Hl. lia. }
  rewrite firstn_length in Hge.
  assert (m = n) by lia. subst m.
  apply (endlib_at_app _ _ (skipn n bs)) in Hm. rewrite firstn_skipn in Hm. exact Hm.
Qed.

Theorem read_proper_prefix_rejected bs n rs k : (n <= length bs)%nat ->
  split_stream (firstn n bs) = Some (rs, []) -> (k < n)%nat -> forall l, read_lib (firstn k bs) <> Ok l.
Proof.
  intros Hn Hs Hk. eapply read_truncated_rejected; [eapply split_firstn_endlib_at; eauto|exact Hk].
Qed.

Theorem read_total bs : (exists l, read_lib bs = Ok l) \/ (exists e, read_lib bs = Err e).
Proof.
  unfold read_lib. destruct (read_lib_fuel true (read_fuel bs) bs) as [l|e| |] eqn:E; eauto.
  - exfalso. exact (read_no_panic _ _ E).
  - exfalso. exact (read_terminates _ E).
Qed.

(** * More fuel never changes an answer: once a reader function has answered something other than
      [OutOfFuel], it gives the same answer with any larger fuel. *)

(** goal [obind (g f') K' = obind (g f) K] with [H : obind (g f) K <> OutOfFuel] and [L] the
    monotonicity of [g]: rewrite [g f'] into [g f], split on its value *)
Ltac mono_bind L H :=
  match goal with
  | |- obind ?x' _ = obind ?x _ =>
    let E := fresh "E" in
    assert (E : x' = x) by (apply L; [lia|intros E0; apply H; rewrite E0; reflexivity]);
    rewrite E; clear E; destruct x as [?a| | |] eqn:?; cbn [obind] in *; try reflexivity
  end.

Lemma strans_loop_mono : forall f f' st s, (f <= f')%nat ->
  strans_loop true f st s <> OutOfFuel -> strans_loop true f' st s = strans_loop true f st s.
Proof.
  induction f as [|f IH]; intros f' st s Hle H; [cbn in H; congruence|].
  destruct f' as [|f']; [lia|]. cbn [strans_loop] in *.
  destruct (nxt st) as [rt pl]; destruct rt; try reflexivity;
    destruct pl as [| | | |l|]; try reflexivity; destruct l as [|d l]; try reflexivity.
  all: destruct (next true st) as [[r st1]| | |]; cbn [obind] in *; try reflexivity.
  all: apply IH; [lia|exact H].
Qed.

Lemma parse_strans_mono f f' st d0 d1 : (f <= f')%nat ->
  parse_strans true f st d0 d1 <> OutOfFuel -> parse_strans true f' st d0 d1 = parse_strans true f st d0 d1.
Proof. apply strans_loop_mono. Qed.

Lemma parse_elem_mono : forall f f' k st b props, (f <= f')%nat ->
  parse_elem true f k st b props <> OutOfFuel -> parse_elem true f' k st b props = parse_elem true f k st b props.
Proof.
  induction f as [|f IH]; intros f' k st b props Hle H; [cbn in H; congruence|].
  destruct f' as [|f']; [lia|]. cbn [parse_elem] in *. unfold parse_elem_body in *.
  destruct (next true st) as [[[rt pl] st1]| | |]; cbn [obind] in *; try reflexivity.
  assert (Hdef : forall r, obind (field_of k r) (fun v => parse_elem true f k st1 ((fst r, v) :: b) props) <> OutOfFuel ->
            obind (field_of k r) (fun v => parse_elem true f' k st1 ((fst r, v) :: b) props) =
            obind (field_of k r) (fun v => parse_elem true f k st1 ((fst r, v) :: b) props)).
  { intros r Hr. destruct (field_of k r); cbn [obind] in *; try reflexivity. apply IH; [lia|exact Hr]. }
  destruct rt; try reflexivity.
  all: destruct (accepts k _); cbn [negb] in *; try reflexivity.
  all: try (apply (Hdef (_, pl)); exact H).
  - (* Strans *)
    destruct pl as [|d0 d1| | | |]; try (apply (Hdef (Strans, _)); exact H).
    mono_bind parse_strans_mono H. destruct a as [s st2]. apply IH; [lia|exact H].
  - (* PropAttr *)
    destruct pl as [| |l| | |]; try (apply (Hdef (PropAttr, _)); exact H).
    destruct l as [|attr l]; try (apply (Hdef (PropAttr, _)); exact H).
    destruct (parse_property true st1 attr) as [[p st2]| | |]; cbn [obind] in *; try reflexivity.
    apply IH; [lia|exact H].
Qed.

Lemma struct_loop_mono : forall f f' st, (f <= f')%nat ->
  struct_loop true f st <> OutOfFuel -> struct_loop true f' st = struct_loop true f st.
Proof.
  induction f as [|f IH]; intros f' st Hle H; [cbn in H; congruence|].
  destruct f' as [|f']; [lia|]. cbn [struct_loop] in *.
  destruct (next true st) as [[[rt pl] st1]| | |]; cbn [obind] in *; try reflexivity.
  cbn [fst] in *. destruct rt; cbn [elkind_of] in *; try reflexivity.
  all: mono_bind parse_elem_mono H; destruct a as [e st2].
  all: mono_bind IH H.
Qed.

Lemma parse_struct_mono f f' st dates : (f <= f')%nat ->
  parse_struct true f st dates <> OutOfFuel -> parse_struct true f' st dates = parse_struct true f st dates.
Proof.
  intros Hle H. unfold parse_struct in *.
  destruct (dates_of dates); cbn [obind] in *; try reflexivity.
  destruct (next true st) as [[[rt pl] st1]| | |]; cbn [obind] in *; try reflexivity.
  destruct rt; try reflexivity. destruct pl; try reflexivity.
  mono_bind struct_loop_mono H.
Qed.

Lemma lib_loop_mono : forall f f' st name units structs, (f <= f')%nat ->
  lib_loop true f st name units structs <> OutOfFuel ->
  lib_loop true f' st name units structs = lib_loop true f st name units structs.
Proof.
  induction f as [|f IH]; intros f' st name units structs Hle H; [cbn in H; congruence|].
  destruct f' as [|f']; [lia|]. cbn [lib_loop] in *.
  destruct (next true st) as [[[rt pl] st1]| | |]; cbn [obind] in *; try reflexivity.
  destruct rt; try reflexivity.
  - destruct pl; try reflexivity. apply IH; [lia|exact H].
  - destruct pl as [| | | |l|]; try reflexivity. destruct l as [|d0 [|d1 l]]; try reflexivity. apply IH; [lia|exact H].
  - destruct pl as [| |dates| | |]; try reflexivity.
    mono_bind parse_struct_mono H. destruct a as [s st2]. apply IH; [lia|exact H].
Qed.

Lemma parse_lib_mono f f' st : (f <= f')%nat ->
  parse_lib true f st <> OutOfFuel -> parse_lib true f' st = parse_lib true f st.
Proof.
  intros Hle H. unfold parse_lib in *.
  destruct (next true st) as [[[rt pl] st1]| | |]; cbn [obind] in *; try reflexivity.
  destruct rt; try reflexivity. destruct pl as [| |l| | |]; try reflexivity. destruct l as [|v l]; try reflexivity.
  destruct (next true st1) as [[[rt2 pl2] st2]| | |]; cbn [obind] in *; try reflexivity.
  destruct rt2; try reflexivity. destruct pl2 as [| |d| | |]; try reflexivity.
  destruct (dates_of d); cbn [obind] in *; try reflexivity.
  mono_bind lib_loop_mono H.
Qed.

Theorem read_lib_fuel_mono f f' bs : (f <= f')%nat ->
  read_lib_fuel true f bs <> OutOfFuel -> read_lib_fuel true f' bs = read_lib_fuel true f bs.
Proof.
  intros Hle H. unfold read_lib_fuel in *.
  destruct (read_record true bs) as [[r bs']| | |]; cbn [obind] in *; try reflexivity.
  apply parse_lib_mono; assumption.
Qed.

(** any fuel above length bs / 4 gives the answer of [read_lib] *)
Theorem read_fuel_irrelevant bs f : (length bs < 4 * f)%nat -> read_lib_fuel true f bs = read_lib bs.
Proof.
  intros Hf. unfold read_lib.
  destruct (Nat.le_ge_cases f (read_fuel bs)) as [Hle|Hle].
  - symmetry. apply read_lib_fuel_mono; [exact Hle|]. apply read_enough_fuel. exact Hf.
  - apply read_lib_fuel_mono; [exact Hle|]. apply read_terminates.
Qed.
