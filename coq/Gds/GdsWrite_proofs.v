(** C02: the writer model [write_lib] produces exactly the reference encoding [spec_render] of the
    format specification, and fails only with the record-length error. Lemmas; the property theorems
    are in Properties/C02.v. *)
From Coq Require Import ZArith Bool List Lia.
From L21 Require Import Base.Outcome Base.Hex Base.F64 Gds.GdsReal Gds.GdsReal_proofs Gds.GdsData Gds.GdsRecord
  Gds.GdsWrite Gds.GdsRead Gds.GdsSpec Gds.GdsRtDefs Gds.GdsBytes_proofs.
Import ListNotations.
Local Open Scope Z_scope.

(** * Generic list facts *)
Lemma GdsW_forallb_flat_map {A B} (p : B -> bool) (f : A -> list B) l :
  forallb p (flat_map f l) = forallb (fun x => forallb p (f x)) l.
Proof. induction l as [|a l IH]; cbn; [reflexivity|]. rewrite forallb_app, IH. reflexivity. Qed.
Lemma GdsW_map_flat_map {A B C} (g : B -> C) (f : A -> list B) l :
  map g (flat_map f l) = flat_map (fun x => map g (f x)) l.
Proof. induction l as [|a l IH]; cbn; [reflexivity|]. rewrite map_app, IH. reflexivity. Qed.
Lemma GdsW_flat_map_map {A B C} (g : A -> B) (f : B -> list C) l :
  flat_map f (map g l) = flat_map (fun x => f (g x)) l.
Proof. induction l as [|a l IH]; cbn; [reflexivity|]. rewrite IH. reflexivity. Qed.
Lemma GdsW_forallb_impl {A} (p q : A -> bool) l :
  (forall x, In x l -> p x = true -> q x = true) -> forallb p l = true -> forallb q l = true.
Proof.
  induction l as [|a l IH]; cbn; [reflexivity|]. intros H. rewrite !andb_true_iff. intros [H1 H2].
  split; [apply H; auto | apply IH; auto].
Qed.

Lemma GdsW_some_pair_inj {A B} (a a' : A) (b b' : B) : Some (a, b) = Some (a', b') -> a = a' /\ b = b'.
Proof. intros H. injection H. auto. Qed.

(** * Reals: the writer's encoding is the reference encoding on [real_okb] *)
Lemma GdsW_in_rangeb x : in_gds_rangeb x = true -> in_gds_range x.
Proof.
  unfold in_gds_rangeb, in_gds_range. destruct (f64_decomp x) as [[[s m] e]|]; [|discriminate].
  rewrite !andb_true_iff, Z.ltb_lt, negb_true_iff. intros [[H1 H2] H3]. exists s, m, e. auto.
Qed.
Lemma GdsW_zero_cases x : f64_is_zero x = true -> x = 0 \/ x = two63.
Proof. unfold f64_is_zero. rewrite orb_true_iff, !Z.eqb_eq. tauto. Qed.
Lemma GdsW_real_ok_encode x : real_okb x = true -> gds_encode x = gds_spec_encode x.
Proof.
  unfold real_okb. rewrite !andb_true_iff, orb_true_iff, Z.leb_le, Z.ltb_lt. intros [[H0 H1] [H|H]].
  - apply encode_is_reference; [split; assumption | apply GdsW_in_rangeb; exact H].
  - destruct (GdsW_zero_cases x H) as [-> | ->]; reflexivity.
Qed.
Lemma GdsW_real_ok_rd x : real_okb x = true -> rd_real x = canon_real x.
Proof.
  unfold real_okb, rd_real, canon_real. rewrite !andb_true_iff, orb_true_iff, Z.leb_le, Z.ltb_lt.
  intros [[H0 H1] [H|H]].
  - assert (Hz : f64_is_zero x = false).
    { destruct (f64_is_zero x) eqn:E; [|reflexivity]. exfalso.
      destruct (GdsW_zero_cases x E) as [-> | ->]; vm_compute in H; discriminate. }
    rewrite Hz. apply decode_encode; [split; assumption | apply GdsW_in_rangeb; exact H].
  - rewrite H. destruct (GdsW_zero_cases x H) as [-> | ->]; reflexivity.
Qed.
Lemma GdsW_real_ok_rt x : real_okb x = true -> real_rt x.
Proof.
  intros H. pose proof (GdsW_real_ok_rd x H) as E. unfold rd_real, canon_real in E. unfold real_rt.
  destruct (f64_is_zero x) eqn:Z; [right | left; exact E].
  split; [reflexivity|]. rewrite E. reflexivity.
Qed.

(** the encoder always yields a 64-bit word *)
Lemma GdsW_decomp_nonneg x s m e : f64_decomp x = Some (s, m, e) -> 0 <= m.
Proof.
  unfold f64_decomp. cbv zeta.
  assert (Hf : 0 <= f64_frac x < two52) by (unfold f64_frac; apply Z.mod_pos_bound; reflexivity).
  destruct (f64_bexp x =? 2047); [discriminate|].
  destruct (f64_bexp x =? 0); intros H; inversion H; subst; unfold two52 in *; lia.
Qed.
Lemma GdsW_encode_word x : 0 <= gds_encode x < two64.
Proof.
  unfold gds_encode. destruct (f64_decomp x) as [[[s m] e]|] eqn:D.
  - destruct (Z.eq_dec m 0) as [->|Hm].
    + unfold gds_encode_with. rewrite D. cbn. unfold two64. lia.
    + pose proof (GdsW_decomp_nonneg _ _ _ _ D) as Hm0.
      rewrite (encode_with_decomp 0 x s m e D Hm).
      rewrite adj_fuel_enough by lia.
      set (ex := clampZ (-64) 63 (true_exp16 m e)).
      assert (Hex : -64 <= ex <= 63) by (unfold ex, clampZ; lia).
      assert (Hmt : 0 <= Z.min (rha m (e + 56 - 4 * ex)) (two64 - 1) mod two56 < two56)
        by (apply Z.mod_pos_bound; reflexivity).
      unfold sbit. unfold two56, two64 in *. destruct s; nia.
  - unfold gds_encode_with. rewrite D. unfold two64. lia.
Qed.

(** * One record: [enc_record], [encb], and the record of the specification *)
Definition GdsW_shapedb (r : record) : bool := match rec_len r with Some _ => true | None => false end.

Lemma GdsW_enc_record r :
  GdsW_shapedb r = true -> enc_record r = if rec_fitsb r then Ok (encb r) else Err ERecordLen.
Proof.
  unfold GdsW_shapedb, enc_record, rec_fitsb, encb. destruct (rec_len r) as [[dt len]|]; [|discriminate].
  intros _. destruct (Z.ltb_spec 65535 (len + 4)); destruct (Z.leb_spec (len + 4) 65535); try lia; reflexivity.
Qed.

Lemma GdsW_write_records rs :
  forallb GdsW_shapedb rs = true ->
  write_records rs = if forallb rec_fitsb rs then Ok (flat_map encb rs) else Err ERecordLen.
Proof.
  induction rs as [|r rs IH]; cbn [forallb write_records flat_map]; [reflexivity|].
  rewrite andb_true_iff. intros [H1 H2]. rewrite (GdsW_enc_record r H1), (IH H2).
  destruct (rec_fitsb r); cbn [andb]; [|reflexivity]. destruct (forallb rec_fitsb rs); reflexivity.
Qed.

Lemma GdsW_arm_fixed rt d n :
  arm_of rt = Some (d, LFixed n) -> 0 <= n /\ n mod 2 = 0 /\ (d = DNoData -> n = 0) /\ (d = DBitArray -> n = 2).
Proof.
  destruct rt; cbn; intros H; inversion H; subst; (split; [lia|]); (split; [reflexivity|]); split; intros; try reflexivity; discriminate.
Qed.

(** the payload has the length announced in the header *)
Lemma GdsW_payload_len r dt len : rec_len r = Some (dt, len) -> zlen (enc_payload (snd r)) = len.
Proof.
  destruct r as [rt pl]. unfold rec_len. cbn [fst snd].
  destruct (arm_of rt) as [[d ls]|] eqn:A; [|discriminate].
  destruct d, ls, pl; try discriminate; cbn [enc_payload].
  - intros H; apply GdsW_some_pair_inj in H; destruct H as [<- <-]. destruct (GdsW_arm_fixed _ _ _ A) as (_ & _ & H0 & _). rewrite (H0 eq_refl). reflexivity.
  - intros H; apply GdsW_some_pair_inj in H; destruct H as [<- <-]. destruct (GdsW_arm_fixed _ _ _ A) as (_ & _ & _ & H0). rewrite (H0 eq_refl). reflexivity.
  - destruct (Z.eqb_spec (2 * zlen l) n); [|discriminate]. intros H; apply GdsW_some_pair_inj in H; destruct H as [<- <-].
    unfold zlen in *. rewrite length_be16s. lia.
  - destruct (Z.eqb_spec (4 * zlen l) n); [|discriminate]. intros H; apply GdsW_some_pair_inj in H; destruct H as [<- <-].
    unfold zlen in *. rewrite length_be32s. lia.
  - intros H; apply GdsW_some_pair_inj in H; destruct H as [<- <-]. unfold zlen in *. rewrite length_be32s. lia.
  - destruct (Z.eqb_spec (8 * zlen l) n); [|discriminate]. intros H; apply GdsW_some_pair_inj in H; destruct H as [<- <-].
    unfold zlen in *. rewrite (length_be64s gds_encode). lia.
  - intros H; apply GdsW_some_pair_inj in H; destruct H as [<- <-]. unfold gds_strlen, zlen. rewrite app_length.
    destruct (Z.eqb_spec (Z.of_nat (length s) mod 2) 0) as [E|E]; cbn [length]; rewrite ?E; [lia|].
    assert (Z.of_nat (length s) mod 2 = 1) by (Z.div_mod_to_equations; lia). lia.
Qed.

Definition GdsW_srec_of (r : record) : srec :=
  match rec_len r with
  | Some (dt, _) => (rtype_code (fst r), dtype_code dt, enc_payload (snd r))
  | None => (rtype_code (fst r), 0, [])
  end.

Lemma GdsW_render_srec_of r : GdsW_shapedb r = true -> render_srec (GdsW_srec_of r) = encb r.
Proof.
  unfold GdsW_shapedb, GdsW_srec_of, encb. destruct (rec_len r) as [[dt len]|] eqn:E; [|discriminate].
  intros _. unfold render_srec. rewrite <- be16_be_nat. fold (zlen (enc_payload (snd r))).
  rewrite (GdsW_payload_len r dt len E). reflexivity.
Qed.

Lemma GdsW_render_srecs_of rs :
  forallb GdsW_shapedb rs = true -> render_srecs (map GdsW_srec_of rs) = flat_map encb rs.
Proof.
  unfold render_srecs. induction rs as [|r rs IH]; cbn [forallb map flat_map]; [reflexivity|].
  rewrite andb_true_iff. intros [H1 H2]. rewrite (GdsW_render_srec_of r H1), (IH H2). reflexivity.
Qed.

(** ** Payload encodings agree *)
Lemma GdsW_be32s_enc_ints l : flat_map be32 l = enc_ints 4 l.
Proof. unfold enc_ints. apply flat_map_ext. intros x. apply be32_be_nat. Qed.
Lemma GdsW_be16s_enc_ints l : flat_map be16 l = enc_ints 2 l.
Proof. reflexivity. Qed.
Lemma GdsW_enc_string s : s ++ (if zlen s mod 2 =? 0 then [] else [0]) = enc_string s.
Proof.
  unfold enc_string, zlen.
  destruct (Z.even (Z.of_nat (length s))) eqn:E.
  - apply Z.even_spec in E. destruct E as [k E]. rewrite E.
    replace (2 * k) with (k * 2) by ring. rewrite Z.mod_mul by lia. cbn. apply app_nil_r.
  - assert (O : Z.odd (Z.of_nat (length s)) = true) by (rewrite <- Z.negb_even, E; reflexivity).
    apply Z.odd_spec in O. destruct O as [k O]. rewrite O.
    replace (2 * k + 1) with (1 + k * 2) by ring. rewrite Z.mod_add by lia. reflexivity.
Qed.

(** ** Per record *)
Section PerRecord.
Variable rt : rtype.
Lemma GdsW_s_none : arm_of rt = Some (DNoData, LFixed 0) -> GdsW_srec_of (r_none rt) = s_none (rtype_code rt).
Proof. intros H. unfold GdsW_srec_of, rec_len, r_none. cbn [fst snd]. rewrite H. reflexivity. Qed.
Lemma GdsW_s_i16 v : arm_of rt = Some (DI16, LFixed 2) -> GdsW_srec_of (r_i16 rt v) = s_i16 (rtype_code rt) [v].
Proof. intros H. unfold GdsW_srec_of, rec_len, r_i16. cbn [fst snd]. rewrite H. reflexivity. Qed.
Lemma GdsW_s_i32 v : arm_of rt = Some (DI32, LFixed 4) -> GdsW_srec_of (r_i32 rt v) = s_i32 (rtype_code rt) [v].
Proof.
  intros H. unfold GdsW_srec_of, rec_len, r_i32. cbn [fst snd]. rewrite H. cbn [zlen length Z.of_nat Z.mul Z.eqb Pos.eqb Pos.mul Pos.of_succ_nat Pos.succ].
  unfold s_i32. cbn [snd enc_payload]. rewrite GdsW_be32s_enc_ints. reflexivity.
Qed.
Lemma GdsW_s_bits b : arm_of rt = Some (DBitArray, LFixed 2) -> GdsW_srec_of (r_bits rt b) = s_bits (rtype_code rt) b.
Proof. intros H. unfold GdsW_srec_of, rec_len, r_bits. cbn [fst snd]. rewrite H. reflexivity. Qed.
Lemma GdsW_s_f64 v :
  arm_of rt = Some (DF64, LFixed 8) -> gds_encode v = gds_spec_encode v ->
  GdsW_srec_of (r_f64 rt v) = s_real (rtype_code rt) [v].
Proof.
  intros H Hv. unfold GdsW_srec_of, rec_len, r_f64. cbn [fst snd]. rewrite H.
  cbn [zlen length Z.of_nat Z.mul Z.eqb Pos.eqb Pos.mul Pos.of_succ_nat Pos.succ].
  unfold s_real, enc_real. cbn [snd enc_payload flat_map]. rewrite Hv, be64_be_nat. reflexivity.
Qed.
Lemma GdsW_s_str s : arm_of rt = Some (DStr, LAny) -> GdsW_srec_of (r_str rt s) = s_str (rtype_code rt) s.
Proof.
  intros H. unfold GdsW_srec_of, rec_len, r_str. cbn [fst snd]. rewrite H.
  unfold s_str. cbn [enc_payload]. rewrite GdsW_enc_string. reflexivity.
Qed.
Lemma GdsW_s_dates d :
  arm_of rt = Some (DI16, LFixed 24) -> GdsW_srec_of (rt, PI16 (flat_dates d)) = s_dts (rtype_code rt) d.
Proof. intros H. unfold GdsW_srec_of, rec_len. cbn [fst snd]. rewrite H. reflexivity. Qed.
End PerRecord.

Lemma GdsW_s_xy l : GdsW_srec_of (r_xy l) = s_xy l.
Proof.
  unfold GdsW_srec_of, rec_len, r_xy. cbn [fst snd arm_of enc_payload]. rewrite GdsW_be32s_enc_ints. reflexivity.
Qed.
Lemma GdsW_s_colrow c r : GdsW_srec_of (ColRow, PI16 [c; r]) = s_i16 0x13 [c; r].
Proof. reflexivity. Qed.
Lemma GdsW_s_units a b :
  gds_encode a = gds_spec_encode a -> gds_encode b = gds_spec_encode b ->
  GdsW_srec_of (Units, PF64 [a; b]) = s_real 0x03 [a; b].
Proof.
  intros Ha Hb. unfold GdsW_srec_of, rec_len. cbn [fst snd arm_of].
  cbn [zlen length Z.of_nat Z.mul Z.eqb Pos.eqb Pos.mul Pos.of_succ_nat Pos.succ].
  unfold s_real, enc_real. cbn [enc_payload flat_map]. rewrite Ha, Hb, !be64_be_nat. reflexivity.
Qed.
Lemma GdsW_s_strans_word s :
  GdsW_srec_of (Strans, PBits (if st_reflected s then 128 else 0)
                              ((if st_abs_mag s then 4 else 0) + (if st_abs_angle s then 2 else 0)))
  = (0x1A, 1, be_nat 2 (strans_word s)).
Proof. unfold strans_word. destruct (st_reflected s), (st_abs_mag s), (st_abs_angle s); reflexivity. Qed.

(** ** Lists of records *)
Lemma GdsW_map_opt_rec {A} (f : A -> record) (g : A -> srec) o :
  (forall x, GdsW_srec_of (f x) = g x) -> map GdsW_srec_of (opt_rec f o) = s_opt g o.
Proof. intros H. destruct o; cbn; [rewrite H|]; reflexivity. Qed.

Lemma GdsW_map_props ps : map GdsW_srec_of (flat_props ps) = g_props ps.
Proof.
  unfold flat_props, g_props. induction ps as [|p ps IH]; [reflexivity|].
  cbn [flat_map map app]. rewrite IH. rewrite GdsW_s_i16, GdsW_s_str by reflexivity. reflexivity.
Qed.
Lemma GdsW_map_tail ps : map GdsW_srec_of (flat_tail ps) = g_props ps ++ [s_none 0x11].
Proof. unfold flat_tail. rewrite map_app, GdsW_map_props. reflexivity. Qed.
Lemma GdsW_map_head rt fl pl :
  arm_of rt = Some (DNoData, LFixed 0) ->
  map GdsW_srec_of (flat_head rt fl pl) = [s_none (rtype_code rt)] ++ g_flags fl pl.
Proof.
  intros H. unfold flat_head, g_flags. cbn [map app]. rewrite (GdsW_s_none rt H), map_app.
  rewrite (GdsW_map_opt_rec (r_bits ElemFlags) (s_bits 0x26)) by (intros; apply GdsW_s_bits; reflexivity).
  rewrite (GdsW_map_opt_rec (r_i32 Plex) (fun x => s_i32 0x2F [x])) by (intros; apply GdsW_s_i32; reflexivity).
  reflexivity.
Qed.

Definition GdsW_ostrans_wr (s : option strans) : Prop :=
  forall x, In x (strans_reals s) -> gds_encode x = gds_spec_encode x.

Lemma GdsW_map_ostrans s : GdsW_ostrans_wr s -> map GdsW_srec_of (flat_ostrans s) = g_strans s.
Proof.
  unfold GdsW_ostrans_wr. destruct s as [s|]; [|reflexivity]. cbn [flat_ostrans g_strans flat_strans strans_reals].
  intros H. unfold flat_strans. cbn [map]. rewrite GdsW_s_strans_word, map_app. f_equal. f_equal.
  - destruct (st_mag s) as [m|]; [|reflexivity]. cbn [opt_rec s_opt map]. rewrite GdsW_s_f64; [reflexivity|reflexivity|].
    apply H. cbn. auto.
  - destruct (st_angle s) as [a|]; [|reflexivity]. cbn [opt_rec s_opt map]. rewrite GdsW_s_f64; [reflexivity|reflexivity|].
    apply H. apply in_or_app. right. cbn. auto.
Qed.

Ltac GdsW_opt := repeat first
  [ rewrite (GdsW_map_opt_rec (r_i16 PathType) (fun v => s_i16 0x21 [v])) by (intros; apply GdsW_s_i16; reflexivity)
  | rewrite (GdsW_map_opt_rec (r_i32 Width) (fun v => s_i32 0x0F [v])) by (intros; apply GdsW_s_i32; reflexivity)
  | rewrite (GdsW_map_opt_rec (r_i32 BeginExtn) (fun v => s_i32 0x30 [v])) by (intros; apply GdsW_s_i32; reflexivity)
  | rewrite (GdsW_map_opt_rec (r_i32 EndExtn) (fun v => s_i32 0x31 [v])) by (intros; apply GdsW_s_i32; reflexivity)
  | rewrite (GdsW_map_opt_rec (r_bits Presentation) (s_bits 0x17)) by (intros; apply GdsW_s_bits; reflexivity) ].

Lemma GdsW_map_element e :
  (forall x, In x (element_reals e) -> gds_encode x = gds_spec_encode x) ->
  map GdsW_srec_of (flat_element e) = g_element e.
Proof.
  intros Hr. destruct e as [e|e|e|e|e|e|e]; cbn [flat_element g_element element_reals] in *.
  - unfold flat_boundary. rewrite !map_app, GdsW_map_head, GdsW_map_tail by reflexivity.
    cbn [map]. rewrite !GdsW_s_i16, GdsW_s_xy by reflexivity. rewrite <- !app_assoc. reflexivity.
  - unfold flat_path. rewrite !map_app, GdsW_map_head, GdsW_map_tail by reflexivity. GdsW_opt.
    cbn [map]. rewrite !GdsW_s_i16, GdsW_s_xy by reflexivity. rewrite <- !app_assoc. reflexivity.
  - unfold flat_sref. rewrite !map_app, GdsW_map_head, GdsW_map_tail, GdsW_map_ostrans by (reflexivity || exact Hr).
    cbn [map]. rewrite GdsW_s_str, GdsW_s_xy by reflexivity. rewrite <- !app_assoc. reflexivity.
  - unfold flat_aref. rewrite !map_app, GdsW_map_head, GdsW_map_tail, GdsW_map_ostrans by (reflexivity || exact Hr).
    cbn [map]. rewrite GdsW_s_str, GdsW_s_xy, GdsW_s_colrow by reflexivity. rewrite <- !app_assoc. reflexivity.
  - unfold flat_text. rewrite !map_app, GdsW_map_head, GdsW_map_tail, GdsW_map_ostrans by (reflexivity || exact Hr). GdsW_opt.
    cbn [map]. rewrite !GdsW_s_i16, GdsW_s_str, GdsW_s_xy by reflexivity. rewrite <- !app_assoc. reflexivity.
  - unfold flat_node. rewrite !map_app, GdsW_map_head, GdsW_map_tail by reflexivity.
    cbn [map]. rewrite !GdsW_s_i16, GdsW_s_xy by reflexivity. rewrite <- !app_assoc. reflexivity.
  - unfold flat_box. rewrite !map_app, GdsW_map_head, GdsW_map_tail by reflexivity.
    cbn [map]. rewrite !GdsW_s_i16, GdsW_s_xy by reflexivity. rewrite <- !app_assoc. reflexivity.
Qed.

Lemma GdsW_map_elements es :
  (forall x, In x (flat_map element_reals es) -> gds_encode x = gds_spec_encode x) ->
  map GdsW_srec_of (flat_map flat_element es) = flat_map g_element es.
Proof.
  induction es as [|e es IH]; [reflexivity|]. cbn [flat_map]. intros H.
  rewrite map_app, GdsW_map_element, IH; [reflexivity| |]; intros x Hx; apply H; apply in_or_app; auto.
Qed.

Lemma GdsW_map_struct s :
  (forall x, In x (flat_map element_reals (s_elems s)) -> gds_encode x = gds_spec_encode x) ->
  map GdsW_srec_of (flat_struct s) = g_struct s.
Proof.
  intros H. unfold flat_struct, g_struct. rewrite !map_app, GdsW_map_elements by exact H.
  cbn [map]. rewrite GdsW_s_dates, GdsW_s_str, GdsW_s_none by reflexivity. reflexivity.
Qed.

Definition GdsW_reals_wr (l : library) : Prop :=
  forall x, In x (lib_reals l) -> gds_encode x = gds_spec_encode x.

Lemma GdsW_map_structs ss :
  (forall x, In x (flat_map (fun s => flat_map element_reals (s_elems s)) ss) -> gds_encode x = gds_spec_encode x) ->
  map GdsW_srec_of (flat_map flat_struct ss) = flat_map g_struct ss.
Proof.
  induction ss as [|s ss IH]; [reflexivity|]. cbn [flat_map]. intros H.
  rewrite map_app, GdsW_map_struct, IH; [reflexivity| |]; intros x Hx; apply H; apply in_or_app; auto.
Qed.

Lemma GdsW_map_library l : GdsW_reals_wr l -> map GdsW_srec_of (flatten_lib l) = g_library l.
Proof.
  unfold GdsW_reals_wr, lib_reals. intros H. unfold flatten_lib, g_library, g_library_with.
  rewrite !map_app, GdsW_map_structs by (intros x Hx; apply H; right; right; exact Hx).
  cbn [map app]. rewrite GdsW_s_i16, GdsW_s_dates, GdsW_s_str, GdsW_s_none by reflexivity.
  rewrite GdsW_s_units by (apply H; cbn; auto). reflexivity.
Qed.

(** ** every record of [flatten_lib] has a shape of the Rust type `GdsRecord` *)
Lemma GdsW_shaped_opt {A} (f : A -> record) o :
  (forall x, GdsW_shapedb (f x) = true) -> forallb GdsW_shapedb (opt_rec f o) = true.
Proof. intros H. destruct o; cbn; [rewrite H|]; reflexivity. Qed.
Lemma GdsW_shaped_str rt s : arm_of rt = Some (DStr, LAny) -> GdsW_shapedb (r_str rt s) = true.
Proof. intros H. unfold GdsW_shapedb, rec_len, r_str. cbn [fst snd]. rewrite H. reflexivity. Qed.
Lemma GdsW_shaped_xy l : GdsW_shapedb (r_xy l) = true.
Proof. reflexivity. Qed.
Lemma GdsW_shaped_props ps : forallb GdsW_shapedb (flat_props ps) = true.
Proof. unfold flat_props. rewrite GdsW_forallb_flat_map. apply forallb_forall. intros p _. reflexivity. Qed.
Lemma GdsW_shaped_tail ps : forallb GdsW_shapedb (flat_tail ps) = true.
Proof. unfold flat_tail. rewrite forallb_app, GdsW_shaped_props. reflexivity. Qed.
Lemma GdsW_shaped_ostrans s : forallb GdsW_shapedb (flat_ostrans s) = true.
Proof. destruct s as [s|]; [|reflexivity]. cbn. destruct (st_mag s), (st_angle s); reflexivity. Qed.

Lemma GdsW_shaped_element e : forallb GdsW_shapedb (flat_element e) = true.
Proof.
  destruct e as [e|e|e|e|e|e|e]; cbn [flat_element].
  - unfold flat_boundary, flat_head. rewrite !forallb_app, GdsW_shaped_tail. destruct (b_elflags e), (b_plex e); reflexivity.
  - unfold flat_path, flat_head. rewrite !forallb_app, GdsW_shaped_tail.
    destruct (p_elflags e), (p_plex e), (p_path_type e), (p_width e), (p_begin_extn e), (p_end_extn e); reflexivity.
  - unfold flat_sref, flat_head. rewrite !forallb_app, GdsW_shaped_tail, GdsW_shaped_ostrans.
    destruct (sr_elflags e), (sr_plex e); reflexivity.
  - unfold flat_aref, flat_head. rewrite !forallb_app, GdsW_shaped_tail, GdsW_shaped_ostrans.
    destruct (ar_elflags e), (ar_plex e); reflexivity.
  - unfold flat_text, flat_head. rewrite !forallb_app, GdsW_shaped_tail, GdsW_shaped_ostrans.
    destruct (t_elflags e), (t_plex e), (t_presentation e), (t_path_type e), (t_width e); reflexivity.
  - unfold flat_node, flat_head. rewrite !forallb_app, GdsW_shaped_tail. destruct (n_elflags e), (n_plex e); reflexivity.
  - unfold flat_box, flat_head. rewrite !forallb_app, GdsW_shaped_tail. destruct (x_elflags e), (x_plex e); reflexivity.
Qed.

Lemma GdsW_shaped_struct s : forallb GdsW_shapedb (flat_struct s) = true.
Proof.
  unfold flat_struct. rewrite !forallb_app, GdsW_forallb_flat_map.
  replace (forallb (fun x => forallb GdsW_shapedb (flat_element x)) (s_elems s)) with true.
  - reflexivity.
  - symmetry. apply forallb_forall. intros e _. apply GdsW_shaped_element.
Qed.

Lemma GdsW_shaped_lib l : forallb GdsW_shapedb (flatten_lib l) = true.
Proof.
  unfold flatten_lib. rewrite !forallb_app, GdsW_forallb_flat_map.
  replace (forallb (fun x => forallb GdsW_shapedb (flat_struct x)) (l_structs l)) with true.
  - reflexivity.
  - symmetry. apply forallb_forall. intros s _. apply GdsW_shaped_struct.
Qed.

(** * The writer *)
Theorem GdsW_write_lib_eq l :
  write_lib l = if lib_fitsb l then Ok (flat_map encb (flatten_lib l)) else Err ERecordLen.
Proof. unfold write_lib, lib_fitsb. apply GdsW_write_records, GdsW_shaped_lib. Qed.

Theorem GdsW_spec_render_eq l : GdsW_reals_wr l -> spec_render l = flat_map encb (flatten_lib l).
Proof.
  intros H. unfold spec_render. rewrite <- (GdsW_map_library l H). apply GdsW_render_srecs_of, GdsW_shaped_lib.
Qed.
