(** Executable checks used by the correspondence run of C15 (tools/props/c15.py).
    Result codes: 0 = impl agrees with the model and the property holds on the impl's output;
    1 = impl differs from the model, property still holds on the impl's output (or is silent);
    2 = the property fails on the impl's output. No proofs here. *)
From Coq Require Import ZArith Bool List.
From L21 Require Import Base.F64 Gds.GdsReal.
Import ListNotations.
Local Open Scope Z_scope.

Definition sig53b (M : Z) : bool := M mod 2 ^ (Z.log2 M - 52) =? 0.
Definition gds_normalisedb (w : Z) : bool := two52 <=? gds_mant w.
Definition finiteb (x : Z) : bool := match f64_decomp x with Some _ => true | None => false end.

(** the sixteen words that decode to +-16^63 (Properties/C15.v [rounds_to_max]); what happens when
    such a value is written again is judged by C10 (known finding), not by C15 *)
Definition rounds_to_maxb (w : Z) : bool := (gds_exp7 w =? 127) && (two56 - 4 <=? gds_mant w).

Definition code (prop_ok model_eq : bool) : Z :=
  if negb prop_ok then 2 else if model_eq then 0 else 1.

(** op 2: a = double bits, r = [encode a; decode (encode a)] *)
Definition check_encdec (a : Z) (r : list Z) : Z :=
  match r with
  | [w; d] =>
    let model_eq := (gds_encode a =? w) && (gds_decode w =? d) in
    let prop_ok :=
      if in_gds_rangeb a then (w =? gds_spec_encode a) && (d =? a)
      else if f64_is_zero a then f64_is_zero d
      else true in
    code prop_ok model_eq
  | _ => 2
  end.

(** op 1: a = gds word, r = [decode a]. The model is proved to be the correctly rounded
    value and that value is unique, so any difference is a violation. *)
Definition check_dec (a : Z) (r : list Z) : Z :=
  match r with
  | [d] => code (gds_decode a =? d) true
  | _ => 2
  end.

(** op 3: a = gds word, r = [d = decode a; w2 = encode d; d2 = decode w2] *)
Definition check_decenc (a : Z) (r : list Z) : Z :=
  match r with
  | [d; w2; d2] =>
    let model_eq := (gds_decode a =? d) && (gds_encode d =? w2) && (gds_decode w2 =? d2) in
    let prop_ok :=
      (gds_decode a =? d) &&
      (if gds_normalisedb a && sig53b (gds_mant a) then w2 =? a else true) &&
      (rounds_to_maxb a || (d2 =? d) || (f64_is_zero d && f64_is_zero d2)) in
    code prop_ok model_eq
  | _ => 2
  end.

Definition c15_check (op a : Z) (r : list Z) : Z :=
  if op =? 1 then check_dec a r
  else if op =? 2 then check_encdec a r
  else if op =? 3 then check_decenc a r
  else 2.
