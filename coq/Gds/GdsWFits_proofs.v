(** C02: [write_lib] fails exactly when some payload of variable length (a string, a coordinate list)
    does not fit the 16-bit record length: [lib_fitsb l = negb (some_payload_too_long l)]. *)
From Coq Require Import ZArith Bool List Lia Btauto.
From L21 Require Import Base.Outcome Base.Hex Base.F64 Gds.GdsReal Gds.GdsData Gds.GdsRecord
  Gds.GdsWrite Gds.GdsRead Gds.GdsSpec Gds.GdsRtDefs Gds.GdsBytes_proofs Gds.GdsWrite_proofs.
Import ListNotations.
Local Open Scope Z_scope.

Definition GdsW_fitn (n : Z) : bool := n + 4 <=? 65535.

Lemma GdsW_negb_existsb {A} (p : A -> bool) l : negb (existsb p l) = forallb (fun x => negb (p x)) l.
Proof. induction l as [|a l IH]; cbn; [reflexivity|]. rewrite negb_orb, IH. reflexivity. Qed.

Lemma GdsW_forallb_ext {A} (p q : A -> bool) l : (forall x, p x = q x) -> forallb p l = forallb q l.
Proof. intros H. induction l as [|a l IH]; cbn; [reflexivity|]. rewrite H, IH. reflexivity. Qed.

Lemma GdsW_too_long_fitn l : negb (some_payload_too_long l) = forallb GdsW_fitn (payload_sizes l).
Proof.
  unfold some_payload_too_long. rewrite GdsW_negb_existsb. apply GdsW_forallb_ext. intros n. unfold GdsW_fitn.
  destruct (Z.ltb_spec 65535 (n + 4)); destruct (Z.leb_spec (n + 4) 65535); try lia; reflexivity.
Qed.

Lemma GdsW_fits_str rt s : arm_of rt = Some (DStr, LAny) -> rec_fitsb (r_str rt s) = GdsW_fitn (gds_strlen s).
Proof. intros H. unfold rec_fitsb, rec_len, r_str. cbn [fst snd]. rewrite H. reflexivity. Qed.
Lemma GdsW_zlen_flat_points l : zlen (flat_points l) = 2 * zlen l.
Proof.
  unfold zlen, flat_points. rewrite (length_flat_map_const flat_point 2) by reflexivity. lia.
Qed.
Lemma GdsW_fits_xy l : rec_fitsb (r_xy l) = GdsW_fitn (8 * zlen l).
Proof.
  unfold rec_fitsb, rec_len, r_xy. cbn [fst snd arm_of]. rewrite GdsW_zlen_flat_points. unfold GdsW_fitn. f_equal. lia.
Qed.
Lemma GdsW_fits_props ps : forallb rec_fitsb (flat_props ps) = forallb GdsW_fitn (map gds_strlen (props_strings ps)).
Proof.
  unfold flat_props, props_strings. induction ps as [|p ps IH]; [reflexivity|].
  cbn [flat_map app forallb map]. rewrite IH, GdsW_fits_str by reflexivity. reflexivity.
Qed.
Lemma GdsW_fits_ostrans s : forallb rec_fitsb (flat_ostrans s) = true.
Proof. destruct s as [[? ? ? [?|] [?|]]|]; reflexivity. Qed.

Definition GdsW_E_str (e : element) : bool := forallb GdsW_fitn (map gds_strlen (element_strings e)).
Definition GdsW_E_xy (e : element) : bool := GdsW_fitn (8 * element_xy_count e).

Lemma GdsW_fits_element e : forallb rec_fitsb (flat_element e) = GdsW_E_str e && GdsW_E_xy e.
Proof.
  unfold GdsW_E_str, GdsW_E_xy.
  destruct e as [e|e|e|e|e|e|e]; cbn [flat_element element_strings element_xy_count map forallb];
    unfold flat_boundary, flat_path, flat_sref, flat_aref, flat_text, flat_node, flat_box, flat_head, flat_tail;
    repeat first [rewrite forallb_app | progress cbn [forallb app]];
    rewrite ?GdsW_fits_props, ?GdsW_fits_ostrans, ?GdsW_fits_xy, ?GdsW_fits_str by reflexivity;
    repeat match goal with |- context [opt_rec _ ?o] => destruct o; cbn [opt_rec forallb] end;
    change (rec_fitsb (r_none EndElement)) with true;
    repeat match goal with |- context [rec_fitsb ?r] => change (rec_fitsb r) with true end;
    try change (GdsW_fitn (8 * 1)) with true;
    repeat match goal with |- context [GdsW_fitn (8 * zlen [?x])] => change (GdsW_fitn (8 * zlen [x])) with true end;
    cbn [andb]; try btauto.
Qed.

Definition GdsW_S_str (s : gstruct) : bool := forallb GdsW_fitn (map gds_strlen (struct_strings s)).
Definition GdsW_S_xy (s : gstruct) : bool := forallb GdsW_fitn (map (fun e => 8 * element_xy_count e) (s_elems s)).

Lemma GdsW_fits_elements es :
  forallb rec_fitsb (flat_map flat_element es) =
  forallb GdsW_fitn (map gds_strlen (flat_map element_strings es)) &&
  forallb GdsW_fitn (map (fun e => 8 * element_xy_count e) es).
Proof.
  induction es as [|e es IH]; [reflexivity|].
  cbn [flat_map map forallb]. rewrite forallb_app, map_app, forallb_app, IH, GdsW_fits_element.
  unfold GdsW_E_str, GdsW_E_xy. btauto.
Qed.

Lemma GdsW_fits_struct s : forallb rec_fitsb (flat_struct s) = GdsW_S_str s && GdsW_S_xy s.
Proof.
  unfold GdsW_S_str, GdsW_S_xy, flat_struct, struct_strings.
  repeat first [rewrite forallb_app | progress cbn [forallb app map]].
  rewrite GdsW_fits_elements, GdsW_fits_str by reflexivity.
  change (rec_fitsb (BgnStruct, PI16 (flat_dates (s_dates s)))) with true.
  change (rec_fitsb (r_none EndStruct)) with true. btauto.
Qed.

Lemma GdsW_fits_structs ss :
  forallb rec_fitsb (flat_map flat_struct ss) =
  forallb GdsW_fitn (map gds_strlen (flat_map struct_strings ss)) &&
  forallb GdsW_fitn (map (fun e => 8 * element_xy_count e) (flat_map s_elems ss)).
Proof.
  induction ss as [|s ss IH]; [reflexivity|].
  cbn [flat_map map forallb]. rewrite forallb_app, !map_app, !forallb_app, IH, GdsW_fits_struct.
  unfold GdsW_S_str, GdsW_S_xy. btauto.
Qed.

Theorem GdsW_fits_iff_payloads l : lib_fitsb l = negb (some_payload_too_long l).
Proof.
  rewrite GdsW_too_long_fitn. unfold lib_fitsb, flatten_lib, payload_sizes, lib_strings, lib_elements.
  repeat first [rewrite forallb_app | progress cbn [forallb app map]].
  rewrite GdsW_fits_structs, GdsW_fits_str by reflexivity.
  change (rec_fitsb (r_i16 Header (l_version l))) with true.
  change (rec_fitsb (BgnLib, PI16 (flat_dates (l_dates l)))) with true.
  change (rec_fitsb (Units, PF64 [fst (l_units l); snd (l_units l)])) with true.
  change (rec_fitsb (r_none EndLib)) with true. btauto.
Qed.
