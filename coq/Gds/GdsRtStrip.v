(** What the known-finding class gds-string-even-len-trailing-nul does, exactly: a string of even
    length whose last byte is NUL is read back without that byte ([str_strip]); [lib_strip] applies
    this to every string of a library (library / structure / reference names, text strings, property
    values). Definitions only; lemmas in Gds/GdsRtStrip_proofs.v. *)
From Coq Require Import ZArith Bool List.
From L21 Require Import Base.Hex Gds.GdsData Gds.GdsRecord.
Import ListNotations.
Local Open Scope Z_scope.

Definition str_strip (s : bytes) : bytes := if even_trailing_nul s then removelast s else s.

Section MapStr.
Variable f : bytes -> bytes.
Definition prop_map_str (p : property) : property := mkProp (pr_attr p) (f (pr_value p)).
Definition props_map_str (ps : list property) : list property := map prop_map_str ps.
Definition element_map_str (e : element) : element :=
  match e with
  | EBoundary x => EBoundary (mkBoundary (b_layer x) (b_datatype x) (b_xy x) (b_elflags x) (b_plex x) (props_map_str (b_props x)))
  | EPath x => EPath (mkPath (p_layer x) (p_datatype x) (p_xy x) (p_width x) (p_path_type x) (p_begin_extn x) (p_end_extn x)
                             (p_elflags x) (p_plex x) (props_map_str (p_props x)))
  | ESref x => ESref (mkSref (f (sr_name x)) (sr_xy x) (sr_strans x) (sr_elflags x) (sr_plex x) (props_map_str (sr_props x)))
  | EAref x => EAref (mkAref (f (ar_name x)) (ar_xy x) (ar_cols x) (ar_rows x) (ar_strans x) (ar_elflags x) (ar_plex x)
                             (props_map_str (ar_props x)))
  | EText x => EText (mkText (f (t_string x)) (t_layer x) (t_texttype x) (t_xy x) (t_presentation x) (t_path_type x) (t_width x)
                             (t_strans x) (t_elflags x) (t_plex x) (props_map_str (t_props x)))
  | ENode x => ENode (mkNode (n_layer x) (n_nodetype x) (n_xy x) (n_elflags x) (n_plex x) (props_map_str (n_props x)))
  | EBox x => EBox (mkBox (x_layer x) (x_boxtype x) (x_xy x) (x_elflags x) (x_plex x) (props_map_str (x_props x)))
  end.
Definition struct_map_str (s : gstruct) : gstruct :=
  mkStruct (f (s_name s)) (s_dates s) (map element_map_str (s_elems s)).
Definition lib_map_str (l : library) : library :=
  mkLib (f (l_name l)) (l_version l) (l_dates l) (l_units l) (map struct_map_str (l_structs l)).
(** the same on a record *)
Definition rec_map_str (r : record) : record :=
  match snd r with PStr s => (fst r, PStr (f s)) | _ => r end.
End MapStr.

Definition lib_strip : library -> library := lib_map_str str_strip.
