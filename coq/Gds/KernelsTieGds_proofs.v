(** Tie (a) of DESIGN.md 2.3 for `GdsFloat64::decode` (gds21/src/data.rs): the definition generated from
    the Rust source extracts exactly the fields [gds_sign], [gds_exp7] - 64, [gds_mant] of Gds/GdsReal.v from
    every 64-bit word and combines them by the float expression [decode_expr] (the one GdsReal.v gives its
    exact semantics to). *)
From Coq Require Import ZArith Bool List Lia.
From L21 Require Import Base.KernelOps Base.F64 Gen.KernelsGen Gds.GdsReal Gds.KernelsInstGds.
Local Open Scope Z_scope.

Lemma land_mant : forall w, 0 <= w -> Z.land w 72057594037927935 = gds_mant w.
Proof.
  intros w Hw. unfold gds_mant. change 72057594037927935 with (Z.ones 56).
  rewrite Z.land_ones by lia. reflexivity.
Qed.

Lemma land_exp : forall w, 0 <= w ->
  Z.shiftr (Z.land w 9151314442816847872) 56 = gds_exp7 w.
Proof.
  intros w Hw. unfold gds_exp7. rewrite Z.shiftr_land.
  change (Z.shiftr 9151314442816847872 56) with (Z.ones 7).
  rewrite Z.land_ones by lia. rewrite Z.shiftr_div_pow2 by lia. reflexivity.
Qed.

Lemma land_sign : forall w, 0 <= w < 2 ^ 64 ->
  negb (Z.land w 9223372036854775808 =? 0) = gds_sign w.
Proof.
  intros w Hw. unfold gds_sign. change 9223372036854775808 with (2 ^ 63). change two63 with (2 ^ 63).
  assert (Hb : Z.testbit (Z.land w (2 ^ 63)) 63 = Z.testbit w 63).
  { rewrite Z.land_spec, Z.pow2_bits_true by lia. apply andb_true_r. }
  destruct (Z.leb_spec (2 ^ 63) w) as [Hge|Hlt].
  - assert (Z.testbit w 63 = true).
    { apply Z.testbit_true; [lia|]. assert (w / 2 ^ 63 = 1) by (symmetry; apply Z.div_unique with (r := w - 2 ^ 63); lia).
      rewrite H. reflexivity. }
    destruct (Z.eqb_spec (Z.land w (2 ^ 63)) 0) as [E|]; [|reflexivity].
    rewrite E, Z.bits_0 in Hb. congruence.
  - assert (E : Z.land w (2 ^ 63) = 0).
    { apply Z.bits_inj'. intros n Hn. rewrite Z.land_spec, Z.bits_0.
      destruct (Z.eq_dec n 63) as [->|Ne].
      - replace (Z.testbit w 63) with false; [reflexivity|].
        symmetry. apply Z.bits_above_log2; [lia|].
        destruct (Z.eq_dec w 0) as [->|]; [reflexivity|]. apply Z.log2_lt_pow2; lia.
      - rewrite Z.pow2_bits_false by lia. apply andb_false_r. }
    rewrite E. reflexivity.
Qed.

Lemma tie_gds_decode : forall w, 0 <= w < 2 ^ 64 ->
  g_GdsFloat64_decode sym_kops w = Some (decode_expr (gds_sign w) (gds_mant w) (gds_exp7 w - 64)).
Proof.
  intros w Hw. unfold g_GdsFloat64_decode.
  cbn [k_bind k_ret sym_kops sbnd sret i_and i_lit i_eq i_mul i_shr i_cast i_sub i_to_f f_powi f_lit f_div f_neg f_mul f_one].
  change (sy_chk I32 (8 * 7)) with (Some 56). cbn [sbnd].
  change ((0 <=? 56) && (56 <? 64)) with true. cbv iota. cbn [sbnd sret].
  rewrite land_sign, land_exp, land_mant by lia.
  assert (He : 0 <= gds_exp7 w < 128) by (unfold gds_exp7; apply Z.mod_pos_bound; lia).
  assert (Hc : sy_wrap I32 (gds_exp7 w) = gds_exp7 w).
  { unfold sy_wrap, ity_in. change (ity_min I32) with (- 2 ^ 31). change (ity_max I32) with (2 ^ 31 - 1).
    destruct (Z.leb_spec (- 2 ^ 31) (gds_exp7 w)); [|lia].
    destruct (Z.leb_spec (gds_exp7 w) (2 ^ 31 - 1)); [reflexivity|lia]. }
  rewrite Hc.
  assert (Hs : sy_chk I32 (gds_exp7 w - 64) = Some (gds_exp7 w - 64)).
  { unfold sy_chk, ity_in. change (ity_min I32) with (- 2 ^ 31). change (ity_max I32) with (2 ^ 31 - 1).
    destruct (Z.leb_spec (- 2 ^ 31) (gds_exp7 w - 64)); [|lia].
    destruct (Z.leb_spec (gds_exp7 w - 64) (2 ^ 31 - 1)); [reflexivity|lia]. }
  rewrite Hs. cbn [sbnd]. unfold decode_expr. destruct (gds_sign w); reflexivity.
Qed.
