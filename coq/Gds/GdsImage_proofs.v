(** What the GDSII reader model can return (C10, re-read clause). On byte-valued input every library
    [read_lib] returns satisfies [lib_img]: strings are byte-valued UTF-8, never of even length with a
    trailing NUL, and fit a record when padded; integers lie in the range of their Rust type; AREF has three
    and BOX five points; coordinate lists fit a record; every real is the decoding of a 64-bit word.
    Consequences: the library can be written again ([write_lib] is [Ok]), it is outside the known-finding
    class of C01, and every real survives write-then-read (C15) unless it is +-2^252 (known-finding class of
    C10). One lemma per reader function ([..._img]). *)
From Coq Require Import ZArith Bool List Lia.
From L21 Require Import Base.Outcome Base.Hex Base.F64 Gds.GdsReal Gds.GdsData Gds.GdsRecord Gds.GdsWrite Gds.GdsRead Gds.GdsSpec
     Gds.GdsRtDefs Gds.GdsReal_proofs Gds.GdsBytes_proofs Gds.GdsWrite_proofs Gds.GdsSafety_proofs.
Import ListNotations.
Local Open Scope Z_scope.

Ltac Zify.zify_post_hook ::= Z.div_mod_to_equations.


(** * What the reader can return: predicates *)
(** a string: byte-valued UTF-8, not of even length with a trailing NUL, fits a record when padded *)
Definition str_img (s : bytes) : Prop :=
  str_okb s = true /\ even_trailing_nul s = false /\ gds_strlen s + 4 <= 65535.
(** a real: the decoding of some 64-bit word *)
Definition real_img (x : Z) : Prop := exists w, word64 w /\ x = gds_decode w.

Definition rec_img (r : record) : Prop :=
  match snd r with
  | PNone => True
  | PBits a b => u8b a = true /\ u8b b = true
  | PI16 l => Forall (fun x => i16b x = true) l
  | PI32 l => Forall (fun x => i32b x = true) l /\ 4 * zlen l + 4 <= 65535
  | PF64 l => Forall real_img l
  | PStr s => str_img s
  end.

Lemma bytes_ok_app a b : bytes_ok (a ++ b) <-> bytes_ok a /\ bytes_ok b.
Proof. unfold bytes_ok. apply Forall_app. Qed.

Lemma u8b_byte x : byte_ok x -> u8b x = true.
Proof. unfold byte_ok, u8b. intros H. apply andb_true_iff. split; apply Z.leb_le; lia. Qed.

Lemma pairs16_img : forall l, bytes_ok l -> Forall (fun x => i16b x = true) (pairs16 l).
Proof.
  fix IH 1. intros [|a [|b r]] H; cbn [pairs16]; try constructor.
  - inversion H as [|? ? Ha H']; subst. inversion H' as [|? ? Hb H'']; subst.
    unfold byte_ok in *. unfold i16b, i16_of, u16_of. destruct (a * 256 + b <? 32768) eqn:E.
    + apply Z.ltb_lt in E. apply andb_true_iff. split; apply Z.leb_le; lia.
    + apply Z.ltb_ge in E. apply andb_true_iff. split; apply Z.leb_le; lia.
  - apply IH. inversion H as [|? ? Ha H']; subst. inversion H'; subst. assumption.
Qed.

Lemma quads32_img : forall l, bytes_ok l -> Forall (fun x => i32b x = true) (quads32 l).
Proof.
  fix IH 1. intros [|a [|b [|c [|d r]]]] H; cbn [quads32]; try constructor.
  - inversion H as [|? ? Ha H1]; subst. inversion H1 as [|? ? Hb H2]; subst.
    inversion H2 as [|? ? Hc H3]; subst. inversion H3 as [|? ? Hd H4]; subst.
    unfold byte_ok in *. unfold i32b, i32_of, u32_of.
    destruct (((a * 256 + b) * 256 + c) * 256 + d <? 2147483648) eqn:E.
    + apply Z.ltb_lt in E. apply andb_true_iff. split; apply Z.leb_le; lia.
    + apply Z.ltb_ge in E. apply andb_true_iff. split; apply Z.leb_le; lia.
  - apply IH. inversion H as [|? ? Ha H1]; subst. inversion H1 as [|? ? Hb H2]; subst.
    inversion H2 as [|? ? Hc H3]; subst. inversion H3; subst. assumption.
Qed.

Lemma octs64_img : forall l, bytes_ok l -> Forall word64 (octs64 l).
Proof.
  fix IH 1. intros [|a0 [|a1 [|a2 [|a3 [|a4 [|a5 [|a6 [|a7 r]]]]]]]] H; cbn [octs64]; try constructor.
  - repeat match goal with H : bytes_ok (_ :: _) |- _ => inversion H; clear H; subst end.
    repeat match goal with H : Forall _ (_ :: _) |- _ => inversion H; clear H; subst end.
    unfold byte_ok in *. unfold word64, u32_of, two64. lia.
  - apply IH.
    repeat match goal with H : bytes_ok (_ :: _) |- _ => inversion H; clear H; subst end.
    repeat match goal with H : Forall _ (_ :: _) |- _ => inversion H; clear H; subst end.
    assumption.
Qed.

Lemma forallb_u8_bytes s : bytes_ok s -> forallb u8b s = true.
Proof.
  induction 1 as [|x l Hx Hl IH]; cbn; auto. rewrite (u8b_byte _ Hx). exact IH.
Qed.

Lemma bytes_ok_removelast s : bytes_ok s -> bytes_ok (removelast s).
Proof.
  induction 1 as [|x l Hx Hl IH]; cbn; [constructor|].
  destruct l; [constructor|]. constructor; assumption.
Qed.

Lemma removelast_length {A} (l : list A) : l <> [] -> S (length (removelast l)) = length l.
Proof.
  induction l as [|a l IH]; [congruence|]. intros _. cbn [removelast].
  destruct l as [|b l]; [reflexivity|]. cbn [length]. f_equal. apply IH. discriminate.
Qed.

Lemma even_mod2 n : Z.even n = true -> n mod 2 = 0.
Proof. intros H. apply Z.even_spec in H. destruct H as [k ->]. rewrite Z.mul_comm. apply Z_mod_mult. Qed.

(** the string [read_str] returns for an even-length payload of at most 65531 bytes *)
Lemma read_str_img len data :
  bytes_ok data -> length data = Z.to_nat len -> 0 <= len -> len + 4 <= 65535 -> Z.even len = true ->
  let data' := if (0 <? len) && (last data 1 =? 0) then removelast data else data in
  utf8_valid data' = true -> str_img data'.
Proof.
  intros Hb Hl H0 Hmax Hev data' Hu.
  assert (Hz : zlen data = len) by (unfold zlen; lia).
  unfold str_img, str_okb, even_trailing_nul, gds_strlen. subst data'.
  destruct ((0 <? len) && (last data 1 =? 0)) eqn:Hc.
  - apply andb_true_iff in Hc as [Hp Hlast]. apply Z.ltb_lt in Hp.
    assert (Hne : data <> []) by (intros ->; cbn in Hl; lia).
    pose proof (removelast_length data Hne) as Hrl.
    assert (Hz' : zlen (removelast data) = len - 1) by (unfold zlen in *; lia).
    split; [|split].
    + rewrite Hu, andb_true_r. apply forallb_u8_bytes, bytes_ok_removelast, Hb.
    + fold (zlen (removelast data)). rewrite Hz'.
      replace (Z.even (len - 1)) with false; [reflexivity|].
      rewrite Z.even_sub, Hev. reflexivity.
    + rewrite Hz'. apply even_mod2 in Hev. lia.
  - split; [|split].
    + rewrite Hu, andb_true_r. apply forallb_u8_bytes, Hb.
    + fold (zlen data). rewrite Hz, Hev. cbn [andb].
      apply andb_false_iff in Hc as [Hc|Hc]; [|exact Hc].
      apply Z.ltb_ge in Hc.
      assert (Hd : data = []) by (destruct data; [reflexivity|exfalso; unfold zlen in Hz; cbn [length] in Hz; lia]).
      rewrite Hd. reflexivity.
    + rewrite Hz. apply even_mod2 in Hev. lia.
Qed.

(** * read_content, read_record: what they return on byte-valued input *)
Lemma read_content_img rt dt len bs r bs' :
  bytes_ok bs -> 0 <= len -> len + 4 <= 65535 -> Z.even len = true ->
  read_content true rt dt len bs = Ok (r, bs') -> rec_img r /\ bytes_ok bs'.
Proof.
  intros Hb H0 Hmax Hev. unfold read_content.
  destruct (arm_of rt) as [[d ls]|] eqn:Harm; [|discriminate].
  destruct (dtype_eqb d dt && len_matches ls len) eqn:Hc; cbn [negb]; [|discriminate].
  apply andb_true_iff in Hc as [_ Hlm].
  assert (Hex : forall n (k : bytes * bytes -> res (record * bytes)),
            obind (read_exact n bs) k = Ok (r, bs') ->
            exists data r0, bs = data ++ r0 /\ length data = Z.to_nat n /\ bytes_ok data /\ bytes_ok r0 /\ k (data, r0) = Ok (r, bs')).
  { intros n k H. pose proof (read_exact_wp True True n bs) as W.
    destruct (read_exact n bs) as [[data r0]| | |]; try discriminate H. cbn in W, H. destruct W as [-> Hl].
    apply bytes_ok_app in Hb as [Hb1 Hb2]. exists data, r0. auto. }
  destruct d.
  - intros H. inversion H; subst. split; [exact I|exact Hb].
  - intros H. apply Hex in H as (data & r0 & -> & Hl & Hb1 & Hb2 & H).
    destruct data as [|b0 [|b1 t]]; try discriminate H. inversion H; subst.
    inversion Hb1 as [|? ? Ha Hb1']; subst. inversion Hb1' as [|? ? Hb0 _]; subst.
    split; [|exact Hb2]. split; apply u8b_byte; assumption.
  - intros H. apply Hex in H as (data & r0 & -> & Hl & Hb1 & Hb2 & H).
    unfold need in H. destruct (_ <=? _); [|discriminate H]. inversion H; subst.
    split; [|exact Hb2]. apply pairs16_img, Hb1.
  - intros H. apply Hex in H as (data & r0 & -> & Hl & Hb1 & Hb2 & H).
    unfold need in H. destruct (_ <=? _); [|discriminate H]. inversion H; subst.
    split; [|exact Hb2]. split; [apply quads32_img, Hb1|].
    pose proof (quads32_len data). unfold zlen. lia.
  - discriminate.
  - intros H. apply Hex in H as (data & r0 & -> & Hl & Hb1 & Hb2 & H).
    unfold need in H. destruct (_ <=? _); [|discriminate H]. inversion H; subst.
    split; [|exact Hb2]. cbn [rec_img snd].
    apply Forall_map. eapply Forall_impl; [|apply octs64_img, Hb1].
    intros w Hw. exists w. auto.
  - unfold read_str. cbn [negb andb]. intros H.
    destruct (read_exact len bs) as [[data r0]| | |] eqn:Ex; try discriminate H. cbn [obind] in H.
    pose proof (read_exact_wp True True len bs) as W. rewrite Ex in W. cbn in W. destruct W as [-> Hl].
    apply bytes_ok_app in Hb as [Hb1 Hb2].
    match type of H with context [utf8_valid ?s] => destruct (utf8_valid s) eqn:Hu end; cbn [obind] in H; [|discriminate H].
    inversion H; subst. split; [|exact Hb2].
    apply (read_str_img len data); assumption.
Qed.

Lemma read_record_img bs r bs' :
  bytes_ok bs -> read_record true bs = Ok (r, bs') -> rec_img r /\ bytes_ok bs'.
Proof.
  intros Hb. unfold read_record.
  pose proof (read_header_wp True True bs) as W.
  destruct (read_header bs) as [[[[rt dt] len] r0]| | |]; try discriminate. cbn [obind].
  cbn in W. destruct W as (l0 & l1 & c & d & -> & -> & Hlen & Hodd & Hrt).
  inversion Hb as [|? ? H0 Hb1]; subst. inversion Hb1 as [|? ? H1 Hb2]; subst.
  inversion Hb2 as [|? ? _ Hb3]; subst. inversion Hb3 as [|? ? _ Hb4]; subst.
  unfold byte_ok in H0, H1.
  apply read_content_img; auto; try lia.
  rewrite Z.even_sub. rewrite <- Z.negb_odd, Hodd. reflexivity.
Qed.


(** * Values the parser builds *)
Definition opt_p {A} (P : A -> Prop) (o : option A) : Prop := match o with Some x => P x | None => True end.
Definition strans_img (s : strans) : Prop := opt_p real_img (st_mag s) /\ opt_p real_img (st_angle s).
Definition prop_img (p : property) : Prop := i16b (pr_attr p) = true /\ str_img (pr_value p).
Definition elem_img (e : element) : Prop :=
  element_okb_with (fun _ => true) e = true /\ Forall str_img (element_strings e) /\
  Forall real_img (element_reals e) /\ 8 * element_xy_count e + 4 <= 65535.
Definition struct_img (s : gstruct) : Prop :=
  str_img (s_name s) /\ dts_okb (s_dates s) = true /\ Forall elem_img (s_elems s).
Definition lib_img (l : library) : Prop :=
  str_img (l_name l) /\ i16b (l_version l) = true /\ dts_okb (l_dates l) = true /\
  real_img (fst (l_units l)) /\ real_img (snd (l_units l)) /\ Forall struct_img (l_structs l).

(** a field value held by the builder of an element of kind [k] under the key [rt] *)
Definition fval_img (k : elkind) (rt : rtype) (v : fval) : Prop :=
  match v with
  | VZ z => match arm_of rt with
            | Some (DI16, _) => i16b z = true
            | Some (DI32, _) => i32b z = true
            | _ => False
            end
  | VPair a b => match arm_of rt with
                 | Some (DBitArray, _) => u8b a = true /\ u8b b = true
                 | Some (DI16, _) => i16b a = true /\ i16b b = true
                 | _ => False
                 end
  | VPts l => forallb point_okb l = true /\ 8 * zlen l + 4 <= 65535 /\
              match k with KAref => zlen l = 3 | KBox => zlen l = 5 | _ => True end
  | VStr s => str_img s
  | VStrans s => strans_img s
  end.
Definition builder_img (k : elkind) (b : builder) : Prop := Forall (fun '(rt, v) => fval_img k rt v) b.

Definition st_img (st : pstate) : Prop := rec_shape (nxt st) /\ rec_img (nxt st) /\ bytes_ok (rest st).

(** * inversion of binds *)
Ltac bind_inv H :=
  match type of H with
  | obind ?x _ = Ok _ =>
    let E := fresh "E" in
    destruct x eqn:E; cbn [obind] in H; try discriminate H
  end.

Lemma next_img st r st' : st_img st -> next true st = Ok (r, st') -> r = nxt st /\ st_img st'.
Proof.
  intros (Hs & Hi & Hb). unfold next. destruct (is_endlib (nxt st)).
  - intros H. inversion H; subst. repeat split; auto.
  - intros H. bind_inv H. destruct a as [r0 bs']. inversion H; subst.
    pose proof (read_record_wp (rest st)) as W. rewrite E in W. cbn in W. destruct W as [Hs' _].
    destruct (read_record_img _ _ _ Hb E) as [Hi' Hb']. repeat split; auto.
Qed.

(** * strans, property *)
Lemma strans_loop_img : forall f st s s' st', st_img st -> strans_img s ->
  strans_loop true f st s = Ok (s', st') -> strans_img s' /\ st_img st'.
Proof.
  induction f as [|f IH]; intros st s s' st' Hst Hs; cbn [strans_loop]; [discriminate|].
  destruct (nxt st) as [rt pl] eqn:Hn.
  assert (Hi : rec_img (rt, pl)) by (rewrite <- Hn; apply Hst).
  destruct rt; try (intros H; inversion H; subst; auto; fail);
    destruct pl as [| | | |l|]; try (intros H; inversion H; subst; auto; fail);
    destruct l as [|d l]; try (intros H; inversion H; subst; auto; fail).
  all: intros H; bind_inv H; destruct a as [r0 st1]; apply (next_img _ _ _ Hst) in E as [_ Hst1].
  all: cbn [rec_img snd] in Hi; inversion Hi as [|? ? Hd _]; subst.
  all: eapply IH; [exact Hst1| |exact H]; destruct Hs as [Hm Ha]; split; cbn; auto.
Qed.

Lemma parse_strans_img f st d0 d1 s st' : st_img st ->
  parse_strans true f st d0 d1 = Ok (s, st') -> strans_img s /\ st_img st'.
Proof. intros Hst H. eapply strans_loop_img; [exact Hst| |exact H]. split; exact I. Qed.

Lemma parse_property_img st attr p st' : st_img st -> i16b attr = true ->
  parse_property true st attr = Ok (p, st') -> prop_img p /\ st_img st'.
Proof.
  intros Hst Ha. unfold parse_property. intros H. bind_inv H. destruct a as [[rt pl] st1].
  apply (next_img _ _ _ Hst) in E as [Hr Hst1].
  assert (Hi : rec_img (rt, pl)) by (rewrite Hr; apply Hst).
  destruct rt; try discriminate H. destruct pl; try discriminate H. inversion H; subst.
  split; [|exact Hst1]. split; [exact Ha|exact Hi].
Qed.

(** * fields *)
Lemma pair_points_img : forall l, Forall (fun x => i32b x = true) l ->
  forallb point_okb (pair_points l) = true /\ 2 * zlen (pair_points l) <= zlen l.
Proof.
  fix IH 1. intros [|x [|y r]] H; cbn [pair_points forallb]; unfold zlen; cbn [length]; try (split; [reflexivity|lia]).
  inversion H as [|? ? Hx H1]; subst. inversion H1 as [|? ? Hy H2]; subst.
  destruct (IH r H2) as [I1 I2]. unfold zlen in I2. split; [|lia].
  unfold point_okb at 1. cbn [px py]. rewrite Hx, Hy, I1. reflexivity.
Qed.

Lemma field_of_img k rt pl v : rec_shape (rt, pl) -> rec_img (rt, pl) -> accepts k rt = true ->
  field_of k (rt, pl) = Ok v -> fval_img k rt v.
Proof.
  intros Hs Hi Ha. apply shape_inv in Hs.
  destruct rt; try (exfalso; destruct k; discriminate Ha); cbn [arm_of] in Hs.
  all: try (destruct Hs as (l & -> & Hl); list_by_zlen l Hl; cbn [rec_img snd] in Hi;
            repeat match goal with H : Forall _ (_ :: _) |- _ => inversion H; clear H; subst end;
            try destruct Hi as [Hi _];
            repeat match goal with H : Forall _ (_ :: _) |- _ => inversion H; clear H; subst end;
            intros H; inversion H; subst; cbn; auto; fail).
  all: try (destruct Hs as (a & b & ->); intros H; inversion H; subst; exact Hi).
  all: try (destruct Hs as (s & ->); intros H; inversion H; subst; exact Hi).
  (* Xy *)
  destruct Hs as (l & ->). cbn [rec_img snd] in Hi. destruct Hi as [Hr Hn].
  destruct (pair_points_img l Hr) as [Hp Hz].
  cbn [field_of]. destruct k; try (exfalso; discriminate Ha).
  all: try (unfold parse_vec; destruct (_ mod 2 =? 0); cbn [obind]; [|discriminate];
            try (destruct (Z.of_nat (length (pair_points l)) =? _) eqn:Hc; [apply Z.eqb_eq in Hc|discriminate]);
            intros H; inversion H; subst; cbn [fval_img]; repeat split; auto; unfold zlen in *; lia).
  all: unfold parse_point; destruct l as [|x [|y [|]]]; cbn [obind]; try discriminate;
       intros H; inversion H; subst; cbn [fval_img]; repeat split; auto; unfold zlen; cbn [length]; lia.
Qed.

(** * builders *)
Lemma bfind_img k b rt v : builder_img k b -> bfind rt b = Some v -> fval_img k rt v.
Proof.
  induction 1 as [|[r w] b Hw Hb IH]; cbn [bfind]; [discriminate|].
  destruct (rtype_eqb r rt) eqn:E.
  - apply rtype_eqb_eq in E. subst r. intros H. inversion H; subst. exact Hw.
  - exact IH.
Qed.

Section Builder.
Variables (k : elkind) (b : builder).
Hypothesis Hb : builder_img k b.

Lemma req_z_i16 rt ls z : arm_of rt = Some (DI16, ls) -> req_z rt b = Ok z -> i16b z = true.
Proof.
  intros Harm. unfold req_z. destruct (bfind rt b) as [[]|] eqn:E; try discriminate.
  intros H. inversion H; subst. apply (bfind_img _ _ _ _ Hb) in E. cbn in E. rewrite Harm in E. exact E.
Qed.
Lemma opt_z_i16 rt ls : arm_of rt = Some (DI16, ls) -> opt_okb i16b (opt_z rt b) = true.
Proof.
  intros Harm. unfold opt_z. destruct (bfind rt b) as [[]|] eqn:E; try reflexivity.
  apply (bfind_img _ _ _ _ Hb) in E. cbn in E. rewrite Harm in E. exact E.
Qed.
Lemma opt_z_i32 rt ls : arm_of rt = Some (DI32, ls) -> opt_okb i32b (opt_z rt b) = true.
Proof.
  intros Harm. unfold opt_z. destruct (bfind rt b) as [[]|] eqn:E; try reflexivity.
  apply (bfind_img _ _ _ _ Hb) in E. cbn in E. rewrite Harm in E. exact E.
Qed.
Lemma opt_bits_ok rt ls : arm_of rt = Some (DBitArray, ls) -> opt_okb bits2_okb (opt_bits rt b) = true.
Proof.
  intros Harm. unfold opt_bits. destruct (bfind rt b) as [[]|] eqn:E; try reflexivity.
  apply (bfind_img _ _ _ _ Hb) in E. cbn in E. rewrite Harm in E. destruct E as [E1 E2].
  cbn. unfold bits2_okb. cbn [fst snd]. rewrite E1, E2. reflexivity.
Qed.
Lemma req_pts_ok xy : req_pts b = Ok xy ->
  forallb point_okb xy = true /\ 8 * zlen xy + 4 <= 65535 /\
  match k with KAref => zlen xy = 3 | KBox => zlen xy = 5 | _ => True end.
Proof.
  unfold req_pts. destruct (bfind Xy b) as [[]|] eqn:E; try discriminate.
  intros H. inversion H; subst. apply (bfind_img _ _ _ _ Hb) in E. exact E.
Qed.
Lemma req_pt_ok p : req_pt b = Ok p -> point_okb p = true.
Proof.
  unfold req_pt. destruct (bfind Xy b) as [[| |[|q [|]]| |]|] eqn:E; try discriminate.
  intros H. inversion H; subst. apply (bfind_img _ _ _ _ Hb) in E. destruct E as [E _].
  cbn in E. rewrite andb_true_r in E. exact E.
Qed.
Lemma req_str_ok rt s : req_str rt b = Ok s -> str_img s.
Proof.
  unfold req_str. destruct (bfind rt b) as [[]|] eqn:E; try discriminate.
  intros H. inversion H; subst. apply (bfind_img _ _ _ _ Hb) in E. exact E.
Qed.
Lemma opt_strans_ok : opt_p strans_img (opt_strans b).
Proof.
  unfold opt_strans. destruct (bfind Strans b) as [[]|] eqn:E; try exact I.
  apply (bfind_img _ _ _ _ Hb) in E. exact E.
Qed.
End Builder.

Lemma props_img ps : Forall prop_img ps -> forallb prop_okb ps = true /\ Forall str_img (props_strings ps).
Proof.
  induction 1 as [|p ps [Ha Hs] Hps [I1 I2]]; [split; [reflexivity|constructor]|].
  unfold props_strings in *. cbn [forallb map]. split; [|constructor; assumption].
  rewrite I1, andb_true_r. unfold prop_okb. rewrite Ha. destruct Hs as [Hs _]. exact Hs.
Qed.

Lemma strans_okb_triv s : opt_okb (strans_okb_with (fun _ => true)) s = true.
Proof. destruct s as [s|]; [|reflexivity]. cbn. unfold strans_okb_with. destruct (st_mag s), (st_angle s); reflexivity. Qed.

Lemma strans_reals_img s : opt_p strans_img s -> Forall real_img (strans_reals s).
Proof.
  destruct s as [s|]; [|constructor]. intros [Hm Ha]. cbn [strans_reals].
  apply Forall_app. split.
  - destruct (st_mag s); [constructor; [exact Hm|constructor]|constructor].
  - destruct (st_angle s); [constructor; [exact Ha|constructor]|constructor].
Qed.

Lemma str_img_okb s : str_img s -> str_okb s = true.
Proof. intros [H _]. exact H. Qed.


Ltac bind_inv_as H x E :=
  match type of H with
  | obind ?y _ = Ok _ => destruct y as [x| | |] eqn:E; cbn [obind] in H; try discriminate H
  end.

Ltac fld Hb :=
  first [ assumption
        | reflexivity
        | eapply (req_z_i16 _ _ Hb); [|eassumption]; reflexivity
        | eapply (opt_z_i16 _ _ Hb); reflexivity
        | eapply (opt_z_i32 _ _ Hb); reflexivity
        | eapply (opt_bits_ok _ _ Hb); reflexivity
        | apply strans_okb_triv
        | apply str_img_okb; eapply (req_str_ok _ _ Hb); eassumption
        | eapply (req_pt_ok _ _ Hb); eassumption
        | apply Z.eqb_eq; assumption ].

Lemma build_elem_img k b props e : builder_img k b -> Forall prop_img props ->
  build_elem k b props = Ok e -> elem_img e.
Proof.
  intros Hb Hp. destruct (props_img _ Hp) as [Hpo Hps].
  unfold build_elem, elem_img. destruct k; intros H.
  - (* boundary *)
    bind_inv_as H layer E1. bind_inv_as H dt E2. bind_inv_as H xy E3. inversion H; subst e; clear H.
    destruct (req_pts_ok _ _ Hb _ E3) as (Hx1 & Hx2 & Hx3).
    cbn [element_okb_with element_strings element_reals element_xy_count b_props b_xy].
    split; [|split; [exact Hps|split; [constructor|exact Hx2]]].
    unfold boundary_okb. cbn [b_layer b_datatype b_xy b_elflags b_plex b_props].
    rewrite !andb_true_iff; repeat split; fld Hb.
  - (* path *)
    bind_inv_as H layer E1. bind_inv_as H dt E2. bind_inv_as H xy E3. inversion H; subst e; clear H.
    destruct (req_pts_ok _ _ Hb _ E3) as (Hx1 & Hx2 & Hx3).
    cbn [element_okb_with element_strings element_reals element_xy_count p_props GdsData.p_xy].
    split; [|split; [exact Hps|split; [constructor|exact Hx2]]].
    unfold path_okb. cbn [p_layer p_datatype GdsData.p_xy p_width p_path_type p_begin_extn p_end_extn p_elflags p_plex p_props].
    rewrite !andb_true_iff; repeat split; fld Hb.
  - (* sref *)
    bind_inv_as H name E1. bind_inv_as H xy E2. inversion H; subst e; clear H.
    cbn [element_okb_with element_strings element_reals element_xy_count sr_name sr_props sr_strans].
    split; [|split; [constructor; [eapply (req_str_ok _ _ Hb); eassumption|exact Hps]
                    |split; [apply strans_reals_img, (opt_strans_ok _ _ Hb)|lia]]].
    unfold sref_okb_with. cbn [sr_name sr_xy sr_strans sr_elflags sr_plex sr_props].
    rewrite !andb_true_iff; repeat split; fld Hb.
  - (* aref *)
    bind_inv_as H name E1. bind_inv_as H xy E2.
    destruct (bfind ColRow b) as [[| c rw | | |]|] eqn:Ecr; try discriminate H. inversion H; subst e; clear H.
    apply (bfind_img _ _ _ _ Hb) in Ecr. cbn in Ecr. destruct Ecr as [Hc Hrw].
    destruct (req_pts_ok _ _ Hb _ E2) as (Hx1 & Hx2 & Hx3).
    cbn [element_okb_with element_strings element_reals element_xy_count ar_name ar_props ar_strans ar_xy].
    split; [|split; [constructor; [eapply (req_str_ok _ _ Hb); eassumption|exact Hps]
                    |split; [apply strans_reals_img, (opt_strans_ok _ _ Hb)|exact Hx2]]].
    unfold aref_okb_with. cbn [ar_name ar_xy ar_cols ar_rows ar_strans ar_elflags ar_plex ar_props].
    rewrite !andb_true_iff; repeat split; fld Hb.
  - (* text *)
    bind_inv_as H s E1. bind_inv_as H layer E2. bind_inv_as H ty E3. bind_inv_as H xy E4. inversion H; subst e; clear H.
    cbn [element_okb_with element_strings element_reals element_xy_count t_string t_props t_strans].
    split; [|split; [constructor; [eapply (req_str_ok _ _ Hb); eassumption|exact Hps]
                    |split; [apply strans_reals_img, (opt_strans_ok _ _ Hb)|lia]]].
    unfold text_okb_with. cbn [t_string t_layer t_texttype t_xy t_presentation t_path_type t_width t_strans t_elflags t_plex t_props].
    rewrite !andb_true_iff; repeat split; fld Hb.
  - (* node *)
    bind_inv_as H layer E1. bind_inv_as H nt E2. bind_inv_as H xy E3. inversion H; subst e; clear H.
    destruct (req_pts_ok _ _ Hb _ E3) as (Hx1 & Hx2 & Hx3).
    cbn [element_okb_with element_strings element_reals element_xy_count n_props n_xy].
    split; [|split; [exact Hps|split; [constructor|exact Hx2]]].
    unfold node_okb. cbn [n_layer n_nodetype n_xy n_elflags n_plex n_props].
    rewrite !andb_true_iff; repeat split; fld Hb.
  - (* box *)
    bind_inv_as H layer E1. bind_inv_as H bt E2. bind_inv_as H xy E3. inversion H; subst e; clear H.
    destruct (req_pts_ok _ _ Hb _ E3) as (Hx1 & Hx2 & Hx3).
    cbn [element_okb_with element_strings element_reals element_xy_count x_props x_xy].
    split; [|split; [exact Hps|split; [constructor|exact Hx2]]].
    unfold box_okb. cbn [x_layer x_boxtype x_xy x_elflags x_plex x_props].
    rewrite !andb_true_iff; repeat split; fld Hb.
Qed.

(** * elements *)
Lemma parse_elem_img : forall f k st b props e st', st_img st -> builder_img k b -> Forall prop_img props ->
  parse_elem true f k st b props = Ok (e, st') -> elem_img e /\ st_img st'.
Proof.
  induction f as [|f IH]; intros k st b props e st' Hst Hb Hp; cbn [parse_elem]; [discriminate|].
  unfold parse_elem_body. intros H.
  bind_inv_as H a E. destruct a as [[rt pl] st1].
  apply (next_img _ _ _ Hst) in E as [Hr Hst1].
  assert (Hsh : rec_shape (rt, pl)) by (rewrite Hr; apply Hst).
  assert (Hi : rec_img (rt, pl)) by (rewrite Hr; apply Hst).
  destruct rt.
  all: lazymatch goal with
       | _ : rec_shape (EndElement, _) |- _ =>
         bind_inv_as H e0 E0; inversion H; subst; split; [eapply build_elem_img; eauto|exact Hst1]
       | _ => idtac
       end.
  all: destruct (accepts k _) eqn:Hacc; cbn [negb] in H; [|discriminate H].
  all: try (exfalso; destruct k; discriminate Hacc).
  all: lazymatch goal with
       | _ : rec_shape (Strans, _) |- _ =>
         apply shape_inv in Hsh; cbn [arm_of] in Hsh; destruct Hsh as (d0 & d1 & ->);
         bind_inv_as H a0 E0; destruct a0 as [s st2];
         apply (parse_strans_img _ _ _ _ _ _ Hst1) in E0 as [Hs Hst2];
         eapply IH; [exact Hst2| |exact Hp|exact H]; constructor; [exact Hs|exact Hb]
       | _ : rec_shape (PropAttr, _) |- _ =>
         apply shape_inv in Hsh; cbn [arm_of] in Hsh; destruct Hsh as (l & -> & Hl); list_by_zlen l Hl;
         cbn [rec_img snd] in Hi; inversion Hi as [|? ? Hattr _]; subst;
         bind_inv_as H a0 E0; destruct a0 as [p st2];
         apply (parse_property_img _ _ _ _ Hst1 Hattr) in E0 as [Hpi Hst2];
         eapply IH; [exact Hst2|exact Hb| |exact H]; apply Forall_app; split; [exact Hp|constructor; [exact Hpi|constructor]]
       | _ =>
         bind_inv_as H v E0; apply (field_of_img _ _ _ _ Hsh Hi Hacc) in E0;
         eapply IH; [exact Hst1| |exact Hp|exact H]; constructor; [exact E0|exact Hb]
       end.
Qed.

Lemma struct_loop_img : forall f st es st', st_img st ->
  struct_loop true f st = Ok (es, st') -> Forall elem_img es /\ st_img st'.
Proof.
  induction f as [|f IH]; intros st es st' Hst; cbn [struct_loop]; [discriminate|].
  intros H. bind_inv_as H a E. destruct a as [[rt pl] st1].
  apply (next_img _ _ _ Hst) in E as [Hr Hst1]. cbn [fst] in H.
  destruct rt; cbn [elkind_of] in H; try discriminate H.
  all: try (inversion H; subst; split; [constructor|exact Hst1]; fail).
  all: bind_inv_as H a0 E0; destruct a0 as [e st2];
       apply (parse_elem_img _ _ _ _ _ _ _ Hst1) in E0 as [He Hst2]; [|constructor|constructor];
       bind_inv_as H a1 E1; destruct a1 as [es' st3];
       apply (IH _ _ _ Hst2) in E1 as [Hes Hst3];
       inversion H; subst; split; [constructor; assumption|exact Hst3].
Qed.

Lemma dates_of_img l ds : Forall (fun x => i16b x = true) l -> dates_of l = Ok ds -> dts_okb ds = true.
Proof.
  intros Hl. unfold dates_of.
  do 13 (destruct l as [|? l]; try discriminate).
  intros H. inversion H; subst.
  repeat match goal with H : Forall _ (_ :: _) |- _ => inversion H; clear H; subst end.
  unfold dts_okb, dt_okb. cbn [d_modified d_accessed dt_year dt_month dt_day dt_hour dt_minute dt_second].
  rewrite !andb_true_iff; repeat split; assumption.
Qed.

Lemma parse_struct_img f st dates s st' : st_img st -> Forall (fun x => i16b x = true) dates ->
  parse_struct true f st dates = Ok (s, st') -> struct_img s /\ st_img st'.
Proof.
  intros Hst Hd. unfold parse_struct. intros H.
  bind_inv_as H ds E0. apply (dates_of_img _ _ Hd) in E0.
  bind_inv_as H a E. destruct a as [[rt pl] st1].
  apply (next_img _ _ _ Hst) in E as [Hr Hst1].
  assert (Hi : rec_img (rt, pl)) by (rewrite Hr; apply Hst).
  destruct rt; try discriminate H. destruct pl; try discriminate H.
  bind_inv_as H a1 E1. destruct a1 as [es st2].
  apply (struct_loop_img _ _ _ _ Hst1) in E1 as [Hes Hst2].
  inversion H; subst. split; [|exact Hst2]. split; [exact Hi|split; assumption].
Qed.

Lemma lib_loop_img : forall f st name units structs n u ss, st_img st ->
  opt_p str_img name -> opt_p (fun p => real_img (fst p) /\ real_img (snd p)) units -> Forall struct_img structs ->
  lib_loop true f st name units structs = Ok (n, u, ss) ->
  opt_p str_img n /\ opt_p (fun p => real_img (fst p) /\ real_img (snd p)) u /\ Forall struct_img ss.
Proof.
  induction f as [|f IH]; intros st name units structs n u ss Hst Hn Hu Hss; cbn [lib_loop]; [discriminate|].
  intros H. bind_inv_as H a E. destruct a as [[rt pl] st1].
  apply (next_img _ _ _ Hst) in E as [Hr Hst1].
  assert (Hi : rec_img (rt, pl)) by (rewrite Hr; apply Hst).
  destruct rt; try (destruct (unsupported_lib _); discriminate H).
  - destruct pl; try discriminate H. eapply IH; [exact Hst1| | | |exact H]; auto.
  - destruct pl as [| | | |l|]; try discriminate H. destruct l as [|d0 [|d1 l]]; try discriminate H.
    cbn [rec_img snd] in Hi. inversion Hi as [|? ? H0 Hi']; subst. inversion Hi' as [|? ? H1 _]; subst.
    eapply IH; [exact Hst1| | | |exact H]; auto. cbn. auto.
  - inversion H; subst. auto.
  - destruct pl as [| |dates| | |]; try discriminate H.
    bind_inv_as H a0 E0. destruct a0 as [s st2].
    apply (parse_struct_img _ _ _ _ _ Hst1 Hi) in E0 as [Hs Hst2].
    eapply IH; [exact Hst2| | | |exact H]; auto.
    apply Forall_app. split; [exact Hss|constructor; [exact Hs|constructor]].
Qed.

Lemma parse_lib_img f st l : st_img st -> parse_lib true f st = Ok l -> lib_img l.
Proof.
  intros Hst. unfold parse_lib. intros H.
  bind_inv_as H a E. destruct a as [[rt pl] st1].
  apply (next_img _ _ _ Hst) in E as [Hr Hst1].
  assert (Hi : rec_img (rt, pl)) by (rewrite Hr; apply Hst).
  destruct rt; try discriminate H. destruct pl as [| |lv| | |]; try discriminate H. destruct lv as [|v lv]; try discriminate H.
  cbn [rec_img snd] in Hi. inversion Hi as [|? ? Hv _]; subst.
  bind_inv_as H a2 E2. destruct a2 as [[rt2 pl2] st2].
  apply (next_img _ _ _ Hst1) in E2 as [Hr2 Hst2].
  assert (Hi2 : rec_img (rt2, pl2)) by (rewrite Hr2; apply Hst1).
  destruct rt2; try discriminate H. destruct pl2 as [| |d| | |]; try discriminate H.
  bind_inv_as H ds E0. apply (dates_of_img _ _ Hi2) in E0.
  bind_inv_as H a3 E3. destruct a3 as [[name units] structs].
  eapply lib_loop_img in E3; [|exact Hst2|exact I|exact I|constructor]. destruct E3 as (Hn & Hu & Hss).
  destruct name as [nm|]; [|discriminate H]. destruct units as [[u0 u1]|]; [|discriminate H].
  inversion H; subst. cbn in Hn, Hu. destruct Hu as [Hu0 Hu1].
  unfold lib_img. cbn [l_name l_version l_dates l_units l_structs fst snd].
  split; [exact Hn|]. split; [exact Hv|]. split; [exact E0|]. split; [exact Hu0|]. split; [exact Hu1|exact Hss].
Qed.

Theorem read_lib_img bs l : bytes_ok bs -> read_lib bs = Ok l -> lib_img l.
Proof.
  intros Hb. unfold read_lib, read_lib_fuel. intros H.
  bind_inv_as H a E. destruct a as [r bs'].
  pose proof (read_record_wp bs) as W. rewrite E in W. cbn in W. destruct W as [Hs _].
  destruct (read_record_img _ _ _ Hb E) as [Hi Hb'].
  eapply parse_lib_img; [|exact H]. repeat split; assumption.
Qed.


(** * The known-finding class of C10, stated on the library the reader returned:
      some real-valued field is +-2^252 = 16^63 (the double (252+1023) * 2^52), which no GDSII
      real can represent. *)
Definition max_real_bits : Z := 5742089524897382400.
Definition is_max_real (x : Z) : bool := (x =? max_real_bits) || (x =? max_real_bits + two63).
Definition known_class_c10b (l : library) : bool := existsb is_max_real (lib_reals l).
Definition KnownClass_C10 (l : library) : Prop := known_class_c10b l = true.

(** the eight words of C15's excluded class decode to it *)
Lemma decode_max w : word64 w -> gds_exp7 w = 127 -> two56 - 4 <= gds_mant w -> is_max_real (gds_decode w) = true.
Proof.
  intros Hw He Hm. destruct (word_fields w Hw) as (Heq & _ & Hmr).
  rewrite He in Heq. set (m := gds_mant w) in *.
  assert (Hcases : m = two56 - 4 \/ m = two56 - 3 \/ m = two56 - 2 \/ m = two56 - 1) by (unfold two56 in *; lia).
  unfold sbit in Heq. clearbody m.
  destruct (gds_sign w); destruct Hcases as [-> | [-> | [-> | ->]]]; rewrite Heq; vm_compute; reflexivity.
Qed.

Lemma real_img_rt x : real_img x -> is_max_real x = false -> real_rt x.
Proof.
  intros (w & Hw & ->) Hn. unfold real_rt, gds_encode.
  apply decode_reencode_stable_below_max; [exact Hw|].
  intros [H1 H2]. rewrite (decode_max w Hw H1 H2) in Hn. discriminate Hn.
Qed.

(** * Consequences of [lib_img] *)
Lemma Forall_flat_map {A B} (P : B -> Prop) (f : A -> list B) l :
  Forall (fun a => Forall P (f a)) l -> Forall P (flat_map f l).
Proof. induction 1; cbn; [constructor|]. apply Forall_app. split; assumption. Qed.

Lemma forallb_of_Forall {A} (p : A -> bool) (P : A -> Prop) l :
  (forall a, P a -> p a = true) -> Forall P l -> forallb p l = true.
Proof. intros Hp. induction 1 as [|a l Ha Hl IH]; cbn; [reflexivity|]. rewrite (Hp _ Ha), IH. reflexivity. Qed.

Lemma existsb_false_Forall {A} (p : A -> bool) l : Forall (fun a => p a = false) l -> existsb p l = false.
Proof. induction 1 as [|a l Ha Hl IH]; cbn; [reflexivity|]. rewrite Ha, IH. reflexivity. Qed.

Lemma struct_img_strings s : struct_img s -> Forall str_img (struct_strings s).
Proof.
  intros (Hn & _ & He). unfold struct_strings. constructor; [exact Hn|].
  apply Forall_flat_map. eapply Forall_impl; [|exact He]. intros e (_ & H & _). exact H.
Qed.
Lemma lib_img_strings l : lib_img l -> Forall str_img (lib_strings l).
Proof.
  intros (Hn & _ & _ & _ & _ & Hs). unfold lib_strings. constructor; [exact Hn|].
  apply Forall_flat_map. eapply Forall_impl; [|exact Hs]. apply struct_img_strings.
Qed.

Theorem lib_img_not_known_c01 l : lib_img l -> ~ KnownClass_C01 l.
Proof.
  intros H. unfold KnownClass_C01, known_class_c01b.
  rewrite existsb_false_Forall; [discriminate|].
  eapply Forall_impl; [|apply lib_img_strings; exact H]. intros s (_ & Hs & _). exact Hs.
Qed.

Theorem lib_img_shape l : lib_img l -> lib_shape_ok l.
Proof.
  intros (Hn & Hv & Hd & _ & _ & Hs). unfold lib_shape_ok, lib_shapeb, lib_okb_with.
  rewrite (str_img_okb _ Hn), Hv, Hd. cbn [andb].
  apply (forallb_of_Forall _ struct_img); [|exact Hs].
  intros s (Hsn & Hsd & He). unfold struct_okb_with. rewrite (str_img_okb _ Hsn), Hsd. cbn [andb].
  apply (forallb_of_Forall _ elem_img); [|exact He]. intros e (H & _). exact H.
Qed.

Theorem lib_img_reals l : lib_img l -> Forall real_img (lib_reals l).
Proof.
  intros (_ & _ & _ & Hu0 & Hu1 & Hs). unfold lib_reals. constructor; [exact Hu0|]. constructor; [exact Hu1|].
  apply Forall_flat_map. eapply Forall_impl; [|exact Hs]. intros s (_ & _ & He).
  apply Forall_flat_map. eapply Forall_impl; [|exact He]. intros e (_ & _ & H & _). exact H.
Qed.

(** ** every record of the re-written library fits the 16-bit length field *)
Lemma fits_str rt s : arm_of rt = Some (DStr, LAny) -> gds_strlen s + 4 <= 65535 -> rec_fitsb (r_str rt s) = true.
Proof.
  intros Ha Hs. unfold rec_fitsb, rec_len, r_str. cbn [fst snd]. rewrite Ha. apply Z.leb_le. exact Hs.
Qed.
Lemma flat_points_len l : zlen (flat_points l) = 2 * zlen l.
Proof.
  unfold zlen, flat_points. induction l as [|p l IH]; cbn [flat_map length app flat_point]; [reflexivity|].
  cbn [length] in *. lia.
Qed.
Lemma fits_xy l : 8 * zlen l + 4 <= 65535 -> rec_fitsb (r_xy l) = true.
Proof.
  intros H. unfold rec_fitsb, rec_len, r_xy. cbn [fst snd arm_of]. apply Z.leb_le. rewrite flat_points_len. lia.
Qed.

Lemma fits_props ps : Forall prop_img ps -> forallb rec_fitsb (flat_props ps) = true.
Proof.
  induction 1 as [|p ps [_ (_ & _ & Hs)] _ IH]; [reflexivity|].
  unfold flat_props in *. cbn [flat_map app forallb]. rewrite IH, (fits_str PropValue _ eq_refl Hs). reflexivity.
Qed.

Lemma prop_img_of_okb_strings ps :
  forallb prop_okb ps = true -> Forall str_img (props_strings ps) -> Forall prop_img ps.
Proof.
  induction ps as [|p ps IH]; [constructor|]. unfold props_strings. cbn [forallb map].
  intros H Hs. apply andb_true_iff in H as [H1 H2]. inversion Hs; subst.
  constructor; [|apply IH; assumption]. split; [|assumption].
  unfold prop_okb in H1. apply andb_true_iff in H1 as [H1 _]. exact H1.
Qed.

Ltac fits_tac :=
  repeat rewrite forallb_app; cbn [forallb];
  repeat match goal with
         | |- context [rec_fitsb (r_str ?rt ?s)] => rewrite (fits_str rt s eq_refl) by assumption
         | |- context [rec_fitsb (r_xy ?l)] => rewrite (fits_xy l) by (assumption || (unfold zlen; cbn [length]; lia))
         | |- context [forallb rec_fitsb (flat_props ?ps)] => rewrite (fits_props ps) by assumption
         end;
  reflexivity.

Lemma fits_element e : elem_img e -> forallb rec_fitsb (flat_element e) = true.
Proof.
  intros (Hok & Hstr & _ & Hxy).
  destruct e as [x|x|x|x|x|x|x]; cbn [flat_element] in *;
    cbn [element_okb_with element_strings element_xy_count] in *.
  - unfold boundary_okb in Hok. rewrite !andb_true_iff in Hok. destruct Hok as (_ & Hp).
    pose proof (prop_img_of_okb_strings _ Hp Hstr) as Hps.
    unfold flat_boundary, flat_head, flat_tail, opt_rec.
    destruct (b_elflags x), (b_plex x); fits_tac.
  - unfold path_okb in Hok. rewrite !andb_true_iff in Hok. destruct Hok as (_ & Hp).
    pose proof (prop_img_of_okb_strings _ Hp Hstr) as Hps.
    unfold flat_path, flat_head, flat_tail, opt_rec.
    destruct (p_elflags x), (p_plex x), (p_width x), (p_path_type x), (p_begin_extn x), (p_end_extn x); fits_tac.
  - unfold sref_okb_with in Hok. rewrite !andb_true_iff in Hok. destruct Hok as (_ & Hp).
    inversion Hstr as [|? ? (_ & _ & Hn) Hstr']; subst.
    pose proof (prop_img_of_okb_strings _ Hp Hstr') as Hps.
    unfold flat_sref, flat_head, flat_tail, flat_ostrans, flat_strans, opt_rec.
    destruct (sr_elflags x), (sr_plex x), (sr_strans x) as [[q1 q2 q3 [mg|] [an|]]|];
      cbn [st_mag st_angle st_reflected st_abs_mag st_abs_angle]; fits_tac.
  - unfold aref_okb_with in Hok. rewrite !andb_true_iff in Hok. destruct Hok as (_ & Hp).
    inversion Hstr as [|? ? (_ & _ & Hn) Hstr']; subst.
    pose proof (prop_img_of_okb_strings _ Hp Hstr') as Hps.
    unfold flat_aref, flat_head, flat_tail, flat_ostrans, flat_strans, opt_rec.
    destruct (ar_elflags x), (ar_plex x), (ar_strans x) as [[q1 q2 q3 [mg|] [an|]]|];
      cbn [st_mag st_angle st_reflected st_abs_mag st_abs_angle]; fits_tac.
  - unfold text_okb_with in Hok. rewrite !andb_true_iff in Hok. destruct Hok as (_ & Hp).
    inversion Hstr as [|? ? (_ & _ & Hn) Hstr']; subst.
    pose proof (prop_img_of_okb_strings _ Hp Hstr') as Hps.
    unfold flat_text, flat_head, flat_tail, flat_ostrans, flat_strans, opt_rec.
    destruct (t_elflags x), (t_plex x), (t_presentation x), (t_path_type x), (t_width x), (t_strans x) as [[q1 q2 q3 [mg|] [an|]]|];
      cbn [st_mag st_angle st_reflected st_abs_mag st_abs_angle]; fits_tac.
  - unfold node_okb in Hok. rewrite !andb_true_iff in Hok. destruct Hok as (_ & Hp).
    pose proof (prop_img_of_okb_strings _ Hp Hstr) as Hps.
    unfold flat_node, flat_head, flat_tail, opt_rec.
    destruct (n_elflags x), (n_plex x); fits_tac.
  - unfold box_okb in Hok. rewrite !andb_true_iff in Hok. destruct Hok as (_ & Hp).
    pose proof (prop_img_of_okb_strings _ Hp Hstr) as Hps.
    unfold flat_box, flat_head, flat_tail, opt_rec.
    destruct (x_elflags x), (x_plex x); fits_tac.
Qed.

Lemma forallb_flat_map {A B} (p : B -> bool) (f : A -> list B) l :
  forallb p (flat_map f l) = forallb (fun a => forallb p (f a)) l.
Proof. induction l as [|a l IH]; cbn; [reflexivity|]. rewrite forallb_app, IH. reflexivity. Qed.

Lemma fits_struct s : struct_img s -> forallb rec_fitsb (flat_struct s) = true.
Proof.
  intros ((_ & _ & Hn) & _ & He). unfold flat_struct.
  rewrite !forallb_app. cbn [forallb]. rewrite (fits_str StructName _ eq_refl Hn).
  rewrite forallb_flat_map, (forallb_of_Forall _ elem_img _ fits_element He). reflexivity.
Qed.

Theorem lib_img_fits l : lib_img l -> lib_fitsb l = true.
Proof.
  intros ((_ & _ & Hn) & _ & _ & _ & _ & Hs). unfold lib_fitsb, flatten_lib.
  rewrite !forallb_app. cbn [forallb]. rewrite (fits_str LibName _ eq_refl Hn).
  rewrite forallb_flat_map, (forallb_of_Forall _ struct_img _ fits_struct Hs). reflexivity.
Qed.

(** * What C10 needs from the reader side, in one statement *)
Theorem read_image bs l : bytes_ok bs -> read_lib bs = Ok l ->
  lib_shape_ok l /\ ~ KnownClass_C01 l /\ lib_fitsb l = true /\
  (exists bs', write_lib l = Ok bs') /\
  (~ KnownClass_C10 l -> forall x, In x (lib_reals l) -> real_rt x).
Proof.
  intros Hb H. pose proof (read_lib_img _ _ Hb H) as Hi.
  split; [apply lib_img_shape; exact Hi|]. split; [apply lib_img_not_known_c01; exact Hi|].
  pose proof (lib_img_fits _ Hi) as Hf. split; [exact Hf|]. split.
  - eexists. rewrite GdsW_write_lib_eq, Hf. reflexivity.
  - intros Hk x Hx. pose proof (lib_img_reals _ Hi) as Hr. rewrite Forall_forall in Hr.
    apply real_img_rt; [apply Hr; exact Hx|].
    destruct (is_max_real x) eqn:E; [|reflexivity]. exfalso. apply Hk.
    unfold KnownClass_C10, known_class_c10b. apply existsb_exists. exists x. auto.
Qed.

(** deciding [bytes_ok] *)
Lemma bytes_okb_ok l : forallb byte_okb l = true -> bytes_ok l.
Proof.
  unfold bytes_ok. induction l as [|x l IH]; cbn [forallb]; [constructor|].
  intros H. apply andb_true_iff in H as [Hx Hl]. constructor; [|apply IH; exact Hl].
  unfold byte_okb in Hx. apply andb_true_iff in Hx as [H0 H1]. unfold byte_ok. lia.
Qed.

(** [KnownClass_C10] spelled out: some real-valued field (units, STRANS magnification or angle) is the
    double 2^252 or -2^252 *)
Lemma known_class_c10_spec l :
  KnownClass_C10 l <->
  exists x, In x (lib_reals l) /\ (x = 5742089524897382400 \/ x = 5742089524897382400 + 9223372036854775808).
Proof.
  unfold KnownClass_C10, known_class_c10b. rewrite existsb_exists. unfold is_max_real, max_real_bits, two63.
  split; intros (x & Hx & H); exists x; (split; [exact Hx|]).
  - apply orb_true_iff in H. rewrite !Z.eqb_eq in H. exact H.
  - apply orb_true_iff. rewrite !Z.eqb_eq. exact H.
Qed.
