(** C03: the error KIND for well-formed optional library-level records. When every optional record
    is one gds21's record decoder accepts ([optrec_goodb]: integers in range, strings valid UTF-8 that
    fit and are not in the known class, LIBSECUR carrying exactly one integer as gds21's arm
    `(LibSecur, I16, 2)` demands), the first of them makes parse_lib answer `GdsError::Unsupported`
    (`Parse` for MASK / ENDMASKS, which only follow FORMAT in the grammar and have no arm). *)
From Coq Require Import ZArith Bool List Lia.
From L21 Require Import Base.Outcome Base.Hex Base.F64 Gds.GdsReal Gds.GdsData Gds.GdsRecord
  Gds.GdsWrite Gds.GdsRead Gds.GdsSpec Gds.GdsRtDefs Gds.GdsBytes_proofs Gds.GdsWrite_proofs
  Gds.GdsRtUnfold_proofs Gds.GdsRtRead_proofs Gds.GdsRoundtrip_proofs.
Import ListNotations.
Local Open Scope Z_scope.
Local Open Scope outcome_scope.

Definition optrec_rec (o : optrec) : record :=
  match o with
  | OLibDirSize n => r_i16 LibDirSize n | OSrfName s => r_str SrfName s | OLibSecur l => (LibSecur, PI16 l)
  | ORefLibs s => r_str RefLibs s | OFonts s => r_str Fonts s | OAttrTable s => r_str AttrTable s
  | OGenerations n => r_i16 Generations n | OFormat n => r_i16 Format n | OMask s => r_str Mask s
  | OEndMasks => r_none EndMasks
  end.
Definition optrec_goodb (o : optrec) : bool := rec_goodb (optrec_rec o).

Lemma GdsRtK_srec o : optrec_goodb o = true -> GdsW_srec_of (optrec_rec o) = optrec_srec o.
Proof.
  destruct o; cbn [optrec_rec optrec_srec]; intros H;
    try (unfold x_libdirsize, x_generations, x_format; apply GdsW_s_i16; reflexivity);
    try (unfold x_srfname, x_reflibs, x_fonts, x_attrtable, x_mask; apply GdsW_s_str; reflexivity);
    try reflexivity.
  (* LIBSECUR: good only with one integer *)
  unfold optrec_goodb, rec_goodb, rec_fitsb, rec_len in H. cbn [optrec_rec fst snd arm_of] in H.
  destruct (Z.eqb_spec (2 * zlen l) 2) as [E|E]; [|discriminate H].
  destruct l as [|x [|y l]]; unfold zlen in E; cbn [length] in E; try lia. reflexivity.
Qed.
Lemma GdsRtK_shaped o : optrec_goodb o = true -> GdsW_shapedb (optrec_rec o) = true.
Proof.
  unfold optrec_goodb, rec_goodb, rec_fitsb, GdsW_shapedb. destruct (rec_len (optrec_rec o)); [reflexivity | discriminate].
Qed.
Lemma GdsRtK_render os :
  forallb optrec_goodb os = true -> render_srecs (map optrec_srec os) = flat_map encb (map optrec_rec os).
Proof.
  unfold render_srecs. induction os as [|o os IH]; cbn [forallb map flat_map]; [reflexivity|].
  rewrite andb_true_iff. intros [H1 H2]. rewrite <- (GdsRtK_srec o H1), (GdsW_render_srec_of _ (GdsRtK_shaped o H1)), (IH H2). reflexivity.
Qed.
Lemma GdsRtK_noEnd os : noEnd (map optrec_rec os) = true.
Proof. unfold noEnd. rewrite forallb_forall. intros r Hr. apply in_map_iff in Hr. destruct Hr as (o & <- & _). destruct o; reflexivity. Qed.
Lemma GdsRtK_good os : forallb optrec_goodb os = true -> forallb rec_goodb (map optrec_rec os) = true.
Proof. induction os as [|o os IH]; cbn [forallb map]; [reflexivity|]. rewrite !andb_true_iff. intros [H1 H2]. auto. Qed.

Lemma wfRb_app_intro a rs : forallb rec_goodb a = true -> noEnd a = true -> wfRb rs = true -> wfRb (a ++ rs) = true.
Proof.
  induction a as [|r a IH]; cbn [forallb noEnd app]; [auto|]. rewrite !andb_true_iff, negb_true_iff. intros [Hg Hga] [He Hea] Hw.
  specialize (IH Hga Hea Hw). cbn [wfRb]. rewrite Hg, He, IH. cbn [andb negb].
  destruct (a ++ rs) eqn:E; [discriminate IH | reflexivity].
Qed.

Lemma GdsRtK_lib_loop f o r rs tail name units structs :
  wfRb (optrec_rec o :: r :: rs) = true ->
  lib_loop true (S f) (stR (optrec_rec o :: r :: rs) tail) name units structs = Err (optrec_error o).
Proof.
  intros Hw. rewrite GdsRt_lib_loop_S, GdsRt_next; [| exact Hw | destruct o; reflexivity]. cbn [obind].
  destruct o; try reflexivity.
  (* LIBSECUR *)
  pose proof (wfRb_hd_good _ _ Hw) as Hg. unfold rec_goodb, rec_fitsb, rec_len in Hg. cbn [optrec_rec fst snd arm_of] in Hg.
  destruct (Z.eqb_spec (2 * zlen l) 2) as [E|E]; [|discriminate Hg].
  cbn [optrec_error]. replace (zlen l =? 1) with true by (symmetry; apply Z.eqb_eq; lia). reflexivity.
Qed.

Theorem GdsRt_unsupported_kind l (pre post : list optrec) tail :
  lib_ok l -> ~ KnownClass_C01 l -> lib_fitsb l = true ->
  forallb optrec_goodb (pre ++ post) = true -> pre ++ post <> [] ->
  read_lib (spec_render_with (map optrec_srec pre) (map optrec_srec post) l ++ tail) =
  Err (optrec_error (hd OEndMasks (pre ++ post))).
Proof.
  intros Hok Hk Hf Hg Hne. pose proof (GdsRt_lib_ok_shape l Hok) as Hs.
  pose proof (GdsRt_wfRb_lib l Hs (GdsRt_not_known l Hk) Hf) as Hw.
  rewrite forallb_app in Hg. apply andb_true_iff in Hg. destruct Hg as [Hgpre Hgpost].
  (* the stream as encoded records *)
  set (RS := r_i16 Header (l_version l) :: (BgnLib, PI16 (flat_dates (l_dates l))) ::
             map optrec_rec pre ++ r_str LibName (l_name l) ::
             map optrec_rec post ++ (Units, PF64 [fst (l_units l); snd (l_units l)]) ::
             flat_map flat_struct (l_structs l) ++ [r_none EndLib]).
  (* the records read back *)
  unfold flatten_lib in Hw. cbn [app] in Hw.
  destruct (wfRb_cons _ _ Hw eq_refl) as (_ & Hw1 & Hg0). destruct (wfRb_cons _ _ Hw1 eq_refl) as (_ & Hw2 & Hg1).
  destruct (wfRb_cons _ _ Hw2 eq_refl) as (_ & Hw3 & Hg2).
  assert (HwP : wfRb (map optrec_rec post ++ (Units, PF64 [fst (l_units l); snd (l_units l)]) ::
                      flat_map flat_struct (l_structs l) ++ [r_none EndLib]) = true)
    by (apply wfRb_app_intro; [apply GdsRtK_good, Hgpost | apply GdsRtK_noEnd | exact Hw3]).
  assert (HwN : wfRb (r_str LibName (l_name l) :: map optrec_rec post ++ (Units, PF64 [fst (l_units l); snd (l_units l)]) ::
                      flat_map flat_struct (l_structs l) ++ [r_none EndLib]) = true)
    by (apply (wfRb_app_intro [r_str LibName (l_name l)]); [cbn [forallb]; rewrite Hg2; reflexivity | reflexivity | exact HwP]).
  assert (HwQ : wfRb (map optrec_rec pre ++ r_str LibName (l_name l) :: map optrec_rec post ++
                      (Units, PF64 [fst (l_units l); snd (l_units l)]) :: flat_map flat_struct (l_structs l) ++ [r_none EndLib]) = true)
    by (apply wfRb_app_intro; [apply GdsRtK_good, Hgpre | apply GdsRtK_noEnd | exact HwN]).
  assert (HwB : wfRb (tl RS) = true)
    by (apply (wfRb_app_intro [(BgnLib, PI16 (flat_dates (l_dates l)))]); [cbn [forallb]; rewrite Hg1; reflexivity | reflexivity | exact HwQ]).
  assert (HwR : wfRb RS = true)
    by (apply (wfRb_app_intro [r_i16 Header (l_version l)]); [cbn [forallb]; rewrite Hg0; reflexivity | reflexivity | exact HwB]).
  assert (Hbytes : spec_render_with (map optrec_srec pre) (map optrec_srec post) l = flat_map encb RS).
  { assert (Hr : forall x, In x (lib_reals l) -> gds_encode x = gds_spec_encode x)
      by (intros x Hx; apply GdsW_real_ok_encode, (GdsRt_lib_ok_reals l Hok x Hx)).
    assert (Hmap : forall os, forallb optrec_goodb os = true -> map GdsW_srec_of (map optrec_rec os) = map optrec_srec os).
    { intros os Hos. rewrite map_map. apply map_ext_in. intros o Ho. apply GdsRtK_srec.
      rewrite forallb_forall in Hos. apply Hos, Ho. }
    unfold spec_render_with. rewrite <- (GdsW_render_srecs_of RS).
    2:{ apply (GdsW_forallb_impl rec_goodb); [|apply wfRb_all_good, HwR].
        intros r _. unfold rec_goodb, rec_fitsb, GdsW_shapedb. destruct (rec_len r); [reflexivity | discriminate]. }
    f_equal. subst RS. unfold g_library_with. cbn [map app]. repeat (rewrite map_app; cbn [map app]).
    rewrite (Hmap pre Hgpre), (Hmap post Hgpost).
    rewrite GdsW_s_i16, GdsW_s_dates, GdsW_s_str, GdsW_s_none by reflexivity.
    rewrite GdsW_s_units by (apply Hr; unfold lib_reals; cbn; auto).
    rewrite GdsW_map_structs by (intros x Hx; apply Hr; unfold lib_reals; right; right; exact Hx).
    rewrite <- ?app_assoc. reflexivity. }
  rewrite Hbytes. unfold read_lib, read_lib_fuel, read_fuel.
  subst RS. cbn [flat_map tl] in *. rewrite <- app_assoc.
  rewrite GdsRt_read_record by exact Hg0. cbn [obind].
  set (f := Nat.div _ 4).
  change (parse_lib true (S (S (S f)))
            (stR (r_i16 Header (l_version l) :: (BgnLib, PI16 (flat_dates (l_dates l))) ::
                  map optrec_rec pre ++ r_str LibName (l_name l) :: map optrec_rec post ++
                  (Units, PF64 [fst (l_units l); snd (l_units l)]) :: flat_map flat_struct (l_structs l) ++ [r_none EndLib]) tail)
          = Err (optrec_error (hd OEndMasks (pre ++ post)))).
  unfold parse_lib. rewrite GdsRt_next by first [exact HwR | reflexivity]. cbn [obind].
  change (rd_rec (r_i16 Header (l_version l))) with (Header, PI16 [l_version l]). cbv iota beta.
  rewrite GdsRt_next by first [exact HwB | reflexivity]. cbn [obind].
  change (rd_rec (BgnLib, PI16 (flat_dates (l_dates l)))) with (BgnLib, PI16 (flat_dates (l_dates l))). cbv iota beta.
  rewrite GdsRt_dates_of. cbn [obind].
  destruct pre as [|o pre]; cbn [map app hd] in *.
  - (* after LIBNAME *)
    destruct post as [|o post]; [exfalso; apply Hne; reflexivity|]. cbn [map app hd] in *.
    rewrite GdsRt_lib_loop_S, GdsRt_next by first [exact HwN | reflexivity]. cbn [obind].
    change (rd_rec (r_str LibName (l_name l))) with (LibName, PStr (l_name l)). cbv iota beta.
    destruct (map optrec_rec post ++ (Units, PF64 [fst (l_units l); snd (l_units l)]) :: flat_map flat_struct (l_structs l) ++ [r_none EndLib]) as [|r rs] eqn:E;
      [destruct post; discriminate E|].
    rewrite GdsRtK_lib_loop by exact HwP. reflexivity.
  - destruct (map optrec_rec pre ++ r_str LibName (l_name l) :: map optrec_rec post ++ (Units, PF64 [fst (l_units l); snd (l_units l)]) ::
              flat_map flat_struct (l_structs l) ++ [r_none EndLib]) as [|r rs] eqn:E;
      [destruct pre; discriminate E|].
    rewrite GdsRtK_lib_loop by exact HwQ. reflexivity.
Qed.
