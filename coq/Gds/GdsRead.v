(** Model of gds21/src/read.rs: GdsReader (bytes -> records) and GdsParser (records -> library).

    GdsReader over a `Cursor<&[u8]>`: the state is the list of remaining bytes. `read_exact`
    on too few bytes is `Err(Boxed(io::Error))`.
    [read_header] = read_record_header; [read_content] = read_record_content, keyed on
    (record type, data type, length) through table [arm_of] (GdsRecord.v; checked against the
    match arms of the Rust source by the generated tables). Index accesses the code performs on
    the decoded vectors (`[0]`, `[1]`, `try_into().unwrap()`) are checked: [Panic] if absent.
    [read_str]: the boolean [fixed] selects the code after the repair (`len > 0 &&` guard, the
    main definition) or the code as found (`data[len - 1]` with `len = 0`: usize underflow, Panic).

    GdsParser: state [pstate] = look-ahead record + remaining bytes. [next] returns the
    look-ahead and reads one more record, except at EndLib. The seven element parsers
    (parse_boundary .. parse_array_ref) are one loop [parse_elem] indexed by the element kind:
    [accepts] lists, per kind, exactly the record types with a match arm in that parser, a builder
    is the list of fields set so far (last setter wins), [build_elem] is `b.build()?`
    (missing required field: `Err(Str)`). Loops take explicit fuel; [OutOfFuel] is distinct.
    The `ctx` stack, `numread` and byte positions only feed error messages and are not modelled;
    errors are compared by `GdsError` variant only. No proofs in this file. *)
From Coq Require Import ZArith Bool List.
From L21 Require Import Base.Outcome Base.Hex Gds.GdsReal Gds.GdsData Gds.GdsRecord.
Import ListNotations.
Local Open Scope Z_scope.
Local Open Scope outcome_scope.

Definition res := outcome ekind.

(** * GdsReader *)
(** `read_exact` of [n] bytes *)
Fixpoint take (n : nat) (bs : bytes) : option (bytes * bytes) :=
  match n with
  | O => Some ([], bs)
  | S k => match bs with
           | [] => None
           | b :: r => match take k r with Some (a, r') => Some (b :: a, r') | None => None end
           end
  end.
Definition read_exact (len : Z) (bs : bytes) : res (bytes * bytes) :=
  match take (Z.to_nat len) bs with Some x => Ok x | None => Err EBoxed end.

(** `read_i16_into` / `read_i32_into` / `read_u64_into`: big-endian groups; bytes that do not
    fill a group are ignored (`vec![0; len / k]`). *)
Fixpoint pairs16 (bs : bytes) : list Z :=
  match bs with b0 :: b1 :: r => i16_of b0 b1 :: pairs16 r | _ => [] end.
Fixpoint quads32 (bs : bytes) : list Z :=
  match bs with b0 :: b1 :: b2 :: b3 :: r => i32_of b0 b1 b2 b3 :: quads32 r | _ => [] end.
Fixpoint octs64 (bs : bytes) : list Z :=
  match bs with
  | b0 :: b1 :: b2 :: b3 :: b4 :: b5 :: b6 :: b7 :: r =>
    (u32_of b0 b1 b2 b3 * 4294967296 + u32_of b4 b5 b6 b7) :: octs64 r
  | _ => []
  end.

(** read_record_header: (record type, data type, payload length) *)
Definition read_header (bs : bytes) : res (rtype * dtype * Z * bytes) :=
  match bs with
  | b0 :: b1 :: r1 =>
    let num := u16_of b0 b1 in
    if num <? 4 then Err ERecordLen
    else if negb (num mod 2 =? 0) then Err ERecordLen
    else match r1 with
         | [] => Err EBoxed
         | rt :: r2 =>
           match rtype_of_Z rt with
           | None => Err EInvalidRecordType
           | Some rty =>
             if negb (rtype_valid rty) then Err EInvalidRecordType
             else match r2 with
                  | [] => Err EBoxed
                  | dt :: r3 =>
                    match dtype_of_Z dt with
                    | None => Err EInvalidDataType
                    | Some d => Ok (rty, d, num - 4, r3)
                    end
                  end
           end
         end
  | _ => Err EBoxed
  end.

Section Reader.
(** [fixed = true]: the code after the repair of read_str; [false]: the code as found. *)
Variable fixed : bool.

(** read_str *)
Definition read_str (len : Z) (bs : bytes) : res (bytes * bytes) :=
  let? (data, r) := read_exact len bs in
  if negb fixed && (len =? 0) then Panic (* data[len - 1]: `attempt to subtract with overflow` *)
  else
    let data' := if (0 <? len) && (last data 1 =? 0) then removelast data else data in
    if utf8_valid data' then Ok (data', r) else Err EBoxed.

(** the vector accesses of an arm of fixed length: [n] elements must be there *)
Definition need (n : Z) (l : list Z) : res (list Z) :=
  if n <=? Z.of_nat (length l) then Ok l else Panic.

Definition len_matches (ls : lenspec) (len : Z) : bool :=
  match ls with LFixed n => n =? len | LAny => true end.
Definition fixed_count (ls : lenspec) (size : Z) : Z :=
  match ls with LFixed n => n / size | LAny => 0 end.

(** read_record_content *)
Definition read_content (rt : rtype) (dt : dtype) (len : Z) (bs : bytes) : res (record * bytes) :=
  match arm_of rt with
  | None => Err ERecordDecode
  | Some (d, ls) =>
    if negb (dtype_eqb d dt && len_matches ls len) then Err ERecordDecode
    else match d with
         | DNoData => Ok ((rt, PNone), bs)
         | DBitArray =>
           let? (data, r) := read_exact len bs in (* read_bytes *)
           match data with
           | b0 :: b1 :: _ => Ok ((rt, PBits b0 b1), r)
           | _ => Panic
           end
         | DI16 =>
           let? (data, r) := read_exact len bs in
           let? v := need (fixed_count ls 2) (pairs16 data) in
           Ok ((rt, PI16 v), r)
         | DI32 =>
           let? (data, r) := read_exact len bs in
           let? v := need (fixed_count ls 4) (quads32 data) in
           Ok ((rt, PI32 v), r)
         | DF64 =>
           (* read_u64_into of len/8 words straight from the source *)
           let? (data, r) := read_exact (8 * (len / 8)) bs in
           let? v := need (fixed_count ls 8) (map gds_decode (octs64 data)) in
           Ok ((rt, PF64 v), r)
         | DStr =>
           let? (s, r) := read_str len bs in
           Ok ((rt, PStr s), r)
         | DF32 => Err ERecordDecode
         end
  end.

(** read_record *)
Definition read_record (bs : bytes) : res (record * bytes) :=
  let? (rt, dt, len, r) := read_header bs in
  read_content rt dt len r.

(** * GdsParser *)
Record pstate := mkSt { nxt : record; rest : bytes }.

(** GdsParser::next *)
Definition next (st : pstate) : res (record * pstate) :=
  if is_endlib (nxt st) then Ok (nxt st, st)
  else
    let? (r, bs') := read_record (rest st) in
    Ok (nxt st, mkSt r bs').

(** GdsPoint::parse_vec / GdsPoint::parse *)
Fixpoint pair_points (l : list Z) : list point :=
  match l with x :: y :: r => mkPt x y :: pair_points r | _ => [] end.
Definition parse_vec (l : list Z) : res (list point) :=
  if Z.of_nat (length l) mod 2 =? 0 then Ok (pair_points l) else Err EStr.
Definition parse_point (l : list Z) : res point :=
  match l with [x; y] => Ok (mkPt x y) | _ => Err EStr end.

(** parse_datetimes: twelve i16 *)
Definition dates_of (l : list Z) : res datetimes :=
  match l with
  | [a0; a1; a2; a3; a4; a5; b0; b1; b2; b3; b4; b5] =>
    Ok (mkDTs (mkDT a0 a1 a2 a3 a4 a5) (mkDT b0 b1 b2 b3 b4 b5))
  | _ => Panic
  end.

(** parse_strans: flag bits, then MAG / ANGLE records in any order and number *)
Fixpoint strans_loop (f : nat) (st : pstate) (s : strans) : res (strans * pstate) :=
  match f with
  | O => OutOfFuel
  | S f' =>
    match nxt st with
    | (Mag, PF64 (d :: _)) =>
      let? (_, st1) := next st in
      strans_loop f' st1 (mkStrans (st_reflected s) (st_abs_mag s) (st_abs_angle s) (Some d) (st_angle s))
    | (Angle, PF64 (d :: _)) =>
      let? (_, st1) := next st in
      strans_loop f' st1 (mkStrans (st_reflected s) (st_abs_mag s) (st_abs_angle s) (st_mag s) (Some d))
    | _ => Ok (s, st)
    end
  end.
Definition parse_strans (f : nat) (st : pstate) (d0 d1 : Z) : res (strans * pstate) :=
  strans_loop f st (mkStrans (Z.testbit d0 7) (Z.testbit d1 2) (Z.testbit d1 1) None None).

(** parse_property *)
Definition parse_property (st : pstate) (attr : Z) : res (property * pstate) :=
  let? (r, st1) := next st in
  match r with
  | (PropValue, PStr v) => Ok (mkProp attr v, st1)
  | _ => Err EParse
  end.

(** ** Elements *)
Inductive elkind := KBoundary | KPath | KSref | KAref | KText | KNode | KBox.

(** the record types with a match arm in each element parser (besides EndElement) *)
Definition accepted (k : elkind) : list rtype :=
  match k with
  | KBoundary => [Layer; DataType; Xy; Plex; ElemFlags; PropAttr]
  | KPath => [Layer; DataType; Xy; Width; PathType; BeginExtn; EndExtn; Plex; ElemFlags; PropAttr]
  | KText => [Layer; TextType; Xy; RString; Presentation; PathType; Width; Plex; ElemFlags; Strans; PropAttr]
  | KNode => [Layer; Nodetype; Xy; Plex; ElemFlags; PropAttr]
  | KBox => [Layer; BoxType; Xy; Plex; ElemFlags; PropAttr]
  | KSref => [StructRefName; Xy; Plex; ElemFlags; Strans; PropAttr]
  | KAref => [StructRefName; ColRow; Xy; Plex; ElemFlags; Strans; PropAttr]
  end.
Definition accepts (k : elkind) (rt : rtype) : bool := existsb (rtype_eqb rt) (accepted k).

(** builder: the fields set so far, most recent first *)
Inductive fval := VZ (z : Z) | VPair (a b : Z) | VPts (l : list point) | VStr (s : bytes) | VStrans (s : strans).
Definition builder := list (rtype * fval).
Fixpoint bfind (rt : rtype) (b : builder) : option fval :=
  match b with
  | [] => None
  | (r, v) :: b' => if rtype_eqb r rt then Some v else bfind rt b'
  end.
(** required fields: `build()` fails with a String, i.e. GdsError::Str *)
Definition req_z (rt : rtype) (b : builder) : res Z :=
  match bfind rt b with Some (VZ z) => Ok z | _ => Err EStr end.
Definition req_pts (b : builder) : res (list point) :=
  match bfind Xy b with Some (VPts l) => Ok l | _ => Err EStr end.
Definition req_pt (b : builder) : res point :=
  match bfind Xy b with Some (VPts [p]) => Ok p | _ => Err EStr end.
Definition req_str (rt : rtype) (b : builder) : res bytes :=
  match bfind rt b with Some (VStr s) => Ok s | _ => Err EStr end.
Definition opt_z (rt : rtype) (b : builder) : option Z :=
  match bfind rt b with Some (VZ z) => Some z | _ => None end.
Definition opt_bits (rt : rtype) (b : builder) : option bits2 :=
  match bfind rt b with Some (VPair x y) => Some (x, y) | _ => None end.
Definition opt_strans (b : builder) : option strans :=
  match bfind Strans b with Some (VStrans s) => Some s | _ => None end.

(** the value a field record contributes ([Xy] depends on the element kind) *)
Definition field_of (k : elkind) (r : record) : res fval :=
  match r with
  | (Xy, PI32 l) =>
    match k with
    | KText | KSref => let? p := parse_point l in Ok (VPts [p])
    | KBox => let? v := parse_vec l in if Z.of_nat (length v) =? 5 then Ok (VPts v) else Err EParse
    | KAref => let? v := parse_vec l in if Z.of_nat (length v) =? 3 then Ok (VPts v) else Err EParse
    | _ => let? v := parse_vec l in Ok (VPts v)
    end
  | (ColRow, PI16 (c :: rw :: _)) => Ok (VPair c rw)
  | (_, PI16 (d :: _)) => Ok (VZ d)
  | (_, PI32 (d :: _)) => Ok (VZ d)
  | (_, PBits b0 b1) => Ok (VPair b0 b1)
  | (_, PStr s) => Ok (VStr s)
  | _ => Panic
  end.

(** `b.build()?` then `.into()` *)
Definition build_elem (k : elkind) (b : builder) (props : list property) : res element :=
  match k with
  | KBoundary =>
    let? layer := req_z Layer b in let? dt := req_z DataType b in let? xy := req_pts b in
    Ok (EBoundary (mkBoundary layer dt xy (opt_bits ElemFlags b) (opt_z Plex b) props))
  | KPath =>
    let? layer := req_z Layer b in let? dt := req_z DataType b in let? xy := req_pts b in
    Ok (EPath (mkPath layer dt xy (opt_z Width b) (opt_z PathType b) (opt_z BeginExtn b) (opt_z EndExtn b)
                      (opt_bits ElemFlags b) (opt_z Plex b) props))
  | KSref =>
    let? name := req_str StructRefName b in let? xy := req_pt b in
    Ok (ESref (mkSref name xy (opt_strans b) (opt_bits ElemFlags b) (opt_z Plex b) props))
  | KAref =>
    let? name := req_str StructRefName b in let? xy := req_pts b in
    match bfind ColRow b with
    | Some (VPair c rw) =>
      Ok (EAref (mkAref name xy c rw (opt_strans b) (opt_bits ElemFlags b) (opt_z Plex b) props))
    | _ => Err EStr
    end
  | KText =>
    let? s := req_str RString b in let? layer := req_z Layer b in let? ty := req_z TextType b in
    let? xy := req_pt b in
    Ok (EText (mkText s layer ty xy (opt_bits Presentation b) (opt_z PathType b) (opt_z Width b) (opt_strans b)
                      (opt_bits ElemFlags b) (opt_z Plex b) props))
  | KNode =>
    let? layer := req_z Layer b in let? nt := req_z Nodetype b in let? xy := req_pts b in
    Ok (ENode (mkNode layer nt xy (opt_bits ElemFlags b) (opt_z Plex b) props))
  | KBox =>
    let? layer := req_z Layer b in let? bt := req_z BoxType b in let? xy := req_pts b in
    Ok (EBox (mkBox layer bt xy (opt_bits ElemFlags b) (opt_z Plex b) props))
  end.

(** parse_boundary, parse_path, parse_text_elem, parse_node, parse_box, parse_struct_ref, parse_array_ref.
    One iteration of the loop is [parse_elem_body], with [rec] standing for the rest of the loop
    (fuel [f']); [parse_elem] ties the knot. (Split in two so that unfolding [parse_elem] in proofs
    does not duplicate the fixpoint in every branch of the compiled pattern matching; the function
    is the same.) *)
Definition parse_elem_body (rec : elkind -> pstate -> builder -> list property -> res (element * pstate))
           (f' : nat) (k : elkind) (st : pstate) (b : builder) (props : list property)
  : res (element * pstate) :=
  let? (r, st1) := next st in
  match r with
  | (EndElement, _) => let? e := build_elem k b props in Ok (e, st1)
  | (rt, pl) =>
    if negb (accepts k rt) then Err EParse (* self.invalid(r) *)
    else match r with
         | (Strans, PBits d0 d1) =>
           let? (s, st2) := parse_strans f' st1 d0 d1 in
           rec k st2 ((Strans, VStrans s) :: b) props
         | (PropAttr, PI16 (attr :: _)) =>
           let? (p, st2) := parse_property st1 attr in
           rec k st2 b (props ++ [p])
         | _ =>
           let? v := field_of k r in
           rec k st1 ((rt, v) :: b) props
         end
  end.
Fixpoint parse_elem (f : nat) (k : elkind) (st : pstate) (b : builder) (props : list property)
  : res (element * pstate) :=
  match f with
  | O => OutOfFuel
  | S f' => parse_elem_body (parse_elem f') f' k st b props
  end.

Definition elkind_of (rt : rtype) : option elkind :=
  match rt with
  | Boundary => Some KBoundary | Text => Some KText | Path => Some KPath | RBox => Some KBox
  | StructRef => Some KSref | ArrayRef => Some KAref | Node => Some KNode
  | _ => None
  end.

(** the element loop of parse_struct *)
Fixpoint struct_loop (f : nat) (st : pstate) : res (list element * pstate) :=
  match f with
  | O => OutOfFuel
  | S f' =>
    let? (r, st1) := next st in
    match fst r with
    | EndStruct => Ok ([], st1)
    | rt =>
      match elkind_of rt with
      | None => Err EParse
      | Some k =>
        let? (e, st2) := parse_elem f' k st1 [] [] in
        let? (es, st3) := struct_loop f' st2 in
        Ok (e :: es, st3)
      end
    end
  end.

(** parse_struct *)
Definition parse_struct (f : nat) (st : pstate) (dates : list Z) : res (gstruct * pstate) :=
  let? ds := dates_of dates in
  let? (r, st1) := next st in
  match r with
  | (StructName, PStr name) =>
    let? (es, st2) := struct_loop f st1 in
    Ok (mkStruct name ds es, st2)
  | _ => Err EParse
  end.

Definition unsupported_lib (rt : rtype) : bool :=
  match rt with
  | LibDirSize | SrfName | LibSecur | RefLibs | Fonts | AttrTable | Generations | Format => true
  | _ => false
  end.

(** the main loop of parse_lib; name and units are builder fields (last setter wins) *)
Fixpoint lib_loop (f : nat) (st : pstate) (name : option bytes) (units : option (Z * Z))
         (structs : list gstruct) : res (option bytes * option (Z * Z) * list gstruct) :=
  match f with
  | O => OutOfFuel
  | S f' =>
    let? (r, st1) := next st in
    match r with
    | (EndLib, _) => Ok (name, units, structs)
    | (LibName, PStr d) => lib_loop f' st1 (Some d) units structs
    | (Units, PF64 (d0 :: d1 :: _)) => lib_loop f' st1 name (Some (d0, d1)) structs
    | (BgnStruct, PI16 dates) =>
      let? (s, st2) := parse_struct f' st1 dates in
      lib_loop f' st2 name units (structs ++ [s])
    | (rt, _) => if unsupported_lib rt then Err EUnsupported else Err EParse
    end
  end.

(** parse_lib *)
Definition parse_lib (f : nat) (st : pstate) : res library :=
  let? (r, st1) := next st in
  match r with
  | (Header, PI16 (v :: _)) =>
    let? (r2, st2) := next st1 in
    match r2 with
    | (BgnLib, PI16 d) =>
      let? ds := dates_of d in
      let? (name, units, structs) := lib_loop f st2 None None [] in
      match name, units with
      | Some n, Some u => Ok (mkLib n v ds u structs)
      | _, _ => Err EStr (* lib.build()? *)
      end
    | _ => Err EParse
    end
  | _ => Err EParse
  end.

(** GdsLibrary::from_bytes = GdsParser::from_bytes(bytes)?.parse_lib() *)
Definition read_lib_fuel (f : nat) (bs : bytes) : res library :=
  let? (r, bs') := read_record bs in
  parse_lib f (mkSt r bs').

End Reader.

(** Every record takes at least four bytes, every loop iteration reads one record. *)
Definition read_fuel (bs : bytes) : nat := S (S (S (Nat.div (length bs) 4))).

(** The reader after the repair of read_str (main definition) and as found. *)
Definition read_lib (bs : bytes) : res library := read_lib_fuel true (read_fuel bs) bs.
Definition read_lib_orig (bs : bytes) : res library := read_lib_fuel false (read_fuel bs) bs.
