(** Model of gds21/src/data.rs: GdsFloat64::decode / GdsFloat64::encode.

    Doubles and GDSII reals are 64-bit words over Z. Every float operation the
    Rust code performs is given its exact Z semantics here:

    decode:  `mantissa as f64`            -- the only rounding step (RNE to 53 bits)
             `/ 2f64.powi(56)`, `* 16f64.powi(exp)`  -- exact (powers of two, no under/overflow
                                             because 2^-312 <= result <= 2^252)
    encode:  `0.25*val.log2()`, `ceil`    -- libm; NOT modelled: the estimate is the parameter [est]
             clamp + two correction loops -- exact comparisons with powers of sixteen
             `val * 16f64.powi(14-exp)`   -- exact (power of two)
             `.round()`                   -- round half away from zero, to an integer
             `as u64`                     -- saturating
    No proofs in this file. *)
From Coq Require Import ZArith Bool Lia.
From L21 Require Import Base.F64.
Local Open Scope Z_scope.

(** * GDSII eight-byte real: fields *)
Definition gds_sign (w : Z) : bool := two63 <=? w.
Definition gds_exp7 (w : Z) : Z := (w / two56) mod 128.
Definition gds_mant (w : Z) : Z := w mod two56.
(** exact value of [w] is (-1)^sign * gds_mant w * 2^(gds_e2 w) *)
Definition gds_e2 (w : Z) : Z := 4 * (gds_exp7 w - 64) - 56.
Definition gds_normalised (w : Z) : Prop := two52 <= gds_mant w.

(** * decode *)
(** [u64 as f64]: round a positive integer M < 2^56 to 53 significant bits, nearest-even.
    Returns (m, k): the value is m * 2^(k-52) with 2^52 <= m < 2^53. *)
Definition rne53 (M : Z) : Z * Z :=
  let k := Z.log2 M in
  if k <=? 52 then (M * 2 ^ (52 - k), k)
  else
    let sh := k - 52 in
    let q := M / 2 ^ sh in
    let r := M mod 2 ^ sh in
    let half := 2 ^ (sh - 1) in
    let q' := if (half <? r) || ((half =? r) && Z.odd q) then q + 1 else q in
    if q' =? two53 then (two52, k + 1) else (q', k).

Definition gds_decode (w : Z) : Z :=
  let s := gds_sign w in
  let M := gds_mant w in
  if M =? 0 then (if s then two63 else 0)
  else
    let '(m, k) := rne53 M in
    f64_of_norm s m (k - 52 + gds_e2 w).

(** * encode *)
(** m * 2^e < 2^p, for m >= 0, decided without fractions *)
Definition dy_lt_pow2 (m e p : Z) : bool :=
  m * 2 ^ (Z.max 0 (e - p)) <? 2 ^ (Z.max 0 (p - e)).

(** round-half-away of the non-negative dyadic m * 2^sh *)
Definition rha (m sh : Z) : Z :=
  if 0 <=? sh then m * 2 ^ sh else (m + 2 ^ (- sh - 1)) / 2 ^ (- sh).

Definition clampZ (lo hi x : Z) : Z := Z.max lo (Z.min hi x).

(** `while exponent > -64 && val < 16^(exponent-1) { exponent -= 1 }` *)
Fixpoint adj_down (fuel : nat) (m e ex : Z) : Z :=
  match fuel with
  | O => ex
  | S f => if (-64 <? ex) && dy_lt_pow2 m e (4 * (ex - 1)) then adj_down f m e (ex - 1) else ex
  end.
(** `while exponent < 63 && val >= 16^exponent { exponent += 1 }` *)
Fixpoint adj_up (fuel : nat) (m e ex : Z) : Z :=
  match fuel with
  | O => ex
  | S f => if (ex <? 63) && negb (dy_lt_pow2 m e (4 * ex)) then adj_up f m e (ex + 1) else ex
  end.

(** The loops run on the range -64..63, so 128 iterations always suffice
    (lemma [adj_fuel_enough] in GdsReal_proofs.v). *)
Definition adj_fuel : nat := 128.

Definition gds_exponent (est m e : Z) : Z :=
  adj_up adj_fuel m e (adj_down adj_fuel m e (clampZ (-64) 63 est)).

(** [est] is the integer the code derives from libm's log2. [x] is the bit pattern of the
    double. NaN and infinities are outside the model (result 0, never generated). *)
Definition gds_encode_with (est : Z) (x : Z) : Z :=
  match f64_decomp x with
  | None => 0
  | Some (s, m, e) =>
    if m =? 0 then 0
    else
      let ex := gds_exponent est m e in
      let mant := Z.min (rha m (e + 56 - 4 * ex)) (two64 - 1) in
      ((if s then 128 else 0) + (64 + ex)) * two56 + mant mod two56
  end.

(** For running the model any estimate will do (theorem [C15_encode_est_irrelevant]). *)
Definition gds_encode (x : Z) : Z := gds_encode_with 0 x.

(** * The code before the repair (kept to state the defect): no clamp, no loops.
    `top += (64 + exponent) as u8` wraps modulo 256 (and `top` cannot overflow for
    the witnesses used; the general case is not needed for the refutation). *)
Definition gds_encode_orig_with (est : Z) (x : Z) : Z :=
  match f64_decomp x with
  | None => 0
  | Some (s, m, e) =>
    if m =? 0 then 0
    else
      let mant := Z.min (rha m (e + 56 - 4 * est)) (two64 - 1) in
      (((if s then 128 else 0) + (64 + est) mod 256) mod 256) * two56 + mant mod two56
  end.

(** * Specification side: the normalised excess-64 base-16 representation, from the format. *)
(** True base-16 exponent of m*2^e (m>0): the unique E with 16^(E-1) <= m*2^e < 16^E.
    With t = Z.log2 m + e + 1 (so 2^(t-1) <= value < 2^t) it is ceil(t/4). *)
Definition true_exp16 (m e : Z) : Z :=
  let t := Z.log2 m + e + 1 in (t + 3) / 4.

(** The range of NORMALISED GDSII reals: exponent byte 0..127 with a mantissa in [1/16, 1), i.e.
    16^-65 <= |x| < 16^63, i.e. 2^-260 <= |x| < 2^252. (The lowest hex decade, [16^-65, 16^-64), is
    exponent byte 0 with a normalised mantissa: true base-16 exponent E = -64.)
    Until 2026-10-02 the lower bound here was 2^-256 = 16^-64, one hex decade narrower than the
    format; that predicate is kept as [in_gds_range_old] (it implies the present one, lemma
    [in_gds_range_old_incl] in GdsReal_proofs.v). *)
Definition in_gds_range (x : Z) : Prop :=
  exists s m e, f64_decomp x = Some (s, m, e) /\ 0 < m /\
    dy_lt_pow2 m e (-260) = false /\ dy_lt_pow2 m e 252 = true.

Definition in_gds_rangeb (x : Z) : bool :=
  match f64_decomp x with
  | Some (_, m, e) => (0 <? m) && negb (dy_lt_pow2 m e (-260)) && dy_lt_pow2 m e 252
  | None => false
  end.

Definition in_gds_range_old (x : Z) : Prop :=
  exists s m e, f64_decomp x = Some (s, m, e) /\ 0 < m /\
    dy_lt_pow2 m e (-256) = false /\ dy_lt_pow2 m e 252 = true.

(** The reference encoding of an in-range double, written from the format description:
    exponent byte 64+E, mantissa the exact integer value*16^(14-E). *)
Definition gds_spec_encode (x : Z) : Z :=
  match f64_decomp x with
  | None => 0
  | Some (s, m, e) =>
    if m =? 0 then 0 else
    let E := true_exp16 m e in
    ((if s then 128 else 0) + (64 + E)) * two56 + m * 2 ^ (e + 56 - 4 * E)
  end.
