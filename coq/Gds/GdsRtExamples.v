(** Concrete libraries used by the non-vacuity examples and witness lemmas of C01, C02, C03.
    Definitions only. Doubles are IEEE bit patterns. *)
From Coq Require Import ZArith Bool List String.
From L21 Require Import Base.Hex Base.F64 Gds.GdsData.
Import ListNotations.
Local Open Scope string_scope.
Local Open Scope list_scope.
Local Open Scope Z_scope.

Definition GdsRt_ex_dates : datetimes := mkDTs (mkDT 2024 2 29 23 59 58) (mkDT (-1) 13 0 0 (-32768) 32767).
(** reflected, absolute angle, magnification 2.5, angle 90.0 *)
Definition GdsRt_ex_strans : strans := mkStrans true false true (Some 0x4004000000000000) (Some 0x4056800000000000).
(** absolute magnification, magnification -0.75, no angle *)
Definition GdsRt_ex_strans2 : strans := mkStrans false true false (Some 0xBFE8000000000000) None.
(** "prop", the empty string, "é" (UTF-8, two bytes) *)
Definition GdsRt_ex_props : list property :=
  [mkProp 1 (unhex "70726f70"); mkProp (-32768) []; mkProp 32767 (unhex "c3a9")].

Definition GdsRt_ex_elements : list element :=
  [ EBoundary (mkBoundary 1 0 [mkPt 0 0; mkPt 10 0; mkPt 10 (-2147483648); mkPt 0 2147483647; mkPt 0 0]
                          (Some (128, 1)) (Some 7) GdsRt_ex_props);
    EPath (mkPath 2 (-1) [mkPt 0 0; mkPt (-5) 5] (Some 100) (Some 2) (Some (-3)) (Some 4) (Some (0, 0)) (Some (-1)) GdsRt_ex_props);
    ESref (mkSref (unhex "6368696c64") (mkPt 1 (-2)) (Some GdsRt_ex_strans) (Some (1, 2)) (Some 3) GdsRt_ex_props);
    EAref (mkAref (unhex "6368696c64") [mkPt 0 0; mkPt 100 0; mkPt 0 200] 4 (-1) (Some GdsRt_ex_strans2)
                  (Some (255, 255)) (Some 9) GdsRt_ex_props);
    EText (mkText (unhex "68c3a9") 5 6 (mkPt (-1) (-1)) (Some (0, 5)) (Some 1) (Some (-10)) (Some GdsRt_ex_strans)
                  (Some (0, 1)) (Some 2) GdsRt_ex_props);
    ENode (mkNode 7 8 [mkPt 0 0] (Some (1, 1)) (Some 1) GdsRt_ex_props);
    EBox (mkBox 9 10 [mkPt 0 0; mkPt 4 0; mkPt 4 4; mkPt 0 4; mkPt 0 0] (Some (2, 2)) (Some 4) GdsRt_ex_props);
    (* and the same kinds with no optional field at all *)
    EBoundary (mkBoundary 0 0 [] None None []);
    EPath (mkPath 0 0 [] None None None None None None []);
    ESref (mkSref [] (mkPt 0 0) None None None []);
    EAref (mkAref (unhex "61") [mkPt 0 0; mkPt 0 0; mkPt 0 0] 0 0 None None None []);
    EText (mkText [] 0 0 (mkPt 0 0) None None None None None None []);
    ENode (mkNode 0 0 [] None None []);
    EBox (mkBox 0 0 [mkPt 0 0; mkPt 0 0; mkPt 0 0; mkPt 0 0; mkPt 0 0] None None []) ].

(** every element kind, with every optional field present and with none; user unit 1e-3, database unit 1e-9 *)
Definition GdsRt_full_lib : library :=
  mkLib (unhex "6c6962") 600 GdsRt_ex_dates (0x3F50624DD2F1A9FC, 0x3E112E0BE826D695)
        [ mkStruct (unhex "746f70") GdsRt_ex_dates GdsRt_ex_elements;
          mkStruct (unhex "6368696c64") GdsRt_ex_dates [] ].

(** a magnification of -0.0: reads back as +0.0 *)
Definition GdsRt_negzero_lib : library :=
  mkLib (unhex "6c") 3 GdsRt_ex_dates (0x3F50624DD2F1A9FC, 0x3E112E0BE826D695)
        [ mkStruct (unhex "63") GdsRt_ex_dates
            [ ESref (mkSref (unhex "64") (mkPt 0 0) (Some (mkStrans false false false (Some two63) (Some 0))) None None []) ] ].

(** the known-finding class: library name "a\0" (even length, last byte NUL) *)
Definition GdsRt_known_lib : library :=
  mkLib [97; 0] 3 GdsRt_ex_dates (0x3F50624DD2F1A9FC, 0x3E112E0BE826D695) [].
(** what comes back: name "a" *)
Definition GdsRt_known_lib_read : library :=
  mkLib [97] 3 GdsRt_ex_dates (0x3F50624DD2F1A9FC, 0x3E112E0BE826D695) [].

(** an empty library name: the reader as found panicked on it *)
Definition GdsRt_empty_name_lib : library :=
  mkLib [] 3 GdsRt_ex_dates (0x3F50624DD2F1A9FC, 0x3E112E0BE826D695) [].

(** a structure name of 65532 bytes: payload + 4 = 65536 does not fit the length field *)
Definition GdsRt_long_lib : library :=
  mkLib (unhex "6c") 3 GdsRt_ex_dates (0x3F50624DD2F1A9FC, 0x3E112E0BE826D695)
        [ mkStruct (repeat 65 65532%nat) GdsRt_ex_dates [] ].
(** 8191 points: 65528 + 4 bytes, the longest coordinate list that fits *)
Definition GdsRt_max_xy_lib : library :=
  mkLib (unhex "6c") 3 GdsRt_ex_dates (0x3F50624DD2F1A9FC, 0x3E112E0BE826D695)
        [ mkStruct (unhex "63") GdsRt_ex_dates [ EBoundary (mkBoundary 0 0 (repeat (mkPt 1 (-1)) 8191%nat) None None []) ] ].
