(** Model of gds21/src/write.rs.
    [flatten_*] = trait Encode (encode_lib .. encode_strans, encode_datetimes): library -> records,
    in the order the code emits them. [enc_record] = GdsWriter::write_record_header +
    write_record_content. [write_lib] = GdsLibrary::write into a Vec<u8>: the bytes, or the first
    error (`GdsError::RecordLen` when payload length + 4 does not fit u16); bytes written before an
    error are not part of the result. I/O errors of the destination are outside the model
    (a Vec never fails). No proofs in this file. *)
From Coq Require Import ZArith Bool List.
From L21 Require Import Base.Outcome Base.Hex Gds.GdsReal Gds.GdsData Gds.GdsRecord.
Import ListNotations.
Local Open Scope Z_scope.

(** * Encode: library -> records *)
Definition flat_datetime (d : datetime) : list Z :=
  [dt_year d; dt_month d; dt_day d; dt_hour d; dt_minute d; dt_second d].
(** encode_datetimes *)
Definition flat_dates (d : datetimes) : list Z := flat_datetime (d_modified d) ++ flat_datetime (d_accessed d).

Definition opt_rec {A} (f : A -> record) (o : option A) : list record :=
  match o with Some x => [f x] | None => [] end.
Definition r_i16 (rt : rtype) (v : Z) : record := (rt, PI16 [v]).
Definition r_i32 (rt : rtype) (v : Z) : record := (rt, PI32 [v]).
Definition r_bits (rt : rtype) (b : bits2) : record := (rt, PBits (fst b) (snd b)).
Definition r_f64 (rt : rtype) (v : Z) : record := (rt, PF64 [v]).
Definition r_str (rt : rtype) (s : bytes) : record := (rt, PStr s).
Definition r_none (rt : rtype) : record := (rt, PNone).

(** GdsPoint::flatten / flatten_vec *)
Definition flat_point (p : point) : list Z := [px p; py p].
Definition flat_points (l : list point) : list Z := flat_map flat_point l.
Definition r_xy (l : list point) : record := (Xy, PI32 (flat_points l)).

Definition flat_props (ps : list property) : list record :=
  flat_map (fun p => [r_i16 PropAttr (pr_attr p); r_str PropValue (pr_value p)]) ps.

(** encode_strans: `(reflected as u8) << 7`, `(abs_mag as u8) << 2 | (abs_angle as u8) << 1` *)
Definition flat_strans (s : strans) : list record :=
  (Strans, PBits (if st_reflected s then 128 else 0)
                 ((if st_abs_mag s then 4 else 0) + (if st_abs_angle s then 2 else 0)))
  :: opt_rec (r_f64 Mag) (st_mag s) ++ opt_rec (r_f64 Angle) (st_angle s).
Definition flat_ostrans (s : option strans) : list record :=
  match s with Some s => flat_strans s | None => [] end.

Definition flat_head (rt : rtype) (fl : option bits2) (pl : option Z) : list record :=
  r_none rt :: opt_rec (r_bits ElemFlags) fl ++ opt_rec (r_i32 Plex) pl.
Definition flat_tail (ps : list property) : list record := flat_props ps ++ [r_none EndElement].

Definition flat_boundary (e : boundary) : list record :=
  flat_head Boundary (b_elflags e) (b_plex e) ++
  [r_i16 Layer (b_layer e); r_i16 DataType (b_datatype e); r_xy (b_xy e)] ++ flat_tail (b_props e).

Definition flat_path (e : path) : list record :=
  flat_head Path (p_elflags e) (p_plex e) ++
  [r_i16 Layer (p_layer e); r_i16 DataType (p_datatype e)] ++
  opt_rec (r_i16 PathType) (p_path_type e) ++ opt_rec (r_i32 Width) (p_width e) ++
  opt_rec (r_i32 BeginExtn) (p_begin_extn e) ++ opt_rec (r_i32 EndExtn) (p_end_extn e) ++
  [r_xy (p_xy e)] ++ flat_tail (p_props e).

Definition flat_sref (e : sref) : list record :=
  flat_head StructRef (sr_elflags e) (sr_plex e) ++
  [r_str StructRefName (sr_name e)] ++ flat_ostrans (sr_strans e) ++
  [r_xy [sr_xy e]] ++ flat_tail (sr_props e).

Definition flat_aref (e : aref) : list record :=
  flat_head ArrayRef (ar_elflags e) (ar_plex e) ++
  [r_str StructRefName (ar_name e)] ++ flat_ostrans (ar_strans e) ++
  [(ColRow, PI16 [ar_cols e; ar_rows e]); r_xy (ar_xy e)] ++ flat_tail (ar_props e).

Definition flat_text (e : textelem) : list record :=
  flat_head Text (t_elflags e) (t_plex e) ++
  [r_i16 Layer (t_layer e); r_i16 TextType (t_texttype e)] ++
  opt_rec (r_bits Presentation) (t_presentation e) ++ opt_rec (r_i16 PathType) (t_path_type e) ++
  opt_rec (r_i32 Width) (t_width e) ++ flat_ostrans (t_strans e) ++
  [r_xy [t_xy e]; r_str RString (t_string e)] ++ flat_tail (t_props e).

Definition flat_node (e : node) : list record :=
  flat_head Node (n_elflags e) (n_plex e) ++
  [r_i16 Layer (n_layer e); r_i16 Nodetype (n_nodetype e); r_xy (n_xy e)] ++ flat_tail (n_props e).

Definition flat_box (e : gbox) : list record :=
  flat_head RBox (x_elflags e) (x_plex e) ++
  [r_i16 Layer (x_layer e); r_i16 BoxType (x_boxtype e); r_xy (x_xy e)] ++ flat_tail (x_props e).

Definition flat_element (e : element) : list record :=
  match e with
  | EBoundary x => flat_boundary x | EPath x => flat_path x | ESref x => flat_sref x | EAref x => flat_aref x
  | EText x => flat_text x | ENode x => flat_node x | EBox x => flat_box x
  end.

Definition flat_struct (s : gstruct) : list record :=
  [(BgnStruct, PI16 (flat_dates (s_dates s))); r_str StructName (s_name s)] ++
  flat_map flat_element (s_elems s) ++ [r_none EndStruct].

Definition flatten_lib (l : library) : list record :=
  [r_i16 Header (l_version l); (BgnLib, PI16 (flat_dates (l_dates l))); r_str LibName (l_name l);
   (Units, PF64 [fst (l_units l); snd (l_units l)])] ++
  flat_map flat_struct (l_structs l) ++ [r_none EndLib].

(** * GdsWriter: record -> bytes *)
Definition zlen {A} (l : list A) : Z := Z.of_nat (length l).
(** `gds_strlen = s.len() + s.len() % 2` *)
Definition gds_strlen (s : bytes) : Z := zlen s + zlen s mod 2.

(** the `len` of write_record_header; [None] = a shape the Rust type `GdsRecord` does not have *)
Definition rec_len (r : record) : option (dtype * Z) :=
  match arm_of (fst r), snd r with
  | Some (DNoData, LFixed n), PNone => Some (DNoData, n)
  | Some (DBitArray, LFixed n), PBits _ _ => Some (DBitArray, n)
  | Some (DI16, LFixed n), PI16 l => if 2 * zlen l =? n then Some (DI16, n) else None
  | Some (DI32, LFixed n), PI32 l => if 4 * zlen l =? n then Some (DI32, n) else None
  | Some (DF64, LFixed n), PF64 l => if 8 * zlen l =? n then Some (DF64, n) else None
  | Some (DStr, LAny), PStr s => Some (DStr, gds_strlen s)
  | Some (DI32, LAny), PI32 l => Some (DI32, 4 * zlen l)
  | _, _ => None
  end.

(** write_record_content, by payload *)
Definition enc_payload (p : payload) : bytes :=
  match p with
  | PNone => []
  | PBits b0 b1 => [b0; b1]
  | PI16 l => flat_map be16 l
  | PI32 l => flat_map be32 l
  | PF64 l => flat_map (fun x => be64 (gds_encode x)) l
  | PStr s => s ++ (if zlen s mod 2 =? 0 then [] else [0])
  end.

(** write_record: header (with the `u16::try_from(len + 4)` check) then content.
    [Panic] marks ill-shaped records, which are not values of the Rust type and never come out
    of [flatten_lib]. *)
Definition enc_record (r : record) : outcome ekind bytes :=
  match rec_len r with
  | None => Panic
  | Some (dt, len) =>
    if 65535 <? len + 4 then Err ERecordLen
    else Ok (be16 (len + 4) ++ [rtype_code (fst r); dtype_code dt] ++ enc_payload (snd r))
  end.

(** write_records / the sequence of encode_record calls: stop at the first error *)
Fixpoint write_records (rs : list record) : outcome ekind bytes :=
  match rs with
  | [] => Ok []
  | r :: rest =>
    match enc_record r with
    | Ok b => match write_records rest with Ok bs => Ok (b ++ bs) | e => e end
    | Err e => Err e
    | Panic => Panic
    | OutOfFuel => OutOfFuel
    end
  end.

Definition write_lib (l : library) : outcome ekind bytes := write_records (flatten_lib l).
