(** Reading of the generated GDSII-writer kernels (Gen/KernelsGdsWriteGen.v: gds21/src/write.rs, the provided methods of
    `trait Encode`: encode_lib, encode_struct, encode_element, encode_boundary, encode_path, encode_struct_ref,
    encode_array_ref, encode_text_elem, encode_node, encode_box, encode_strans, encode_datetime(s); gds21/src/data.rs
    GdsPoint::flatten / flatten_vec) at the level of the writer model Gds/GdsWrite.v:

    - [gw_xops]   outcomes [outcome ekind] (the model's [res]); integers = Z with the range checks of a debug build
                  (`<<` on u8 keeps the low eight bits and panics on a shift amount of 8 or more), doubles = their bit
                  patterns (no float operation occurs); no translated function of this unit produces an error of its own
                  ([k_fail] does not occur): errors come from the required method `encode_record` only;
    - `Self` ([T_Encode]) is ANY type [S] with ANY `encode_record` [emit : S -> record -> res S] (a [GdsWriter] writing bytes
      and failing with RecordLen, a [GdsRecordList] pushing onto a vector): the generated record value is handed to it as the
      model's [record] ([Grec]); `encode_records` is `encode_record` on each in turn ([emit_all]), as both impls have it;
    - strings = byte strings.
    No proofs in this file. *)
From Coq Require Import ZArith Bool List.
From L21 Require Import Base.KernelOps Base.KernelOpsX Base.KernelOpsS Base.KernelOpsL Base.Outcome Gen.KernelsGdsWriteGen.
From L21 Require Import Gds.GdsData Gds.GdsRecord Gds.GdsWrite.
Import ListNotations.
Local Open Scope Z_scope.

Definition gres (A : Type) : Type := outcome ekind A.
Definition gw_ret (A : Type) (a : A) : gres A := Ok a.
Definition gw_bind (A B : Type) (x : gres A) (f : A -> gres B) : gres B := obind x f.
Definition gw_pan (A : Type) : gres A := Panic.
Definition gw_chk (t : ity) (z : Z) : gres Z := if ity_in t z then Ok z else Panic.
Definition gw_bits (t : ity) : Z :=
  match t with Isize | Usize | U64 | I64 => 64 | I128 => 128 | I32 | U32 => 32 | I16 | U16 => 16 | U8 => 8 end.
(** two's-complement wrap into the type *)
Definition gw_wrap (t : ity) (z : Z) : Z :=
  let m := z mod 2 ^ gw_bits t in if ity_max t <? m then m - 2 ^ gw_bits t else m.
Definition gw_nof1 (x : Z) : gres Z := Panic.
Definition gw_nof2 (x y : Z) : gres Z := Panic.
Definition gw_get (A : Type) (l : list A) (i : Z) : gres A :=
  if i <? 0 then Panic else match nth_error l (Z.to_nat i) with Some x => Ok x | None => Panic end.
Definition gw_kops : kops gres Z Z :=
  {| k_ret := gw_ret; k_bind := gw_bind; k_panic := gw_pan;
     f_zero := 0; f_one := 0; f_lit := fun _ _ => 0;       (* no float literal occurs *)
     f_add := gw_nof2; f_sub := gw_nof2; f_mul := gw_nof2; f_div := gw_nof2; f_neg := gw_nof1;
     f_eq := fun _ _ => false; f_lt := fun _ _ => false; f_le := fun _ _ => false;
     KernelOps.f_round := gw_nof1; f_rem_euclid := gw_nof2;
     f_to_radians := gw_nof1; f_sin := gw_nof1; f_cos := gw_nof1;
     f_powi := fun _ _ => Panic;
     i_lit := fun z => z; i_minval := ity_min; i_maxval := ity_max;
     i_add := fun t a b => gw_chk t (a + b);
     i_sub := fun t a b => gw_chk t (a - b);
     i_mul := fun t a b => gw_chk t (a * b);
     i_div := fun t a b => if b =? 0 then Panic else gw_chk t (Z.quot a b);
     i_rem := fun t a b => if b =? 0 then Panic else gw_chk t (Z.rem a b);
     i_neg := fun t a => gw_chk t (- a);
     i_and := fun t a b => Ok (Z.land a b);
     i_or := fun t a b => Ok (Z.lor a b);
     i_shl := fun t a b => if (b <? 0) || (gw_bits t <=? b) then Panic else Ok (gw_wrap t (Z.shiftl a b));
     i_shr := fun t a b => if (b <? 0) || (gw_bits t <=? b) then Panic else Ok (Z.shiftr a b);
     i_min := Z.min; i_max := Z.max; i_eq := Z.eqb; i_lt := Z.ltb; i_le := Z.leb;
     i_cast := fun _ t z => Ok (gw_wrap t z);
     i_try_from := fun _ t z => if ity_in t z then Ok z else Panic;
     i_to_f := fun _ _ => Panic; f_to_i := fun _ _ => Panic;
     v_len := fun A l => Z.of_nat (List.length l); v_get := gw_get;
     k_for := fun Rt St => for_Z gw_ret gw_bind |}.
Definition gw_xops : kxops gres Z Z :=
  {| kx_base := gw_kops; k_fail := gw_pan;       (* does not occur in this unit *)
     k_unwrap := fun A x => match x with Err _ => Panic | y => y end;
     i_try_from_q := fun _ t z => if ity_in t z then Ok z else Panic;
     v_set := fun A l i x =>
       if (i <? 0) || (Z.of_nat (List.length l) <=? i) then Panic else Ok (k_list_set l (Z.to_nat i) x);
     v_insert := fun A l i x =>
       if (i <? 0) || (Z.of_nat (List.length l) <? i) then Panic else Ok (k_list_insert l (Z.to_nat i) x) |}.

(** * the model's data as the generated records *)
Definition Gpt (p : point) : gGdsPoint Z Z := mk_gGdsPoint (px p) (py p).
Definition Gprop (p : property) : gGdsProperty bytes Z Z := mk_gGdsProperty bytes (pr_attr p) (pr_value p).
Definition Gflags (b : bits2) : gGdsElemFlags Z Z := mk_gGdsElemFlags (fst b) (snd b).
Definition Gpres (b : bits2) : gGdsPresentation Z Z := mk_gGdsPresentation (fst b) (snd b).
Definition Gplex (z : Z) : gGdsPlex Z Z := mk_gGdsPlex z.
Definition Gstrans (s : strans) : gGdsStrans Z Z :=
  mk_gGdsStrans (st_reflected s) (st_abs_mag s) (st_abs_angle s) (st_mag s) (st_angle s).
Definition Gdt (d : datetime) : gGdsDateTime Z Z :=
  mk_gGdsDateTime (dt_year d) (dt_month d) (dt_day d) (dt_hour d) (dt_minute d) (dt_second d).
Definition Gdts (d : datetimes) : gGdsDateTimes Z Z := mk_gGdsDateTimes (Gdt (d_modified d)) (Gdt (d_accessed d)).
Definition Gboundary (e : boundary) : gGdsBoundary bytes Z Z :=
  mk_gGdsBoundary bytes (b_layer e) (b_datatype e) (map Gpt (b_xy e)) (option_map Gflags (b_elflags e))
                  (option_map Gplex (b_plex e)) (map Gprop (b_props e)).
Definition Gpath (e : path) : gGdsPath bytes Z Z :=
  mk_gGdsPath bytes (p_layer e) (p_datatype e) (map Gpt (p_xy e)) (p_width e) (p_path_type e) (p_begin_extn e) (p_end_extn e)
              (option_map Gflags (p_elflags e)) (option_map Gplex (p_plex e)) (map Gprop (p_props e)).
Definition Gsref (e : sref) : gGdsStructRef bytes Z Z :=
  mk_gGdsStructRef bytes (sr_name e) (Gpt (sr_xy e)) (option_map Gstrans (sr_strans e)) (option_map Gflags (sr_elflags e))
                   (option_map Gplex (sr_plex e)) (map Gprop (sr_props e)).
Definition Garef (e : aref) : gGdsArrayRef bytes Z Z :=
  mk_gGdsArrayRef bytes (ar_name e) (map Gpt (ar_xy e)) (ar_cols e) (ar_rows e) (option_map Gstrans (ar_strans e))
                  (option_map Gflags (ar_elflags e)) (option_map Gplex (ar_plex e)) (map Gprop (ar_props e)).
Definition Gtext (e : textelem) : gGdsTextElem bytes Z Z :=
  mk_gGdsTextElem bytes (t_string e) (t_layer e) (t_texttype e) (Gpt (t_xy e)) (option_map Gpres (t_presentation e))
                  (t_path_type e) (t_width e) (option_map Gstrans (t_strans e)) (option_map Gflags (t_elflags e))
                  (option_map Gplex (t_plex e)) (map Gprop (t_props e)).
Definition Gnode (e : node) : gGdsNode bytes Z Z :=
  mk_gGdsNode bytes (n_layer e) (n_nodetype e) (map Gpt (n_xy e)) (option_map Gflags (n_elflags e))
              (option_map Gplex (n_plex e)) (map Gprop (n_props e)).
Definition Gbox (e : gbox) : gGdsBox bytes Z Z :=
  mk_gGdsBox bytes (x_layer e) (x_boxtype e) (map Gpt (x_xy e)) (option_map Gflags (x_elflags e))
             (option_map Gplex (x_plex e)) (map Gprop (x_props e)).
Definition Gelement (e : element) : gGdsElement bytes Z Z :=
  match e with
  | EBoundary x => gGdsElement_GdsBoundary bytes (Gboundary x)
  | EPath x => gGdsElement_GdsPath bytes (Gpath x)
  | ESref x => gGdsElement_GdsStructRef bytes (Gsref x)
  | EAref x => gGdsElement_GdsArrayRef bytes (Garef x)
  | EText x => gGdsElement_GdsTextElem bytes (Gtext x)
  | ENode x => gGdsElement_GdsNode bytes (Gnode x)
  | EBox x => gGdsElement_GdsBox bytes (Gbox x)
  end.
Definition Gstruct (s : gstruct) : gGdsStruct bytes Z Z :=
  mk_gGdsStruct bytes (s_name s) (Gdts (s_dates s)) (map Gelement (s_elems s)).
Definition Gunsupp : gUnsupported Z Z := mk_gUnsupported.
Definition Glib (l : library) : gGdsLibrary bytes Z Z :=
  mk_gGdsLibrary bytes (l_name l) (l_version l) (Gdts (l_dates l)) (mk_gGdsUnits (fst (l_units l)) (snd (l_units l)))
                 (map Gstruct (l_structs l)) Gunsupp Gunsupp Gunsupp Gunsupp Gunsupp Gunsupp Gunsupp Gunsupp.

(** a value of the Rust enum `GdsRecord` as the model's [record] *)
Definition Grec (r : gGdsRecord bytes Z Z) : record :=
  match r with
  | gGdsRecord_Header _ v => (Header, PI16 [v])
  | gGdsRecord_BgnLib _ d => (BgnLib, PI16 d)
  | gGdsRecord_LibName _ s => (LibName, PStr s)
  | gGdsRecord_Units _ a b => (Units, PF64 [a; b])
  | gGdsRecord_EndLib _ => (EndLib, PNone)
  | gGdsRecord_BgnStruct _ d => (BgnStruct, PI16 d)
  | gGdsRecord_StructName _ s => (StructName, PStr s)
  | gGdsRecord_StructRefName _ s => (StructRefName, PStr s)
  | gGdsRecord_EndStruct _ => (EndStruct, PNone)
  | gGdsRecord_Boundary _ => (Boundary, PNone)
  | gGdsRecord_Path _ => (Path, PNone)
  | gGdsRecord_StructRef _ => (StructRef, PNone)
  | gGdsRecord_ArrayRef _ => (ArrayRef, PNone)
  | gGdsRecord_Text _ => (Text, PNone)
  | gGdsRecord_Layer _ v => (Layer, PI16 [v])
  | gGdsRecord_DataType _ v => (DataType, PI16 [v])
  | gGdsRecord_Width _ v => (Width, PI32 [v])
  | gGdsRecord_Xy _ l => (Xy, PI32 l)
  | gGdsRecord_EndElement _ => (EndElement, PNone)
  | gGdsRecord_ColRow _ c r => (ColRow, PI16 [c; r])
  | gGdsRecord_Node _ => (Node, PNone)
  | gGdsRecord_TextType _ v => (TextType, PI16 [v])
  | gGdsRecord_Presentation _ a b => (Presentation, PBits a b)
  | gGdsRecord_String _ s => (RString, PStr s)
  | gGdsRecord_Strans _ a b => (Strans, PBits a b)
  | gGdsRecord_Mag _ v => (Mag, PF64 [v])
  | gGdsRecord_Angle _ v => (Angle, PF64 [v])
  | gGdsRecord_RefLibs _ s => (RefLibs, PStr s)
  | gGdsRecord_Fonts _ s => (Fonts, PStr s)
  | gGdsRecord_PathType _ v => (PathType, PI16 [v])
  | gGdsRecord_Generations _ v => (Generations, PI16 [v])
  | gGdsRecord_AttrTable _ s => (AttrTable, PStr s)
  | gGdsRecord_ElemFlags _ a b => (ElemFlags, PBits a b)
  | gGdsRecord_Nodetype _ v => (Nodetype, PI16 [v])
  | gGdsRecord_PropAttr _ v => (PropAttr, PI16 [v])
  | gGdsRecord_PropValue _ s => (PropValue, PStr s)
  | gGdsRecord_Box _ => (RBox, PNone)
  | gGdsRecord_BoxType _ v => (BoxType, PI16 [v])
  | gGdsRecord_Plex _ v => (Plex, PI32 [v])
  | gGdsRecord_BeginExtn _ v => (BeginExtn, PI32 [v])
  | gGdsRecord_EndExtn _ v => (EndExtn, PI32 [v])
  | gGdsRecord_TapeNum _ v => (TapeNum, PI16 [v])
  | gGdsRecord_TapeCode _ l => (TapeCode, PI16 l)
  | gGdsRecord_Format _ v => (Format, PI16 [v])
  | gGdsRecord_Mask _ s => (Mask, PStr s)
  | gGdsRecord_EndMasks _ => (EndMasks, PNone)
  | gGdsRecord_LibDirSize _ v => (LibDirSize, PI16 [v])
  | gGdsRecord_SrfName _ s => (SrfName, PStr s)
  | gGdsRecord_LibSecur _ v => (LibSecur, PI16 [v])
  end.

(** * `Self` and its required methods *)
Section Emit.
Context {S : Type} (emit : S -> record -> gres S).
(** the records handed to `encode_record` one after the other, up to the first error *)
Fixpoint emit_all (s : S) (rs : list record) : gres S :=
  match rs with
  | [] => Ok s
  | r :: t => obind (emit s r) (fun s' => emit_all s' t)
  end.
Definition x_record (s : S) (r : gGdsRecord bytes Z Z) : gres S := emit s (Grec r).
Definition x_records (s : S) (rs : list (gGdsRecord bytes Z Z)) : gres S := emit_all s (map Grec rs).

Definition g_encode_strans (s : S) (x : strans) : gres S := g_Encode_encode_strans gw_xops S bytes x_record s (Gstrans x).
Definition g_encode_boundary (s : S) (x : boundary) : gres S := g_Encode_encode_boundary gw_xops S bytes x_record s (Gboundary x).
Definition g_encode_path (s : S) (x : path) : gres S := g_Encode_encode_path gw_xops S bytes x_record s (Gpath x).
Definition g_encode_struct_ref (s : S) (x : sref) : gres S := g_Encode_encode_struct_ref gw_xops S bytes x_record s (Gsref x).
Definition g_encode_array_ref (s : S) (x : aref) : gres S := g_Encode_encode_array_ref gw_xops S bytes x_record s (Garef x).
Definition g_encode_text_elem (s : S) (x : textelem) : gres S := g_Encode_encode_text_elem gw_xops S bytes x_record s (Gtext x).
Definition g_encode_node (s : S) (x : node) : gres S := g_Encode_encode_node gw_xops S bytes x_record s (Gnode x).
Definition g_encode_box (s : S) (x : gbox) : gres S := g_Encode_encode_box gw_xops S bytes x_record s (Gbox x).
Definition g_encode_element (s : S) (x : element) : gres S := g_Encode_encode_element gw_xops S bytes x_record s (Gelement x).
Definition g_encode_datetimes (s : S) (d : datetimes) : gres (list Z) := g_Encode_encode_datetimes gw_xops S s (Gdts d).
Definition g_encode_struct (s : S) (x : gstruct) : gres S := g_Encode_encode_struct gw_xops S bytes x_record x_records s (Gstruct x).
Definition g_encode_lib (s : S) (x : library) : gres S := g_Encode_encode_lib gw_xops S bytes x_record x_records s (Glib x).
End Emit.

(** the `Vec`s of a library in memory: `src.len() * 2` (the capacity computed by `GdsPoint::flatten_vec`) is a `usize` *)
Definition len2_ok {A : Type} (l : list A) : Prop := Z.of_nat (length l) * 2 <= 2 ^ 64 - 1.
Definition element_len_ok (e : element) : Prop :=
  match e with
  | EBoundary x => len2_ok (b_xy x) | EPath x => len2_ok (p_xy x) | ENode x => len2_ok (n_xy x) | EBox x => len2_ok (x_xy x)
  | EAref x => length (ar_xy x) = 3%nat       (* `[GdsPoint; 3]` *)
  | ESref _ | EText _ => True
  end.
Definition struct_len_ok (s : gstruct) : Prop := Forall element_len_ok (s_elems s).
Definition lib_len_ok (l : library) : Prop := Forall struct_len_ok (l_structs l).
