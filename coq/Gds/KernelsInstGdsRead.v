(** Reading of the generated GDSII-reader kernels (Gen/KernelsGdsReadGen.v: gds21/src/read.rs) at the level of the reader model
    Gds/GdsRead.v.  MONADIC SELF: the `GdsReader` over a `Cursor<&[u8]>` is the state of the effect, the list of the bytes
    not yet read: [rd A] = bytes -> outcome of (A, remaining bytes).

    - [rd_xops]   outcomes [outcome unit] (the error VALUE is abstract in the generated code: the model's `GdsError` variants
                  are compared through [ounit], which forgets them), integers = Z with the range checks of a debug build,
                  doubles = their bit patterns (no float operation occurs);
    - external (byte-level IO): `self.source.read_u16::<BigEndian>()` / `read_u8()` = two bytes / one byte off the input
      (too few: an error); the typed reads `read_i16 / read_i32 / read_f64 / read_bytes / read_str` = the model's
      [read_exact] followed by [pairs16] / [quads32] / [octs64] + [gds_decode] / nothing / the NUL stripping and UTF-8 check
      of [read_str] (the repaired variant); `FromPrimitive::from_u8` of the two enums = [rtype_of_Z] / [dtype_of_Z] (their
      numbering has its own tie: Gen/GdsTablesGen.v, C02_numbering_is_spec);
    - strings = byte strings.
    No proofs in this file. *)
From Coq Require Import ZArith Bool List.
From L21 Require Import Base.KernelOps Base.KernelOpsX Base.KernelOpsS Base.KernelOpsL Base.Outcome Gen.KernelsGdsReadGen.
From L21 Require Import Gds.GdsReal Gds.GdsData Gds.GdsRecord Gds.GdsRead.
Import ListNotations.
Local Open Scope Z_scope.

Definition ures (A : Type) : Type := outcome unit A.
(** forget the `GdsError` variant *)
Definition ounit {E A : Type} (x : outcome E A) : ures A :=
  match x with Ok a => Ok a | Err _ => Err tt | Panic => Panic | OutOfFuel => OutOfFuel end.
Definition rd (A : Type) : Type := bytes -> ures (A * bytes).
Definition rd_ret (A : Type) (a : A) : rd A := fun bs => Ok (a, bs).
Definition rd_bind (A B : Type) (x : rd A) (f : A -> rd B) : rd B :=
  fun bs => match x bs with Ok (a, bs') => f a bs' | Err e => Err e | Panic => Panic | OutOfFuel => OutOfFuel end.
Definition rd_pan (A : Type) : rd A := fun _ => Panic.
Definition rd_err (A : Type) : rd A := fun _ => Err tt.
Definition rd_chk (t : ity) (z : Z) : rd Z := if ity_in t z then rd_ret Z z else rd_pan Z.
Definition rd_nof1 (x : Z) : rd Z := rd_pan Z.
Definition rd_nof2 (x y : Z) : rd Z := rd_pan Z.
Definition rd_get (A : Type) (l : list A) (i : Z) : rd A :=
  if i <? 0 then rd_pan A else match nth_error l (Z.to_nat i) with Some x => rd_ret A x | None => rd_pan A end.
Definition rd_kops : kops rd Z Z :=
  {| k_ret := rd_ret; k_bind := rd_bind; k_panic := rd_pan;
     f_zero := 0; f_one := 0; f_lit := fun _ _ => 0;       (* no float literal occurs *)
     f_add := rd_nof2; f_sub := rd_nof2; f_mul := rd_nof2; f_div := rd_nof2; f_neg := rd_nof1;
     f_eq := fun _ _ => false; f_lt := fun _ _ => false; f_le := fun _ _ => false;
     KernelOps.f_round := rd_nof1; f_rem_euclid := rd_nof2;
     f_to_radians := rd_nof1; f_sin := rd_nof1; f_cos := rd_nof1;
     f_powi := fun _ _ => rd_pan Z;
     i_lit := fun z => z; i_minval := ity_min; i_maxval := ity_max;
     i_add := fun t a b => rd_chk t (a + b);
     i_sub := fun t a b => rd_chk t (a - b);
     i_mul := fun t a b => rd_chk t (a * b);
     i_div := fun t a b => if b =? 0 then rd_pan Z else rd_chk t (Z.quot a b);
     i_rem := fun t a b => if b =? 0 then rd_pan Z else rd_chk t (Z.rem a b);
     i_neg := fun t a => rd_chk t (- a);
     i_and := fun t a b => rd_ret Z (Z.land a b);
     i_or := fun t a b => rd_ret Z (Z.lor a b);
     i_shl := fun _ _ _ => rd_pan Z; i_shr := fun _ _ _ => rd_pan Z;
     i_min := Z.min; i_max := Z.max; i_eq := Z.eqb; i_lt := Z.ltb; i_le := Z.leb;
     i_cast := fun _ t z => if ity_in t z then rd_ret Z z else rd_pan Z;       (* only widening casts occur *)
     i_try_from := fun _ t z => if ity_in t z then rd_ret Z z else rd_pan Z;
     i_to_f := fun _ _ => rd_pan Z; f_to_i := fun _ _ => rd_pan Z;
     v_len := fun A l => Z.of_nat (List.length l); v_get := rd_get;
     k_for := fun Rt St => for_Z rd_ret rd_bind |}.
Definition rd_xops : kxops rd Z Z :=
  {| kx_base := rd_kops; k_fail := rd_err;
     k_unwrap := fun A x bs => match x bs with Err _ => Panic | y => y end;
     i_try_from_q := fun _ t z => if ity_in t z then rd_ret Z z else rd_err Z;
     v_set := fun A l i x =>
       if (i <? 0) || (Z.of_nat (List.length l) <=? i) then rd_pan _ else rd_ret _ (k_list_set l (Z.to_nat i) x);
     v_insert := fun A l i x =>
       if (i <? 0) || (Z.of_nat (List.length l) <? i) then rd_pan _ else rd_ret _ (k_list_insert l (Z.to_nat i) x) |}.

(** * the model's enumerations as the generated ones *)
Definition Grt (r : rtype) : gGdsRecordType Z Z :=
  match r with
  | Header => gGdsRecordType_Header
  | BgnLib => gGdsRecordType_BgnLib
  | LibName => gGdsRecordType_LibName
  | Units => gGdsRecordType_Units
  | EndLib => gGdsRecordType_EndLib
  | BgnStruct => gGdsRecordType_BgnStruct
  | StructName => gGdsRecordType_StructName
  | EndStruct => gGdsRecordType_EndStruct
  | Boundary => gGdsRecordType_Boundary
  | Path => gGdsRecordType_Path
  | StructRef => gGdsRecordType_StructRef
  | ArrayRef => gGdsRecordType_ArrayRef
  | Text => gGdsRecordType_Text
  | Layer => gGdsRecordType_Layer
  | DataType => gGdsRecordType_DataType
  | Width => gGdsRecordType_Width
  | Xy => gGdsRecordType_Xy
  | EndElement => gGdsRecordType_EndElement
  | StructRefName => gGdsRecordType_StructRefName
  | ColRow => gGdsRecordType_ColRow
  | TextNode => gGdsRecordType_TextNode
  | Node => gGdsRecordType_Node
  | TextType => gGdsRecordType_TextType
  | Presentation => gGdsRecordType_Presentation
  | Spacing => gGdsRecordType_Spacing
  | RString => gGdsRecordType_String
  | Strans => gGdsRecordType_Strans
  | Mag => gGdsRecordType_Mag
  | Angle => gGdsRecordType_Angle
  | Uinteger => gGdsRecordType_Uinteger
  | Ustring => gGdsRecordType_Ustring
  | RefLibs => gGdsRecordType_RefLibs
  | Fonts => gGdsRecordType_Fonts
  | PathType => gGdsRecordType_PathType
  | Generations => gGdsRecordType_Generations
  | AttrTable => gGdsRecordType_AttrTable
  | StypTable => gGdsRecordType_StypTable
  | StrType => gGdsRecordType_StrType
  | ElemFlags => gGdsRecordType_ElemFlags
  | ElemKey => gGdsRecordType_ElemKey
  | LinkType => gGdsRecordType_LinkType
  | LinkKeys => gGdsRecordType_LinkKeys
  | Nodetype => gGdsRecordType_Nodetype
  | PropAttr => gGdsRecordType_PropAttr
  | PropValue => gGdsRecordType_PropValue
  | RBox => gGdsRecordType_Box
  | BoxType => gGdsRecordType_BoxType
  | Plex => gGdsRecordType_Plex
  | BeginExtn => gGdsRecordType_BeginExtn
  | EndExtn => gGdsRecordType_EndExtn
  | TapeNum => gGdsRecordType_TapeNum
  | TapeCode => gGdsRecordType_TapeCode
  | StrClass => gGdsRecordType_StrClass
  | Reserved => gGdsRecordType_Reserved
  | Format => gGdsRecordType_Format
  | Mask => gGdsRecordType_Mask
  | EndMasks => gGdsRecordType_EndMasks
  | LibDirSize => gGdsRecordType_LibDirSize
  | SrfName => gGdsRecordType_SrfName
  | LibSecur => gGdsRecordType_LibSecur
  end.
Definition Gdty (d : dtype) : gGdsDataType Z Z :=
  match d with
  | DNoData => gGdsDataType_NoData
  | DBitArray => gGdsDataType_BitArray
  | DI16 => gGdsDataType_I16
  | DI32 => gGdsDataType_I32
  | DF32 => gGdsDataType_F32
  | DF64 => gGdsDataType_F64
  | DStr => gGdsDataType_Str
  end.

(** a value of the Rust enum `GdsRecord` as the model's [record] *)
Definition Grec (r : gGdsRecord bytes Z Z) : record :=
  match r with
  | gGdsRecord_Header _ v => (Header, PI16 [v])
  | gGdsRecord_BgnLib _ d => (BgnLib, PI16 d)
  | gGdsRecord_LibName _ s => (LibName, PStr s)
  | gGdsRecord_Units _ a b => (Units, PF64 [a; b])
  | gGdsRecord_EndLib _ => (EndLib, PNone)
  | gGdsRecord_BgnStruct _ d => (BgnStruct, PI16 d)
  | gGdsRecord_StructName _ s => (StructName, PStr s)
  | gGdsRecord_StructRefName _ s => (StructRefName, PStr s)
  | gGdsRecord_EndStruct _ => (EndStruct, PNone)
  | gGdsRecord_Boundary _ => (Boundary, PNone)
  | gGdsRecord_Path _ => (Path, PNone)
  | gGdsRecord_StructRef _ => (StructRef, PNone)
  | gGdsRecord_ArrayRef _ => (ArrayRef, PNone)
  | gGdsRecord_Text _ => (Text, PNone)
  | gGdsRecord_Layer _ v => (Layer, PI16 [v])
  | gGdsRecord_DataType _ v => (DataType, PI16 [v])
  | gGdsRecord_Width _ v => (Width, PI32 [v])
  | gGdsRecord_Xy _ l => (Xy, PI32 l)
  | gGdsRecord_EndElement _ => (EndElement, PNone)
  | gGdsRecord_ColRow _ c r => (ColRow, PI16 [c; r])
  | gGdsRecord_Node _ => (Node, PNone)
  | gGdsRecord_TextType _ v => (TextType, PI16 [v])
  | gGdsRecord_Presentation _ a b => (Presentation, PBits a b)
  | gGdsRecord_String _ s => (RString, PStr s)
  | gGdsRecord_Strans _ a b => (Strans, PBits a b)
  | gGdsRecord_Mag _ v => (Mag, PF64 [v])
  | gGdsRecord_Angle _ v => (Angle, PF64 [v])
  | gGdsRecord_RefLibs _ s => (RefLibs, PStr s)
  | gGdsRecord_Fonts _ s => (Fonts, PStr s)
  | gGdsRecord_PathType _ v => (PathType, PI16 [v])
  | gGdsRecord_Generations _ v => (Generations, PI16 [v])
  | gGdsRecord_AttrTable _ s => (AttrTable, PStr s)
  | gGdsRecord_ElemFlags _ a b => (ElemFlags, PBits a b)
  | gGdsRecord_Nodetype _ v => (Nodetype, PI16 [v])
  | gGdsRecord_PropAttr _ v => (PropAttr, PI16 [v])
  | gGdsRecord_PropValue _ s => (PropValue, PStr s)
  | gGdsRecord_Box _ => (RBox, PNone)
  | gGdsRecord_BoxType _ v => (BoxType, PI16 [v])
  | gGdsRecord_Plex _ v => (Plex, PI32 [v])
  | gGdsRecord_BeginExtn _ v => (BeginExtn, PI32 [v])
  | gGdsRecord_EndExtn _ v => (EndExtn, PI32 [v])
  | gGdsRecord_TapeNum _ v => (TapeNum, PI16 [v])
  | gGdsRecord_TapeCode _ l => (TapeCode, PI16 l)
  | gGdsRecord_Format _ v => (Format, PI16 [v])
  | gGdsRecord_Mask _ s => (Mask, PStr s)
  | gGdsRecord_EndMasks _ => (EndMasks, PNone)
  | gGdsRecord_LibDirSize _ v => (LibDirSize, PI16 [v])
  | gGdsRecord_SrfName _ s => (SrfName, PStr s)
  | gGdsRecord_LibSecur _ v => (LibSecur, PI16 [v])
  end.


(** * byte-level IO (external) *)
Definition x_read_u16 : rd Z := fun bs => match bs with b0 :: b1 :: r => Ok (u16_of b0 b1, r) | _ => Err tt end.
Definition x_read_u8 : rd Z := fun bs => match bs with b :: r => Ok (b, r) | [] => Err tt end.
Definition x_rt_from_u8 (n : Z) : rd (option (gGdsRecordType Z Z)) := rd_ret _ (option_map Grt (rtype_of_Z n)).
Definition x_dt_from_u8 (n : Z) : rd (option (gGdsDataType Z Z)) := rd_ret _ (option_map Gdty (dtype_of_Z n)).
Definition x_read_bytes (len : Z) : rd (list Z) := fun bs => ounit (read_exact len bs).
Definition x_read_i16 (len : Z) : rd (list Z) := fun bs => ounit (omap (fun dr => (pairs16 (fst dr), snd dr)) (read_exact len bs)).
Definition x_read_i32 (len : Z) : rd (list Z) := fun bs => ounit (omap (fun dr => (quads32 (fst dr), snd dr)) (read_exact len bs)).
Definition x_read_f64 (len : Z) : rd (list Z) :=
  fun bs => ounit (omap (fun dr => (map gds_decode (octs64 (fst dr)), snd dr)) (read_exact (8 * (len / 8)) bs)).
Definition x_read_str (len : Z) : rd bytes := fun bs => ounit (read_str true len bs).

Definition Ghdr (rt : rtype) (dt : dtype) (len : Z) : gGdsRecordHeader Z Z := mk_gGdsRecordHeader (Grt rt) (Gdty dt) len.
Definition g_valid (r : rtype) : rd bool := g_GdsRecordType_valid rd_xops (Grt r).
Definition g_read_record_header : rd (gGdsRecordHeader Z Z) :=
  g_GdsReader_read_record_header rd_xops x_dt_from_u8 x_read_u16 x_read_u8 x_rt_from_u8.
Definition g_read_record_content (rt : rtype) (dt : dtype) (len : Z) : rd (gGdsRecord bytes Z Z) :=
  g_GdsReader_read_record_content rd_xops bytes x_read_bytes x_read_f64 x_read_i16 x_read_i32 x_read_str (Ghdr rt dt len).
Definition g_read_record : rd (gGdsRecord bytes Z Z) :=
  g_GdsReader_read_record rd_xops bytes x_dt_from_u8 x_read_bytes x_read_f64 x_read_i16 x_read_i32 x_read_str x_read_u16 x_read_u8 x_rt_from_u8.
(** the generated record value as the model's [record] *)
Definition as_rec (x : ures (gGdsRecord bytes Z Z * bytes)) : ures (record * bytes) := omap (fun gr => (Grec (fst gr), snd gr)) x.
