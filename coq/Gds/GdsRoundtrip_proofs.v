(** C01 / C03 assembly: from the hypotheses of the property theorems (type invariants of the library,
    no string in the known class, every payload fits) to the stream invariant [wfRb] of
    Gds/GdsRtRead_proofs.v; the reader on the reference encoding; the write-then-read round trip.
    Lemmas; property theorems in Properties/C01.v C02.v C03.v. *)
From Coq Require Import ZArith Bool List Lia.
From L21 Require Import Base.Outcome Base.Hex Base.F64 Gds.GdsReal Gds.GdsReal_proofs Gds.GdsData Gds.GdsRecord
  Gds.GdsWrite Gds.GdsRead Gds.GdsSpec Gds.GdsRtDefs Gds.GdsBytes_proofs Gds.GdsWrite_proofs
  Gds.GdsRtUnfold_proofs Gds.GdsRtRead_proofs.
Import ListNotations.
Local Open Scope Z_scope.

(** * Every record of a well-typed library outside the known class reads back *)
Definition GdsRt_valb (r : record) : bool := rtype_valid (fst r) && payload_okb (snd r) && negb (is_endlib r).

Lemma GdsRt_wfRb_intro pre :
  forallb rec_fitsb pre = true -> forallb GdsRt_valb pre = true -> wfRb (pre ++ [r_none EndLib]) = true.
Proof.
  induction pre as [|r pre IH]; cbn [forallb app]; [reflexivity|].
  rewrite !andb_true_iff. intros [Hf Hfs] [Hv Hvs]. unfold GdsRt_valb in Hv. GdsRt_bsplit.
  cbn [wfRb]. rewrite (IH Hfs Hvs). unfold rec_goodb. GdsRt_brew. cbn [andb].
  destruct (pre ++ [r_none EndLib]) eqn:E; [destruct pre; discriminate | reflexivity].
Qed.

Lemma GdsRt_val_props ps :
  forallb prop_okb ps = true -> existsb even_trailing_nul (props_strings ps) = false ->
  forallb GdsRt_valb (flat_props ps) = true.
Proof.
  unfold flat_props, props_strings. induction ps as [|[attr v] ps IH]; [reflexivity|].
  cbn [forallb map existsb flat_map app pr_attr pr_value]. unfold prop_okb at 1. cbn [pr_attr pr_value].
  intros Hok Hk. GdsRt_bsplit. rewrite IH by assumption.
  unfold GdsRt_valb. cbn [r_i16 r_str fst snd rtype_valid payload_okb forallb is_endlib negb].
  GdsRt_brew. reflexivity.
Qed.

Lemma GdsRt_val_points l : forallb point_okb l = true -> forallb i32b (flat_points l) = true.
Proof.
  unfold flat_points. induction l as [|[x y] l IH]; [reflexivity|].
  cbn [forallb flat_map flat_point px py app]. unfold point_okb at 1. cbn [px py].
  intros H. GdsRt_bsplit. rewrite IH by assumption. GdsRt_brew. reflexivity.
Qed.
Lemma GdsRt_val_xy l : forallb point_okb l = true -> GdsRt_valb (r_xy l) = true.
Proof. intros H. unfold GdsRt_valb, r_xy. cbn [fst snd rtype_valid payload_okb]. rewrite GdsRt_val_points by exact H. reflexivity. Qed.
Lemma GdsRt_val_xy1 p : point_okb p = true -> GdsRt_valb (r_xy [p]) = true.
Proof. intros H. apply GdsRt_val_xy. cbn [forallb]. rewrite H. reflexivity. Qed.
Lemma GdsRt_val_ostrans s : forallb GdsRt_valb (flat_ostrans s) = true.
Proof. destruct s as [[[] [] [] [?|] [?|]]|]; reflexivity. Qed.

Ltac GdsRt_val_tac :=
  intros Hok Hk; GdsRt_bsplit;
  repeat first [rewrite forallb_app | progress cbn [forallb app]];
  rewrite ?GdsRt_val_props, ?GdsRt_val_xy, ?GdsRt_val_xy1, ?GdsRt_val_ostrans by assumption;
  repeat match goal with
         | |- context [opt_rec _ ?o] => destruct o as [?|]; cbn [opt_rec forallb opt_okb] in *
         end;
  unfold bits2_okb in *; GdsRt_bsplit;
  unfold GdsRt_valb; cbn [r_i16 r_i32 r_bits r_str r_none fst snd rtype_valid payload_okb forallb is_endlib negb];
  GdsRt_brew; reflexivity.

Lemma GdsRt_val_element e :
  element_okb_with (fun _ => true) e = true -> existsb even_trailing_nul (element_strings e) = false ->
  forallb GdsRt_valb (flat_element e) = true.
Proof.
  destruct e as [[layer dt xy fl pl ps]|[layer dt xy w pt be ee fl pl ps]|[name xy st fl pl ps]|[name xy cols rows st fl pl ps]
                 |[str layer tt xy pres pt w st fl pl ps]|[layer nt xy fl pl ps]|[layer bt xy fl pl ps]];
    cbn [element_okb_with element_strings flat_element existsb].
  - unfold boundary_okb, flat_boundary, flat_head, flat_tail. cbn [b_layer b_datatype b_xy b_elflags b_plex b_props]. GdsRt_val_tac.
  - unfold path_okb, flat_path, flat_head, flat_tail.
    cbn [p_layer p_datatype GdsData.p_xy p_width p_path_type p_begin_extn p_end_extn p_elflags p_plex GdsData.p_props]. GdsRt_val_tac.
  - unfold sref_okb_with, flat_sref, flat_head, flat_tail. cbn [sr_name sr_xy sr_strans sr_elflags sr_plex sr_props]. GdsRt_val_tac.
  - unfold aref_okb_with, flat_aref, flat_head, flat_tail. cbn [ar_name ar_xy ar_cols ar_rows ar_strans ar_elflags ar_plex ar_props]. GdsRt_val_tac.
  - unfold text_okb_with, flat_text, flat_head, flat_tail.
    cbn [t_string t_layer t_texttype t_xy t_presentation t_path_type t_width t_strans t_elflags t_plex t_props]. GdsRt_val_tac.
  - unfold node_okb, flat_node, flat_head, flat_tail. cbn [n_layer n_nodetype n_xy n_elflags n_plex n_props]. GdsRt_val_tac.
  - unfold box_okb, flat_box, flat_head, flat_tail. cbn [x_layer x_boxtype x_xy x_elflags x_plex x_props]. GdsRt_val_tac.
Qed.

Lemma GdsRt_val_elements es :
  forallb (element_okb_with (fun _ => true)) es = true ->
  existsb even_trailing_nul (flat_map element_strings es) = false ->
  forallb GdsRt_valb (flat_map flat_element es) = true.
Proof.
  induction es as [|e es IH]; [reflexivity|]. cbn [forallb flat_map]. rewrite existsb_app, forallb_app.
  intros Hok Hk. GdsRt_bsplit. rewrite GdsRt_val_element, IH by assumption. reflexivity.
Qed.

Lemma GdsRt_val_dates d : dts_okb d = true -> forallb i16b (flat_dates d) = true.
Proof.
  destruct d as [[a0 a1 a2 a3 a4 a5] [b0 b1 b2 b3 b4 b5]]. unfold dts_okb, dt_okb.
  cbn [d_modified d_accessed dt_year dt_month dt_day dt_hour dt_minute dt_second flat_dates flat_datetime app forallb].
  intros H. GdsRt_bsplit. GdsRt_brew. reflexivity.
Qed.

Lemma GdsRt_val_struct s :
  struct_okb_with (fun _ => true) s = true -> existsb even_trailing_nul (struct_strings s) = false ->
  forallb GdsRt_valb (flat_struct s) = true.
Proof.
  destruct s as [name d es]. unfold struct_okb_with, struct_strings, flat_struct. cbn [s_name s_dates s_elems existsb].
  intros Hok Hk. GdsRt_bsplit. rewrite !forallb_app. rewrite GdsRt_val_elements by assumption.
  cbn [forallb]. unfold GdsRt_valb. cbn [r_str r_none fst snd rtype_valid payload_okb is_endlib negb].
  rewrite GdsRt_val_dates by assumption. GdsRt_brew. reflexivity.
Qed.

Lemma GdsRt_val_structs ss :
  forallb (struct_okb_with (fun _ => true)) ss = true ->
  existsb even_trailing_nul (flat_map struct_strings ss) = false ->
  forallb GdsRt_valb (flat_map flat_struct ss) = true.
Proof.
  induction ss as [|s ss IH]; [reflexivity|]. cbn [forallb flat_map]. rewrite existsb_app, forallb_app.
  intros Hok Hk. GdsRt_bsplit. rewrite GdsRt_val_struct, IH by assumption. reflexivity.
Qed.

Definition GdsRt_lib_pre (l : library) : list record :=
  [r_i16 Header (l_version l); (BgnLib, PI16 (flat_dates (l_dates l))); r_str LibName (l_name l);
   (Units, PF64 [fst (l_units l); snd (l_units l)])] ++ flat_map flat_struct (l_structs l).
Lemma GdsRt_flatten_pre l : flatten_lib l = GdsRt_lib_pre l ++ [r_none EndLib].
Proof. unfold flatten_lib, GdsRt_lib_pre. rewrite <- app_assoc. reflexivity. Qed.

Theorem GdsRt_wfRb_lib l :
  lib_shape_ok l -> known_class_c01b l = false -> lib_fitsb l = true -> wfRb (flatten_lib l) = true.
Proof.
  intros Hok Hk Hf. unfold lib_fitsb in Hf. rewrite GdsRt_flatten_pre in *.
  rewrite forallb_app in Hf. apply andb_true_iff in Hf. destruct Hf as [Hf _].
  apply GdsRt_wfRb_intro; [exact Hf|]. clear Hf.
  destruct l as [name ver dates [u0 u1] ss].
  unfold lib_shape_ok, lib_shapeb, lib_okb_with, known_class_c01b, lib_strings, GdsRt_lib_pre in *.
  cbn [l_name l_version l_dates l_units l_structs fst snd existsb] in *. GdsRt_bsplit.
  rewrite forallb_app, GdsRt_val_structs by assumption. cbn [forallb].
  unfold GdsRt_valb. cbn [r_i16 r_str fst snd rtype_valid payload_okb forallb is_endlib negb].
  rewrite GdsRt_val_dates by assumption. GdsRt_brew. reflexivity.
Qed.

Lemma GdsRt_not_known l : ~ KnownClass_C01 l -> known_class_c01b l = false.
Proof. unfold KnownClass_C01. destruct (known_class_c01b l); [intros H; exfalso; apply H; reflexivity | reflexivity]. Qed.

(** * The reader on what the writer writes (any bytes may follow) *)
Theorem GdsRt_reads_encoded l tail :
  lib_shape_ok l -> ~ KnownClass_C01 l -> lib_fitsb l = true ->
  read_lib (flat_map encb (flatten_lib l) ++ tail) = Ok (lib_readback l).
Proof.
  intros Hok Hk Hf. apply GdsRt_read_lib_core; [exact Hok|].
  apply GdsRt_wfRb_lib; [exact Hok | apply GdsRt_not_known; exact Hk | exact Hf].
Qed.

Theorem GdsRt_write_ok_fits l bs : write_lib l = Ok bs -> lib_fitsb l = true /\ bs = flat_map encb (flatten_lib l).
Proof. rewrite GdsW_write_lib_eq. destruct (lib_fitsb l); [intros [= <-]; auto | discriminate]. Qed.

Theorem GdsRt_roundtrip_core l bs :
  lib_shape_ok l -> ~ KnownClass_C01 l -> write_lib l = Ok bs -> read_lib bs = Ok (lib_readback l).
Proof.
  intros Hok Hk Hw. destruct (GdsRt_write_ok_fits l bs Hw) as [Hf ->].
  rewrite <- (app_nil_r (flat_map encb (flatten_lib l))). apply GdsRt_reads_encoded; assumption.
Qed.

Theorem GdsRt_write_ok_iff_fits l : (exists bs, write_lib l = Ok bs) <-> lib_fitsb l = true.
Proof.
  rewrite GdsW_write_lib_eq. destruct (lib_fitsb l); split; try discriminate; eauto.
  intros [bs H]; discriminate.
Qed.

(** * [lib_okb] = shape + every real [real_okb] *)
Lemma GdsRt_lib_okb_with l : lib_okb l = lib_okb_with real_okb l.
Proof. reflexivity. Qed.

Section OkMono.
Variables p q : Z -> bool.
Hypothesis Hpq : forall x, p x = true -> q x = true.
Lemma GdsRt_opt_okb_mono {A} (f g : A -> bool) o : (forall x, f x = true -> g x = true) -> opt_okb f o = true -> opt_okb g o = true.
Proof. destruct o; cbn; auto. Qed.
Lemma GdsRt_strans_okb_mono s : strans_okb_with p s = true -> strans_okb_with q s = true.
Proof.
  unfold strans_okb_with. rewrite !andb_true_iff. intros [H1 H2].
  split; eapply GdsRt_opt_okb_mono; eauto.
Qed.
Lemma GdsRt_element_okb_mono e : element_okb_with p e = true -> element_okb_with q e = true.
Proof.
  destruct e as [e|e|e|e|e|e|e]; cbn [element_okb_with]; auto.
  - unfold sref_okb_with. intros H. GdsRt_bsplit.
    match goal with H : opt_okb (strans_okb_with p) _ = true |- _ => rewrite (GdsRt_opt_okb_mono _ _ _ GdsRt_strans_okb_mono H) end. GdsRt_brew. reflexivity.
  - unfold aref_okb_with. intros H. GdsRt_bsplit.
    match goal with H : opt_okb (strans_okb_with p) _ = true |- _ => rewrite (GdsRt_opt_okb_mono _ _ _ GdsRt_strans_okb_mono H) end. GdsRt_brew. reflexivity.
  - unfold text_okb_with. intros H. GdsRt_bsplit.
    match goal with H : opt_okb (strans_okb_with p) _ = true |- _ => rewrite (GdsRt_opt_okb_mono _ _ _ GdsRt_strans_okb_mono H) end. GdsRt_brew. reflexivity.
Qed.
Lemma GdsRt_struct_okb_mono s : struct_okb_with p s = true -> struct_okb_with q s = true.
Proof.
  unfold struct_okb_with. intros H. GdsRt_bsplit.
  rewrite (GdsW_forallb_impl (element_okb_with p) (element_okb_with q) (s_elems s)); auto using GdsRt_element_okb_mono.
  GdsRt_brew. reflexivity.
Qed.
Lemma GdsRt_lib_okb_mono l : lib_okb_with p l = true -> lib_okb_with q l = true.
Proof.
  unfold lib_okb_with. intros H. GdsRt_bsplit.
  rewrite (GdsW_forallb_impl (struct_okb_with p) (struct_okb_with q) (l_structs l)); auto using GdsRt_struct_okb_mono.
  repeat match goal with H : p _ = true |- _ => apply Hpq in H end. GdsRt_brew. reflexivity.
Qed.
End OkMono.

Lemma GdsRt_lib_ok_shape l : lib_ok l -> lib_shape_ok l.
Proof. unfold lib_ok, lib_shape_ok, lib_shapeb. rewrite GdsRt_lib_okb_with. apply GdsRt_lib_okb_mono. auto. Qed.

Lemma GdsRt_okb_reals p l : lib_okb_with p l = true -> forall x, In x (lib_reals l) -> p x = true.
Proof.
  unfold lib_okb_with, lib_reals. intros H. GdsRt_bsplit. intros x [<- | [<- | Hx]]; try assumption.
  apply in_flat_map in Hx. destruct Hx as (s & Hs & Hx). apply in_flat_map in Hx. destruct Hx as (e & He & Hx).
  match goal with H : forallb (struct_okb_with p) _ = true |- _ => rewrite forallb_forall in H; specialize (H s Hs); unfold struct_okb_with in H end.
  GdsRt_bsplit.
  match goal with H : forallb (element_okb_with p) _ = true |- _ => rewrite forallb_forall in H; specialize (H e He); rename H into Hel end.
  assert (Hst : forall o, opt_okb (strans_okb_with p) o = true -> In x (strans_reals o) -> p x = true).
  { intros [st|]; cbn [opt_okb strans_reals]; [|intros _ []]. unfold strans_okb_with. intros Hs'. GdsRt_bsplit.
    intros Hin. apply in_app_or in Hin. destruct Hin as [Hin|Hin].
    - destruct (st_mag st); cbn in *; [destruct Hin as [<-|[]]; assumption | destruct Hin].
    - destruct (st_angle st); cbn in *; [destruct Hin as [<-|[]]; assumption | destruct Hin]. }
  destruct e as [e|e|e|e|e|e|e]; cbn [element_reals element_okb_with] in *; try (destruct Hx; fail).
  - unfold sref_okb_with in Hel. GdsRt_bsplit. eauto.
  - unfold aref_okb_with in Hel. GdsRt_bsplit. eauto.
  - unfold text_okb_with in Hel. GdsRt_bsplit. eauto.
Qed.

Lemma GdsRt_lib_ok_reals l : lib_ok l -> forall x, In x (lib_reals l) -> real_okb x = true.
Proof. unfold lib_ok. rewrite GdsRt_lib_okb_with. apply GdsRt_okb_reals. Qed.

(** * [lib_map_reals] depends only on the reals of the library *)
Section MapExt.
Variables f g : Z -> Z.
Lemma GdsRt_ostrans_map_ext o :
  (forall x, In x (strans_reals o) -> f x = g x) -> option_map (strans_map_reals f) o = option_map (strans_map_reals g) o.
Proof.
  destruct o as [[r am aa m a]|]; [|reflexivity]. cbn [strans_reals option_map st_mag st_angle]. intros H.
  unfold strans_map_reals. cbn [st_reflected st_abs_mag st_abs_angle st_mag st_angle].
  assert (Hm : option_map f m = option_map g m).
  { destruct m; [|reflexivity]. cbn. rewrite H; [reflexivity|]. apply in_or_app. left. cbn. auto. }
  assert (Ha : option_map f a = option_map g a).
  { destruct a; [|reflexivity]. cbn. rewrite H; [reflexivity|]. apply in_or_app. right. cbn. auto. }
  rewrite Hm, Ha. reflexivity.
Qed.
Lemma GdsRt_element_map_ext e :
  (forall x, In x (element_reals e) -> f x = g x) -> element_map_reals f e = element_map_reals g e.
Proof.
  destruct e as [e|e|e|e|e|e|e]; cbn [element_reals element_map_reals]; intros H; try reflexivity;
    rewrite (GdsRt_ostrans_map_ext _ H); reflexivity.
Qed.
Lemma GdsRt_lib_map_ext l :
  (forall x, In x (lib_reals l) -> f x = g x) -> lib_map_reals f l = lib_map_reals g l.
Proof.
  unfold lib_reals, lib_map_reals. intros H. rewrite (H (fst (l_units l))), (H (snd (l_units l))) by (cbn; auto).
  f_equal. apply map_ext_in. intros s Hs. unfold struct_map_reals. f_equal.
  apply map_ext_in. intros e He. apply GdsRt_element_map_ext. intros x Hx. apply H. right. right.
  apply in_flat_map. exists s. split; [exact Hs|]. apply in_flat_map. exists e. auto.
Qed.
End MapExt.

Lemma GdsRt_readback_canon l : lib_ok l -> lib_readback l = lib_canon l.
Proof.
  intros Hok. apply GdsRt_lib_map_ext. intros x Hx. apply GdsW_real_ok_rd. apply (GdsRt_lib_ok_reals l Hok x Hx).
Qed.

(** * Rust `==` between a library and the library read back *)
Lemma GdsRt_zlist_eqb_refl l : zlist_eqb l l = true.
Proof. induction l as [|x l IH]; cbn; [reflexivity|]. rewrite Z.eqb_refl, IH. reflexivity. Qed.
Lemma GdsRt_list_eqb_map {A} (eq : A -> A -> bool) (g : A -> A) l :
  (forall x, In x l -> eq x (g x) = true) -> list_eqb eq l (map g l) = true.
Proof.
  induction l as [|x l IH]; cbn [list_eqb map]; [reflexivity|]. intros H.
  rewrite H, IH; [reflexivity | intros; apply H; right; assumption | left; reflexivity].
Qed.
Lemma GdsRt_list_eqb_refl {A} (eq : A -> A -> bool) l : (forall x, eq x x = true) -> list_eqb eq l l = true.
Proof. intros H. induction l as [|x l IH]; cbn; [reflexivity|]. rewrite H, IH. reflexivity. Qed.
Lemma GdsRt_opt_eqb_refl {A} (eq : A -> A -> bool) o : (forall x, eq x x = true) -> opt_eqb eq o o = true.
Proof. destruct o; cbn; auto. Qed.
Lemma GdsRt_bits2_eqb_refl b : bits2_eqb b b = true.
Proof. unfold bits2_eqb. rewrite !Z.eqb_refl. reflexivity. Qed.
Lemma GdsRt_point_eqb_refl p : point_eqb p p = true.
Proof. unfold point_eqb. rewrite !Z.eqb_refl. reflexivity. Qed.
Lemma GdsRt_prop_eqb_refl p : prop_eqb p p = true.
Proof. unfold prop_eqb. rewrite Z.eqb_refl, GdsRt_zlist_eqb_refl. reflexivity. Qed.
Lemma GdsRt_dts_eqb_refl d : dts_eqb d d = true.
Proof. unfold dts_eqb, dt_eqb. rewrite !Z.eqb_refl. reflexivity. Qed.

Ltac GdsRt_refl_tac :=
  rewrite ?Z.eqb_refl, ?GdsRt_zlist_eqb_refl, ?GdsRt_dts_eqb_refl, ?GdsRt_point_eqb_refl, ?Bool.eqb_reflx,
    ?(GdsRt_list_eqb_refl point_eqb) by apply GdsRt_point_eqb_refl;
  rewrite ?(GdsRt_list_eqb_refl prop_eqb) by apply GdsRt_prop_eqb_refl;
  rewrite ?(GdsRt_opt_eqb_refl bits2_eqb) by apply GdsRt_bits2_eqb_refl;
  rewrite ?(GdsRt_opt_eqb_refl Z.eqb) by apply Z.eqb_refl.

Section RustEq.
Variable f : Z -> Z.
Lemma GdsRt_ostrans_rust_eq o :
  (forall x, In x (strans_reals o) -> f64_rust_eq x (f x) = true) ->
  opt_eqb (strans_eqb f64_rust_eq) o (option_map (strans_map_reals f) o) = true.
Proof.
  destruct o as [[r am aa m a]|]; [|reflexivity]. cbn [strans_reals option_map opt_eqb st_mag st_angle]. intros H.
  unfold strans_eqb, strans_map_reals. cbn [st_reflected st_abs_mag st_abs_angle st_mag st_angle].
  rewrite !Bool.eqb_reflx. cbn [andb].
  assert (Hm : opt_eqb f64_rust_eq m (option_map f m) = true).
  { destruct m; [|reflexivity]. cbn. apply H. apply in_or_app. left. cbn. auto. }
  assert (Ha : opt_eqb f64_rust_eq a (option_map f a) = true).
  { destruct a; [|reflexivity]. cbn. apply H. apply in_or_app. right. cbn. auto. }
  rewrite Hm, Ha. reflexivity.
Qed.
Lemma GdsRt_element_rust_eq e :
  (forall x, In x (element_reals e) -> f64_rust_eq x (f x) = true) ->
  element_eqb f64_rust_eq e (element_map_reals f e) = true.
Proof.
  destruct e as [e|e|e|e|e|e|e]; cbn [element_reals element_map_reals element_eqb]; intros H.
  - unfold boundary_eqb. GdsRt_refl_tac. reflexivity.
  - unfold path_eqb. GdsRt_refl_tac. reflexivity.
  - unfold sref_eqb. cbn [sr_name sr_xy sr_strans sr_elflags sr_plex sr_props].
    rewrite (GdsRt_ostrans_rust_eq _ H). GdsRt_refl_tac. reflexivity.
  - unfold aref_eqb. cbn [ar_name ar_xy ar_cols ar_rows ar_strans ar_elflags ar_plex ar_props].
    rewrite (GdsRt_ostrans_rust_eq _ H). GdsRt_refl_tac. reflexivity.
  - unfold text_eqb. cbn [t_string t_layer t_texttype t_xy t_presentation t_path_type t_width t_strans t_elflags t_plex t_props].
    rewrite (GdsRt_ostrans_rust_eq _ H). GdsRt_refl_tac. reflexivity.
  - unfold node_eqb. GdsRt_refl_tac. reflexivity.
  - unfold box_eqb. GdsRt_refl_tac. reflexivity.
Qed.
Theorem GdsRt_map_reals_rust_eqb l :
  (forall x, In x (lib_reals l) -> f64_rust_eq x (f x) = true) -> lib_rust_eqb l (lib_map_reals f l) = true.
Proof.
  unfold lib_reals. intros H. unfold lib_rust_eqb, lib_eqb_with, lib_map_reals.
  cbn [l_name l_version l_dates l_units l_structs fst snd].
  rewrite (H (fst (l_units l))), (H (snd (l_units l))) by (cbn; auto). GdsRt_refl_tac. cbn [andb].
  apply GdsRt_list_eqb_map. intros s Hs. unfold struct_eqb, struct_map_reals. cbn [s_name s_dates s_elems].
  GdsRt_refl_tac. cbn [andb]. apply GdsRt_list_eqb_map. intros e He. apply GdsRt_element_rust_eq.
  intros x Hx. apply H. right. right. apply in_flat_map. exists s. split; [exact Hs|].
  apply in_flat_map. exists e. auto.
Qed.
End RustEq.

Lemma GdsRt_real_rt_rust_eq x : real_rt x -> f64_rust_eq x (rd_real x) = true.
Proof.
  unfold real_rt, rd_real, f64_rust_eq. intros [H | [H1 H2]].
  - rewrite H, Z.eqb_refl. cbn [andb]. apply orb_true_iff. left. apply negb_true_iff.
    unfold f64_is_nan. destruct (Z.eqb_spec (f64_bexp x) 2047) as [E|E]; [|reflexivity]. exfalso.
    assert (D : f64_decomp x = None) by (unfold f64_decomp; cbv zeta; rewrite E; reflexivity).
    unfold gds_encode, gds_encode_with in H. rewrite D in H. cbn in H. subst x. cbn in E. discriminate.
  - rewrite H1, H2. apply orb_true_r.
Qed.

Theorem GdsRt_map_reals_rust_eq l :
  (forall x, In x (lib_reals l) -> real_rt x) -> lib_rust_eqb l (lib_readback l) = true.
Proof. intros H. apply GdsRt_map_reals_rust_eqb. intros x Hx. apply GdsRt_real_rt_rust_eq, H, Hx. Qed.

(** the combined statement asked for by C10 (reader output does not satisfy [lib_ok]) *)
Theorem GdsRt_roundtrip_rt l bs :
  lib_shape_ok l -> (forall x, In x (lib_reals l) -> real_rt x) -> ~ KnownClass_C01 l -> write_lib l = Ok bs ->
  exists l', read_lib bs = Ok l' /\ lib_rust_eqb l l' = true.
Proof.
  intros Hok Hr Hk Hw. exists (lib_readback l). split.
  - apply GdsRt_roundtrip_core; assumption.
  - apply GdsRt_map_reals_rust_eq; assumption.
Qed.

Lemma GdsRt_lib_ok_rust_eq l : lib_ok l -> lib_rust_eqb l (lib_readback l) = true.
Proof.
  intros Hok. apply GdsRt_map_reals_rust_eq. intros x Hx. apply GdsW_real_ok_rt, (GdsRt_lib_ok_reals l Hok x Hx).
Qed.

(** * [lib_canon] changes nothing but negative zeros *)
Lemma GdsRt_option_map_id {A} (o : option A) : option_map (fun x => x) o = o.
Proof. destruct o; reflexivity. Qed.
Lemma GdsRt_strans_map_id s : strans_map_reals (fun x => x) s = s.
Proof. destruct s. unfold strans_map_reals. cbn. rewrite !GdsRt_option_map_id. reflexivity. Qed.
Lemma GdsRt_ostrans_map_id o : option_map (strans_map_reals (fun x => x)) o = o.
Proof. destruct o; cbn; [rewrite GdsRt_strans_map_id|]; reflexivity. Qed.
Lemma GdsRt_element_map_id e : element_map_reals (fun x => x) e = e.
Proof. destruct e as [e|e|e|e|e|e|e]; destruct e; cbn; rewrite ?GdsRt_ostrans_map_id; reflexivity. Qed.
Lemma GdsRt_lib_map_id l : lib_map_reals (fun x => x) l = l.
Proof.
  destruct l as [n v d [u0 u1] ss]. unfold lib_map_reals. cbn [l_name l_version l_dates l_units l_structs fst snd].
  f_equal. rewrite <- (map_id ss) at 2. apply map_ext. intros [sn sd es]. unfold struct_map_reals. cbn [s_name s_dates s_elems].
  f_equal. rewrite <- (map_id es) at 2. apply map_ext. apply GdsRt_element_map_id.
Qed.
Theorem GdsRt_canon_no_negzero l : (forall x, In x (lib_reals l) -> x <> two63) -> lib_canon l = l.
Proof.
  intros H. rewrite <- (GdsRt_lib_map_id l) at 2. apply GdsRt_lib_map_ext. intros x Hx. unfold canon_real.
  destruct (f64_is_zero x) eqn:E; [|reflexivity].
  destruct (GdsW_zero_cases x E) as [-> | ->]; [reflexivity | exfalso; exact (H _ Hx eq_refl)].
Qed.
Lemma GdsRt_lib_ok_canon_rust_eq l : lib_ok l -> lib_rust_eqb l (lib_canon l) = true.
Proof. intros H. rewrite <- (GdsRt_readback_canon l H). apply GdsRt_lib_ok_rust_eq, H. Qed.
