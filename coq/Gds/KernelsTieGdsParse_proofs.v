(** Tie (a) of DESIGN.md 2.3 for the GDSII parser (families "gds_parse", "gds_parse_e1", "gds_parse_e2", "gds_parse_lib"; properties C01, C03,
    C10): the definitions generated from gds21/src/read.rs `GdsParser` (Gen/KernelsGdsReadGen.v), read as in Gds/KernelsInstGdsParse.v
    (monadic self: look-ahead record and unread bytes; `next` through the generated `read_record`; loops on fuel), against the parser
    model Gds/GdsRead.v.  This file: the state invariant is kept by `next` ([next_sim], through Ktie_read_record), `parse_property`,
    `parse_strans` (flag bits, the loop over MAG / ANGLE on fuel), `GdsPoint::parse`; and the tactics the element parsers share.
    [sim f x y]: the generated run x and the model's run y end in the same class, with the same value (read back by f) and the same
    state, and the unread bytes are still bytes. *)
From Coq Require Import ZArith Bool List Lia.
From L21 Require Import Base.KernelOps Base.KernelOpsX Base.KernelOpsS Base.KernelOpsL Base.Outcome Gen.KernelsGdsReadGen.
From L21 Require Import Gds.GdsReal Gds.GdsData Gds.GdsRecord Gds.GdsRead Gds.KernelsInstGdsRead Gds.KernelsInstGdsParse.
From L21 Require Import Gds.KernelsTieGdsRead_proofs.
Import ListNotations.
Local Open Scope Z_scope.

Ltac ps := cbn [pm_xops kx_base pm_kops k_bind k_ret k_panic k_fail i_lit i_eq i_lt i_and v_get v_len]; unfold pm_bind, pm_ret, pm_pan, pm_err.


(** what a run leaves behind: the bytes not yet read are still bytes *)
Definition keeps {A : Type} (x : ures (A * pst)) : Prop := match x with Ok (_, s) => u8s s | _ => True end.

Lemma take_suffix : forall n bs a r, take n bs = Some (a, r) -> forallb u8b bs = true -> forallb u8b r = true.
Proof.
  induction n as [|n IH]; intros bs a r H U; cbn [take] in H.
  - inversion H; subst. exact U.
  - destruct bs as [|b bs']; [discriminate|]. destruct (take n bs') as [[a' r']|] eqn:E; [|discriminate]. inversion H; subst.
    cbn [forallb] in U. apply andb_true_iff in U. destruct U as [_ U]. exact (IH _ _ _ E U).
Qed.
Lemma read_exact_suffix : forall len bs a r, read_exact len bs = Ok (a, r) -> forallb u8b bs = true -> forallb u8b r = true.
Proof. intros len bs a r H U. unfold read_exact in H. destruct (take (Z.to_nat len) bs) as [[a' r']|] eqn:E; [|discriminate]. inversion H; subst. exact (take_suffix _ _ _ _ E U). Qed.

Lemma read_str_suffix : forall fx len bs a r, read_str fx len bs = Ok (a, r) -> forallb u8b bs = true -> forallb u8b r = true.
Proof.
  intros fx len bs a r H U. unfold read_str in H. destruct (read_exact len bs) as [[d r']| | |] eqn:E; cbn [obind] in H; try discriminate.
  destruct (negb fx && (len =? 0)); [discriminate|].
  destruct (utf8_valid _); inversion H; subst. exact (read_exact_suffix _ _ _ _ E U).
Qed.
Lemma read_content_suffix : forall fx rt dt len bs r bs', read_content fx rt dt len bs = Ok (r, bs') -> forallb u8b bs = true -> forallb u8b bs' = true.
Proof.
  intros fx rt dt len bs r bs' H U. unfold read_content in H.
  destruct (arm_of rt) as [[d ls]|]; [|discriminate].
  destruct (negb (dtype_eqb d dt && len_matches ls len)); [discriminate|].
  destruct d.
  - inversion H; subst; exact U.
  - destruct (read_exact len bs) as [[data r0]| | |] eqn:E; cbn [obind] in H; try discriminate.
    destruct data as [|b0 [|b1 ?]]; try discriminate. inversion H; subst. exact (read_exact_suffix _ _ _ _ E U).
  - destruct (read_exact len bs) as [[data r0]| | |] eqn:E; cbn [obind] in H; try discriminate.
    destruct (need _ _); cbn [obind] in H; try discriminate. inversion H; subst. exact (read_exact_suffix _ _ _ _ E U).
  - destruct (read_exact len bs) as [[data r0]| | |] eqn:E; cbn [obind] in H; try discriminate.
    destruct (need _ _); cbn [obind] in H; try discriminate. inversion H; subst. exact (read_exact_suffix _ _ _ _ E U).
  - discriminate.
  - destruct (read_exact (8 * (len / 8)) bs) as [[data r0]| | |] eqn:E; cbn [obind] in H; try discriminate.
    destruct (need _ _); cbn [obind] in H; try discriminate. inversion H; subst. exact (read_exact_suffix _ _ _ _ E U).
  - destruct (read_str fx len bs) as [[s0 r0]| | |] eqn:E; cbn [obind] in H; try discriminate.
    inversion H; subst. exact (read_str_suffix _ _ _ _ _ E U).
Qed.
Lemma read_header_suffix : forall bs rt dt len r, read_header bs = Ok (rt, dt, len, r) -> forallb u8b bs = true -> forallb u8b r = true.
Proof.
  intros bs rt dt len r H U. unfold read_header in H.
  destruct bs as [|b0 [|b1 r1]]; try discriminate.
  destruct (u16_of b0 b1 <? 4); [discriminate|]. destruct (negb (u16_of b0 b1 mod 2 =? 0)); [discriminate|].
  destruct r1 as [|rt0 r2]; [discriminate|]. destruct (rtype_of_Z rt0); [|discriminate]. destruct (negb (rtype_valid r0)); [discriminate|].
  destruct r2 as [|dt0 r3]; [discriminate|]. destruct (dtype_of_Z dt0); [|discriminate]. inversion H; subst.
  cbn [forallb] in U. repeat (apply andb_true_iff in U; destruct U as [_ U]). exact U.
Qed.
Lemma read_record_suffix : forall fx bs r bs', read_record fx bs = Ok (r, bs') -> forallb u8b bs = true -> forallb u8b bs' = true.
Proof.
  intros fx bs r bs' H U. unfold read_record in H.
  destruct (read_header bs) as [[[[rt dt] len] r0]| | |] eqn:E; cbn [obind] in H; try discriminate.
  exact (read_content_suffix _ _ _ _ _ _ _ H (read_header_suffix _ _ _ _ _ E U)).
Qed.
Lemma forallb_firstn : forall (A : Type) (p : A -> bool) n l, forallb p l = true -> forallb p (firstn n l) = true.
Proof.
  induction n as [|n IH]; intros l H; [reflexivity|]. destruct l as [|x l]; [reflexivity|].
  cbn [firstn forallb] in *. apply andb_true_iff in H. destruct H as [H1 H2]. rewrite H1, (IH l H2). reflexivity.
Qed.

(** the dates of BGNLIB / BGNSTR as the reader produces them: twelve numbers *)
Lemma read_content_dates : forall fx rt dt len bs v bs',
  read_content fx rt dt len bs = Ok ((rt, PI16 v), bs') -> rt = BgnLib \/ rt = BgnStruct -> length v = 12%nat.
Proof.
  intros fx rt dt len bs v bs' H [-> | ->]; unfold read_content in H; cbn [arm_of] in H;
    (assert (Hd : dt = DI16) by (destruct dt; try reflexivity; cbv in H; discriminate H)); subst dt;
    change (dtype_eqb DI16 DI16) with true in H; cbn [andb len_matches] in H;
    (destruct (24 =? len) eqn:E; cbn [negb] in H; [|discriminate H]); apply Z.eqb_eq in E; subst len;
    unfold read_exact in H; change (Z.to_nat 24) with 24%nat in H;
    do 24 (destruct bs as [|? bs]; [discriminate H|]); cbn [take obind] in H; unfold need in H; cbn in H; inversion H; reflexivity.
Qed.

(** `next`: the generated state after it is the model's *)
Definition back_rec (x : ures (grec * pst)) : ures (record * pstate) := omap (fun rs => (Grec (fst rs), Rst (snd rs))) x.
Definition keepsr (x : ures (grec * pst)) : Prop := match x with Ok (r, s) => wfrec r /\ u8s s | _ => True end.
Lemma is_endlib_G : forall r, g_is_endlib r = is_endlib (Grec r).
Proof. intros r. destruct r; reflexivity. Qed.
Lemma next_sim : forall s, u8s s -> back_rec (x_next s) = ounit (next true (Rst s)) /\ keepsr (x_next s).
Proof.
  intros [nx bs] [U W]. cbn [fst snd] in U, W. unfold x_next, next, Rst. cbn [fst snd nxt rest].
  rewrite is_endlib_G. destruct (is_endlib (Grec nx)); [split; [reflexivity|exact (conj W (conj U W))]|].
  pose proof (tie_read_record bs (forallb_firstn _ _ 2 _ U)) as T. unfold as_rec in T.
  destruct (g_read_record bs) as [[r bs']| | |]; destruct (read_record true bs) as [[r0 bs0]| | |] eqn:E; cbn [omap obind ounit fst snd] in T; try discriminate;
    cbn [back_rec omap obind ounit keepsr fst snd]; try (split; [reflexivity|exact I]); try (destruct e; split; [reflexivity|exact I]).
  inversion T; subst. split; [reflexivity|]. split; [exact W|]. split; cbn [fst snd]; [exact (read_record_suffix _ _ _ _ E U)|].
  unfold read_record in E. destruct (read_header bs) as [[[[rt dt] len] r1]| | |]; cbn [obind] in E; try discriminate E.
  assert (Hrt : fst (Grec r) = rt).
  { unfold read_content in E. destruct (arm_of rt) as [[d ls]|]; [|discriminate E]. destruct (negb _); [discriminate E|].
    destruct d; repeat (match type of E with context [obind ?x _] => destruct x as [[? ?]| | |]; cbn [obind] in E; try discriminate E end);
      try (destruct (need _ _); cbn [obind] in E; try discriminate E); try discriminate E;
      try (match type of E with context [match ?d with _ => _ end] => destruct d as [|? [|? ?]]; try discriminate E end);
      inversion E; reflexivity. }
  destruct r; try exact I; cbn [Grec fst] in Hrt; subst rt; cbn [wfrec Grec] in *.
  - exact (read_content_dates _ _ _ _ _ _ _ E (or_introl eq_refl)).
  - exact (read_content_dates _ _ _ _ _ _ _ E (or_intror eq_refl)).
Qed.


(** one `self.next()?`: by cases on its outcome, on both sides *)
Ltac step_next st0 U0 :=
  let E := fresh "E" in let K := fresh "K" in
  destruct (next_sim st0 U0) as [E K];
  destruct (x_next st0) as [[?r ?s1]| | |]; destruct (next true (Rst st0)) as [[?r0 ?st]|?e| |];
  cbn [back_rec omap obind ounit fst snd keepsr] in E, K; try discriminate E;
  [ inversion E; subst; clear E; let Kr := fresh "Kr" in destruct K as [Kr K] | .. ];
  repeat match goal with u : unit |- _ => destruct u end.

(** the generated run x against the model's run y: same outcome class, value and state read back; the unread bytes stay bytes *)
Definition sim {A B : Type} (f : A -> B) (x : ures (A * pst)) (y : res (B * pstate)) : Prop := back f x = ounit y /\ keeps x.
Definition unctrl {R S B : Type} (f : R -> B) (g : S -> B) (c : ctrl R S) : B := match c with Brk r => f r | Cont s => g s end.
Ltac fin := cbn [sim back omap obind ounit keeps fst snd unctrl]; first [ split; [reflexivity | first [assumption | exact I]] | idtac ].

Lemma tie_parse_property : forall s attr, u8s s -> sim Mprop (g_parse_property attr s) (parse_property true (Rst s) attr).
Proof.
  intros s attr U. unfold g_parse_property, g_GdsParser_parse_property, parse_property. ps.
  step_next s U; unfold sim; cbn [obind ounit back omap keeps]; try (split; [reflexivity|exact I]).
  destruct r; cbn [Grec]; (split; [reflexivity| first [assumption | exact I]]).
Qed.

Lemma land_bit : forall a n, 0 <= n -> negb (Z.land a (2 ^ n) =? 0) = Z.testbit a n.
Proof.
  intros a n Hn. destruct (Z.testbit a n) eqn:E.
  - apply negb_true_iff. apply Z.eqb_neq. intros H. assert (T : Z.testbit (Z.land a (2 ^ n)) n = true).
    { rewrite Z.land_spec, E, Z.pow2_bits_true by lia. reflexivity. } rewrite H in T. rewrite Z.bits_0 in T. discriminate.
  - apply negb_false_iff. apply Z.eqb_eq. apply Z.bits_inj'. intros m Hm. rewrite Z.land_spec, Z.bits_0.
    destruct (Z.eq_dec m n) as [->|Ne]; [rewrite E; reflexivity|]. rewrite Z.pow2_bits_false by lia. apply andb_false_r.
Qed.

Definition strans_run (f : nat) (g : gGdsStrans Z Z) (s : pst) :=
  k_loop pm_kops (pm_nofuel _) f (fun fuel st => g_GdsParser_parse_strans_loop1 pm_xops bytes x_next x_peek fuel st) g s.
Lemma tie_parse_strans_loop : forall f s g, u8s s ->
  sim (unctrl Mstrans Mstrans) (strans_run f g s) (strans_loop true f (Rst s) (Mstrans g)).
Proof.
  induction f as [|f IH]; intros s g U; unfold strans_run; [split; [reflexivity|exact I]|].
  cbn [k_loop strans_loop]. ps. unfold g_GdsParser_parse_strans_loop1 at 1. ps. unfold x_peek at 1. cbv beta iota.
  destruct s as [nx bs]. cbn [fst snd Rst nxt].
  destruct nx; cbn [Grec]; try (split; [reflexivity|exact U]).
  all: match goal with |- context [x_next ?st] => step_next st U end; cbn [obind]; try (split; [reflexivity|exact I]).
  all: destruct g as [gr gam gaa gmg gan]; lazymatch goal with K : u8s ?s1 |- _ => exact (IH s1 _ K) end.
Qed.

Lemma tie_parse_strans : forall f s d0 d1, u8s s -> sim Mstrans (g_parse_strans f d0 d1 s) (parse_strans true f (Rst s) d0 d1).
Proof.
  intros f s d0 d1 U. unfold g_parse_strans, g_GdsParser_parse_strans, parse_strans. ps.
  change (Z.land d0 128) with (Z.land d0 (2 ^ 7)). change (Z.land d1 4) with (Z.land d1 (2 ^ 2)). change (Z.land d1 2) with (Z.land d1 (2 ^ 1)).
  rewrite (land_bit d0 7), (land_bit d1 2), (land_bit d1 1) by lia.
  set (g0 := @mk_gGdsStrans Z Z (Z.testbit d0 7) (Z.testbit d1 2) (Z.testbit d1 1) None None).
  change (mkStrans (Z.testbit d0 7) (Z.testbit d1 2) (Z.testbit d1 1) None None) with (Mstrans g0).
  fold (strans_run f g0 s).
  destruct (tie_parse_strans_loop f s g0 U) as [E K].
  destruct (strans_run f g0 s) as [[[v|g'] s1]| | |]; cbn [back omap obind fst snd unctrl] in E;
    unfold sim; cbn [back omap obind fst snd keeps] in *; rewrite <- E; (split; [reflexivity|exact K]).
Qed.


(** the model's builder (the fields set so far) as the generated typed builders: the value of each field is what [bfind] finds *)
Definition opt_pts (b : builder) : option (list point) := match bfind Xy b with Some (VPts l) => Some l | _ => None end.
Definition Gflags (x : bits2) : gGdsElemFlags Z Z := mk_gGdsElemFlags (fst x) (snd x).
Definition Gplex (z : Z) : gGdsPlex Z Z := mk_gGdsPlex z.
Lemma req_z_opt : forall rt b, req_z rt b = match opt_z rt b with Some z => Ok z | None => Err EStr end.
Proof. intros rt b. unfold req_z, opt_z. destruct (bfind rt b) as [[]|]; reflexivity. Qed.
Lemma req_pts_opt : forall b, req_pts b = match opt_pts b with Some l => Ok l | None => Err EStr end.
Proof. intros b. unfold req_pts, opt_pts. destruct (bfind Xy b) as [[]|]; reflexivity. Qed.
Lemma map_Mpt_Gpt : forall l, map Mpt (map Gpt l) = l.
Proof. induction l as [|[x y] l IH]; [reflexivity|]. cbn [map]. rewrite IH. reflexivity. Qed.


Definition opt_pt (b : builder) : option point := match bfind Xy b with Some (VPts [p]) => Some p | _ => None end.
Definition opt_str (rt : rtype) (b : builder) : option bytes := match bfind rt b with Some (VStr s) => Some s | _ => None end.
Definition Gpres (x : bits2) : gGdsPresentation Z Z := mk_gGdsPresentation (fst x) (snd x).
Definition Gstrans (s : strans) : gGdsStrans Z Z := mk_gGdsStrans (st_reflected s) (st_abs_mag s) (st_abs_angle s) (st_mag s) (st_angle s).
Lemma req_pt_opt : forall b, req_pt b = match opt_pt b with Some p => Ok p | None => Err EStr end.
Proof. intros b. unfold req_pt, opt_pt. destruct (bfind Xy b) as [[| |[|p [|q l]]| |]|]; reflexivity. Qed.
Lemma req_str_opt : forall rt b, req_str rt b = match opt_str rt b with Some s => Ok s | None => Err EStr end.
Proof. intros rt b. unfold req_str, opt_str. destruct (bfind rt b) as [[]|]; reflexivity. Qed.
(** `GdsPoint::parse` *)
Lemma tie_parse_point : forall l s, g_parse_point l s = match parse_point l with Ok p => Ok (Gpt p, s) | Err _ => Err tt | Panic => Panic | OutOfFuel => OutOfFuel end.
Proof.
  intros l s. unfold g_parse_point, g_GdsPoint_parse, parse_point. ps.
  destruct l as [|x [|y [|z l]]]; try reflexivity.
  cbn [length]. replace (Z.of_nat (S (S (S (length l)))) =? 2) with false by (symmetry; apply Z.eqb_neq; lia). reflexivity.
Qed.
Lemma nat_eqb_Z : forall (n m : nat), (Z.of_nat n =? Z.of_nat m) = Nat.eqb n m.
Proof. intros n m. destruct (Nat.eqb n m) eqn:E; [apply Nat.eqb_eq in E; subst; apply Z.eqb_refl | apply Nat.eqb_neq in E; apply Z.eqb_neq; lia]. Qed.

Ltac cls := repeat match goal with u : unit |- _ => destruct u end; split; [reflexivity | first [assumption | exact I]].
Ltac acc := match goal with |- context [accepts ?k ?rt] => let v := eval vm_compute in (accepts k rt) in change (accepts k rt) with v end; cbn [negb field_of obind].
(** after a field record: the loop goes on with the builder the model has *)
Ltac goon IH Gb :=
  lazymatch goal with K : u8s ?s1 |- sim _ _ (parse_elem true ?f ?k (Rst ?s1) ?mb (map Mprop ?gp)) =>
    lazymatch goal with |- context [k_loop _ _ f _ (?nb, gp) s1] =>
      let H := fresh in assert (H : nb = Gb mb) by reflexivity; rewrite H; clear H; exact (IH s1 mb gp K) end end.
(** XY: `GdsPoint::parse_vec` (external) with the length test of a fixed-size array, or `GdsPoint::parse` *)
Ltac xy_arm :=
  first
  [ unfold x_parse_vec;
    lazymatch goal with |- context [parse_vec ?l] => destruct (parse_vec l) as [?v|?e| |] end; cbn [obind]; try cls;
    try (unfold k_vec_into_arr_q; rewrite map_length;
         lazymatch goal with |- context [Nat.eqb (length ?v) ?n] =>
           change (Z.of_nat (length v) =? Z.of_nat n) with (Z.of_nat (length v) =? Z.of_nat n);
           rewrite <- (nat_eqb_Z (length v) n); change (Z.of_nat n) with (Z.of_nat n);
           let c := eval vm_compute in (Z.of_nat n) in change (Z.of_nat n) with c;
           destruct (Z.of_nat (length v) =? c); ps; cbn [obind]; try cls end)
  | lazymatch goal with |- context [g_GdsPoint_parse pm_xops ?l ?s] => change (g_GdsPoint_parse pm_xops l s) with (g_parse_point l s); rewrite (tie_parse_point l s) end;
    lazymatch goal with |- context [parse_point ?l] => destruct (parse_point l) as [?p|?e| |] end; cbn [obind]; try cls ].
(** STRANS: `self.parse_strans(d0, d1)?` on the remaining fuel *)
Ltac strans_arm :=
  lazymatch goal with K : u8s ?s1 |- context [g_GdsParser_parse_strans pm_xops bytes pm_nofuel x_next x_peek ?f ?d0 ?d1 ?s1] =>
    change (g_GdsParser_parse_strans pm_xops bytes pm_nofuel x_next x_peek f d0 d1 s1) with (g_parse_strans f d0 d1 s1);
    let E2 := fresh "E" in let K2 := fresh "K" in
    destruct (tie_parse_strans f s1 d0 d1 K) as [E2 K2];
    destruct (g_parse_strans f d0 d1 s1) as [[?t ?s2]| | |]; destruct (parse_strans true f (Rst s1) d0 d1) as [[?t0 ?st2]|?e9| |];
    cbn [back omap obind ounit fst snd keeps] in E2, K2; try discriminate E2; cbn [obind]; try cls;
    inversion E2; subst; clear K;
    lazymatch goal with t : gGdsStrans Z Z |- _ => destruct t end end.
(** PROPATTR: `props.push(self.parse_property(attr)?)` *)
Ltac prop_arm IH :=
  lazymatch goal with K : u8s ?s1 |- context [g_GdsParser_parse_property pm_xops bytes x_next ?z ?s1] =>
    change (g_GdsParser_parse_property pm_xops bytes x_next z s1) with (g_parse_property z s1);
    let E2 := fresh "E" in let K2 := fresh "K" in
    destruct (tie_parse_property s1 z K) as [E2 K2];
    destruct (g_parse_property z s1) as [[?p ?s2]| | |]; destruct (parse_property true (Rst s1) z) as [[?p0 ?st2]|?e9| |];
    cbn [back omap obind ounit fst snd keeps] in E2, K2; try discriminate E2; cbn [obind]; try cls;
    inversion E2; subst; ps; cbv beta iota;
    lazymatch goal with |- context [map Mprop ?gp ++ [Mprop ?p]] =>
      replace (map Mprop gp ++ [Mprop p]) with (map Mprop (gp ++ [p])) by (rewrite map_app; reflexivity);
      lazymatch goal with |- sim _ _ (parse_elem _ _ _ _ ?mb _) => exact (IH _ mb (gp ++ [p]) K2) end end end.




