(** Theorems over the tables that tools/translate_gds_tables.py regenerates from the Rust source on
    every run (coq/Gen/GdsTablesGen.v): the implementation's record numbering is the numbering of the
    format specification, and the (record type, data type, length) tables of `write_record_header`
    and `read_record_content` are the table [arm_of] of the hand-written model (which the theorems
    C01/C02/C03/C10 are about) and agree with the data types of the specification's table.
    All statements are closed boolean computations. *)
From Coq Require Import ZArith Bool List String.
From L21 Require Import Base.Hex Gen.GdsTablesGen Gds.GdsData Gds.GdsRecord Gds.GdsSpec.
Import ListNotations.
Local Open Scope string_scope.
Local Open Scope Z_scope.

Definition GdsW_arm := (string * string * Z)%type.
Definition GdsW_arm_eqb (a b : GdsW_arm) : bool :=
  let '(r1, d1, n1) := a in let '(r2, d2, n2) := b in String.eqb r1 r2 && String.eqb d1 d2 && (n1 =? n2).
(** equal as sets, and of equal length *)
Definition GdsW_same_set {A} (eqb : A -> A -> bool) (a b : list A) : bool :=
  forallb (fun x => existsb (eqb x) b) a && forallb (fun x => existsb (eqb x) a) b &&
  Nat.eqb (List.length a) (List.length b).
Fixpoint GdsW_nodupb (l : list string) : bool :=
  match l with
  | [] => true
  | x :: r => negb (existsb (String.eqb x) r) && GdsW_nodupb r
  end.
Definition GdsW_lookup {B} (k : string) (l : list (string * B)) : option B :=
  match find (fun p => String.eqb (fst p) k) l with Some p => Some (snd p) | None => None end.

Definition GdsW_write_arms : list GdsW_arm := map (fun '(_, r, d, n, _) => (r, d, n)) gen_write_header.
Definition GdsW_read_arms : list GdsW_arm := map (fun '(r, d, n, _, _, _) => (r, d, n)) gen_read_content.

(** * Numbering *)
Theorem GdsW_rtypes_eq_model : gen_rtypes = rtype_table.
Proof. vm_compute. reflexivity. Qed.
Theorem GdsW_rtypes_eq_spec : gen_rtypes = map (fun '(_, nm, c, _) => (nm, c)) spec_records.
Proof. vm_compute. reflexivity. Qed.
Theorem GdsW_dtypes_eq_model : gen_dtypes = dtype_table.
Proof. vm_compute. reflexivity. Qed.
Theorem GdsW_dtypes_eq_spec : gen_dtypes = spec_dtypes.
Proof. vm_compute. reflexivity. Qed.
Theorem GdsW_invalid_eq_model : gen_invalid = invalid_table.
Proof. vm_compute. reflexivity. Qed.
Theorem GdsW_invalid_eq_spec : gen_invalid = spec_unused.
Proof. vm_compute. reflexivity. Qed.

(** * `write_record_header` *)
(** every `GdsRecord` variant is encoded with the record type of the same name, once *)
Theorem GdsW_write_variant_is_rtype :
  forallb (fun '(v, r, _, _, _) => String.eqb v r) gen_write_header = true /\
  GdsW_nodupb (map (fun '(v, _, _, _, _) => v) gen_write_header) = true.
Proof. vm_compute. split; reflexivity. Qed.
(** the writer's (record type, data type, length) table is the model's [arm_of] *)
Theorem GdsW_write_arms_eq_model : GdsW_same_set GdsW_arm_eqb GdsW_write_arms arm_table = true.
Proof. vm_compute. reflexivity. Qed.
(** a length that is not a literal is `gds_strlen(s)` for strings and `4 * d.len()` for XY *)
Theorem GdsW_write_lenexpr :
  forallb (fun '(_, r, d, n, ex) =>
             if String.eqb ex "fixed" then (0 <=? n) && Z.even n
             else if String.eqb ex "strlen" then String.eqb d "Str" && (n =? -1)
             else if String.eqb ex "4*len" then String.eqb d "I32" && (n =? -1) && String.eqb r "Xy"
             else false) gen_write_header = true.
Proof. vm_compute. reflexivity. Qed.
(** every (record type, data type) pair the writer emits is the pair of the specification's table,
    and no record type the manual marks unused is emitted *)
Theorem GdsW_write_arms_in_spec :
  forallb (fun '(_, r, d, _, _) =>
             existsb (fun '(_, nm, _, dc) =>
                        String.eqb nm r &&
                        match GdsW_lookup d gen_dtypes with Some c => c =? dc | None => false end) spec_records &&
             negb (existsb (String.eqb r) spec_unused)) gen_write_header = true.
Proof. vm_compute. reflexivity. Qed.

(** * `write_record_content`: the payload writer of every variant fits its data type and length *)
Definition GdsW_content_ok (d : string) (n : Z) (ex kind : string) : bool :=
  if String.eqb kind "none" then String.eqb d "NoData" && (n =? 0)
  else if String.eqb kind "u8,u8" then String.eqb d "BitArray" && (n =? 2)
  else if String.eqb kind "i16" then String.eqb d "I16" && (n =? 2)
  else if String.eqb kind "i16,i16" then String.eqb d "I16" && (n =? 4)
  else if String.eqb kind "i16*" then String.eqb d "I16" && String.eqb ex "fixed"
  else if String.eqb kind "i32" then String.eqb d "I32" && (n =? 4)
  else if String.eqb kind "i32*" then String.eqb d "I32" && String.eqb ex "4*len"
  else if String.eqb kind "f64" then String.eqb d "F64" && (n =? 8)
  else if String.eqb kind "f64,f64" then String.eqb d "F64" && (n =? 16)
  else if String.eqb kind "str+pad" then String.eqb d "Str" && String.eqb ex "strlen"
  else false.
Theorem GdsW_write_content_consistent :
  forallb (fun '(v, _, d, n, ex) =>
             match GdsW_lookup v gen_write_content with
             | Some kind => GdsW_content_ok d n ex kind
             | None => false
             end) gen_write_header = true /\
  GdsW_nodupb (map fst gen_write_content) = true /\
  List.length gen_write_content = List.length gen_write_header.
Proof. vm_compute. repeat split; reflexivity. Qed.

(** * `read_record_content` *)
Theorem GdsW_read_variant_is_rtype :
  forallb (fun '(r, _, _, v, _, _) => String.eqb r v) gen_read_content = true /\
  GdsW_nodupb (map (fun '(r, _, _, _, _, _) => r) gen_read_content) = true.
Proof. vm_compute. split; reflexivity. Qed.
(** the reader's (record type, data type, length) arms are the model's [arm_of] *)
Theorem GdsW_read_arms_eq_model : GdsW_same_set GdsW_arm_eqb GdsW_read_arms arm_table = true.
Proof. vm_compute. reflexivity. Qed.
(** ... hence the same table as the writer's *)
Theorem GdsW_read_arms_eq_write_arms : GdsW_same_set GdsW_arm_eqb GdsW_read_arms GdsW_write_arms = true.
Proof. vm_compute. reflexivity. Qed.
(** the payload reader of every arm is the one of its data type, and the indices the arm accesses
    exist for the length the arm matched (`[0]` needs one element, `[1]` two; `try_into().unwrap()`
    a fixed length) *)
Definition GdsW_reader_ok (d : string) (n : Z) (rd acc : string) : bool :=
  let size := if String.eqb d "I16" then 2 else if String.eqb d "I32" then 4 else if String.eqb d "F64" then 8 else 1 in
  (if String.eqb d "NoData" then String.eqb rd "none" && (n =? 0)
   else if String.eqb d "BitArray" then String.eqb rd "read_bytes"
   else if String.eqb d "I16" then String.eqb rd "read_i16"
   else if String.eqb d "I32" then String.eqb rd "read_i32"
   else if String.eqb d "F64" then String.eqb rd "read_f64"
   else if String.eqb d "Str" then String.eqb rd "read_str"
   else false) &&
  (if String.eqb acc "whole" then true
   else if String.eqb acc "idx0" then size <=? n
   else if String.eqb acc "idx01" then 2 * size <=? n
   else if String.eqb acc "all" then 0 <=? n
   else false).
Theorem GdsW_read_reader_consistent :
  forallb (fun '(_, d, n, _, rd, acc) => GdsW_reader_ok d n rd acc) gen_read_content = true.
Proof. vm_compute. reflexivity. Qed.
