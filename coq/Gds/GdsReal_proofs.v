(** Proofs about the model in Gds/GdsReal.v (GDSII eight-byte real codec).
    The theorems of Properties/C15.v are closed by [exact] with the lemmas of this file.
    No axioms: everything is integer arithmetic over [Z]. *)
From Coq Require Import ZArith Bool Lia.
From L21 Require Import Base.F64 Gds.GdsReal.
Local Open Scope Z_scope.

(** * Definitions used by the property statements (Properties/C15.v) *)

Definition rne_of (M q : Z) : Prop :=
  let sh := Z.log2 M - 52 in
  two52 <= q <= two53 /\
  (sh <= 0 -> q = M * 2 ^ (- sh)) /\
  (0 < sh -> 2 * Z.abs (M - q * 2 ^ sh) <= 2 ^ sh /\
             (2 * Z.abs (M - q * 2 ^ sh) = 2 ^ sh -> Z.even q = true)).

Definition f64_of_dyadic (s : bool) (q e : Z) : Z :=
  if q =? two53 then f64_of_norm s two52 (e + 1) else f64_of_norm s q e.

Definition sig53 (M : Z) : Prop := M mod 2 ^ (Z.log2 M - 52) = 0.

(** * Tactics *)

Ltac consts := unfold two52, two53, two56, two63, two64 in *.
(** linear arithmetic with division and modulus by literals *)
Ltac dm_lia := Z.div_mod_to_equations; lia.
(** replace the closed power [2 ^ n] by its value everywhere *)
Ltac pow_lit n :=
  let v := eval vm_compute in (2 ^ n) in change (2 ^ n) with v in *.

Lemma two52_eq : two52 = 2 ^ 52. Proof. reflexivity. Qed.
Lemma two53_eq : two53 = 2 ^ 53. Proof. reflexivity. Qed.
Lemma two56_eq : two56 = 2 ^ 56. Proof. reflexivity. Qed.
Lemma two63_eq : two63 = 2 ^ 63. Proof. reflexivity. Qed.
Lemma two64_eq : two64 = 2 ^ 64. Proof. reflexivity. Qed.

(** * Layer A: binary64 bit patterns *)

Lemma bexp_of_norm s m e :
  two52 <= m < two53 -> 1 <= e + 1075 <= 2046 ->
  f64_bexp (f64_of_norm s m e) = e + 1075.
Proof.
  intros Hm He. unfold f64_bexp, f64_of_norm. consts. destruct s; dm_lia.
Qed.

Lemma frac_of_norm s m e :
  two52 <= m < two53 -> 1 <= e + 1075 <= 2046 ->
  f64_frac (f64_of_norm s m e) = m - two52.
Proof.
  intros Hm He. unfold f64_frac, f64_of_norm. consts. destruct s; dm_lia.
Qed.

Lemma sign_of_norm s m e :
  two52 <= m < two53 -> 1 <= e + 1075 <= 2046 ->
  f64_sign (f64_of_norm s m e) = s.
Proof.
  intros Hm He. unfold f64_sign, f64_of_norm. consts.
  destruct s; [apply Z.leb_le | apply Z.leb_gt]; lia.
Qed.

Lemma word_of_norm s m e :
  two52 <= m < two53 -> 1 <= e + 1075 <= 2046 ->
  word64 (f64_of_norm s m e).
Proof.
  intros Hm He. unfold word64, f64_of_norm. consts. destruct s; lia.
Qed.

Lemma normal_of_norm s m e :
  two52 <= m < two53 -> 1 <= e + 1075 <= 2046 ->
  f64_normal (f64_of_norm s m e).
Proof.
  intros Hm He. split; [apply word_of_norm; assumption|].
  rewrite bexp_of_norm by assumption. exact He.
Qed.

Lemma decomp_of_norm s m e :
  two52 <= m < two53 -> 1 <= e + 1075 <= 2046 ->
  f64_decomp (f64_of_norm s m e) = Some (s, m, e).
Proof.
  intros Hm He. unfold f64_decomp. cbv zeta.
  rewrite (bexp_of_norm s m e Hm He), (frac_of_norm s m e Hm He), (sign_of_norm s m e Hm He).
  destruct (Z.eqb_spec (e + 1075) 2047) as [H1|H1]; [lia|].
  destruct (Z.eqb_spec (e + 1075) 0) as [H2|H2]; [lia|].
  replace (m - two52 + two52) with m by lia.
  replace (e + 1075 - 1075) with e by lia. reflexivity.
Qed.

Lemma norm_of_decomp x s m e :
  f64_normal x -> f64_decomp x = Some (s, m, e) ->
  x = f64_of_norm s m e /\ two52 <= m < two53 /\ 1 <= e + 1075 <= 2046.
Proof.
  intros [Hw Hb] Hd. unfold f64_decomp in Hd. cbv zeta in Hd.
  destruct (Z.eqb_spec (f64_bexp x) 2047) as [H1|H1]; [lia|].
  destruct (Z.eqb_spec (f64_bexp x) 0) as [H2|H2]; [lia|].
  injection Hd as Hs Hm He. subst s m e.
  unfold f64_of_norm, f64_sign, f64_frac, f64_bexp, word64 in *. consts.
  destruct (Z.leb_spec 9223372036854775808 x) as [H3|H3]; dm_lia.
Qed.

Lemma bexp_range x : 0 <= f64_bexp x < 2048.
Proof. unfold f64_bexp. apply Z.mod_pos_bound. lia. Qed.

Lemma log2_norm m : two52 <= m < two53 -> Z.log2 m = 52.
Proof.
  intros Hm. apply Z.log2_unique; [lia|].
  change (2 ^ 52) with two52. change (2 ^ Z.succ 52) with two53. exact Hm.
Qed.

(** * Comparison with a power of two *)

Lemma dy_lt_pow2_log2 m e p :
  0 < m -> dy_lt_pow2 m e p = (Z.log2 m + e <? p).
Proof.
  intros Hm. unfold dy_lt_pow2.
  pose proof (Z.log2_nonneg m) as Hl.
  destruct (Z.le_gt_cases p e) as [Hpe|Hpe].
  - rewrite (Z.max_r 0 (e - p)) by lia. rewrite (Z.max_l 0 (p - e)) by lia.
    rewrite Z.pow_0_r.
    assert (Hp : 0 < 2 ^ (e - p)) by (apply Z.pow_pos_nonneg; lia).
    transitivity false; [apply Z.ltb_ge; nia | symmetry; apply Z.ltb_ge; lia].
  - rewrite (Z.max_l 0 (e - p)) by lia. rewrite (Z.max_r 0 (p - e)) by lia.
    rewrite Z.pow_0_r, Z.mul_1_r.
    destruct (Z.ltb_spec m (2 ^ (p - e))) as [H|H]; symmetry.
    + apply Z.ltb_lt. apply Z.log2_lt_pow2 in H; lia.
    + apply Z.ltb_ge. destruct (Z.lt_ge_cases (Z.log2 m) (p - e)) as [H2|H2]; [|lia].
      apply Z.log2_lt_pow2 in H2; lia.
Qed.

(** The characterisation asked for in DESIGN: [dy_lt_pow2] decides m*2^e < 2^p. *)
Lemma dy_lt_pow2_spec m e p :
  0 <= m ->
  (dy_lt_pow2 m e p = true <-> m * 2 ^ (Z.max 0 (e - p)) < 2 ^ (Z.max 0 (p - e))).
Proof. intros _. unfold dy_lt_pow2. apply Z.ltb_lt. Qed.

Lemma dy_lt_pow2_mono m e p p' :
  0 < m -> p <= p' -> dy_lt_pow2 m e p = true -> dy_lt_pow2 m e p' = true.
Proof.
  intros Hm Hp. rewrite !dy_lt_pow2_log2 by exact Hm.
  intros H. apply Z.ltb_lt in H. apply Z.ltb_lt. lia.
Qed.

(** * The exponent search *)

Lemma adj_down_spec m e :
  0 < m -> forall fuel ex, -64 <= ex -> ex + 64 <= Z.of_nat fuel ->
  adj_down fuel m e ex = Z.max (-64) (Z.min ex (true_exp16 m e)).
Proof.
  intros Hm. induction fuel as [|f IH]; intros ex Hlo Hf.
  - cbn [adj_down]. lia.
  - cbn [adj_down]. rewrite dy_lt_pow2_log2 by exact Hm.
    unfold true_exp16 in *. cbv zeta in *.
    destruct (Z.ltb_spec (-64) ex) as [H1|H1];
      destruct (Z.ltb_spec (Z.log2 m + e) (4 * (ex - 1))) as [H2|H2]; cbn [andb].
    + rewrite IH by lia. dm_lia.
    + dm_lia.
    + dm_lia.
    + dm_lia.
Qed.

Lemma adj_up_spec m e :
  0 < m -> forall fuel ex, ex <= 63 -> 63 - ex <= Z.of_nat fuel ->
  adj_up fuel m e ex = Z.min 63 (Z.max ex (true_exp16 m e)).
Proof.
  intros Hm. induction fuel as [|f IH]; intros ex Hhi Hf.
  - cbn [adj_up]. lia.
  - cbn [adj_up]. rewrite dy_lt_pow2_log2 by exact Hm.
    unfold true_exp16 in *. cbv zeta in *.
    destruct (Z.ltb_spec ex 63) as [H1|H1];
      destruct (Z.ltb_spec (Z.log2 m + e) (4 * ex)) as [H2|H2]; cbn [andb negb].
    + dm_lia.
    + rewrite IH by lia. dm_lia.
    + dm_lia.
    + dm_lia.
Qed.

(** 128 iterations are enough for both loops, whatever the estimate. *)
Lemma adj_fuel_enough est m e :
  0 < m -> gds_exponent est m e = clampZ (-64) 63 (true_exp16 m e).
Proof.
  intros Hm. unfold gds_exponent.
  assert (Hf : Z.of_nat adj_fuel = 128) by reflexivity.
  assert (Hc : -64 <= clampZ (-64) 63 est <= 63) by (unfold clampZ; lia).
  rewrite (adj_down_spec m e Hm adj_fuel) by lia.
  rewrite (adj_up_spec m e Hm adj_fuel) by lia.
  unfold clampZ in *. lia.
Qed.

(** * Fields of an eight-byte real *)

Definition sbit (s : bool) : Z := if s then 128 else 0.

Lemma gds_fields w s X Mt :
  w = (sbit s + X) * two56 + Mt -> 0 <= X <= 127 -> 0 <= Mt < two56 ->
  word64 w /\ gds_sign w = s /\ gds_exp7 w = X /\ gds_mant w = Mt.
Proof.
  intros Hw HX HM. subst w. unfold word64, gds_sign, gds_exp7, gds_mant, sbit. consts.
  destruct s.
  - repeat split; try lia; dm_lia.
  - repeat split; try lia; dm_lia.
Qed.

Lemma word_fields w :
  word64 w ->
  w = (sbit (gds_sign w) + gds_exp7 w) * two56 + gds_mant w /\
  0 <= gds_exp7 w <= 127 /\ 0 <= gds_mant w < two56.
Proof.
  intros Hw. unfold word64, gds_sign, gds_exp7, gds_mant, sbit in *. consts.
  destruct (Z.leb_spec 9223372036854775808 w) as [H|H]; dm_lia.
Qed.

(** * [u64 as f64] on a 56-bit integer *)

Lemma rne53_small M :
  0 < M -> Z.log2 M <= 52 -> rne53 M = (M * 2 ^ (52 - Z.log2 M), Z.log2 M).
Proof.
  intros HM HL. unfold rne53. cbv zeta.
  destruct (Z.leb_spec (Z.log2 M) 52) as [H|H]; [reflexivity | lia].
Qed.

Lemma small_scaled_range M :
  0 < M -> Z.log2 M <= 52 -> two52 <= M * 2 ^ (52 - Z.log2 M) < two53.
Proof.
  intros HM HL.
  pose proof (Z.log2_nonneg M) as H0.
  pose proof (Z.log2_spec M HM) as [Hlo Hhi].
  assert (Hp : 0 < 2 ^ (52 - Z.log2 M)) by (apply Z.pow_pos_nonneg; lia).
  assert (E1 : 2 ^ Z.log2 M * 2 ^ (52 - Z.log2 M) = two52).
  { rewrite <- Z.pow_add_r by lia. replace (Z.log2 M + (52 - Z.log2 M)) with 52 by lia. reflexivity. }
  assert (E2 : 2 ^ Z.succ (Z.log2 M) * 2 ^ (52 - Z.log2 M) = two53).
  { rewrite <- Z.pow_add_r by lia. replace (Z.succ (Z.log2 M) + (52 - Z.log2 M)) with 53 by lia. reflexivity. }
  split.
  - rewrite <- E1. apply Z.mul_le_mono_nonneg_r; lia.
  - rewrite <- E2. apply Z.mul_lt_mono_pos_r; lia.
Qed.

(** a value that already fits 53 bits is not changed *)
Lemma rne53_exact m j :
  two52 <= m < two53 -> 0 <= j <= 3 -> rne53 (m * 2 ^ j) = (m, 52 + j).
Proof.
  intros Hm Hj.
  assert (Hm0 : 0 < m) by (consts; lia).
  assert (HL : Z.log2 (m * 2 ^ j) = 52 + j).
  { rewrite Z.log2_mul_pow2 by lia. rewrite (log2_norm m Hm). lia. }
  assert (Hp : 0 < 2 ^ j) by (apply Z.pow_pos_nonneg; lia).
  unfold rne53. cbv zeta. rewrite HL.
  destruct (Z.leb_spec (52 + j) 52) as [H|H].
  - assert (j = 0) by lia. subst j. change (2 ^ 0) with 1.
    change (2 ^ (52 - (52 + 0))) with 1. rewrite !Z.mul_1_r. reflexivity.
  - replace (52 + j - 52) with j by lia.
    rewrite Z.div_mul by lia. rewrite Z.mod_mul by lia.
    assert (Hh : 0 < 2 ^ (j - 1)) by (apply Z.pow_pos_nonneg; lia).
    destruct (Z.ltb_spec (2 ^ (j - 1)) 0) as [H1|H1]; [lia|].
    destruct (Z.eqb_spec (2 ^ (j - 1)) 0) as [H2|H2]; [lia|].
    cbn [orb andb].
    destruct (Z.eqb_spec m two53) as [H3|H3]; [lia|]. reflexivity.
Qed.

(** one rounding case, for a literal shift *)
Ltac rne_case HM H :=
  match type of H with
  | Z.log2 ?M = ?L =>
    let Hsp := fresh "Hsp" in
    pose proof (Z.log2_spec M HM) as Hsp;
    unfold rne53, rne_of; cbv zeta; rewrite H in Hsp |- *;
    change (L <=? 52) with false; cbv iota;
    pow_lit (L - 52); pow_lit (L - 52 - 1); pow_lit L; pow_lit (Z.succ L)
  end.

Lemma rne53_spec M :
  0 < M < two56 ->
  exists q, rne_of M q /\
    rne53 M = if q =? two53 then (two52, Z.log2 M + 1) else (q, Z.log2 M).
Proof.
  intros [HM Hlt].
  pose proof (Z.log2_nonneg M) as H0.
  assert (H55 : Z.log2 M < 56).
  { apply Z.log2_lt_pow2; [exact HM|]. rewrite <- two56_eq. exact Hlt. }
  destruct (Z.le_gt_cases (Z.log2 M) 52) as [Hs|Hb].
  - exists (M * 2 ^ (52 - Z.log2 M)).
    pose proof (small_scaled_range M HM Hs) as Hr.
    split.
    + unfold rne_of. cbv zeta. split; [lia|]. split.
      * intros _. f_equal. f_equal. lia.
      * intros Hc. lia.
    + rewrite (rne53_small M HM Hs).
      destruct (Z.eqb_spec (M * 2 ^ (52 - Z.log2 M)) two53) as [H|H]; [lia | reflexivity].
  - assert (Hc : Z.log2 M = 53 \/ Z.log2 M = 54 \/ Z.log2 M = 55) by lia.
    destruct Hc as [Hc|[Hc|Hc]].
    all: rne_case HM Hc.
    all: eexists; split; [|reflexivity].
    all: consts.
    all: match goal with
         | |- context [?h <? ?r] =>
           destruct (Z.ltb_spec h r) as [H1|H1]; destruct (Z.eqb_spec h r) as [H2|H2]
         end.
    all: match goal with
         | |- context [Z.odd ?q] => destruct (Z.odd q) eqn:Hodd
         end.
    all: cbn [orb andb].
    all: (split; [dm_lia|]); (split; [intros Hx; exfalso; lia|]); intros _;
         (split; [dm_lia|]); intros Heq.
    all: try (exfalso; dm_lia).
    all: try (rewrite Z.add_1_r, Z.even_succ; exact Hodd).
    all: try (rewrite <- Z.negb_odd, Hodd; reflexivity).
Qed.

(** * decode *)

Lemma gds_decode_nz w m k :
  gds_mant w <> 0 -> rne53 (gds_mant w) = (m, k) ->
  gds_decode w = f64_of_norm (gds_sign w) m (k - 52 + gds_e2 w).
Proof.
  intros Hnz Hr. unfold gds_decode. cbv zeta.
  destruct (Z.eqb_spec (gds_mant w) 0) as [H|H]; [contradiction|].
  rewrite Hr. reflexivity.
Qed.

Lemma pow2_small j : 0 <= j <= 3 -> 1 <= 2 ^ j <= 8.
Proof.
  intros Hj. assert (Hc : j = 0 \/ j = 1 \/ j = 2 \/ j = 3) by lia.
  destruct Hc as [Hc|[Hc|[Hc|Hc]]]; subst j; cbv; split; discriminate.
Qed.

(** decoding a normalised real whose mantissa has at most 53 significant bits is exact *)
Lemma decode_exact s X m j :
  two52 <= m < two53 -> 0 <= j <= 3 -> 0 <= X <= 127 ->
  gds_decode ((sbit s + X) * two56 + m * 2 ^ j) = f64_of_norm s m (4 * (X - 64) - 56 + j).
Proof.
  intros Hm Hj HX.
  pose proof (pow2_small j Hj) as Hp.
  assert (HM : 0 <= m * 2 ^ j < two56) by (consts; nia).
  destruct (gds_fields _ s X (m * 2 ^ j) eq_refl HX HM) as (_ & Hs & He & Hmt).
  rewrite (gds_decode_nz _ m (52 + j)).
  - rewrite Hs. unfold gds_e2. rewrite He. f_equal. lia.
  - rewrite Hmt. consts. nia.
  - rewrite Hmt. apply rne53_exact; assumption.
Qed.

(** * encode *)

Lemma encode_with_decomp est x s m e :
  f64_decomp x = Some (s, m, e) -> m <> 0 ->
  gds_encode_with est x =
    (sbit s + (64 + gds_exponent est m e)) * two56
    + Z.min (rha m (e + 56 - 4 * gds_exponent est m e)) (two64 - 1) mod two56.
Proof.
  intros Hd Hm. unfold gds_encode_with. rewrite Hd.
  destruct (Z.eqb_spec m 0) as [H|H]; [contradiction | reflexivity].
Qed.

Lemma true_exp16_norm m e : two52 <= m < two53 -> true_exp16 m e = (e + 56) / 4.
Proof.
  intros Hm. unfold true_exp16. cbv zeta. rewrite (log2_norm m Hm). f_equal. lia.
Qed.

(** encoding a normal double whose base-16 exponent E is in -64..63 *)
Lemma encode_mid est x s m e E j :
  f64_decomp x = Some (s, m, e) -> two52 <= m < two53 ->
  e = 4 * E - 56 + j -> -64 <= E <= 63 -> 0 <= j <= 3 ->
  gds_encode_with est x = (sbit s + (64 + E)) * two56 + m * 2 ^ j.
Proof.
  intros Hd Hm He HE Hj.
  assert (Hm0 : 0 < m) by (consts; lia).
  rewrite (encode_with_decomp est x s m e Hd) by lia.
  rewrite (adj_fuel_enough est m e Hm0), (true_exp16_norm m e Hm).
  assert (HE' : (e + 56) / 4 = E) by (subst e; dm_lia).
  rewrite HE'. unfold clampZ.
  replace (Z.max (-64) (Z.min 63 E)) with E by lia.
  replace (e + 56 - 4 * E) with j by lia.
  unfold rha. destruct (Z.leb_spec 0 j) as [H|H]; [|lia].
  pose proof (pow2_small j Hj) as Hp.
  assert (HM : 0 <= m * 2 ^ j < two56) by (consts; nia).
  rewrite Z.min_l by (consts; lia).
  rewrite Z.mod_small by exact HM. reflexivity.
Qed.

Lemma roundtrip_mid est s m e :
  two52 <= m < two53 -> -312 <= e <= 199 ->
  gds_decode (gds_encode_with est (f64_of_norm s m e)) = f64_of_norm s m e.
Proof.
  intros Hm He.
  assert (Hd : f64_decomp (f64_of_norm s m e) = Some (s, m, e))
    by (apply decomp_of_norm; [exact Hm | lia]).
  rewrite (encode_mid est _ s m e ((e + 56) / 4) ((e + 56) mod 4) Hd Hm) by dm_lia.
  rewrite decode_exact by (try exact Hm; dm_lia).
  f_equal. dm_lia.
Qed.

(** * Doubles in the range of the format *)

Lemma in_range_norm x :
  word64 x -> in_gds_range x ->
  exists s m e, f64_decomp x = Some (s, m, e) /\ x = f64_of_norm s m e /\
    two52 <= m < two53 /\ -312 <= e <= 199.
Proof.
  intros Hw (s & m & e & Hd & Hm & Hlo & Hhi).
  rewrite dy_lt_pow2_log2 in Hlo, Hhi by exact Hm.
  apply Z.ltb_ge in Hlo. apply Z.ltb_lt in Hhi.
  exists s, m, e.
  assert (Hn : f64_normal x).
  { split; [exact Hw|]. pose proof (bexp_range x) as Hb.
    unfold f64_decomp in Hd. cbv zeta in Hd.
    destruct (Z.eqb_spec (f64_bexp x) 2047) as [H1|H1]; [discriminate|].
    destruct (Z.eqb_spec (f64_bexp x) 0) as [H2|H2]; [|lia].
    exfalso. injection Hd as _ Hfm He. subst e.
    assert (Hf : m < 2 ^ 52).
    { subst m. unfold f64_frac. rewrite <- two52_eq. apply Z.mod_pos_bound. consts. lia. }
    apply Z.log2_lt_pow2 in Hf; [lia | exact Hm]. }
  destruct (norm_of_decomp x s m e Hn Hd) as (Hx & Hmr & Her).
  rewrite (log2_norm m Hmr) in Hlo, Hhi.
  repeat split; try assumption; lia.
Qed.

(** The range used until 2026-10-02 (lower bound 16^-64) is inside the present one (16^-65). *)
Lemma in_gds_range_old_incl x : in_gds_range_old x -> in_gds_range x.
Proof.
  intros (s & m & e & Hd & Hm & Hlo & Hhi). exists s, m, e.
  repeat split; try assumption.
  destruct (dy_lt_pow2 m e (-260)) eqn:H; [|reflexivity].
  rewrite (dy_lt_pow2_mono m e (-260) (-256) Hm ltac:(lia) H) in Hlo. discriminate.
Qed.

(** [in_gds_rangeb] decides [in_gds_range]. *)
Lemma in_gds_rangeb_spec x : in_gds_rangeb x = true <-> in_gds_range x.
Proof.
  unfold in_gds_rangeb, in_gds_range. split.
  - destruct (f64_decomp x) as [[[s m] e]|]; [|discriminate].
    rewrite !andb_true_iff, negb_true_iff, Z.ltb_lt. intros [[Hm Hlo] Hhi].
    exists s, m, e. repeat split; assumption.
  - intros (s & m & e & Hd & Hm & Hlo & Hhi). rewrite Hd, Hlo, Hhi.
    apply Z.ltb_lt in Hm. rewrite Hm. reflexivity.
Qed.

(** In terms of the binary exponent of a normal double m * 2^e (2^52 <= m < 2^53):
    in range iff 2^-260 <= m * 2^e < 2^252 iff -312 <= e <= 199; in particular every
    in-range double is a normal one. The true base-16 exponent is then in -64..63. *)
Lemma in_range_true_exp16 x s m e :
  word64 x -> in_gds_range x -> f64_decomp x = Some (s, m, e) ->
  -64 <= true_exp16 m e <= 63.
Proof.
  intros Hw Hr Hd.
  destruct (in_range_norm x Hw Hr) as (s' & m' & e' & Hd' & _ & Hm & He).
  rewrite Hd in Hd'. injection Hd' as <- <- <-.
  rewrite (true_exp16_norm m e Hm). dm_lia.
Qed.

(** The lowest hex decade [16^-65, 16^-64) is in range and has true base-16 exponent -64,
    i.e. exponent byte 0 (this decade was outside [in_gds_range_old]). *)
Lemma lowest_decade_in_range s m e :
  two52 <= m < two53 -> -312 <= e <= -309 ->
  in_gds_range (f64_of_norm s m e) /\ ~ in_gds_range_old (f64_of_norm s m e) /\
  true_exp16 m e = -64.
Proof.
  intros Hm He.
  assert (Hm0 : 0 < m) by (consts; lia).
  assert (Hd : f64_decomp (f64_of_norm s m e) = Some (s, m, e))
    by (apply decomp_of_norm; [exact Hm | lia]).
  split; [|split].
  - exists s, m, e. rewrite !dy_lt_pow2_log2 by exact Hm0. rewrite (log2_norm m Hm).
    repeat split; try assumption; [apply Z.ltb_ge | apply Z.ltb_lt]; lia.
  - intros (s' & m' & e' & Hd' & _ & Hlo & _). rewrite Hd in Hd'. injection Hd' as <- <- <-.
    rewrite dy_lt_pow2_log2 in Hlo by exact Hm0. rewrite (log2_norm m Hm) in Hlo.
    apply Z.ltb_ge in Hlo. lia.
  - rewrite (true_exp16_norm m e Hm). dm_lia.
Qed.

(** * (1)-(3): encoding of in-range doubles *)

Theorem encode_is_reference :
  forall est x, word64 x -> in_gds_range x ->
    gds_encode_with est x = gds_spec_encode x.
Proof.
  intros est x Hw Hr.
  destruct (in_range_norm x Hw Hr) as (s & m & e & Hd & Hx & Hm & He).
  rewrite (encode_mid est x s m e ((e + 56) / 4) ((e + 56) mod 4) Hd Hm) by dm_lia.
  unfold gds_spec_encode. rewrite Hd.
  destruct (Z.eqb_spec m 0) as [H|H]; [consts; lia|].
  cbv zeta. rewrite (true_exp16_norm m e Hm).
  replace (e + 56 - 4 * ((e + 56) / 4)) with ((e + 56) mod 4) by dm_lia.
  reflexivity.
Qed.

Theorem encode_exact :
  forall est x s m e, word64 x -> in_gds_range x -> f64_decomp x = Some (s, m, e) ->
    let w := gds_encode_with est x in
    word64 w /\ gds_normalised w /\ gds_sign w = s /\
    gds_e2 w <= e /\ gds_mant w = m * 2 ^ (e - gds_e2 w).
Proof.
  intros est x s m e Hw Hr Hd.
  destruct (in_range_norm x Hw Hr) as (s' & m' & e' & Hd' & Hx & Hm & He).
  rewrite Hd in Hd'. injection Hd' as <- <- <-.
  cbv zeta.
  set (E := (e + 56) / 4). set (j := (e + 56) mod 4).
  assert (HE : -64 <= E <= 63) by (subst E; dm_lia).
  assert (Hj : 0 <= j <= 3) by (subst j; dm_lia).
  assert (Hej : e = 4 * E - 56 + j) by (subst E j; dm_lia).
  rewrite (encode_mid est x s m e E j Hd Hm Hej HE Hj).
  pose proof (pow2_small j Hj) as Hp.
  assert (HM : 0 <= m * 2 ^ j < two56) by (consts; nia).
  assert (HX : 0 <= 64 + E <= 127) by lia.
  destruct (gds_fields _ s (64 + E) (m * 2 ^ j) eq_refl HX HM) as (Hw' & Hs & Hx7 & Hmt).
  unfold gds_normalised, gds_e2. rewrite Hs, Hx7, Hmt.
  repeat split; try (apply Hw'); try lia.
  - consts; nia.
  - f_equal. f_equal. lia.
Qed.

(** the exponent byte is 64 + E with E the true base-16 exponent, and lies in 0..127
    (0 exactly on the lowest hex decade 16^-65 <= |x| < 16^-64) *)
Theorem encode_exp_byte :
  forall est x s m e, word64 x -> in_gds_range x -> f64_decomp x = Some (s, m, e) ->
    gds_exp7 (gds_encode_with est x) = 64 + true_exp16 m e /\
    0 <= 64 + true_exp16 m e <= 127 /\
    (gds_exp7 (gds_encode_with est x) = 0 <-> dy_lt_pow2 m e (-256) = true).
Proof.
  intros est x s m e Hw Hr Hd.
  destruct (in_range_norm x Hw Hr) as (s' & m' & e' & Hd' & Hx & Hm & He).
  rewrite Hd in Hd'. injection Hd' as <- <- <-.
  assert (Hm0 : 0 < m) by (consts; lia).
  set (E := (e + 56) / 4). set (j := (e + 56) mod 4).
  assert (HE : -64 <= E <= 63) by (subst E; dm_lia).
  assert (Hj : 0 <= j <= 3) by (subst j; dm_lia).
  assert (Hej : e = 4 * E - 56 + j) by (subst E j; dm_lia).
  rewrite (encode_mid est x s m e E j Hd Hm Hej HE Hj).
  pose proof (pow2_small j Hj) as Hp.
  assert (HM : 0 <= m * 2 ^ j < two56) by (consts; nia).
  assert (HX : 0 <= 64 + E <= 127) by lia.
  destruct (gds_fields _ s (64 + E) (m * 2 ^ j) eq_refl HX HM) as (_ & _ & Hx7 & _).
  rewrite Hx7, (true_exp16_norm m e Hm). fold E.
  split; [reflexivity|]. split; [exact HX|].
  rewrite dy_lt_pow2_log2 by exact Hm0. rewrite (log2_norm m Hm), Z.ltb_lt.
  subst E. split; intros H; dm_lia.
Qed.

Theorem decode_encode :
  forall est x, word64 x -> in_gds_range x ->
    gds_decode (gds_encode_with est x) = x.
Proof.
  intros est x Hw Hr.
  destruct (in_range_norm x Hw Hr) as (s & m & e & Hd & Hx & Hm & He).
  rewrite Hx. apply roundtrip_mid; [exact Hm | lia].
Qed.

Theorem decode_encode_zero :
  forall est x, f64_is_zero x = true ->
    f64_is_zero (gds_decode (gds_encode_with est x)) = true.
Proof.
  intros est x Hz. unfold f64_is_zero in Hz. apply orb_true_iff in Hz.
  assert (He : gds_encode_with est x = 0).
  { destruct Hz as [Hz|Hz]; apply Z.eqb_eq in Hz; subst x; reflexivity. }
  rewrite He. reflexivity.
Qed.

(** * (4): decode is correctly rounded *)

Lemma gds_e2_range w : word64 w -> -312 <= gds_e2 w <= 196.
Proof.
  intros Hw. destruct (word_fields w Hw) as (_ & HX & _). unfold gds_e2. lia.
Qed.

Lemma log2_mant_range w : word64 w -> gds_mant w <> 0 ->
  0 < gds_mant w < two56 /\ 0 <= Z.log2 (gds_mant w) <= 55.
Proof.
  intros Hw Hnz. destruct (word_fields w Hw) as (_ & _ & HM).
  assert (H0 : 0 < gds_mant w) by lia.
  split; [lia|]. split; [apply Z.log2_nonneg|].
  assert (H : Z.log2 (gds_mant w) < 56); [|lia].
  apply Z.log2_lt_pow2; [exact H0|]. rewrite <- two56_eq. lia.
Qed.

Theorem decode_correctly_rounded :
  forall w, word64 w -> gds_mant w <> 0 ->
    exists q, rne_of (gds_mant w) q /\
      let e := Z.log2 (gds_mant w) - 52 + gds_e2 w in
      gds_decode w = f64_of_dyadic (gds_sign w) q e /\
      f64_normal (gds_decode w) /\ f64_sign (gds_decode w) = gds_sign w.
Proof.
  intros w Hw Hnz.
  destruct (log2_mant_range w Hw Hnz) as (HM & HL).
  pose proof (gds_e2_range w Hw) as He2.
  destruct (rne53_spec (gds_mant w) HM) as (q & Hq & Hr).
  exists q. split; [exact Hq|]. cbv zeta.
  assert (Hqr : two52 <= q <= two53) by (apply Hq).
  assert (Hdec : gds_decode w =
            f64_of_dyadic (gds_sign w) q (Z.log2 (gds_mant w) - 52 + gds_e2 w)).
  { unfold f64_of_dyadic. destruct (Z.eqb_spec q two53) as [H|H].
    - rewrite (gds_decode_nz w _ _ Hnz Hr). f_equal. lia.
    - rewrite (gds_decode_nz w _ _ Hnz Hr). reflexivity. }
  split; [exact Hdec|]. rewrite Hdec. unfold f64_of_dyadic.
  destruct (Z.eqb_spec q two53) as [H|H].
  - split; [apply normal_of_norm | apply sign_of_norm]; consts; lia.
  - split; [apply normal_of_norm | apply sign_of_norm]; consts; lia.
Qed.

Theorem rne_unique :
  forall M q1 q2, 0 < M -> rne_of M q1 -> rne_of M q2 -> q1 = q2.
Proof.
  intros M q1 q2 HM (B1 & S1 & R1) (B2 & S2 & R2).
  cbv zeta in *.
  destruct (Z.le_gt_cases (Z.log2 M - 52) 0) as [Hs|Hs].
  - rewrite (S1 Hs), (S2 Hs). reflexivity.
  - destruct (R1 Hs) as [A1 E1]. destruct (R2 Hs) as [A2 E2].
    clear S1 S2 R1 R2.
    assert (HP : 0 < 2 ^ (Z.log2 M - 52)) by (apply Z.pow_pos_nonneg; lia).
    set (P := 2 ^ (Z.log2 M - 52)) in *.
    destruct (Z.lt_trichotomy q1 q2) as [Hlt|[Heq|Hgt]]; [|exact Heq|]; exfalso.
    + assert (Hm : (q1 + 1) * P <= q2 * P) by (apply Z.mul_le_mono_nonneg_r; lia).
      assert (Hq : q2 * P = (q1 + 1) * P) by lia.
      apply Z.mul_cancel_r in Hq; [|lia]. subst q2.
      assert (Ev1 : Z.even q1 = true) by (apply E1; lia).
      assert (Ev2 : Z.even (q1 + 1) = true) by (apply E2; lia).
      rewrite Z.add_1_r, Z.even_succ, <- Z.negb_even, Ev1 in Ev2. discriminate.
    + assert (Hm : (q2 + 1) * P <= q1 * P) by (apply Z.mul_le_mono_nonneg_r; lia).
      assert (Hq : q1 * P = (q2 + 1) * P) by lia.
      apply Z.mul_cancel_r in Hq; [|lia]. subst q1.
      assert (Ev2 : Z.even q2 = true) by (apply E2; lia).
      assert (Ev1 : Z.even (q2 + 1) = true) by (apply E1; lia).
      rewrite Z.add_1_r, Z.even_succ, <- Z.negb_even, Ev2 in Ev1. discriminate.
Qed.

Theorem decode_zero_mantissa :
  forall w, word64 w -> gds_mant w = 0 -> f64_is_zero (gds_decode w) = true.
Proof.
  intros w _ Hz. unfold gds_decode. cbv zeta. rewrite Hz.
  change (0 =? 0) with true. cbv iota.
  destruct (gds_sign w); reflexivity.
Qed.

(** * (5): re-encoding a 53-bit normalised real *)

Theorem encode_decode53 :
  forall est w, word64 w -> gds_normalised w -> sig53 (gds_mant w) ->
    gds_encode_with est (gds_decode w) = w.
Proof.
  intros est w Hw Hn H53. unfold gds_normalised in Hn. unfold sig53 in H53.
  destruct (word_fields w Hw) as (Hweq & HX & HM).
  set (M := gds_mant w) in *. set (X := gds_exp7 w) in *. set (s := gds_sign w) in *.
  assert (HM0 : 0 < M) by (consts; lia).
  assert (HL : 52 <= Z.log2 M <= 55).
  { split.
    - apply Z.log2_le_pow2; [exact HM0|]. rewrite <- two52_eq. exact Hn.
    - assert (H : Z.log2 M < 56); [|lia].
      apply Z.log2_lt_pow2; [exact HM0|]. rewrite <- two56_eq. lia. }
  set (j := Z.log2 M - 52) in *.
  assert (Hj : 0 <= j <= 3) by lia.
  assert (Hp : 0 < 2 ^ j) by (apply Z.pow_pos_nonneg; lia).
  apply Z.div_exact in H53; [|lia].
  set (q := M / 2 ^ j) in *.
  assert (HMq : M = q * 2 ^ j) by lia.
  assert (Hq0 : 0 < q) by nia.
  assert (Hlq : Z.log2 q = 52).
  { assert (H : Z.log2 M = j + Z.log2 q)
      by (rewrite HMq at 1; apply Z.log2_mul_pow2; lia).
    lia. }
  assert (Hq : two52 <= q < two53).
  { pose proof (Z.log2_spec q Hq0) as Hsp. rewrite Hlq in Hsp. exact Hsp. }
  assert (Hweq' : w = (sbit s + X) * two56 + q * 2 ^ j) by (rewrite <- HMq; exact Hweq).
  rewrite Hweq'.
  rewrite (decode_exact s X q j Hq Hj HX).
  assert (Hd : f64_decomp (f64_of_norm s q (4 * (X - 64) - 56 + j))
               = Some (s, q, 4 * (X - 64) - 56 + j))
    by (apply decomp_of_norm; [exact Hq | lia]).
  rewrite (encode_mid est _ s q _ (X - 64) j Hd Hq eq_refl) by lia.
  f_equal. f_equal. lia.
Qed.

(** * (6): decode . encode . decode = decode *)

Lemma rha_exact_neg A t : 0 < t -> rha (A * 2 ^ t) (- t) = A.
Proof.
  intros Ht. unfold rha. destruct (Z.leb_spec 0 (- t)) as [H|H]; [lia|].
  replace (- - t - 1) with (t - 1) by lia. replace (- - t) with t by lia.
  assert (Hh : 0 < 2 ^ (t - 1)) by (apply Z.pow_pos_nonneg; lia).
  assert (E : 2 ^ t = 2 * 2 ^ (t - 1)).
  { rewrite <- Z.pow_succ_r by lia. f_equal. lia. }
  rewrite Z.div_add_l by lia. rewrite Z.div_small by lia. lia.
Qed.

(** the rounded significand and exponent delivered by [rne53] *)
Lemma rne53_range M :
  0 < M < two56 ->
  exists m k, rne53 M = (m, k) /\ two52 <= m < two53 /\
    Z.log2 M <= k <= Z.log2 M + 1 /\
    (k = 56 -> two56 - 4 <= M) /\
    (Z.log2 M <= 52 -> k = Z.log2 M /\ m = M * 2 ^ (52 - Z.log2 M)).
Proof.
  intros HM.
  destruct (rne53_spec M HM) as (q & Hq & Hr).
  assert (H55 : Z.log2 M < 56).
  { apply Z.log2_lt_pow2; [lia|]. rewrite <- two56_eq. lia. }
  destruct Hq as (Hb & Hsm & Hbg). cbv zeta in *.
  destruct (Z.eqb_spec q two53) as [H|H].
  - exists two52, (Z.log2 M + 1). split; [exact Hr|].
    split; [consts; lia|]. split; [lia|]. split.
    + intros Hk. assert (HL : Z.log2 M = 55) by lia. rewrite HL in Hbg.
      destruct Hbg as [Ha _]; [lia|]. subst q. pow_lit (55 - 52). consts. lia.
    + intros Hs. exfalso.
      pose proof (small_scaled_range M (proj1 HM) Hs) as Hrg.
      rewrite Hsm in H by lia.
      replace (- (Z.log2 M - 52)) with (52 - Z.log2 M) in H by lia. lia.
  - exists q, (Z.log2 M). split; [exact Hr|].
    split; [lia|]. split; [lia|]. split; [lia|].
    intros Hs. split; [reflexivity|]. rewrite Hsm by lia. f_equal. f_equal. lia.
Qed.

(** The statement [decode_reencode_stable] of Properties/C15.v is FALSE of the model for
    the eight words with exponent byte 127 and mantissa >= 2^56 - 4: they decode
    (rounding up) to +-2^252 = 16^63, which is above the largest encodable exponent;
    encode clamps the exponent to 63, the mantissa becomes 2^56 and is truncated to 0
    by [mod two56], so the re-encoded word decodes to zero. *)
Theorem decode_reencode_stable_refuted :
  exists w, word64 w /\ forall est,
    ~ (gds_decode (gds_encode_with est (gds_decode w)) = gds_decode w
       \/ (f64_is_zero (gds_decode w) = true /\
           f64_is_zero (gds_decode (gds_encode_with est (gds_decode w))) = true)).
Proof.
  exists 9223372036854775807 (* 0x7FFFFFFFFFFFFFFF *).
  split; [unfold word64; consts; lia|].
  intros est.
  assert (Hd : gds_decode 9223372036854775807 = f64_of_norm false two52 200)
    by (vm_compute; reflexivity).
  rewrite Hd.
  assert (Hdc : f64_decomp (f64_of_norm false two52 200) = Some (false, two52, 200))
    by (vm_compute; reflexivity).
  assert (He : gds_encode_with est (f64_of_norm false two52 200) = 127 * two56).
  { rewrite (encode_with_decomp est _ false two52 200 Hdc) by (consts; lia).
    rewrite adj_fuel_enough by (consts; lia). vm_compute. reflexivity. }
  rewrite He. vm_compute. intros [H|[H _]]; discriminate H.
Qed.

(** It holds for every other word. *)
Theorem decode_reencode_stable_below_max :
  forall est w, word64 w ->
    ~ (gds_exp7 w = 127 /\ two56 - 4 <= gds_mant w) ->
    gds_decode (gds_encode_with est (gds_decode w)) = gds_decode w
    \/ (f64_is_zero (gds_decode w) = true /\
        f64_is_zero (gds_decode (gds_encode_with est (gds_decode w))) = true).
Proof.
  intros est w Hw Hnot.
  destruct (Z.eq_dec (gds_mant w) 0) as [Hz|Hnz].
  { right. pose proof (decode_zero_mantissa w Hw Hz) as H0. split; [exact H0|].
    apply decode_encode_zero. exact H0. }
  left.
  destruct (word_fields w Hw) as (Hweq & HX & _).
  destruct (log2_mant_range w Hw Hnz) as (HM & HL).
  destruct (rne53_range (gds_mant w) HM) as (m & k & Hr & Hm & Hk & Hk56 & Hsmall).
  rewrite (gds_decode_nz w m k Hnz Hr). unfold gds_e2.
  set (M := gds_mant w) in *. set (X := gds_exp7 w) in *. set (s := gds_sign w) in *.
  destruct (Z.le_gt_cases (-312) (k - 52 + (4 * (X - 64) - 56))) as [Hlo|Hlo].
  - (* base-16 exponent within -64..63 *)
    apply roundtrip_mid; [exact Hm|]. split; [exact Hlo|].
    destruct (Z.eq_dec k 56) as [H56|H56]; [|lia].
    specialize (Hk56 H56). lia.
  - (* below 16^-65: the exponent is clamped to -64 and the mantissa is de-normalised *)
    assert (Hs52 : Z.log2 M <= 52) by lia.
    destruct (Hsmall Hs52) as (Hk' & Hm'). subst k.
    set (L := Z.log2 M) in *.
    set (t := 52 - L - 4 * X).
    assert (Ht : 0 < t) by (subst t; lia).
    set (e := L - 52 + (4 * (X - 64) - 56)) in *.
    assert (Hm0 : 0 < m) by (consts; lia).
    assert (Hmt : m = M * 2 ^ (4 * X) * 2 ^ t).
    { rewrite Hm', <- Z.mul_assoc, <- Z.pow_add_r by lia. f_equal. f_equal. subst t. lia. }
    assert (Hd : f64_decomp (f64_of_norm s m e) = Some (s, m, e))
      by (apply decomp_of_norm; [exact Hm | subst e; lia]).
    rewrite (encode_with_decomp est _ s m e Hd) by lia.
    rewrite (adj_fuel_enough est m e Hm0), (true_exp16_norm m e Hm).
    assert (Hcl : clampZ (-64) 63 ((e + 56) / 4) = -64)
      by (unfold clampZ; subst e; dm_lia).
    rewrite Hcl.
    replace (e + 56 - 4 * -64) with (- t) by (subst e t; lia).
    rewrite Hmt at 1. rewrite rha_exact_neg by exact Ht.
    set (M' := M * 2 ^ (4 * X)).
    assert (HM'0 : 0 < M') by (subst M'; apply Z.mul_pos_pos; [lia | apply Z.pow_pos_nonneg; lia]).
    assert (HL' : Z.log2 M' = 4 * X + L) by (subst M' L; apply Z.log2_mul_pow2; lia).
    assert (HM' : M' < two52).
    { rewrite two52_eq. apply Z.log2_lt_pow2; [exact HM'0|]. subst t. lia. }
    rewrite Z.min_l by (consts; lia).
    rewrite Z.mod_small by (consts; lia).
    assert (HX0 : 0 <= 64 + -64 <= 127) by lia.
    assert (HMr : 0 <= M' < two56) by (consts; lia).
    destruct (gds_fields _ s (64 + -64) M' eq_refl HX0 HMr) as (_ & Hs' & Hx7' & Hmt').
    rewrite (gds_decode_nz _ (M' * 2 ^ (52 - Z.log2 M')) (Z.log2 M')).
    + rewrite Hs'. unfold gds_e2. rewrite Hx7'. rewrite HL'. f_equal.
      * rewrite Hm'. subst M'. rewrite <- Z.mul_assoc, <- Z.pow_add_r by lia.
        f_equal. f_equal. lia.
      * subst e. lia.
    + rewrite Hmt'. lia.
    + rewrite Hmt'. apply rne53_small; [exact HM'0 | lia].
Qed.

(** * The code before the repair *)

Theorem orig_refuted :
  exists x est, word64 x /\ in_gds_rangeb x = true /\
    gds_decode (gds_encode_orig_with est x) <> x.
Proof.
  exists 4625196817309499391 (* 0x402FFFFFFFFFFFFF = 16 - 2^-49 *), 2.
  split; [unfold word64; consts; lia|].
  split; [vm_compute; reflexivity|].
  vm_compute. intros H. discriminate H.
Qed.
