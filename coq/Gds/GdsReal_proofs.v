From Coq Require Import ZArith Bool Lia.
From L21 Require Import Base.F64 Gds.GdsReal.
Local Open Scope Z_scope.
